import GaeaVerif.Model.ResourcePool
/-
  Helper definitions and lemmas for C24: sums over the thread list, the
  per-thread measures of the inductive invariant (slots held, pending grow /
  close work, counter lags) and the effect of one `stepThread` on them.
-/
namespace GaeaVerif.C24
open GaeaVerif.ResourcePool

/-! ## Sums over threads -/

def sumN (f : Thread → Nat) (l : List Thread) : Nat := (l.map f).sum
def sumI (f : Thread → Int) (l : List Thread) : Int := (l.map f).sum

@[simp] theorem sumN_nil (f : Thread → Nat) : sumN f [] = 0 := rfl
@[simp] theorem sumN_cons (f : Thread → Nat) (t : Thread) (l : List Thread) :
    sumN f (t :: l) = f t + sumN f l := by simp [sumN]
@[simp] theorem sumI_nil (f : Thread → Int) : sumI f [] = 0 := rfl
@[simp] theorem sumI_cons (f : Thread → Int) (t : Thread) (l : List Thread) :
    sumI f (t :: l) = f t + sumI f l := by simp [sumI]

theorem sumN_append (f : Thread → Nat) (l m : List Thread) : sumN f (l ++ m) = sumN f l + sumN f m := by
  induction l with
  | nil => simp
  | cons a l ih => simp [ih]; omega

theorem sumI_append (f : Thread → Int) (l m : List Thread) : sumI f (l ++ m) = sumI f l + sumI f m := by
  induction l with
  | nil => simp
  | cons a l ih => simp [ih]; omega

theorem sumN_set (f : Thread → Nat) (l : List Thread) (i : Nat) (t x : Thread) (h : l[i]? = some t) :
    sumN f (l.set i x) + f t = sumN f l + f x := by
  induction l generalizing i with
  | nil => simp at h
  | cons a l ih =>
    cases i with
    | zero => simp at h; subst h; simp; omega
    | succ i => simp at h; have := ih i h; simp; omega

theorem sumI_set (f : Thread → Int) (l : List Thread) (i : Nat) (t x : Thread) (h : l[i]? = some t) :
    sumI f (l.set i x) + f t = sumI f l + f x := by
  induction l generalizing i with
  | nil => simp at h
  | cons a l ih =>
    cases i with
    | zero => simp at h; subst h; simp; omega
    | succ i => simp at h; have := ih i h; simp; omega

theorem sumN_elem_le (f : Thread → Nat) (l : List Thread) (i : Nat) (t : Thread) (h : l[i]? = some t) :
    f t ≤ sumN f l := by
  induction l generalizing i with
  | nil => simp at h
  | cons a l ih =>
    cases i with
    | zero => simp at h; subst h; simp
    | succ i => simp at h; have := ih i h; simp; omega

theorem sumN_zero_of (f g : Thread → Nat) (hfg : ∀ t, g t = 0 → f t = 0) (l : List Thread)
    (h : sumN g l = 0) : sumN f l = 0 := by
  induction l with
  | nil => simp
  | cons a l ih =>
    simp at h ⊢
    exact ⟨hfg a h.1, ih h.2⟩

theorem sumN_map_zero {α : Type} (f : Thread → Nat) (g : α → Thread) (hz : ∀ x, f (g x) = 0) (l : List α) :
    sumN f (l.map g) = 0 := by
  induction l with
  | nil => simp
  | cons a l ih => simp [hz, ih]

theorem sumI_map_zero {α : Type} (f : Thread → Int) (g : α → Thread) (hz : ∀ x, f (g x) = 0) (l : List α) :
    sumI f (l.map g) = 0 := by
  induction l with
  | nil => simp
  | cons a l ih => simp [hz, ih]

theorem sumN_le_of (f g : Thread → Nat) (h : ∀ t, f t ≤ g t) (l : List Thread) : sumN f l ≤ sumN g l := by
  induction l with
  | nil => simp
  | cons a l ih => have := h a; simp; omega

theorem sumN_congr (f g : Thread → Nat) (l : List Thread) (h : ∀ t ∈ l, f t = g t) : sumN f l = sumN g l := by
  induction l with
  | nil => simp
  | cons a l ih =>
    have h1 := h a (by simp)
    have h2 := ih (fun t ht => h t (by simp [ht]))
    simp; omega

theorem sumI_zero_of (f : Thread → Int) (l : List Thread) (h : ∀ t ∈ l, f t = 0) : sumI f l = 0 := by
  induction l with
  | nil => simp
  | cons a l ih =>
    have h1 := h a (by simp)
    have h2 := ih (fun t ht => h t (by simp [ht]))
    simp; omega

theorem sumN_two_le (f : Thread → Nat) (l : List Thread) (i j : Nat) (a b : Thread) (hij : i ≠ j)
    (hi : l[i]? = some a) (hj : l[j]? = some b) : f a + f b ≤ sumN f l := by
  induction l generalizing i j with
  | nil => simp at hi
  | cons x l ih =>
    cases i with
    | zero =>
      cases j with
      | zero => exact absurd rfl hij
      | succ j =>
        simp at hi hj; subst hi
        have := sumN_elem_le f l j b hj
        simp; omega
    | succ i =>
      cases j with
      | zero =>
        simp at hi hj; subst hj
        have := sumN_elem_le f l i a hi
        simp; omega
      | succ j =>
        simp at hi hj
        have := ih i j (by omega) hi hj
        simp; omega

/-! ## Per-thread measures -/

/-- Slots (tokens) a thread holds inside an operation, by program counter. -/
def pcTok : Pc → Nat
  | .soAvail _ | .gMake _ | .gFailSend | .gAct _ | .gAvail _ | .gInUse _
  | .pAct | .pSend _ | .cAct _ _ | .cSend _ _ _ => 1
  | .soRelease _ ok => if ok then 1 else 0
  | .soUnlock _ ok _ => if ok then 1 else 0
  | _ => 0

/-- Slots held by a thread: inside an operation, or as resources of its client. -/
def tok (t : Thread) : Nat := pcTok t.pc + t.held.length

/-- Slots a growing ScaleCapacity still has to put into the channel. -/
def growP (t : Thread) : Nat :=
  match t.pc with
  | .sGrowSend c old i => (c - old - i).toNat
  | .sGrowAvail c old i => (c - old - i - 1).toNat
  | _ => 0

/-- Slots a shrinking ScaleCapacity still has to take out of the channel: the
    capacity counter is already lowered by them. -/
def closeP (t : Thread) : Nat :=
  match t.pc with
  | .sShrRecv c old i => (old - c - i).toNat
  | .sShrAct c old i | .sShrAvail c old i => (old - c - i - 1).toNat
  | _ => 0

/-- 1 for a thread that holds the `scaling` semaphore: ScaleCapacity between
    Acquire and the deferred Release, a scale-out between TryAcquire and Release. -/
def holder (t : Thread) : Nat :=
  match t.pc with
  | .soCap2 _ | .soAdd _ _ | .soAvail _ | .soRelease _ _
  | .sLoad _ | .sCas _ _ | .sShrRecv _ _ _ | .sShrAct _ _ _ | .sShrAvail _ _ _
  | .sGrowSend _ _ _ | .sGrowAvail _ _ _ | .sClose | .sUnlock => 1
  | _ => 0

/-- 1 for a thread inside the shrink/grow loops of ScaleCapacity or about to close the channel. -/
def inLoop (t : Thread) : Nat :=
  match t.pc with
  | .sShrRecv _ _ _ | .sShrAct _ _ _ | .sShrAvail _ _ _
  | .sGrowSend _ _ _ | .sGrowAvail _ _ _ | .sClose => 1
  | _ => 0

/-- A ScaleCapacity(0) after its swap: the capacity counter is 0 and stays 0. -/
def zeroing (t : Thread) : Prop :=
  match t.pc with
  | .sShrRecv c _ _ | .sShrAct c _ _ | .sShrAvail c _ _ => c = 0
  | .sClose => True
  | _ => False

/-- 1 for a thread inside closeIdleResources. -/
def sweepF (t : Thread) : Nat :=
  match t.pc with
  | .cLoad | .cRecv _ _ | .cAct _ _ | .cSend _ _ _ => 1
  | _ => 0

/-- 1 for a thread inside scaleInResources (the timer callback, not its goroutine). -/
def tickF (t : Thread) : Nat :=
  match t.pc with
  | .tLock | .tCap | .tTodo | .tUnlock => 1
  | _ => 0

/-- 1 for a thread that holds `rp.lock`. -/
def lockW (t : Thread) : Nat :=
  match t.pc with
  | .soCap _ | .soTry _ | .soCap2 _ | .soAdd _ _ | .soAvail _ | .soRelease _ _ | .soUnlock _ _ _
  | .tCap | .tTodo | .tUnlock => 1
  | _ => 0

/-- Contribution of a thread to the `inUse` counter. -/
def inUseW (t : Thread) : Nat :=
  t.held.length + (match t.pc with | .pAct | .pSend _ | .pInUse => 1 | _ => 0)

/-- Lag of the `available` counter behind the channel length caused by a thread. -/
def avW (t : Thread) : Int :=
  match t.pc with
  | .gMake _ | .gFailSend | .gAct _ | .gAvail _ | .cAct _ _ | .cSend _ _ _
  | .sShrAct _ _ _ | .sShrAvail _ _ _ => 1
  | .soRelease _ ok => if ok then 1 else 0
  | .soUnlock _ ok _ => if ok then 1 else 0
  | .pInUse | .pAvail | .sGrowAvail _ _ _ => -1
  | _ => 0

/-- Program-counter assertions (facts about a thread's local variables). -/
def A (maxCap : Nat) (t : Thread) : Prop :=
  match t.pc with
  | .soAdd _ c => 0 < c ∧ c < maxCap
  | .sLock c | .sLoad c => 0 ≤ c ∧ c ≤ maxCap
  | .sCas c old => 0 ≤ c ∧ c ≤ maxCap ∧ old ≠ 0 ∧ old ≠ c
  | .sShrRecv c old i | .sShrAct c old i | .sShrAvail c old i => 0 ≤ c ∧ 0 ≤ i ∧ i < old - c
  | .sGrowSend c old i | .sGrowAvail c old i => 0 < c ∧ 0 ≤ i ∧ i < c - old
  | _ => True

/-- A Bool as 0/1. -/
def b2n (b : Bool) : Nat := if b then 1 else 0
@[simp] theorem b2n_true : b2n true = 1 := rfl
@[simp] theorem b2n_false : b2n false = 0 := rfl

theorem holder_le_one (t : Thread) : holder t ≤ 1 := by
  obtain ⟨prog, pc, held, child⟩ := t
  cases pc <;> simp [holder]

theorem inLoop_le_holder (t : Thread) : inLoop t ≤ holder t := by
  obtain ⟨prog, pc, held, child⟩ := t
  cases pc <;> simp [holder, inLoop]

theorem closeP_zero_of_inLoop (t : Thread) (h : inLoop t = 0) : closeP t = 0 := by
  obtain ⟨prog, pc, held, child⟩ := t
  cases pc <;> simp_all [inLoop, closeP]

theorem inLoop_zero_of_holder (t : Thread) (h : holder t = 0) : inLoop t = 0 := by
  have := inLoop_le_holder t; omega

theorem closeP_zero_of_holder (t : Thread) (h : holder t = 0) : closeP t = 0 :=
  closeP_zero_of_inLoop t (inLoop_zero_of_holder t h)

/-- If `t` carries the whole sum of `g`, every measure that vanishes with `g`
    is carried by `t` alone. -/
theorem sumN_eq_of_others_zero (f g : Thread → Nat) (hfg : ∀ t, g t = 0 → f t = 0)
    (l : List Thread) (i : Nat) (t : Thread) (h : l[i]? = some t) (hg : sumN g l ≤ g t) :
    sumN f l = f t := by
  induction l generalizing i with
  | nil => simp at h
  | cons a l ih =>
    cases i with
    | zero =>
      simp at h; subst h
      simp at hg
      have := sumN_zero_of f g hfg l (by omega)
      simp; omega
    | succ i =>
      simp at h
      have e := sumN_elem_le g l i t h
      simp at hg
      have ha : g a = 0 := by omega
      have := hfg a ha
      have := ih i h (by omega)
      simp; omega

/-! ## Resource occurrences (for "no resource is issued twice") -/

def slotRes (r : Nat) : Slot → Nat
  | some x => if x = r then 1 else 0
  | none => 0

def pcRes (r : Nat) : Pc → Nat
  | .gAct x | .gAvail x | .gInUse x => if x = r then 1 else 0
  | .pSend w => slotRes r w
  | .cSend _ _ w => slotRes r w
  | _ => 0

/-- Occurrences of resource `r` at a thread: held by its client or carried by
    the operation in progress. -/
def resW (r : Nat) (t : Thread) : Nat := t.held.count r + pcRes r t.pc

/-! ## One `stepThread` and the measures

  Every lemma below is proved by the same case analysis over the program
  counter and the branches of `stepThread`. -/

syntax "step_auto" ident : tactic
macro_rules
  | `(tactic| step_auto $h:ident) => `(tactic| (
      all_goals (repeat' split at $h:ident)
      all_goals (first | cases $h:ident | skip)
      all_goals (simp_all [tok, pcTok, growP, closeP, holder, inLoop, zeroing, sweepF, tickF, lockW, inUseW, avW, A, b2n])
      all_goals (try omega)))

/-- The slot balance `len(chan) + held + pending grow - capacity - pending shrink` is unchanged. -/
theorem step_eq (p : Pool) (t : Thread) (a : Alt) (r : Res)
    (h : stepThread p t a = some r)
    (hA : A p.maxCap t)
    (hcl : p.closed = true → tok t = 0 ∧ growP t = 0 ∧ inLoop t = 0)
    (hroom : p.chan.length + tok t + growP t ≤ p.maxCap) :
    (r.pool.chan.length : Int) + tok r.thr + growP r.thr - r.pool.capacity - closeP r.thr
      = p.chan.length + tok t + growP t - p.capacity - closeP t := by
  obtain ⟨prog, pc, held, child⟩ := t
  cases pc <;> simp only [stepThread, startOp, sweepEnd, scaleEntry, scaleTail, gotWrapper, afterScale] at h
  step_auto h

/-- The capacity counter: stays within bounds together with the pending
    shrink of the stepping thread, is only changed by the holder of the
    semaphore, stays 0 once it is 0; the channel is closed only at capacity 0. -/
theorem step_cap (p : Pool) (t : Thread) (a : Alt) (r : Res)
    (h : stepThread p t a = some r)
    (hA : A p.maxCap t)
    (hcl : p.closed = true → tok t = 0 ∧ growP t = 0 ∧ inLoop t = 0)
    (hcap : 0 ≤ p.capacity) (hcc : p.closed = true → p.capacity = 0)
    (hz : zeroing t → p.capacity = 0)
    (hb : p.capacity + closeP t ≤ p.maxCap) :
    0 ≤ r.pool.capacity
    ∧ r.pool.capacity + closeP r.thr ≤ p.maxCap
    ∧ (holder t = 0 → r.pool.capacity = p.capacity ∧ closeP r.thr = 0)
    ∧ (p.capacity = 0 → r.pool.capacity = 0)
    ∧ (zeroing r.thr → r.pool.capacity = 0)
    ∧ (r.pool.closed = true → r.pool.capacity = 0 ∧ inLoop r.thr = 0 ∧ (p.closed = true ∨ inLoop t = 1)) := by
  obtain ⟨prog, pc, held, child⟩ := t
  cases pc <;> simp only [stepThread, startOp, sweepEnd, scaleEntry, scaleTail, gotWrapper, afterScale] at h
  step_auto h
  all_goals (try (rcases hpc : p.closed with _ | _ <;> simp_all <;> omega))

/-- The `scaling` semaphore is taken exactly while a thread holds it. -/
theorem step_holder (p : Pool) (t : Thread) (a : Alt) (r : Res)
    (h : stepThread p t a = some r)
    (hh : holder t = 1 → p.scaling = true) :
    b2n r.pool.scaling + holder t = b2n p.scaling + holder r.thr := by
  obtain ⟨prog, pc, held, child⟩ := t
  cases pc <;> simp only [stepThread, startOp, sweepEnd, scaleEntry, scaleTail, gotWrapper, afterScale] at h
  step_auto h
  all_goals (try (rcases hpc : p.scaling with _ | _ <;> simp_all))

/-- Program-counter assertions are preserved; a spawned thread starts with zero measures. -/
theorem step_A (p : Pool) (t : Thread) (a : Alt) (r : Res)
    (h : stepThread p t a = some r)
    (hA : A p.maxCap t) (hcap : 0 ≤ p.capacity) :
    A r.pool.maxCap r.thr ∧ r.pool.maxCap = p.maxCap
    ∧ (∀ c, r.spawn = some c → tok c = 0 ∧ growP c = 0 ∧ closeP c = 0 ∧ holder c = 0 ∧ inLoop c = 0
        ∧ inUseW c = 0 ∧ avW c = 0 ∧ A p.maxCap c ∧ c.pc ≠ .dead ∧ ¬ zeroing c) := by
  obtain ⟨prog, pc, held, child⟩ := t
  cases pc <;> simp only [stepThread, startOp, sweepEnd, scaleEntry, scaleTail, gotWrapper, afterScale] at h
  step_auto h

/-- The `inUse` and `available` counters follow the threads; no thread panics. -/
theorem step_counters (p : Pool) (t : Thread) (a : Alt) (r : Res)
    (h : stepThread p t a = some r)
    (hcl : p.closed = true → tok t = 0 ∧ growP t = 0 ∧ inLoop t = 0)
    (hroom : p.chan.length + tok t + growP t ≤ p.maxCap) (hA : A p.maxCap t) :
    r.pool.inUse - inUseW r.thr = p.inUse - inUseW t
    ∧ r.pool.available - r.pool.chan.length - avW r.thr = p.available - p.chan.length - avW t
    ∧ r.thr.pc ≠ .dead := by
  obtain ⟨prog, pc, held, child⟩ := t
  cases pc <;> simp only [stepThread, startOp, sweepEnd, scaleEntry, scaleTail, gotWrapper, afterScale] at h
  step_auto h
  all_goals (try (rcases hpc : p.closed with _ | _ <;> simp_all <;> omega))

/-- Occurrences of a resource never grow, except for the fresh number the factory hands out. -/
theorem step_res (p : Pool) (t : Thread) (a : Alt) (q : Res) (r : Nat)
    (h : stepThread p t a = some q) :
    ((q.pool.nextRes = p.nextRes ∧ q.pool.chan.count (some r) + resW r q.thr ≤ p.chan.count (some r) + resW r t)
     ∨ (q.pool.nextRes = p.nextRes + 1 ∧
        q.pool.chan.count (some r) + resW r q.thr ≤ p.chan.count (some r) + resW r t + (if p.nextRes = r then 1 else 0)))
    ∧ (∀ c, q.spawn = some c → resW r c = 0) := by
  obtain ⟨prog, pc, held, child⟩ := t
  cases pc <;> simp only [stepThread, startOp, sweepEnd, scaleEntry, scaleTail, gotWrapper, afterScale] at h
  all_goals (repeat' split at h)
  all_goals (first | cases h | skip)
  all_goals (simp_all [resW, pcRes, slotRes, List.count_cons, List.count_append])
  all_goals (try (cases ‹Slot› <;> simp_all))
  all_goals (try (split <;> omega))
  all_goals (try omega)

/-! ## Panics -/

def evIsPanic : Ev → Bool
  | .panicPutFull | .panicPutClosed | .panicSendClosed | .panicCloseClosed => true
  | _ => false

/-- A step reports a panic exactly when it kills the thread. -/
theorem ev_panic_dead (p : Pool) (t : Thread) (a : Alt) (r : Res) (h : stepThread p t a = some r) :
    evIsPanic r.ev = true → r.thr.pc = .dead := by
  obtain ⟨prog, pc, held, child⟩ := t
  cases pc <;> simp only [stepThread, startOp, sweepEnd, scaleEntry, scaleTail, gotWrapper, afterScale] at h
  all_goals (repeat' split at h)
  all_goals (first | cases h | skip)
  all_goals (simp_all [evIsPanic])

/-! ## The fragment Get / Put / Put(nil) / sweep / Close -/

def basicOp : Op → Bool
  | .get _ | .put | .drop | .sweep | .close | .age => true
  | _ => false

/-! ## Locks, timers and progress -/

/-- `rp.lock` is held exactly while a thread is in a locked section; `idleBusy` /
    `capBusy` count the running timer callbacks. -/
theorem step_locks (p : Pool) (t : Thread) (a : Alt) (r : Res)
    (h : stepThread p t a = some r)
    (hcl : p.closed = true → tok t = 0 ∧ growP t = 0 ∧ inLoop t = 0)
    (hroom : p.chan.length + tok t + growP t ≤ p.maxCap)
    (hl : lockW t = 1 → p.lock = true)
    (h9 : sweepF t ≤ p.idleBusy) (h10 : tickF t ≤ p.capBusy) :
    b2n r.pool.lock + lockW t = b2n p.lock + lockW r.thr
    ∧ sweepF r.thr + p.idleBusy = sweepF t + r.pool.idleBusy
    ∧ tickF r.thr + p.capBusy = tickF t + r.pool.capBusy
    ∧ (∀ c, r.spawn = some c → lockW c = 0 ∧ sweepF c = 0 ∧ tickF c = 0) := by
  obtain ⟨prog, pc, held, child⟩ := t
  cases pc <;> simp only [stepThread, startOp, sweepEnd, scaleEntry, scaleTail, gotWrapper, afterScale] at h
  step_auto h
  all_goals (try (rcases hpc : p.lock with _ | _ <;> simp_all <;> omega))

/-- The compare-and-swap of the holder of the semaphore sees the value it loaded. -/
def casOk (p : Pool) (t : Thread) : Prop :=
  match t.pc with
  | .soAdd _ c => p.capacity = c
  | .sCas _ old => p.capacity = old
  | _ => True

theorem casOk_of_not_holder (p : Pool) (t : Thread) (h : holder t = 0) : casOk p t := by
  obtain ⟨prog, pc, held, child⟩ := t
  cases pc <;> simp_all [holder, casOk]

theorem step_casOk (p : Pool) (t : Thread) (a : Alt) (r : Res)
    (h : stepThread p t a = some r) :
    casOk r.pool r.thr ∧ (∀ c, r.spawn = some c → holder c = 0) := by
  obtain ⟨prog, pc, held, child⟩ := t
  cases pc <;> simp only [stepThread, startOp, sweepEnd, scaleEntry, scaleTail, gotWrapper, afterScale] at h
  all_goals (repeat' split at h)
  all_goals (first | cases h | skip)
  all_goals (simp_all [casOk, holder])

/-- Why a thread cannot move. -/
inductive Blocked (p : Pool) (t : Thread) : Prop where
  | finished : t.pc = .idle → t.prog = [] → Blocked p t
  | dead : t.pc = .dead → Blocked p t
  | onLock : lockW t = 0 → p.lock = true → (t.pc = .tLock ∨ ∃ f, t.pc = .soLock f) → Blocked p t
  | onScaling : holder t = 0 → p.scaling = true → (∃ c, t.pc = .sLock c) → Blocked p t
  | getWait : p.chan = [] → p.closed = false → (∃ f, t.pc = .gWait f) → Blocked p t
  | shrinkWait : p.chan = [] → p.closed = false → (∃ c old i, t.pc = .sShrRecv c old i) → Blocked p t
  | full : p.maxCap ≤ p.chan.length → (1 ≤ tok t ∨ ∃ c old i, t.pc = .sGrowSend c old i) → Blocked p t
  | idleTimer : p.idleBusy ≠ 0 → t.pc = .clIdle → Blocked p t
  | capTimer : p.capBusy ≠ 0 → t.pc = .clCap → Blocked p t

theorem blocked_cases (p : Pool) (t : Thread) (a : Alt) (h : stepThread p t a = none) : Blocked p t := by
  obtain ⟨prog, pc, held, child⟩ := t
  cases pc <;> simp only [stepThread, startOp, sweepEnd, scaleEntry, scaleTail, gotWrapper, afterScale] at h
  case idle =>
    cases prog with
    | nil => exact .finished rfl rfl
    | cons op rest =>
      exfalso
      cases op <;> simp at h <;> (repeat' split at h) <;> simp_all
  case dead => exact .dead rfl
  case soLock f => exact .onLock (by simp [lockW]) (by simp_all) (Or.inr ⟨f, rfl⟩)
  case tLock => exact .onLock (by simp [lockW]) (by simp_all) (Or.inl rfl)
  case sLock c => exact .onScaling (by simp [holder]) (by simp_all) ⟨c, rfl⟩
  case gWait f =>
    cases hch : p.chan with
    | nil => simp [hch] at h; split at h <;> simp_all; exact .getWait hch (by simp_all) ⟨f, rfl⟩
    | cons w rest => simp [hch] at h; split at h <;> simp_all
  case sShrRecv c old i =>
    cases hch : p.chan with
    | nil => simp [hch] at h; exact .shrinkWait hch (by simp_all) ⟨c, old, i, rfl⟩
    | cons w rest => cases w <;> simp [hch] at h
  case gFailSend => exact .full (by (repeat' split at h) <;> simp_all <;> omega) (Or.inl (by simp [tok, pcTok]))
  case cSend n i w => exact .full (by (repeat' split at h) <;> simp_all <;> omega) (Or.inl (by simp [tok, pcTok]))
  case sGrowSend c old i =>
    exact .full (by (repeat' split at h) <;> simp_all <;> omega) (Or.inr ⟨c, old, i, rfl⟩)
  case clIdle => exact .idleTimer (by simp_all) rfl
  case clCap => exact .capTimer (by simp_all) rfl
  all_goals (exfalso; (repeat' split at h) <;> simp_all)

/-- Inside a section locked by `rp.lock` every step is enabled. -/
theorem lock_section_enabled (p : Pool) (t : Thread) (a : Alt) (h : lockW t = 1) :
    (stepThread p t a).isSome = true := by
  obtain ⟨prog, pc, held, child⟩ := t
  cases pc <;> simp [lockW] at h <;> simp only [stepThread] <;> (repeat' split) <;> simp

/-- The holder of the semaphore can always move, except when a shrinking
    ScaleCapacity waits for a slot of the empty channel (or a send finds the channel full). -/
theorem holder_enabled (p : Pool) (t : Thread) (a : Alt) (h : holder t = 1) :
    (stepThread p t a).isSome = true
    ∨ (p.chan = [] ∧ p.closed = false ∧ ∃ c old i, t.pc = .sShrRecv c old i)
    ∨ (p.maxCap ≤ p.chan.length ∧ ∃ c old i, t.pc = .sGrowSend c old i) := by
  obtain ⟨prog, pc, held, child⟩ := t
  cases pc <;> simp [holder] at h <;> simp only [stepThread, scaleTail, afterScale]
  case sShrRecv c old i =>
    cases hch : p.chan with
    | nil => cases hcl : p.closed <;> simp
    | cons w rest => cases w <;> simp
  case sGrowSend c old i =>
    by_cases hcl : p.closed = true
    · simp [hcl]
    · by_cases hlen : p.chan.length < p.maxCap
      · simp [hcl, hlen]
      · right; right; exact ⟨by omega, c, old, i, rfl⟩
  all_goals (left; (repeat' split) <;> simp)

/-- A running idle sweep can always move unless its send finds the channel full. -/
theorem sweep_enabled (p : Pool) (t : Thread) (a : Alt) (h : sweepF t = 1) (hroom : p.chan.length + tok t ≤ p.maxCap) :
    (stepThread p t a).isSome = true := by
  obtain ⟨prog, pc, held, child⟩ := t
  cases pc <;> simp [sweepF] at h <;> simp only [stepThread, sweepEnd]
  case cSend n i w =>
    simp [tok, pcTok] at hroom
    have : p.chan.length < p.maxCap := by omega
    (repeat' split) <;> simp_all
  all_goals ((repeat' split) <;> simp)

/-- A running scale-in tick can always move unless it waits for `rp.lock`. -/
theorem tick_enabled (p : Pool) (t : Thread) (a : Alt) (h : tickF t = 1) (hl : p.lock = false) :
    (stepThread p t a).isSome = true := by
  obtain ⟨prog, pc, held, child⟩ := t
  cases pc <;> simp [tickF] at h <;> simp only [stepThread] <;> (repeat' split) <;> simp_all

/-- Steps the holder of the semaphore still has to take before it releases
    it (the capacity counter only changes by its own steps). -/
def rank (p : Pool) (t : Thread) : Nat :=
  match t.pc with
  | .soCap2 _ => 4 | .soAdd _ _ => 3 | .soAvail _ => 2 | .soRelease _ _ => 1
  | .sLoad c => 3 * (p.capacity - c).toNat + 2 * (c - p.capacity).toNat + 4
  | .sCas c old => 3 * (old - c).toNat + 2 * (c - old).toNat + 3
  | .sShrRecv c old i => 3 * (old - c - i).toNat + 2
  | .sShrAct c old i => 3 * (old - c - i - 1).toNat + 4
  | .sShrAvail c old i => 3 * (old - c - i - 1).toNat + 3
  | .sGrowSend c old i => 2 * (c - old - i).toNat + 2
  | .sGrowAvail c old i => 2 * (c - old - i - 1).toNat + 3
  | .sClose => 2 | .sUnlock => 1
  | _ => 0

/-- Every step of the holder brings the release of the semaphore nearer. -/
theorem step_rank (p : Pool) (t : Thread) (a : Alt) (r : Res)
    (h : stepThread p t a = some r) (hh : holder t = 1)
    (hA : A p.maxCap t) (hc : casOk p t) :
    holder r.thr = 0 ∨ rank r.pool r.thr < rank p t := by
  obtain ⟨prog, pc, held, child⟩ := t
  cases pc <;> simp [holder] at hh <;>
    simp only [stepThread, scaleTail, afterScale] at h
  all_goals (repeat' split at h)
  all_goals (first | cases h | skip)
  all_goals (simp_all [holder, rank, A, casOk])
  all_goals (try omega)

/-- The same for `rp.lock`: steps left before the unlock. -/
def lockRank (t : Thread) : Nat :=
  match t.pc with
  | .soCap _ => 7 | .soTry _ => 6 | .soCap2 _ => 5 | .soAdd _ _ => 4 | .soAvail _ => 3
  | .soRelease _ _ => 2 | .soUnlock _ _ _ => 1
  | .tCap => 3 | .tTodo => 2 | .tUnlock => 1
  | _ => 0

theorem step_lockRank (p : Pool) (t : Thread) (a : Alt) (r : Res)
    (h : stepThread p t a = some r) (hh : lockW t = 1) (hc : casOk p t) :
    lockRank r.thr < lockRank t ∧ (lockW r.thr = 0 ↔ lockRank r.thr = 0) := by
  obtain ⟨prog, pc, held, child⟩ := t
  cases pc <;> simp [lockW] at hh <;>
    simp only [stepThread] at h
  all_goals (repeat' split at h)
  all_goals (first | cases h | skip)
  all_goals (simp_all [lockW, lockRank, casOk])

/-! ## Sums after a step of the whole system -/

theorem sumN_step (f : Thread → Nat) (l l' : List Thread) (i : Nat) (t x : Thread) (sp : Option Thread)
    (h : l[i]? = some t)
    (hl' : l' = match sp with | some c => l.set i x ++ [c] | none => l.set i x)
    (hsp : ∀ c, sp = some c → f c = 0) :
    sumN f l' + f t = sumN f l + f x := by
  have := sumN_set f l i t x h
  subst hl'
  cases sp with
  | none => simpa using this
  | some c => have := hsp c rfl; simp [sumN_append]; omega

theorem sumI_step (f : Thread → Int) (l l' : List Thread) (i : Nat) (t x : Thread) (sp : Option Thread)
    (h : l[i]? = some t)
    (hl' : l' = match sp with | some c => l.set i x ++ [c] | none => l.set i x)
    (hsp : ∀ c, sp = some c → f c = 0) :
    sumI f l' + f t = sumI f l + f x := by
  have := sumI_set f l i t x h
  subst hl'
  cases sp with
  | none => simpa using this
  | some c => have := hsp c rfl; simp [sumI_append]; omega

theorem mem_step {l l' : List Thread} {i : Nat} {x t' : Thread} {sp : Option Thread}
    (hl' : l' = match sp with | some c => l.set i x ++ [c] | none => l.set i x) (h : t' ∈ l') :
    t' ∈ l ∨ t' = x ∨ sp = some t' := by
  subst hl'
  cases sp with
  | none =>
    rcases List.mem_or_eq_of_mem_set h with h | h
    · exact Or.inl h
    · exact Or.inr (Or.inl h)
  | some c =>
    simp at h
    rcases h with h | h
    · rcases List.mem_or_eq_of_mem_set h with h | h
      · exact Or.inl h
      · exact Or.inr (Or.inl h)
    · exact Or.inr (Or.inr (by rw [h]))

theorem mem_step_idx {l l' : List Thread} {i : Nat} {x t' : Thread} {sp : Option Thread}
    (hl' : l' = match sp with | some c => l.set i x ++ [c] | none => l.set i x) (h : t' ∈ l') :
    (∃ j, j ≠ i ∧ l[j]? = some t') ∨ t' = x ∨ sp = some t' := by
  have key : t' ∈ l.set i x → (∃ j, j ≠ i ∧ l[j]? = some t') ∨ t' = x := by
    intro hm
    obtain ⟨j, hj⟩ := List.mem_iff_getElem?.mp hm
    rw [List.getElem?_set] at hj
    by_cases hij : i = j
    · simp [hij] at hj
      right; exact hj.2.symm
    · simp [hij] at hj
      left; exact ⟨j, fun e => hij e.symm, hj⟩
  subst hl'
  cases sp with
  | none =>
    rcases key h with h | h
    · exact Or.inl h
    · exact Or.inr (Or.inl h)
  | some c =>
    simp at h
    rcases h with h | h
    · rcases key h with h | h
      · exact Or.inl h
      · exact Or.inr (Or.inl h)
    · exact Or.inr (Or.inr (by rw [h]))

theorem sumN_pos_exists (f : Thread → Nat) (l : List Thread) (h : 0 < sumN f l) : ∃ t ∈ l, 0 < f t := by
  induction l with
  | nil => simp at h
  | cons a l ih =>
    simp at h
    by_cases ha : 0 < f a
    · exact ⟨a, by simp, ha⟩
    · obtain ⟨t, ht, hf⟩ := ih (by omega)
      exact ⟨t, by simp [ht], hf⟩

end GaeaVerif.C24
