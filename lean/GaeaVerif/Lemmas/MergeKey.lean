import GaeaVerif.Model.Merge
/-
  C02 helper lemmas: the re-encoded group / distinct map key is injective.
-/
namespace GaeaVerif.Merge

theorem mk_leBytes_length (i n : Nat) : (leBytes i n).length = n := by
  induction n generalizing i with
  | zero => rfl
  | succ n ih => simp [leBytes, ih]

theorem mk_leNat_leBytes (n i : Nat) (h : i < 256 ^ n) : leNat (leBytes i n) = i := by
  induction n generalizing i with
  | zero => simp at h; subst h; rfl
  | succ n ih =>
    simp only [leBytes, leNat]
    have h2 : i / 256 < 256 ^ n := by
      rw [Nat.div_lt_iff_lt_mul (by decide)]; rw [Nat.pow_succ] at h; omega
    rw [ih _ h2]
    have : (UInt8.ofNat (i % 256)).toNat = i % 256 := by
      simp [UInt8.toNat_ofNat']
    rw [this]; omega

/-- what the key keeps of a column: NULL or the text of the value -/
def keyText : Val → Option (List UInt8)
  | .null => none
  | v => some (formatValue v)

/-- Go strings are shorter than 2^64 bytes -/
def ShortText (v : Val) : Prop := (formatValue v).length < 256 ^ 8

theorem encKey_ne_nil (v : Val) : encKey v ≠ [] := by
  cases v <;> simp [encKey]

theorem encKey_null_head (v : Val) (rest rest' : List UInt8) (hv : v ≠ .null) :
    encKey .null ++ rest ≠ encKey v ++ rest' := by
  cases v <;> simp_all [encKey]

/-- two non-NULL columns followed by anything: equal bytes force equal texts and equal remainders -/
theorem encKey_append_inj (v w : Val) (hv : v ≠ .null) (hw : w ≠ .null) (sv : ShortText v) (sw : ShortText w)
    (r r' : List UInt8) (h : encKey v ++ r = encKey w ++ r') : formatValue v = formatValue w ∧ r = r' := by
  have ev : encKey v = 1 :: (leBytes (formatValue v).length 8 ++ formatValue v) := by
    cases v <;> simp_all [encKey]
  have ew : encKey w = 1 :: (leBytes (formatValue w).length 8 ++ formatValue w) := by
    cases w <;> simp_all [encKey]
  rw [ev, ew] at h
  simp only [List.cons_append, List.cons.injEq, true_and, List.append_assoc] at h
  have hl : (leBytes (formatValue v).length 8).length = (leBytes (formatValue w).length 8).length := by
    simp [mk_leBytes_length]
  have h1 := List.append_inj h hl
  have hlen : (formatValue v).length = (formatValue w).length := by
    have := congrArg leNat h1.1
    rwa [mk_leNat_leBytes 8 _ sv, mk_leNat_leBytes 8 _ sw] at this
  have h2 := List.append_inj h1.2 hlen
  exact h2

/-- **The map key is injective**: equal keys come from column lists that agree
    in length, in which columns are NULL and in the text of all others. -/
theorem generateMapKey_inj : ∀ (k1 k2 : List Val), (∀ v ∈ k1, ShortText v) → (∀ v ∈ k2, ShortText v) →
    generateMapKey k1 = generateMapKey k2 → k1.map keyText = k2.map keyText
  | [], [], _, _, _ => rfl
  | [], w :: ws, _, _, h => by
    simp only [generateMapKey, List.flatMap_nil, List.flatMap_cons] at h
    have := encKey_ne_nil w
    cases hw : encKey w <;> simp_all
  | v :: vs, [], _, _, h => by
    simp only [generateMapKey, List.flatMap_nil, List.flatMap_cons] at h
    have := encKey_ne_nil v
    cases hv : encKey v <;> simp_all
  | v :: vs, w :: ws, s1, s2, h => by
    simp only [generateMapKey, List.flatMap_cons] at h
    have ih := generateMapKey_inj vs ws (fun x hx => s1 x (by simp [hx])) (fun x hx => s2 x (by simp [hx]))
    by_cases hv : v = .null
    · by_cases hw : w = .null
      · subst hv hw
        simp only [encKey, List.cons_append, List.nil_append, List.cons.injEq, true_and] at h
        simp [keyText, ih h]
      · subst hv
        exact absurd h (encKey_null_head w _ _ hw)
    · by_cases hw : w = .null
      · subst hw
        exact absurd h.symm (encKey_null_head v _ _ hv)
      · have := encKey_append_inj v w hv hw (s1 v (by simp)) (s2 w (by simp)) _ _ h
        have e1 : keyText v = keyText w := by
          cases v <;> cases w <;> simp_all [keyText]
        simp only [List.map_cons, e1, ih this.2]

/-- on column lists whose values are determined by their texts (the values of a
    column have one type), equal keys mean equal columns -/
theorem generateMapKey_inj_of_text_inj (k1 k2 : List Val)
    (s1 : ∀ v ∈ k1, ShortText v) (s2 : ∀ v ∈ k2, ShortText v)
    (hinj : ∀ p ∈ k1.zip k2, keyText p.1 = keyText p.2 → p.1 = p.2)
    (h : generateMapKey k1 = generateMapKey k2) : k1 = k2 := by
  have hm := generateMapKey_inj k1 k2 s1 s2 h
  have hlen : k1.length = k2.length := by simpa using congrArg List.length hm
  clear h s1 s2
  induction k1 generalizing k2 with
  | nil => cases k2 <;> simp_all
  | cons v vs ih =>
    cases k2 with
    | nil => simp at hlen
    | cons w ws =>
      simp only [List.map_cons, List.cons.injEq] at hm
      have e := hinj (v, w) (by simp) hm.1
      simp only at e
      subst e
      rw [ih ws (fun p hp => hinj p (by simp [hp])) hm.2 (by simpa using hlen)]

end GaeaVerif.Merge
