import GaeaVerif.Lemmas.C10Dates
import GaeaVerif.Lemmas.C10Mycat
/-
  C10: what `parseRuleSliceInfos` / `parseRule` guarantee of every rule they
  accept, and how that is carried through the two loops of `NewRouter`.
-/
namespace GaeaVerif.C10
open GaeaVerif

/-- what the sharding function of a parsed rule knows about the rule's
    sub-table list `idx` -/
def ShardWF (sh : ShardFn) (idx : List Int) : Prop :=
  match sh with
  | .hash n => 0 < n ∧ IsConsec idx 0 ∧ (idx.length : Int) = n
  | .mod n => 0 < n ∧ IsConsec idx 0 ∧ (idx.length : Int) = n
  | .mycatMod n => 0 < n ∧ IsConsec idx 0 ∧ (idx.length : Int) = n
  | .range shards => IsConsec idx 0 ∧ idx.length = shards.length
  | .mycatLong seg => seg.length = partitionLength ∧ ∀ x ∈ seg, x ∈ idx
  | .mycatString seg _ _ => seg.length = partitionLength ∧ ∀ x ∈ seg, x ∈ idx
  | .mycatMurmur _ count _ => IsConsec idx 0 ∧ (idx.length : Int) = count
  | .mycatPadding p => IsConsec idx 0 ∧ (idx.length : Int) = p.mod ∧ 2 ≤ p.mod ∧ 0 ≤ p.modBegin ∧
      p.modBegin < p.modEnd ∧ p.modEnd ≤ p.padLength
  | _ => True

theorem parseMycatHash_ok (l : List Int) (s d : List Str) (idx : List Int) (t : IntMap)
    (h : parseMycatHashRuleSliceInfos l s d = .ok (idx, t)) :
    parseHashRuleSliceInfos l s = .ok (idx, t) ∧ ∃ dbs, getRealDatabases d = .ok dbs ∧ mapLen t = dbs.length := by
  unfold parseMycatHashRuleSliceInfos at h
  repeat' split at h
  all_goals cases h
  refine ⟨by assumption, _, by assumption, ?_⟩
  omega

theorem parseGlobal_ok (l : List Int) (s d : List Str) (idx : List Int) (t : IntMap)
    (h : parseGlobalTableRuleSliceInfos l s d = .ok (idx, t)) :
    parseHashRuleSliceInfos l s = .ok (idx, t) ∧ (d.length ≠ 0 → ∃ dbs, getRealDatabases d = .ok dbs) := by
  unfold parseGlobalTableRuleSliceInfos at h
  repeat' split at h
  all_goals cases h
  · exact ⟨by assumption, fun _ => ⟨_, by assumption⟩⟩
  · exact ⟨by assumption, fun hne => absurd hne (by assumption)⟩

theorem consec_mem_of_lt {idx : List Int} {n x : Int} (hc : IsConsec idx 0) (hl : (idx.length : Int) = n)
    (h0 : 0 ≤ x) (h1 : x < n) : x ∈ idx := by
  rw [isConsec_mem idx 0 x hc]; omega

theorem parsePaddingMod_spec (a b c d : Str) (m : Int) (p : PaddingMod) (h : parsePaddingMod a b c d m = .ok p) :
    p.mod = m ∧ 2 ≤ p.mod ∧ 0 ≤ p.modBegin ∧ p.modBegin < p.modEnd ∧ p.modEnd ≤ p.padLength := by
  unfold parsePaddingMod at h
  repeat' split at h
  all_goals cases h
  simp only [true_and]
  omega

theorem parseRuleSliceInfos_spec (cfg : Shard) (idx : List Int) (t : IntMap) (sh : ShardFn)
    (h : parseRuleSliceInfos cfg = .ok (idx, t, sh)) :
    SliceInfosOK idx t cfg.slices.length ∧ ShardWF sh idx := by
  unfold parseRuleSliceInfos at h
  split at h
  · -- hash
    split at h <;> cases h
    have sp := parseHash_spec _ _ _ _ (by assumption)
    exact ⟨sp.1, by rw [sp.2.2.2.2]; exact ⟨sp.2.2.2.1, sp.2.1, sp.2.2.1⟩⟩
  · -- mod
    split at h <;> cases h
    have sp := parseHash_spec _ _ _ _ (by assumption)
    exact ⟨sp.1, by rw [sp.2.2.2.2]; exact ⟨sp.2.2.2.1, sp.2.1, sp.2.2.1⟩⟩
  · -- range
    repeat' split at h
    all_goals cases h
    have sp := parseHash_spec _ _ _ _ (by assumption)
    refine ⟨sp.1, sp.2.1, ?_⟩
    have := sp.2.2.1
    have := sp.2.2.2.2
    omega
  · -- day
    split at h <;> cases h
    exact ⟨parseDate_spec _ (parseDayRange_pairwise false) _ _ _ _ (by assumption), trivial⟩
  · -- month
    split at h <;> cases h
    exact ⟨parseDate_spec _ (parseMonthRange_pairwise false) _ _ _ _ (by assumption), trivial⟩
  · -- year
    split at h <;> cases h
    exact ⟨parseDate_spec _ (parseYearRange_pairwise false) _ _ _ _ (by assumption), trivial⟩
  · -- mycat mod
    split at h <;> cases h
    have sp := parseHash_spec _ _ _ _ (parseMycatHash_ok _ _ _ _ _ (by assumption)).1
    exact ⟨sp.1, by rw [sp.2.2.2.2]; exact ⟨sp.2.2.2.1, sp.2.1, sp.2.2.1⟩⟩
  · -- mycat long
    repeat' split at h
    all_goals cases h
    have sp := parseHash_spec _ _ _ _ (parseMycatHash_ok _ _ _ _ _ (by assumption)).1
    have ps := partitionLongInit_spec _ _ _ _ (by assumption)
    refine ⟨sp.1, ps.1, ?_⟩
    intro x hx
    have := ps.2 x hx
    exact consec_mem_of_lt sp.2.1 sp.2.2.1 this.1 (by rw [← sp.2.2.2.2]; exact this.2)
  · -- mycat string
    repeat' split at h
    all_goals cases h
    have sp := parseHash_spec _ _ _ _ (parseMycatHash_ok _ _ _ _ _ (by assumption)).1
    have ps := partitionLongInit_spec _ _ _ _ (by assumption)
    refine ⟨sp.1, ps.1, ?_⟩
    intro x hx
    have := ps.2 x hx
    exact consec_mem_of_lt sp.2.1 sp.2.2.1 this.1 (by rw [← sp.2.2.2.2]; exact this.2)
  · -- mycat murmur
    repeat' split at h
    all_goals cases h
    have sp := parseHash_spec _ _ _ _ (parseMycatHash_ok _ _ _ _ _ (by assumption)).1
    exact ⟨sp.1, sp.2.1, by rw [sp.2.2.2.2]; exact sp.2.2.1⟩
  · -- mycat padding
    repeat' split at h
    all_goals cases h
    have sp := parseHash_spec _ _ _ _ (parseMycatHash_ok _ _ _ _ _ (by assumption)).1
    have pp := parsePaddingMod_spec _ _ _ _ _ _ (by assumption)
    refine ⟨sp.1, sp.2.1, ?_, pp.2⟩
    rw [pp.1, sp.2.2.2.2]; exact sp.2.2.1
  · -- global
    split at h <;> cases h
    exact ⟨(parseHash_spec _ _ _ _ (parseGlobal_ok _ _ _ _ _ (by assumption)).1).1, trivial⟩
  all_goals cases h

/-! ### the database list of Mycat and global rules -/

theorem mycat_dbcount (l : List Int) (sl d : List Str) (idx : List Int) (t : IntMap)
    (h : parseMycatHashRuleSliceInfos l sl d = .ok (idx, t)) (dbs : List Str)
    (hd : getRealDatabases d = .ok dbs) : dbs.length = idx.length := by
  obtain ⟨hp, dbs', hd', hlen⟩ := parseMycatHash_ok l sl d idx t h
  rw [hd] at hd'
  simp only [R.ok.injEq] at hd'
  subst hd'
  have sp := parseHash_spec l sl idx t hp
  omega

theorem global_dbcount (l : List Int) (sl d : List Str) (idx : List Int) (t : IntMap)
    (h : parseGlobalTableRuleSliceInfos l sl d = .ok (idx, t)) (hne : d.length ≠ 0) (dbs : List Str)
    (hd : getRealDatabases d = .ok dbs) : dbs.length = idx.length := by
  unfold parseGlobalTableRuleSliceInfos at h
  r_cases h : parseHashRuleSliceInfos l sl with it hp
  obtain ⟨idx', t'⟩ := it
  simp only at h
  rw [if_pos hne, hd] at h
  simp only at h
  split at h
  · cases h
  · next hlen =>
    simp only [R.ok.injEq, Prod.mk.injEq] at h
    obtain ⟨h1, h2⟩ := h
    subst h1; subst h2
    have sp := parseHash_spec l sl idx' t' hp
    omega

/-- whenever `parseRule` goes on to read the database list, it has as many
    entries as the rule has sub tables -/
theorem sliceInfos_dbcount (cfg : Shard) (idx : List Int) (t : IntMap) (sh : ShardFn)
    (h : parseRuleSliceInfos cfg = .ok (idx, t, sh)) (dbs : List Str)
    (hd : getRealDatabases cfg.databases = .ok dbs)
    (hm : isMycatShardingRule (rtOf cfg.typ) = true ∨ (rtOf cfg.typ = .global ∧ cfg.databases.length ≠ 0)) :
    dbs.length = idx.length := by
  cases hrt : rtOf cfg.typ with
  | mycatMod =>
    simp only [parseRuleSliceInfos, hrt] at h
    r_cases h : parseMycatHashRuleSliceInfos cfg.locations cfg.slices cfg.databases with it hp
    obtain ⟨idx', t'⟩ := it
    simp only [R.ok.injEq, Prod.mk.injEq] at h
    rw [← h.1]; exact mycat_dbcount _ _ _ _ _ hp dbs hd
  | mycatLong =>
    simp only [parseRuleSliceInfos, hrt] at h
    r_cases h : parseMycatHashRuleSliceInfos cfg.locations cfg.slices cfg.databases with it hp
    obtain ⟨idx', t'⟩ := it
    simp only at h
    r_cases h : partitionLongInit (mapLen t') cfg.partitionCount cfg.partitionLength with seg hseg
    simp only [R.ok.injEq, Prod.mk.injEq] at h
    rw [← h.1]; exact mycat_dbcount _ _ _ _ _ hp dbs hd
  | mycatString =>
    simp only [parseRuleSliceInfos, hrt] at h
    r_cases h : parseMycatHashRuleSliceInfos cfg.locations cfg.slices cfg.databases with it hp
    obtain ⟨idx', t'⟩ := it
    simp only at h
    r_cases h : partitionLongInit (mapLen t') cfg.partitionCount cfg.partitionLength with seg hseg
    r_cases h : parseHashSliceStartEnd cfg.hashSlice with se hse
    obtain ⟨s1, e1⟩ := se
    simp only [R.ok.injEq, Prod.mk.injEq] at h
    rw [← h.1]; exact mycat_dbcount _ _ _ _ _ hp dbs hd
  | mycatMurmur =>
    simp only [parseRuleSliceInfos, hrt] at h
    r_cases h : parseMycatHashRuleSliceInfos cfg.locations cfg.slices cfg.databases with it hp
    obtain ⟨idx', t'⟩ := it
    simp only at h
    r_cases h : parseMurmur cfg.seed cfg.virtualBucketTimes with sv hsv
    obtain ⟨s1, v1⟩ := sv
    simp only [R.ok.injEq, Prod.mk.injEq] at h
    rw [← h.1]; exact mycat_dbcount _ _ _ _ _ hp dbs hd
  | mycatPadding =>
    simp only [parseRuleSliceInfos, hrt] at h
    r_cases h : parseMycatHashRuleSliceInfos cfg.locations cfg.slices cfg.databases with it hp
    obtain ⟨idx', t'⟩ := it
    simp only at h
    r_cases h : parsePaddingMod cfg.padFrom cfg.padLength cfg.modBegin cfg.modEnd (mapLen t') with p hpad
    simp only [R.ok.injEq, Prod.mk.injEq] at h
    rw [← h.1]; exact mycat_dbcount _ _ _ _ _ hp dbs hd
  | global =>
    simp only [parseRuleSliceInfos, hrt] at h
    r_cases h : parseGlobalTableRuleSliceInfos cfg.locations cfg.slices cfg.databases with it hp
    obtain ⟨idx', t'⟩ := it
    simp only [R.ok.injEq, Prod.mk.injEq] at h
    rw [← h.1]
    rcases hm with hm | hm
    · simp [hrt, isMycatShardingRule] at hm
    · exact global_dbcount _ _ _ _ _ hp hm.2 dbs hd
  | _ => simp [hrt, isMycatShardingRule] at hm

/-! ### parseRule -/

theorem parseRule_spec (cfg : Shard) (b : BaseRule) (h : parseRule cfg = .ok b) :
    b.db = cfg.db ∧ b.table = toLower cfg.table ∧ b.ruleType = cfg.typ ∧ b.slices = cfg.slices ∧
    SliceInfosOK b.subTableIndexes b.tableToSlice cfg.slices.length ∧ ShardWF b.shard b.subTableIndexes := by
  unfold parseRule at h
  split at h
  · cases h
  · cases h
  · next idx t shard hsi =>
    have sp := parseRuleSliceInfos_spec cfg idx t shard hsi
    repeat' split at h
    all_goals cases h
    all_goals exact ⟨rfl, rfl, rfl, rfl, sp.1, sp.2⟩

/-- `GetDatabaseNameByTableIndex`: a Mycat or global rule has one physical
    database per listed sub table -/
theorem parseRule_databases (cfg : Shard) (b : BaseRule) (h : parseRule cfg = .ok b)
    (hm : isMycatShardingRule (rtOf cfg.typ) = true ∨ rtOf cfg.typ = .global) :
    b.mycatDatabases.length = b.subTableIndexes.length := by
  unfold parseRule at h
  split at h
  · cases h
  · cases h
  · next idx t shard hsi =>
    simp only at h
    split at h
    · next hmy =>
      r_cases h : getRealDatabases cfg.databases with dbs hd
      simp only [R.ok.injEq] at h
      rw [← h]
      exact sliceInfos_dbcount cfg idx t shard hsi dbs hd (Or.inl hmy)
    · next hmy =>
      split at h
      · next hgl =>
        split at h
        · next hne =>
          r_cases h : getRealDatabases cfg.databases with dbs hd
          simp only [R.ok.injEq] at h
          rw [← h]
          exact sliceInfos_dbcount cfg idx t shard hsi dbs hd (Or.inr ⟨hgl, hne⟩)
        · simp only [R.ok.injEq] at h
          rw [← h]
          simp
      · next hgl =>
        rcases hm with hm | hm
        · exact absurd hm hmy
        · exact absurd hm hgl

/-! ### the loops of NewRouter carry a property of every parsed rule to every stored rule -/

theorem routerRulesLoop_all (P : BaseRule → Prop) (names : List Str) :
    ∀ (shards linked : List Shard) (rules : RuleMap) (linked' : List Shard) (rules' : RuleMap),
      (∀ s ∈ shards, s.slices.all (includeSlice names) = true → ∀ b, parseRule s = .ok b →
          P b) →
      (∀ kv ∈ rules, P kv.2.target) →
      routerRulesLoop names shards linked rules = .ok (linked', rules') →
      ∀ kv ∈ rules', P kv.2.target
  | [], linked, rules, linked', rules', _, hr, h => by
    simp only [routerRulesLoop, R.ok.injEq, Prod.mk.injEq] at h
    rw [← h.2]; exact hr
  | s :: rest, linked, rules, linked', rules', hs, hr, h => by
    unfold routerRulesLoop at h
    have hrest : ∀ s' ∈ rest, s'.slices.all (includeSlice names) = true → ∀ b, parseRule s' = .ok b →
        P b := fun s' hs' => hs s' (List.mem_cons_of_mem _ hs')
    split at h
    · cases h
    · next hinc =>
      split at h
      · exact routerRulesLoop_all P names rest _ rules linked' rules' hrest hr h
      · split at h
        · cases h
        · cases h
        · next rule0 hp =>
          split at h
          · cases h
          · split at h
            · cases h
            · refine routerRulesLoop_all P names rest _ _ linked' rules' hrest ?_ h
              intro kv hkv
              rcases List.mem_append.mp hkv with h1 | h1
              · exact hr kv h1
              · simp only [List.mem_singleton] at h1
                subst h1
                exact hs s List.mem_cons_self (by simpa using hinc) rule0 hp

theorem createLinkedRule_target (rules : RuleMap) (s : Shard) (rule : Rule) (h : createLinkedRule rules s = .ok rule) :
    ∃ k, (k, Rule.base rule.target) ∈ rules := by
  unfold createLinkedRule at h
  repeat' split at h
  all_goals cases h
  exact ⟨_, lookup_mem _ _ _ (by assumption)⟩

theorem routerLinkedLoop_all (P : BaseRule → Prop) :
    ∀ (linked : List Shard) (rules rules' : RuleMap), (∀ kv ∈ rules, P kv.2.target) →
      routerLinkedLoop linked rules = .ok rules' → ∀ kv ∈ rules', P kv.2.target
  | [], rules, rules', hr, h => by
    simp only [routerLinkedLoop, R.ok.injEq] at h
    rw [← h]; exact hr
  | s :: rest, rules, rules', hr, h => by
    unfold routerLinkedLoop at h
    split at h
    · next rule hc =>
      refine routerLinkedLoop_all P rest _ rules' ?_ h
      intro kv hkv
      rcases List.mem_append.mp hkv with h1 | h1
      · exact hr kv h1
      · simp only [List.mem_singleton] at h1
        subst h1
        obtain ⟨k, hk⟩ := createLinkedRule_target rules s rule hc
        exact hr (k, Rule.base rule.target) hk
    · cases h
    · cases h

theorem newRouter_all (P : BaseRule → Prop) (n : Namespace) (r : Router)
    (hP : ∀ s ∈ n.shardRules, s.slices.all (includeSlice (sliceNames n)) = true → ∀ b, parseRule s = .ok b →
        P b)
    (h : newRouter n = .ok r) : ∀ kv ∈ r.rules, P kv.2.target := by
  unfold newRouter at h
  split at h
  · cases h
  · split at h
    · cases h
    · cases h
    · next linked rules hl =>
      split at h
      · next rules' hl2 =>
        cases h
        have h1 := routerRulesLoop_all P (sliceNames n) n.shardRules [] [] linked rules hP (by simp) hl
        exact routerLinkedLoop_all P linked rules rules' h1 hl2
      · cases h
      · cases h

end GaeaVerif.C10
