import GaeaVerif.Model.TokenizeC06
/-
  Helper lemmas about the lexical model of `Model/TokenizeC06.lean`
  (`strings.FieldsFunc`, `TrimTrailingComments`), used by Props/C06 and Props/C22.
-/
namespace GaeaVerif.Tok
open GaeaVerif

/-! ### `fieldsFunc` -/

theorem fieldsAux_nil (f : Char → Bool) (cur : Str) :
    fieldsAux f cur [] = if cur.isEmpty then [] else [cur.reverse] := rfl

/-- A separator ends the current field: the fields of `a ++ s :: b` are those of
    `a` followed by those of `b`. -/
theorem fieldsAux_sep (f : Char → Bool) (s : Char) (hs : f s = true) (a b cur : Str) :
    fieldsAux f cur (a ++ s :: b) = fieldsAux f cur a ++ fieldsAux f [] b := by
  induction a generalizing cur with
  | nil =>
    simp only [List.nil_append, fieldsAux, hs, if_true]
    cases cur <;> simp
  | cons c a ih =>
    simp only [List.cons_append, fieldsAux]
    by_cases hc : f c = true
    · simp only [hc, if_true]
      cases cur <;> simp [ih]
    · simp only [hc]
      exact ih _

/-- Characters that are not separators extend the current field. -/
theorem fieldsAux_word (f : Char → Bool) (w : Str) (hw : ∀ c ∈ w, f c = false) (rest cur : Str) :
    fieldsAux f cur (w ++ rest) = fieldsAux f (w.reverse ++ cur) rest := by
  induction w generalizing cur with
  | nil => simp
  | cons c w ih =>
    have hc : f c = false := hw c (by simp)
    have ih' := ih (fun d hd => hw d (by simp [hd])) (c :: cur)
    simp only [List.cons_append, fieldsAux, hc]
    simpa using ih'

/-- A non-empty run of non-separators followed by a separator or the end is a field. -/
theorem fieldsAux_word_first (f : Char → Bool) (w : Str) (hne : w ≠ [])
    (hw : ∀ c ∈ w, f c = false) (post : Str) (hpost : ∀ c, post.head? = some c → f c = true) :
    ∃ rest, fieldsAux f [] (w ++ post) = w :: rest := by
  rw [fieldsAux_word f w hw post []]
  cases post with
  | nil => exact ⟨[], by simp [fieldsAux, hne]⟩
  | cons s b =>
    have hs : f s = true := hpost s rfl
    exact ⟨fieldsAux f [] b, by simp [fieldsAux, hs, hne]⟩

/-- The fields of `pre ++ w ++ post`, when `w` is delimited on both sides by a
    separator or an end of the text, are: fields of `pre`, then `w`, then more. -/
theorem fieldsFunc_word_split (f : Char → Bool) (pre w post : Str) (hne : w ≠ [])
    (hw : ∀ c ∈ w, f c = false)
    (hpre : ∀ c, pre.getLast? = some c → f c = true)
    (hpost : ∀ c, post.head? = some c → f c = true) :
    ∃ rest, fieldsFunc f (pre ++ w ++ post) = fieldsFunc f pre ++ w :: rest := by
  unfold fieldsFunc
  rcases List.eq_nil_or_concat pre with h | ⟨a, s, h⟩
  · subst h
    obtain ⟨rest, hr⟩ := fieldsAux_word_first f w hne hw post hpost
    exact ⟨rest, by simpa [fieldsAux] using hr⟩
  · subst h
    have hs : f s = true := hpre s (by simp)
    obtain ⟨rest, hr⟩ := fieldsAux_word_first f w hne hw post hpost
    refine ⟨rest, ?_⟩
    have e1 : a.concat s ++ w ++ post = a ++ s :: (w ++ post) := by simp
    have e2 : fieldsAux f [] (a.concat s) = fieldsAux f [] a := by
      have := fieldsAux_sep f s hs a [] []
      simpa [fieldsAux] using this
    rw [e1, fieldsAux_sep f s hs a (w ++ post) [], hr, e2]

/-- Such a word is one of the fields. -/
theorem mem_fieldsFunc_of_delimited (f : Char → Bool) (pre w post : Str) (hne : w ≠ [])
    (hw : ∀ c ∈ w, f c = false)
    (hpre : ∀ c, pre.getLast? = some c → f c = true)
    (hpost : ∀ c, post.head? = some c → f c = true) :
    w ∈ fieldsFunc f (pre ++ w ++ post) := by
  obtain ⟨rest, h⟩ := fieldsFunc_word_split f pre w post hne hw hpre hpost
  rw [h]; simp

end GaeaVerif.Tok

namespace GaeaVerif.Tok
open GaeaVerif

/-! ### more about `fieldsFunc` -/

/-- Leading separators produce no field. -/
theorem fieldsAux_seps (f : Char → Bool) (s : Str) (hs : ∀ c ∈ s, f c = true) (rest : Str) :
    fieldsAux f [] (s ++ rest) = fieldsAux f [] rest := by
  induction s with
  | nil => rfl
  | cons c s ih =>
    have hc : f c = true := hs c (by simp)
    simp only [List.cons_append, fieldsAux, hc, if_true, List.isEmpty_nil]
    exact ih (fun d hd => hs d (by simp [hd]))

/-- A non-empty run of non-separators at the end of the text is the last field. -/
theorem fieldsAux_word_end (f : Char → Bool) (w : Str) (hne : w ≠ []) (hw : ∀ c ∈ w, f c = false) :
    fieldsAux f [] w = [w] := by
  have h := fieldsAux_word f w hw [] []
  simp only [List.append_nil] at h
  rw [h]
  simp [fieldsAux, hne]

/-- A non-empty run of non-separators followed by a separator is a field. -/
theorem fieldsAux_word_sep (f : Char → Bool) (w : Str) (hne : w ≠ []) (hw : ∀ c ∈ w, f c = false)
    (s : Char) (hs : f s = true) (b : Str) :
    fieldsAux f [] (w ++ s :: b) = w :: fieldsAux f [] b := by
  rw [fieldsAux_word f w hw (s :: b) []]
  simp [fieldsAux, hs, hne]

/-- The fields of a text that ends in two words: `x`, then `w1`, separators, `w2`,
    where `x` is empty or ends in a separator. -/
theorem fieldsFunc_two_last_words (f : Char → Bool) (x w1 s2 w2 : Str)
    (hx : ∀ c, x.getLast? = some c → f c = true)
    (h1ne : w1 ≠ []) (h1 : ∀ c ∈ w1, f c = false)
    (h2ne : w2 ≠ []) (h2 : ∀ c ∈ w2, f c = false)
    (hsne : s2 ≠ []) (hs : ∀ c ∈ s2, f c = true) :
    fieldsFunc f (x ++ w1 ++ s2 ++ w2) = fieldsFunc f x ++ [w1, w2] := by
  have tail : fieldsAux f [] (w1 ++ (s2 ++ w2)) = [w1, w2] := by
    match s2, hsne, hs with
    | s :: s2', _, hs =>
      have hs0 : f s = true := hs s (by simp)
      rw [List.cons_append, fieldsAux_word_sep f w1 h1ne h1 s hs0,
        fieldsAux_seps f s2' (fun d hd => hs d (by simp [hd])), fieldsAux_word_end f w2 h2ne h2]
  unfold fieldsFunc
  rcases List.eq_nil_or_concat x with h | ⟨a, s, h⟩
  · subst h
    simpa [fieldsAux] using tail
  · subst h
    have hs' : f s = true := hx s (by simp)
    have e1 : a.concat s ++ w1 ++ s2 ++ w2 = a ++ s :: (w1 ++ (s2 ++ w2)) := by simp
    have e2 : fieldsAux f [] (a.concat s) = fieldsAux f [] a := by
      have := fieldsAux_sep f s hs' a [] []
      simpa [fieldsAux] using this
    rw [e1, fieldsAux_sep f s hs' a _ [], tail, e2]

end GaeaVerif.Tok

namespace GaeaVerif.Tok
open GaeaVerif

/-! ### `Tokenize` cannot panic -/

theorem fieldsAux_ne_nil (f : Char → Bool) (cur s : Str) (h : cur ≠ []) : fieldsAux f cur s ≠ [] := by
  induction s generalizing cur with
  | nil => simp [fieldsAux, h]
  | cons c cs ih =>
    simp only [fieldsAux]
    by_cases hc : f c = true
    · simp [hc, h]
    · simp only [hc]
      exact ih (c :: cur) (by simp)

theorem hasPrefix_iff (p s : Str) : hasPrefix p s = true ↔ ∃ t, s = p ++ t := by
  unfold hasPrefix
  rw [List.isPrefixOf_iff_prefix]
  constructor
  · rintro ⟨t, ht⟩; exact ⟨t, ht.symm⟩
  · rintro ⟨t, ht⟩; exact ⟨t, ht.symm⟩

/-- A text that starts with `/*` has at least one token. -/
theorem tokens_of_block_comment_ne_nil (s : Str) (h : hasPrefix blockCommentOpen s = true) :
    fieldsFunc isSqlSep s ≠ [] := by
  obtain ⟨rest, hs⟩ := (hasPrefix_iff _ _).1 h
  subst hs
  have h1 : isSqlSep '/' = true := by decide
  have h2 : isSqlSep '*' = false := by decide
  simp only [blockCommentOpen, List.cons_append, List.nil_append, fieldsFunc, fieldsAux, h1, h2]
  exact fieldsAux_ne_nil _ _ _ (by simp)

theorem tokenizeCore_ok (s : Str) : ∃ tokens, tokenizeCore s = .ok tokens := by
  unfold tokenizeCore
  simp only
  split
  · exact ⟨_, rfl⟩
  · split
    · rename_i h
      split
      · rename_i heq
        exact absurd heq (tokens_of_block_comment_ne_nil _ h)
      · exact ⟨_, rfl⟩
    · exact ⟨_, rfl⟩

theorem tokenize_ok (s : Str) : ∃ tokens, tokenize s = .ok tokens := tokenizeCore_ok _

end GaeaVerif.Tok
