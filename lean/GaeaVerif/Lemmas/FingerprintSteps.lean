import GaeaVerif.Model.Fingerprint
import GaeaVerif.Model.FingerprintGrammar
/-
  Symbolic execution of the `GetFingerprint` state machine over the token
  classes of Model/FingerprintGrammar.lean: from a *clean* state every item
  (with the first character of its separator) contributes its normal form and
  leaves a clean state; every further separator piece (white space, comment)
  contributes nothing and leaves a clean state.  Used by Props/C36.lean.
-/
namespace GaeaVerif.FingerprintSteps
open GaeaVerif.Fingerprint GaeaVerif.FingerprintGrammar

/-- The loop of `GetFingerprint` over a segment of the text. -/
def runSeg (q : List Char) (cap : Nat) : Nat → St → List Char → StepR
  | _, σ, [] => .next σ
  | qi, σ, r :: rs =>
    match step q cap qi σ r with
    | .next σ' => runSeg q cap (qi + 1) σ' rs
    | o => o

theorem run_append (q : List Char) (cap : Nat) (a b : List Char) (qi : Nat) (σ : St) :
    run q cap qi σ (a ++ b) =
      match runSeg q cap qi σ a with
      | .next σ' => run q cap (qi + a.length) σ' b
      | .ret s => .ret s
      | .panic => .panic := by
  induction a generalizing qi σ with
  | nil => simp [runSeg]
  | cons r rs ih =>
    simp only [List.cons_append, run, runSeg]
    cases h : step q cap qi σ r with
    | next σ' =>
      simp only [ih]
      have : qi + 1 + rs.length = qi + (r :: rs).length := by simp; omega
      rw [this]
    | ret s => simp
    | panic => simp

theorem runSeg_append (q : List Char) (cap : Nat) (a b : List Char) (qi : Nat) (σ : St) :
    runSeg q cap qi σ (a ++ b) =
      match runSeg q cap qi σ a with
      | .next σ' => runSeg q cap (qi + a.length) σ' b
      | o => o := by
  induction a generalizing qi σ with
  | nil => simp [runSeg]
  | cons r rs ih =>
    simp only [List.cons_append, runSeg]
    cases h : step q cap qi σ r with
    | next σ' =>
      simp only [ih]
      have : qi + 1 + rs.length = qi + (r :: rs).length := by simp; omega
      rw [this]
    | ret s => simp
    | panic => simp

/-- If the segment leads to a state, the whole run continues from there. -/
theorem run_of_runSeg (q : List Char) (cap : Nat) (a b : List Char) (qi : Nat) (σ σ' : St)
    (h : runSeg q cap qi σ a = .next σ') :
    run q cap qi σ (a ++ b) = run q cap (qi + a.length) σ' b := by
  rw [run_append, h]

theorem runSeg_trans (q : List Char) (cap : Nat) (a b : List Char) (qi : Nat) (σ σ' σ'' : St)
    (h1 : runSeg q cap qi σ a = .next σ') (h2 : runSeg q cap (qi + a.length) σ' b = .next σ'') :
    runSeg q cap qi σ (a ++ b) = .next σ'' := by
  rw [runSeg_append, h1]; exact h2

/-! ### Slices of the text -/

theorem slice_of_drop (q w t : List Char) (n k : Nat) (hq : q.drop n = w ++ t) (hn : n ≤ q.length)
    (hk : k ≤ w.length) : slice? q n (n + k : Nat) = some (w.take k) := by
  have hlen : q.length - n = w.length + t.length := by
    have := congrArg List.length hq
    simpa using this
  unfold slice?
  have h1 : (0 : Int) ≤ (n : Int) ∧ (n : Int) ≤ ((n + k : Nat) : Int) ∧ ((n + k : Nat) : Int) ≤ (q.length : Int) := by
    refine ⟨by omega, by omega, by omega⟩
  rw [if_pos h1]
  have e1 : (n : Int).toNat = n := by omega
  have e2 : (((n + k : Nat) : Int) - (n : Int)).toNat = k := by omega
  rw [e1, e2, hq, List.take_append_of_le_length hk]

theorem slice_empty (q : List Char) (n : Nat) (hn : n ≤ q.length) : slice? q n n = some [] := by
  unfold slice?
  have h1 : (0 : Int) ≤ (n : Int) ∧ (n : Int) ≤ (n : Int) ∧ (n : Int) ≤ (q.length : Int) := by
    refine ⟨by omega, by omega, by omega⟩
  rw [if_pos h1]; simp

/-! ### Clean states -/

/-- Previous runes a clean `unknown` state may carry: white space, the initial
    `rune(0)`, or the `/` that ended a comment. -/
def cleanPr (c : Char) : Bool := isSpace c || c = Char.ofNat 0 || c = '/'

/-- The state between two tokens: nothing is pending, the next rune to read is
    at offset `qi`. -/
structure Clean (qi : Nat) (σ : St) : Prop where
  hs : (σ.s = .inSpace ∧ isSpace σ.pr = true) ∨ (σ.s = .unknown ∧ cleanPr σ.pr = true)
  hfrom : σ.cpFrom = qi
  hto : σ.cpTo ≤ qi
  hesc : σ.escape = false
  hsql : σ.sqlState ≠ .inValues
  hlen : σ.f.length ≤ 2 * qi
  hlast : σ.f = [] ∨ σ.f.getLast? = some ' '
  hpw : isValuesWord σ.prevWord = false
  hadd : σ.addSpace = false
  hdupe : σ.sqlState ≠ .onDupeKeyUpdate
  hpo : σ.parOpen = 0
  hpt : σ.parOpenTotal = 0

theorem cleanPr_cases {c : Char} (h : cleanPr c = true) :
    c = ' ' ∨ c = '\t' ∨ c = '\r' ∨ c = '\n' ∨ c = Char.ofNat 0 ∨ c = '/' := by
  simp only [cleanPr, isSpace, Bool.or_eq_true, decide_eq_true_eq] at h
  rcases h with ((((h | h) | h) | h) | h) | h <;> simp [h]

theorem isSpace_cases {c : Char} (h : isSpace c = true) :
    c = ' ' ∨ c = '\t' ∨ c = '\r' ∨ c = '\n' := by
  simp only [isSpace, Bool.or_eq_true, decide_eq_true_eq] at h
  rcases h with ((h | h) | h) | h <;> simp [h]

theorem Clean.s_cases {qi : Nat} {σ : St} (h : Clean qi σ) : σ.s = .inSpace ∨ σ.s = .unknown := by
  rcases h.hs with h | h
  · exact Or.inl h.1
  · exact Or.inr h.1

/-- The previous rune of a clean state is none of the runes that change the
    meaning of the next one. -/
theorem Clean.pr_facts {qi : Nat} {σ : St} (h : Clean qi σ) :
    σ.pr ≠ '\\' ∧ σ.pr ≠ 'x' ∧ σ.pr ≠ 'b' ∧ σ.pr ≠ '-' ∧ σ.pr ≠ '(' ∧ σ.pr ≠ ',' ∧ σ.pr ≠ '*' := by
  have : cleanPr σ.pr = true := by
    rcases h.hs with h | h
    · simp [cleanPr, h.2]
    · exact h.2
  rcases cleanPr_cases this with h | h | h | h | h | h <;> rw [h] <;> decide

theorem part3_nocopy (q : List Char) (cap : Nat) (σ : St) (r : Char) (h : σ.cpTo ≤ σ.cpFrom) :
    part3 q cap σ r = .next { σ with pr := r } := by
  have : ¬ σ.cpTo > σ.cpFrom := Int.not_lt.mpr h
  simp [part3, this]

/-! ### Words -/

/-- State in the middle of a word whose last character is `c`. -/
def midWord (σb : St) (c : Char) : St :=
  { σb with s := if isOpChar c then .inOp else .inWord, pr := c }

theorem step_mid (q : List Char) (cap : Nat) (qi : Int) (σb : St) (a b : Char)
    (hto : σb.cpTo ≤ σb.cpFrom) (hab : okAfter a b = true)
    (hcall : b = '(' → σb.prevWord ≠ kwCall)
    (hpar : b = '(' → (slice? q σb.cpFrom qi).map isValuesWord = some false) :
    step q cap qi (midWord σb a) b = .next (midWord σb b) := by
  simp only [okAfter, wordBad, Bool.and_eq_true, Bool.not_eq_true', Bool.or_eq_false_iff, Bool.or_eq_true,
    decide_eq_false_iff_not] at hab
  obtain ⟨⟨⟨hbad, hdig⟩, hdot⟩, hpar'⟩ := hab
  obtain ⟨⟨⟨⟨⟨⟨⟨hsp, hq1⟩, hq2⟩, hsl⟩, hpl⟩, hmi⟩, hha⟩, hco⟩ := hbad
  have hnlt : ¬ σb.cpTo > σb.cpFrom := Int.not_lt.mpr hto
  by_cases hb : isOpChar b = true
  · -- an operator character: the state becomes inOp, nothing else changes
    have hb' := hb
    simp only [isOpChar, Bool.or_eq_true, decide_eq_true_eq] at hb'
    have hb2 : b = '=' ∨ b = '<' ∨ b = '>' ∨ b = '!' := by
      rcases hb' with ((h | h) | h) | h <;> simp [h]
    have hd : isDigit b = false := by
      rcases hb' with ((h | h) | h) | h <;> subst h <;> decide
    by_cases ha : isOpChar a = true <;>
      simp [step, midWord, ha, hb, part2, part3, hnlt, hsp, hd, hq1, hq2, hb2]
  · have hb' := hb
    simp only [isOpChar, Bool.or_eq_true, decide_eq_true_eq, not_or] at hb'
    obtain ⟨⟨⟨hb1, hb2⟩, hb3⟩, hb4⟩ := hb'
    by_cases ha : isOpChar a = true
    · have hd : isDigit b = false := by simpa [ha] using hdig
      have hdot' : b ≠ '.' := by simpa [ha] using hdot
      have hp' : b ≠ '(' := by simpa [ha] using hpar'
      simp [step, midWord, ha, hb, hsp, part2, part3, hd, hq1, hq2, hb1, hb2, hb3, hb4, hnlt, hsl, hpl, hmi,
        hdot', hp', hco, hha]
    · have ha' : isOpChar a = false := by simpa using ha
      have hbf : isOpChar b = false := by simpa using hb
      by_cases hd : isDigit b = true
      · have hac : a ≠ ',' ∧ a ≠ '(' := by
          rcases hdig with h | h
          · simp [hd] at h
          · exact h.1
        simp [step, midWord, ha', hbf, hsp, part2, part3, hd, hnlt, hac.1, hac.2, replaceNumbersInWords]
      · have hd' : isDigit b = false := by simpa using hd
        by_cases hdot' : b = '.'
        · subst hdot'
          simp [step, midWord, ha', part2, part3, hnlt, isSpace, isDigit, hbf]
        · by_cases hp' : b = '('
          · subst hp'
            have hc := hcall rfl
            have h := hpar rfl
            by_cases hsq : σb.sqlState = .onDupeKeyUpdate
            · simp [step, midWord, ha', part2, part3, hnlt, isSpace, isDigit, hbf, hc, hsq]
            · simp [step, midWord, ha', part2, part3, hnlt, isSpace, isDigit, hbf, hc, hsq, h]
          · simp [step, midWord, ha', hb, hsp, part2, part3, hd', hq1, hq2, hb1, hb2, hb3, hb4, hnlt, hsl, hpl,
              hmi, hdot', hp', hco, hha]

/-- The state after the first character `c` of a word read at offset `qi`. -/
def baseWord (σ : St) (qi : Int) (c : Char) : St :=
  if isOpChar c then { σ with cpFrom := qi }
  else { σ with cpFrom := qi, valueNo := 0 }

theorem step_first (q : List Char) (cap : Nat) (qi : Nat) (σ : St) (c : Char) (hc : Clean qi σ)
    (hq : qi ≤ q.length) (hok : okFirst c = true) (hcall : c = '(' → σ.prevWord ≠ kwCall) :
    step q cap qi σ c = .next (midWord (baseWord σ qi c) c) := by
  simp only [okFirst, wordBad, Bool.and_eq_true, Bool.not_eq_true', Bool.or_eq_false_iff,
    decide_eq_false_iff_not] at hok
  obtain ⟨⟨hbad, hd⟩, hdot⟩ := hok
  obtain ⟨⟨⟨⟨⟨⟨⟨hsp, hq1⟩, hq2⟩, hsl⟩, hpl⟩, hmi⟩, hha⟩, hco⟩ := hbad
  have hnlt : ¬ σ.cpTo > (qi : Int) := Int.not_lt.mpr hc.hto
  have hsql := hc.hsql
  have hfrom := hc.hfrom
  by_cases hb : isOpChar c = true
  · have hb' := hb
    simp only [isOpChar, Bool.or_eq_true, decide_eq_true_eq] at hb'
    have hb2 : c = '=' ∨ c = '<' ∨ c = '>' ∨ c = '!' := by
      rcases hb' with ((h | h) | h) | h <;> simp [h]
    rcases hc.s_cases with hs | hs <;>
      simp [step, midWord, baseWord, hb, part2, part3, hnlt, hsp, hd, hq1, hq2, hb2, hs]
  · have hb' := hb
    simp only [isOpChar, Bool.or_eq_true, decide_eq_true_eq, not_or] at hb'
    obtain ⟨⟨⟨hb1, hb2⟩, hb3⟩, hb4⟩ := hb'
    have hbf : isOpChar c = false := by simpa using hb
    by_cases hp' : c = '('
    · subst hp'
      have hcl := hcall rfl
      have hpw := hc.hpw
      have hne : ¬ (σ.prevWord = kwValue ∨ σ.prevWord = kwValues ∨ σ.prevWord = kwIn) := by
        intro h
        rcases h with h | h | h <;> rw [h] at hpw <;> revert hpw <;> decide
      have hsl0 : slice? q σ.cpFrom qi = some [] := by rw [hfrom]; exact slice_empty q qi hq
      have hiv : isValuesWord [] = false := by decide
      by_cases hsq : σ.sqlState = .onDupeKeyUpdate <;>
        rcases hc.s_cases with hs | hs <;>
          simp [step, midWord, baseWord, hbf, part2, part3, hnlt, isSpace, isDigit, hs, hcl, hsq, hne, hsl0, hiv]
    · rcases hc.s_cases with hs | hs <;>
        simp [step, midWord, baseWord, hbf, hsp, part2, part3, hd, hq1, hq2, hb1, hb2, hb3, hb4, hnlt, hsl, hpl,
          hmi, hdot, hp', hco, hha, hs, hsql]

theorem parenOK_at (w : List Char) (h : parenOK w = true) (k : Nat) (hk : w[k]? = some '(') :
    isValuesWord (w.take k) = false := by
  have hlt : k < w.length := by
    rcases Nat.lt_or_ge k w.length with h' | h'
    · exact h'
    · rw [List.getElem?_eq_none h'] at hk; cases hk
  unfold parenOK at h
  rw [List.all_eq_true] at h
  have := h k (List.mem_range.mpr hlt)
  simpa [hk] using this

/-- Reading the rest of a word character by character. -/
theorem runSeg_mid (q : List Char) (cap : Nat) (σb : St) (qi0 : Nat) (w : List Char)
    (hfrom : σb.cpFrom = qi0) (hto : σb.cpTo ≤ qi0)
    (hcall : '(' ∈ w → σb.prevWord ≠ kwCall)
    (hsl : ∀ k, k ≤ w.length → slice? q qi0 ((qi0 + k : Nat) : Int) = some (w.take k))
    (hpar : parenOK w = true) :
    ∀ (rest pre : List Char) (a : Char), w = pre ++ a :: rest → chainOK a rest = true →
      runSeg q cap (qi0 + pre.length + 1) (midWord σb a) rest =
        .next (midWord σb ((a :: rest).getLast (by simp))) := by
  intro rest
  induction rest with
  | nil => intro pre a _ _; simp [runSeg]
  | cons b r ih =>
    intro pre a hw hch
    simp only [chainOK, Bool.and_eq_true] at hch
    have hidx : w[pre.length + 1]? = some b := by
      rw [hw]; simp
    have hlen : pre.length + 1 < w.length := by
      rw [hw]; simp
    have hstep : step q cap ((qi0 + pre.length + 1 : Nat) : Int) (midWord σb a) b = .next (midWord σb b) := by
      apply step_mid
      · rw [hfrom]; exact hto
      · exact hch.1
      · intro hb; apply hcall; rw [hw, hb]; simp
      · intro hb
        rw [hfrom]
        have h1 := hsl (pre.length + 1) (by omega)
        have h2 : ((qi0 + (pre.length + 1) : Nat) : Int) = ((qi0 + pre.length + 1 : Nat) : Int) := by omega
        rw [h2] at h1
        rw [h1]
        have := parenOK_at w hpar (pre.length + 1) (by rw [hidx, hb])
        simp [this]
    simp only [runSeg, hstep]
    have := ih (pre ++ [a]) b (by rw [hw]; simp) hch.2
    simp only [List.length_append, List.length_cons, List.length_nil] at this
    have e : qi0 + (pre.length + (0 + 1)) + 1 = qi0 + pre.length + 1 + 1 := by omega
    rw [e] at this
    rw [this]
    simp [List.getLast_cons_cons]

/-- The SQL clause state after a copied word (`ORDER BY`, `ON DUPLICATE KEY UPDATE`). -/
def newSql (prev lw : List Char) (sql : S) : S :=
  if prev = kwOrder ∧ lw = kwBy then .orderBy
  else if prev = kwKey ∧ lw = kwUpdate then .onDupeKeyUpdate
  else sql

/-- The state after a word `w` and the white-space character `r` that ends it. -/
def endWord (σb : St) (qi : Int) (w : List Char) (r : Char) : St :=
  { σb with prevWord := lower w, f := σb.f ++ lower w ++ [' '], pr := r, s := .inSpace,
            sqlState := newSql σb.prevWord (lower w) σb.sqlState, cpFrom := qi + 1, cpTo := qi,
            addSpace := false }

theorem step_wordEnd (q : List Char) (cap : Nat) (qi0 qi : Int) (σb : St) (a r : Char) (w : List Char)
    (hr : isSpace r = true) (ha : isSpace a = false) (hgt : qi0 < qi)
    (hfrom : σb.cpFrom = qi0) (hto : σb.cpTo ≤ qi0)
    (hslice : slice? q qi0 qi = some w)
    (hctx : wordCtx σb.prevWord w = true)
    (hcap : σb.f.length + w.length + 1 ≤ cap) :
    step q cap qi (midWord σb a) r = .next (endWord σb qi w r) := by
  have hd : isDigit r = false := by
    rcases isSpace_cases hr with h | h | h | h <;> subst h <;> decide
  simp only [wordCtx, Bool.and_eq_true, Bool.not_eq_true', Bool.and_eq_false_iff, decide_eq_false_iff_not,
    Bool.not_eq_false', decide_eq_true_eq] at hctx
  obtain ⟨⟨⟨⟨⟨⟨huse, hnull⟩, hnullc⟩, hasc⟩, hval⟩, _⟩, _⟩ := hctx
  have hlw : (lower w).length = w.length := by simp [lower]
  have hp1 : pushAll cap σb.f (lower w) = some (σb.f ++ lower w) := by
    unfold pushAll; rw [if_pos (by rw [hlw]; omega)]
  have hp2 : push cap (σb.f ++ lower w) ' ' = some (σb.f ++ lower w ++ [' ']) := by
    unfold push; rw [if_pos (by simp [hlw]; omega)]
  have huse' : ¬ (lower w = kwUse ∧ σb.prevWord = []) := by
    intro h; rcases huse with h' | h' <;> simp_all
  have hnull' : ¬ ((lower w = kwNull ∧ (σb.prevWord ≠ kwIs ∧ σb.prevWord ≠ kwNot)) ∨ lower w = kwNullComma) := by
    intro h
    rcases h with h | h
    · rcases hnull with h' | h'
      · rcases h' with h'' | h''
        · exact h'' h.1
        · exact h.2.1 h''
      · exact h.2.2 h'
    · exact hnullc h
  have hmatch : step q cap qi (midWord σb a) r = wordEnd q cap qi (midWord σb a) r := by
    by_cases ha' : isOpChar a = true <;> simp [step, part2, midWord, ha', hr, ha, hd]
  rw [hmatch]
  have hgt' : qi > qi0 := hgt
  have hfin : ∀ (sq : S), part3 q cap
      { midWord σb a with sqlState := sq, s := .inSpace, cpTo := qi, addSpace := true } r =
      .next { σb with prevWord := lower w, f := σb.f ++ lower w ++ [' '], pr := r, s := .inSpace,
                      sqlState := sq, cpFrom := qi + 1, cpTo := qi, addSpace := false } := by
    intro sq
    simp [part3, midWord, hfrom, hgt', hslice, hp1, hp2, hval]
  simp only [wordEnd, midWord, hfrom, hslice]
  rw [if_neg huse', if_neg hnull']
  by_cases h1 : σb.prevWord = kwOrder ∧ lower w = kwBy
  · rw [if_pos h1]
    have := hfin .orderBy
    simp only [midWord, hfrom] at this
    rw [this]; simp [endWord, newSql, h1]
  · rw [if_neg h1]
    have hasc' : ¬ (σb.sqlState = .orderBy ∧ isAscWord (lower w) = true) := by simp [hasc]
    rw [if_neg hasc']
    by_cases h2 : σb.prevWord = kwKey ∧ lower w = kwUpdate
    · rw [if_pos h2]
      have := hfin .onDupeKeyUpdate
      simp only [midWord, hfrom] at this
      rw [this]
      have hne : ¬ (kwKey = kwOrder ∧ kwUpdate = kwBy) := by decide
      simp only [endWord, newSql]
      rw [if_neg h1, if_pos h2]
    · rw [if_neg h2]
      have := hfin σb.sqlState
      simp only [midWord, hfrom] at this
      rw [this]
      simp only [endWord, newSql]
      rw [if_neg h1, if_neg h2]

theorem chainOK_notBad : ∀ (a : Char) (rest : List Char), chainOK a rest = true →
    ∀ x ∈ rest, wordBad x = false := by
  intro a rest
  induction rest generalizing a with
  | nil => intro _ x hx; cases hx
  | cons b r ih =>
    intro h x hx
    simp only [chainOK, Bool.and_eq_true] at h
    rcases List.mem_cons.mp hx with hx | hx
    · subst hx
      have := h.1
      simp only [okAfter, Bool.and_eq_true, Bool.not_eq_true'] at this
      exact this.1.1.1
    · exact ih b h.2 x hx

theorem lt_length_of_drop {q : List Char} {n : Nat} {c : Char} {t : List Char} (h : q.drop n = c :: t) :
    n < q.length := by
  rcases Nat.lt_or_ge n q.length with h' | h'
  · exact h'
  · rw [List.drop_of_length_le h'] at h; cases h

theorem isSpace_of_not_bad {c : Char} (h : wordBad c = false) : isSpace c = false := by
  simp only [wordBad, Bool.or_eq_false_iff] at h
  exact h.1.1.1.1.1.1.1

/-- The body of `word_item`: the first character has been read (`h1`) and led
    to the state `midWord σb c`. -/
theorem word_item_core (q : List Char) (cap : Nat) (qi : Nat) (σ0 σb : St) (c : Char) (rest : List Char) (r : Char)
    (tail : List Char)
    (h1 : step q cap qi σ0 c = .next (midWord σb c))
    (hbfrom : σb.cpFrom = (qi : Int)) (hbto : σb.cpTo ≤ (qi : Int)) (hbesc : σb.escape = false)
    (hbsql : σb.sqlState ≠ .inValues) (hbdupe : σb.sqlState ≠ .onDupeKeyUpdate) (hblen : σb.f.length ≤ 2 * qi)
    (hbpo : σb.parOpen = 0) (hbpt : σb.parOpenTotal = 0)
    (hq : q.drop qi = (c :: rest) ++ r :: tail) (hcap : 2 * q.length < cap)
    (hshape : wordShape (c :: rest) = true) (hctx : wordCtx σb.prevWord (c :: rest) = true) (hr : isSpace r = true) :
    ∃ σ', runSeg q cap qi σ0 ((c :: rest) ++ [r]) = .next σ' ∧ Clean (qi + (c :: rest).length + 1) σ' ∧
      σ'.f = σb.f ++ lower (c :: rest) ++ [' '] ∧ σ'.prevWord = lower (c :: rest) := by
  simp only [wordShape, Bool.and_eq_true] at hshape
  obtain ⟨⟨hfirst, hchain⟩, hpar⟩ := hshape
  have hlt : qi < q.length := lt_length_of_drop (by simpa using hq)
  have hqlen : qi + (c :: rest).length + 1 ≤ q.length := by
    have := congrArg List.length hq
    simp at this ⊢; omega
  have hcallAll : '(' ∈ (c :: rest) → σb.prevWord ≠ kwCall := by
    intro hmem
    simp only [wordCtx, Bool.and_eq_true, Bool.not_eq_true', Bool.and_eq_false_iff, decide_eq_false_iff_not] at hctx
    rcases hctx.1.2 with h | h
    · have : (c :: rest).contains '(' = true := by
        rw [List.contains_iff_mem]; exact hmem
      rw [this] at h; cases h
    · exact h
  have hsl : ∀ k, k ≤ (c :: rest).length →
      slice? q qi ((qi + k : Nat) : Int) = some ((c :: rest).take k) := by
    intro k hk
    exact slice_of_drop q (c :: rest) (r :: tail) qi k hq (by omega) hk
  -- the rest of the word
  have h2 := runSeg_mid q cap σb qi (c :: rest) hbfrom hbto hcallAll hsl hpar rest [] c rfl hchain
  simp only [List.length_nil, Nat.add_zero] at h2
  -- the white-space character
  have hlastNotSpace : isSpace ((c :: rest).getLast (by simp)) = false := by
    apply isSpace_of_not_bad
    rcases List.mem_cons.mp (List.getLast_mem (l := c :: rest) (by simp)) with h | h
    · rw [h]
      simp only [okFirst, Bool.and_eq_true, Bool.not_eq_true'] at hfirst
      exact hfirst.1.1
    · exact chainOK_notBad c rest hchain _ h
  have hsw := hsl (c :: rest).length (Nat.le_refl _)
  rw [List.take_length] at hsw
  have h3 := step_wordEnd q cap qi ((qi + (c :: rest).length : Nat) : Int) σb
    ((c :: rest).getLast (by simp)) r (c :: rest) hr hlastNotSpace
    (by simp; omega) hbfrom hbto hsw hctx (by omega)
  refine ⟨endWord σb ((qi + (c :: rest).length : Nat) : Int) (c :: rest) r, ?_, ?_, ?_, ?_⟩
  · -- the run
    have e : (c :: rest) ++ [r] = c :: (rest ++ [r]) := by simp
    rw [e]
    simp only [runSeg, h1]
    rw [runSeg_append, h2]
    simp only [runSeg]
    have e2 : qi + 1 + rest.length = qi + (c :: rest).length := by simp; omega
    rw [e2, h3]
  · -- the clean state
    simp only [wordCtx, Bool.and_eq_true, Bool.not_eq_true', Bool.and_eq_false_iff, decide_eq_false_iff_not] at hctx
    constructor
    · left; exact ⟨rfl, hr⟩
    · simp [endWord]
    · simp [endWord]; omega
    · simp [endWord, hbesc]
    · simp only [endWord, newSql]
      split
      · simp
      · split
        · simp
        · exact hbsql
    · simp only [endWord, List.length_append, lower, List.length_map, List.length_cons, List.length_nil]
      omega
    · right; simp [endWord]
    · exact hctx.1.1.2
    · rfl
    · -- `update` after `key` is excluded by the context condition
      have hku := hctx.2
      simp only [endWord, newSql]
      split
      · simp
      · split
        · rename_i h; rcases hku with h' | h'
          · exact absurd h.1 h'
          · exact absurd h.2 h'
        · exact hbdupe
    · exact hbpo
    · exact hbpt
  · simp [endWord]
  · simp [endWord]

/-- **Words.** From a clean state, a word followed by a white-space character
    contributes its lower-case text and one blank, and leaves a clean state. -/
theorem word_item (q : List Char) (cap : Nat) (qi : Nat) (σ : St) (w : List Char) (r : Char) (tail : List Char)
    (hc : Clean qi σ) (hq : q.drop qi = w ++ r :: tail) (hcap : 2 * q.length < cap)
    (hshape : wordShape w = true) (hctx : wordCtx σ.prevWord w = true) (hr : isSpace r = true) :
    ∃ σ', runSeg q cap qi σ (w ++ [r]) = .next σ' ∧ Clean (qi + w.length + 1) σ' ∧
      σ'.f = σ.f ++ lower w ++ [' '] ∧ σ'.prevWord = lower w := by
  cases w with
  | nil => simp [wordShape] at hshape
  | cons c rest =>
    have hfirst : okFirst c = true := by
      simp only [wordShape, Bool.and_eq_true] at hshape; exact hshape.1.1
    have hlt : qi < q.length := lt_length_of_drop (by simpa using hq)
    have hcall1 : c = '(' → σ.prevWord ≠ kwCall := by
      intro hc1
      simp only [wordCtx, Bool.and_eq_true, Bool.not_eq_true', Bool.and_eq_false_iff, decide_eq_false_iff_not] at hctx
      rcases hctx.1.2 with h | h
      · have : (c :: rest).contains '(' = true := by rw [List.contains_iff_mem]; simp [hc1]
        rw [this] at h; cases h
      · exact h
    have h1 := step_first q cap qi σ c hc (by omega) hfirst hcall1
    have hb : ∀ {α : Type} (g : St → α), (∀ τ : St, g { τ with cpFrom := (qi : Int) } = g τ) →
        (∀ τ : St, g { τ with cpFrom := (qi : Int), valueNo := 0 } = g τ) → g (baseWord σ qi c) = g σ := by
      intro α g h1 h2
      simp only [baseWord]; split
      · exact h1 σ
      · exact h2 σ
    have hbprev : (baseWord σ qi c).prevWord = σ.prevWord := hb (·.prevWord) (fun _ => rfl) (fun _ => rfl)
    have hbf : (baseWord σ qi c).f = σ.f := hb (·.f) (fun _ => rfl) (fun _ => rfl)
    obtain ⟨σ', h2, h3, h4, h5⟩ := word_item_core q cap qi σ (baseWord σ qi c) c rest r tail h1
      (by simp only [baseWord]; split <;> rfl)
      (by rw [hb (·.cpTo) (fun _ => rfl) (fun _ => rfl)]; exact hc.hto)
      (by rw [hb (·.escape) (fun _ => rfl) (fun _ => rfl)]; exact hc.hesc)
      (by rw [hb (·.sqlState) (fun _ => rfl) (fun _ => rfl)]; exact hc.hsql)
      (by rw [hb (·.sqlState) (fun _ => rfl) (fun _ => rfl)]; exact hc.hdupe)
      (by rw [hbf]; exact hc.hlen)
      (by rw [hb (·.parOpen) (fun _ => rfl) (fun _ => rfl)]; exact hc.hpo)
      (by rw [hb (·.parOpenTotal) (fun _ => rfl) (fun _ => rfl)]; exact hc.hpt)
      hq hcap hshape (by rw [hbprev]; exact hctx) hr
    exact ⟨σ', h2, h3, by rw [h4, hbf], h5⟩

/-! ### Numbers -/

theorem isSpace_not_digit {r : Char} (hr : isSpace r = true) :
    isDigit r = false ∧ isNumberChar r = false ∧ isNotNumberChar r = false ∧ r ≠ '\'' ∧ r ≠ '"' := by
  rcases isSpace_cases hr with h | h | h | h <;> subst h <;> decide

theorem runSeg_number (q : List Char) (cap : Nat) (σ1 : St) (hs : σ1.s = .inNumber) :
    ∀ (rest : List Char) (qi : Nat), rest.all isNumberChar = true → runSeg q cap qi σ1 rest = .next σ1 := by
  intro rest
  induction rest with
  | nil => intro qi _; simp [runSeg]
  | cons b r ih =>
    intro qi h
    simp only [List.all_cons, Bool.and_eq_true] at h
    have : step q cap qi σ1 b = .next σ1 := by simp [step, hs, h.1]
    simp only [runSeg, this]
    exact ih (qi + 1) h.2

/-- A space read in the `unknown` state right after a `?` was written. -/
theorem step_space_after_value (q : List Char) (cap : Nat) (qi : Int) (σ : St) (g : List Char) (r : Char)
    (hs : σ.s = .unknown) (hf : σ.f = g ++ ['?']) (hr : isSpace r = true) (hpr : isSpace σ.pr = false)
    (hto : σ.cpTo ≤ qi + 1) (hcap : g.length + 2 ≤ cap) :
    step q cap qi σ r = .next { σ with f := g ++ ['?', ' '], cpFrom := qi + 1, pr := r } := by
  have hd := (isSpace_not_digit hr).1
  have hnlt : ¬ σ.cpTo > qi + 1 := Int.not_lt.mpr hto
  have hpush : push cap (g ++ ['?']) ' ' = some (g ++ ['?', ' ']) := by
    unfold push; rw [if_pos (by simp; omega)]; simp
  have hq : isSpace '?' = false := by decide
  simp [step, hs, hr, hpr, part2, hd, hf, hpush, part3, hnlt, hq]

/-- **Numeric literals.** -/
theorem num_item (q : List Char) (cap : Nat) (qi : Nat) (σ : St) (n : List Char) (r : Char) (tail : List Char)
    (hc : Clean qi σ) (hq : q.drop qi = n ++ r :: tail) (hcap : 2 * q.length < cap)
    (hshape : numShape n = true) (hr : isSpace r = true) :
    ∃ σ', runSeg q cap qi σ (n ++ [r]) = .next σ' ∧ Clean (qi + n.length + 1) σ' ∧
      σ'.f = σ.f ++ ['?', ' '] ∧ σ'.prevWord = σ.prevWord := by
  cases n with
  | nil => simp [numShape] at hshape
  | cons c rest =>
    simp only [numShape, Bool.and_eq_true] at hshape
    obtain ⟨hdig, hrest⟩ := hshape
    have hqlen : qi + (c :: rest).length + 1 ≤ q.length := by
      have := congrArg List.length hq
      simp at this ⊢; omega
    have hcsp : isSpace c = false := by
      simp only [isDigit, decide_eq_true_eq] at hdig
      simp only [isSpace, Bool.or_eq_false_iff, decide_eq_false_iff_not]
      refine ⟨⟨⟨?_, ?_⟩, ?_⟩, ?_⟩ <;> intro h <;> subst h <;> revert hdig <;> decide
    have hnlt : ¬ ((qi : Int) > σ.cpFrom) := by rw [hc.hfrom]; omega
    let σ1 : St := { σ with cpTo := qi, s := .inNumber, pr := c }
    have h1 : step q cap qi σ c = .next σ1 := by
      rcases hc.s_cases with hs | hs <;> simp [step, hs, hcsp, part2, hdig, part3, hnlt, σ1]
    have h2 := runSeg_number q cap σ1 rfl rest (qi + 1) hrest
    obtain ⟨hd, hnc, hnn, _, _⟩ := isSpace_not_digit hr
    have hpush : push cap σ.f '?' = some (σ.f ++ ['?']) := by
      unfold push; rw [if_pos (by have := hc.hlen; omega)]
    let qe : Nat := qi + (c :: rest).length
    let σ2 : St := { σ1 with f := σ.f ++ ['?'], cpFrom := qe, cpTo := qe, s := .unknown }
    have h3a : step q cap qe σ1 r = part2 q cap qe σ2 r := by
      simp [step, σ1, σ2, hnc, hnn, hpush]
    -- σ2 is in the `unknown` state with the digit as previous rune: the space is added
    have hq' : isSpace '?' = false := by decide
    have hpush2 : push cap (σ.f ++ ['?']) ' ' = some (σ.f ++ ['?', ' ']) := by
      unfold push; rw [if_pos (by have := hc.hlen; simp; omega)]; simp
    have h3 : step q cap qe σ1 r =
        .next { σ2 with f := σ.f ++ ['?', ' '], cpFrom := (qe : Int) + 1, pr := r } := by
      rw [h3a]
      have hnlt2 : ¬ ((qe : Int) > (qe : Int) + 1) := by omega
      simp [part2, σ2, σ1, hd, hr, hpush2, part3, hnlt2, hq']
    refine ⟨{ σ2 with f := σ.f ++ ['?', ' '], cpFrom := (qe : Int) + 1, pr := r }, ?_, ?_, ?_, ?_⟩
    · have e : (c :: rest) ++ [r] = c :: (rest ++ [r]) := by simp
      rw [e]
      simp only [runSeg, h1]
      rw [runSeg_append, h2]
      simp only [runSeg]
      have e2 : qi + 1 + rest.length = qe := by simp [qe]; omega
      rw [e2, h3]
    · constructor
      · right; exact ⟨rfl, by simp [cleanPr, hr]⟩
      · simp [qe]
      · simp [σ2, qe]; omega
      · simp [σ2, σ1, hc.hesc]
      · exact hc.hsql
      · have := hc.hlen; simp; omega
      · right; simp
      · exact hc.hpw
      · exact hc.hadd
      · exact hc.hdupe
      · exact hc.hpo
      · exact hc.hpt
    · rfl
    · rfl

/-! ### Quoted strings -/

/-- Reading the body of a quoted value up to and including its closing quote. -/
theorem runSeg_quote (q : List Char) (cap : Nat) (σ1 : St) (c : Char) (g : List Char)
    (hs : σ1.s = .inQuote) (hqc : σ1.quoteChar = c) (hsql : σ1.sqlState ≠ .inValues)
    (hf : σ1.f = g) (hcap : g.length + 1 ≤ cap) :
    ∀ (body : List Char) (esc : Bool) (qi : Nat), closesAt c esc body = true →
      runSeg q cap qi { σ1 with escape := esc } body =
        .next { σ1 with escape := false, cpFrom := ((qi + body.length : Nat) : Int), f := g ++ ['?'], s := .unknown } := by
  intro body
  induction body with
  | nil => intro esc qi h; simp [closesAt] at h
  | cons x rest ih =>
    intro esc qi h
    unfold closesAt at h
    by_cases hx : x = c
    · subst hx
      simp only [ne_eq, not_true_eq_false, if_false] at h
      cases esc with
      | true =>
        simp only [if_true] at h
        have : step q cap qi { σ1 with escape := true } x = .next { σ1 with escape := false } := by
          simp [step, hs, hqc]
        simp only [runSeg, this]
        have := ih false (qi + 1) h
        rw [this]
        simp; omega
      | false =>
        simp only [Bool.false_eq_true, if_false, List.isEmpty_iff] at h
        subst h
        have hpush : push cap g '?' = some (g ++ ['?']) := by
          unfold push; rw [if_pos (by omega)]
        have : step q cap qi { σ1 with escape := false } x =
            .next { σ1 with escape := false, cpFrom := (qi : Int) + 1, f := g ++ ['?'], s := .unknown } := by
          simp [step, hs, hqc, hsql, hf, hpush]
        simp only [runSeg, this]
        simp
    · simp only [ne_eq, hx, not_false_eq_true, if_true] at h
      cases esc with
      | true =>
        simp only [if_true] at h
        have : step q cap qi { σ1 with escape := true } x = .next { σ1 with escape := false } := by
          simp [step, hs, hqc, hx]
        simp only [runSeg, this]
        have := ih false (qi + 1) h
        rw [this]
        simp; omega
      | false =>
        simp only [Bool.false_eq_true, if_false] at h
        by_cases hb : x = '\\'
        · subst hb
          simp only [if_true] at h
          have hx' : ¬ ('\\' = σ1.quoteChar) := by rw [hqc]; exact hx
          have : step q cap qi { σ1 with escape := false } '\\' = .next { σ1 with escape := true } := by
            simp [step, hs, hx']
          simp only [runSeg, this]
          have := ih true (qi + 1) h
          rw [this]
          simp; omega
        · simp only [hb, if_false] at h
          have : step q cap qi { σ1 with escape := false } x = .next { σ1 with escape := false } := by
            simp [step, hs, hqc, hx, hb]
          simp only [runSeg, this]
          have := ih false (qi + 1) h
          rw [this]
          simp; omega

/-- **Quoted strings.** -/
theorem str_item (q : List Char) (cap : Nat) (qi : Nat) (σ : St) (t : List Char) (r : Char) (tail : List Char)
    (hc : Clean qi σ) (hq : q.drop qi = t ++ r :: tail) (hcap : 2 * q.length < cap)
    (hshape : strShape t = true) (hr : isSpace r = true) :
    ∃ σ', runSeg q cap qi σ (t ++ [r]) = .next σ' ∧ Clean (qi + t.length + 1) σ' ∧
      σ'.f = σ.f ++ ['?', ' '] ∧ σ'.prevWord = σ.prevWord := by
  cases t with
  | nil => simp [strShape] at hshape
  | cons c body =>
    simp only [strShape, Bool.and_eq_true, Bool.or_eq_true, decide_eq_true_eq] at hshape
    obtain ⟨hquote, hclose⟩ := hshape
    have hqlen : qi + (c :: body).length + 1 ≤ q.length := by
      have := congrArg List.length hq
      simp at this ⊢; omega
    obtain ⟨hp1, hp2, hp3, _⟩ := hc.pr_facts
    have hcfacts : isSpace c = false ∧ isDigit c = false := by
      rcases hquote with h | h <;> subst h <;> decide
    have hnlt : ¬ ((qi : Int) > σ.cpFrom) := by rw [hc.hfrom]; omega
    let σ1 : St := { σ with s := .inQuote, quoteChar := c, cpTo := qi, pr := c }
    have h1 : step q cap qi σ c = .next σ1 := by
      rcases hc.s_cases with hs | hs <;>
        simp [step, hs, hcfacts.1, hcfacts.2, part2, hquote, hp1, hp2, hp3, part3, hnlt, σ1]
    have hesc : σ1 = { σ1 with escape := false } := by simp [σ1, hc.hesc]
    have h2 := runSeg_quote q cap σ1 c σ.f rfl rfl hc.hsql rfl (by have := hc.hlen; omega) body false (qi + 1) hclose
    rw [← hesc] at h2
    let qe : Nat := qi + (c :: body).length
    have e2 : qi + 1 + body.length = qe := by simp [qe]; omega
    rw [e2] at h2
    let σ2 : St := { σ1 with escape := false, cpFrom := (qe : Int), f := σ.f ++ ['?'], s := .unknown }
    have hcsp : isSpace σ2.pr = false := hcfacts.1
    have h3 := step_space_after_value q cap qe σ2 σ.f r rfl rfl hr hcsp
      (by simp [σ2, σ1, qe]; omega) (by have := hc.hlen; omega)
    refine ⟨{ σ2 with f := σ.f ++ ['?', ' '], cpFrom := (qe : Int) + 1, pr := r }, ?_, ?_, ?_, ?_⟩
    · have e : (c :: body) ++ [r] = c :: (body ++ [r]) := by simp
      rw [e]
      simp only [runSeg, h1]
      rw [runSeg_append, h2]
      simp only [runSeg]
      rw [e2, h3]
    · constructor
      · right; exact ⟨rfl, by simp [cleanPr, hr]⟩
      · simp [qe]
      · simp [σ2, σ1, qe]; omega
      · rfl
      · exact hc.hsql
      · have := hc.hlen; simp; omega
      · right; simp
      · exact hc.hpw
      · exact hc.hadd
      · exact hc.hdupe
      · exact hc.hpo
      · exact hc.hpt
    · rfl
    · rfl

/-! ### Unspaced comparisons: `id=1`, `name>='x'` -/

/-- Reading a whole word (without the character that ends it). -/
theorem word_prefix (q : List Char) (cap : Nat) (qi : Nat) (σ : St) (w tail : List Char)
    (hc : Clean qi σ) (hq : q.drop qi = w ++ tail) (hshape : wordShape w = true)
    (hcallAll : '(' ∈ w → σ.prevWord ≠ kwCall) :
    ∃ σb a, runSeg q cap qi σ w = .next (midWord σb a) ∧ w.getLast? = some a ∧ wordBad a = false ∧
      σb.cpFrom = (qi : Int) ∧ σb.cpTo ≤ (qi : Int) ∧ σb.prevWord = σ.prevWord ∧ σb.f = σ.f ∧
      σb.escape = σ.escape ∧ σb.sqlState = σ.sqlState ∧ σb.addSpace = σ.addSpace ∧
      σb.parOpen = σ.parOpen ∧ σb.parOpenTotal = σ.parOpenTotal ∧
      (∀ k, k ≤ w.length → slice? q qi ((qi + k : Nat) : Int) = some (w.take k)) ∧
      (∃ c rest, w = c :: rest ∧ σb = baseWord σ qi c) := by
  cases w with
  | nil => simp [wordShape] at hshape
  | cons c rest =>
    simp only [wordShape, Bool.and_eq_true] at hshape
    obtain ⟨⟨hfirst, hchain⟩, hpar⟩ := hshape
    have hlt : qi < q.length := lt_length_of_drop (by simpa using hq)
    have h1 := step_first q cap qi σ c hc (by omega) hfirst (fun h => hcallAll (by simp [h]))
    let σb := baseWord σ qi c
    have hbfrom : σb.cpFrom = (qi : Int) := by
      simp only [σb, baseWord]; split <;> rfl
    have hbto : σb.cpTo ≤ (qi : Int) := by
      have : σb.cpTo = σ.cpTo := by simp only [σb, baseWord]; split <;> rfl
      rw [this]; exact hc.hto
    have hbprev : σb.prevWord = σ.prevWord := by simp only [σb, baseWord]; split <;> rfl
    have hbf : σb.f = σ.f := by simp only [σb, baseWord]; split <;> rfl
    have hbesc : σb.escape = σ.escape := by simp only [σb, baseWord]; split <;> rfl
    have hbsql : σb.sqlState = σ.sqlState := by simp only [σb, baseWord]; split <;> rfl
    have hbadd : σb.addSpace = σ.addSpace := by simp only [σb, baseWord]; split <;> rfl
    have hbpo : σb.parOpen = σ.parOpen := by simp only [σb, baseWord]; split <;> rfl
    have hbpt : σb.parOpenTotal = σ.parOpenTotal := by simp only [σb, baseWord]; split <;> rfl
    have hsl : ∀ k, k ≤ (c :: rest).length →
        slice? q qi ((qi + k : Nat) : Int) = some ((c :: rest).take k) := by
      intro k hk
      exact slice_of_drop q (c :: rest) tail qi k hq (by omega) hk
    have h2 := runSeg_mid q cap σb qi (c :: rest) hbfrom hbto (by rw [hbprev]; exact hcallAll) hsl hpar
      rest [] c rfl hchain
    simp only [List.length_nil, Nat.add_zero] at h2
    have hlastBad : wordBad ((c :: rest).getLast (by simp)) = false := by
      rcases List.mem_cons.mp (List.getLast_mem (l := c :: rest) (by simp)) with h | h
      · rw [h]
        simp only [okFirst, Bool.and_eq_true, Bool.not_eq_true'] at hfirst
        exact hfirst.1.1
      · exact chainOK_notBad c rest hchain _ h
    refine ⟨σb, (c :: rest).getLast (by simp), ?_, ?_, hlastBad, hbfrom, hbto, hbprev, hbf, hbesc, hbsql, hbadd, hbpo, hbpt, hsl, ⟨c, rest, rfl, rfl⟩⟩
    · simp only [runSeg, h1]; exact h2
    · exact List.getLast?_eq_some_getLast (by simp)

theorem isOpChar_facts {a : Char} (h : isOpChar a = true) :
    isSpace a = false ∧ a ≠ '\\' ∧ a ≠ 'x' ∧ a ≠ 'b' := by
  simp only [isOpChar, Bool.or_eq_true, decide_eq_true_eq] at h
  rcases h with ((h | h) | h) | h <;> subst h <;> decide

/-- The digit after `id=`: the pending word is copied, a number begins. -/
theorem step_cmp_digit (q : List Char) (cap : Nat) (qi0 qi : Int) (σb : St) (a d : Char) (w : List Char)
    (ha : isOpChar a = true) (hd : isDigit d = true) (hgt : qi0 < qi) (hfrom : σb.cpFrom = qi0)
    (hslice : slice? q qi0 qi = some w) (hval : isValuesWord (lower w) = false)
    (hadd : σb.addSpace = false) (hcap : σb.f.length + w.length ≤ cap) :
    step q cap qi (midWord σb a) d =
      .next { σb with prevWord := lower w, f := σb.f ++ lower w, cpFrom := qi, cpTo := qi, s := .inNumber, pr := d } := by
  have hdsp : isSpace d = false := by
    simp only [isDigit, decide_eq_true_eq] at hd
    simp only [isSpace, Bool.or_eq_false_iff, decide_eq_false_iff_not]
    refine ⟨⟨⟨?_, ?_⟩, ?_⟩, ?_⟩ <;> intro h <;> subst h <;> revert hd <;> decide
  have hlw : (lower w).length = w.length := by simp [lower]
  have hp1 : pushAll cap σb.f (lower w) = some (σb.f ++ lower w) := by
    unfold pushAll; rw [if_pos (by rw [hlw]; omega)]
  have hgt' : qi > qi0 := hgt
  simp [step, midWord, ha, hdsp, part2, hd, part3, hfrom, hgt', hslice, hp1, hval, hadd]

/-- The quote after `name=`: the pending word is copied, a quoted value begins. -/
theorem step_cmp_quote (q : List Char) (cap : Nat) (qi0 qi : Int) (σb : St) (a c : Char) (w : List Char)
    (ha : isOpChar a = true) (hc : c = '\'' ∨ c = '"') (hgt : qi0 < qi) (hfrom : σb.cpFrom = qi0)
    (hslice : slice? q qi0 qi = some w) (hval : isValuesWord (lower w) = false)
    (hadd : σb.addSpace = false) (hcap : σb.f.length + w.length ≤ cap) :
    step q cap qi (midWord σb a) c =
      .next { σb with prevWord := lower w, f := σb.f ++ lower w, cpFrom := qi, cpTo := qi, s := .inQuote,
                      quoteChar := c, pr := c } := by
  obtain ⟨_, ha1, ha2, ha3⟩ := isOpChar_facts ha
  have hcf : isSpace c = false ∧ isDigit c = false := by
    rcases hc with h | h <;> subst h <;> decide
  have hlw : (lower w).length = w.length := by simp [lower]
  have hp1 : pushAll cap σb.f (lower w) = some (σb.f ++ lower w) := by
    unfold pushAll; rw [if_pos (by rw [hlw]; omega)]
  have hgt' : qi > qi0 := hgt
  simp [step, midWord, ha, hcf.1, hcf.2, part2, hc, ha1, ha2, ha3, part3, hfrom, hgt', hslice, hp1, hval, hadd]

/-- The white space that ends a number. -/
theorem num_end (q : List Char) (cap : Nat) (qe : Nat) (σ1 : St) (r : Char)
    (hs : σ1.s = .inNumber) (hr : isSpace r = true) (hcap : σ1.f.length + 2 ≤ cap) :
    step q cap qe σ1 r =
      .next { σ1 with f := σ1.f ++ ['?', ' '], cpFrom := (qe : Int) + 1, cpTo := qe, s := .unknown, pr := r } := by
  obtain ⟨hd, hnc, hnn, _, _⟩ := isSpace_not_digit hr
  have hpush : push cap σ1.f '?' = some (σ1.f ++ ['?']) := by
    unfold push; rw [if_pos (by omega)]
  have hpush2 : push cap (σ1.f ++ ['?']) ' ' = some (σ1.f ++ ['?', ' ']) := by
    unfold push; rw [if_pos (by simp; omega)]; simp
  have hq' : isSpace '?' = false := by decide
  have hnlt2 : ¬ ((qe : Int) > (qe : Int) + 1) := by omega
  simp [step, hs, hnc, hnn, hpush, part2, hd, hr, hpush2, part3, hnlt2, hq']

/-- **Unspaced comparison with a number**: `id=1`. -/
theorem cmp_num_item (q : List Char) (cap : Nat) (qi : Nat) (σ : St) (w n : List Char) (r : Char) (tail : List Char)
    (hc : Clean qi σ) (hq : q.drop qi = (w ++ n) ++ r :: tail) (hcap : 2 * q.length < cap)
    (hw : cmpShape w = true) (hn : numShape n = true)
    (hcall : (w.contains '(' && decide (σ.prevWord = kwCall)) = false) (hr : isSpace r = true) :
    ∃ σ', runSeg q cap qi σ ((w ++ n) ++ [r]) = .next σ' ∧ Clean (qi + (w ++ n).length + 1) σ' ∧
      σ'.f = σ.f ++ (lower w ++ ['?']) ++ [' '] ∧ σ'.prevWord = lower w := by
  simp only [cmpShape, Bool.and_eq_true, Bool.not_eq_true'] at hw
  obtain ⟨⟨hshape, hlastop⟩, hval⟩ := hw
  have hcallAll : '(' ∈ w → σ.prevWord ≠ kwCall := by
    intro hmem
    have : w.contains '(' = true := by rw [List.contains_iff_mem]; exact hmem
    simp only [this, Bool.true_and, decide_eq_false_iff_not] at hcall
    exact hcall
  have hq1 : q.drop qi = w ++ (n ++ r :: tail) := by simpa using hq
  obtain ⟨σb, a, h1, hlast, _, hbfrom, hbto, hbprev, hbf, hbesc, hbsql, hbadd, hbpo, hbpt, hsl, _⟩ :=
    word_prefix q cap qi σ w _ hc hq1 hshape hcallAll
  have ha : isOpChar a = true := by rw [hlast] at hlastop; exact hlastop
  cases n with
  | nil => simp [numShape] at hn
  | cons d rest =>
    simp only [numShape, Bool.and_eq_true] at hn
    have hqlen : qi + w.length + (d :: rest).length + 1 ≤ q.length := by
      have := congrArg List.length hq
      simp at this ⊢; omega
    have hwpos : 0 < w.length := by
      cases w with
      | nil => simp at hlast
      | cons _ _ => simp
    have hsw := hsl w.length (Nat.le_refl _)
    rw [List.take_length] at hsw
    have h2 := step_cmp_digit q cap qi ((qi + w.length : Nat) : Int) σb a d w ha hn.1 (by omega) hbfrom hsw hval
      (by rw [hbadd]; exact hc.hadd) (by rw [hbf]; have := hc.hlen; omega)
    let σ1 : St := { σb with prevWord := lower w, f := σb.f ++ lower w, cpFrom := ((qi + w.length : Nat) : Int),
                             cpTo := ((qi + w.length : Nat) : Int), s := .inNumber, pr := d }
    have h3 := runSeg_number q cap σ1 rfl rest (qi + w.length + 1) hn.2
    let qe : Nat := qi + w.length + 1 + rest.length
    have hlw : (lower w).length = w.length := by simp [lower]
    have h4 := num_end q cap qe σ1 r rfl hr (by
      show (σb.f ++ lower w).length + 2 ≤ cap
      rw [hbf]; have := hc.hlen; simp [hlw]; omega)
    refine ⟨{ σ1 with f := σ1.f ++ ['?', ' '], cpFrom := (qe : Int) + 1, cpTo := qe, s := .unknown, pr := r }, ?_, ?_, ?_, ?_⟩
    · have e : (w ++ d :: rest) ++ [r] = w ++ (d :: (rest ++ [r])) := by simp
      rw [e, runSeg_append, h1]
      simp only [runSeg, h2]
      rw [runSeg_append, h3]
      simp only [runSeg]
      rw [h4]
    · constructor
      · right; exact ⟨rfl, by simp [cleanPr, hr]⟩
      · simp [qe]; omega
      · simp [qe]; omega
      · show σb.escape = false
        rw [hbesc]; exact hc.hesc
      · show σb.sqlState ≠ .inValues
        rw [hbsql]; exact hc.hsql
      · show (σb.f ++ lower w ++ ['?', ' ']).length ≤ _
        rw [hbf]; have := hc.hlen; simp [hlw]; omega
      · right; simp [σ1]
      · exact hval
      · show σb.addSpace = false
        rw [hbadd]; exact hc.hadd
      · show σb.sqlState ≠ .onDupeKeyUpdate
        rw [hbsql]; exact hc.hdupe
      · show σb.parOpen = 0
        rw [hbpo]; exact hc.hpo
      · show σb.parOpenTotal = 0
        rw [hbpt]; exact hc.hpt
    · show σb.f ++ lower w ++ ['?', ' '] = _
      rw [hbf]; simp
    · rfl

/-- **Unspaced comparison with a quoted string**: `name>='x'`. -/
theorem cmp_str_item (q : List Char) (cap : Nat) (qi : Nat) (σ : St) (w t : List Char) (r : Char) (tail : List Char)
    (hc : Clean qi σ) (hq : q.drop qi = (w ++ t) ++ r :: tail) (hcap : 2 * q.length < cap)
    (hw : cmpShape w = true) (ht : strShape t = true)
    (hcall : (w.contains '(' && decide (σ.prevWord = kwCall)) = false) (hr : isSpace r = true) :
    ∃ σ', runSeg q cap qi σ ((w ++ t) ++ [r]) = .next σ' ∧ Clean (qi + (w ++ t).length + 1) σ' ∧
      σ'.f = σ.f ++ (lower w ++ ['?']) ++ [' '] ∧ σ'.prevWord = lower w := by
  simp only [cmpShape, Bool.and_eq_true, Bool.not_eq_true'] at hw
  obtain ⟨⟨hshape, hlastop⟩, hval⟩ := hw
  have hcallAll : '(' ∈ w → σ.prevWord ≠ kwCall := by
    intro hmem
    have : w.contains '(' = true := by rw [List.contains_iff_mem]; exact hmem
    simp only [this, Bool.true_and, decide_eq_false_iff_not] at hcall
    exact hcall
  have hq1 : q.drop qi = w ++ (t ++ r :: tail) := by simpa using hq
  obtain ⟨σb, a, h1, hlast, _, hbfrom, hbto, hbprev, hbf, hbesc, hbsql, hbadd, hbpo, hbpt, hsl, _⟩ :=
    word_prefix q cap qi σ w _ hc hq1 hshape hcallAll
  have ha : isOpChar a = true := by rw [hlast] at hlastop; exact hlastop
  cases t with
  | nil => simp [strShape] at ht
  | cons c body =>
    simp only [strShape, Bool.and_eq_true, Bool.or_eq_true, decide_eq_true_eq] at ht
    obtain ⟨hquote, hclose⟩ := ht
    have hqlen : qi + w.length + (c :: body).length + 1 ≤ q.length := by
      have := congrArg List.length hq
      simp at this ⊢; omega
    have hwpos : 0 < w.length := by
      cases w with
      | nil => simp at hlast
      | cons _ _ => simp
    have hsw := hsl w.length (Nat.le_refl _)
    rw [List.take_length] at hsw
    have hlw : (lower w).length = w.length := by simp [lower]
    have h2 := step_cmp_quote q cap qi ((qi + w.length : Nat) : Int) σb a c w ha hquote (by omega) hbfrom hsw hval
      (by rw [hbadd]; exact hc.hadd) (by rw [hbf]; have := hc.hlen; omega)
    let σ1 : St := { σb with prevWord := lower w, f := σb.f ++ lower w, cpFrom := ((qi + w.length : Nat) : Int),
                             cpTo := ((qi + w.length : Nat) : Int), s := .inQuote, quoteChar := c, pr := c }
    have hesc : σ1 = { σ1 with escape := false } := by
      have : σb.escape = false := by rw [hbesc]; exact hc.hesc
      simp [σ1, this]
    have h3 := runSeg_quote q cap σ1 c (σb.f ++ lower w) rfl rfl (by show σb.sqlState ≠ _; rw [hbsql]; exact hc.hsql) rfl
      (by rw [hbf]; have := hc.hlen; simp [hlw]; omega) body false (qi + w.length + 1) hclose
    rw [← hesc] at h3
    let qe : Nat := qi + w.length + 1 + body.length
    let σ2 : St := { σ1 with escape := false, cpFrom := (qe : Int), f := (σb.f ++ lower w) ++ ['?'], s := .unknown }
    have hcsp : isSpace σ2.pr = false := by
      show isSpace c = false
      rcases hquote with h | h <;> subst h <;> decide
    have h4 := step_space_after_value q cap qe σ2 (σb.f ++ lower w) r rfl rfl hr hcsp
      (by simp [σ2, σ1, qe]; omega) (by rw [hbf]; have := hc.hlen; simp [hlw]; omega)
    refine ⟨{ σ2 with f := (σb.f ++ lower w) ++ ['?', ' '], cpFrom := (qe : Int) + 1, pr := r }, ?_, ?_, ?_, ?_⟩
    · have e : (w ++ c :: body) ++ [r] = w ++ (c :: (body ++ [r])) := by simp
      rw [e, runSeg_append, h1]
      simp only [runSeg, h2]
      rw [runSeg_append, h3]
      simp only [runSeg]
      rw [h4]
    · constructor
      · right; exact ⟨rfl, by simp [cleanPr, hr]⟩
      · simp [qe]; omega
      · simp [σ2, σ1, qe]; omega
      · rfl
      · show σb.sqlState ≠ .inValues
        rw [hbsql]; exact hc.hsql
      · show (σb.f ++ lower w ++ ['?', ' ']).length ≤ _
        rw [hbf]; have := hc.hlen; simp [hlw]; omega
      · right; simp
      · exact hval
      · show σb.addSpace = false
        rw [hbadd]; exact hc.hadd
      · show σb.sqlState ≠ .onDupeKeyUpdate
        rw [hbsql]; exact hc.hdupe
      · show σb.parOpen = 0
        rw [hbpo]; exact hc.hpo
      · show σb.parOpenTotal = 0
        rw [hbpt]; exact hc.hpt
    · show σb.f ++ lower w ++ ['?', ' '] = _
      rw [hbf]; simp
    · rfl

/-! ### Separator pieces: white space and comments -/

/-- What a separator piece preserves. -/
def SameOut (σ σ' : St) : Prop := σ'.f = σ.f ∧ σ'.prevWord = σ.prevWord

theorem cleanPr_slash : cleanPr '/' = true := by decide
theorem cleanPr_nl : cleanPr '\n' = true := by decide

theorem ws_piece (q : List Char) (cap : Nat) (qi : Nat) (σ : St) (r : Char)
    (hc : Clean qi σ) (hr : isSpace r = true) :
    ∃ σ', step q cap qi σ r = .next σ' ∧ Clean (qi + 1) σ' ∧ SameOut σ σ' := by
  refine ⟨{ σ with cpFrom := (qi : Int) + 1, pr := r }, ?_, ?_, rfl, rfl⟩
  · obtain ⟨hd, _⟩ := isSpace_not_digit hr
    by_cases hp : isSpace σ.pr = true
    · rcases hc.s_cases with hs | hs <;> simp [step, hs, hr, hp]
    · have hp' : isSpace σ.pr = false := by simpa using hp
      have hs : σ.s = .unknown := by
        rcases hc.hs with h | h
        · rw [h.2] at hp'; cases hp'
        · exact h.1
      have hnlt : ¬ (σ.cpTo > (qi : Int) + 1) := by have := hc.hto; omega
      have hsp : isSpace ' ' = true := by decide
      rcases hc.hlast with h | h
      · simp [step, hs, hr, hp', part2, hd, hc.hfrom, h, part3, hnlt]
      · simp [step, hs, hr, hp', part2, hd, hc.hfrom, h, hsp, part3, hnlt]
  · constructor
    · rcases hc.hs with h | h
      · left; exact ⟨h.1, hr⟩
      · right; exact ⟨h.1, by simp [cleanPr, hr]⟩
    · simp
    · have := hc.hto; simp; omega
    · exact hc.hesc
    · exact hc.hsql
    · have := hc.hlen; simp; omega
    · exact hc.hlast
    · exact hc.hpw
    · exact hc.hadd
    · exact hc.hdupe
    · exact hc.hpo
    · exact hc.hpt

/-- Skipping the body of a `/* … */` comment (after its first character `p`). -/
theorem runSeg_mlc (q : List Char) (cap : Nat) (σ3 : St) (hs : σ3.s = .inMLC) :
    ∀ (rest : List Char) (p : Char) (qi : Nat), mlcTail (p :: rest) = true →
      runSeg q cap qi { σ3 with pr := p } rest =
        .next { σ3 with s := .unknown, cpFrom := ((qi + rest.length : Nat) : Int), pr := '/' } := by
  intro rest
  induction rest with
  | nil => intro p qi h; simp [mlcTail] at h
  | cons b r ih =>
    intro p qi h
    unfold mlcTail at h
    by_cases hpb : p = '*' ∧ b = '/'
    · rw [if_pos hpb] at h
      simp only [List.isEmpty_iff] at h
      subst h
      obtain ⟨hp, hb⟩ := hpb
      subst hp; subst hb
      simp [runSeg, step, hs]
    · rw [if_neg hpb] at h
      have : step q cap qi { σ3 with pr := p } b = .next { σ3 with pr := b } := by
        simp [step, hs, hpb]
      simp only [runSeg, this]
      rw [ih b (qi + 1) h]
      simp; omega

/-- Skipping a one-line comment up to and including its newline. -/
theorem runSeg_olc (q : List Char) (cap : Nat) (σ4 : St) (hs : σ4.s = .inOLC) :
    ∀ (body : List Char) (qi : Nat), lineTail body = true →
      runSeg q cap qi σ4 body =
        .next { σ4 with s := .unknown, cpFrom := ((qi + body.length : Nat) : Int), pr := '\n', addSpace := false } := by
  intro body
  induction body with
  | nil => intro qi h; simp [lineTail] at h
  | cons b r ih =>
    intro qi h
    unfold lineTail at h
    by_cases hb : b = '\n'
    · rw [if_pos hb] at h
      simp only [List.isEmpty_iff] at h
      subst h; subst hb
      simp [runSeg, step, hs]
    · rw [if_neg hb] at h
      have : step q cap qi σ4 b = .next σ4 := by simp [step, hs, hb]
      simp only [runSeg, this]
      rw [ih (qi + 1) h]
      simp; omega

theorem mlc_piece (q : List Char) (cap : Nat) (qi : Nat) (σ : St) (body : List Char)
    (hc : Clean qi σ) (hok : (SepPiece.mlc body).ok = true) :
    ∃ σ', runSeg q cap qi σ (SepPiece.mlc body).text = .next σ' ∧
      Clean (qi + (SepPiece.mlc body).text.length) σ' ∧ SameOut σ σ' := by
  simp only [SepPiece.ok, Bool.and_eq_true, Bool.not_eq_true', decide_eq_false_iff_not] at hok
  obtain ⟨htail, hbang⟩ := hok
  cases body with
  | nil => simp [mlcTail] at htail
  | cons b rest =>
    have hb : b ≠ '!' := by simpa using hbang
    have hnlt : ¬ (σ.cpTo > σ.cpFrom) := by rw [hc.hfrom]; have := hc.hto; omega
    have h1 : step q cap qi σ '/' = .next { σ with s := .divOrMLC, pr := '/' } := by
      rcases hc.s_cases with hs | hs <;> simp [step, hs, isSpace, part2, isDigit, part3, hnlt]
    have h2 : step q cap ((qi + 1 : Nat) : Int) { σ with s := .divOrMLC, pr := '/' } '*' =
        .next { σ with s := .mlcOrMySQLCode, pr := '*' } := by
      simp [step, isSpace, part2, isDigit, part3, hnlt]
    have h3 : step q cap ((qi + 1 + 1 : Nat) : Int) { σ with s := .mlcOrMySQLCode, pr := '*' } b =
        .next { σ with s := .inMLC, pr := b } := by
      simp [step, hb]
    have h4 := runSeg_mlc q cap { σ with s := .inMLC, pr := b } rfl rest b (qi + 1 + 1 + 1) htail
    refine ⟨{ σ with s := .unknown, cpFrom := ((qi + 1 + 1 + 1 + rest.length : Nat) : Int), pr := '/' }, ?_, ?_, rfl, rfl⟩
    · simp only [SepPiece.text, runSeg, h1, h2, h3]
      exact h4
    · constructor
      · right; first | exact ⟨rfl, cleanPr_slash⟩ | exact ⟨rfl, cleanPr_nl⟩
      · simp [SepPiece.text]; omega
      · have := hc.hto; simp [SepPiece.text]; omega
      · exact hc.hesc
      · exact hc.hsql
      · have := hc.hlen; simp [SepPiece.text]; omega
      · exact hc.hlast
      · exact hc.hpw
      · exact hc.hadd
      · exact hc.hdupe
      · exact hc.hpo
      · exact hc.hpt

theorem hash_piece (q : List Char) (cap : Nat) (qi : Nat) (σ : St) (body : List Char)
    (hc : Clean qi σ) (hok : (SepPiece.hash body).ok = true) :
    ∃ σ', runSeg q cap qi σ (SepPiece.hash body).text = .next σ' ∧
      Clean (qi + (SepPiece.hash body).text.length) σ' ∧ SameOut σ σ' := by
  simp only [SepPiece.ok] at hok
  have hnlt : ¬ (σ.cpTo > σ.cpFrom) := by rw [hc.hfrom]; have := hc.hto; omega
  have h1 : step q cap qi σ '#' = .next { σ with s := .inOLC, pr := '#' } := by
    rcases hc.s_cases with hs | hs <;> simp [step, hs, isSpace, part2, isDigit, part3, hnlt]
  have h2 := runSeg_olc q cap { σ with s := .inOLC, pr := '#' } rfl body (qi + 1) hok
  refine ⟨{ σ with s := .unknown, cpFrom := ((qi + 1 + body.length : Nat) : Int), pr := '\n', addSpace := false }, ?_, ?_, rfl, rfl⟩
  · simp only [SepPiece.text, runSeg, h1]
    exact h2
  · constructor
    · right; first | exact ⟨rfl, cleanPr_slash⟩ | exact ⟨rfl, cleanPr_nl⟩
    · simp [SepPiece.text]; omega
    · have := hc.hto; simp [SepPiece.text]; omega
    · exact hc.hesc
    · exact hc.hsql
    · have := hc.hlen; simp [SepPiece.text]; omega
    · exact hc.hlast
    · exact hc.hpw
    · rfl
    · exact hc.hdupe
    · exact hc.hpo
    · exact hc.hpt

theorem dash_piece (q : List Char) (cap : Nat) (qi : Nat) (σ : St) (c : Char) (body : List Char)
    (hc : Clean qi σ) (hok : (SepPiece.dash c body).ok = true) :
    ∃ σ', runSeg q cap qi σ (SepPiece.dash c body).text = .next σ' ∧
      Clean (qi + (SepPiece.dash c body).text.length) σ' ∧ SameOut σ σ' := by
  simp only [SepPiece.ok, Bool.and_eq_true, Bool.or_eq_true, decide_eq_true_eq] at hok
  obtain ⟨hcws, htail⟩ := hok
  obtain ⟨_, _, _, hpd, _⟩ := hc.pr_facts
  have hnlt : ¬ (σ.cpTo > σ.cpFrom) := by rw [hc.hfrom]; have := hc.hto; omega
  have hcsp : isSpace c = true ∧ isDigit c = false := by
    rcases hcws with (h | h) | h <;> subst h <;> decide
  have h1 : step q cap qi σ '-' = .next { σ with s := .opOrNumber, pr := '-' } := by
    rcases hc.s_cases with hs | hs <;> simp [step, hs, isSpace, part2, isDigit, part3, hnlt, hpd]
  have h2 : step q cap ((qi + 1 : Nat) : Int) { σ with s := .opOrNumber, pr := '-' } '-' =
      .next { σ with s := .inDash, pr := '-' } := by
    simp [step, isSpace, part2, isDigit, part3, hnlt]
  let σ3 : St := if σ.cpTo > 2 then { σ with s := .inOLC, cpTo := ((qi + 1 + 1 : Nat) : Int) - 2, addSpace := true, pr := c }
    else { σ with s := .inOLC, pr := c }
  have hdash : isSpace '-' = false := by decide
  have h3 : step q cap ((qi + 1 + 1 : Nat) : Int) { σ with s := .inDash, pr := '-' } c = .next σ3 := by
    by_cases hgt : σ.cpTo > 2
    · have hn2 : ¬ (σ.cpFrom < (qi : Int) + 1 + 1 - 2) := by rw [hc.hfrom]; omega
      simp [step, hcsp.1, hcsp.2, hdash, part2, hgt, part3, hn2, σ3]
    · simp [step, hcsp.1, hcsp.2, hdash, part2, hgt, part3, hnlt, σ3]
  have hs3 : σ3.s = .inOLC := by simp only [σ3]; split <;> rfl
  have h4 := runSeg_olc q cap σ3 hs3 body (qi + 1 + 1 + 1) htail
  refine ⟨{ σ3 with s := .unknown, cpFrom := ((qi + 1 + 1 + 1 + body.length : Nat) : Int), pr := '\n', addSpace := false }, ?_, ?_, ?_, ?_⟩
  · simp only [SepPiece.text, runSeg, h1, h2, h3]
    exact h4
  · have hto3 : σ3.cpTo ≤ (qi : Int) := by
      simp only [σ3]; split
      · simp; omega
      · exact hc.hto
    have hf3 : σ3.f = σ.f := by simp only [σ3]; split <;> rfl
    constructor
    · right; first | exact ⟨rfl, cleanPr_slash⟩ | exact ⟨rfl, cleanPr_nl⟩
    · simp [SepPiece.text]; omega
    · simp [SepPiece.text]; omega
    · show σ3.escape = false
      simp only [σ3]; split <;> exact hc.hesc
    · show σ3.sqlState ≠ .inValues
      simp only [σ3]; split <;> exact hc.hsql
    · show σ3.f.length ≤ _
      rw [hf3]; have := hc.hlen; simp [SepPiece.text]; omega
    · show σ3.f = [] ∨ _
      rw [hf3]; exact hc.hlast
    · show isValuesWord σ3.prevWord = false
      simp only [σ3]; split <;> exact hc.hpw
    · rfl
    · show σ3.sqlState ≠ .onDupeKeyUpdate
      simp only [σ3]; split <;> exact hc.hdupe
    · show σ3.parOpen = 0
      simp only [σ3]; split <;> exact hc.hpo
    · show σ3.parOpenTotal = 0
      simp only [σ3]; split <;> exact hc.hpt
  · show σ3.f = σ.f
    simp only [σ3]; split <;> rfl
  · show σ3.prevWord = σ.prevWord
    simp only [σ3]; split <;> rfl

/-! ### Value lists: `in (1, 2)`, `values ('a', f(b))` -/

/-- The state after a value list and at least one white-space character. -/
structure AfterList (qi : Nat) (σ : St) : Prop where
  hs : σ.s = .moreValuesOrUnknown
  hpr : isSpace σ.pr = true
  hto : σ.cpTo ≤ σ.cpFrom
  hfromle : σ.cpFrom ≤ qi
  hesc : σ.escape = false
  hsql : σ.sqlState = .inValues
  hvn : σ.valueNo = 1
  hlen : σ.f.length ≤ 2 * qi
  hpo : σ.parOpen = 0
  hpt : σ.parOpenTotal = 0
  hadd : σ.addSpace = false

theorem ws_piece_al (q : List Char) (cap : Nat) (qi : Nat) (σ : St) (r : Char)
    (hc : AfterList qi σ) (hr : isSpace r = true) :
    ∃ σ', step q cap qi σ r = .next σ' ∧ AfterList (qi + 1) σ' ∧ SameOut σ σ' := by
  refine ⟨{ σ with cpFrom := (qi : Int) + 1, pr := r }, ?_, ?_, rfl, rfl⟩
  · simp [step, hc.hs, hr, hc.hpr]
  · constructor
    · exact hc.hs
    · exact hr
    · have := hc.hto; have := hc.hfromle; simp; omega
    · simp
    · exact hc.hesc
    · exact hc.hsql
    · exact hc.hvn
    · have := hc.hlen; simp; omega
    · exact hc.hpo
    · exact hc.hpt
    · exact hc.hadd

/-- The first character of the word that follows a value list. -/
theorem step_first_al (q : List Char) (cap : Nat) (qi : Nat) (σ : St) (c : Char) (hc : AfterList qi σ)
    (hok : okFirst c = true) (hop : isOpChar c = false) (hpar : c ≠ '(') (hcomma : c ≠ ',') :
    step q cap qi σ c =
      .next (midWord { σ with valueNo := 0, cpFrom := (qi : Int), sqlState := .unknown } c) := by
  simp only [okFirst, wordBad, Bool.and_eq_true, Bool.not_eq_true', Bool.or_eq_false_iff,
    decide_eq_false_iff_not] at hok
  obtain ⟨⟨hbad, hd⟩, hdot⟩ := hok
  obtain ⟨⟨⟨⟨⟨⟨⟨hsp, hq1⟩, hq2⟩, hsl⟩, hpl⟩, hmi⟩, hha⟩, hco⟩ := hbad
  have hnlt : ¬ σ.cpTo > (qi : Int) := by have := hc.hto; have := hc.hfromle; omega
  have hb' := hop
  simp only [isOpChar, Bool.or_eq_false_iff, decide_eq_false_iff_not] at hb'
  obtain ⟨⟨⟨hb1, hb2⟩, hb3⟩, hb4⟩ := hb'
  simp [step, midWord, hop, hsp, part2, part3, hd, hq1, hq2, hb1, hb2, hb3, hb4, hnlt, hsl, hpl,
    hmi, hdot, hpar, hcomma, hco, hha, hc.hs, hc.hsql]

/-- **A word after a value list** (`… in (1, 2) and …`). -/
theorem word_item_al (q : List Char) (cap : Nat) (qi : Nat) (σ : St) (w : List Char) (r : Char) (tail : List Char)
    (hc : AfterList qi σ) (hq : q.drop qi = w ++ r :: tail) (hcap : 2 * q.length < cap)
    (hshape : wordShape w = true) (hctx : wordCtx σ.prevWord w = true) (hr : isSpace r = true)
    (hplain : plainFirst w = true) :
    ∃ σ', runSeg q cap qi σ (w ++ [r]) = .next σ' ∧ Clean (qi + w.length + 1) σ' ∧
      σ'.f = σ.f ++ lower w ++ [' '] ∧ σ'.prevWord = lower w := by
  cases w with
  | nil => simp [wordShape] at hshape
  | cons c rest =>
    simp only [plainFirst, Bool.and_eq_true, Bool.not_eq_true', decide_eq_true_eq] at hplain
    have hfirst : okFirst c = true := by
      simp only [wordShape, Bool.and_eq_true] at hshape; exact hshape.1.1
    have h1 := step_first_al q cap qi σ c hc hfirst hplain.1.1 hplain.1.2 hplain.2
    exact word_item_core q cap qi σ { σ with valueNo := 0, cpFrom := (qi : Int), sqlState := .unknown } c rest r tail
      h1 rfl (by have := hc.hto; have := hc.hfromle; simp; omega) hc.hesc (by simp) (by simp) hc.hlen hc.hpo hc.hpt
      hq hcap hshape hctx hr

/-- Inside the parentheses of a value list, at depth `d`. -/
structure InList (d : Int) (σ : St) : Prop where
  hs : σ.s = .inValues
  hsql : σ.sqlState = .inValues
  hpo : σ.parOpen = d
  hesc : σ.escape = false
  hpt : 0 ≤ σ.parOpenTotal

/-- What reading list content leaves unchanged. -/
def ListFrame (σ σ' : St) : Prop :=
  σ'.prevWord = σ.prevWord ∧ σ'.f = σ.f ∧ σ'.valueNo = σ.valueNo ∧ σ'.firstPar = σ.firstPar ∧
    σ'.cpTo = σ.cpTo ∧ σ'.addSpace = σ.addSpace ∧ σ'.pr = σ.pr

theorem ListFrame.refl (σ : St) : ListFrame σ σ := ⟨rfl, rfl, rfl, rfl, rfl, rfl, rfl⟩

theorem ListFrame.trans {a b c : St} (h1 : ListFrame a b) (h2 : ListFrame b c) : ListFrame a c :=
  ⟨h2.1.trans h1.1, h2.2.1.trans h1.2.1, h2.2.2.1.trans h1.2.2.1, h2.2.2.2.1.trans h1.2.2.2.1,
    h2.2.2.2.2.1.trans h1.2.2.2.2.1, h2.2.2.2.2.2.1.trans h1.2.2.2.2.2.1, h2.2.2.2.2.2.2.trans h1.2.2.2.2.2.2⟩

/-- A quoted value inside a list is skipped up to its closing quote. -/
theorem skip_quoted_run (q : List Char) (cap : Nat) (σ : St) (c : Char) (hsql : σ.sqlState = .inValues) :
    ∀ (body : List Char) (esc : Bool) (qi : Nat) (rest' : List Char), skipQuoted c esc body = some rest' →
      ∃ pre, body = pre ++ rest' ∧
        runSeg q cap qi { σ with s := .inQuote, quoteChar := c, escape := esc } pre =
          .next { σ with s := .inValues, quoteChar := c, escape := false, cpFrom := ((qi + pre.length : Nat) : Int) } := by
  intro body
  induction body with
  | nil => intro esc qi rest' h; simp [skipQuoted] at h
  | cons x rest ih =>
    intro esc qi rest' h
    unfold skipQuoted at h
    by_cases hx : x = c
    · subst hx
      simp only [ne_eq, not_true_eq_false, if_false] at h
      cases esc with
      | true =>
        simp only [if_true] at h
        obtain ⟨pre, hpre, hrun⟩ := ih false (qi + 1) rest' h
        refine ⟨x :: pre, by simp [hpre], ?_⟩
        have : step q cap qi { σ with s := .inQuote, quoteChar := x, escape := true } x =
            .next { σ with s := .inQuote, quoteChar := x, escape := false } := by simp [step]
        simp only [runSeg, this, hrun]
        simp; omega
      | false =>
        simp only [Bool.false_eq_true, if_false, Option.some.injEq] at h
        subst h
        refine ⟨[x], by simp, ?_⟩
        simp [runSeg, step, hsql]
    · simp only [ne_eq, hx, not_false_eq_true, if_true] at h
      have hx' : ¬ (x = c) := hx
      cases esc with
      | true =>
        simp only [if_true] at h
        obtain ⟨pre, hpre, hrun⟩ := ih false (qi + 1) rest' h
        refine ⟨x :: pre, by simp [hpre], ?_⟩
        have : step q cap qi { σ with s := .inQuote, quoteChar := c, escape := true } x =
            .next { σ with s := .inQuote, quoteChar := c, escape := false } := by simp [step, hx']
        simp only [runSeg, this, hrun]
        simp; omega
      | false =>
        simp only [Bool.false_eq_true, if_false] at h
        by_cases hb : x = '\\'
        · subst hb
          simp only [if_true] at h
          obtain ⟨pre, hpre, hrun⟩ := ih true (qi + 1) rest' h
          refine ⟨'\\' :: pre, by simp [hpre], ?_⟩
          have : step q cap qi { σ with s := .inQuote, quoteChar := c, escape := false } '\\' =
              .next { σ with s := .inQuote, quoteChar := c, escape := true } := by simp [step, hx']
          simp only [runSeg, this, hrun]
          simp; omega
        · simp only [hb, if_false] at h
          obtain ⟨pre, hpre, hrun⟩ := ih false (qi + 1) rest' h
          refine ⟨x :: pre, by simp [hpre], ?_⟩
          have : step q cap qi { σ with s := .inQuote, quoteChar := c, escape := false } x =
              .next { σ with s := .inQuote, quoteChar := c, escape := false } := by simp [step, hx', hb]
          simp only [runSeg, this, hrun]
          simp; omega

/-- Reading the content of a value list: the state stays inside the list and
    ends at depth 1 (the closing parenthesis comes next). -/
theorem list_scan_run (q : List Char) (cap : Nat) :
    ∀ (fuel : Nat) (d : Nat) (l : List Char) (σ : St) (qi : Nat), listScan fuel d l = true → 1 ≤ d →
      InList (d : Int) σ → ∃ σ', runSeg q cap qi σ l = .next σ' ∧ InList 1 σ' ∧ ListFrame σ σ' := by
  intro fuel
  induction fuel with
  | zero => intro d l σ qi h; simp [listScan] at h
  | succ fuel ih =>
    intro d l σ qi h hd hin
    cases l with
    | nil =>
      simp only [listScan, beq_iff_eq] at h
      subst h
      exact ⟨σ, by simp [runSeg], hin, ListFrame.refl σ⟩
    | cons c rest =>
      simp only [listScan] at h
      by_cases hq : c = '\'' ∨ c = '"'
      · rw [if_pos hq] at h
        cases hsk : skipQuoted c false rest with
        | none => rw [hsk] at h; cases h
        | some rest' =>
          rw [hsk] at h
          simp only at h
          have h1 : step q cap qi σ c = .next { σ with s := .inQuote, quoteChar := c } := by
            simp [step, hin.hs, hq]
          obtain ⟨pre, hpre, hrun⟩ := skip_quoted_run q cap σ c hin.hsql rest false (qi + 1) rest' hsk
          have hescσ : ({ σ with s := .inQuote, quoteChar := c } : St) =
              { σ with s := .inQuote, quoteChar := c, escape := false } := by
            have := hin.hesc; cases σ; simp_all
          let σ2 : St := { σ with s := .inValues, quoteChar := c, escape := false,
                                  cpFrom := ((qi + 1 + pre.length : Nat) : Int) }
          have hin2 : InList (d : Int) σ2 := ⟨rfl, hin.hsql, hin.hpo, rfl, hin.hpt⟩
          obtain ⟨σ', h3, hin3, hfr3⟩ := ih d rest' σ2 (qi + 1 + pre.length) h hd hin2
          refine ⟨σ', ?_, hin3, ListFrame.trans ⟨rfl, rfl, rfl, rfl, rfl, rfl, rfl⟩ hfr3⟩
          simp only [runSeg, h1]
          rw [hpre, runSeg_append, hescσ, hrun]
          exact h3
      · rw [if_neg hq] at h
        have hq1 : c ≠ '\'' := fun e => hq (Or.inl e)
        have hq2 : c ≠ '"' := fun e => hq (Or.inr e)
        by_cases ho : c = '('
        · subst ho
          simp only [if_true] at h
          let σ2 : St := { σ with parOpen := σ.parOpen + 1 }
          have h1 : step q cap qi σ '(' = .next σ2 := by
            have hne : ¬ (σ.parOpen + 1 = 1) := by rw [hin.hpo]; omega
            have hgt : σ.parOpen + 1 > 0 := by rw [hin.hpo]; omega
            simp [step, hin.hs, isSpace, hne, hgt, σ2]
          have hin2 : InList ((d + 1 : Nat) : Int) σ2 :=
            ⟨hin.hs, hin.hsql, by simp [σ2, hin.hpo], hin.hesc, hin.hpt⟩
          obtain ⟨σ', h3, hin3, hfr3⟩ := ih (d + 1) rest σ2 (qi + 1) h (by omega) hin2
          exact ⟨σ', by simp only [runSeg, h1]; exact h3, hin3, ListFrame.trans ⟨rfl, rfl, rfl, rfl, rfl, rfl, rfl⟩ hfr3⟩
        · rw [if_neg ho] at h
          by_cases hcl : c = ')'
          · subst hcl
            simp only [if_true] at h
            by_cases hd1 : d ≤ 1
            · simp [hd1] at h
            · simp only [hd1, if_false] at h
              let σ2 : St := { σ with parOpen := σ.parOpen - 1, parOpenTotal := σ.parOpenTotal + 1 }
              have h1 : step q cap qi σ ')' = .next σ2 := by
                have hgt : σ.parOpen - 1 > 0 := by rw [hin.hpo]; omega
                have hgt2 : ¬ (σ.parOpen ≤ 1) := by rw [hin.hpo]; omega
                simp [step, hin.hs, isSpace, hgt, hgt2, σ2]
              have hin2 : InList ((d - 1 : Nat) : Int) σ2 :=
                ⟨hin.hs, hin.hsql, by simp [σ2, hin.hpo]; omega, hin.hesc, by have := hin.hpt; simp [σ2]; omega⟩
              obtain ⟨σ', h3, hin3, hfr3⟩ := ih (d - 1) rest σ2 (qi + 1) h (by omega) hin2
              exact ⟨σ', by simp only [runSeg, h1]; exact h3, hin3, ListFrame.trans ⟨rfl, rfl, rfl, rfl, rfl, rfl, rfl⟩ hfr3⟩
          · rw [if_neg hcl] at h
            have h1 : step q cap qi σ c = .next σ := by
              have hgt : σ.parOpen > 0 := by rw [hin.hpo]; omega
              by_cases hsp : isSpace c = true
              · simp [step, hin.hs, hq1, hq2, hsp, ho, hcl]
              · simp [step, hin.hs, hq1, hq2, hsp, ho, hcl, hgt]
            obtain ⟨σ', h3, hin3, hfr3⟩ := ih d rest σ (qi + 1) h hd hin
            exact ⟨σ', by simp only [runSeg, h1]; exact h3, hin3, hfr3⟩

theorem valuesWord_cases (kw : List Char) (h : isValuesWord kw = true) :
    lower kw = kwValue ∨ lower kw = kwValues ∨ lower kw = kwIn := by
  simp only [isValuesWord, Bool.or_eq_true, decide_eq_true_eq] at h
  rcases h with (h | h) | h
  · exact Or.inl h
  · exact Or.inr (Or.inl h)
  · exact Or.inr (Or.inr h)

theorem valuesWord_not_special (l : List Char) (h : l = kwValue ∨ l = kwValues ∨ l = kwIn) :
    l ≠ kwUse ∧ l ≠ kwNull ∧ l ≠ kwNullComma ∧ l ≠ kwBy ∧ isAscWord l = false ∧ l ≠ kwUpdate ∧
      isValuesWord l = true := by
  rcases h with h | h | h <;> subst h <;> decide

/-- The white space after `in` / `values`: the keyword is copied and the
    machine waits for the list. -/
theorem step_kw_space (q : List Char) (cap : Nat) (qi0 qi : Int) (σb : St) (a g : Char) (kw : List Char)
    (hg : isSpace g = true) (ha : isSpace a = false) (haop : isOpChar a = false) (hgt : qi0 < qi)
    (hfrom : σb.cpFrom = qi0) (hslice : slice? q qi0 qi = some kw) (hkw : isValuesWord kw = true)
    (hdupe : σb.sqlState ≠ .onDupeKeyUpdate) (hcap : σb.f.length + kw.length ≤ cap) :
    step q cap qi (midWord σb a) g =
      .next { σb with prevWord := lower kw, f := σb.f ++ lower kw, cpFrom := qi, cpTo := qi, addSpace := false,
                      s := .inValues, sqlState := .inValues, pr := g } := by
  obtain ⟨h1, h2, h3, h4, h5, h6, h7⟩ := valuesWord_not_special (lower kw) (valuesWord_cases kw hkw)
  have hd : isDigit g = false := (isSpace_not_digit hg).1
  have hlw : (lower kw).length = kw.length := by simp [lower]
  have hp1 : pushAll cap σb.f (lower kw) = some (σb.f ++ lower kw) := by
    unfold pushAll; rw [if_pos (by rw [hlw]; omega)]
  have hmatch : step q cap qi (midWord σb a) g = wordEnd q cap qi (midWord σb a) g := by
    simp [step, part2, midWord, haop, hg, ha, hd]
  rw [hmatch]
  have hgt' : qi > qi0 := hgt
  simp only [wordEnd, midWord, hfrom, hslice]
  rw [if_neg (fun h => h1 h.1), if_neg (fun h => by rcases h with h | h; exact h2 h.1; exact h3 h),
    if_neg (fun h => h4 h.2), if_neg (fun h => by simp [h5] at h), if_neg (fun h => h6 h.2)]
  simp [part3, haop, hfrom, hgt', hslice, hp1, h7, hdupe]

theorem runSeg_ws_inValues (q : List Char) (cap : Nat) (σ : St) (hs : σ.s = .inValues) :
    ∀ (l : List Char) (qi : Nat), l.all isSpace = true → runSeg q cap qi σ l = .next σ := by
  intro l
  induction l with
  | nil => intro qi _; simp [runSeg]
  | cons c rest ih =>
    intro qi h
    simp only [List.all_cons, Bool.and_eq_true] at h
    obtain ⟨_, _, _, hq1, hq2⟩ := isSpace_not_digit h.1
    have hp : c ≠ ')' ∧ c ≠ '(' := by
      rcases isSpace_cases h.1 with e | e | e | e <;> subst e <;> decide
    have : step q cap qi σ c = .next σ := by simp [step, hs, hq1, hq2, hp.1, hp.2, h.1]
    simp only [runSeg, this]
    exact ih (qi + 1) h.2

theorem step_open_inValues (q : List Char) (cap : Nat) (qi : Int) (σ : St) (hs : σ.s = .inValues)
    (hpo : σ.parOpen = 0) :
    step q cap qi σ '(' = .next { σ with parOpen := 1, firstPar := qi } := by
  simp [step, hs, isSpace, hpo]

/-- `in(`: the parenthesis directly after the keyword. -/
theorem step_kw_paren (q : List Char) (cap : Nat) (qi0 qi : Int) (σb : St) (a : Char) (kw : List Char)
    (haop : isOpChar a = false) (hgt : qi0 < qi)
    (hfrom : σb.cpFrom = qi0) (hslice : slice? q qi0 qi = some kw) (hkw : isValuesWord kw = true)
    (hcall : σb.prevWord ≠ kwCall) (hvn : σb.valueNo = 0)
    (hdupe : σb.sqlState ≠ .onDupeKeyUpdate) (hcap : σb.f.length + kw.length ≤ cap) :
    step q cap qi (midWord σb a) '(' =
      .next { σb with prevWord := lower kw, f := σb.f ++ lower kw, cpFrom := qi, cpTo := qi, addSpace := false,
                      s := .inValues, sqlState := .inValues, parOpen := 1, firstPar := qi, pr := '(' } := by
  obtain ⟨_, _, _, _, _, _, h7⟩ := valuesWord_not_special (lower kw) (valuesWord_cases kw hkw)
  have hlw : (lower kw).length = kw.length := by simp [lower]
  have hp1 : pushAll cap σb.f (lower kw) = some (σb.f ++ lower kw) := by
    unfold pushAll; rw [if_pos (by rw [hlw]; omega)]
  have hgt' : qi > qi0 := hgt
  simp [step, midWord, haop, isSpace, part2, isDigit, hcall, hdupe, hfrom, hslice, hkw, hvn, part3, hgt', hp1, h7]

/-- The parenthesis that closes the list: `(?+)` (or `()`) is written. -/
theorem step_close_list (q : List Char) (cap : Nat) (qOpen n : Nat) (σ : St)
    (hin : InList 1 σ) (hvn : σ.valueNo = 0) (hfp : σ.firstPar = (qOpen : Int))
    (hcap : σ.f.length + 4 ≤ cap) :
    step q cap ((qOpen + 1 + n : Nat) : Int) σ ')' =
      .next { σ with parOpen := 0, parOpenTotal := 0, valueNo := 1,
                     f := σ.f ++ (if n = 0 then ['(', ')'] else ['(', '?', '+', ')']), firstPar := 0,
                     s := .moreValuesOrUnknown, pr := ')', cpFrom := ((qOpen + 1 + n : Nat) : Int) + 1 } := by
  have hpt : ¬ (σ.parOpenTotal + 1 = 0) := by have := hin.hpt; omega
  by_cases hn : n = 0
  · subst hn
    have hp : pushAll cap σ.f ['(', ')'] = some (σ.f ++ ['(', ')']) := by
      unfold pushAll; rw [if_pos (by simp; omega)]
    have hle : ¬ (1 < (qOpen : Int) + 1 - (qOpen : Int)) := by omega
    simp [step, hin.hs, hin.hpo, hpt, hvn, hfp, hp, hle]
  · have hp : pushAll cap σ.f ['(', '?', '+', ')'] = some (σ.f ++ ['(', '?', '+', ')']) := by
      unfold pushAll; rw [if_pos (by simp; omega)]
    have hgt : (qOpen : Int) + 1 + (n : Int) - (qOpen : Int) > 1 := by omega
    simp [step, hin.hs, hin.hpo, hpt, hvn, hfp, hp, hn, hgt]

/-- The white space after the closing parenthesis. -/
theorem step_space_after_list (q : List Char) (cap : Nat) (qi : Int) (σ : St) (r : Char)
    (hs : σ.s = .moreValuesOrUnknown) (hpr : σ.pr = ')') (hvn : σ.valueNo = 1) (hr : isSpace r = true)
    (hto : σ.cpTo ≤ σ.cpFrom) (hcap : σ.f.length + 1 ≤ cap) :
    step q cap qi σ r = .next { σ with f := σ.f ++ [' '], pr := r } := by
  have hd := (isSpace_not_digit hr).1
  have hnlt : ¬ σ.cpTo > σ.cpFrom := Int.not_lt.mpr hto
  have hpush : push cap σ.f ' ' = some (σ.f ++ [' ']) := by
    unfold push; rw [if_pos (by omega)]
  have hps : isSpace ')' = false := by decide
  simp [step, hs, hr, hpr, hps, part2, hd, hvn, hpush, part3, hnlt]

/-- `kw gap (`: the state right after the opening parenthesis of the list. -/
theorem vlist_open (q : List Char) (cap : Nat) (qi : Nat) (σ : St) (kw gap tail : List Char)
    (hc : Clean qi σ) (hq : q.drop qi = kw ++ (gap ++ '(' :: tail)) (hcap : 2 * q.length < cap)
    (hkwShape : wordShape kw = true) (hkw : isValuesWord kw = true)
    (hplain : kw.all (fun c => !isOpChar c && c ≠ '(') = true) (hgap : gap.all isSpace = true)
    (hcall : σ.prevWord ≠ kwCall) :
    ∃ σL, runSeg q cap qi σ (kw ++ gap ++ ['(']) = .next σL ∧ InList 1 σL ∧ σL.valueNo = 0 ∧
      σL.firstPar = ((qi + kw.length + gap.length : Nat) : Int) ∧ σL.prevWord = lower kw ∧
      σL.f = σ.f ++ lower kw ∧ σL.cpTo ≤ ((qi + kw.length + gap.length : Nat) : Int) ∧ σL.addSpace = false := by
  obtain ⟨σb, a, h1, hlast, hbad, hbfrom, hbto, hbprev, hbf, hbesc, hbsql, hbadd, hbpo, hbpt, hsl, ⟨c, rest, hw, hσb⟩⟩ :=
    word_prefix q cap qi σ kw _ hc hq hkwShape (fun _ => hcall)
  have hqlen : qi + kw.length + gap.length + 1 ≤ q.length := by
    have := congrArg List.length hq
    simp at this; omega
  have hwpos : 0 < kw.length := by rw [hw]; simp
  have hamem : a ∈ kw := by
    cases hk : kw.getLast? with
    | none => rw [hk] at hlast; cases hlast
    | some x =>
      rw [hk] at hlast; cases hlast
      exact List.mem_of_getLast? hk
  have hap := List.all_eq_true.mp hplain a hamem
  simp only [Bool.and_eq_true, Bool.not_eq_true', decide_eq_true_eq] at hap
  have hc0 := List.all_eq_true.mp hplain c (by rw [hw]; simp)
  simp only [Bool.and_eq_true, Bool.not_eq_true', decide_eq_true_eq] at hc0
  have hbvn : σb.valueNo = 0 := by rw [hσb]; simp [baseWord, hc0.1]
  have hsw := hsl kw.length (Nat.le_refl _)
  rw [List.take_length] at hsw
  have hdupe : σb.sqlState ≠ .onDupeKeyUpdate := by rw [hbsql]; exact hc.hdupe
  have hlw : (lower kw).length = kw.length := by simp [lower]
  have hcapk : σb.f.length + kw.length ≤ cap := by rw [hbf]; have := hc.hlen; omega
  cases gap with
  | nil =>
    have h2 := step_kw_paren q cap qi ((qi + kw.length : Nat) : Int) σb a kw hap.1 (by omega) hbfrom hsw hkw
      (by rw [hbprev]; exact hcall) hbvn hdupe hcapk
    refine ⟨{ σb with prevWord := lower kw, f := σb.f ++ lower kw, cpFrom := ((qi + kw.length : Nat) : Int),
                      cpTo := ((qi + kw.length : Nat) : Int), addSpace := false, s := .inValues,
                      sqlState := .inValues, parOpen := 1, firstPar := ((qi + kw.length : Nat) : Int), pr := '(' },
      ?_, ?_, ?_, ?_, ?_, ?_, ?_, ?_⟩
    · simp only [List.append_nil]
      rw [runSeg_append, h1]
      simp only [runSeg, h2]
    · exact ⟨rfl, rfl, rfl, by rw [hbesc]; exact hc.hesc, by show (0 : Int) ≤ σb.parOpenTotal; rw [hbpt, hc.hpt]; omega⟩
    · exact hbvn
    · simp
    · rfl
    · show σb.f ++ lower kw = _; rw [hbf]
    · simp
    · rfl
  | cons g gs =>
    simp only [List.all_cons, Bool.and_eq_true] at hgap
    have h2 := step_kw_space q cap qi ((qi + kw.length : Nat) : Int) σb a g kw hgap.1 (isSpace_of_not_bad hbad) hap.1
      (by omega) hbfrom hsw hkw hdupe hcapk
    let σ2 : St := { σb with prevWord := lower kw, f := σb.f ++ lower kw, cpFrom := ((qi + kw.length : Nat) : Int),
                             cpTo := ((qi + kw.length : Nat) : Int), addSpace := false, s := .inValues,
                             sqlState := .inValues, pr := g }
    have h3 := runSeg_ws_inValues q cap σ2 rfl gs (qi + kw.length + 1) hgap.2
    have h4 := step_open_inValues q cap ((qi + kw.length + 1 + gs.length : Nat) : Int) σ2 rfl
      (by show σb.parOpen = 0; rw [hbpo]; exact hc.hpo)
    refine ⟨{ σ2 with parOpen := 1, firstPar := ((qi + kw.length + 1 + gs.length : Nat) : Int) }, ?_, ?_, ?_, ?_, ?_, ?_, ?_, ?_⟩
    · have e : kw ++ g :: gs ++ ['('] = kw ++ (g :: (gs ++ ['('])) := by simp
      rw [e, runSeg_append, h1]
      simp only [runSeg, h2]
      rw [runSeg_append, h3]
      simp only [runSeg, h4]
    · exact ⟨rfl, rfl, rfl, by show σb.escape = false; rw [hbesc]; exact hc.hesc,
        by show (0 : Int) ≤ σb.parOpenTotal; rw [hbpt, hc.hpt]; omega⟩
    · exact hbvn
    · show ((qi + kw.length + 1 + gs.length : Nat) : Int) = ((qi + kw.length + (g :: gs).length : Nat) : Int)
      simp; omega
    · rfl
    · show σb.f ++ lower kw = _; rw [hbf]
    · show ((qi + kw.length : Nat) : Int) ≤ ((qi + kw.length + (g :: gs).length : Nat) : Int)
      simp; omega
    · rfl

/-- **Value lists**: `in (1, 'a')`, `values(f(b), ")")`.  From a clean state
    the keyword, the parenthesised list and the white-space character after it
    contribute `in(?+) ` (`in() ` for an empty list). -/
theorem vlist_item (q : List Char) (cap : Nat) (qi : Nat) (σ : St) (kw gap content : List Char) (r : Char)
    (tail : List Char) (hc : Clean qi σ)
    (hq : q.drop qi = (kw ++ gap ++ '(' :: content ++ [')']) ++ r :: tail) (hcap : 2 * q.length < cap)
    (hshape : listShape kw gap content = true) (hcall : σ.prevWord ≠ kwCall) (hr : isSpace r = true) :
    ∃ σ', runSeg q cap qi σ ((kw ++ gap ++ '(' :: content ++ [')']) ++ [r]) = .next σ' ∧
      AfterList (qi + (kw ++ gap ++ '(' :: content ++ [')']).length + 1) σ' ∧
      σ'.f = σ.f ++ (Item.vlist kw gap content).norm ++ [' '] ∧ σ'.prevWord = lower kw := by
  simp only [listShape, Bool.and_eq_true] at hshape
  obtain ⟨⟨⟨⟨hkwShape, hkw⟩, hplain⟩, hgap⟩, hcontent⟩ := hshape
  have hq1 : q.drop qi = kw ++ (gap ++ '(' :: (content ++ ')' :: r :: tail)) := by simpa using hq
  obtain ⟨σL, h1, hinL, hvnL, hfpL, hpwL, hfL, htoL, haddL⟩ :=
    vlist_open q cap qi σ kw gap _ hc hq1 hcap hkwShape hkw hplain hgap hcall
  have hqlen : qi + kw.length + gap.length + 1 + content.length + 2 ≤ q.length := by
    have := congrArg List.length hq
    simp at this; omega
  obtain ⟨qOpen, hqOpen⟩ : ∃ n : Nat, n = qi + kw.length + gap.length := ⟨_, rfl⟩
  rw [← hqOpen] at hfpL htoL
  -- the content
  obtain ⟨σ2, h2, hin2, hfr2⟩ := list_scan_run q cap (content.length + 1) 1 content σL (qOpen + 1) hcontent
    (Nat.le_refl _) hinL
  obtain ⟨hfr_pw, hfr_f, hfr_vn, hfr_fp, hfr_to, hfr_add, hfr_pr⟩ := hfr2
  have hlw : (lower kw).length = kw.length := by simp [lower]
  have hflen : σ2.f.length = σ.f.length + kw.length := by rw [hfr_f, hfL]; simp [hlw]
  have hlen0 := hc.hlen
  -- the closing parenthesis
  have h3 := step_close_list q cap qOpen content.length σ2 hin2 (by rw [hfr_vn]; exact hvnL)
    (by rw [hfr_fp]; exact hfpL) (by rw [hflen]; omega)
  obtain ⟨mark, hmarkdef⟩ : ∃ m : List Char, m = (if content.length = 0 then ['(', ')'] else ['(', '?', '+', ')']) :=
    ⟨_, rfl⟩
  rw [← hmarkdef] at h3
  have hmarklen : mark.length ≤ 4 := by rw [hmarkdef]; split <;> simp
  have hmark2 : content.length = 0 → mark.length = 2 := by intro h; rw [hmarkdef]; simp [h]
  have hto2 : σ2.cpTo ≤ (qOpen : Int) := by rw [hfr_to]; exact htoL
  -- the white space after the list
  have h4 := step_space_after_list q cap ((qOpen + 1 + content.length + 1 : Nat) : Int)
    { σ2 with parOpen := 0, parOpenTotal := 0, valueNo := 1, f := σ2.f ++ mark, firstPar := 0,
              s := .moreValuesOrUnknown, pr := ')', cpFrom := ((qOpen + 1 + content.length : Nat) : Int) + 1 }
    r rfl rfl rfl hr
    (by show σ2.cpTo ≤ ((qOpen + 1 + content.length : Nat) : Int) + 1; omega)
    (by show (σ2.f ++ mark).length + 1 ≤ cap
        simp only [List.length_append, hflen]; omega)
  refine ⟨{ σ2 with parOpen := 0, parOpenTotal := 0, valueNo := 1, f := σ2.f ++ mark ++ [' '], firstPar := 0,
                    s := .moreValuesOrUnknown, pr := r,
                    cpFrom := ((qOpen + 1 + content.length : Nat) : Int) + 1 }, ?_, ?_, ?_, ?_⟩
  · have e : (kw ++ gap ++ '(' :: content ++ [')']) ++ [r] = (kw ++ gap ++ ['(']) ++ (content ++ (')' :: [r])) := by
      simp
    have e1 : qi + (kw ++ gap ++ ['(']).length = qOpen + 1 := by simp; omega
    rw [e, runSeg_append, h1]
    show runSeg q cap (qi + (kw ++ gap ++ ['(']).length) σL (content ++ (')' :: [r])) = _
    rw [e1, runSeg_append, h2]
    simp only [runSeg, h3, h4]
  · constructor
    · rfl
    · exact hr
    · show σ2.cpTo ≤ ((qOpen + 1 + content.length : Nat) : Int) + 1; omega
    · show ((qOpen + 1 + content.length : Nat) : Int) + 1 ≤ _
      simp; omega
    · exact hin2.hesc
    · exact hin2.hsql
    · rfl
    · show (σ2.f ++ mark ++ [' ']).length ≤ _
      simp only [List.length_append, hflen, List.length_cons, List.length_nil]
      by_cases hcz : content.length = 0
      · have := hmark2 hcz; simp; omega
      · simp; omega
    · rfl
    · rfl
    · show σ2.addSpace = false; rw [hfr_add]; exact haddL
  · show σ2.f ++ mark ++ [' '] = _
    rw [hfr_f, hfL, hmarkdef]
    simp only [Item.norm]
    cases content <;> simp
  · show σ2.prevWord = _; rw [hfr_pw]; exact hpwL

/-! ### Composition -/

theorem piece_run (q : List Char) (cap : Nat) (qi : Nat) (σ : St) (p : SepPiece)
    (hc : Clean qi σ) (hok : p.ok = true) :
    ∃ σ', runSeg q cap qi σ p.text = .next σ' ∧ Clean (qi + p.text.length) σ' ∧ SameOut σ σ' := by
  cases p with
  | ws c =>
    obtain ⟨σ', h1, h2, h3⟩ := ws_piece q cap qi σ c hc hok
    exact ⟨σ', by simp [SepPiece.text, runSeg, h1], by simpa [SepPiece.text] using h2, h3⟩
  | mlc body => exact mlc_piece q cap qi σ body hc hok
  | dash c body => exact dash_piece q cap qi σ c body hc hok
  | hash body => exact hash_piece q cap qi σ body hc hok

theorem pieces_run (q : List Char) (cap : Nat) :
    ∀ (ps : List SepPiece) (qi : Nat) (σ : St), Clean qi σ → ps.all SepPiece.ok = true →
      ∃ σ', runSeg q cap qi σ (ps.flatMap SepPiece.text) = .next σ' ∧
        Clean (qi + (ps.flatMap SepPiece.text).length) σ' ∧ SameOut σ σ' := by
  intro ps
  induction ps with
  | nil => intro qi σ hc _; exact ⟨σ, by simp [runSeg], by simpa using hc, rfl, rfl⟩
  | cons p rest ih =>
    intro qi σ hc hok
    simp only [List.all_cons, Bool.and_eq_true] at hok
    obtain ⟨σ1, h1, hc1, hs1⟩ := piece_run q cap qi σ p hc hok.1
    obtain ⟨σ2, h2, hc2, hs2⟩ := ih (qi + p.text.length) σ1 hc1 hok.2
    refine ⟨σ2, ?_, ?_, ?_⟩
    · simp only [List.flatMap_cons]
      exact runSeg_trans q cap _ _ qi σ σ1 σ2 h1 h2
    · simpa [List.flatMap_cons, Nat.add_assoc] using hc2
    · exact ⟨hs2.1.trans hs1.1, hs2.2.trans hs1.2⟩

/-- White-space pieces after a value list. -/
theorem ws_pieces_run_al (q : List Char) (cap : Nat) :
    ∀ (ps : List SepPiece) (qi : Nat) (σ : St), AfterList qi σ →
      ps.all (fun p => match p with | .ws _ => true | _ => false) = true → ps.all SepPiece.ok = true →
      ∃ σ', runSeg q cap qi σ (ps.flatMap SepPiece.text) = .next σ' ∧
        AfterList (qi + (ps.flatMap SepPiece.text).length) σ' ∧ SameOut σ σ' := by
  intro ps
  induction ps with
  | nil => intro qi σ hc _ _; exact ⟨σ, by simp [runSeg], by simpa using hc, rfl, rfl⟩
  | cons p rest ih =>
    intro qi σ hc hws hok
    simp only [List.all_cons, Bool.and_eq_true] at hws hok
    cases p with
    | ws c =>
      obtain ⟨σ1, h1, hc1, hs1⟩ := ws_piece_al q cap qi σ c hc hok.1
      obtain ⟨σ2, h2, hc2, hs2⟩ := ih (qi + 1) σ1 hc1 hws.2 hok.2
      refine ⟨σ2, ?_, ?_, ?_⟩
      · simp only [List.flatMap_cons, SepPiece.text, List.cons_append, List.nil_append, runSeg, h1]
        exact h2
      · simpa [List.flatMap_cons, SepPiece.text, Nat.add_assoc, Nat.add_comm] using hc2
      · exact ⟨hs2.1.trans hs1.1, hs2.2.trans hs1.2⟩
    | mlc b => simp at hws
    | dash c b => simp at hws
    | hash b => simp at hws

/-- The separator pieces after the first white-space character of a separator. -/
theorem sep_rest_run (q : List Char) (cap : Nat) (qi : Nat) (σ σ1 : St) (it : Item) (sep : Sep)
    (h1 : runSeg q cap qi σ (it.text ++ [sep.first]) = .next σ1)
    (hc1 : Clean (qi + it.text.length + 1) σ1) (hpieces : sep.pieces.all SepPiece.ok = true) :
    ∃ σ', runSeg q cap qi σ (it.text ++ sep.text) = .next σ' ∧
      Clean (qi + (it.text ++ sep.text).length) σ' ∧ SameOut σ1 σ' := by
  obtain ⟨σ2, h2, hc2, hs2⟩ := pieces_run q cap sep.pieces (qi + it.text.length + 1) σ1 hc1 hpieces
  refine ⟨σ2, ?_, ?_, hs2⟩
  · have e : it.text ++ sep.text = (it.text ++ [sep.first]) ++ sep.pieces.flatMap SepPiece.text := by
      simp [Sep.text]
    rw [e]
    apply runSeg_trans q cap _ _ qi σ σ1 σ2 h1
    simpa [Nat.add_assoc] using h2
  · have e : qi + (it.text ++ sep.text).length =
        qi + it.text.length + 1 + (sep.pieces.flatMap SepPiece.text).length := by
      simp [Sep.text]; omega
    rw [e]; exact hc2

/-- An item (not a value list) with its separator: the normal form and one
    blank are appended, the state is clean again. -/
theorem item_sep_run (q : List Char) (cap : Nat) (qi : Nat) (σ : St) (it : Item) (sep : Sep) (tail : List Char)
    (hc : Clean qi σ) (hq : q.drop qi = it.text ++ sep.text ++ tail) (hcap : 2 * q.length < cap)
    (hshape : it.shapeOK = true)
    (hctx : it.ctxOK1 σ.prevWord = true)
    (hsep : sep.ok = true) (hnl : it.isList = false) :
    ∃ σ', runSeg q cap qi σ (it.text ++ sep.text) = .next σ' ∧
      Clean (qi + (it.text ++ sep.text).length) σ' ∧
      σ'.f = σ.f ++ it.norm ++ [' '] ∧ σ'.prevWord = it.nextPrev σ.prevWord := by
  simp only [Sep.ok, Bool.and_eq_true] at hsep
  have hq' : q.drop qi = it.text ++ sep.first :: (sep.pieces.flatMap SepPiece.text ++ tail) := by
    simpa [Sep.text] using hq
  have key : ∃ σ1, runSeg q cap qi σ (it.text ++ [sep.first]) = .next σ1 ∧
      Clean (qi + it.text.length + 1) σ1 ∧ σ1.f = σ.f ++ it.norm ++ [' '] ∧
      σ1.prevWord = it.nextPrev σ.prevWord := by
    cases it with
    | word w =>
      obtain ⟨σ1, h1, h2, h3, h4⟩ := word_item q cap qi σ w sep.first _ hc hq' hcap hshape hctx hsep.1
      exact ⟨σ1, h1, h2, h3, h4⟩
    | num n =>
      obtain ⟨σ1, h1, h2, h3, h4⟩ := num_item q cap qi σ n sep.first _ hc hq' hcap hshape hsep.1
      exact ⟨σ1, h1, h2, by simpa [Item.norm] using h3, h4⟩
    | str t =>
      obtain ⟨σ1, h1, h2, h3, h4⟩ := str_item q cap qi σ t sep.first _ hc hq' hcap hshape hsep.1
      exact ⟨σ1, h1, h2, by simpa [Item.norm] using h3, h4⟩
    | cmpNum w n =>
      simp only [Item.shapeOK, Bool.and_eq_true] at hshape
      simp only [Item.ctxOK1, Bool.not_eq_true'] at hctx
      obtain ⟨σ1, h1, h2, h3, h4⟩ := cmp_num_item q cap qi σ w n sep.first _ hc hq' hcap hshape.1 hshape.2 hctx hsep.1
      exact ⟨σ1, h1, h2, by simpa [Item.norm] using h3, h4⟩
    | cmpStr w t =>
      simp only [Item.shapeOK, Bool.and_eq_true] at hshape
      simp only [Item.ctxOK1, Bool.not_eq_true'] at hctx
      obtain ⟨σ1, h1, h2, h3, h4⟩ := cmp_str_item q cap qi σ w t sep.first _ hc hq' hcap hshape.1 hshape.2 hctx hsep.1
      exact ⟨σ1, h1, h2, by simpa [Item.norm] using h3, h4⟩
    | vlist kw gap content => exact absurd hnl (by simp [Item.isList])
  obtain ⟨σ1, h1, hc1, hf1, hp1⟩ := key
  obtain ⟨σ2, h2, hc2, hs2⟩ := sep_rest_run q cap qi σ σ1 it sep h1 hc1 hsep.2
  exact ⟨σ2, h2, hc2, by rw [hs2.1, hf1], by rw [hs2.2, hp1]⟩

/-- The word after a value list, with its separator. -/
theorem word_sep_run_al (q : List Char) (cap : Nat) (qi : Nat) (σ : St) (w : List Char) (sep : Sep) (tail : List Char)
    (hc : AfterList qi σ) (hq : q.drop qi = (Item.word w).text ++ sep.text ++ tail) (hcap : 2 * q.length < cap)
    (hshape : wordShape w = true) (hctx : wordCtx σ.prevWord w = true) (hsep : sep.ok = true)
    (hplain : plainFirst w = true) :
    ∃ σ', runSeg q cap qi σ ((Item.word w).text ++ sep.text) = .next σ' ∧
      Clean (qi + ((Item.word w).text ++ sep.text).length) σ' ∧
      σ'.f = σ.f ++ (Item.word w).norm ++ [' '] ∧ σ'.prevWord = lower w := by
  simp only [Sep.ok, Bool.and_eq_true] at hsep
  have hq' : q.drop qi = w ++ sep.first :: (sep.pieces.flatMap SepPiece.text ++ tail) := by
    simpa [Sep.text, Item.text] using hq
  obtain ⟨σ1, h1, hc1, hf1, hp1⟩ := word_item_al q cap qi σ w sep.first _ hc hq' hcap hshape hctx hsep.1 hplain
  obtain ⟨σ2, h2, hc2, hs2⟩ := sep_rest_run q cap qi σ σ1 (Item.word w) sep h1 hc1 hsep.2
  exact ⟨σ2, h2, hc2, by rw [hs2.1, hf1]; rfl, by rw [hs2.2, hp1]⟩

/-- A value list with its (white-space only) separator. -/
theorem vlist_sep_run (q : List Char) (cap : Nat) (qi : Nat) (σ : St) (kw gap content : List Char) (sep : Sep)
    (tail : List Char) (hc : Clean qi σ)
    (hq : q.drop qi = (Item.vlist kw gap content).text ++ sep.text ++ tail) (hcap : 2 * q.length < cap)
    (hshape : listShape kw gap content = true) (hcall : σ.prevWord ≠ kwCall) (hsep : sep.ok = true)
    (hws : sep.pieces.all (fun p => match p with | .ws _ => true | _ => false) = true) :
    ∃ σ', runSeg q cap qi σ ((Item.vlist kw gap content).text ++ sep.text) = .next σ' ∧
      AfterList (qi + ((Item.vlist kw gap content).text ++ sep.text).length) σ' ∧
      σ'.f = σ.f ++ (Item.vlist kw gap content).norm ++ [' '] ∧ σ'.prevWord = lower kw := by
  simp only [Sep.ok, Bool.and_eq_true] at hsep
  have hq' : q.drop qi = (kw ++ gap ++ '(' :: content ++ [')']) ++
      sep.first :: (sep.pieces.flatMap SepPiece.text ++ tail) := by
    simpa [Sep.text, Item.text] using hq
  obtain ⟨σ1, h1, hc1, hf1, hp1⟩ := vlist_item q cap qi σ kw gap content sep.first _ hc hq' hcap hshape hcall hsep.1
  obtain ⟨σ2, h2, hc2, hs2⟩ := ws_pieces_run_al q cap sep.pieces _ σ1 hc1 hws hsep.2
  refine ⟨σ2, ?_, ?_, by rw [hs2.1, hf1], by rw [hs2.2, hp1]⟩
  · have e : (Item.vlist kw gap content).text ++ sep.text =
        ((kw ++ gap ++ '(' :: content ++ [')']) ++ [sep.first]) ++ sep.pieces.flatMap SepPiece.text := by
      simp [Sep.text, Item.text]
    rw [e]
    apply runSeg_trans q cap _ _ qi σ σ1 σ2 h1
    simpa [Nat.add_assoc] using h2
  · have e : qi + ((Item.vlist kw gap content).text ++ sep.text).length =
        qi + (kw ++ gap ++ '(' :: content ++ [')']).length + 1 + (sep.pieces.flatMap SepPiece.text).length := by
      simp [Sep.text, Item.text]; omega
    rw [e]; exact hc2

/-- Does the item list start with a word that may follow a value list? -/
def startsPlain : List (Item × Sep) → Bool
  | [] => true
  | (.word w, _) :: _ => plainFirst w
  | _ => false

theorem drop_after (q : List Char) (qi : Nat) (a b : List Char) (h : q.drop qi = a ++ b) :
    q.drop (qi + a.length) = b := by
  have : q.drop (qi + a.length) = (q.drop qi).drop a.length := by rw [List.drop_drop]
  rw [this, h]; simp

/-- A whole list of items with their separators. -/
theorem items_run (q : List Char) (cap : Nat) (hcap : 2 * q.length < cap) :
    ∀ (its : List (Item × Sep)) (qi : Nat) (σ : St),
      (Clean qi σ ∨ (AfterList qi σ ∧ startsPlain its = true)) → q.drop qi = renderItems its →
      (∀ p ∈ its, p.1.shapeOK = true ∧ p.2.ok = true) → ctxOK σ.prevWord (its.map (·.1)) = true →
      listsOK its = true →
      ∃ σ', runSeg q cap qi σ (renderItems its) = .next σ' ∧ σ'.f = σ.f ++ normAll (its.map (·.1)) := by
  intro its
  induction its with
  | nil => intro qi σ _ _ _ _ _; exact ⟨σ, by simp [renderItems, runSeg], by simp [normAll]⟩
  | cons p rest ih =>
    intro qi σ hinv hq hok hctx hlists
    obtain ⟨it, sep⟩ := p
    simp only [List.map_cons, ctxOK, Bool.and_eq_true] at hctx
    simp only [listsOK, Bool.and_eq_true] at hlists
    have hq1 : q.drop qi = it.text ++ sep.text ++ renderItems rest := by
      simpa [renderItems] using hq
    have hp := hok (it, sep) (by simp)
    have hq2 := drop_after q qi (it.text ++ sep.text) (renderItems rest) hq1
    have e : renderItems ((it, sep) :: rest) = (it.text ++ sep.text) ++ renderItems rest := by
      simp [renderItems]
    have finish : ∀ σ1, runSeg q cap qi σ (it.text ++ sep.text) = .next σ1 →
        (Clean (qi + (it.text ++ sep.text).length) σ1 ∨
          (AfterList (qi + (it.text ++ sep.text).length) σ1 ∧ startsPlain rest = true)) →
        σ1.f = σ.f ++ it.norm ++ [' '] → σ1.prevWord = it.nextPrev σ.prevWord →
        ∃ σ', runSeg q cap qi σ (renderItems ((it, sep) :: rest)) = .next σ' ∧
          σ'.f = σ.f ++ normAll (it :: rest.map (·.1)) := by
      intro σ1 h1 hinv1 hf1 hp1
      obtain ⟨σ2, h2, hf2⟩ := ih (qi + (it.text ++ sep.text).length) σ1 hinv1 hq2
        (fun p hp => hok p (by simp [hp])) (by rw [hp1]; exact hctx.2) hlists.2
      refine ⟨σ2, ?_, ?_⟩
      · rw [e]; exact runSeg_trans q cap _ _ qi σ σ1 σ2 h1 h2
      · rw [hf2, hf1]; simp [normAll]
    rcases hinv with hc | ⟨hal, hstart⟩
    · -- from a clean state
      by_cases hl : it.isList = true
      · cases it with
        | vlist kw gap content =>
          simp only [Item.ctxOK1, Bool.not_eq_true', decide_eq_false_iff_not] at hctx
          have hl2 := hlists.1
          simp only [hl, Bool.not_true, Bool.false_or, Bool.and_eq_true] at hl2
          obtain ⟨σ1, h1, hc1, hf1, hp1⟩ := vlist_sep_run q cap qi σ kw gap content sep (renderItems rest) hc hq1 hcap
            hp.1 hctx.1 hp.2 hl2.1
          have hsp : startsPlain rest = true := by
            have := hl2.2
            cases rest with
            | nil => rfl
            | cons p2 rest2 =>
              obtain ⟨it2, sep2⟩ := p2
              cases it2 <;> simp_all [startsPlain]
          exact finish σ1 h1 (Or.inr ⟨hc1, hsp⟩) hf1 hp1
        | word w => simp [Item.isList] at hl
        | num n => simp [Item.isList] at hl
        | str t => simp [Item.isList] at hl
        | cmpNum w n => simp [Item.isList] at hl
        | cmpStr w t => simp [Item.isList] at hl
      · have hl' : it.isList = false := by simpa using hl
        obtain ⟨σ1, h1, hc1, hf1, hp1⟩ := item_sep_run q cap qi σ it sep (renderItems rest) hc hq1 hcap hp.1 hctx.1 hp.2 hl'
        exact finish σ1 h1 (Or.inl hc1) hf1 hp1
    · -- after a value list: a plain word
      cases it with
      | word w =>
        simp only [startsPlain] at hstart
        obtain ⟨σ1, h1, hc1, hf1, hp1⟩ := word_sep_run_al q cap qi σ w sep (renderItems rest) hal hq1 hcap hp.1 hctx.1 hp.2 hstart
        exact finish σ1 h1 (Or.inl hc1) hf1 hp1
      | num n => simp [startsPlain] at hstart
      | str t => simp [startsPlain] at hstart
      | cmpNum w n => simp [startsPlain] at hstart
      | cmpStr w t => simp [startsPlain] at hstart
      | vlist kw gap content => simp [startsPlain] at hstart

end GaeaVerif.FingerprintSteps
