import GaeaVerif.Model.Fingerprint
import GaeaVerif.Model.FingerprintGrammar
/-
  Symbolic execution of the `GetFingerprint` state machine over the token
  classes of Model/FingerprintGrammar.lean: from a *clean* state every item
  (with the first character of its separator) contributes its normal form and
  leaves a clean state; every further separator piece (white space, comment)
  contributes nothing and leaves a clean state.  Used by Props/C36.lean.
-/
namespace GaeaVerif.FingerprintSteps
open GaeaVerif.Fingerprint GaeaVerif.FingerprintGrammar

/-- The loop of `GetFingerprint` over a segment of the text. -/
def runSeg (q : List Char) (cap : Nat) : Nat → St → List Char → StepR
  | _, σ, [] => .next σ
  | qi, σ, r :: rs =>
    match step q cap qi σ r with
    | .next σ' => runSeg q cap (qi + 1) σ' rs
    | o => o

theorem run_append (q : List Char) (cap : Nat) (a b : List Char) (qi : Nat) (σ : St) :
    run q cap qi σ (a ++ b) =
      match runSeg q cap qi σ a with
      | .next σ' => run q cap (qi + a.length) σ' b
      | .ret s => .ret s
      | .panic => .panic
      | .orig => .orig := by
  induction a generalizing qi σ with
  | nil => simp [runSeg]
  | cons r rs ih =>
    simp only [List.cons_append, run, runSeg]
    cases h : step q cap qi σ r with
    | next σ' =>
      simp only [ih]
      have : qi + 1 + rs.length = qi + (r :: rs).length := by simp; omega
      rw [this]
    | ret s => simp
    | panic => simp
    | orig => simp

theorem runSeg_append (q : List Char) (cap : Nat) (a b : List Char) (qi : Nat) (σ : St) :
    runSeg q cap qi σ (a ++ b) =
      match runSeg q cap qi σ a with
      | .next σ' => runSeg q cap (qi + a.length) σ' b
      | o => o := by
  induction a generalizing qi σ with
  | nil => simp [runSeg]
  | cons r rs ih =>
    simp only [List.cons_append, runSeg]
    cases h : step q cap qi σ r with
    | next σ' =>
      simp only [ih]
      have : qi + 1 + rs.length = qi + (r :: rs).length := by simp; omega
      rw [this]
    | ret s => simp
    | panic => simp
    | orig => simp

/-- If the segment leads to a state, the whole run continues from there. -/
theorem run_of_runSeg (q : List Char) (cap : Nat) (a b : List Char) (qi : Nat) (σ σ' : St)
    (h : runSeg q cap qi σ a = .next σ') :
    run q cap qi σ (a ++ b) = run q cap (qi + a.length) σ' b := by
  rw [run_append, h]

theorem runSeg_trans (q : List Char) (cap : Nat) (a b : List Char) (qi : Nat) (σ σ' σ'' : St)
    (h1 : runSeg q cap qi σ a = .next σ') (h2 : runSeg q cap (qi + a.length) σ' b = .next σ'') :
    runSeg q cap qi σ (a ++ b) = .next σ'' := by
  rw [runSeg_append, h1]; exact h2

/-! ### Slices of the text -/

theorem slice_of_drop (q w t : List Char) (n k : Nat) (hq : q.drop n = w ++ t) (hn : n ≤ q.length)
    (hk : k ≤ w.length) : slice? q n (n + k : Nat) = some (w.take k) := by
  have hlen : q.length - n = w.length + t.length := by
    have := congrArg List.length hq
    simpa using this
  unfold slice?
  have h1 : (0 : Int) ≤ (n : Int) ∧ (n : Int) ≤ ((n + k : Nat) : Int) ∧ ((n + k : Nat) : Int) ≤ (q.length : Int) := by
    refine ⟨by omega, by omega, by omega⟩
  rw [if_pos h1]
  have e1 : (n : Int).toNat = n := by omega
  have e2 : (((n + k : Nat) : Int) - (n : Int)).toNat = k := by omega
  rw [e1, e2, hq, List.take_append_of_le_length hk]

theorem slice_empty (q : List Char) (n : Nat) (hn : n ≤ q.length) : slice? q n n = some [] := by
  unfold slice?
  have h1 : (0 : Int) ≤ (n : Int) ∧ (n : Int) ≤ (n : Int) ∧ (n : Int) ≤ (q.length : Int) := by
    refine ⟨by omega, by omega, by omega⟩
  rw [if_pos h1]; simp

/-! ### Ready and clean states -/

/-- Previous runes a clean `unknown` state may carry: white space, the initial
    `rune(0)`, or the `/` that ended a comment. -/
def cleanPr (c : Char) : Bool := isSpace c || c = Char.ofNat 0 || c = '/'

/-- Previous runes that do not change the meaning of the next one. -/
def prOK (c : Char) : Bool :=
  c ≠ '\\' && c ≠ 'x' && c ≠ 'b' && c ≠ '-' && c ≠ '(' && c ≠ ',' && c ≠ '*'

/-- Unless we are behind `ON DUPLICATE KEY UPDATE` (`d`), the clause state says so. -/
def NoDupe (d : Bool) (σ : St) : Prop := d = false → σ.sqlState ≠ .onDupeKeyUpdate

variable {d : Bool}

/-- A state in which a segment may begin: nothing is pending, the next rune
    to read is at offset `qi` (between two items, or right after a literal). -/
structure Ready (d : Bool) (qi : Nat) (σ : St) : Prop where
  hs : σ.s = .inSpace ∨ σ.s = .unknown
  hpr : prOK σ.pr = true
  hfrom : σ.cpFrom = qi
  hto : σ.cpTo ≤ qi
  hesc : σ.escape = false
  hsql : σ.sqlState ≠ .inValues
  hlen : σ.f.length ≤ 2 * qi
  hpw : isValuesWord σ.prevWord = false
  hadd : σ.addSpace = false
  hdupe : NoDupe d σ
  hpo : σ.parOpen = 0
  hpt : σ.parOpenTotal = 0

/-- The state between two items: ready, and the fingerprint so far ends with a blank. -/
structure Clean (d : Bool) (qi : Nat) (σ : St) : Prop extends Ready d qi σ where
  hcp : (σ.s = .inSpace ∧ isSpace σ.pr = true) ∨ (σ.s = .unknown ∧ cleanPr σ.pr = true)
  hlast : σ.f = [] ∨ σ.f.getLast? = some ' '

theorem isSpace_cases {c : Char} (h : isSpace c = true) :
    c = ' ' ∨ c = '\t' ∨ c = '\r' ∨ c = '\n' ∨ c = Char.ofNat 11 ∨ c = Char.ofNat 12 := by
  simp only [isSpace, Bool.or_eq_true, decide_eq_true_eq] at h
  rcases h with ((((h | h) | h) | h) | h) | h <;> simp [h]

theorem cleanPr_cases {c : Char} (h : cleanPr c = true) :
    isSpace c = true ∨ c = Char.ofNat 0 ∨ c = '/' := by
  simp only [cleanPr, Bool.or_eq_true, decide_eq_true_eq] at h
  rcases h with (h | h) | h <;> simp [h]

theorem prOK_of_space {c : Char} (h : isSpace c = true) : prOK c = true := by
  rcases isSpace_cases h with h | h | h | h | h | h <;> subst h <;> decide

theorem prOK_of_clean {c : Char} (h : cleanPr c = true) : prOK c = true := by
  rcases cleanPr_cases h with h | h | h
  · exact prOK_of_space h
  · subst h; decide
  · subst h; decide

/-- `Clean` from its fields in the order the proofs below give them. -/
theorem Clean.of {qi : Nat} {σ : St}
    (hcp : (σ.s = .inSpace ∧ isSpace σ.pr = true) ∨ (σ.s = .unknown ∧ cleanPr σ.pr = true))
    (hfrom : σ.cpFrom = qi) (hto : σ.cpTo ≤ qi) (hesc : σ.escape = false) (hsql : σ.sqlState ≠ .inValues)
    (hlen : σ.f.length ≤ 2 * qi) (hlast : σ.f = [] ∨ σ.f.getLast? = some ' ')
    (hpw : isValuesWord σ.prevWord = false) (hadd : σ.addSpace = false)
    (hdupe : NoDupe d σ) (hpo : σ.parOpen = 0) (hpt : σ.parOpenTotal = 0) : Clean d qi σ :=
  { hs := by rcases hcp with h | h; exact Or.inl h.1; exact Or.inr h.1
    hpr := by
      rcases hcp with h | h
      · exact prOK_of_space h.2
      · exact prOK_of_clean h.2
    hfrom := hfrom, hto := hto, hesc := hesc, hsql := hsql, hlen := hlen, hpw := hpw, hadd := hadd,
    hdupe := hdupe, hpo := hpo, hpt := hpt, hcp := hcp, hlast := hlast }

theorem Ready.s_cases {qi : Nat} {σ : St} (h : Ready d qi σ) : σ.s = .inSpace ∨ σ.s = .unknown := h.hs

/-- The previous rune of a ready state is none of the runes that change the
    meaning of the next one. -/
theorem Ready.pr_facts {qi : Nat} {σ : St} (h : Ready d qi σ) :
    σ.pr ≠ '\\' ∧ σ.pr ≠ 'x' ∧ σ.pr ≠ 'b' ∧ σ.pr ≠ '-' ∧ σ.pr ≠ '(' ∧ σ.pr ≠ ',' ∧ σ.pr ≠ '*' := by
  have := h.hpr
  simp only [prOK, Bool.and_eq_true, bne_iff_ne, ne_eq, decide_eq_true_eq, Bool.not_eq_true', decide_eq_false_iff_not] at this
  obtain ⟨⟨⟨⟨⟨⟨h1, h2⟩, h3⟩, h4⟩, h5⟩, h6⟩, h7⟩ := this
  exact ⟨h1, h2, h3, h4, h5, h6, h7⟩

theorem part3_nocopy (q : List Char) (cap : Nat) (σ : St) (r : Char) (h : σ.cpTo ≤ σ.cpFrom) :
    part3 q cap σ r = .next { σ with pr := r } := by
  have : ¬ σ.cpTo > σ.cpFrom := Int.not_lt.mpr h
  simp [part3, this]

/-! ### Words -/

/-- State in the middle of a word whose last character is `c`. -/
def midWord (σb : St) (c : Char) : St :=
  { σb with s := if isOpChar c then .inOp else .inWord, pr := c }

theorem litAfter_false {a : Char} (h : litAfter a = false) : a ≠ ',' ∧ a ≠ '(' ∧ isOpChar a = false := by
  simp only [litAfter, Bool.or_eq_false_iff, decide_eq_false_iff_not] at h
  exact ⟨h.1.1, h.1.2, h.2⟩

theorem litAfter_of_op {a : Char} (h : isOpChar a = true) : litAfter a = true := by
  simp [litAfter, h]

theorem step_mid (q : List Char) (cap : Nat) (qi : Int) (σb : St) (a b : Char)
    (hto : σb.cpTo ≤ σb.cpFrom) (hab : okAfter a b = true)
    (hcall : b = '(' → σb.prevWord ≠ kwCall)
    (hpar : b = '(' → (slice? q σb.cpFrom qi).map isValuesWord = some false) :
    step q cap qi (midWord σb a) b = .next (midWord σb b) := by
  simp only [okAfter, wordBad, Bool.and_eq_true, Bool.not_eq_true', Bool.or_eq_false_iff, Bool.or_eq_true,
    decide_eq_false_iff_not] at hab
  obtain ⟨⟨⟨hbad, hdig⟩, hdot⟩, hpar'⟩ := hab
  obtain ⟨⟨⟨⟨⟨⟨⟨hsp, hq1⟩, hq2⟩, hsl⟩, hpl⟩, hmi⟩, hha⟩, hco⟩ := hbad
  have hnlt : ¬ σb.cpTo > σb.cpFrom := Int.not_lt.mpr hto
  by_cases hb : isOpChar b = true
  · -- an operator character: the state becomes inOp, nothing else changes
    have hb' := hb
    simp only [isOpChar, Bool.or_eq_true, decide_eq_true_eq] at hb'
    have hb2 : b = '=' ∨ b = '<' ∨ b = '>' ∨ b = '!' := by
      rcases hb' with ((h | h) | h) | h <;> simp [h]
    have hd : isDigit b = false := by
      rcases hb' with ((h | h) | h) | h <;> subst h <;> decide
    by_cases ha : isOpChar a = true <;>
      simp [step, midWord, ha, hb, part2, part3, hnlt, hsp, hd, hq1, hq2, hb2]
  · have hb' := hb
    simp only [isOpChar, Bool.or_eq_true, decide_eq_true_eq, not_or] at hb'
    obtain ⟨⟨⟨hb1, hb2⟩, hb3⟩, hb4⟩ := hb'
    by_cases ha : isOpChar a = true
    · have hd : isDigit b = false := by simpa [litAfter_of_op ha] using hdig
      have hdot' : b ≠ '.' := by simpa [litAfter_of_op ha] using hdot
      have hp' : b ≠ '(' := by simpa [ha] using hpar'
      simp [step, midWord, ha, hb, hsp, part2, part3, hd, hq1, hq2, hb1, hb2, hb3, hb4, hnlt, hsl, hpl, hmi,
        hdot', hp', hco, hha]
    · have ha' : isOpChar a = false := by simpa using ha
      have hbf : isOpChar b = false := by simpa using hb
      by_cases hd : isDigit b = true
      · have hac : a ≠ ',' ∧ a ≠ '(' := by
          rcases hdig with h | h
          · simp [hd] at h
          · exact ⟨(litAfter_false h).1, (litAfter_false h).2.1⟩
        simp [step, midWord, ha', hbf, hsp, part2, part3, hd, hnlt, hac.1, hac.2, replaceNumbersInWords]
      · have hd' : isDigit b = false := by simpa using hd
        by_cases hdot' : b = '.'
        · have hac : a ≠ ',' ∧ a ≠ '(' := by
            rcases hdot with h | h
            · exact absurd hdot' h
            · exact ⟨(litAfter_false h).1, (litAfter_false h).2.1⟩
          subst hdot'
          simp [step, midWord, ha', part2, part3, hnlt, isSpace, isDigit, hbf, hac.1, hac.2]
        · by_cases hp' : b = '('
          · subst hp'
            have hc := hcall rfl
            have h := hpar rfl
            by_cases hsq : σb.sqlState = .onDupeKeyUpdate
            · simp [step, midWord, ha', part2, part3, hnlt, isSpace, isDigit, hbf, hc, hsq]
            · simp [step, midWord, ha', part2, part3, hnlt, isSpace, isDigit, hbf, hc, hsq, h]
          · simp [step, midWord, ha', hb, hsp, part2, part3, hd', hq1, hq2, hb1, hb2, hb3, hb4, hnlt, hsl, hpl,
              hmi, hdot', hp', hco, hha]

/-- The state after the first character `c` of a word read at offset `qi`. -/
def baseWord (σ : St) (qi : Int) (c : Char) : St :=
  if isOpChar c then { σ with cpFrom := qi }
  else { σ with cpFrom := qi, valueNo := 0 }

theorem step_first (q : List Char) (cap : Nat) (qi : Nat) (σ : St) (c : Char) (hc : Ready d qi σ)
    (hq : qi ≤ q.length) (hok : okFirst c = true) (hcall : c = '(' → σ.prevWord ≠ kwCall) :
    step q cap qi σ c = .next (midWord (baseWord σ qi c) c) := by
  simp only [okFirst, wordBad, Bool.and_eq_true, Bool.not_eq_true', Bool.or_eq_false_iff,
    decide_eq_false_iff_not] at hok
  obtain ⟨⟨hbad, hd⟩, hdot⟩ := hok
  obtain ⟨⟨⟨⟨⟨⟨⟨hsp, hq1⟩, hq2⟩, hsl⟩, hpl⟩, hmi⟩, hha⟩, hco⟩ := hbad
  have hnlt : ¬ σ.cpTo > (qi : Int) := Int.not_lt.mpr hc.hto
  have hsql := hc.hsql
  have hfrom := hc.hfrom
  by_cases hb : isOpChar c = true
  · have hb' := hb
    simp only [isOpChar, Bool.or_eq_true, decide_eq_true_eq] at hb'
    have hb2 : c = '=' ∨ c = '<' ∨ c = '>' ∨ c = '!' := by
      rcases hb' with ((h | h) | h) | h <;> simp [h]
    rcases hc.s_cases with hs | hs <;>
      simp [step, midWord, baseWord, hb, part2, part3, hnlt, hsp, hd, hq1, hq2, hb2, hs]
  · have hb' := hb
    simp only [isOpChar, Bool.or_eq_true, decide_eq_true_eq, not_or] at hb'
    obtain ⟨⟨⟨hb1, hb2⟩, hb3⟩, hb4⟩ := hb'
    have hbf : isOpChar c = false := by simpa using hb
    by_cases hp' : c = '('
    · subst hp'
      have hcl := hcall rfl
      have hpw := hc.hpw
      have hne : ¬ (σ.prevWord = kwValue ∨ σ.prevWord = kwValues ∨ σ.prevWord = kwIn) := by
        intro h
        rcases h with h | h | h <;> rw [h] at hpw <;> revert hpw <;> decide
      have hsl0 : slice? q σ.cpFrom qi = some [] := by rw [hfrom]; exact slice_empty q qi hq
      have hiv : isValuesWord [] = false := by decide
      by_cases hsq : σ.sqlState = .onDupeKeyUpdate <;>
        rcases hc.s_cases with hs | hs <;>
          simp [step, midWord, baseWord, hbf, part2, part3, hnlt, isSpace, isDigit, hs, hcl, hsq, hne, hsl0, hiv]
    · rcases hc.s_cases with hs | hs <;>
        simp [step, midWord, baseWord, hbf, hsp, part2, part3, hd, hq1, hq2, hb1, hb2, hb3, hb4, hnlt, hsl, hpl,
          hmi, hdot, hp', hco, hha, hs, hsql]

theorem parenOK_at (w : List Char) (h : parenOK w = true) (k : Nat) (hk : w[k]? = some '(') :
    isValuesWord (w.take k) = false := by
  have hlt : k < w.length := by
    rcases Nat.lt_or_ge k w.length with h' | h'
    · exact h'
    · rw [List.getElem?_eq_none h'] at hk; cases hk
  unfold parenOK at h
  rw [List.all_eq_true] at h
  have := h k (List.mem_range.mpr hlt)
  simpa [hk] using this

/-- Reading the rest of a word character by character. -/
theorem runSeg_mid (q : List Char) (cap : Nat) (σb : St) (qi0 : Nat) (w : List Char)
    (hfrom : σb.cpFrom = qi0) (hto : σb.cpTo ≤ qi0)
    (hcall : '(' ∈ w → σb.prevWord ≠ kwCall)
    (hsl : ∀ k, k ≤ w.length → slice? q qi0 ((qi0 + k : Nat) : Int) = some (w.take k))
    (hpar : parenOK w = true) :
    ∀ (rest pre : List Char) (a : Char), w = pre ++ a :: rest → chainOK a rest = true →
      runSeg q cap (qi0 + pre.length + 1) (midWord σb a) rest =
        .next (midWord σb ((a :: rest).getLast (by simp))) := by
  intro rest
  induction rest with
  | nil => intro pre a _ _; simp [runSeg]
  | cons b r ih =>
    intro pre a hw hch
    simp only [chainOK, Bool.and_eq_true] at hch
    have hidx : w[pre.length + 1]? = some b := by
      rw [hw]; simp
    have hlen : pre.length + 1 < w.length := by
      rw [hw]; simp
    have hstep : step q cap ((qi0 + pre.length + 1 : Nat) : Int) (midWord σb a) b = .next (midWord σb b) := by
      apply step_mid
      · rw [hfrom]; exact hto
      · exact hch.1
      · intro hb; apply hcall; rw [hw, hb]; simp
      · intro hb
        rw [hfrom]
        have h1 := hsl (pre.length + 1) (by omega)
        have h2 : ((qi0 + (pre.length + 1) : Nat) : Int) = ((qi0 + pre.length + 1 : Nat) : Int) := by omega
        rw [h2] at h1
        rw [h1]
        have := parenOK_at w hpar (pre.length + 1) (by rw [hidx, hb])
        simp [this]
    simp only [runSeg, hstep]
    have := ih (pre ++ [a]) b (by rw [hw]; simp) hch.2
    simp only [List.length_append, List.length_cons, List.length_nil] at this
    have e : qi0 + (pre.length + (0 + 1)) + 1 = qi0 + pre.length + 1 + 1 := by omega
    rw [e] at this
    rw [this]
    simp [List.getLast_cons_cons]

/-- The SQL clause state after a copied word (`ORDER BY`, `ON DUPLICATE KEY UPDATE`). -/
def newSql (prev lw : List Char) (sql : S) : S :=
  if prev = kwOrder ∧ lw = kwBy then .orderBy
  else if prev = kwKey ∧ lw = kwUpdate then .onDupeKeyUpdate
  else sql

/-- The state after a word `w` and the white-space character `r` that ends it. -/
def endWord (σb : St) (qi : Int) (w : List Char) (r : Char) : St :=
  { σb with prevWord := lower w, f := σb.f ++ lower w ++ [' '], pr := r, s := .inSpace,
            sqlState := newSql σb.prevWord (lower w) σb.sqlState, cpFrom := qi + 1, cpTo := qi,
            addSpace := false }

theorem step_wordEnd (q : List Char) (cap : Nat) (qi0 qi : Int) (σb : St) (a r : Char) (w : List Char)
    (hr : isSpace r = true) (ha : isSpace a = false) (hgt : qi0 < qi)
    (hfrom : σb.cpFrom = qi0) (hto : σb.cpTo ≤ qi0)
    (hslice : slice? q qi0 qi = some w)
    (hctx : wordCtx σb.prevWord w = true)
    (hcap : σb.f.length + w.length + 1 ≤ cap) :
    step q cap qi (midWord σb a) r = .next (endWord σb qi w r) := by
  have hd : isDigit r = false := by
    rcases isSpace_cases hr with h | h | h | h | h | h <;> subst h <;> decide
  simp only [wordCtx, Bool.and_eq_true, Bool.not_eq_true', Bool.and_eq_false_iff, decide_eq_false_iff_not,
    Bool.not_eq_false', decide_eq_true_eq] at hctx
  obtain ⟨⟨⟨⟨⟨huse, hnull⟩, hnullc⟩, hasc⟩, hval⟩, _⟩ := hctx
  have hlw : (lower w).length = w.length := by simp [lower]
  have hp1 : pushAll cap σb.f (lower w) = some (σb.f ++ lower w) := by
    unfold pushAll; rw [if_pos (by rw [hlw]; omega)]
  have hp2 : push cap (σb.f ++ lower w) ' ' = some (σb.f ++ lower w ++ [' ']) := by
    unfold push; rw [if_pos (by simp [hlw]; omega)]
  have huse' : ¬ (lower w = kwUse ∧ σb.prevWord = []) := by
    intro h; rcases huse with h' | h' <;> simp_all
  have hnull' : ¬ ((lower w = kwNull ∧ (σb.prevWord ≠ kwIs ∧ σb.prevWord ≠ kwNot)) ∨ lower w = kwNullComma) := by
    intro h
    rcases h with h | h
    · rcases hnull with h' | h'
      · rcases h' with h'' | h''
        · exact h'' h.1
        · exact h.2.1 h''
      · exact h.2.2 h'
    · exact hnullc h
  have hmatch : step q cap qi (midWord σb a) r = wordEnd q cap qi (midWord σb a) r := by
    by_cases ha' : isOpChar a = true <;> simp [step, part2, midWord, ha', hr, ha, hd]
  rw [hmatch]
  have hgt' : qi > qi0 := hgt
  have hfin : ∀ (sq : S), part3 q cap
      { midWord σb a with sqlState := sq, s := .inSpace, cpTo := qi, addSpace := true } r =
      .next { σb with prevWord := lower w, f := σb.f ++ lower w ++ [' '], pr := r, s := .inSpace,
                      sqlState := sq, cpFrom := qi + 1, cpTo := qi, addSpace := false } := by
    intro sq
    simp [part3, midWord, hfrom, hgt', hslice, hp1, hp2, hval]
  simp only [wordEnd, midWord, hfrom, hslice]
  rw [if_neg huse', if_neg hnull']
  by_cases h1 : σb.prevWord = kwOrder ∧ lower w = kwBy
  · rw [if_pos h1]
    have := hfin .orderBy
    simp only [midWord, hfrom] at this
    rw [this]; simp [endWord, newSql, h1]
  · rw [if_neg h1]
    have hasc' : ¬ (σb.sqlState = .orderBy ∧ isAscWord (lower w) = true) := by simp [hasc]
    rw [if_neg hasc']
    by_cases h2 : σb.prevWord = kwKey ∧ lower w = kwUpdate
    · rw [if_pos h2]
      have := hfin .onDupeKeyUpdate
      simp only [midWord, hfrom] at this
      rw [this]
      have hne : ¬ (kwKey = kwOrder ∧ kwUpdate = kwBy) := by decide
      simp only [endWord, newSql]
      rw [if_neg h1, if_pos h2]
    · rw [if_neg h2]
      have := hfin σb.sqlState
      simp only [midWord, hfrom] at this
      rw [this]
      simp only [endWord, newSql]
      rw [if_neg h1, if_neg h2]

theorem chainOK_notBad : ∀ (a : Char) (rest : List Char), chainOK a rest = true →
    ∀ x ∈ rest, wordBad x = false := by
  intro a rest
  induction rest generalizing a with
  | nil => intro _ x hx; cases hx
  | cons b r ih =>
    intro h x hx
    simp only [chainOK, Bool.and_eq_true] at h
    rcases List.mem_cons.mp hx with hx | hx
    · subst hx
      have := h.1
      simp only [okAfter, Bool.and_eq_true, Bool.not_eq_true'] at this
      exact this.1.1.1
    · exact ih b h.2 x hx

theorem lt_length_of_drop {q : List Char} {n : Nat} {c : Char} {t : List Char} (h : q.drop n = c :: t) :
    n < q.length := by
  rcases Nat.lt_or_ge n q.length with h' | h'
  · exact h'
  · rw [List.drop_of_length_le h'] at h; cases h

theorem isSpace_of_not_bad {c : Char} (h : wordBad c = false) : isSpace c = false := by
  simp only [wordBad, Bool.or_eq_false_iff] at h
  exact h.1.1.1.1.1.1.1

/-- The body of `word_item`: the first character has been read (`h1`) and led
    to the state `midWord σb c`. -/
theorem word_item_core (q : List Char) (cap : Nat) (qi : Nat) (σ0 σb : St) (c : Char) (rest : List Char) (r : Char)
    (tail : List Char)
    (h1 : step q cap qi σ0 c = .next (midWord σb c))
    (hbfrom : σb.cpFrom = (qi : Int)) (hbto : σb.cpTo ≤ (qi : Int)) (hbesc : σb.escape = false)
    (hbsql : σb.sqlState ≠ .inValues) (hbdupe : NoDupe d σb) (hblen : σb.f.length ≤ 2 * qi)
    (hbpo : σb.parOpen = 0) (hbpt : σb.parOpenTotal = 0)
    (hq : q.drop qi = (c :: rest) ++ r :: tail) (hcap : 2 * q.length < cap)
    (hshape : wordShape (c :: rest) = true) (hctx : wordCtx σb.prevWord (c :: rest) = true) (hr : isSpace r = true) :
    ∃ σ', runSeg q cap qi σ0 ((c :: rest) ++ [r]) = .next σ' ∧
      Clean (d || keyUpd σb.prevWord (c :: rest)) (qi + (c :: rest).length + 1) σ' ∧
      σ'.f = σb.f ++ lower (c :: rest) ++ [' '] ∧ σ'.prevWord = lower (c :: rest) := by
  simp only [wordShape, Bool.and_eq_true] at hshape
  obtain ⟨⟨hfirst, hchain⟩, hpar⟩ := hshape
  have hlt : qi < q.length := lt_length_of_drop (by simpa using hq)
  have hqlen : qi + (c :: rest).length + 1 ≤ q.length := by
    have := congrArg List.length hq
    simp at this ⊢; omega
  have hcallAll : '(' ∈ (c :: rest) → σb.prevWord ≠ kwCall := by
    intro hmem
    simp only [wordCtx, Bool.and_eq_true, Bool.not_eq_true', Bool.and_eq_false_iff, decide_eq_false_iff_not] at hctx
    rcases hctx.2 with h | h
    · have : (c :: rest).contains '(' = true := by
        rw [List.contains_iff_mem]; exact hmem
      rw [this] at h; cases h
    · exact h
  have hsl : ∀ k, k ≤ (c :: rest).length →
      slice? q qi ((qi + k : Nat) : Int) = some ((c :: rest).take k) := by
    intro k hk
    exact slice_of_drop q (c :: rest) (r :: tail) qi k hq (by omega) hk
  -- the rest of the word
  have h2 := runSeg_mid q cap σb qi (c :: rest) hbfrom hbto hcallAll hsl hpar rest [] c rfl hchain
  simp only [List.length_nil, Nat.add_zero] at h2
  -- the white-space character
  have hlastNotSpace : isSpace ((c :: rest).getLast (by simp)) = false := by
    apply isSpace_of_not_bad
    rcases List.mem_cons.mp (List.getLast_mem (l := c :: rest) (by simp)) with h | h
    · rw [h]
      simp only [okFirst, Bool.and_eq_true, Bool.not_eq_true'] at hfirst
      exact hfirst.1.1
    · exact chainOK_notBad c rest hchain _ h
  have hsw := hsl (c :: rest).length (Nat.le_refl _)
  rw [List.take_length] at hsw
  have h3 := step_wordEnd q cap qi ((qi + (c :: rest).length : Nat) : Int) σb
    ((c :: rest).getLast (by simp)) r (c :: rest) hr hlastNotSpace
    (by simp; omega) hbfrom hbto hsw hctx (by omega)
  refine ⟨endWord σb ((qi + (c :: rest).length : Nat) : Int) (c :: rest) r, ?_, ?_, ?_, ?_⟩
  · -- the run
    have e : (c :: rest) ++ [r] = c :: (rest ++ [r]) := by simp
    rw [e]
    simp only [runSeg, h1]
    rw [runSeg_append, h2]
    simp only [runSeg]
    have e2 : qi + 1 + rest.length = qi + (c :: rest).length := by simp; omega
    rw [e2, h3]
  · -- the clean state
    simp only [wordCtx, Bool.and_eq_true, Bool.not_eq_true', Bool.and_eq_false_iff, decide_eq_false_iff_not] at hctx
    apply Clean.of
    · left; exact ⟨rfl, hr⟩
    · simp [endWord]
    · simp [endWord]; omega
    · simp [endWord, hbesc]
    · simp only [endWord, newSql]
      split
      · simp
      · split
        · simp
        · exact hbsql
    · simp only [endWord, List.length_append, lower, List.length_map, List.length_cons, List.length_nil]
      omega
    · right; simp [endWord]
    · exact hctx.1.2
    · rfl
    · -- `update` after `key`: from here on we are behind ON DUPLICATE KEY UPDATE
      intro hd
      simp only [Bool.or_eq_false_iff] at hd
      simp only [endWord, newSql]
      split
      · simp
      · split
        · rename_i h
          have : keyUpd σb.prevWord (c :: rest) = true := by simp [keyUpd, h.1, h.2]
          rw [this] at hd; cases hd.2
        · exact hbdupe hd.1
    · exact hbpo
    · exact hbpt
  · simp [endWord]
  · simp [endWord]

theorem drop_after (q : List Char) (qi : Nat) (a b : List Char) (h : q.drop qi = a ++ b) :
    q.drop (qi + a.length) = b := by
  have : q.drop (qi + a.length) = (q.drop qi).drop a.length := by rw [List.drop_drop]
  rw [this, h]; simp

/-! ### Reading a whole word (without the character that ends it) -/

/-- The body of `word_prefix`: the first character has been read (`h1`) and
    led to the state `midWord σb c`. -/
theorem word_prefix_core (q : List Char) (cap : Nat) (qi : Nat) (σ0 σb : St) (c : Char) (rest tail : List Char)
    (h1 : step q cap qi σ0 c = .next (midWord σb c))
    (hbfrom : σb.cpFrom = (qi : Int)) (hbto : σb.cpTo ≤ (qi : Int))
    (hq : q.drop qi = (c :: rest) ++ tail) (hshape : wordShape (c :: rest) = true)
    (hcallAll : '(' ∈ (c :: rest) → σb.prevWord ≠ kwCall) :
    ∃ a, runSeg q cap qi σ0 (c :: rest) = .next (midWord σb a) ∧ (c :: rest).getLast? = some a ∧ wordBad a = false ∧
      (∀ k, k ≤ (c :: rest).length → slice? q qi ((qi + k : Nat) : Int) = some ((c :: rest).take k)) := by
  simp only [wordShape, Bool.and_eq_true] at hshape
  obtain ⟨⟨hfirst, hchain⟩, hpar⟩ := hshape
  have hlt : qi < q.length := lt_length_of_drop (by simpa using hq)
  have hsl : ∀ k, k ≤ (c :: rest).length →
      slice? q qi ((qi + k : Nat) : Int) = some ((c :: rest).take k) := by
    intro k hk
    exact slice_of_drop q (c :: rest) tail qi k hq (by omega) hk
  have h2 := runSeg_mid q cap σb qi (c :: rest) hbfrom hbto hcallAll hsl hpar rest [] c rfl hchain
  simp only [List.length_nil, Nat.add_zero] at h2
  have hlastBad : wordBad ((c :: rest).getLast (by simp)) = false := by
    rcases List.mem_cons.mp (List.getLast_mem (l := c :: rest) (by simp)) with h | h
    · rw [h]
      simp only [okFirst, Bool.and_eq_true, Bool.not_eq_true'] at hfirst
      exact hfirst.1.1
    · exact chainOK_notBad c rest hchain _ h
  refine ⟨(c :: rest).getLast (by simp), ?_, ?_, hlastBad, hsl⟩
  · simp only [runSeg, h1]; exact h2
  · exact List.getLast?_eq_some_getLast (by simp)

/-- What the first character of a word changes in a ready state. -/
theorem baseWord_frame (σ : St) (qi : Int) (c : Char) :
    (baseWord σ qi c).cpFrom = qi ∧ (baseWord σ qi c).cpTo = σ.cpTo ∧ (baseWord σ qi c).prevWord = σ.prevWord ∧
    (baseWord σ qi c).f = σ.f ∧ (baseWord σ qi c).escape = σ.escape ∧ (baseWord σ qi c).sqlState = σ.sqlState ∧
    (baseWord σ qi c).addSpace = σ.addSpace ∧ (baseWord σ qi c).parOpen = σ.parOpen ∧
    (baseWord σ qi c).parOpenTotal = σ.parOpenTotal := by
  simp only [baseWord]; split <;> exact ⟨rfl, rfl, rfl, rfl, rfl, rfl, rfl, rfl, rfl⟩

/-! ### Numbers -/

theorem isSpace_not_digit {r : Char} (hr : isSpace r = true) :
    isDigit r = false ∧ isNumberChar r = false ∧ isNotNumberChar r = false ∧ r ≠ '\'' ∧ r ≠ '"' ∧ r ≠ '+' := by
  rcases isSpace_cases hr with h | h | h | h | h | h <;> subst h <;> decide

theorem digit_facts {d : Char} (hd : isDigit d = true) :
    isSpace d = false ∧ isNumberChar d = true ∧ prOK d = true := by
  have hn : isNumberChar d = true := by simp [isNumberChar, hd]
  simp only [isDigit, decide_eq_true_eq] at hd
  refine ⟨?_, hn, ?_⟩
  · simp only [isSpace, Bool.or_eq_false_iff, decide_eq_false_iff_not]
    refine ⟨⟨⟨⟨⟨?_, ?_⟩, ?_⟩, ?_⟩, ?_⟩, ?_⟩ <;> intro h <;> subst h <;> revert hd <;> decide
  · simp only [prOK, Bool.and_eq_true, bne_iff_ne, ne_eq, decide_eq_true_eq, Bool.not_eq_true', decide_eq_false_iff_not]
    refine ⟨⟨⟨⟨⟨⟨?_, ?_⟩, ?_⟩, ?_⟩, ?_⟩, ?_⟩, ?_⟩ <;> intro h <;> subst h <;> revert hd <;> decide

/-- Reading the rest of a number: `p` is the character before `rest` in the text. -/
theorem runSeg_numTail (q : List Char) (cap : Nat) (σ1 : St) (hs : σ1.s = .inNumber) :
    ∀ (rest : List Char) (p : Char) (j : Nat) (tail : List Char), numTail p rest = true →
      q.drop j = p :: (rest ++ tail) → runSeg q cap (j + 1) σ1 rest = .next σ1 := by
  intro rest
  induction rest with
  | nil => intro p j tail _ _; simp [runSeg]
  | cons c r ih =>
    intro p j tail h hq
    unfold numTail at h
    have hq' : q.drop (j + 1) = c :: (r ++ tail) := by
      have : q.drop (j + 1) = (q.drop j).drop 1 := by rw [List.drop_drop]
      rw [this, hq]; simp
    have hstep : step q cap ((j + 1 : Nat) : Int) σ1 c = .next σ1 := by
      by_cases hc : c = '-' ∨ c = '+'
      · rw [if_pos hc] at h
        simp only [Bool.and_eq_true, Bool.or_eq_true, decide_eq_true_eq] at h
        rcases hc with hc | hc
        · subst hc; simp [step, hs, isNumberChar]
        · subst hc
          have hp : q[j]? = some p := by
            have := congrArg List.head? hq
            simpa [List.head?_drop] using this
          have e : (((j + 1 : Nat) : Int) - 1).toNat = j := by omega
          have hn : ¬ (((j + 1 : Nat) : Int) - 1 < 0) := by omega
          have hpe : q[j]? = some 'e' ∨ q[j]? = some 'E' := by
            rw [hp]; rcases h.1.1 with h' | h' <;> simp [h']
          simp [step, hs, isNumberChar, isDigit, e, hpe]
      · rw [if_neg hc] at h
        simp only [Bool.and_eq_true] at h
        simp [step, hs, h.1]
    simp only [runSeg, hstep]
    have hnt : numTail c r = true := by
      by_cases hc : c = '-' ∨ c = '+'
      · rw [if_pos hc] at h; simp only [Bool.and_eq_true] at h; exact h.2
      · rw [if_neg hc] at h; simp only [Bool.and_eq_true] at h; exact h.2
    exact ih c (j + 1) tail hnt hq'

/-- The state the machine is in while it reads a number. -/
structure NumSt (d : Bool) (σ1 : St) : Prop where
  hs : σ1.s = .inNumber
  hpr : prOK σ1.pr = true
  hprns : isSpace σ1.pr = false
  hesc : σ1.escape = false
  hsql : σ1.sqlState ≠ .inValues
  hpw : isValuesWord σ1.prevWord = false
  hadd : σ1.addSpace = false
  hdupe : NoDupe d σ1
  hpo : σ1.parOpen = 0
  hpt : σ1.parOpenTotal = 0

/-- The ready state the end of a number leads to. -/
def numDone (σ1 : St) (qe : Int) : St :=
  { σ1 with f := σ1.f ++ ['?'], cpFrom := qe, cpTo := qe, s := .unknown }

/-- The character after a number is read as from the ready state `numDone`. -/
theorem step_num_end (q : List Char) (cap : Nat) (qe : Nat) (σ1 : St) (c : Char) (hn : NumSt d σ1)
    (hc1 : isNumberChar c = false) (hc2 : isNotNumberChar c = false) (hc3 : c ≠ '+')
    (hcap : σ1.f.length + 1 ≤ cap) :
    step q cap qe σ1 c = step q cap qe (numDone σ1 qe) c := by
  have hpush : push cap σ1.f '?' = some (σ1.f ++ ['?']) := by
    unfold push; rw [if_pos (by omega)]
  have hns : ¬ (isSpace c = true ∧ isSpace σ1.pr = true) := by rw [hn.hprns]; simp
  simp [step, hn.hs, hc1, hc2, hc3, hpush, numDone, hn.hprns]

theorem numDone_ready (qe : Nat) (σ1 : St) (hn : NumSt d σ1) (hlen : σ1.f.length + 1 ≤ 2 * qe) :
    Ready d qe (numDone σ1 qe) :=
  { hs := Or.inr rfl, hpr := hn.hpr, hfrom := rfl, hto := by simp [numDone], hesc := hn.hesc, hsql := hn.hsql,
    hlen := by simp [numDone]; omega, hpw := hn.hpw, hadd := hn.hadd, hdupe := hn.hdupe, hpo := hn.hpo,
    hpt := hn.hpt }

theorem numTail_of_digit (p d : Char) (r : List Char) (hd : isDigit d = true) (h : numTail d r = true) :
    numTail p (d :: r) = true := by
  have hne : ¬ (d = '-' ∨ d = '+') := by
    intro h'; rcases h' with h' | h' <;> subst h' <;> revert hd <;> decide
  unfold numTail
  rw [if_neg hne]
  simp [(digit_facts hd).2.1, h]

theorem getElem?_of_drop {q : List Char} {n : Nat} {a b : List Char} (h : q.drop n = a ++ b) (k : Nat)
    (hk : k < a.length) : q[n + k]? = a[k]? := by
  have : (q.drop n)[k]? = (a ++ b)[k]? := by rw [h]
  rw [List.getElem?_drop] at this
  rw [this, List.getElem?_append_left hk]

theorem drop_succ_of_drop {q : List Char} {n : Nat} {c : Char} {t : List Char} (h : q.drop n = c :: t) :
    q.drop (n + 1) = t := by
  have : q.drop (n + 1) = (q.drop n).drop 1 := by rw [List.drop_drop]
  rw [this, h]; simp

/-- **A number at the beginning of a chunk**: plain, signed, or with a leading dot. -/
theorem num_entry_fresh (q : List Char) (cap : Nat) (qi : Nat) (σ : St) (n tail : List Char)
    (hc : Ready d qi σ) (hq : q.drop qi = n ++ tail) (hshape : numShape n = true) :
    ∃ σ1, runSeg q cap qi σ n = .next σ1 ∧ NumSt d σ1 ∧ σ1.f = σ.f ∧ σ1.prevWord = σ.prevWord := by
  obtain ⟨hp1, hp2, hp3, hp4, hp5, hp6, hp7⟩ := hc.pr_facts
  have hnlt : ¬ ((qi : Int) > σ.cpFrom) := by rw [hc.hfrom]; omega
  have hnlt2 : ¬ (σ.cpTo > σ.cpFrom) := by rw [hc.hfrom]; have := hc.hto; omega
  cases n with
  | nil => simp [numShape] at hshape
  | cons c r =>
    simp only [numShape] at hshape
    by_cases hd : isDigit c = true
    · -- 12, 0x1F, 1e-5
      rw [if_pos hd] at hshape
      obtain ⟨hcsp, _, hcpr⟩ := digit_facts hd
      let σ1 : St := { σ with cpTo := qi, s := .inNumber, pr := c }
      have h1 : step q cap qi σ c = .next σ1 := by
        rcases hc.s_cases with hs | hs <;> simp [step, hs, hcsp, part2, hd, part3, hnlt, σ1]
      have h2 := runSeg_numTail q cap σ1 rfl r c qi tail hshape (by simpa using hq)
      exact ⟨σ1, by simp only [runSeg, h1]; exact h2,
        ⟨rfl, hcpr, hcsp, hc.hesc, hc.hsql, hc.hpw, hc.hadd, hc.hdupe, hc.hpo, hc.hpt⟩, rfl, rfl⟩
    · rw [if_neg hd] at hshape
      by_cases hsd : c = '-' ∨ c = '+' ∨ c = '.'
      · rw [if_pos hsd] at hshape
        cases r with
        | nil => simp at hshape
        | cons d r' =>
          simp only [Bool.and_eq_true] at hshape
          obtain ⟨hdd, htl⟩ := hshape
          obtain ⟨hdsp, hdnc, hdpr⟩ := digit_facts hdd
          have hq1 : q.drop (qi + 1) = d :: (r' ++ tail) := drop_succ_of_drop (by simpa using hq)
          rcases hsd with hs' | hs' | hs'
          · -- -5
            subst hs'
            let σ0 : St := { σ with s := .opOrNumber, pr := '-' }
            have h1 : step q cap qi σ '-' = .next σ0 := by
              rcases hc.s_cases with hs | hs <;> simp [step, hs, isSpace, part2, isDigit, part3, hnlt2, hp4, σ0]
            let σ1 : St := { σ with cpTo := ((qi + 1 : Nat) : Int) - 1, s := .inNumber, pr := d }
            have hnlt3 : ¬ (((qi + 1 : Nat) : Int) - 1 > σ.cpFrom) := by rw [hc.hfrom]; omega
            have h2 : step q cap ((qi + 1 : Nat) : Int) σ0 d = .next σ1 := by
              have hnlt4 : ¬ (σ.cpFrom < (qi : Int)) := by rw [hc.hfrom]; omega
              simp [step, σ0, hdsp, part2, hdd, part3, hnlt4, σ1]
            have h3 := runSeg_numTail q cap σ1 rfl r' d (qi + 1) tail htl hq1
            exact ⟨σ1, by simp only [runSeg, h1, h2]; exact h3,
              ⟨rfl, hdpr, hdsp, hc.hesc, hc.hsql, hc.hpw, hc.hadd, hc.hdupe, hc.hpo, hc.hpt⟩, rfl, rfl⟩
          · -- +7
            subst hs'
            let σ0 : St := { σ with s := .opOrNumber, pr := '+' }
            have h1 : step q cap qi σ '+' = .next σ0 := by
              rcases hc.s_cases with hs | hs <;> simp [step, hs, isSpace, part2, isDigit, part3, hnlt2, σ0]
            let σ1 : St := { σ with cpTo := ((qi + 1 : Nat) : Int) - 1, s := .inNumber, pr := d }
            have hnlt3 : ¬ (((qi + 1 : Nat) : Int) - 1 > σ.cpFrom) := by rw [hc.hfrom]; omega
            have h2 : step q cap ((qi + 1 : Nat) : Int) σ0 d = .next σ1 := by
              have hnlt4 : ¬ (σ.cpFrom < (qi : Int)) := by rw [hc.hfrom]; omega
              simp [step, σ0, hdsp, part2, hdd, part3, hnlt4, σ1]
            have h3 := runSeg_numTail q cap σ1 rfl r' d (qi + 1) tail htl hq1
            exact ⟨σ1, by simp only [runSeg, h1, h2]; exact h3,
              ⟨rfl, hdpr, hdsp, hc.hesc, hc.hsql, hc.hpw, hc.hadd, hc.hdupe, hc.hpo, hc.hpt⟩, rfl, rfl⟩
          · -- .5
            subst hs'
            have hnn : numberNext q (qi : Int) = true := by
              have : q[qi + 1]? = some d := by
                have := getElem?_of_drop (b := tail) (by simpa using hq : q.drop qi = ('.' :: d :: r') ++ tail) 1 (by simp)
                simpa using this
              have e : ((qi : Int) + 1).toNat = qi + 1 := by omega
              simp [numberNext, e, this, hdd]
            let σ1 : St := { σ with s := .inNumber, cpTo := qi, pr := '.' }
            have h1 : step q cap qi σ '.' = .next σ1 := by
              rcases hc.s_cases with hs | hs <;> simp [step, hs, isSpace, part2, isDigit, part3, hnlt, hnn, σ1]
            have h3 := runSeg_numTail q cap σ1 rfl (d :: r') '.' qi tail (numTail_of_digit '.' d r' hdd htl)
              (by simpa using hq)
            exact ⟨σ1, by simp only [runSeg, h1]; exact h3,
              ⟨rfl, (by decide : prOK '.' = true), (by decide : isSpace '.' = false), hc.hesc, hc.hsql, hc.hpw, hc.hadd,
                hc.hdupe, hc.hpo, hc.hpt⟩, rfl, rfl⟩
      · rw [if_neg hsd] at hshape; cases hshape

theorem litAfter_cases {a : Char} (h : litAfter a = true) : isOpChar a = true ∨ (isOpChar a = false ∧ (a = '(' ∨ a = ',')) := by
  by_cases ho : isOpChar a = true
  · exact Or.inl ho
  · right
    have ho' : isOpChar a = false := by simpa using ho
    simp only [litAfter, ho', Bool.or_false, Bool.or_eq_true, decide_eq_true_eq] at h
    exact ⟨ho', h.symm⟩

/-- The state after the pending word `w` was copied because a number begins. -/
def copiedNum (σb : St) (qi : Int) (w : List Char) (p : Char) : St :=
  { σb with prevWord := lower w, f := σb.f ++ lower w, cpFrom := qi, cpTo := qi, s := .inNumber, pr := p }

/-- The digit after `id=`, `f(` or `a,`: the pending word is copied, a number begins. -/
theorem step_lit_digit (q : List Char) (cap : Nat) (qi0 qi : Int) (σb : St) (a d : Char) (w : List Char)
    (ha : litAfter a = true) (hd : isDigit d = true) (hgt : qi0 < qi) (hfrom : σb.cpFrom = qi0)
    (hslice : slice? q qi0 qi = some w) (hval : isValuesWord (lower w) = false)
    (hadd : σb.addSpace = false) (hcap : σb.f.length + w.length ≤ cap) :
    step q cap qi (midWord σb a) d = .next (copiedNum σb qi w d) := by
  obtain ⟨hdsp, _, _⟩ := digit_facts hd
  have hlw : (lower w).length = w.length := by simp [lower]
  have hp1 : pushAll cap σb.f (lower w) = some (σb.f ++ lower w) := by
    unfold pushAll; rw [if_pos (by rw [hlw]; omega)]
  have hgt' : qi > qi0 := hgt
  rcases litAfter_cases ha with ho | ⟨ho, hpc⟩
  · simp [step, midWord, ho, hdsp, part2, hd, part3, hfrom, hgt', hslice, hp1, hval, hadd, copiedNum]
  · rcases hpc with hpc | hpc <;> subst hpc <;>
      simp [step, midWord, isOpChar, hdsp, part2, hd, part3, hfrom, hgt', hslice, hp1, hval, hadd, copiedNum]

/-- **A number glued to word text** (`id=1`, `f(-2`, `a,.5`): the pending word
    is copied, the number is read. -/
theorem num_entry_afterW (q : List Char) (cap : Nat) (qi0 qi : Nat) (σb : St) (a : Char) (w n tail : List Char)
    (ha : litAfter a = true) (hbad : wordBad a = false) (hgt : qi0 < qi) (hfrom : σb.cpFrom = (qi0 : Int))
    (hto : σb.cpTo ≤ (qi0 : Int)) (hslice : slice? q qi0 qi = some w) (hval : isValuesWord (lower w) = false)
    (hadd : σb.addSpace = false) (hcap : σb.f.length + w.length ≤ cap)
    (hq : q.drop qi = n ++ tail) (hshape : numShape n = true)
    (hesc : σb.escape = false) (hsql : σb.sqlState ≠ .inValues) (hdupe : NoDupe d σb)
    (hpo : σb.parOpen = 0) (hpt : σb.parOpenTotal = 0) :
    ∃ σ1, runSeg q cap qi (midWord σb a) n = .next σ1 ∧ NumSt d σ1 ∧ σ1.f = σb.f ++ lower w ∧
      σ1.prevWord = lower w := by
  have hlw : (lower w).length = w.length := by simp [lower]
  have hp1 : pushAll cap σb.f (lower w) = some (σb.f ++ lower w) := by
    unfold pushAll; rw [if_pos (by rw [hlw]; omega)]
  have hgt' : (qi : Int) > (qi0 : Int) := by omega
  have hnum : ∀ p, prOK p = true → isSpace p = false → NumSt d (copiedNum σb qi w p) := by
    intro p h1 h2
    exact ⟨rfl, h1, h2, hesc, hsql, hval, hadd, hdupe, hpo, hpt⟩
  simp only [wordBad, Bool.or_eq_false_iff, decide_eq_false_iff_not] at hbad
  obtain ⟨⟨⟨⟨⟨⟨⟨hasp, _⟩, _⟩, _⟩, _⟩, hami⟩, _⟩, _⟩ := hbad
  cases n with
  | nil => simp [numShape] at hshape
  | cons c r =>
    simp only [numShape] at hshape
    by_cases hd : isDigit c = true
    · rw [if_pos hd] at hshape
      obtain ⟨hcsp, _, hcpr⟩ := digit_facts hd
      have h1 := step_lit_digit q cap qi0 qi σb a c w ha hd (by omega) hfrom hslice hval hadd hcap
      have h2 := runSeg_numTail q cap (copiedNum σb qi w c) rfl r c qi tail hshape (by simpa using hq)
      exact ⟨_, by simp only [runSeg, h1]; exact h2, hnum c hcpr hcsp, rfl, rfl⟩
    · rw [if_neg hd] at hshape
      by_cases hsd : c = '-' ∨ c = '+' ∨ c = '.'
      · rw [if_pos hsd] at hshape
        cases r with
        | nil => simp at hshape
        | cons d r' =>
          simp only [Bool.and_eq_true] at hshape
          obtain ⟨hdd, htl⟩ := hshape
          obtain ⟨hdsp, hdnc, hdpr⟩ := digit_facts hdd
          have hq1 : q.drop (qi + 1) = d :: (r' ++ tail) := drop_succ_of_drop (by simpa using hq)
          have hto' : σb.cpTo ≤ σb.cpFrom := by rw [hfrom]; exact hto
          have hsign : ∀ sg : Char, (sg = '-' ∨ sg = '+') → σb.cpTo ≤ σb.cpFrom →
              step q cap qi (midWord σb a) sg = .next { σb with s := .opOrNumber, pr := sg } := by
            intro sg hsg hto
            have hn : ¬ σb.cpTo > σb.cpFrom := Int.not_lt.mpr hto
            rcases hsg with e | e <;> subst e <;>
              by_cases ho : isOpChar a = true <;>
                simp [step, midWord, ho, isSpace, hasp, part2, isDigit, part3, hn, hami]
          have hdig2 : ∀ sg : Char, step q cap ((qi + 1 : Nat) : Int) { σb with s := .opOrNumber, pr := sg } d =
              .next (copiedNum σb qi w d) := by
            intro sg
            have e : ((qi + 1 : Nat) : Int) - 1 = (qi : Int) := by omega
            simp [step, hdsp, part2, hdd, part3, hfrom, hgt', hslice, hp1, hval, hadd, copiedNum]
          rcases hsd with hs' | hs' | hs'
          · subst hs'
            have h3 := runSeg_numTail q cap (copiedNum σb qi w d) rfl r' d (qi + 1) tail htl hq1
            exact ⟨_, by simp only [runSeg, hsign '-' (Or.inl rfl) hto', hdig2 '-']; exact h3, hnum d hdpr hdsp, rfl, rfl⟩
          · subst hs'
            have h3 := runSeg_numTail q cap (copiedNum σb qi w d) rfl r' d (qi + 1) tail htl hq1
            exact ⟨_, by simp only [runSeg, hsign '+' (Or.inr rfl) hto', hdig2 '+']; exact h3, hnum d hdpr hdsp, rfl, rfl⟩
          · subst hs'
            have hnn : numberNext q (qi : Int) = true := by
              have : q[qi + 1]? = some d := by
                have := getElem?_of_drop (b := tail) (by simpa using hq : q.drop qi = ('.' :: d :: r') ++ tail) 1 (by simp)
                simpa using this
              have e : ((qi : Int) + 1).toNat = qi + 1 := by omega
              simp [numberNext, e, this, hdd]
            have h1 : step q cap qi (midWord σb a) '.' = .next (copiedNum σb qi w '.') := by
              rcases litAfter_cases ha with ho | ⟨ho, hpc⟩
              · simp [step, midWord, ho, isSpace, part2, isDigit, part3, hfrom, hgt', hslice, hp1, hval, hadd, copiedNum]
              · rcases hpc with hpc | hpc <;> subst hpc <;>
                  simp [step, midWord, isOpChar, isSpace, part2, isDigit, hnn, part3, hfrom, hgt', hslice, hp1, hval, hadd,
                    copiedNum]
            have h3 := runSeg_numTail q cap (copiedNum σb qi w '.') rfl (d :: r') '.' qi tail
              (numTail_of_digit '.' d r' hdd htl) (by simpa using hq)
            exact ⟨_, by simp only [runSeg, h1]; exact h3,
              hnum '.' (by decide) (by decide), rfl, rfl⟩
      · rw [if_neg hsd] at hshape; cases hshape

/-! ### Quoted strings -/

theorem lookahead_of_drop {q : List Char} {qi : Nat} {x : Char} {rest : List Char} (h : q.drop qi = x :: rest) :
    q[qi + 1]? = rest.head? := by
  have := congrArg List.head? (drop_succ_of_drop h)
  simpa [List.head?_drop] using this

/-- Reading the body of a quoted value up to and including its closing quote
    (a doubled quote character does not close it). -/
theorem runSeg_quote (q : List Char) (cap : Nat) (σ1 : St) (c : Char) (g : List Char)
    (hs : σ1.s = .inQuote) (hqc : σ1.quoteChar = c) (hsql : σ1.sqlState ≠ .inValues)
    (hf : σ1.f = g) (hcap : g.length + 1 ≤ cap) :
    ∀ (body : List Char) (esc : Bool) (qi : Nat) (tail : List Char), closesAt c esc body = true →
      q.drop qi = body ++ tail → tail.head? ≠ some c →
      runSeg q cap qi { σ1 with escape := esc } body =
        .next { σ1 with escape := false, cpFrom := ((qi + body.length : Nat) : Int), f := g ++ ['?'], s := .unknown } := by
  intro body
  induction body with
  | nil => intro esc qi tail h; simp [closesAt] at h
  | cons x rest ih =>
    intro esc qi tail h hq htl
    have hq1 : q.drop (qi + 1) = rest ++ tail := drop_succ_of_drop (by simpa using hq)
    have hla : q[qi + 1]? = (rest ++ tail).head? := lookahead_of_drop (by simpa using hq)
    unfold closesAt at h
    by_cases hx : x = c
    · subst hx
      simp only [ne_eq, not_true_eq_false, if_false] at h
      cases esc with
      | true =>
        simp only [if_true] at h
        have : step q cap qi { σ1 with escape := true } x = .next { σ1 with escape := false } := by
          simp [step, hs, hqc]
        simp only [runSeg, this]
        have := ih false (qi + 1) tail h hq1 htl
        rw [this]
        simp; omega
      | false =>
        simp only [Bool.false_eq_true, if_false] at h
        cases rest with
        | nil =>
          have hpush : push cap g '?' = some (g ++ ['?']) := by
            unfold push; rw [if_pos (by omega)]
          have hne : ¬ (q[qi + 1]? = some x) := by
            rw [hla]; simpa using htl
          have : step q cap qi { σ1 with escape := false } x =
              .next { σ1 with escape := false, cpFrom := (qi : Int) + 1, f := g ++ ['?'], s := .unknown } := by
            simp [step, hs, hqc, hsql, hf, hpush, hne]
          simp only [runSeg, this]
          simp
        | cons y rest' =>
          simp only at h
          by_cases hy : y = x
          · subst hy
            rw [if_pos rfl] at h
            have hdbl : q[qi + 1]? = some y := by rw [hla]; simp
            have : step q cap qi { σ1 with escape := false } y = .next { σ1 with escape := true } := by
              simp [step, hs, hqc, hdbl]
            simp only [runSeg, this]
            have := ih true (qi + 1) tail h hq1 htl
            simp only [runSeg] at this
            rw [this]
            simp; omega
          · rw [if_neg hy] at h; cases h
    · simp only [ne_eq, hx, not_false_eq_true, if_true] at h
      cases esc with
      | true =>
        simp only [if_true] at h
        have : step q cap qi { σ1 with escape := true } x = .next { σ1 with escape := false } := by
          simp [step, hs, hqc, hx]
        simp only [runSeg, this]
        have := ih false (qi + 1) tail h hq1 htl
        rw [this]
        simp; omega
      | false =>
        simp only [Bool.false_eq_true, if_false] at h
        by_cases hb : x = '\\'
        · subst hb
          simp only [if_true] at h
          have hx' : ¬ ('\\' = σ1.quoteChar) := by rw [hqc]; exact hx
          have : step q cap qi { σ1 with escape := false } '\\' = .next { σ1 with escape := true } := by
            simp [step, hs, hx']
          simp only [runSeg, this]
          have := ih true (qi + 1) tail h hq1 htl
          rw [this]
          simp; omega
        · simp only [hb, if_false] at h
          have : step q cap qi { σ1 with escape := false } x = .next { σ1 with escape := false } := by
            simp [step, hs, hqc, hx, hb]
          simp only [runSeg, this]
          have := ih false (qi + 1) tail h hq1 htl
          rw [this]
          simp; omega

theorem quote_facts {c : Char} (h : c = '\'' ∨ c = '"') :
    isSpace c = false ∧ isDigit c = false ∧ prOK c = true := by
  rcases h with h | h <;> subst h <;> decide

/-- **A quoted string at the beginning of a chunk.** -/
theorem str_entry_fresh (q : List Char) (cap : Nat) (qi : Nat) (σ : St) (t tail : List Char)
    (hc : Ready d qi σ) (hq : q.drop qi = t ++ tail) (hcap : 2 * q.length < cap) (hshape : strShape t = true)
    (htl : ∀ c body, t = c :: body → tail.head? ≠ some c) :
    ∃ σ2, runSeg q cap qi σ t = .next σ2 ∧ Ready d (qi + t.length) σ2 ∧ σ2.f = σ.f ++ ['?'] ∧
      σ2.prevWord = σ.prevWord ∧ isSpace σ2.pr = false ∧ σ2.s = .unknown := by
  cases t with
  | nil => simp [strShape] at hshape
  | cons c body =>
    simp only [strShape, Bool.and_eq_true, Bool.or_eq_true, decide_eq_true_eq] at hshape
    obtain ⟨hquote, hclose⟩ := hshape
    have hlt : qi < q.length := lt_length_of_drop (by simpa using hq)
    obtain ⟨hp1, hp2, hp3, _⟩ := hc.pr_facts
    obtain ⟨hcsp, hcd, hcpr⟩ := quote_facts hquote
    have hnlt : ¬ ((qi : Int) > σ.cpFrom) := by rw [hc.hfrom]; omega
    let σ1 : St := { σ with s := .inQuote, quoteChar := c, cpTo := qi, pr := c }
    have h1 : step q cap qi σ c = .next σ1 := by
      rcases hc.s_cases with hs | hs <;>
        simp [step, hs, hcsp, hcd, part2, hquote, hp1, hp2, hp3, part3, hnlt, σ1]
    have hesc : σ1 = { σ1 with escape := false } := by simp [σ1, hc.hesc]
    have hq1 : q.drop (qi + 1) = body ++ tail := drop_succ_of_drop (by simpa using hq)
    have h2 := runSeg_quote q cap σ1 c σ.f rfl rfl hc.hsql rfl (by have := hc.hlen; omega) body false (qi + 1) tail hclose
      hq1 (htl c body rfl)
    rw [← hesc] at h2
    refine ⟨{ σ1 with escape := false, cpFrom := ((qi + 1 + body.length : Nat) : Int), f := σ.f ++ ['?'], s := .unknown },
      by simp only [runSeg, h1]; exact h2, ?_, rfl, rfl, hcsp, rfl⟩
    exact { hs := Or.inr rfl, hpr := hcpr, hfrom := by simp; omega, hto := by simp [σ1]; omega, hesc := rfl,
            hsql := hc.hsql, hlen := by have := hc.hlen; simp; omega, hpw := hc.hpw, hadd := hc.hadd,
            hdupe := hc.hdupe, hpo := hc.hpo, hpt := hc.hpt }

/-- The quote after word text: the pending word is copied, a quoted value begins. -/
theorem step_lit_quote (q : List Char) (cap : Nat) (qi0 qi : Int) (σb : St) (a c : Char) (w : List Char)
    (hasp : isSpace a = false) (ha1 : a ≠ '\\') (ha2 : a ≠ 'x') (ha3 : a ≠ 'b')
    (hc : c = '\'' ∨ c = '"') (hgt : qi0 < qi) (hfrom : σb.cpFrom = qi0)
    (hslice : slice? q qi0 qi = some w) (hval : isValuesWord (lower w) = false)
    (hadd : σb.addSpace = false) (hcap : σb.f.length + w.length ≤ cap) :
    step q cap qi (midWord σb a) c =
      .next { σb with prevWord := lower w, f := σb.f ++ lower w, cpFrom := qi, cpTo := qi, s := .inQuote,
                      quoteChar := c, pr := c } := by
  obtain ⟨hcsp, hcd, _⟩ := quote_facts hc
  have hlw : (lower w).length = w.length := by simp [lower]
  have hp1 : pushAll cap σb.f (lower w) = some (σb.f ++ lower w) := by
    unfold pushAll; rw [if_pos (by rw [hlw]; omega)]
  have hgt' : qi > qi0 := hgt
  by_cases ho : isOpChar a = true <;>
    simp [step, midWord, ho, hcsp, hcd, hasp, part2, hc, ha1, ha2, ha3, part3, hfrom, hgt', hslice, hp1, hval, hadd]

/-- **A quoted string glued to word text** (`name='x'`, `f('a'`). -/
theorem str_entry_afterW (q : List Char) (cap : Nat) (qi0 qi : Nat) (σb : St) (a : Char) (w t tail : List Char)
    (hbad : wordBad a = false) (ha1 : a ≠ '\\') (ha2 : a ≠ 'x') (ha3 : a ≠ 'b')
    (hgt : qi0 < qi) (hfrom : σb.cpFrom = (qi0 : Int))
    (hslice : slice? q qi0 qi = some w) (hwlen : w.length = qi - qi0) (hval : isValuesWord (lower w) = false)
    (hadd : σb.addSpace = false) (hlen : σb.f.length ≤ 2 * qi0) (hcap : 2 * q.length < cap)
    (hq : q.drop qi = t ++ tail) (hshape : strShape t = true)
    (htl : ∀ c body, t = c :: body → tail.head? ≠ some c)
    (hesc : σb.escape = false) (hsql : σb.sqlState ≠ .inValues) (hdupe : NoDupe d σb)
    (hpo : σb.parOpen = 0) (hpt : σb.parOpenTotal = 0) :
    ∃ σ2, runSeg q cap qi (midWord σb a) t = .next σ2 ∧ Ready d (qi + t.length) σ2 ∧
      σ2.f = σb.f ++ lower w ++ ['?'] ∧ σ2.prevWord = lower w ∧ isSpace σ2.pr = false ∧ σ2.s = .unknown := by
  cases t with
  | nil => simp [strShape] at hshape
  | cons c body =>
    simp only [strShape, Bool.and_eq_true, Bool.or_eq_true, decide_eq_true_eq] at hshape
    obtain ⟨hquote, hclose⟩ := hshape
    have hlt : qi < q.length := lt_length_of_drop (by simpa using hq)
    obtain ⟨hcsp, hcd, hcpr⟩ := quote_facts hquote
    have hlw : (lower w).length = w.length := by simp [lower]
    have h1 := step_lit_quote q cap qi0 qi σb a c w (isSpace_of_not_bad hbad) ha1 ha2 ha3 hquote (by omega) hfrom hslice hval
      hadd (by omega)
    let σ1 : St := { σb with prevWord := lower w, f := σb.f ++ lower w, cpFrom := (qi : Int), cpTo := (qi : Int),
                             s := .inQuote, quoteChar := c, pr := c }
    have hesc1 : σ1 = { σ1 with escape := false } := by simp [σ1, hesc]
    have hq1 : q.drop (qi + 1) = body ++ tail := drop_succ_of_drop (by simpa using hq)
    have h2 := runSeg_quote q cap σ1 c (σb.f ++ lower w) rfl rfl hsql rfl (by simp [hlw]; omega) body false (qi + 1) tail
      hclose hq1 (htl c body rfl)
    rw [← hesc1] at h2
    refine ⟨{ σ1 with escape := false, cpFrom := ((qi + 1 + body.length : Nat) : Int),
                      f := (σb.f ++ lower w) ++ ['?'], s := .unknown },
      by simp only [runSeg, h1]; exact h2, ?_, rfl, rfl, hcsp, rfl⟩
    exact { hs := Or.inr rfl, hpr := hcpr, hfrom := by simp; omega, hto := by simp [σ1]; omega, hesc := rfl,
            hsql := hsql, hlen := by simp [hlw]; omega, hpw := hval, hadd := hadd,
            hdupe := hdupe, hpo := hpo, hpt := hpt }

/-! ### Hex and bit strings: `x'0F'`, `b'01'` -/

theorem prefix_facts {p : Char} (h : p = 'x' ∨ p = 'b') :
    isOpChar p = false ∧ okFirst p = true ∧ wordBad p = false ∧ p ≠ '(' ∧ (∀ a, wordBad a = false → okAfter a p = true) := by
  rcases h with h | h <;> subst h <;>
    exact ⟨by decide, by decide, by decide, by decide, fun a _ => by simp [okAfter, wordBad, isSpace, isDigit]⟩

/-- **A hex or bit string at the beginning of a chunk**: the prefix is read as
    word text, the quote finds nothing to copy in front of it. -/
theorem pstr_entry_fresh (q : List Char) (cap : Nat) (qi : Nat) (σ : St) (p : Char) (t tail : List Char)
    (hc : Ready d qi σ) (hp : p = 'x' ∨ p = 'b') (hq : q.drop qi = (p :: t) ++ tail) (hcap : 2 * q.length < cap)
    (hshape : strShape t = true) (htl : ∀ c body, t = c :: body → tail.head? ≠ some c) :
    ∃ σ2, runSeg q cap qi σ (p :: t) = .next σ2 ∧ Ready d (qi + (p :: t).length) σ2 ∧ σ2.f = σ.f ++ ['?'] ∧
      σ2.prevWord = σ.prevWord ∧ isSpace σ2.pr = false ∧ σ2.s = .unknown := by
  obtain ⟨hpop, hpfirst, _, hppar, _⟩ := prefix_facts hp
  cases t with
  | nil => simp [strShape] at hshape
  | cons c body =>
    simp only [strShape, Bool.and_eq_true, Bool.or_eq_true, decide_eq_true_eq] at hshape
    obtain ⟨hquote, hclose⟩ := hshape
    have hlt : qi < q.length := lt_length_of_drop (by simpa using hq)
    obtain ⟨hcsp, hcd, hcpr⟩ := quote_facts hquote
    have h1 := step_first q cap qi σ p hc (by omega) hpfirst (fun e => absurd e hppar)
    obtain ⟨e1, e2, e3, e4, e5, e6, e7, e8, e9⟩ := baseWord_frame σ qi p
    let σb := baseWord σ qi p
    let σ1 : St := { σb with s := .inQuote, quoteChar := c, cpTo := ((qi + 1 : Nat) : Int) - 1, pr := c }
    have hnlt : ¬ (((qi + 1 : Nat) : Int) - 1 > σb.cpFrom) := by rw [e1]; omega
    have hpsp : isSpace p = false := by rcases hp with h | h <;> subst h <;> decide
    have hpb : p ≠ '\\' := by rcases hp with h | h <;> subst h <;> decide
    have h2 : step q cap ((qi + 1 : Nat) : Int) (midWord σb p) c = .next σ1 := by
      have hnlt' : ¬ (σb.cpFrom < (qi : Int)) := by rw [e1]; omega
      simp [step, midWord, hpop, hcsp, hcd, hpsp, part2, hquote, hpb, hp, part3, hnlt', σ1]
    have hesc1 : σ1 = { σ1 with escape := false } := by
      have : σb.escape = false := by rw [e5]; exact hc.hesc
      simp [σ1, this]
    have hq1 : q.drop (qi + 1 + 1) = body ++ tail := by
      apply drop_succ_of_drop (c := c)
      exact drop_succ_of_drop (by simpa using hq)
    have h3 := runSeg_quote q cap σ1 c σ.f rfl rfl (by show σb.sqlState ≠ _; rw [e6]; exact hc.hsql) e4
      (by have := hc.hlen; omega) body false (qi + 1 + 1) tail hclose hq1 (htl c body rfl)
    rw [← hesc1] at h3
    have h2' : step q cap ((qi + 1 : Nat) : Int) (midWord (baseWord σ (qi : Int) p) p) c = .next σ1 := h2
    refine ⟨{ σ1 with escape := false, cpFrom := ((qi + 1 + 1 + body.length : Nat) : Int), f := σ.f ++ ['?'], s := .unknown },
      by simp only [runSeg, h1, h2']; exact h3, ?_, rfl, e3, hcsp, rfl⟩
    exact { hs := Or.inr rfl, hpr := hcpr, hfrom := by simp; omega, hto := by simp [σ1]; omega, hesc := rfl,
            hsql := by show σb.sqlState ≠ _; rw [e6]; exact hc.hsql
            hlen := by have := hc.hlen; simp; omega
            hpw := by show isValuesWord σb.prevWord = false; rw [e3]; exact hc.hpw
            hadd := by show σb.addSpace = false; rw [e7]; exact hc.hadd
            hdupe := by intro hd; show σb.sqlState ≠ _; rw [e6]; exact hc.hdupe hd
            hpo := by show σb.parOpen = 0; rw [e8]; exact hc.hpo
            hpt := by show σb.parOpenTotal = 0; rw [e9]; exact hc.hpt }

/-- **A hex or bit string glued to word text** (`a=x'0F'`): the text in front
    of the prefix is copied. -/
theorem pstr_entry_afterW (q : List Char) (cap : Nat) (qi0 qi : Nat) (σb : St) (a p : Char) (w t tail : List Char)
    (hbad : wordBad a = false) (hp : p = 'x' ∨ p = 'b')
    (hgt : qi0 < qi) (hfrom : σb.cpFrom = (qi0 : Int)) (hto : σb.cpTo ≤ (qi0 : Int))
    (hslice : slice? q qi0 qi = some w) (hwlen : w.length = qi - qi0) (hval : isValuesWord (lower w) = false)
    (hadd : σb.addSpace = false) (hlen : σb.f.length ≤ 2 * qi0) (hcap : 2 * q.length < cap)
    (hq : q.drop qi = (p :: t) ++ tail) (hshape : strShape t = true)
    (htl : ∀ c body, t = c :: body → tail.head? ≠ some c)
    (hesc : σb.escape = false) (hsql : σb.sqlState ≠ .inValues) (hdupe : NoDupe d σb)
    (hpo : σb.parOpen = 0) (hpt : σb.parOpenTotal = 0) :
    ∃ σ2, runSeg q cap qi (midWord σb a) (p :: t) = .next σ2 ∧ Ready d (qi + (p :: t).length) σ2 ∧
      σ2.f = σb.f ++ lower w ++ ['?'] ∧ σ2.prevWord = lower w ∧ isSpace σ2.pr = false ∧ σ2.s = .unknown := by
  obtain ⟨hpop, _, _, hppar, hpok⟩ := prefix_facts hp
  cases t with
  | nil => simp [strShape] at hshape
  | cons c body =>
    simp only [strShape, Bool.and_eq_true, Bool.or_eq_true, decide_eq_true_eq] at hshape
    obtain ⟨hquote, hclose⟩ := hshape
    have hlt : qi < q.length := lt_length_of_drop (by simpa using hq)
    obtain ⟨hcsp, hcd, hcpr⟩ := quote_facts hquote
    have hlw : (lower w).length = w.length := by simp [lower]
    have h1 := step_mid q cap qi σb a p (by rw [hfrom]; exact hto) (hpok a hbad) (fun e => absurd e hppar)
      (fun e => absurd e hppar)
    let σ1 : St := { σb with prevWord := lower w, f := σb.f ++ lower w, cpFrom := (qi : Int), cpTo := (qi : Int),
                             s := .inQuote, quoteChar := c, pr := c }
    have hp1 : pushAll cap σb.f (lower w) = some (σb.f ++ lower w) := by
      unfold pushAll; rw [if_pos (by rw [hlw]; omega)]
    have hpsp : isSpace p = false := by rcases hp with h | h <;> subst h <;> decide
    have hpb : p ≠ '\\' := by rcases hp with h | h <;> subst h <;> decide
    have hgt' : (qi0 : Int) < (qi : Int) := by omega
    have h2 : step q cap ((qi + 1 : Nat) : Int) (midWord σb p) c = .next σ1 := by
      simp [step, midWord, hpop, hcsp, hcd, hpsp, part2, hquote, hpb, hp, part3, hfrom, hgt', hslice, hp1, hval, hadd, σ1]
    have hesc1 : σ1 = { σ1 with escape := false } := by simp [σ1, hesc]
    have hq1 : q.drop (qi + 1 + 1) = body ++ tail := by
      apply drop_succ_of_drop (c := c)
      exact drop_succ_of_drop (by simpa using hq)
    have h3 := runSeg_quote q cap σ1 c (σb.f ++ lower w) rfl rfl hsql rfl (by simp [hlw]; omega) body false (qi + 1 + 1) tail
      hclose hq1 (htl c body rfl)
    rw [← hesc1] at h3
    refine ⟨{ σ1 with escape := false, cpFrom := ((qi + 1 + 1 + body.length : Nat) : Int),
                      f := (σb.f ++ lower w) ++ ['?'], s := .unknown },
      by simp only [runSeg, h1, h2]; exact h3, ?_, rfl, rfl, hcsp, rfl⟩
    exact { hs := Or.inr rfl, hpr := hcpr, hfrom := by simp; omega, hto := by simp [σ1]; omega, hesc := rfl,
            hsql := hsql, hlen := by simp [hlw]; omega, hpw := hval, hadd := hadd,
            hdupe := hdupe, hpo := hpo, hpt := hpt }

/-! ### Chunks -/

/-- A space read in the `unknown` state right after a `?` was written. -/
theorem step_space_after_value (q : List Char) (cap : Nat) (qi : Int) (σ : St) (g : List Char) (r : Char)
    (hs : σ.s = .unknown) (hf : σ.f = g ++ ['?']) (hr : isSpace r = true) (hpr : isSpace σ.pr = false)
    (hto : σ.cpTo ≤ qi + 1) (hcap : g.length + 2 ≤ cap) :
    step q cap qi σ r = .next { σ with f := g ++ ['?', ' '], cpFrom := qi + 1, pr := r } := by
  have hd := (isSpace_not_digit hr).1
  have hnlt : ¬ σ.cpTo > qi + 1 := Int.not_lt.mpr hto
  have hpush : push cap (g ++ ['?']) ' ' = some (g ++ ['?', ' ']) := by
    unfold push; rw [if_pos (by simp; omega)]; simp
  have hq : isSpace '?' = false := by decide
  simp [step, hs, hr, hpr, part2, hd, hf, hpush, part3, hnlt, hq]

/-- The statement about chunks of at most `n` segments: from a ready state
    (`fresh`: at the beginning of the chunk; otherwise right after a literal)
    the segments and the white-space character after them contribute their
    normal forms and one blank, and leave a clean state. -/
def ChunkA (q : List Char) (cap : Nat) (n : Nat) : Prop :=
  ∀ (segs : List Seg), segs.length ≤ n →
  ∀ (d : Bool) (qi : Nat) (σ : St) (fresh : Bool) (r : Char) (tail : List Char),
    Ready d qi σ →
    (fresh = false → σ.s = .unknown ∧ isSpace σ.pr = false ∧ ∃ g, σ.f = g ++ ['?']) →
    segsOK (if fresh then .start else .afterLit) segs = true →
    segsCtx σ.prevWord segs = true →
    q.drop qi = segsText segs ++ r :: tail → isSpace r = true →
    ∃ σ', runSeg q cap qi σ (segsText segs ++ [r]) = .next σ' ∧
      Clean (segsDupe σ.prevWord d segs) (qi + (segsText segs).length + 1) σ' ∧
      σ'.f = σ.f ++ segsNorm segs ++ [' '] ∧ σ'.prevWord = segsPrev σ.prevWord segs

theorem segsText_cons (x : Seg) (l : List Seg) : segsText (x :: l) = x.text ++ segsText l := by
  simp [segsText]

theorem segsNorm_cons (x : Seg) (l : List Seg) : segsNorm (x :: l) = x.norm ++ segsNorm l := by
  simp [segsNorm]

/-- The first character of what follows a literal: white space, or the first
    character of word text that cannot continue a number. -/
theorem after_lit_head (rest : List Seg) (r : Char) (tail : List Char) (hr : isSpace r = true)
    (hok : segsOK .afterLit rest = true) :
    ∃ c xs, segsText rest ++ r :: tail = c :: xs ∧ isNumberChar c = false ∧ isNotNumberChar c = false ∧
      c ≠ '+' ∧ c ≠ '\'' ∧ c ≠ '"' := by
  cases rest with
  | nil =>
    obtain ⟨_, h1, h2, h3, h4, h5⟩ := isSpace_not_digit hr
    exact ⟨r, tail, by simp [segsText], h1, h2, h5, h3, h4⟩
  | cons x rest' =>
    cases x with
    | w t =>
      cases t with
      | nil => simp [segsOK, wordShape] at hok
      | cons c t' =>
        simp only [segsOK, Bool.and_eq_true, notNumberish, Bool.not_eq_true'] at hok
        obtain ⟨⟨hnn, hws⟩, _⟩ := hok
        simp only [wordShape, Bool.and_eq_true, okFirst, wordBad, Bool.not_eq_true', Bool.or_eq_false_iff,
          decide_eq_false_iff_not] at hws
        obtain ⟨⟨⟨⟨hbad, _⟩, _⟩, _⟩, _⟩ := hws
        obtain ⟨⟨⟨⟨⟨⟨⟨_, hq1⟩, hq2⟩, _⟩, hpl⟩, _⟩, _⟩, _⟩ := hbad
        exact ⟨c, t' ++ segsText rest' ++ r :: tail, by simp [segsText, Seg.text], hnn.1, hnn.2, hpl, hq1, hq2⟩
    | n t => simp [segsOK] at hok
    | s t => simp [segsOK] at hok
    | p c t => simp [segsOK] at hok

/-- After a number: the rest of the chunk. -/
theorem chunk_after_num (q : List Char) (cap : Nat) (n : Nat) (hcap : 2 * q.length < cap) (ih : ChunkA q cap n) :
    ∀ (rest : List Seg), rest.length ≤ n →
    ∀ (qe : Nat) (σ1 : St) (r : Char) (tail : List Char),
      NumSt d σ1 → σ1.f.length + 1 ≤ 2 * qe →
      segsOK .afterLit rest = true → segsCtx σ1.prevWord rest = true →
      q.drop qe = segsText rest ++ r :: tail → isSpace r = true →
      ∃ σ', runSeg q cap qe σ1 (segsText rest ++ [r]) = .next σ' ∧
        Clean (segsDupe σ1.prevWord d rest) (qe + (segsText rest).length + 1) σ' ∧
        σ'.f = σ1.f ++ ['?'] ++ segsNorm rest ++ [' '] ∧ σ'.prevWord = segsPrev σ1.prevWord rest := by
  intro rest hlen qe σ1 r tail hn hfl hok hctx hq hr
  obtain ⟨c, xs, hcx, hc1, hc2, hc3, _, _⟩ := after_lit_head rest r tail hr hok
  have hlt : qe < q.length := lt_length_of_drop (by rw [hq, hcx])
  have hstep := step_num_end q cap qe σ1 c hn hc1 hc2 hc3 (by omega)
  obtain ⟨c', xs', hcx'⟩ : ∃ c' xs', segsText rest ++ [r] = c' :: xs' := by
    cases h : segsText rest ++ [r] with
    | nil => simp at h
    | cons a b => exact ⟨a, b, rfl⟩
  have hcc : c' = c := by
    have h1 : (segsText rest ++ [r]).head? = (segsText rest ++ r :: tail).head? := by
      cases segsText rest <;> simp
    rw [hcx', hcx] at h1
    simpa using h1
  subst hcc
  have hrun : runSeg q cap qe σ1 (segsText rest ++ [r]) = runSeg q cap qe (numDone σ1 qe) (segsText rest ++ [r]) := by
    rw [hcx']; simp only [runSeg, hstep]
  obtain ⟨σ', h1, h2, h3, h4⟩ := ih rest hlen d qe (numDone σ1 qe) false r tail (numDone_ready qe σ1 hn hfl)
    (fun _ => ⟨rfl, hn.hprns, σ1.f, rfl⟩) (by simpa using hok) hctx hq hr
  exact ⟨σ', by rw [hrun]; exact h1, h2, by rw [h3]; simp [numDone], h4⟩

theorem wordCtx_val {prev w : List Char} (h : wordCtx prev w = true) : isValuesWord (lower w) = false := by
  simp only [wordCtx, Bool.and_eq_true, Bool.not_eq_true'] at h
  exact h.1.2

theorem isValuesWord_lower (w : List Char) : isValuesWord (lower w) = isValuesWord w := by
  have : lower (lower w) = lower w := by
    simp only [lower, List.map_map]
    apply List.map_congr_left
    intro c _
    simp only [Function.comp]
    unfold Char.toLower
    split
    · rename_i h
      split
      · rename_i h2
        exfalso
        have h1a := UInt32.le_iff_toNat_le.mp h.1
        have h1b := UInt32.le_iff_toNat_le.mp h.2
        have h2a := UInt32.le_iff_toNat_le.mp h2.1
        have e1 : ('a'.val - 'A'.val).toNat = 32 := by decide
        have e2 : 'A'.val.toNat = 65 := by decide
        have e3 : 'Z'.val.toNat = 90 := by decide
        have h2b := UInt32.le_iff_toNat_le.mp h2.2
        simp only [UInt32.toNat_add] at h2a h2b
        rw [e1] at h2a h2b
        rw [e2] at h1a h2a
        rw [e3] at h1b h2b
        omega
      · rfl
    · rfl
  simp [isValuesWord, this]

/-- **Word text inside a chunk**: the first character has been read (`h1`);
    the rest of the word, the segments after it and the white-space character
    that ends the chunk. -/
theorem chunk_word (q : List Char) (cap : Nat) (n : Nat) (hcap : 2 * q.length < cap) (ih : ChunkA q cap n)
    (qi : Nat) (σ0 σb : St) (c : Char) (wr : List Char) (rest : List Seg) (r : Char) (tail : List Char)
    (hrl : rest.length ≤ n)
    (h1 : step q cap qi σ0 c = .next (midWord σb c))
    (hbfrom : σb.cpFrom = (qi : Int)) (hbto : σb.cpTo ≤ (qi : Int)) (hbesc : σb.escape = false)
    (hbsql : σb.sqlState ≠ .inValues) (hbdupe : NoDupe d σb) (hblen : σb.f.length ≤ 2 * qi)
    (hbpo : σb.parOpen = 0) (hbpt : σb.parOpenTotal = 0) (hbadd : σb.addSpace = false)
    (hq : q.drop qi = (c :: wr) ++ (segsText rest ++ r :: tail))
    (hshape : wordShape (c :: wr) = true) (hctx : wordCtx σb.prevWord (c :: wr) = true)
    (hok : ∀ a, (c :: wr).getLast? = some a → segsOK (.afterW a) rest = true)
    (hrctx : segsCtx (lower (c :: wr)) rest = true) (hr : isSpace r = true) :
    ∃ σ', runSeg q cap qi σ0 ((c :: wr) ++ (segsText rest ++ [r])) = .next σ' ∧
      Clean (segsDupe σb.prevWord d (Seg.w (c :: wr) :: rest)) (qi + (c :: wr).length + (segsText rest).length + 1) σ' ∧
      σ'.f = σb.f ++ lower (c :: wr) ++ segsNorm rest ++ [' '] ∧ σ'.prevWord = segsPrev (lower (c :: wr)) rest := by
  cases rest with
  | nil =>
    obtain ⟨σ', h2, h3, h4, h5⟩ := word_item_core q cap qi σ0 σb c wr r tail h1 hbfrom hbto hbesc hbsql hbdupe hblen
      hbpo hbpt (by simpa [segsText] using hq) hcap hshape hctx hr
    exact ⟨σ', by simpa [segsText] using h2, by simpa [segsText, segsDupe] using h3, by simpa [segsNorm] using h4,
      by simpa [segsPrev] using h5⟩
  | cons x rest' =>
    have hcallAll : '(' ∈ (c :: wr) → σb.prevWord ≠ kwCall := by
      intro hmem
      simp only [wordCtx, Bool.and_eq_true, Bool.not_eq_true', Bool.and_eq_false_iff, decide_eq_false_iff_not] at hctx
      rcases hctx.2 with h | h
      · have : (c :: wr).contains '(' = true := by rw [List.contains_iff_mem]; exact hmem
        rw [this] at h; cases h
      · exact h
    obtain ⟨a, hw1, hlast, hbad, hsl⟩ := word_prefix_core q cap qi σ0 σb c wr _ h1 hbfrom hbto hq hshape hcallAll
    have hoka := hok a hlast
    have hval := wordCtx_val hctx
    have hsw := hsl (c :: wr).length (Nat.le_refl _)
    rw [List.take_length] at hsw
    have hlw : (lower (c :: wr)).length = (c :: wr).length := by simp [lower]
    have hq2 : q.drop (qi + (c :: wr).length) = segsText (x :: rest') ++ r :: tail := drop_after q qi _ _ hq
    have hqlen : qi + (c :: wr).length < q.length := by
      apply lt_length_of_drop (c := (segsText (x :: rest') ++ r :: tail).head!) (t := (segsText (x :: rest') ++ r :: tail).tail)
      rw [hq2]
      cases h : segsText (x :: rest') ++ r :: tail with
      | nil => simp at h
      | cons _ _ => rfl
    simp only [List.length_cons] at hrl
    cases x with
    | w t => simp [segsOK] at hoka
    | n u =>
      simp only [segsOK, Bool.and_eq_true] at hoka
      obtain ⟨⟨⟨hla, hns⟩, _⟩, hokr⟩ := hoka
      have hq3 : q.drop (qi + (c :: wr).length) = u ++ (segsText rest' ++ r :: tail) := by
        simpa [segsText_cons, Seg.text] using hq2
      obtain ⟨σ1, hn1, hnst, hf1, hp1⟩ := num_entry_afterW q cap qi (qi + (c :: wr).length) σb a (c :: wr) u _ hla hbad
        (by simp) hbfrom hbto hsw hval hbadd (by omega) hq3 hns hbesc hbsql hbdupe hbpo hbpt
      have hulen : 0 < u.length := by
        cases u with
        | nil => simp [numShape] at hns
        | cons _ _ => simp
      obtain ⟨σ', h2, h3, h4, h5⟩ := chunk_after_num q cap n hcap ih rest' (by omega) (qi + (c :: wr).length + u.length) σ1
        r tail hnst (by rw [hf1]; simp only [List.length_append, hlw]; omega) hokr
        (by rw [hp1]; simpa [segsCtx] using hrctx) (drop_after q _ _ _ hq3) hr
      refine ⟨σ', ?_, ?_, ?_, ?_⟩
      · rw [runSeg_append, hw1]
        simp only [segsText_cons, Seg.text, List.append_assoc]
        rw [runSeg_append, hn1]
        exact h2
      · have e : qi + (c :: wr).length + (segsText (Seg.n u :: rest')).length + 1 =
            qi + (c :: wr).length + u.length + (segsText rest').length + 1 := by
          simp [segsText_cons, Seg.text]; omega
        rw [e]; rw [hp1] at h3; simpa [segsDupe] using h3
      · rw [h4, hf1]; simp [segsNorm_cons, Seg.norm]
      · rw [h5, hp1]; simp [segsPrev]
    | s u =>
      simp only [segsOK, Bool.and_eq_true, bne_iff_ne, ne_eq, decide_eq_true_eq, Bool.not_eq_true',
        decide_eq_false_iff_not] at hoka
      obtain ⟨⟨⟨⟨⟨ha1, ha2⟩, ha3⟩, hss⟩, _⟩, hokr⟩ := hoka
      have hq3 : q.drop (qi + (c :: wr).length) = u ++ (segsText rest' ++ r :: tail) := by
        simpa [segsText_cons, Seg.text] using hq2
      obtain ⟨cc, xs, hcx, _, _, _, hnq1, hnq2⟩ := after_lit_head rest' r tail hr hokr
      have htl : ∀ c0 body, u = c0 :: body → (segsText rest' ++ r :: tail).head? ≠ some c0 := by
        intro c0 body hu
        rw [hcx]
        simp only [List.head?_cons, ne_eq, Option.some.injEq]
        intro e
        subst e; subst hu
        simp only [strShape, Bool.and_eq_true, Bool.or_eq_true, decide_eq_true_eq] at hss
        rcases hss.1 with h | h
        · exact hnq1 h
        · exact hnq2 h
      obtain ⟨σ2, hs1, hrd, hf2, hp2, hprns, hs2⟩ := str_entry_afterW q cap qi (qi + (c :: wr).length) σb a (c :: wr) u _
        hbad ha1 ha2 ha3 (by simp) hbfrom hsw (by simp) hval hbadd hblen hcap hq3 hss htl hbesc hbsql hbdupe hbpo hbpt
      obtain ⟨σ', h2, h3, h4, h5⟩ := ih rest' (by omega) d (qi + (c :: wr).length + u.length) σ2 false r tail hrd
        (fun _ => ⟨hs2, hprns, σb.f ++ lower (c :: wr), hf2⟩) (by simpa using hokr)
        (by rw [hp2]; simpa [segsCtx] using hrctx) (drop_after q _ _ _ hq3) hr
      refine ⟨σ', ?_, ?_, ?_, ?_⟩
      · rw [runSeg_append, hw1]
        simp only [segsText_cons, Seg.text, List.append_assoc]
        rw [runSeg_append, hs1]
        exact h2
      · have e : qi + (c :: wr).length + (segsText (Seg.s u :: rest')).length + 1 =
            qi + (c :: wr).length + u.length + (segsText rest').length + 1 := by
          simp [segsText_cons, Seg.text]; omega
        rw [e]; rw [hp2] at h3; simpa [segsDupe] using h3
      · rw [h4, hf2]; simp [segsNorm_cons, Seg.norm]
      · rw [h5, hp2]; simp [segsPrev]

    | p pc u =>
      simp only [segsOK, Bool.and_eq_true, Bool.or_eq_true, decide_eq_true_eq] at hoka
      obtain ⟨⟨⟨⟨hla, hpc⟩, hss⟩, _⟩, hokr⟩ := hoka
      have hq3 : q.drop (qi + (c :: wr).length) = (pc :: u) ++ (segsText rest' ++ r :: tail) := by
        simpa [segsText_cons, Seg.text] using hq2
      obtain ⟨cc, xs, hcx, _, _, _, hnq1, hnq2⟩ := after_lit_head rest' r tail hr hokr
      have htl : ∀ c0 body, u = c0 :: body → (segsText rest' ++ r :: tail).head? ≠ some c0 := by
        intro c0 body hu
        rw [hcx]
        simp only [List.head?_cons, ne_eq, Option.some.injEq]
        intro e
        subst e; subst hu
        simp only [strShape, Bool.and_eq_true, Bool.or_eq_true, decide_eq_true_eq] at hss
        rcases hss.1 with h | h
        · exact hnq1 h
        · exact hnq2 h
      obtain ⟨σ2, hs1, hrd, hf2, hp2, hprns, hs2⟩ := pstr_entry_afterW q cap qi (qi + (c :: wr).length) σb a pc (c :: wr) u _
        hbad hpc (by simp) hbfrom hbto hsw (by simp) hval hbadd hblen hcap hq3 hss htl hbesc hbsql hbdupe hbpo hbpt
      obtain ⟨σ', h2, h3, h4, h5⟩ := ih rest' (by omega) d (qi + (c :: wr).length + (pc :: u).length) σ2 false r tail hrd
        (fun _ => ⟨hs2, hprns, σb.f ++ lower (c :: wr), hf2⟩) (by simpa using hokr)
        (by rw [hp2]; simpa [segsCtx] using hrctx) (drop_after q _ _ _ hq3) hr
      refine ⟨σ', ?_, ?_, ?_, ?_⟩
      · rw [runSeg_append, hw1]
        simp only [segsText_cons, Seg.text, List.append_assoc]
        rw [runSeg_append, hs1]
        exact h2
      · have e : qi + (c :: wr).length + (segsText (Seg.p pc u :: rest')).length + 1 =
            qi + (c :: wr).length + (pc :: u).length + (segsText rest').length + 1 := by
          simp [segsText_cons, Seg.text]; omega
        rw [e]; rw [hp2] at h3; simpa [segsDupe] using h3
      · rw [h4, hf2]; simp [segsNorm_cons, Seg.norm]
      · rw [h5, hp2]; simp [segsPrev]

/-- **Chunks.**  From a ready state, a chunk and the white-space character
    after it contribute the normal forms of its segments and one blank, and
    leave a clean state. -/
theorem chunk_run (q : List Char) (cap : Nat) (hcap : 2 * q.length < cap) : ∀ n, ChunkA q cap n := by
  intro n
  induction n with
  | zero =>
    intro segs hlen d qi σ fresh r tail hc hnf hok hctx hq hr
    have : segs = [] := by cases segs <;> simp_all
    subst this
    cases fresh with
    | true => simp [segsOK] at hok
    | false =>
      obtain ⟨hs, hprns, g, hg⟩ := hnf rfl
      have hlt : qi < q.length := lt_length_of_drop (by simpa [segsText] using hq)
      have h := step_space_after_value q cap qi σ g r hs hg hr hprns (by have := hc.hto; omega)
        (by have := hc.hlen; rw [hg] at this; simp at this; omega)
      refine ⟨{ σ with f := g ++ ['?', ' '], cpFrom := (qi : Int) + 1, pr := r },
        by simp [segsText, runSeg, h], ?_, by simp [segsNorm, hg], by simp [segsPrev]⟩
      apply Clean.of
      · right; exact ⟨hs, by simp [cleanPr, hr]⟩
      · simp [segsText]
      · have := hc.hto; simp [segsText]; omega
      · exact hc.hesc
      · exact hc.hsql
      · have := hc.hlen; rw [hg] at this; simp [segsText] at this ⊢; omega
      · right; simp
      · exact hc.hpw
      · exact hc.hadd
      · exact hc.hdupe
      · exact hc.hpo
      · exact hc.hpt
  | succ n ih =>
    intro segs hlen d qi σ fresh r tail hc hnf hok hctx hq hr
    cases segs with
    | nil => exact ih [] (by simp) d qi σ fresh r tail hc hnf hok hctx hq hr
    | cons x rest =>
      simp only [List.length_cons] at hlen
      have hrl : rest.length ≤ n := by omega
      have hlt : qi < q.length := by
        apply lt_length_of_drop (c := (segsText (x :: rest) ++ r :: tail).head!) (t := (segsText (x :: rest) ++ r :: tail).tail)
        rw [hq]
        cases h : segsText (x :: rest) ++ r :: tail with
        | nil => simp at h
        | cons _ _ => rfl
      cases x with
      | w t =>
        cases t with
        | nil => cases fresh <;> simp [segsOK, wordShape] at hok
        | cons c wr =>
          have hws : wordShape (c :: wr) = true ∧
              (∀ a, (c :: wr).getLast? = some a → segsOK (.afterW a) rest = true) := by
            cases fresh <;> simp only [segsOK, Bool.and_eq_true, if_true] at hok
            · refine ⟨hok.1.2, ?_⟩
              intro a ha; rw [ha] at hok; exact hok.2
            · refine ⟨hok.1.2, ?_⟩
              intro a ha; rw [ha] at hok; exact hok.2
          simp only [segsCtx, Bool.and_eq_true] at hctx
          have hfirst : okFirst c = true := by
            have := hws.1; simp only [wordShape, Bool.and_eq_true] at this; exact this.1.1
          have hcall1 : c = '(' → σ.prevWord ≠ kwCall := by
            intro hc1
            have hcx := hctx.1
            simp only [wordCtx, Bool.and_eq_true, Bool.not_eq_true', Bool.and_eq_false_iff, decide_eq_false_iff_not] at hcx
            rcases hcx.2 with h | h
            · have : (c :: wr).contains '(' = true := by rw [List.contains_iff_mem]; simp [hc1]
              rw [this] at h; cases h
            · exact h
          have h1 := step_first q cap qi σ c hc (by omega) hfirst hcall1
          obtain ⟨e1, e2, e3, e4, e5, e6, e7, e8, e9⟩ := baseWord_frame σ qi c
          have hbd : NoDupe d (baseWord σ qi c) := by intro hd; rw [e6]; exact hc.hdupe hd
          obtain ⟨σ', h2, h3, h4, h5⟩ := chunk_word q cap n hcap ih qi σ (baseWord σ qi c) c wr rest r tail hrl h1
            e1 (by rw [e2]; exact hc.hto) (by rw [e5]; exact hc.hesc) (by rw [e6]; exact hc.hsql)
            hbd (by rw [e4]; exact hc.hlen) (by rw [e8]; exact hc.hpo)
            (by rw [e9]; exact hc.hpt) (by rw [e7]; exact hc.hadd)
            (by simpa [segsText_cons, Seg.text] using hq) hws.1 (by rw [e3]; exact hctx.1) hws.2 hctx.2 hr
          refine ⟨σ', by simpa [segsText_cons, Seg.text] using h2, ?_, ?_, ?_⟩
          · have e : qi + (segsText (Seg.w (c :: wr) :: rest)).length + 1 =
                qi + (c :: wr).length + (segsText rest).length + 1 := by
              simp [segsText_cons, Seg.text]; omega
            rw [e]; rw [e3] at h3; exact h3
          · rw [h4, e4]; simp [segsNorm_cons, Seg.norm]
          · rw [h5]; simp [segsPrev]
      | n u =>
        cases fresh with
        | false => simp [segsOK] at hok
        | true =>
          simp only [segsOK, Bool.and_eq_true, if_true] at hok
          obtain ⟨⟨⟨_, hns⟩, _⟩, hokr⟩ := hok
          have hq3 : q.drop qi = u ++ (segsText rest ++ r :: tail) := by
            simpa [segsText_cons, Seg.text] using hq
          obtain ⟨σ1, hn1, hnst, hf1, hp1⟩ := num_entry_fresh q cap qi σ u _ hc hq3 hns
          have hulen : 0 < u.length := by
            cases u with
            | nil => simp [numShape] at hns
            | cons _ _ => simp
          obtain ⟨σ', h2, h3, h4, h5⟩ := chunk_after_num q cap n hcap ih rest hrl (qi + u.length) σ1 r tail hnst
            (by rw [hf1]; have := hc.hlen; omega) hokr (by rw [hp1]; simpa [segsCtx] using hctx)
            (drop_after q _ _ _ hq3) hr
          refine ⟨σ', ?_, ?_, ?_, ?_⟩
          · simp only [segsText_cons, Seg.text, List.append_assoc]
            rw [runSeg_append, hn1]; exact h2
          · have e : qi + (segsText (Seg.n u :: rest)).length + 1 = qi + u.length + (segsText rest).length + 1 := by
              simp [segsText_cons, Seg.text]; omega
            rw [e]; rw [hp1] at h3; simpa [segsDupe] using h3
          · rw [h4, hf1]; simp [segsNorm_cons, Seg.norm]
          · rw [h5, hp1]; simp [segsPrev]
      | s u =>
        cases fresh with
        | false => simp [segsOK] at hok
        | true =>
          simp only [segsOK, Bool.and_eq_true, if_true] at hok
          obtain ⟨⟨⟨_, hss⟩, _⟩, hokr⟩ := hok
          have hq3 : q.drop qi = u ++ (segsText rest ++ r :: tail) := by
            simpa [segsText_cons, Seg.text] using hq
          obtain ⟨cc, xs, hcx, _, _, _, hnq1, hnq2⟩ := after_lit_head rest r tail hr hokr
          have htl : ∀ c0 body, u = c0 :: body → (segsText rest ++ r :: tail).head? ≠ some c0 := by
            intro c0 body hu
            rw [hcx]
            simp only [List.head?_cons, ne_eq, Option.some.injEq]
            intro e
            subst e; subst hu
            simp only [strShape, Bool.and_eq_true, Bool.or_eq_true, decide_eq_true_eq] at hss
            rcases hss.1 with h | h
            · exact hnq1 h
            · exact hnq2 h
          obtain ⟨σ2, hs1, hrd, hf2, hp2, hprns, hs2⟩ := str_entry_fresh q cap qi σ u _ hc hq3 hcap hss htl
          obtain ⟨σ', h2, h3, h4, h5⟩ := ih rest hrl d (qi + u.length) σ2 false r tail hrd
            (fun _ => ⟨hs2, hprns, σ.f, hf2⟩) (by simpa using hokr)
            (by rw [hp2]; simpa [segsCtx] using hctx) (drop_after q _ _ _ hq3) hr
          refine ⟨σ', ?_, ?_, ?_, ?_⟩
          · simp only [segsText_cons, Seg.text, List.append_assoc]
            rw [runSeg_append, hs1]; exact h2
          · have e : qi + (segsText (Seg.s u :: rest)).length + 1 = qi + u.length + (segsText rest).length + 1 := by
              simp [segsText_cons, Seg.text]; omega
            rw [e]; rw [hp2] at h3; simpa [segsDupe] using h3
          · rw [h4, hf2]; simp [segsNorm_cons, Seg.norm]
          · rw [h5, hp2]; simp [segsPrev]

      | p pc u =>
        cases fresh with
        | false => simp [segsOK] at hok
        | true =>
          simp only [segsOK, Bool.and_eq_true, if_true, Bool.or_eq_true, decide_eq_true_eq] at hok
          obtain ⟨⟨⟨⟨_, hpc⟩, hss⟩, _⟩, hokr⟩ := hok
          have hq3 : q.drop qi = (pc :: u) ++ (segsText rest ++ r :: tail) := by
            simpa [segsText_cons, Seg.text] using hq
          obtain ⟨cc, xs, hcx, _, _, _, hnq1, hnq2⟩ := after_lit_head rest r tail hr hokr
          have htl : ∀ c0 body, u = c0 :: body → (segsText rest ++ r :: tail).head? ≠ some c0 := by
            intro c0 body hu
            rw [hcx]
            simp only [List.head?_cons, ne_eq, Option.some.injEq]
            intro e
            subst e; subst hu
            simp only [strShape, Bool.and_eq_true, Bool.or_eq_true, decide_eq_true_eq] at hss
            rcases hss.1 with h | h
            · exact hnq1 h
            · exact hnq2 h
          obtain ⟨σ2, hs1, hrd, hf2, hp2, hprns, hs2⟩ := pstr_entry_fresh q cap qi σ pc u _ hc hpc hq3 hcap hss htl
          obtain ⟨σ', h2, h3, h4, h5⟩ := ih rest hrl d (qi + (pc :: u).length) σ2 false r tail hrd
            (fun _ => ⟨hs2, hprns, σ.f, hf2⟩) (by simpa using hokr)
            (by rw [hp2]; simpa [segsCtx] using hctx) (drop_after q _ _ _ hq3) hr
          refine ⟨σ', ?_, ?_, ?_, ?_⟩
          · simp only [segsText_cons, Seg.text, List.append_assoc]
            rw [runSeg_append, hs1]; exact h2
          · have e : qi + (segsText (Seg.p pc u :: rest)).length + 1 =
                qi + (pc :: u).length + (segsText rest).length + 1 := by
              simp [segsText_cons, Seg.text]; omega
            rw [e]; rw [hp2] at h3; simpa [segsDupe] using h3
          · rw [h4, hf2]; simp [segsNorm_cons, Seg.norm]
          · rw [h5, hp2]; simp [segsPrev]

/-! ### White space between items -/

/-- What a separator preserves. -/
def SameOut (σ σ' : St) : Prop := σ'.f = σ.f ∧ σ'.prevWord = σ.prevWord

theorem ws_piece (q : List Char) (cap : Nat) (qi : Nat) (σ : St) (r : Char)
    (hc : Clean d qi σ) (hr : isSpace r = true) :
    ∃ σ', step q cap qi σ r = .next σ' ∧ Clean d (qi + 1) σ' ∧ SameOut σ σ' := by
  refine ⟨{ σ with cpFrom := (qi : Int) + 1, pr := r }, ?_, ?_, rfl, rfl⟩
  · obtain ⟨hd, _⟩ := isSpace_not_digit hr
    by_cases hp : isSpace σ.pr = true
    · rcases hc.s_cases with hs | hs <;> simp [step, hs, hr, hp]
    · have hp' : isSpace σ.pr = false := by simpa using hp
      have hs : σ.s = .unknown := by
        rcases hc.hcp with h | h
        · rw [h.2] at hp'; cases hp'
        · exact h.1
      have hnlt : ¬ (σ.cpTo > (qi : Int) + 1) := by have := hc.hto; omega
      have hsp : isSpace ' ' = true := by decide
      rcases hc.hlast with h | h
      · simp [step, hs, hr, hp', part2, hd, hc.hfrom, h, part3, hnlt]
      · simp [step, hs, hr, hp', part2, hd, hc.hfrom, h, hsp, part3, hnlt]
  · apply Clean.of
    · rcases hc.hcp with h | h
      · left; exact ⟨h.1, hr⟩
      · right; exact ⟨h.1, by simp [cleanPr, hr]⟩
    · simp
    · have := hc.hto; simp; omega
    · exact hc.hesc
    · exact hc.hsql
    · have := hc.hlen; simp; omega
    · exact hc.hlast
    · exact hc.hpw
    · exact hc.hadd
    · exact hc.hdupe
    · exact hc.hpo
    · exact hc.hpt

/-- A run of white space between two items. -/
theorem ws_run (q : List Char) (cap : Nat) :
    ∀ (ws : List Char) (qi : Nat) (σ : St), Clean d qi σ → ws.all isSpace = true →
      ∃ σ', runSeg q cap qi σ ws = .next σ' ∧ Clean d (qi + ws.length) σ' ∧ SameOut σ σ' := by
  intro ws
  induction ws with
  | nil => intro qi σ hc _; exact ⟨σ, by simp [runSeg], by simpa using hc, rfl, rfl⟩
  | cons c rest ih =>
    intro qi σ hc hok
    simp only [List.all_cons, Bool.and_eq_true] at hok
    obtain ⟨σ1, h1, hc1, hs1⟩ := ws_piece q cap qi σ c hc hok.1
    obtain ⟨σ2, h2, hc2, hs2⟩ := ih (qi + 1) σ1 hc1 hok.2
    refine ⟨σ2, by simp only [runSeg, h1]; exact h2, ?_, ⟨hs2.1.trans hs1.1, hs2.2.trans hs1.2⟩⟩
    have e : qi + (c :: rest).length = qi + 1 + rest.length := by simp; omega
    rw [e]; exact hc2

/-! ### Value lists: `in (1, 2)`, `values ('a', f(b)), (2, 3)` -/

/-- Inside the parentheses of a value list, at depth `d`. -/
structure InList (d : Int) (σ : St) : Prop where
  hs : σ.s = .inValues
  hsql : σ.sqlState = .inValues
  hpo : σ.parOpen = d
  hesc : σ.escape = false
  hpt : 0 ≤ σ.parOpenTotal

/-- What reading list content leaves unchanged. -/
def ListFrame (σ σ' : St) : Prop :=
  σ'.prevWord = σ.prevWord ∧ σ'.f = σ.f ∧ σ'.valueNo = σ.valueNo ∧ σ'.firstPar = σ.firstPar ∧
    σ'.cpTo = σ.cpTo ∧ σ'.addSpace = σ.addSpace ∧ σ'.pr = σ.pr

theorem ListFrame.refl (σ : St) : ListFrame σ σ := ⟨rfl, rfl, rfl, rfl, rfl, rfl, rfl⟩

theorem ListFrame.trans {a b c : St} (h1 : ListFrame a b) (h2 : ListFrame b c) : ListFrame a c :=
  ⟨h2.1.trans h1.1, h2.2.1.trans h1.2.1, h2.2.2.1.trans h1.2.2.1, h2.2.2.2.1.trans h1.2.2.2.1,
    h2.2.2.2.2.1.trans h1.2.2.2.2.1, h2.2.2.2.2.2.1.trans h1.2.2.2.2.2.1, h2.2.2.2.2.2.2.trans h1.2.2.2.2.2.2⟩


/-- A quoted value inside a list is skipped up to its closing quote (a doubled
    quote character does not close it). -/
theorem skip_quoted_run (q : List Char) (cap : Nat) (σ : St) (c : Char) (hsql : σ.sqlState = .inValues) :
    ∀ (body : List Char) (esc : Bool) (qi : Nat) (rest' tail : List Char), skipQuoted c esc body = some rest' →
      q.drop qi = body ++ tail → tail.head? ≠ some c →
      ∃ pre, body = pre ++ rest' ∧
        runSeg q cap qi { σ with s := .inQuote, quoteChar := c, escape := esc } pre =
          .next { σ with s := .inValues, quoteChar := c, escape := false, cpFrom := ((qi + pre.length : Nat) : Int) } := by
  intro body
  induction body with
  | nil => intro esc qi rest' tail h; simp [skipQuoted] at h
  | cons x rest ih =>
    intro esc qi rest' tail h hq htl
    have hq1 : q.drop (qi + 1) = rest ++ tail := drop_succ_of_drop (by simpa using hq)
    have hla : q[qi + 1]? = (rest ++ tail).head? := lookahead_of_drop (by simpa using hq)
    unfold skipQuoted at h
    by_cases hx : x = c
    · subst hx
      simp only [ne_eq, not_true_eq_false, if_false] at h
      cases esc with
      | true =>
        simp only [if_true] at h
        obtain ⟨pre, hpre, hrun⟩ := ih false (qi + 1) rest' tail h hq1 htl
        refine ⟨x :: pre, by simp [hpre], ?_⟩
        have : step q cap qi { σ with s := .inQuote, quoteChar := x, escape := true } x =
            .next { σ with s := .inQuote, quoteChar := x, escape := false } := by simp [step]
        simp only [runSeg, this, hrun]
        simp; omega
      | false =>
        simp only [Bool.false_eq_true, if_false] at h
        have hclose : ¬ (q[qi + 1]? = some x) →
            step q cap qi { σ with s := .inQuote, quoteChar := x, escape := false } x =
              .next { σ with s := .inValues, quoteChar := x, escape := false, cpFrom := (qi : Int) + 1 } := by
          intro hne
          simp [step, hsql, hne]
        cases rest with
        | nil =>
          simp only [Option.some.injEq] at h
          subst h
          have hne : ¬ (q[qi + 1]? = some x) := by rw [hla]; simpa using htl
          exact ⟨[x], by simp, by simp [runSeg, hclose hne]⟩
        | cons y rest2 =>
          simp only at h
          by_cases hy : y = x
          · subst hy
            rw [if_pos rfl] at h
            obtain ⟨pre, hpre, hrun⟩ := ih true (qi + 1) rest' tail h hq1 htl
            refine ⟨y :: pre, by simp [hpre], ?_⟩
            have hdbl : q[qi + 1]? = some y := by rw [hla]; simp
            have : step q cap qi { σ with s := .inQuote, quoteChar := y, escape := false } y =
                .next { σ with s := .inQuote, quoteChar := y, escape := true } := by simp [step, hdbl]
            simp only [runSeg, this, hrun]
            simp; omega
          · rw [if_neg hy] at h
            simp only [Option.some.injEq] at h
            subst h
            have hne : ¬ (q[qi + 1]? = some x) := by
              rw [hla]; simp only [List.cons_append, List.head?_cons, Option.some.injEq]; exact hy
            exact ⟨[x], by simp, by simp [runSeg, hclose hne]⟩
    · simp only [ne_eq, hx, not_false_eq_true, if_true] at h
      have hx' : ¬ (x = c) := hx
      cases esc with
      | true =>
        simp only [if_true] at h
        obtain ⟨pre, hpre, hrun⟩ := ih false (qi + 1) rest' tail h hq1 htl
        refine ⟨x :: pre, by simp [hpre], ?_⟩
        have : step q cap qi { σ with s := .inQuote, quoteChar := c, escape := true } x =
            .next { σ with s := .inQuote, quoteChar := c, escape := false } := by simp [step, hx']
        simp only [runSeg, this, hrun]
        simp; omega
      | false =>
        simp only [Bool.false_eq_true, if_false] at h
        by_cases hb : x = '\\'
        · subst hb
          simp only [if_true] at h
          obtain ⟨pre, hpre, hrun⟩ := ih true (qi + 1) rest' tail h hq1 htl
          refine ⟨'\\' :: pre, by simp [hpre], ?_⟩
          have : step q cap qi { σ with s := .inQuote, quoteChar := c, escape := false } '\\' =
              .next { σ with s := .inQuote, quoteChar := c, escape := true } := by simp [step, hx']
          simp only [runSeg, this, hrun]
          simp; omega
        · simp only [hb, if_false] at h
          obtain ⟨pre, hpre, hrun⟩ := ih false (qi + 1) rest' tail h hq1 htl
          refine ⟨x :: pre, by simp [hpre], ?_⟩
          have : step q cap qi { σ with s := .inQuote, quoteChar := c, escape := false } x =
              .next { σ with s := .inQuote, quoteChar := c, escape := false } := by simp [step, hx', hb]
          simp only [runSeg, this, hrun]
          simp; omega

/-- Reading the content of a value list: the state stays inside the list and
    ends at depth 1 (the closing parenthesis comes next). -/
theorem list_scan_run (q : List Char) (cap : Nat) :
    ∀ (fuel : Nat) (d : Nat) (l : List Char) (σ : St) (qi : Nat) (tail : List Char), listScan fuel d l = true → 1 ≤ d →
      InList (d : Int) σ → q.drop qi = l ++ tail → tail.head? = some ')' →
      ∃ σ', runSeg q cap qi σ l = .next σ' ∧ InList 1 σ' ∧ ListFrame σ σ' := by
  intro fuel
  induction fuel with
  | zero => intro d l σ qi tail h; simp [listScan] at h
  | succ fuel ih =>
    intro d l σ qi tail h hd hin hdq htl
    cases l with
    | nil =>
      simp only [listScan, beq_iff_eq] at h
      subst h
      exact ⟨σ, by simp [runSeg], hin, ListFrame.refl σ⟩
    | cons c rest =>
      simp only [listScan] at h
      have hdq1 : q.drop (qi + 1) = rest ++ tail := drop_succ_of_drop (by simpa using hdq)
      by_cases hq : c = '\'' ∨ c = '"'
      · rw [if_pos hq] at h
        cases hsk : skipQuoted c false rest with
        | none => rw [hsk] at h; cases h
        | some rest' =>
          rw [hsk] at h
          simp only at h
          have h1 : step q cap qi σ c = .next { σ with s := .inQuote, quoteChar := c } := by
            simp [step, hin.hs, hq]
          have htlc : tail.head? ≠ some c := by
            rw [htl]; rcases hq with e | e <;> subst e <;> decide
          obtain ⟨pre, hpre, hrun⟩ := skip_quoted_run q cap σ c hin.hsql rest false (qi + 1) rest' tail hsk hdq1 htlc
          have hq2 : q.drop (qi + 1 + pre.length) = rest' ++ tail := by
            apply drop_after q (qi + 1) pre; rw [hdq1, hpre]; simp
          have hescσ : ({ σ with s := .inQuote, quoteChar := c } : St) =
              { σ with s := .inQuote, quoteChar := c, escape := false } := by
            have := hin.hesc; cases σ; simp_all
          let σ2 : St := { σ with s := .inValues, quoteChar := c, escape := false,
                                  cpFrom := ((qi + 1 + pre.length : Nat) : Int) }
          have hin2 : InList (d : Int) σ2 := ⟨rfl, hin.hsql, hin.hpo, rfl, hin.hpt⟩
          obtain ⟨σ', h3, hin3, hfr3⟩ := ih d rest' σ2 (qi + 1 + pre.length) tail h hd hin2 hq2 htl
          refine ⟨σ', ?_, hin3, ListFrame.trans ⟨rfl, rfl, rfl, rfl, rfl, rfl, rfl⟩ hfr3⟩
          simp only [runSeg, h1]
          rw [hpre, runSeg_append, hescσ, hrun]
          exact h3
      · rw [if_neg hq] at h
        have hq1 : c ≠ '\'' := fun e => hq (Or.inl e)
        have hq2 : c ≠ '"' := fun e => hq (Or.inr e)
        by_cases ho : c = '('
        · subst ho
          simp only [if_true] at h
          let σ2 : St := { σ with parOpen := σ.parOpen + 1 }
          have h1 : step q cap qi σ '(' = .next σ2 := by
            have hne : ¬ (σ.parOpen + 1 = 1) := by rw [hin.hpo]; omega
            have hgt : σ.parOpen + 1 > 0 := by rw [hin.hpo]; omega
            simp [step, hin.hs, isSpace, hne, hgt, σ2]
          have hin2 : InList ((d + 1 : Nat) : Int) σ2 :=
            ⟨hin.hs, hin.hsql, by simp [σ2, hin.hpo], hin.hesc, hin.hpt⟩
          obtain ⟨σ', h3, hin3, hfr3⟩ := ih (d + 1) rest σ2 (qi + 1) tail h (by omega) hin2 hdq1 htl
          exact ⟨σ', by simp only [runSeg, h1]; exact h3, hin3, ListFrame.trans ⟨rfl, rfl, rfl, rfl, rfl, rfl, rfl⟩ hfr3⟩
        · rw [if_neg ho] at h
          by_cases hcl : c = ')'
          · subst hcl
            simp only [if_true] at h
            by_cases hd1 : d ≤ 1
            · simp [hd1] at h
            · simp only [hd1, if_false] at h
              let σ2 : St := { σ with parOpen := σ.parOpen - 1, parOpenTotal := σ.parOpenTotal + 1 }
              have h1 : step q cap qi σ ')' = .next σ2 := by
                have hgt : σ.parOpen - 1 > 0 := by rw [hin.hpo]; omega
                have hgt2 : ¬ (σ.parOpen ≤ 1) := by rw [hin.hpo]; omega
                simp [step, hin.hs, isSpace, hgt, hgt2, σ2]
              have hin2 : InList ((d - 1 : Nat) : Int) σ2 :=
                ⟨hin.hs, hin.hsql, by simp [σ2, hin.hpo]; omega, hin.hesc, by have := hin.hpt; simp [σ2]; omega⟩
              obtain ⟨σ', h3, hin3, hfr3⟩ := ih (d - 1) rest σ2 (qi + 1) tail h (by omega) hin2 hdq1 htl
              exact ⟨σ', by simp only [runSeg, h1]; exact h3, hin3, ListFrame.trans ⟨rfl, rfl, rfl, rfl, rfl, rfl, rfl⟩ hfr3⟩
          · rw [if_neg hcl] at h
            have h1 : step q cap qi σ c = .next σ := by
              have hgt : σ.parOpen > 0 := by rw [hin.hpo]; omega
              by_cases hsp : isSpace c = true
              · simp [step, hin.hs, hq1, hq2, hsp, ho, hcl]
              · simp [step, hin.hs, hq1, hq2, hsp, ho, hcl, hgt]
            obtain ⟨σ', h3, hin3, hfr3⟩ := ih d rest σ (qi + 1) tail h hd hin hdq1 htl
            exact ⟨σ', by simp only [runSeg, h1]; exact h3, hin3, hfr3⟩

theorem valuesWord_cases (kw : List Char) (h : isValuesWord kw = true) :
    lower kw = kwValue ∨ lower kw = kwValues ∨ lower kw = kwIn := by
  simp only [isValuesWord, Bool.or_eq_true, decide_eq_true_eq] at h
  rcases h with (h | h) | h
  · exact Or.inl h
  · exact Or.inr (Or.inl h)
  · exact Or.inr (Or.inr h)

theorem valuesWord_not_special (l : List Char) (h : l = kwValue ∨ l = kwValues ∨ l = kwIn) :
    l ≠ kwUse ∧ l ≠ kwNull ∧ l ≠ kwNullComma ∧ l ≠ kwBy ∧ isAscWord l = false ∧ l ≠ kwUpdate ∧
      isValuesWord l = true := by
  rcases h with h | h | h <;> subst h <;> decide

/-- The white space after `in` / `values`: the keyword is copied and the
    machine waits for the list. -/
theorem step_kw_space (q : List Char) (cap : Nat) (qi0 qi : Int) (σb : St) (a g : Char) (kw : List Char)
    (hg : isSpace g = true) (ha : isSpace a = false) (haop : isOpChar a = false) (hgt : qi0 < qi)
    (hfrom : σb.cpFrom = qi0) (hslice : slice? q qi0 qi = some kw) (hkw : isValuesWord kw = true)
    (hdupe : σb.sqlState ≠ .onDupeKeyUpdate) (hcap : σb.f.length + kw.length ≤ cap) :
    step q cap qi (midWord σb a) g =
      .next { σb with prevWord := lower kw, f := σb.f ++ lower kw, cpFrom := qi, cpTo := qi, addSpace := false,
                      s := .inValues, sqlState := .inValues, pr := g } := by
  obtain ⟨h1, h2, h3, h4, h5, h6, h7⟩ := valuesWord_not_special (lower kw) (valuesWord_cases kw hkw)
  have hd : isDigit g = false := (isSpace_not_digit hg).1
  have hlw : (lower kw).length = kw.length := by simp [lower]
  have hp1 : pushAll cap σb.f (lower kw) = some (σb.f ++ lower kw) := by
    unfold pushAll; rw [if_pos (by rw [hlw]; omega)]
  have hmatch : step q cap qi (midWord σb a) g = wordEnd q cap qi (midWord σb a) g := by
    simp [step, part2, midWord, haop, hg, ha, hd]
  rw [hmatch]
  have hgt' : qi > qi0 := hgt
  simp only [wordEnd, midWord, hfrom, hslice]
  rw [if_neg (fun h => h1 h.1), if_neg (fun h => by rcases h with h | h; exact h2 h.1; exact h3 h),
    if_neg (fun h => h4 h.2), if_neg (fun h => by simp [h5] at h), if_neg (fun h => h6 h.2)]
  simp [part3, haop, hfrom, hgt', hslice, hp1, h7, hdupe]

theorem runSeg_ws_inValues (q : List Char) (cap : Nat) (σ : St) (hs : σ.s = .inValues) :
    ∀ (l : List Char) (qi : Nat), l.all isSpace = true → runSeg q cap qi σ l = .next σ := by
  intro l
  induction l with
  | nil => intro qi _; simp [runSeg]
  | cons c rest ih =>
    intro qi h
    simp only [List.all_cons, Bool.and_eq_true] at h
    obtain ⟨_, _, _, hq1, hq2, _⟩ := isSpace_not_digit h.1
    have hp : c ≠ ')' ∧ c ≠ '(' := by
      rcases isSpace_cases h.1 with e | e | e | e | e | e <;> subst e <;> decide
    have : step q cap qi σ c = .next σ := by simp [step, hs, hq1, hq2, hp.1, hp.2, h.1]
    simp only [runSeg, this]
    exact ih (qi + 1) h.2

theorem step_open_inValues (q : List Char) (cap : Nat) (qi : Int) (σ : St) (hs : σ.s = .inValues)
    (hpo : σ.parOpen = 0) :
    step q cap qi σ '(' = .next { σ with parOpen := 1, firstPar := qi } := by
  simp [step, hs, isSpace, hpo]

/-- `in(`: the parenthesis directly after the keyword. -/
theorem step_kw_paren (q : List Char) (cap : Nat) (qi0 qi : Int) (σb : St) (a : Char) (kw : List Char)
    (haop : isOpChar a = false) (hgt : qi0 < qi)
    (hfrom : σb.cpFrom = qi0) (hslice : slice? q qi0 qi = some kw) (hkw : isValuesWord kw = true)
    (hcall : σb.prevWord ≠ kwCall) (hvn : σb.valueNo = 0)
    (hdupe : σb.sqlState ≠ .onDupeKeyUpdate) (hcap : σb.f.length + kw.length ≤ cap) :
    step q cap qi (midWord σb a) '(' =
      .next { σb with prevWord := lower kw, f := σb.f ++ lower kw, cpFrom := qi, cpTo := qi, addSpace := false,
                      s := .inValues, sqlState := .inValues, parOpen := 1, firstPar := qi, pr := '(' } := by
  obtain ⟨_, _, _, _, _, _, h7⟩ := valuesWord_not_special (lower kw) (valuesWord_cases kw hkw)
  have hlw : (lower kw).length = kw.length := by simp [lower]
  have hp1 : pushAll cap σb.f (lower kw) = some (σb.f ++ lower kw) := by
    unfold pushAll; rw [if_pos (by rw [hlw]; omega)]
  have hgt' : qi > qi0 := hgt
  simp [step, midWord, haop, isSpace, part2, isDigit, hcall, hdupe, hfrom, hslice, hkw, hvn, part3, hgt', hp1, h7]

/-- Reading a whole word (without the character that ends it). -/
theorem word_prefix (q : List Char) (cap : Nat) (qi : Nat) (σ : St) (w tail : List Char)
    (hc : Ready d qi σ) (hq : q.drop qi = w ++ tail) (hshape : wordShape w = true)
    (hcallAll : '(' ∈ w → σ.prevWord ≠ kwCall) :
    ∃ σb a, runSeg q cap qi σ w = .next (midWord σb a) ∧ w.getLast? = some a ∧ wordBad a = false ∧
      σb.cpFrom = (qi : Int) ∧ σb.cpTo ≤ (qi : Int) ∧ σb.prevWord = σ.prevWord ∧ σb.f = σ.f ∧
      σb.escape = σ.escape ∧ σb.sqlState = σ.sqlState ∧ σb.addSpace = σ.addSpace ∧
      σb.parOpen = σ.parOpen ∧ σb.parOpenTotal = σ.parOpenTotal ∧
      (∀ k, k ≤ w.length → slice? q qi ((qi + k : Nat) : Int) = some (w.take k)) ∧
      (∃ c rest, w = c :: rest ∧ σb = baseWord σ qi c) := by
  cases w with
  | nil => simp [wordShape] at hshape
  | cons c rest =>
    simp only [wordShape, Bool.and_eq_true] at hshape
    obtain ⟨⟨hfirst, hchain⟩, hpar⟩ := hshape
    have hlt : qi < q.length := lt_length_of_drop (by simpa using hq)
    have h1 := step_first q cap qi σ c hc (by omega) hfirst (fun h => hcallAll (by simp [h]))
    let σb := baseWord σ qi c
    have hbfrom : σb.cpFrom = (qi : Int) := by
      simp only [σb, baseWord]; split <;> rfl
    have hbto : σb.cpTo ≤ (qi : Int) := by
      have : σb.cpTo = σ.cpTo := by simp only [σb, baseWord]; split <;> rfl
      rw [this]; exact hc.hto
    have hbprev : σb.prevWord = σ.prevWord := by simp only [σb, baseWord]; split <;> rfl
    have hbf : σb.f = σ.f := by simp only [σb, baseWord]; split <;> rfl
    have hbesc : σb.escape = σ.escape := by simp only [σb, baseWord]; split <;> rfl
    have hbsql : σb.sqlState = σ.sqlState := by simp only [σb, baseWord]; split <;> rfl
    have hbadd : σb.addSpace = σ.addSpace := by simp only [σb, baseWord]; split <;> rfl
    have hbpo : σb.parOpen = σ.parOpen := by simp only [σb, baseWord]; split <;> rfl
    have hbpt : σb.parOpenTotal = σ.parOpenTotal := by simp only [σb, baseWord]; split <;> rfl
    have hsl : ∀ k, k ≤ (c :: rest).length →
        slice? q qi ((qi + k : Nat) : Int) = some ((c :: rest).take k) := by
      intro k hk
      exact slice_of_drop q (c :: rest) tail qi k hq (by omega) hk
    have h2 := runSeg_mid q cap σb qi (c :: rest) hbfrom hbto (by rw [hbprev]; exact hcallAll) hsl hpar
      rest [] c rfl hchain
    simp only [List.length_nil, Nat.add_zero] at h2
    have hlastBad : wordBad ((c :: rest).getLast (by simp)) = false := by
      rcases List.mem_cons.mp (List.getLast_mem (l := c :: rest) (by simp)) with h | h
      · rw [h]
        simp only [okFirst, Bool.and_eq_true, Bool.not_eq_true'] at hfirst
        exact hfirst.1.1
      · exact chainOK_notBad c rest hchain _ h
    refine ⟨σb, (c :: rest).getLast (by simp), ?_, ?_, hlastBad, hbfrom, hbto, hbprev, hbf, hbesc, hbsql, hbadd, hbpo, hbpt, hsl, ⟨c, rest, rfl, rfl⟩⟩
    · simp only [runSeg, h1]; exact h2
    · exact List.getLast?_eq_some_getLast (by simp)

/-- The parenthesis that closes the list: `(?+)` (or `()`) is written. -/
theorem step_close_list (q : List Char) (cap : Nat) (qOpen n : Nat) (σ : St)
    (hin : InList 1 σ) (hvn : σ.valueNo = 0) (hfp : σ.firstPar = (qOpen : Int))
    (hcap : σ.f.length + 4 ≤ cap) :
    step q cap ((qOpen + 1 + n : Nat) : Int) σ ')' =
      .next { σ with parOpen := 0, parOpenTotal := 0, valueNo := 1,
                     f := σ.f ++ (if n = 0 then ['(', ')'] else ['(', '?', '+', ')']), firstPar := 0,
                     s := .moreValuesOrUnknown, pr := ')', cpFrom := ((qOpen + 1 + n : Nat) : Int) + 1 } := by
  have hpt : ¬ (σ.parOpenTotal + 1 = 0) := by have := hin.hpt; omega
  by_cases hn : n = 0
  · subst hn
    have hp : pushAll cap σ.f ['(', ')'] = some (σ.f ++ ['(', ')']) := by
      unfold pushAll; rw [if_pos (by simp; omega)]
    have hle : ¬ (1 < (qOpen : Int) + 1 - (qOpen : Int)) := by omega
    simp [step, hin.hs, hin.hpo, hpt, hvn, hfp, hp, hle]
  · have hp : pushAll cap σ.f ['(', '?', '+', ')'] = some (σ.f ++ ['(', '?', '+', ')']) := by
      unfold pushAll; rw [if_pos (by simp; omega)]
    have hgt : (qOpen : Int) + 1 + (n : Int) - (qOpen : Int) > 1 := by omega
    simp [step, hin.hs, hin.hpo, hpt, hvn, hfp, hp, hn, hgt]

/-- `kw gap (`: the state right after the opening parenthesis of the list. -/
theorem vlist_open (q : List Char) (cap : Nat) (qi : Nat) (σ : St) (kw gap tail : List Char)
    (hc : Ready false qi σ) (hq : q.drop qi = kw ++ (gap ++ '(' :: tail)) (hcap : 2 * q.length < cap)
    (hkwShape : wordShape kw = true) (hkw : isValuesWord kw = true)
    (hplain : kw.all (fun c => !isOpChar c && c ≠ '(') = true) (hgap : gap.all isSpace = true)
    (hcall : σ.prevWord ≠ kwCall) :
    ∃ σL, runSeg q cap qi σ (kw ++ gap ++ ['(']) = .next σL ∧ InList 1 σL ∧ σL.valueNo = 0 ∧
      σL.firstPar = ((qi + kw.length + gap.length : Nat) : Int) ∧ σL.prevWord = lower kw ∧
      σL.f = σ.f ++ lower kw ∧ σL.cpTo ≤ ((qi + kw.length + gap.length : Nat) : Int) ∧ σL.addSpace = false := by
  obtain ⟨σb, a, h1, hlast, hbad, hbfrom, hbto, hbprev, hbf, hbesc, hbsql, hbadd, hbpo, hbpt, hsl, ⟨c, rest, hw, hσb⟩⟩ :=
    word_prefix q cap qi σ kw _ hc hq hkwShape (fun _ => hcall)
  have hqlen : qi + kw.length + gap.length + 1 ≤ q.length := by
    have := congrArg List.length hq
    simp at this; omega
  have hwpos : 0 < kw.length := by rw [hw]; simp
  have hamem : a ∈ kw := by
    cases hk : kw.getLast? with
    | none => rw [hk] at hlast; cases hlast
    | some x =>
      rw [hk] at hlast; cases hlast
      exact List.mem_of_getLast? hk
  have hap := List.all_eq_true.mp hplain a hamem
  simp only [Bool.and_eq_true, Bool.not_eq_true', decide_eq_true_eq] at hap
  have hc0 := List.all_eq_true.mp hplain c (by rw [hw]; simp)
  simp only [Bool.and_eq_true, Bool.not_eq_true', decide_eq_true_eq] at hc0
  have hbvn : σb.valueNo = 0 := by rw [hσb]; simp [baseWord, hc0.1]
  have hsw := hsl kw.length (Nat.le_refl _)
  rw [List.take_length] at hsw
  have hdupe : σb.sqlState ≠ .onDupeKeyUpdate := by rw [hbsql]; exact hc.hdupe rfl
  have hlw : (lower kw).length = kw.length := by simp [lower]
  have hcapk : σb.f.length + kw.length ≤ cap := by rw [hbf]; have := hc.hlen; omega
  cases gap with
  | nil =>
    have h2 := step_kw_paren q cap qi ((qi + kw.length : Nat) : Int) σb a kw hap.1 (by omega) hbfrom hsw hkw
      (by rw [hbprev]; exact hcall) hbvn hdupe hcapk
    refine ⟨{ σb with prevWord := lower kw, f := σb.f ++ lower kw, cpFrom := ((qi + kw.length : Nat) : Int),
                      cpTo := ((qi + kw.length : Nat) : Int), addSpace := false, s := .inValues,
                      sqlState := .inValues, parOpen := 1, firstPar := ((qi + kw.length : Nat) : Int), pr := '(' },
      ?_, ?_, ?_, ?_, ?_, ?_, ?_, ?_⟩
    · simp only [List.append_nil]
      rw [runSeg_append, h1]
      simp only [runSeg, h2]
    · exact ⟨rfl, rfl, rfl, by rw [hbesc]; exact hc.hesc, by show (0 : Int) ≤ σb.parOpenTotal; rw [hbpt, hc.hpt]; omega⟩
    · exact hbvn
    · simp
    · rfl
    · show σb.f ++ lower kw = _; rw [hbf]
    · simp
    · rfl
  | cons g gs =>
    simp only [List.all_cons, Bool.and_eq_true] at hgap
    have h2 := step_kw_space q cap qi ((qi + kw.length : Nat) : Int) σb a g kw hgap.1 (isSpace_of_not_bad hbad) hap.1
      (by omega) hbfrom hsw hkw hdupe hcapk
    let σ2 : St := { σb with prevWord := lower kw, f := σb.f ++ lower kw, cpFrom := ((qi + kw.length : Nat) : Int),
                             cpTo := ((qi + kw.length : Nat) : Int), addSpace := false, s := .inValues,
                             sqlState := .inValues, pr := g }
    have h3 := runSeg_ws_inValues q cap σ2 rfl gs (qi + kw.length + 1) hgap.2
    have h4 := step_open_inValues q cap ((qi + kw.length + 1 + gs.length : Nat) : Int) σ2 rfl
      (by show σb.parOpen = 0; rw [hbpo]; exact hc.hpo)
    refine ⟨{ σ2 with parOpen := 1, firstPar := ((qi + kw.length + 1 + gs.length : Nat) : Int) }, ?_, ?_, ?_, ?_, ?_, ?_, ?_, ?_⟩
    · have e : kw ++ g :: gs ++ ['('] = kw ++ (g :: (gs ++ ['('])) := by simp
      rw [e, runSeg_append, h1]
      simp only [runSeg, h2]
      rw [runSeg_append, h3]
      simp only [runSeg, h4]
    · exact ⟨rfl, rfl, rfl, by show σb.escape = false; rw [hbesc]; exact hc.hesc,
        by show (0 : Int) ≤ σb.parOpenTotal; rw [hbpt, hc.hpt]; omega⟩
    · exact hbvn
    · show ((qi + kw.length + 1 + gs.length : Nat) : Int) = ((qi + kw.length + (g :: gs).length : Nat) : Int)
      simp; omega
    · rfl
    · show σb.f ++ lower kw = _; rw [hbf]
    · show ((qi + kw.length : Nat) : Int) ≤ ((qi + kw.length + (g :: gs).length : Nat) : Int)
      simp; omega
    · rfl

/-- The state after a row `( … )` of a value list: `F` is the fingerprint up
    to and including `(?+)`; a blank has been written after it iff white space
    has been read since. -/
structure Between (qi : Nat) (σ : St) (F : List Char) : Prop where
  hs : σ.s = .moreValuesOrUnknown
  hto : σ.cpTo ≤ σ.cpFrom
  hfromle : σ.cpFrom ≤ qi
  hesc : σ.escape = false
  hsql : σ.sqlState = .inValues
  hvn : 1 ≤ σ.valueNo
  hlen : F.length + 1 ≤ 2 * qi
  hpo : σ.parOpen = 0
  hpt : σ.parOpenTotal = 0
  hadd : σ.addSpace = false
  hpw : σ.prevWord = kwValue ∨ σ.prevWord = kwValues ∨ σ.prevWord = kwIn
  hf : (σ.f = F ∧ isSpace σ.pr = false) ∨ σ.f = F ++ [' ']
  hF : ∃ g, F = g ++ [')']

/-- White space after a row: one blank after `(?+)`, however much there is. -/
theorem between_ws (q : List Char) (cap : Nat) (qi : Nat) (σ : St) (F : List Char) (r : Char)
    (hb : Between qi σ F) (hr : isSpace r = true) (hcap : 2 * qi < cap) :
    ∃ σ', step q cap qi σ r = .next σ' ∧ Between (qi + 1) σ' F ∧ σ'.f = F ++ [' '] ∧ isSpace σ'.pr = true ∧
      σ'.prevWord = σ.prevWord := by
  obtain ⟨g, hg⟩ := hb.hF
  have hd := (isSpace_not_digit hr).1
  have hnlt : ¬ σ.cpTo > σ.cpFrom := Int.not_lt.mpr hb.hto
  by_cases hp : isSpace σ.pr = true
  · have hf : σ.f = F ++ [' '] := by
      rcases hb.hf with h | h
      · rw [h.2] at hp; cases hp
      · exact h
    refine ⟨{ σ with cpFrom := (qi : Int) + 1, pr := r }, by simp [step, hb.hs, hr, hp], ?_, hf, hr, rfl⟩
    exact { hs := hb.hs, hto := by have := hb.hto; have := hb.hfromle; simp; omega, hfromle := by simp,
            hesc := hb.hesc, hsql := hb.hsql, hvn := hb.hvn, hlen := by have := hb.hlen; omega, hpo := hb.hpo,
            hpt := hb.hpt, hadd := hb.hadd, hpw := hb.hpw, hf := Or.inr hf, hF := hb.hF }
  · have hp' : isSpace σ.pr = false := by simpa using hp
    rcases hb.hf with h | h
    · have hpush : push cap σ.f ' ' = some (σ.f ++ [' ']) := by
        unfold push; rw [if_pos (by rw [h.1]; have := hb.hlen; omega)]
      have hlastns : (σ.f.getLast?.map isSpace) ≠ some true := by
        rw [h.1, hg]; simp; decide
      have hpos : σ.f.length > 0 := by rw [h.1, hg]; simp
      refine ⟨{ σ with f := σ.f ++ [' '], pr := r }, ?_, ?_, by simp [h.1], hr, rfl⟩
      · simp [step, hb.hs, hr, hp', part2, hd, hpos, hlastns, hpush, part3, hnlt]
      · exact { hs := hb.hs, hto := hb.hto, hfromle := by have := hb.hfromle; show σ.cpFrom ≤ _; omega,
                hesc := hb.hesc, hsql := hb.hsql, hvn := hb.hvn, hlen := by have := hb.hlen; omega, hpo := hb.hpo,
                hpt := hb.hpt, hadd := hb.hadd, hpw := hb.hpw, hf := Or.inr (by simp [h.1]), hF := hb.hF }
    · have hlasts : (σ.f.getLast?.map isSpace) = some true := by
        rw [h]; simp; decide
      refine ⟨{ σ with pr := r }, ?_, ?_, h, hr, rfl⟩
      · simp [step, hb.hs, hr, hp', part2, hd, hlasts, part3, hnlt]
      · exact { hs := hb.hs, hto := hb.hto, hfromle := by have := hb.hfromle; show σ.cpFrom ≤ _; omega,
                hesc := hb.hesc, hsql := hb.hsql, hvn := hb.hvn, hlen := by have := hb.hlen; omega, hpo := hb.hpo,
                hpt := hb.hpt, hadd := hb.hadd, hpw := hb.hpw, hf := Or.inr h, hF := hb.hF }

/-- A (possibly empty) run of white space after a row. -/
theorem between_ws_run (q : List Char) (cap : Nat) (hcap : 2 * q.length < cap) :
    ∀ (ws : List Char) (qi : Nat) (σ : St) (F : List Char), Between qi σ F → ws.all isSpace = true →
      qi + ws.length ≤ q.length →
      ∃ σ', runSeg q cap qi σ ws = .next σ' ∧ Between (qi + ws.length) σ' F ∧ σ'.prevWord = σ.prevWord ∧
        (ws ≠ [] → σ'.f = F ++ [' '] ∧ isSpace σ'.pr = true) ∧ (ws = [] → σ' = σ) := by
  intro ws
  induction ws with
  | nil => intro qi σ F hb _ _; exact ⟨σ, by simp [runSeg], by simpa using hb, rfl, by simp, fun _ => rfl⟩
  | cons c rest ih =>
    intro qi σ F hb hok hl
    simp only [List.all_cons, Bool.and_eq_true] at hok
    simp only [List.length_cons] at hl
    obtain ⟨σ1, h1, hb1, hf1, hp1, hw1⟩ := between_ws q cap qi σ F c hb hok.1 (by omega)
    obtain ⟨σ2, h2, hb2, hw2, hne2, he2⟩ := ih (qi + 1) σ1 F hb1 hok.2 (by omega)
    refine ⟨σ2, by simp only [runSeg, h1]; exact h2, ?_, by rw [hw2, hw1], ?_, by simp⟩
    · have e : qi + (c :: rest).length = qi + 1 + rest.length := by simp; omega
      rw [e]; exact hb2
    · intro _
      cases rest with
      | nil => rw [he2 rfl]; exact ⟨hf1, hp1⟩
      | cons _ _ => exact hne2 (by simp)

/-- The comma between two rows. -/
theorem between_comma (q : List Char) (cap : Nat) (qi : Nat) (σ : St) (F : List Char) (hb : Between qi σ F) :
    step q cap qi σ ',' = .next { σ with pr := ',' } ∧ Between (qi + 1) { σ with pr := ',' } F := by
  have hnlt : ¬ σ.cpTo > σ.cpFrom := Int.not_lt.mpr hb.hto
  refine ⟨by simp [step, hb.hs, isSpace, part2, isDigit, part3, hnlt], ?_⟩
  exact { hs := hb.hs, hto := hb.hto, hfromle := by have := hb.hfromle; show σ.cpFrom ≤ _; omega,
          hesc := hb.hesc, hsql := hb.hsql, hvn := hb.hvn, hlen := by have := hb.hlen; omega, hpo := hb.hpo,
          hpt := hb.hpt, hadd := hb.hadd, hpw := hb.hpw,
          hf := by
            rcases hb.hf with h | h
            · left; exact ⟨h.1, (by decide : isSpace ',' = false)⟩
            · right; exact h
          hF := hb.hF }

/-- The parenthesis that opens a further row. -/
theorem between_open (q : List Char) (cap : Nat) (qi : Nat) (σ : St) (F : List Char) (hb : Between qi σ F) :
    step q cap qi σ '(' =
      .next { σ with s := .inValues, sqlState := .inValues, parOpen := 1, firstPar := (qi : Int), pr := '(' } := by
  have hnlt : ¬ σ.cpTo > σ.cpFrom := Int.not_lt.mpr hb.hto
  have hcall : σ.prevWord ≠ kwCall := by
    rcases hb.hpw with h | h | h <;> rw [h] <;> decide
  have hvn : ¬ (σ.valueNo = 0) := by have := hb.hvn; omega
  have hsq : σ.sqlState ≠ .onDupeKeyUpdate := by rw [hb.hsql]; decide
  simp [step, hb.hs, isSpace, part2, isDigit, hcall, hsq, hb.hpw, hvn, part3, hnlt]

/-- The parenthesis that closes a further row: nothing is written. -/
theorem step_close_row (q : List Char) (cap : Nat) (qi : Int) (σ : St)
    (hin : InList 1 σ) (hvn : 1 ≤ σ.valueNo) :
    step q cap qi σ ')' =
      .next { σ with parOpen := 0, parOpenTotal := 0, valueNo := σ.valueNo + 1,
                     s := .moreValuesOrUnknown, pr := ')', cpFrom := qi + 1 } := by
  have hpt : ¬ (σ.parOpenTotal + 1 = 0) := by have := hin.hpt; omega
  have hv : ¬ (σ.valueNo + 1 = 1) := by omega
  simp [step, hin.hs, hin.hpo, hpt, hv]

/-- The text of a gap that holds white space only. -/
theorem gapText_ws' : ∀ (g : Gap), gapOK g = true → gapIsWs g = true → (gapText g).all isSpace = true := by
  intro g
  induction g with
  | nil => intro _ _; rfl
  | cons p rest ih =>
    intro hok hws
    simp only [gapOK, gapIsWs, List.all_cons, Bool.and_eq_true] at hok hws
    cases p with
    | ws c =>
      simp only [gapText, List.flatMap_cons, SepPiece.text, List.cons_append, List.nil_append, List.all_cons,
        Bool.and_eq_true]
      exact ⟨by simpa [SepPiece.ok] using hok.1, ih hok.2 hws.2⟩
    | mlc b => simp [SepPiece.isWs] at hws
    | dash c b => simp [SepPiece.isWs] at hws
    | hash b => simp [SepPiece.isWs] at hws

theorem gapText_ws (g : Gap) (h : wsGap g = true) : (gapText g).all isSpace = true := by
  simp only [wsGap, Bool.and_eq_true] at h
  exact gapText_ws' g h.1 h.2

/-- **A further row** `, ( … )` of a value list: nothing is written but the
    blank that separates the list from what follows. -/
theorem row_run (q : List Char) (cap : Nat) (hcap : 2 * q.length < cap) (qi : Nat) (σ : St) (F : List Char)
    (r : Row) (tail : List Char) (hb : Between qi σ F) (hr : r.core = true)
    (hq : q.drop qi = r.text ++ tail) :
    ∃ σ', runSeg q cap qi σ r.text = .next σ' ∧ Between (qi + r.text.length) σ' F ∧ σ'.prevWord = σ.prevWord ∧
      σ'.pr = ')' := by
  simp only [Row.core, Bool.and_eq_true] at hr
  obtain ⟨⟨hw1, hw2⟩, hcontent⟩ := hr
  have hws1 := gapText_ws r.g1 hw1
  have hws2 := gapText_ws r.g2 hw2
  generalize hg1 : gapText r.g1 = ws1 at *
  generalize hg2 : gapText r.g2 = ws2 at *
  have htext : r.text = ws1 ++ ',' :: (ws2 ++ '(' :: (r.content ++ [')'])) := by simp [Row.text, hg1, hg2]
  rw [htext] at hq ⊢
  have hqlen : qi + ws1.length + 1 + ws2.length + 1 + r.content.length + 1 ≤ q.length := by
    have := congrArg List.length hq
    simp at this; omega
  -- white space, comma, white space
  obtain ⟨σ1, h1, hb1, hp1, _, _⟩ := between_ws_run q cap hcap ws1 qi σ F hb hws1 (by omega)
  obtain ⟨h2, hb2⟩ := between_comma q cap (qi + ws1.length) σ1 F hb1
  obtain ⟨σ3, h3, hb3, hp3, _, _⟩ := between_ws_run q cap hcap ws2 (qi + ws1.length + 1) _ F hb2 hws2 (by omega)
  have hp3' : σ3.prevWord = σ.prevWord := by rw [hp3]; exact hp1
  -- the parenthesis and the content
  obtain ⟨qo, hqo⟩ : ∃ n : Nat, n = qi + ws1.length + 1 + ws2.length := ⟨_, rfl⟩
  rw [← hqo] at hb3
  have h4 := between_open q cap qo σ3 F hb3
  let σ4 : St := { σ3 with s := .inValues, sqlState := .inValues, parOpen := 1, firstPar := (qo : Int), pr := '(' }
  have hin4 : InList 1 σ4 := ⟨rfl, rfl, rfl, hb3.hesc, by show (0 : Int) ≤ σ3.parOpenTotal; rw [hb3.hpt]; omega⟩
  have hq5 : q.drop (qo + 1) = r.content ++ (')' :: tail) := by
    have e : qo + 1 = qi + (ws1 ++ ',' :: (ws2 ++ ['('])).length := by simp; omega
    rw [e]
    apply drop_after q qi
    rw [hq]; simp
  obtain ⟨σ5, h5, hin5, hfr5⟩ := list_scan_run q cap (r.content.length + 1) 1 r.content σ4 (qo + 1) (')' :: tail) hcontent
    (Nat.le_refl _) hin4 hq5 rfl
  obtain ⟨hfr_pw, hfr_f, hfr_vn, hfr_fp, hfr_to, hfr_add, hfr_pr⟩ := hfr5
  have h6 := step_close_row q cap ((qo + 1 + r.content.length : Nat) : Int) σ5 hin5 (by rw [hfr_vn]; exact hb3.hvn)
  refine ⟨{ σ5 with parOpen := 0, parOpenTotal := 0, valueNo := σ5.valueNo + 1,
                    s := .moreValuesOrUnknown, pr := ')', cpFrom := ((qo + 1 + r.content.length : Nat) : Int) + 1 },
    ?_, ?_, ?_, rfl⟩
  · rw [runSeg_append, h1]
    simp only [runSeg, h2]
    rw [runSeg_append, h3]
    have e1 : qi + ws1.length + 1 + ws2.length = qo := by omega
    rw [e1]
    simp only [runSeg, h4]
    rw [runSeg_append, h5]
    simp only [runSeg, h6]
  · have e : qi + (ws1 ++ ',' :: (ws2 ++ '(' :: (r.content ++ [')']))).length = qo + 1 + r.content.length + 1 := by
      simp; omega
    rw [e]
    exact { hs := rfl
            hto := by
              show σ5.cpTo ≤ ((qo + 1 + r.content.length : Nat) : Int) + 1
              rw [hfr_to]; have := hb3.hto; have := hb3.hfromle; show σ3.cpTo ≤ _; omega
            hfromle := by simp
            hesc := hin5.hesc, hsql := hin5.hsql
            hvn := by show 1 ≤ σ5.valueNo + 1; rw [hfr_vn]; have := hb3.hvn; show 1 ≤ σ3.valueNo + 1; omega
            hlen := by have := hb3.hlen; omega
            hpo := rfl, hpt := rfl
            hadd := by show σ5.addSpace = false; rw [hfr_add]; exact hb3.hadd
            hpw := by show σ5.prevWord = _ ∨ _; rw [hfr_pw]; exact hb3.hpw
            hf := by
              show (σ5.f = F ∧ isSpace ')' = false) ∨ σ5.f = F ++ [' ']
              rw [hfr_f]
              rcases hb3.hf with h | h
              · left; exact ⟨h.1, by decide⟩
              · right; exact h
            hF := hb.hF }
  · show σ5.prevWord = _
    rw [hfr_pw]; exact hp3'

/-- Further rows of a value list. -/
theorem rows_run (q : List Char) (cap : Nat) (hcap : 2 * q.length < cap) :
    ∀ (rows : List Row) (qi : Nat) (σ : St) (F : List Char) (tail : List Char), Between qi σ F → σ.pr = ')' →
      rows.all Row.core = true → q.drop qi = rows.flatMap Row.text ++ tail →
      ∃ σ', runSeg q cap qi σ (rows.flatMap Row.text) = .next σ' ∧
        Between (qi + (rows.flatMap Row.text).length) σ' F ∧ σ'.prevWord = σ.prevWord ∧ σ'.pr = ')' ∧
        (rows = [] → σ' = σ) := by
  intro rows
  induction rows with
  | nil => intro qi σ F tail hb hp _ _; exact ⟨σ, by simp [runSeg], by simpa using hb, rfl, hp, fun _ => rfl⟩
  | cons r rest ih =>
    intro qi σ F tail hb hp hcore hq
    simp only [List.all_cons, Bool.and_eq_true] at hcore
    have hq1 : q.drop qi = r.text ++ (rest.flatMap Row.text ++ tail) := by simpa using hq
    obtain ⟨σ1, h1, hb1, hw1, hp1⟩ := row_run q cap hcap qi σ F r _ hb hcore.1 hq1
    obtain ⟨σ2, h2, hb2, hw2, hp2, _⟩ := ih (qi + r.text.length) σ1 F tail hb1 hp1 hcore.2 (drop_after q qi _ _ hq1)
    refine ⟨σ2, ?_, ?_, by rw [hw2, hw1], hp2, by simp⟩
    · simp only [List.flatMap_cons]
      exact runSeg_trans q cap _ _ qi σ σ1 σ2 h1 h2
    · simpa [List.flatMap_cons, Nat.add_assoc] using hb2

/-- **Value lists**: `in (1, 'a')`, `values(f(b), ")"), (2, 3)`.  From a
    ready state the keyword and the parenthesised rows contribute `in(?+)`
    (`in()` for an empty first row). -/
theorem vlist_run (q : List Char) (cap : Nat) (hcap : 2 * q.length < cap) (qi : Nat) (σ : St)
    (kw : List Char) (gap : Gap) (content : List Char) (rows : List Row) (tail : List Char) (hc : Ready false qi σ)
    (hq : q.drop qi = (Item.vlist kw gap content rows).text ++ tail)
    (hcore : (Item.vlist kw gap content rows).core = true) (hcall : σ.prevWord ≠ kwCall) :
    ∃ σ', runSeg q cap qi σ (Item.vlist kw gap content rows).text = .next σ' ∧
      Between (qi + (Item.vlist kw gap content rows).text.length) σ' (σ.f ++ (Item.vlist kw gap content rows).norm) ∧
      σ'.prevWord = lower kw ∧ σ'.pr = ')' ∧
      (rows = [] → σ'.f = σ.f ++ (Item.vlist kw gap content rows).norm) := by
  simp only [Item.core, Bool.and_eq_true, kwShape] at hcore
  obtain ⟨⟨⟨⟨⟨hkwShape, hkw⟩, hplain⟩, hgapw⟩, hcontent⟩, hrows⟩ := hcore
  have hgap := gapText_ws gap hgapw
  generalize hgt : gapText gap = ws at *
  have htext : (Item.vlist kw gap content rows).text =
      (kw ++ ws ++ ['(']) ++ (content ++ (')' :: rows.flatMap Row.text)) := by simp [Item.text, hgt]
  rw [htext] at hq ⊢
  have hq1 : q.drop qi = kw ++ (ws ++ '(' :: (content ++ ')' :: (rows.flatMap Row.text ++ tail))) := by
    simpa using hq
  obtain ⟨σL, h1, hinL, hvnL, hfpL, hpwL, hfL, htoL, haddL⟩ :=
    vlist_open q cap qi σ kw ws _ hc hq1 hcap hkwShape hkw hplain hgap hcall
  have hqlen : qi + kw.length + ws.length + 1 + content.length + 1 ≤ q.length := by
    have := congrArg List.length hq
    simp at this; omega
  obtain ⟨qOpen, hqOpen⟩ : ∃ n : Nat, n = qi + kw.length + ws.length := ⟨_, rfl⟩
  rw [← hqOpen] at hfpL htoL
  have hq2 : q.drop (qOpen + 1) = content ++ (')' :: (rows.flatMap Row.text ++ tail)) := by
    have e : qOpen + 1 = qi + (kw ++ ws ++ ['(']).length := by simp; omega
    rw [e]; apply drop_after q qi; rw [hq]; simp
  obtain ⟨σ2, h2, hin2, hfr2⟩ := list_scan_run q cap (content.length + 1) 1 content σL (qOpen + 1) _ hcontent
    (Nat.le_refl _) hinL hq2 rfl
  obtain ⟨hfr_pw, hfr_f, hfr_vn, hfr_fp, hfr_to, hfr_add, hfr_pr⟩ := hfr2
  have hlw : (lower kw).length = kw.length := by simp [lower]
  have hflen : σ2.f.length = σ.f.length + kw.length := by rw [hfr_f, hfL]; simp [hlw]
  have hlen0 := hc.hlen
  have hkwpos : 2 ≤ kw.length := by
    rcases valuesWord_cases kw hkw with h | h | h <;>
      · have := congrArg List.length h; simp [lower] at this; rw [this]; decide
  have h3 := step_close_list q cap qOpen content.length σ2 hin2 (by rw [hfr_vn]; exact hvnL)
    (by rw [hfr_fp]; exact hfpL) (by rw [hflen]; omega)
  obtain ⟨mark, hmarkdef⟩ : ∃ m : List Char, m = (if content.length = 0 then ['(', ')'] else ['(', '?', '+', ')']) :=
    ⟨_, rfl⟩
  rw [← hmarkdef] at h3
  have hmarklen : mark.length ≤ 4 := by rw [hmarkdef]; split <;> simp
  have hmark2 : content.length = 0 → mark.length = 2 := by intro h; rw [hmarkdef]; simp [h]
  have hmarklast : ∃ g, mark = g ++ [')'] := by
    rw [hmarkdef]; split
    · exact ⟨['('], rfl⟩
    · exact ⟨['(', '?', '+'], rfl⟩
  have hnorm : (Item.vlist kw gap content rows).norm = lower kw ++ mark := by
    rw [hmarkdef]; simp only [Item.norm]; cases content <;> simp
  let σ3 : St := { σ2 with parOpen := 0, parOpenTotal := 0, valueNo := 1, f := σ2.f ++ mark, firstPar := 0,
                           s := .moreValuesOrUnknown, pr := ')', cpFrom := ((qOpen + 1 + content.length : Nat) : Int) + 1 }
  have hf3 : σ3.f = σ.f ++ (Item.vlist kw gap content rows).norm := by
    show σ2.f ++ mark = _
    rw [hfr_f, hfL, hnorm]; simp
  have hb3 : Between (qOpen + 1 + content.length + 1) σ3 (σ.f ++ (Item.vlist kw gap content rows).norm) :=
    { hs := rfl
      hto := by show σ2.cpTo ≤ ((qOpen + 1 + content.length : Nat) : Int) + 1; rw [hfr_to]; omega
      hfromle := by simp [σ3]
      hesc := hin2.hesc, hsql := hin2.hsql, hvn := by simp [σ3]
      hlen := by
        rw [hnorm]; simp only [List.length_append, hlw]
        by_cases hcz : content.length = 0
        · have := hmark2 hcz; omega
        · omega
      hpo := rfl, hpt := rfl
      hadd := by show σ2.addSpace = false; rw [hfr_add]; exact haddL
      hpw := by
        show σ2.prevWord = _ ∨ _
        rw [hfr_pw, hpwL]; exact valuesWord_cases kw hkw
      hf := Or.inl ⟨hf3, (by decide : isSpace ')' = false)⟩
      hF := by
        obtain ⟨g, hg⟩ := hmarklast
        exact ⟨σ.f ++ lower kw ++ g, by rw [hnorm, hg]; simp⟩ }
  have hq3 : q.drop (qOpen + 1 + content.length + 1) = rows.flatMap Row.text ++ tail := by
    have e : qOpen + 1 + content.length + 1 = qi + ((kw ++ ws ++ ['(']) ++ (content ++ [')'])).length := by
      simp; omega
    rw [e]; apply drop_after q qi; rw [hq]; simp
  obtain ⟨σ4, h4, hb4, hw4, hp4, he4⟩ := rows_run q cap hcap rows _ σ3 _ tail hb3 rfl hrows hq3
  refine ⟨σ4, ?_, ?_, ?_, hp4, ?_⟩
  · rw [runSeg_append, h1]
    have e1 : qi + (kw ++ ws ++ ['(']).length = qOpen + 1 := by simp; omega
    simp only [e1]
    rw [runSeg_append, h2]
    simp only [runSeg, h3]
    exact h4
  · have e : qi + ((kw ++ ws ++ ['(']) ++ (content ++ (')' :: rows.flatMap Row.text))).length =
        qOpen + 1 + content.length + 1 + (rows.flatMap Row.text).length := by simp; omega
    rw [e]; exact hb4
  · rw [hw4]; show σ2.prevWord = _; rw [hfr_pw]; exact hpwL
  · intro hr; rw [he4 hr]; exact hf3

/-! ### Composition -/

/-- The first character of the word text that follows a value list. -/
theorem step_first_al (q : List Char) (cap : Nat) (qi : Nat) (σ : St) (F : List Char) (c : Char) (hc : Between qi σ F)
    (hok : okFirst c = true) (hop : isOpChar c = false) (hpar : c ≠ '(') (hcomma : c ≠ ',') :
    step q cap qi σ c =
      .next (midWord { σ with valueNo := 0, cpFrom := (qi : Int), sqlState := .unknown } c) := by
  simp only [okFirst, wordBad, Bool.and_eq_true, Bool.not_eq_true', Bool.or_eq_false_iff,
    decide_eq_false_iff_not] at hok
  obtain ⟨⟨hbad, hd⟩, hdot⟩ := hok
  obtain ⟨⟨⟨⟨⟨⟨⟨hsp, hq1⟩, hq2⟩, hsl⟩, hpl⟩, hmi⟩, hha⟩, hco⟩ := hbad
  have hnlt : ¬ σ.cpTo > (qi : Int) := by have := hc.hto; have := hc.hfromle; omega
  have hb' := hop
  simp only [isOpChar, Bool.or_eq_false_iff, decide_eq_false_iff_not] at hb'
  obtain ⟨⟨⟨hb1, hb2⟩, hb3⟩, hb4⟩ := hb'
  simp [step, midWord, hop, hsp, part2, part3, hd, hq1, hq2, hb1, hb2, hb3, hb4, hnlt, hsl, hpl,
    hmi, hdot, hpar, hcomma, hco, hha, hc.hs, hc.hsql]

/-- **A chunk after a value list** (`… in (1, 2) and …`, `… in (1))`). -/
theorem chunk_after_list (q : List Char) (cap : Nat) (hcap : 2 * q.length < cap) (qi : Nat) (σ : St) (F : List Char)
    (segs : List Seg) (r : Char) (tail : List Char) (hb : Between qi σ F)
    (hplain : (Item.chunk segs).isPlain = true) (hok : segsOK .start segs = true)
    (hctx : segsCtx σ.prevWord segs = true)
    (hq : q.drop qi = segsText segs ++ r :: tail) (hr : isSpace r = true) :
    ∃ σ', runSeg q cap qi σ (segsText segs ++ [r]) = .next σ' ∧
      Clean (segsDupe σ.prevWord false segs) (qi + (segsText segs).length + 1) σ' ∧
      σ'.f = σ.f ++ segsNorm segs ++ [' '] ∧ σ'.prevWord = segsPrev σ.prevWord segs := by
  cases segs with
  | nil => simp [Item.isPlain] at hplain
  | cons x rest =>
    cases x with
    | n u => simp [Item.isPlain] at hplain
    | s u => simp [Item.isPlain] at hplain
    | p pc u => simp [Item.isPlain] at hplain
    | w t =>
      cases t with
      | nil => simp [Item.isPlain, plainFirst] at hplain
      | cons c wr =>
        simp only [Item.isPlain, plainFirst, Bool.and_eq_true, Bool.not_eq_true', decide_eq_true_eq] at hplain
        simp only [segsOK, Bool.and_eq_true, true_and] at hok
        have hws : wordShape (c :: wr) = true := hok.1
        have hfirst : okFirst c = true := by
          have := hws; simp only [wordShape, Bool.and_eq_true] at this; exact this.1.1
        simp only [segsCtx, Bool.and_eq_true] at hctx
        have h1 := step_first_al q cap qi σ F c hb hfirst hplain.1.1 hplain.1.2 hplain.2
        have hflen : σ.f.length ≤ 2 * qi := by
          have := hb.hlen
          rcases hb.hf with h | h
          · rw [h.1]; omega
          · rw [h]; simp; omega
        obtain ⟨σ', h2, h3, h4, h5⟩ := chunk_word q cap rest.length hcap (chunk_run q cap hcap rest.length) qi σ
          { σ with valueNo := 0, cpFrom := (qi : Int), sqlState := .unknown } c wr rest r tail (Nat.le_refl _) h1
          rfl (by have := hb.hto; have := hb.hfromle; simp; omega) hb.hesc (by simp)
          (d := false) (by intro _; simp) hflen hb.hpo hb.hpt
          hb.hadd (by simpa [segsText_cons, Seg.text] using hq) hws hctx.1
          (by intro a ha; have := hok.2; rw [ha] at this; exact this) hctx.2 hr
        refine ⟨σ', by simpa [segsText_cons, Seg.text] using h2, ?_, ?_, ?_⟩
        · have e : qi + (segsText (Seg.w (c :: wr) :: rest)).length + 1 =
              qi + (c :: wr).length + (segsText rest).length + 1 := by
            simp [segsText_cons, Seg.text]; omega
          rw [e]; exact h3
        · rw [h4]; simp [segsNorm_cons, Seg.norm]
        · rw [h5]; simp [segsPrev]

/-- Does the item list start with a chunk that may follow a value list? -/
def startsPlain : List (Item × Gap) → Bool
  | [] => true
  | (nx, _) :: _ => nx.isPlain

/-- The states between two items: clean, or right after a value list (and its
    separator) when a plain chunk follows. -/
def Inv (d : Bool) (qi : Nat) (σ : St) (rest : List (Item × Gap)) : Prop :=
  Clean d qi σ ∨ (d = false ∧ (∃ F, Between qi σ F) ∧ startsPlain rest = true)

/-- An item with its separator. -/
theorem item_run (q : List Char) (cap : Nat) (hcap : 2 * q.length < cap) (qi : Nat) (σ : St) (it : Item) (g : Gap)
    (rest : List (Item × Gap)) (tail : List Char)
    (hinv : Inv d qi σ ((it, g) :: rest)) (hq : q.drop qi = it.text ++ (gapText g ++ tail))
    (hcore : it.core = true) (hg : wsGap g = true) (hctx : it.ctxOK1 σ.prevWord d = true)
    (hseps : sepsOK ((it, g) :: rest) = true) :
    ∃ σ', runSeg q cap qi σ (it.text ++ gapText g) = .next σ' ∧
      Inv (it.nextDupe σ.prevWord d) (qi + (it.text ++ gapText g).length) σ' rest ∧
      σ'.f = σ.f ++ it.norm ++ (if g.isEmpty then [] else [' ']) ∧ σ'.prevWord = it.nextPrev σ.prevWord := by
  have hgws := gapText_ws g hg
  have hgempty : g.isEmpty = true → gapText g = [] := by
    intro h; cases g with
    | nil => rfl
    | cons _ _ => simp at h
  have hgne : g.isEmpty = false → ∃ r ws, gapText g = r :: ws := by
    intro h
    cases g with
    | nil => simp at h
    | cons p g' =>
      cases p with
      | ws c => exact ⟨c, gapText g', by simp [gapText, SepPiece.text]⟩
      | mlc b => simp [wsGap, gapIsWs, SepPiece.isWs] at hg
      | dash c b => simp [wsGap, gapIsWs, SepPiece.isWs] at hg
      | hash b => simp [wsGap, gapIsWs, SepPiece.isWs] at hg
  simp only [sepsOK, Bool.and_eq_true] at hseps
  obtain ⟨⟨hs1, hs2⟩, _⟩ := hseps
  cases it with
  | chunk segs =>
    have hge : g.isEmpty = false := by
      cases hgi : g.isEmpty with
      | false => rfl
      | true => rw [hgi] at hs1; simp [Item.isList] at hs1
    obtain ⟨r, ws, hrw⟩ := hgne hge
    rw [hrw] at hq hgws ⊢
    simp only [List.all_cons, Bool.and_eq_true] at hgws
    have hq1 : q.drop qi = segsText segs ++ r :: (ws ++ tail) := by simpa [Item.text] using hq
    have key : ∃ σ1, runSeg q cap qi σ (segsText segs ++ [r]) = .next σ1 ∧
        Clean (segsDupe σ.prevWord d segs) (qi + (segsText segs).length + 1) σ1 ∧
        σ1.f = σ.f ++ segsNorm segs ++ [' '] ∧ σ1.prevWord = segsPrev σ.prevWord segs := by
      rcases hinv with hc | ⟨hd0, ⟨F, hb⟩, hsp⟩
      · exact chunk_run q cap hcap segs.length segs (Nat.le_refl _) d qi σ true r _ hc.toReady (by simp)
          (by simpa [Item.core] using hcore) (by simpa [Item.ctxOK1] using hctx) hq1 hgws.1
      · subst hd0
        exact chunk_after_list q cap hcap qi σ F segs r _ hb (by simpa [startsPlain] using hsp)
          (by simpa [Item.core] using hcore) (by simpa [Item.ctxOK1] using hctx) hq1 hgws.1
    obtain ⟨σ1, h1, hc1, hf1, hp1⟩ := key
    obtain ⟨σ2, h2, hc2, hs2'⟩ := ws_run q cap ws _ σ1 hc1 hgws.2
    refine ⟨σ2, ?_, Or.inl ?_, ?_, ?_⟩
    · have e : (Item.chunk segs).text ++ r :: ws = (segsText segs ++ [r]) ++ ws := by simp [Item.text]
      rw [e]
      apply runSeg_trans q cap _ _ qi σ σ1 σ2 h1
      simpa [Nat.add_assoc] using h2
    · have e : qi + ((Item.chunk segs).text ++ r :: ws).length = qi + (segsText segs).length + 1 + ws.length := by
        simp [Item.text]; omega
      rw [e]; exact hc2
    · rw [hs2'.1, hf1, hge]; simp [Item.norm]
    · rw [hs2'.2, hp1]; rfl
  | vlist kw gap content rows =>
    simp only [Item.ctxOK1, Bool.and_eq_true, Bool.not_eq_true', decide_eq_false_iff_not] at hctx
    obtain ⟨hctx, hd0⟩ := hctx
    subst hd0
    have hcl : Clean false qi σ := by
      rcases hinv with hc | ⟨_, _, hsp⟩
      · exact hc
      · simp [startsPlain, Item.isPlain] at hsp
    obtain ⟨σ1, h1, hb1, hp1, hpr1, hf1⟩ := vlist_run q cap hcap qi σ kw gap content rows _ hcl.toReady hq hcore hctx
    have hsp : startsPlain rest = true := by
      simp only [Item.isList, Bool.not_true, Bool.false_or] at hs2
      cases rest with
      | nil => rfl
      | cons p _ => obtain ⟨nx, _⟩ := p; simpa [startsPlain] using hs2
    have hqlen : qi + (Item.vlist kw gap content rows).text.length + (gapText g).length ≤ q.length := by
      have := congrArg List.length hq
      rw [List.length_drop, List.length_append, List.length_append] at this
      have hpos : 0 < (Item.vlist kw gap content rows).text.length := by
        simp only [Item.text, List.length_append, List.length_cons]; omega
      omega
    obtain ⟨σ2, h2, hb2, hp2, hne2, he2⟩ := between_ws_run q cap hcap (gapText g) _ σ1 _ hb1 hgws (by omega)
    refine ⟨σ2, runSeg_trans q cap _ _ qi σ σ1 σ2 h1 h2,
      Or.inr ⟨rfl, ⟨σ.f ++ (Item.vlist kw gap content rows).norm, ?_⟩, hsp⟩, ?_, by rw [hp2, hp1]; rfl⟩
    · simpa [Nat.add_assoc] using hb2
    · cases hgi : g.isEmpty with
      | true =>
        have hrows : rows = [] := by
          rw [hgi] at hs1
          simp only [if_true, Bool.and_eq_true, Item.rows, List.isEmpty_iff] at hs1
          exact hs1.1.2
        rw [he2 (hgempty hgi), hf1 hrows]; simp
      | false =>
        obtain ⟨r, ws, hrw⟩ := hgne hgi
        rw [(hne2 (by rw [hrw]; simp)).1]; simp

/-- A whole list of items with their separators. -/
theorem items_run (q : List Char) (cap : Nat) (hcap : 2 * q.length < cap) :
    ∀ (its : List (Item × Gap)) (d : Bool) (qi : Nat) (σ : St),
      Inv d qi σ its → q.drop qi = renderItems its →
      (∀ p ∈ its, p.1.core = true ∧ wsGap p.2 = true) → ctxOK σ.prevWord d (its.map (·.1)) = true →
      sepsOK its = true →
      ∃ σ', runSeg q cap qi σ (renderItems its) = .next σ' ∧ σ'.f = σ.f ++ normAll its := by
  intro its
  induction its with
  | nil => intro d qi σ _ _ _ _ _; exact ⟨σ, by simp [renderItems, runSeg], by simp [normAll]⟩
  | cons p rest ih =>
    intro d qi σ hinv hq hok hctx hseps
    obtain ⟨it, g⟩ := p
    simp only [List.map_cons, ctxOK, Bool.and_eq_true] at hctx
    have hp := hok (it, g) (by simp)
    have hq1 : q.drop qi = it.text ++ (gapText g ++ renderItems rest) := by simpa [renderItems] using hq
    obtain ⟨σ1, h1, hinv1, hf1, hp1⟩ := item_run q cap hcap qi σ it g rest _ hinv hq1 hp.1 hp.2 hctx.1 hseps
    have hq2 : q.drop (qi + (it.text ++ gapText g).length) = renderItems rest := by
      apply drop_after q qi; rw [hq1]; simp
    have hseps2 : sepsOK rest = true := by
      simp only [sepsOK, Bool.and_eq_true] at hseps; exact hseps.2
    obtain ⟨σ2, h2, hf2⟩ := ih _ _ σ1 hinv1 hq2 (fun p hp => hok p (by simp [hp])) (by rw [hp1]; exact hctx.2) hseps2
    refine ⟨σ2, ?_, ?_⟩
    · have e : renderItems ((it, g) :: rest) = (it.text ++ gapText g) ++ renderItems rest := by simp [renderItems]
      rw [e]; exact runSeg_trans q cap _ _ qi σ σ1 σ2 h1 h2
    · rw [hf2, hf1]; simp [normAll]

end GaeaVerif.FingerprintSteps
