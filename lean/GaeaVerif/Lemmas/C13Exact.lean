import GaeaVerif.Lemmas.C13Rows
/-
  C13 helper lemmas: the wide reading of a text cell (`readText`: integers of
  any magnitude, dates and datetimes with any two-digit month and day).  What
  `BuildBinaryResultset` sends for such a cell, if it sends anything, is read
  back as what the text says — the integer range check (`integerFitsColumn`)
  refuses the integers the column's width cannot carry.
-/
namespace GaeaVerif.C13
open GaeaVerif GaeaVerif.BinRow GaeaVerif.BinProto GaeaVerif.LenEnc

/-! ### dates and datetimes with any month and day -/

theorem dateRead_some (cell : Bytes) (dv : Val) (h : dateRead cell = some dv) :
    ∃ y0 y1 y2 y3 m0 m1 d0 d1 y m d, cell = [y0, y1, y2, y3, 45, m0, m1, 45, d0, d1]
      ∧ four y0 y1 y2 y3 = some y ∧ two m0 m1 = some m ∧ two d0 d1 = some d
      ∧ dv = .dt y m d 0 0 0 0 := by
  unfold dateRead at h
  split at h
  · rename_i y0 y1 y2 y3 m0 m1 d0 d1
    split at h
    · rename_i y m d hy hm hd
      simp only [Option.some.injEq] at h
      exact ⟨y0, y1, y2, y3, m0, m1, d0, d1, y, m, d, rfl, hy, hm, hd, h.symm⟩
    · simp at h
  · simp at h

theorem dateText_sub (cell : Bytes) (dv : Val) (h : dateText cell = some dv) : dateRead cell = some dv := by
  obtain ⟨y0, y1, y2, y3, m0, m1, d0, d1, y, m, d, hc, hy, hm, hd, _, _, hdv⟩ := dateText_some cell dv h
  subst hc; subst hdv
  simp [dateRead, hy, hm, hd]

theorem date_read_enc_dec (cell rest : Bytes) (dv : Val) (h : dateRead cell = some dv) :
    decodeDate (dateBytes cell ++ rest) = some (dv, rest) := by
  obtain ⟨y0, y1, y2, y3, m0, m1, d0, d1, y, m, d, hc, hy, hm, hd, hdv⟩ := dateRead_some cell dv h
  subst hc; subst hdv
  have hylt := (four_some _ _ _ _ _ hy).2.2.2.2.2
  have hmlt := (two_some _ _ _ hm).2.2.2
  have hdlt := (two_some _ _ _ hd).2.2.2
  have hpy := parseYMD_shape y0 y1 y2 y3 m0 m1 d0 d1 [] y m d hy hm hd
  have hsp := splitTextDate_shape y0 y1 y2 y3 m0 m1 d0 d1 y m d hy hm hd
  have h4 := decodeDate4 y m d rest (by omega) (by omega) (by omega)
  unfold dateBytes parseDate
  rw [hpy, hsp]
  by_cases hmr : m = 0 ∨ m > 12
  · simp only [if_pos hmr]
    by_cases hz : y ≠ 0 ∨ m ≠ 0 ∨ d ≠ 0
    · simp only [if_pos hz]; exact h4
    · simp only [if_neg hz]
      have : y = 0 ∧ m = 0 ∧ d = 0 := by omega
      obtain ⟨e1, e2, e3⟩ := this; subst e1; subst e2; subst e3
      rfl
  · simp only [if_neg hmr, List.isEmpty_nil, Bool.not_true, Bool.false_eq_true, if_false]
    by_cases hdr : d < 1 ∨ d > daysIn m y
    · simp only [if_pos hdr]
      by_cases hz : y ≠ 0 ∨ m ≠ 0 ∨ d ≠ 0
      · simp only [if_pos hz]; exact h4
      · omega
    · simp only [if_neg hdr]; exact h4

theorem datetimeRead_some (cell : Bytes) (dv : Val) (h : datetimeRead cell = some dv) :
    ∃ y0 y1 y2 y3 m0 m1 d0 d1 h0 h1 i0 i1 s0 s1 frac y m d hh mi sec us,
      cell = y0 :: y1 :: y2 :: y3 :: 45 :: m0 :: m1 :: 45 :: d0 :: d1 :: 32 :: h0 :: h1 :: 58 :: i0 :: i1 :: 58 :: s0 :: s1 :: frac
      ∧ four y0 y1 y2 y3 = some y ∧ two m0 m1 = some m ∧ two d0 d1 = some d ∧ two h0 h1 = some hh
      ∧ two i0 i1 = some mi ∧ two s0 s1 = some sec ∧ fracText frac = some us
      ∧ hh < 24 ∧ mi < 60 ∧ sec < 60 ∧ dv = .dt y m d hh mi sec us := by
  unfold datetimeRead at h
  split at h
  · rename_i y0 y1 y2 y3 m0 m1 d0 d1 h0 h1 i0 i1 s0 s1 frac
    split at h
    · rename_i y m d hh mi sec us hy hm hd hhh hmi hsec hus
      split at h
      · rename_i hr
        simp only [Option.some.injEq] at h
        exact ⟨y0, y1, y2, y3, m0, m1, d0, d1, h0, h1, i0, i1, s0, s1, frac, y, m, d, hh, mi, sec, us, rfl,
          hy, hm, hd, hhh, hmi, hsec, hus, hr.1, hr.2.1, hr.2.2, h.symm⟩
      · simp at h
    · simp at h
  · simp at h

theorem datetimeText_sub (cell : Bytes) (dv : Val) (h : datetimeText cell = some dv) :
    datetimeRead cell = some dv := by
  obtain ⟨y0, y1, y2, y3, m0, m1, d0, d1, h0, h1, i0, i1, s0, s1, frac, y, m, d, hh, mi, sec, us, hc,
    hy, hm, hd, hhh, hmi, hsec, hus, _, _, hh24, hmi60, hs60, hdv⟩ := datetimeText_some cell dv h
  subst hc; subst hdv
  simp [datetimeRead, hy, hm, hd, hhh, hmi, hsec, hus, hh24, hmi60, hs60]

/-- A datetime made of digits and a time of day is always encoded, and as
    itself. -/
theorem datetime_read_bytes (cell : Bytes) (dv : Val) (h : datetimeRead cell = some dv) :
    ∃ b, datetimeBytes cell = .ok b ∧ ∀ rest, decodeDate (b ++ rest) = some (dv, rest) := by
  obtain ⟨y0, y1, y2, y3, m0, m1, d0, d1, h0, h1, i0, i1, s0, s1, frac, y, m, d, hh, mi, sec, us, hc,
    hy, hm, hd, hhh, hmi, hsec, hus, hh24, hmi60, hs60, hdv⟩ := datetimeRead_some cell dv h
  subst hc; subst hdv
  have hylt := (four_some _ _ _ _ _ hy).2.2.2.2.2
  have hmlt := (two_some _ _ _ hm).2.2.2
  have hdlt := (two_some _ _ _ hd).2.2.2
  have huslt := (parseSecFrac_shape s0 s1 frac sec us hsec hs60 hus).2
  refine ⟨_, datetimeBytes_digits y0 y1 y2 y3 m0 m1 d0 d1 h0 h1 i0 i1 s0 s1 frac y m d hh mi sec us
    hy hm hd hhh hmi hsec hus hh24 hmi60 hs60, ?_⟩
  intro rest
  by_cases hz : y = 0 ∧ m = 0 ∧ d = 0 ∧ hh = 0 ∧ mi = 0 ∧ sec = 0 ∧ us = 0
  · rw [if_pos hz]
    obtain ⟨e1, e2, e3, e4, e5, e6, e7⟩ := hz
    subst e1; subst e2; subst e3; subst e4; subst e5; subst e6; subst e7
    rfl
  · rw [if_neg hz]
    exact decodeDate11 y m d hh mi sec us rest (by omega) (by omega) (by omega) (by omega) (by omega) (by omega) (by omega)

/-! ### `denoteText` ⊆ `readText` -/

theorem intWidth_not_other (ty w : Nat) (h : intWidth ty = some w) :
    ty ≠ TypeFloat ∧ ty ≠ TypeDouble ∧ ty ≠ TypeNewDecimal ∧ ty ≠ TypeDecimal ∧ ty ≠ TypeDate ∧ ty ≠ TypeNewDate
      ∧ ty ≠ TypeDatetime ∧ ty ≠ TypeTimestamp ∧ ty ≠ TypeDuration := by
  rcases intWidth_some ty w h with ⟨e, _⟩ | ⟨e, _⟩ | ⟨e, _⟩ | ⟨e, _⟩ | ⟨e, _⟩ | ⟨e, _⟩ <;> subst e <;> decide

theorem denote_sub_read (ops : FloatOps) (f : Field) (c : Option Bytes) (d : Val)
    (h : denoteText ops f c = some d) : readText ops f c = some d := by
  cases c with
  | none => simpa [denoteText, readText] using h
  | some s =>
    unfold readText
    simp only
    cases hw : intWidth f.typ with
    | some w =>
      unfold denoteText at h
      simp only [hw] at h
      cases hx : intText s with
      | none => simp [hx] at h
      | some x =>
        simp only [hx] at h
        split at h
        · simpa using h
        · simp at h
    | none =>
      simp only
      by_cases hdate : f.typ = TypeDate ∨ f.typ = TypeNewDate
      · rw [if_pos hdate]
        unfold denoteText at h
        simp only [hw] at h
        have h4 : ¬ f.typ = TypeFloat := by rcases hdate with e | e <;> rw [e] <;> decide
        have h5 : ¬ f.typ = TypeDouble := by rcases hdate with e | e <;> rw [e] <;> decide
        have h6 : ¬ (f.typ = TypeNewDecimal ∨ f.typ = TypeDecimal) := by rcases hdate with e | e <;> rw [e] <;> decide
        simp only [h4, h5, h6, hdate, if_false, if_true] at h
        exact dateText_sub s d h
      · rw [if_neg hdate]
        by_cases hdtm : f.typ = TypeDatetime ∨ f.typ = TypeTimestamp
        · rw [if_pos hdtm]
          unfold denoteText at h
          simp only [hw] at h
          have h4 : ¬ f.typ = TypeFloat := by rcases hdtm with e | e <;> rw [e] <;> decide
          have h5 : ¬ f.typ = TypeDouble := by rcases hdtm with e | e <;> rw [e] <;> decide
          have h6 : ¬ (f.typ = TypeNewDecimal ∨ f.typ = TypeDecimal) := by rcases hdtm with e | e <;> rw [e] <;> decide
          simp only [h4, h5, h6, hdate, hdtm, if_false, if_true] at h
          exact datetimeText_sub s d h
        · rw [if_neg hdtm]; exact h

theorem denoteRow_sub_readRow (ops : FloatOps) (fields : List Field) (cells : List (Option Bytes)) (ds : List Val)
    (h : denoteRow ops fields cells = some ds) : readRow ops fields cells = some ds := by
  induction fields generalizing cells ds with
  | nil => cases cells <;> simp [denoteRow, readRow] at h ⊢; exact h
  | cons f fs ih =>
    cases cells with
    | nil => simp [denoteRow] at h
    | cons c cs =>
      simp only [denoteRow] at h
      cases hd : denoteText ops f c with
      | none => simp [hd] at h
      | some d =>
        cases hds : denoteRow ops fs cs with
        | none => simp [hd, hds] at h
        | some ds' =>
          simp only [hd, hds, Option.some.injEq] at h
          subst h
          simp [readRow, denote_sub_read ops f c d hd, ih cs ds' hds]

/-! ### the integer range check -/

/-- A text integer that `ParseText` accepted and `integerFitsColumn` let
    through is a value of the column's width and signedness. -/
theorem fits_range (ops : FloatOps) (ty flag w : Nat) (cell : Bytes) (x : Int) (v : GoVal)
    (hwid : intWidth ty = some w) (hx : intText cell = some x)
    (hpt : parseTextValue ops ⟨ty, flag⟩ cell = .ok v)
    (hfit : integerFitsColumn ⟨ty, flag⟩ v = true) :
    inIntRange w (Field.isUnsigned ⟨ty, flag⟩) x = true := by
  obtain ⟨_, hint, _⟩ := abv_i64 ops ty w x hwid
  unfold parseTextValue at hpt
  simp only [hint, if_true] at hpt
  cases hu : Field.isUnsigned ⟨ty, flag⟩ with
  | true =>
    simp only [hu, if_true] at hpt
    cases hp : parseUint cell 64 with
    | none => simp [hp] at hpt
    | some n =>
      simp only [hp, Res.ok.injEq] at hpt
      subst hpt
      have hnx := intText_parseUint cell x n hx hp
      subst hnx
      unfold inIntRange
      rcases intWidth_some ty w hwid with ⟨e1, e2⟩ | ⟨e1, e2⟩ | ⟨e1, e2⟩ | ⟨e1, e2⟩ | ⟨e1, e2⟩ | ⟨e1, e2⟩ <;>
        subst e1 <;> subst e2 <;> simp [integerFitsColumn, hu] at hfit ⊢ <;> omega
  | false =>
    simp only [hu, Bool.false_eq_true, if_false] at hpt
    cases hp : parseInt cell 64 with
    | none => simp [hp] at hpt
    | some x' =>
      simp only [hp, Res.ok.injEq] at hpt
      subst hpt
      have := intText_parseInt cell x x' hx hp
      subst this
      unfold inIntRange
      rcases intWidth_some ty w hwid with ⟨e1, e2⟩ | ⟨e1, e2⟩ | ⟨e1, e2⟩ | ⟨e1, e2⟩ | ⟨e1, e2⟩ | ⟨e1, e2⟩ <;>
        subst e1 <;> subst e2 <;> simp [integerFitsColumn, hu] at hfit ⊢ <;>
        (by_cases hneg : x' < 0 <;> simp [hneg] at hfit <;> omega)

/-! ### one column, then the row -/

set_option linter.unusedSimpArgs false in
/-- **One column, wide reading.** -/
theorem col_exact (ops : FloatOps) (hops : FloatOpsOk ops) (f : Field) (cell : Bytes) (d : Val) (v : GoVal)
    (b rest : Bytes) (hlen : cell.length < 2 ^ 62)
    (hden : readText ops f (some cell) = some d)
    (hpt : parseTextValue ops f cell = .ok v)
    (hfit : integerFitsColumn f v = true)
    (habv : appendBinaryValue ops f.typ v = .ok b) :
    ∃ v', decodeValue f (b ++ rest) = some (v', rest) ∧ Val.same v' d = true := by
  unfold readText at hden
  simp only at hden
  cases hw : intWidth f.typ with
  | some w =>
    obtain ⟨ty, flag⟩ := f
    simp only [hw] at hden
    cases hx : intText cell with
    | none => simp [hx] at hden
    | some x =>
      simp [hx] at hden; subst hden
      have hr := fits_range ops ty flag w cell x v hw hx hpt hfit
      exact ⟨.int x, int_col ops ty flag w cell x v b rest hw hx hr hpt habv, same_refl _⟩
  | none =>
    simp only [hw] at hden
    by_cases hdate : f.typ = TypeDate ∨ f.typ = TypeNewDate
    · rw [if_pos hdate] at hden
      obtain ⟨ty, flag⟩ := f
      refine ⟨d, ?_, same_refl _⟩
      rcases hdate with e | e <;> simp only at e <;> subst e <;>
        simp [parseTextValue, isIntFieldType, isStringFieldType] at hpt <;> subst hpt <;>
        simp [appendBinaryValue, binaryValueBytes, isLenEncFieldType, isRawFieldType] at habv <;> subst habv <;>
        simp [decodeValue, intWidth, date_read_enc_dec cell rest d hden]
    · rw [if_neg hdate] at hden
      by_cases hdtm : f.typ = TypeDatetime ∨ f.typ = TypeTimestamp
      · rw [if_pos hdtm] at hden
        obtain ⟨ty, flag⟩ := f
        obtain ⟨t, ht, hdec⟩ := datetime_read_bytes cell d hden
        refine ⟨d, ?_, same_refl _⟩
        rcases hdtm with e | e <;> simp only at e <;> subst e <;>
          simp [parseTextValue, isIntFieldType, isStringFieldType] at hpt <;> subst hpt <;>
          simp [appendBinaryValue, binaryValueBytes, isLenEncFieldType, isRawFieldType, ht] at habv <;> subst habv <;>
          simp [decodeValue, intWidth, hdec rest]
      · rw [if_neg hdtm] at hden
        exact col_correct ops hops f cell d v b rest hlen hden hpt habv

theorem decodeCols_exact (ops : FloatOps) (hops : FloatOpsOk ops) (fields : List Field)
    (cells : List (Option Bytes)) (vals : List GoVal) (enc : Bytes) (ds : List Val) (rest : Bytes)
    (hconv : convertCells ops fields cells = .ok vals) (henc : encodeVals ops fields vals = .ok enc)
    (hden : readRow ops fields cells = some ds)
    (hlen : ∀ v, some v ∈ cells → v.length < 2 ^ 62) :
    ∃ vs, decodeCols fields (nullFlags vals) (enc ++ rest) = some (vs, rest) ∧ sameRow vs ds = true := by
  induction fields generalizing cells vals enc ds with
  | nil =>
    cases cells with
    | cons c cs => simp [readRow] at hden
    | nil =>
      simp [convertCells] at hconv; subst hconv
      simp [encodeVals] at henc; subst henc
      simp [readRow] at hden; subst hden
      exact ⟨[], by simp [decodeCols], rfl⟩
  | cons f fs ih =>
    cases cells with
    | nil => simp [readRow] at hden
    | cons c cs =>
      simp only [readRow] at hden
      cases hd : readText ops f c with
      | none => simp [hd] at hden
      | some d =>
        cases hds : readRow ops fs cs with
        | none => simp [hd, hds] at hden
        | some ds' =>
          simp only [hd, hds, Option.some.injEq] at hden
          subst hden
          have hlen' : ∀ v, some v ∈ cs → v.length < 2 ^ 62 := fun v hv => hlen v (by simp [hv])
          simp only [convertCells] at hconv
          cases c with
          | none =>
            simp only at hconv
            cases hc : convertCells ops fs cs with
            | err e => simp [hc] at hconv
            | ok xs =>
              simp only [hc, Res.ok.injEq] at hconv
              subst hconv
              simp only [encodeVals, if_true] at henc
              obtain ⟨vs, hdec, hsame⟩ := ih cs xs enc ds' hc henc hds hlen'
              simp only [readText, Option.some.injEq] at hd
              subst hd
              refine ⟨Val.null :: vs, ?_, ?_⟩
              · simp [nullFlags, decodeCols] at hdec ⊢
                rw [hdec]
              · simp [sameRow, hsame, Val.same]
          | some cell =>
            simp only at hconv
            cases hp : parseTextValue ops f cell with
            | err e => simp [hp] at hconv
            | ok x =>
              cases hc : convertCells ops fs cs with
              | err e => simp [hp, hc] at hconv
              | ok xs =>
                simp only [hp, hc, Res.ok.injEq] at hconv
                subst hconv
                have hx := parseTextValue_ne_nil ops f cell x hp
                simp only [encodeVals, hx, if_false] at henc
                cases hfit : integerFitsColumn f x with
                | false => simp [hfit] at henc
                | true =>
                simp only [hfit, Bool.not_true, Bool.false_eq_true, if_false] at henc
                cases ha : appendBinaryValue ops f.typ x with
                | err e => simp [ha] at henc
                | ok b =>
                  cases he : encodeVals ops fs xs with
                  | err e => simp [ha, he] at henc
                  | ok bs =>
                    simp only [ha, he, Res.ok.injEq] at henc
                    subst henc
                    obtain ⟨vs, hdec, hsame⟩ := ih cs xs bs ds' hc he hds hlen'
                    obtain ⟨v', hv', hs'⟩ := col_exact ops hops f cell d x b (bs ++ rest)
                      (hlen cell (by simp)) hd hp hfit ha
                    refine ⟨v' :: vs, ?_, ?_⟩
                    · simp only [nullFlags, List.map_cons, hx, decide_false, decodeCols, Bool.false_eq_true,
                        if_false, List.append_assoc, hv']
                      simp only [nullFlags] at hdec
                      rw [hdec]; rfl
                    · simp [sameRow, hsame, hs']

theorem readRow_len (ops : FloatOps) (fields : List Field) (cells : List (Option Bytes)) (ds : List Val)
    (h : readRow ops fields cells = some ds) : cells.length = fields.length := by
  induction fields generalizing cells ds with
  | nil => cases cells <;> simp [readRow] at h ⊢
  | cons f fs ih =>
    cases cells with
    | nil => simp [readRow] at h
    | cons c cs =>
      simp only [readRow] at h
      cases hd : readText ops f c with
      | none => simp [hd] at h
      | some d =>
        cases hds : readRow ops fs cs with
        | none => simp [hd, hds] at h
        | some ds' => simp [ih cs ds' hds]

end GaeaVerif.C13
