import GaeaVerif.Model.BufOwn
/-
  Lemmas about Model/BufOwn.lean used by Props/C38.lean: the bucket arithmetic
  of util/bucketpool, the effect of Get / Put on the pool, and the ownership
  invariant of the system.
-/
namespace GaeaVerif.BufOwn
open GaeaVerif

/-! ### bits.Len64 and findPool -/

theorem bitLenAux_zero (f : Nat) : bitLenAux f 0 = 0 := by
  cases f <;> simp [bitLenAux]

theorem bitLenAux_le (f n : Nat) : bitLenAux f n ≤ f := by
  induction f generalizing n with
  | zero => simp [bitLenAux]
  | succ f ih =>
    simp only [bitLenAux]
    split
    · omega
    · have := ih (n / 2); omega

theorem lt_two_pow_bitLenAux (f n : Nat) (h : n < 2 ^ f) : n < 2 ^ bitLenAux f n := by
  induction f generalizing n with
  | zero => simp at h; subst h; simp [bitLenAux]
  | succ f ih =>
    simp only [bitLenAux]
    split
    · rename_i h0; subst h0; simp
    · have h2 : n / 2 < 2 ^ f := by
        rw [Nat.pow_succ] at h; omega
      have := ih (n / 2) h2
      rw [Nat.add_comm, Nat.pow_succ]; omega

theorem bitLenAux_le_of_lt (f n k : Nat) (h : n < 2 ^ k) : bitLenAux f n ≤ k := by
  induction f generalizing n k with
  | zero => simp [bitLenAux]
  | succ f ih =>
    simp only [bitLenAux]
    split
    · omega
    · rename_i h0
      cases k with
      | zero => simp at h; omega
      | succ k =>
        have h2 : n / 2 < 2 ^ k := by rw [Nat.pow_succ] at h; omega
        have := ih (n / 2) k h2
        omega

theorem bitLenAux_pos (f n : Nat) (hf : 0 < f) (hn : n ≠ 0) : 0 < bitLenAux f n := by
  cases f with
  | zero => omega
  | succ f => simp only [bitLenAux, hn, if_false]; omega

/-- a power of two in the sense of the Go code is `2 ^ (Len64 - 1)` -/
theorem pow2_eq (f d : Nat) (hd : d < 2 ^ f) (h0 : d ≠ 0) (h : d &&& (d - 1) = 0) : d = 2 ^ (bitLenAux f d - 1) := by
  induction f generalizing d with
  | zero => simp at hd; omega
  | succ f ih =>
    simp only [bitLenAux, h0, if_false]
    by_cases h1 : d = 1
    · subst h1; simp [bitLenAux_zero]
    · have hh : d / 2 ≠ 0 := by omega
      have hdiv : (d / 2) &&& ((d - 1) / 2) = 0 := by
        rw [← Nat.and_div_two, h]
      by_cases hev : d % 2 = 0
      · have e : (d - 1) / 2 = d / 2 - 1 := by omega
        rw [e] at hdiv
        have h2 : d / 2 < 2 ^ f := by rw [Nat.pow_succ] at hd; omega
        have := ih (d / 2) h2 hh hdiv
        have hp := bitLenAux_pos f (d / 2) (by
          cases f with
          | zero => simp at h2; omega
          | succ f => omega) hh
        have e2 : 1 + bitLenAux f (d / 2) - 1 = (bitLenAux f (d / 2) - 1) + 1 := by omega
        rw [e2, Nat.pow_succ, ← this]; omega
      · have e : (d - 1) / 2 = d / 2 := by omega
        rw [e, Nat.and_self] at hdiv
        exact absurd hdiv hh

theorem findPool_lt (size k : Nat) (h : findPool size = some k) : k < nBuckets := by
  unfold findPool at h
  split at h
  · cases h
  · rename_i hs
    have hdiv : size / minSize < 2 ^ 17 := by simp [minSize, maxSize] at *; omega
    have hb := bitLenAux_le_of_lt 64 (size / minSize) 17 hdiv
    simp only [bitLen] at h
    split at h <;> cases h <;> simp [nBuckets] <;> omega

/-- a buffer of the bucket `findPool` selects is large enough -/
theorem findPool_fits (size k : Nat) (h : findPool size = some k) : size ≤ bucketSize k := by
  unfold findPool at h
  split at h
  · cases h
  · rename_i hs
    have hs' : size ≤ maxSize := by omega
    have hdiv : size / minSize < 2 ^ 17 := by simp [minSize, maxSize] at *; omega
    have hdiv64 : size / minSize < 2 ^ 64 := Nat.lt_of_lt_of_le hdiv (by decide)
    have hb := bitLenAux_le_of_lt 64 (size / minSize) 17 hdiv
    have hlt := lt_two_pow_bitLenAux 64 (size / minSize) hdiv64
    simp only [bitLen] at h
    split at h
    · rename_i hc
      cases h
      simp only [Bool.and_eq_true, beq_iff_eq, bne_iff_ne, ne_eq] at hc
      obtain ⟨⟨hrem, hne⟩, hand⟩ := hc
      have hp := pow2_eq 64 (size / minSize) hdiv64 hne hand
      have hpos := bitLenAux_pos 64 (size / minSize) (by decide) hne
      unfold bucketSize
      split
      · have hsz : size = minSize * (size / minSize) := by
          have := Nat.div_add_mod size minSize
          omega
        have hle : minSize * (size / minSize) ≤ minSize * 2 ^ (bitLenAux 64 (size / minSize) - 1) :=
          Nat.mul_le_mul_left _ (Nat.le_of_eq hp)
        omega
      · exact hs'
    · cases h
      unfold bucketSize
      split
      · have h1 : size < minSize * (size / minSize + 1) := by
          have := Nat.div_add_mod size minSize
          have := Nat.mod_lt size (show 0 < minSize by decide)
          rw [Nat.mul_add]; omega
        have h2 : minSize * (size / minSize + 1) ≤ minSize * 2 ^ bitLenAux 64 (size / minSize) :=
          Nat.mul_le_mul_left _ hlt
        omega
      · exact hs'

/-- `Put` returns a buffer of bucket `k` to bucket `k` -/
theorem findPool_bucketSize (k : Nat) (h : k < nBuckets) : findPool (bucketSize k) = some k := by
  have : k = 0 ∨ k = 1 ∨ k = 2 ∨ k = 3 ∨ k = 4 ∨ k = 5 ∨ k = 6 ∨ k = 7 ∨ k = 8 ∨ k = 9 ∨ k = 10 ∨ k = 11 ∨ k = 12 ∨
      k = 13 ∨ k = 14 ∨ k = 15 ∨ k = 16 ∨ k = 17 := by simp [nBuckets] at h; omega
  rcases this with h | h | h | h | h | h | h | h | h | h | h | h | h | h | h | h | h | h <;> subst h <;> decide

/-- the buckets `bucketpool.New(MinPacketSize, MaxPacketSize)` creates -/
theorem newSizes_eq : newSizes 64 minSize maxSize = (List.range nBuckets).map bucketSize := by decide


/-! ### sync.Pool -/

theorem SyncPool.mem_put (p : SyncPool) (x y : Nat) : y ∈ (p.put x).ids ↔ y = x ∨ y ∈ p.ids := by
  unfold SyncPool.put SyncPool.ids
  cases hp : p.priv <;> simp <;> try omega
  constructor
  · rintro (h | h | h) <;> simp [h]
  · rintro (h | h | h) <;> simp [h]

theorem SyncPool.nodup_put (p : SyncPool) (x : Nat) (h : p.ids.Nodup) (hx : x ∉ p.ids) : (p.put x).ids.Nodup := by
  unfold SyncPool.put SyncPool.ids at *
  cases hp : p.priv with
  | none => simp [hp] at *; exact ⟨hx, h⟩
  | some y =>
    simp [hp] at *
    obtain ⟨h1, h2⟩ := h
    refine ⟨⟨fun e => hx.1 e.symm, h1⟩, hx.2, h2⟩

theorem SyncPool.get_some (p p' : SyncPool) (y : Nat) (h : p.get = some (y, p')) : p.ids = y :: p'.ids := by
  unfold SyncPool.get at h
  unfold SyncPool.ids
  cases hp : p.priv with
  | some x => simp [hp] at h; obtain ⟨h1, h2⟩ := h; subst h1; subst h2; simp
  | none =>
    simp [hp] at h
    cases hs : p.shared with
    | nil => simp [hs] at h
    | cons x r => simp [hs] at h; obtain ⟨h1, h2⟩ := h; subst h1; subst h2; simp

theorem SyncPool.get_none (p : SyncPool) (h : p.get = none) : p.ids = [] := by
  unfold SyncPool.get at h
  unfold SyncPool.ids
  cases hp : p.priv with
  | some x => simp [hp] at h
  | none =>
    cases hs : p.shared with
    | nil => simp
    | cons x r => simp [hp, hs] at h

/-! ### the pool as a whole -/

/-- buffer `x` is in some bucket -/
def InPool (m : Mem) (x : Nat) : Prop := ∃ (k : Nat) (p : SyncPool), m.pools[k]? = some p ∧ x ∈ p.ids

/-- a buffer's backing array has its capacity, which is that of a bucket or too large to be pooled -/
def CapOk (b : Buf) : Prop := b.data.length = b.cap ∧ (maxSize < b.cap ∨ ∃ k, k < nBuckets ∧ b.cap = bucketSize k)

theorem writeAt_length (d : Bytes) (off : Nat) (b : Bytes) (h : off + b.length ≤ d.length) : (writeAt d off b).length = d.length := by
  simp only [writeAt, List.length_append, List.length_take, List.length_drop]
  omega

structure PoolOk (m : Mem) : Prop where
  len : m.pools.length = nBuckets
  nodup : ∀ (k : Nat) (p : SyncPool), m.pools[k]? = some p → p.ids.Nodup
  disj : ∀ (k k' : Nat) (p p' : SyncPool) (x : Nat), k ≠ k' → m.pools[k]? = some p → m.pools[k']? = some p' → x ∈ p.ids → x ∉ p'.ids
  size : ∀ (k : Nat) (p : SyncPool) (x : Nat), m.pools[k]? = some p → x ∈ p.ids → ∃ b, m.bufs[x]? = some b ∧ b.cap = bucketSize k
  caps : ∀ (x : Nat) (b : Buf), m.bufs[x]? = some b → CapOk b

theorem PoolOk.bound {m : Mem} (h : PoolOk m) {x : Nat} (hx : InPool m x) : x < m.bufs.length := by
  obtain ⟨k, p, hk, hp⟩ := hx
  obtain ⟨b, hb, _⟩ := h.size k p x hk hp
  exact (List.getElem?_eq_some_iff.mp hb).1

theorem poolOk_init : PoolOk Mem.init := by
  refine ⟨by simp [Mem.init], ?_, ?_, ?_, ?_⟩
  · intro k p h
    have : p = SyncPool.empty := by
      simp [Mem.init, List.getElem?_replicate] at h; exact h.2.symm
    subst this; simp [SyncPool.ids, SyncPool.empty]
  · intro k k' p p' x _ h _ hx
    have : p = SyncPool.empty := by
      simp [Mem.init, List.getElem?_replicate] at h; exact h.2.symm
    subst this; simp [SyncPool.ids, SyncPool.empty] at hx
  · intro k p x h hx
    have : p = SyncPool.empty := by
      simp [Mem.init, List.getElem?_replicate] at h; exact h.2.symm
    subst this; simp [SyncPool.ids, SyncPool.empty] at hx
  · intro x b h; simp [Mem.init] at h

/-- What `Get` does to the pool. -/
theorem poolGet_spec {m m' : Mem} {n id : Nat} (h : PoolOk m) (hg : poolGet m n = some (id, m')) :
    PoolOk m' ∧ ¬ InPool m' id ∧ (∀ x, InPool m' x → InPool m x) ∧ (InPool m id ∨ id = m.bufs.length) ∧
    (∀ (x : Nat) (b : Buf), m.bufs[x]? = some b → m'.bufs[x]? = some b) ∧ m.bufs.length ≤ m'.bufs.length ∧
    (∃ b, m'.bufs[id]? = some b ∧ n ≤ b.cap) := by
  unfold poolGet at hg
  have alloc_ok : ∀ cap, CapOk ⟨cap, List.replicate cap 0⟩ → n ≤ cap → (alloc m cap) = (id, m') →
      PoolOk m' ∧ ¬ InPool m' id ∧ (∀ x, InPool m' x → InPool m x) ∧ (InPool m id ∨ id = m.bufs.length) ∧
      (∀ (x : Nat) (b : Buf), m.bufs[x]? = some b → m'.bufs[x]? = some b) ∧ m.bufs.length ≤ m'.bufs.length ∧
      (∃ b, m'.bufs[id]? = some b ∧ n ≤ b.cap) := by
    intro cap hcap hn ha
    simp only [alloc, Prod.mk.injEq] at ha
    obtain ⟨h1, h2⟩ := ha
    subst h1; subst h2
    have keep : ∀ (x : Nat) (b : Buf), m.bufs[x]? = some b → (m.bufs ++ [⟨cap, List.replicate cap 0⟩])[x]? = some b := by
      intro x b hb
      have := (List.getElem?_eq_some_iff.mp hb).1
      rw [List.getElem?_append_left this]; exact hb
    refine ⟨⟨h.len, h.nodup, h.disj, ?_, ?_⟩, ?_, fun x hx => hx, Or.inr rfl, keep, by simp, ?_⟩
    · intro k p x hk hx
      obtain ⟨b, hb, hc⟩ := h.size k p x hk hx
      exact ⟨b, keep x b hb, hc⟩
    · intro x b hb
      simp only at hb
      by_cases hx : x < m.bufs.length
      · rw [List.getElem?_append_left hx] at hb; exact h.caps x b hb
      · have : x = m.bufs.length := by
          have := (List.getElem?_eq_some_iff.mp hb).1
          simp at this; omega
        subst this
        simp at hb; subst hb; exact hcap
    · intro hin
      have := h.bound (m := m) hin
      omega
    · exact ⟨⟨cap, List.replicate cap 0⟩, by simp, hn⟩
  cases hf : findPool n with
  | none =>
    simp only [hf, Option.some.injEq] at hg
    have hbig : maxSize < n := by
      by_cases hb : n > maxSize
      · exact hb
      · exfalso
        simp only [findPool, hb, if_false] at hf
        split at hf <;> cases hf
    exact alloc_ok n ⟨by simp, Or.inl hbig⟩ (Nat.le_refl _) hg
  | some k =>
    simp only [hf] at hg
    have hk := findPool_lt n k hf
    have hfit := findPool_fits n k hf
    cases hp : m.pools[k]? with
    | none => simp [hp] at hg
    | some p =>
      simp only [hp] at hg
      cases hget : p.get with
      | none =>
        simp only [hget] at hg
        rw [if_pos hfit] at hg
        simp only [Option.some.injEq] at hg
        exact alloc_ok (bucketSize k) ⟨by simp, Or.inr ⟨k, hk, rfl⟩⟩ hfit hg
      | some r =>
        obtain ⟨y, p'⟩ := r
        simp only [hget] at hg
        have hids := SyncPool.get_some p p' y hget
        cases hb : m.bufs[y]? with
        | none => simp [hb] at hg
        | some b =>
          simp only [hb] at hg
          have hle : n ≤ b.cap := by
            obtain ⟨b', hb', hc⟩ := h.size k p y hp (by rw [hids]; simp)
            rw [hb] at hb'; cases hb'; omega
          rw [if_pos hle] at hg
          · simp only [Option.some.injEq, Prod.mk.injEq] at hg
            obtain ⟨h1, h2⟩ := hg
            subst h1; subst h2
            have hklen : k < m.pools.length := (List.getElem?_eq_some_iff.mp hp).1
            have hnd := h.nodup k p hp
            rw [hids] at hnd
            have hy : y ∉ p'.ids := (List.nodup_cons.mp hnd).1
            have sub : ∀ (j : Nat) (q : SyncPool), (m.pools.set k p')[j]? = some q → ∃ q0, m.pools[j]? = some q0 ∧ (∀ x, x ∈ q.ids → x ∈ q0.ids) ∧
                (q.ids.Nodup) ∧ (j = k → q = p') ∧ (j ≠ k → q = q0) := by
              intro j q hq
              rw [List.getElem?_set] at hq
              split at hq
              · rename_i e; subst e
                simp [hklen] at hq; subst hq
                exact ⟨p, hp, fun x hx => by rw [hids]; exact List.mem_cons_of_mem _ hx, (List.nodup_cons.mp hnd).2,
                  fun _ => rfl, fun e => absurd rfl e⟩
              · rename_i e
                exact ⟨q, hq, fun x hx => hx, h.nodup j q hq, fun e' => absurd e'.symm e, fun _ => rfl⟩
            refine ⟨⟨by simp [h.len], ?_, ?_, ?_, h.caps⟩, ?_, ?_, Or.inl ⟨k, p, hp, by rw [hids]; simp⟩, fun x b hb => hb, Nat.le_refl _,
              ⟨b, hb, hle⟩⟩
            · intro j q hq
              exact (sub j q hq).choose_spec.2.2.1
            · intro j j' q q' x hne hq hq' hx
              obtain ⟨q0, hq0, hsub, _, _, _⟩ := sub j q hq
              obtain ⟨q0', hq0', hsub', _, _, _⟩ := sub j' q' hq'
              exact fun hx' => h.disj j j' q0 q0' x hne hq0 hq0' (hsub x hx) (hsub' x hx')
            · intro j q x hq hx
              obtain ⟨q0, hq0, hsub, _, _, _⟩ := sub j q hq
              exact h.size j q0 x hq0 (hsub x hx)
            · rintro ⟨j, q, hq, hx⟩
              obtain ⟨q0, hq0, hsub, _, hjk, hjk'⟩ := sub j q hq
              by_cases e : j = k
              · have := hjk e; subst this; exact hy hx
              · have := hjk' e; subst this
                exact h.disj k j p q y (fun e' => e e'.symm) hp hq0 (by rw [hids]; simp) hx
            · rintro x ⟨j, q, hq, hx⟩
              obtain ⟨q0, hq0, hsub, _, _, _⟩ := sub j q hq
              exact ⟨j, q0, hq0, hsub x hx⟩

/-- What `Put` does to the pool. -/
theorem poolPut_spec {m m' : Mem} {id : Nat} (h : PoolOk m) (hid : ¬ InPool m id) (hp : poolPut m id = some m') :
    PoolOk m' ∧ (∀ x, InPool m' x → x = id ∨ InPool m x) ∧ m'.bufs = m.bufs := by
  unfold poolPut at hp
  cases hb : m.bufs[id]? with
  | none => simp [hb] at hp
  | some b =>
    simp only [hb] at hp
    cases hf : findPool b.cap with
    | none =>
      simp only [hf, Option.some.injEq] at hp
      subst hp
      exact ⟨h, fun x hx => Or.inr hx, rfl⟩
    | some k =>
      simp only [hf] at hp
      cases hq : m.pools[k]? with
      | none => simp [hq] at hp
      | some p =>
        simp only [hq, Option.some.injEq] at hp
        subst hp
        have hklen : k < m.pools.length := (List.getElem?_eq_some_iff.mp hq).1
        have hcap : b.cap = bucketSize k := by
          rcases (h.caps id b hb).2 with hbig | ⟨k', hk', hc⟩
          · unfold findPool at hf
            simp [hbig] at hf
          · rw [hc, findPool_bucketSize k' hk'] at hf
            cases hf; exact hc
        have hidp : id ∉ p.ids := fun hx => hid ⟨k, p, hq, hx⟩
        have sub : ∀ (j : Nat) (q : SyncPool), (m.pools.set k (p.put id))[j]? = some q → ∃ q0, m.pools[j]? = some q0 ∧
            (∀ x, x ∈ q.ids → x = id ∨ x ∈ q0.ids) ∧ q.ids.Nodup ∧ (j ≠ k → q = q0) ∧ (j = k → q = p.put id ∧ q0 = p) := by
          intro j q hj
          rw [List.getElem?_set] at hj
          split at hj
          · rename_i e; subst e
            simp [hklen] at hj; subst hj
            exact ⟨p, hq, fun x hx => (SyncPool.mem_put p id x).mp hx, SyncPool.nodup_put p id (h.nodup k p hq) hidp,
              fun e => absurd rfl e, fun _ => ⟨rfl, rfl⟩⟩
          · rename_i e
            exact ⟨q, hj, fun x hx => Or.inr hx, h.nodup j q hj, fun _ => rfl, fun e' => absurd e'.symm e⟩
        refine ⟨⟨by simp [h.len], ?_, ?_, ?_, h.caps⟩, ?_, rfl⟩
        · intro j q hj
          exact (sub j q hj).choose_spec.2.2.1
        · intro j j' q q' x hne hj hj' hx hx'
          obtain ⟨q0, hq0, hsub, _, hne1, heq1⟩ := sub j q hj
          obtain ⟨q0', hq0', hsub', _, hne2, heq2⟩ := sub j' q' hj'
          rcases hsub x hx with e | hin
          · subst e
            rcases hsub' x hx' with _ | hin'
            · -- both contain the new buffer: both are bucket k
              by_cases e1 : j = k
              · by_cases e2 : j' = k
                · exact hne (e1.trans e2.symm)
                · have := hne2 e2; subst this
                  exact hid ⟨j', q', hq0', hx'⟩
              · have := hne1 e1; subst this
                exact hid ⟨j, q, hq0, hx⟩
            · exact hid ⟨j', q0', hq0', hin'⟩
          · rcases hsub' x hx' with e | hin'
            · subst e; exact hid ⟨j, q0, hq0, hin⟩
            · exact h.disj j j' q0 q0' x hne hq0 hq0' hin hin'
        · intro j q x hj hx
          obtain ⟨q0, hq0, hsub, _, hne1, heq1⟩ := sub j q hj
          rcases hsub x hx with e | hin
          · subst e
            by_cases e1 : j = k
            · subst e1; exact ⟨b, hb, hcap⟩
            · have := hne1 e1; subst this
              exact absurd ⟨j, q, hq0, hx⟩ hid
          · exact h.size j q0 x hq0 hin
        · rintro x ⟨j, q, hj, hx⟩
          obtain ⟨q0, hq0, hsub, _, _, _⟩ := sub j q hj
          rcases hsub x hx with e | hin
          · exact Or.inl e
          · exact Or.inr ⟨j, q0, hq0, hin⟩

/-- `Get` never panics on a well-formed pool: the bucket exists and its buffers are large enough. -/
theorem poolGet_some {m : Mem} (h : PoolOk m) (n : Nat) : ∃ r, poolGet m n = some r := by
  unfold poolGet
  cases hf : findPool n with
  | none => exact ⟨_, rfl⟩
  | some k =>
    have hk := findPool_lt n k hf
    have hfit := findPool_fits n k hf
    have hlt : k < m.pools.length := by rw [h.len]; exact hk
    simp only [List.getElem?_eq_getElem hlt]
    cases hget : (m.pools[k]).get with
    | none => simp only [if_pos hfit]; exact ⟨_, rfl⟩
    | some r =>
      obtain ⟨y, p'⟩ := r
      have hids := SyncPool.get_some _ p' y hget
      obtain ⟨b, hb, hc⟩ := h.size k (m.pools[k]) y (List.getElem?_eq_getElem hlt) (by rw [hids]; simp)
      simp only [hb]
      rw [if_pos (by omega)]
      exact ⟨_, rfl⟩

/-- `Put` of a pooled-size buffer the pool knows never panics. -/
theorem poolPut_some {m : Mem} {id : Nat} (h : PoolOk m) (hlt : id < m.bufs.length) : ∃ m', poolPut m id = some m' := by
  unfold poolPut
  have ⟨b, hb⟩ : ∃ b, m.bufs[id]? = some b := ⟨m.bufs[id], List.getElem?_eq_getElem hlt⟩
  simp only [hb]
  cases hf : findPool b.cap with
  | none => exact ⟨m, rfl⟩
  | some k =>
    have hk := findPool_lt _ _ hf
    have : k < m.pools.length := by rw [h.len]; exact hk
    simp only [List.getElem?_eq_getElem this]
    exact ⟨_, rfl⟩


/-! ### one connection's step, seen from the shared memory -/

/-- what a connection knows about the buffer it holds -/
structure Held (m : Mem) (c : Conn) : Prop where
  cur : ∀ (x : Nat), c.cur = some x → ¬ InPool m x ∧ ∃ b, m.bufs[x]? = some b ∧ c.len ≤ b.cap

/-- What a step of the connection `c` may do: the pool stays well formed, it
    grows by nothing but the buffer `c` gives up, the buffer `c` holds
    afterwards is its old one or one taken from the pool or a new one, and no
    buffer other than the one `c` holds changes. -/
structure Trans (m : Mem) (c : Conn) (m' : Mem) (c' : Conn) : Prop where
  pool : PoolOk m'
  grow : ∀ (x : Nat), InPool m' x → InPool m x ∨ (c.cur = some x ∧ c'.cur ≠ some x)
  cur : ∀ (x : Nat), c'.cur = some x → ¬ InPool m' x ∧ (∃ b, m'.bufs[x]? = some b ∧ c'.len ≤ b.cap) ∧
      (c.cur = some x ∨ InPool m x ∨ m.bufs.length ≤ x)
  frame : ∀ (x : Nat) (b : Buf), m.bufs[x]? = some b → c.cur ≠ some x → m'.bufs[x]? = some b
  caps : ∀ (x : Nat) (b : Buf), m.bufs[x]? = some b → ∃ b', m'.bufs[x]? = some b' ∧ b'.cap = b.cap

theorem Trans.refl {m : Mem} {c : Conn} (hp : PoolOk m) (hh : Held m c) : Trans m c m c :=
  ⟨hp, fun _ hx => Or.inl hx, fun x hx => ⟨(hh.cur x hx).1, (hh.cur x hx).2, Or.inl hx⟩,
   fun _ _ hb _ => hb, fun _ b hb => ⟨b, hb, rfl⟩⟩

/-- only the policy changes -/
theorem Trans.policy {m : Mem} {c : Conn} (hp : PoolOk m) (hh : Held m c) (p : Policy) :
    Trans m c m { c with policy := p } :=
  ⟨hp, fun _ hx => Or.inl hx, fun x hx => ⟨(hh.cur x hx).1, (hh.cur x hx).2, Or.inl hx⟩,
   fun _ _ hb _ => hb, fun _ b hb => ⟨b, hb, rfl⟩⟩

theorem Trans.acquire {m m' : Mem} {c : Conn} {n id : Nat} (hp : PoolOk m) (p : Policy)
    (hg : poolGet m n = some (id, m')) : Trans m c m' { c with policy := p, cur := some id, len := n } := by
  obtain ⟨h1, h2, h3, h4, h5, h6, h7⟩ := poolGet_spec hp hg
  refine ⟨h1, fun x hx => Or.inl (h3 x hx), ?_, fun x b hb _ => h5 x b hb, fun x b hb => ⟨b, h5 x b hb, rfl⟩⟩
  intro x hx
  simp only [Option.some.injEq] at hx
  subst hx
  refine ⟨h2, h7, ?_⟩
  rcases h4 with h | h
  · exact Or.inr (Or.inl h)
  · exact Or.inr (Or.inr (by omega))

theorem Trans.release {m m' : Mem} {c : Conn} {id : Nat} (hp : PoolOk m) (hh : Held m c) (hc : c.cur = some id)
    (hput : poolPut m id = some m') : Trans m c m' { c with policy := .unused, cur := none } := by
  obtain ⟨h1, h2, h3⟩ := poolPut_spec hp (hh.cur id hc).1 hput
  refine ⟨h1, ?_, fun x hx => by simp at hx, fun x b hb _ => by rw [h3]; exact hb, fun x b hb => ⟨b, by rw [h3]; exact hb, rfl⟩⟩
  intro x hx
  rcases h2 x hx with e | h
  · subst e; exact Or.inr ⟨hc, by simp⟩
  · exact Or.inl h

theorem poolOk_setData {m : Mem} (hp : PoolOk m) (id : Nat) (buf : Buf) (d : Bytes) (hb : m.bufs[id]? = some buf)
    (hd : d.length = buf.data.length) :
    PoolOk { m with bufs := m.bufs.set id { buf with data := d } } := by
  have hlt : id < m.bufs.length := (List.getElem?_eq_some_iff.mp hb).1
  have get : ∀ (x : Nat) (b : Buf), (m.bufs.set id { buf with data := d })[x]? = some b →
      ∃ b0, m.bufs[x]? = some b0 ∧ b.cap = b0.cap ∧ b.data.length = b0.data.length := by
    intro x b hx
    rw [List.getElem?_set] at hx
    split at hx
    · rename_i e; subst e
      simp [hlt] at hx; subst hx
      exact ⟨buf, hb, rfl, hd⟩
    · exact ⟨b, hx, rfl, rfl⟩
  have put : ∀ (x : Nat) (b0 : Buf), m.bufs[x]? = some b0 →
      ∃ b, (m.bufs.set id { buf with data := d })[x]? = some b ∧ b.cap = b0.cap := by
    intro x b0 hx
    rw [List.getElem?_set]
    split
    · rename_i e; subst e
      rw [hb] at hx; cases hx
      simp [hlt]
    · exact ⟨b0, hx, rfl⟩
  refine ⟨hp.len, hp.nodup, hp.disj, ?_, ?_⟩
  · intro k p x hk hx
    obtain ⟨b0, hb0, hc⟩ := hp.size k p x hk hx
    obtain ⟨b, hb', hc'⟩ := put x b0 hb0
    exact ⟨b, hb', by rw [hc', hc]⟩
  · intro x b hx
    obtain ⟨b0, hb0, hc, hl⟩ := get x b hx
    have := hp.caps x b0 hb0
    unfold CapOk at *
    rw [hc, hl]; exact this

theorem Trans.fill {m m' : Mem} {c : Conn} {off : Nat} {d : Bytes} (hp : PoolOk m) (hh : Held m c)
    (hf : fill m c off d = some m') : Trans m c m' c := by
  unfold BufOwn.fill at hf
  cases hc : c.cur with
  | none => simp [hc] at hf
  | some id =>
    simp only [hc] at hf
    cases hb : m.bufs[id]? with
    | none => simp [hb] at hf
    | some buf =>
      simp only [hb] at hf
      split at hf
      case isFalse => cases hf
      rename_i hbound
      simp only [Option.some.injEq] at hf
      subst hf
      have hlt : id < m.bufs.length := (List.getElem?_eq_some_iff.mp hb).1
      obtain ⟨hnin, b0, hb0, hlen⟩ := hh.cur id hc
      rw [hb] at hb0; cases hb0
      refine ⟨poolOk_setData hp id buf _ hb (writeAt_length _ _ _ hbound), fun x hx => Or.inl hx, ?_, ?_, ?_⟩
      · intro x hx
        rw [hc] at hx; cases hx
        refine ⟨hnin, ⟨{ buf with data := writeAt buf.data off d }, by simp [hlt], hlen⟩, Or.inl hc⟩
      · intro x b hx hne
        simp only
        rw [List.getElem?_set]
        split
        · rename_i e; subst e; exact absurd hc hne
        · exact hx
      · intro x b hx
        simp only
        rw [List.getElem?_set]
        split
        · rename_i e; subst e
          rw [hb] at hx; cases hx
          exact ⟨{ buf with data := writeAt buf.data off d }, by simp [hlt], rfl⟩
        · exact ⟨b, hx, rfl⟩

/-! the functions of mysql/conn.go -/

theorem trans_readEnter {m : Mem} {c c' : Conn} (hp : PoolOk m) (hh : Held m c) (h : readEnter c = some c') :
    Trans m c m c' := by
  unfold readEnter at h
  split at h
  · cases h
  · rename_i hpol
    simp only [Option.some.injEq] at h
    subst h
    exact Trans.policy hp hh .read

theorem trans_readBegin {m m' : Mem} {c c' : Conn} {hdr : Option Nat} {k : RdKind} (hp : PoolOk m) (hh : Held m c)
    (h : readBegin m c hdr = some (m', c', k)) : Trans m c m' c' := by
  unfold readBegin at h
  cases hdr with
  | none => simp at h; obtain ⟨rfl, rfl, _⟩ := h; exact Trans.refl hp hh
  | some n =>
    simp only at h
    split at h
    · simp at h; obtain ⟨rfl, rfl, _⟩ := h; exact Trans.refl hp hh
    · split at h
      · cases hg : poolGet m n with
        | none => simp [hg] at h
        | some r =>
          obtain ⟨id, m1⟩ := r
          simp only [hg, Option.some.injEq, Prod.mk.injEq] at h
          obtain ⟨rfl, rfl, _⟩ := h
          have := Trans.acquire (c := c) hp c.policy hg
          simpa using this
      · simp at h; obtain ⟨rfl, rfl, _⟩ := h; exact Trans.refl hp hh

theorem trans_recycleRead {v : Variant} (hv : v.recycleClears = true) {m m' : Mem} {c c' : Conn} (hp : PoolOk m) (hh : Held m c)
    (h : recycleRead v m c = some (m', c')) : Trans m c m' c' := by
  unfold recycleRead at h
  split at h
  · cases h
  · cases hc : c.cur with
    | none =>
      simp only [hc, Option.some.injEq, Prod.mk.injEq] at h
      obtain ⟨rfl, rfl⟩ := h
      have := Trans.policy hp hh .unused
      simpa [hc] using this
    | some id =>
      simp only [hc] at h
      cases hput : poolPut m id with
      | none => simp [hput] at h
      | some m1 =>
        simp only [hput, hv, if_true, Option.some.injEq, Prod.mk.injEq] at h
        obtain ⟨rfl, rfl⟩ := h
        exact Trans.release hp hh hc hput

theorem trans_startEphemeral {m m' : Mem} {c c' : Conn} {n : Nat} (hp : PoolOk m)
    (h : startEphemeral m c n = some (m', c')) : Trans m c m' c' := by
  unfold startEphemeral at h
  split at h
  · cases h
  · cases hg : poolGet m n with
    | none => simp [hg] at h
    | some r =>
      obtain ⟨id, m1⟩ := r
      simp only [hg, Option.some.injEq, Prod.mk.injEq] at h
      obtain ⟨rfl, rfl⟩ := h
      exact Trans.acquire hp .write hg

theorem trans_writeEphemeral {m m' : Mem} {c c' : Conn} (hp : PoolOk m) (hh : Held m c)
    (h : writeEphemeral m c = some (m', c')) : Trans m c m' c' := by
  unfold writeEphemeral at h
  split at h
  · cases h
  · cases hc : c.cur with
    | none => simp [hc] at h
    | some id =>
      simp only [hc] at h
      cases hput : poolPut m id with
      | none => simp [hput] at h
      | some m1 =>
        simp only [hput, Option.some.injEq, Prod.mk.injEq] at h
        obtain ⟨rfl, rfl⟩ := h
        exact Trans.release hp hh hc hput


/-! ### the whole system -/

/-- **The ownership invariant.**  The pool is well formed (no buffer twice in
    a bucket or in two buckets, every pooled buffer has the size of its
    bucket); a buffer a connection holds is not in the pool and is large
    enough for the packet it was taken for; no two connections hold the same
    buffer; a connection whose policy is `unused` holds none. -/
structure Own (w : Sys) : Prop where
  pool : PoolOk w.mem
  held : ∀ (i : Nat) (s : Sess), w.sess[i]? = some s → Held w.mem s.conn
  distinct : ∀ (i j : Nat) (s t : Sess) (x : Nat), i ≠ j → w.sess[i]? = some s → w.sess[j]? = some t →
      s.conn.cur = some x → t.conn.cur ≠ some x

theorem own_init (n : Nat) : Own (Sys.init n) := by
  refine ⟨poolOk_init, ?_, ?_⟩
  · intro i s hs
    have : s = Sess.init := by
      simp [Sys.init, List.getElem?_replicate] at hs; exact hs.2.symm
    subst this
    exact ⟨fun x hx => by simp [Sess.init, Conn.init] at hx⟩
  · intro i j s t x _ hs _ hx
    have : s = Sess.init := by
      simp [Sys.init, List.getElem?_replicate] at hs; exact hs.2.symm
    subst this
    simp [Sess.init, Conn.init] at hx

/-- session `i` makes a step that is a `Trans` of its connection -/
theorem own_update {w : Sys} {i : Nat} {s s' : Sess} {m' : Mem} (h : Own w) (hs : w.sess[i]? = some s)
    (ht : Trans w.mem s.conn m' s'.conn) : Own ⟨m', w.sess.set i s'⟩ := by
  have hilt : i < w.sess.length := (List.getElem?_eq_some_iff.mp hs).1
  refine ⟨ht.pool, ?_, ?_⟩
  · intro j t hj
    simp only at hj
    rw [List.getElem?_set] at hj
    split at hj
    · rename_i e; subst e
      simp [hilt] at hj; subst hj
      exact ⟨fun x hx => ⟨(ht.cur x hx).1, (ht.cur x hx).2.1⟩⟩
    · rename_i e
      have ho := h.held j t hj
      refine ⟨fun x hx => ?_⟩
      obtain ⟨hnin, b, hb, hlen⟩ := ho.cur x hx
      refine ⟨?_, ?_⟩
      · intro hin
        rcases ht.grow x hin with hold | ⟨hc, _⟩
        · exact hnin hold
        · exact h.distinct i j s t x e hs hj hc hx
      · obtain ⟨b', hb', hc⟩ := ht.caps x b hb
        exact ⟨b', hb', by omega⟩
  · intro j k t u x hjk hj hk hx hx'
    simp only at hj hk
    rw [List.getElem?_set] at hj hk
    -- the buffer session i holds after the step is held by nobody else
    have key : ∀ (l : Nat) (v : Sess), i ≠ l → w.sess[l]? = some v → s'.conn.cur = some x → v.conn.cur ≠ some x := by
      intro l v hil hl hc hv
      obtain ⟨_, _, hsrc⟩ := ht.cur x hc
      obtain ⟨hnin, b, hb, _⟩ := (h.held l v hl).cur x hv
      rcases hsrc with h1 | h1 | h1
      · exact h.distinct i l s v x hil hs hl h1 hv
      · exact hnin h1
      · have := (List.getElem?_eq_some_iff.mp hb).1; omega
    split at hj
    · rename_i e; subst e
      simp [hilt] at hj; subst hj
      split at hk
      · rename_i e; exact absurd e hjk
      · rename_i e
        exact key k u e hk hx hx'
    · rename_i e
      split at hk
      · rename_i e'; subst e'
        simp [hilt] at hk; subst hk
        exact key j t e hj hx' hx
      · exact h.distinct j k t u x hjk hj hk hx hx'


/-! ### the steps of a session -/

/-- a continuation touches neither the shared memory nor the connection's bookkeeping -/
theorem contCore_conn (cfg : Cfg) (pkt : Bytes) (res : AuthRef → Bytes) (s : Sess) (c : Cont) (rest : List Instr) :
    (contCore cfg pkt res s c rest).1.conn = s.conn := by
  unfold contCore
  simp only [died]
  repeat' split
  all_goals rfl

theorem cont_frame {cfg : Cfg} {m m' : Mem} {s s' : Sess} {c : Cont} {rest : List Instr} {obs : List Obs}
    (h : cont cfg m s c rest = .ok m' s' obs) : m' = m ∧ s'.conn = s.conn := by
  unfold cont at h
  simp only [TickR.ok.injEq] at h
  obtain ⟨rfl, rfl, _⟩ := h
  exact ⟨rfl, contCore_conn _ _ _ _ _ _⟩

theorem tick_trans {cfg : Cfg} (hv : cfg.v.recycleClears = true) {m m' : Mem} {s s' : Sess} {obs : List Obs}
    (hp : PoolOk m) (hh : Held m s.conn) (h : tick cfg m s = .ok m' s' obs) : Trans m s.conn m' s'.conn := by
  unfold tick at h
  split at h
  · cases h
  · cases h
  · cases h
  · -- enter
    split at h
    · simp only [diedT, TickR.ok.injEq] at h; obtain ⟨rfl, rfl, _⟩ := h; exact Trans.refl hp hh
    · rename_i c' hc
      simp only [TickR.ok.injEq] at h; obtain ⟨rfl, rfl, _⟩ := h
      exact trans_readEnter hp hh hc
  · -- recycle
    split at h
    · simp only [diedT, TickR.ok.injEq] at h; obtain ⟨rfl, rfl, _⟩ := h; exact Trans.refl hp hh
    · rename_i m1 c' hc
      simp only [TickR.ok.injEq] at h; obtain ⟨rfl, rfl, _⟩ := h
      exact trans_recycleRead hv hp hh hc
  · -- start
    split at h
    · simp only [diedT, TickR.ok.injEq] at h; obtain ⟨rfl, rfl, _⟩ := h; exact Trans.refl hp hh
    · rename_i m1 c' hc
      simp only [TickR.ok.injEq] at h; obtain ⟨rfl, rfl, _⟩ := h
      exact trans_startEphemeral hp hc
  · -- flush
    split at h
    · simp only [diedT, TickR.ok.injEq] at h; obtain ⟨rfl, rfl, _⟩ := h; exact Trans.refl hp hh
    · rename_i m1 c' hc
      simp only [TickR.ok.injEq] at h; obtain ⟨rfl, rfl, _⟩ := h
      exact trans_writeEphemeral hp hh hc
  · -- continuation
    obtain ⟨rfl, hc⟩ := cont_frame h
    rw [hc]; exact Trans.refl hp hh

theorem feedHdr_trans {m m' : Mem} {s s' : Sess} {n : Nat} (hp : PoolOk m) (hh : Held m s.conn)
    (h : feedHdr m s n = some (m', s')) : Trans m s.conn m' s'.conn := by
  unfold feedHdr at h
  split at h
  · cases hb : readBegin m s.conn (some n) with
    | none => simp only [hb, Option.some.injEq, Prod.mk.injEq] at h; obtain ⟨rfl, rfl⟩ := h; exact Trans.refl hp hh
    | some r =>
      obtain ⟨m1, c1, k⟩ := r
      have ht := trans_readBegin hp hh hb
      simp only [hb] at h
      cases k <;> simp only [Option.some.injEq, Prod.mk.injEq] at h <;> obtain ⟨rfl, rfl⟩ := h <;> exact ht
  · cases h

theorem feedBody_trans {m m' : Mem} {s s' : Sess} {b : Bytes} (hp : PoolOk m) (hh : Held m s.conn)
    (h : feedBody m s b = some (m', s')) : Trans m s.conn m' s'.conn := by
  unfold feedBody at h
  split at h
  · simp only at h
    split at h
    · simp only [Option.some.injEq, Prod.mk.injEq] at h; obtain ⟨rfl, rfl⟩ := h; exact Trans.refl hp hh
    · rename_i m1 hf
      split at h <;>
      · simp only [Option.some.injEq, Prod.mk.injEq] at h; obtain ⟨rfl, rfl⟩ := h
        exact Trans.fill hp hh hf
  · cases h

theorem feedEof_trans {m m' : Mem} {s s' : Sess} (hp : PoolOk m) (hh : Held m s.conn)
    (h : feedEof m s = some (m', s')) : Trans m s.conn m' s'.conn := by
  unfold feedEof at h
  split at h
  · simp only [readBegin] at h
    simp only [Option.some.injEq, Prod.mk.injEq] at h; obtain ⟨rfl, rfl⟩ := h; exact Trans.refl hp hh
  · simp only [Option.some.injEq, Prod.mk.injEq] at h; obtain ⟨rfl, rfl⟩ := h; exact Trans.refl hp hh
  · cases h


/-- **Every step of every session preserves the ownership invariant**, whatever
    program the session runs, provided `RecycleReadPacket` clears the pointer
    to the buffer it has returned. -/
theorem step_own (cfg : Cfg) (hv : cfg.v.recycleClears = true) (w : Sys) (h : Own w) (i : Nat) (e : Ev) :
    Own (Sys.step cfg w i e).1 := by
  unfold Sys.step
  cases hs : w.sess[i]? with
  | none => exact h
  | some s =>
    have hp := h.pool
    have hh := h.held i s hs
    have same : ∀ s' : Sess, s'.conn = s.conn → Own ⟨w.mem, w.sess.set i s'⟩ := by
      intro s' hc
      exact own_update h hs (by rw [hc]; exact Trans.refl hp hh)
    cases e with
    | tick =>
      simp only
      cases ht : tick cfg w.mem s with
      | ok m s' obs => exact own_update h hs (tick_trans hv hp hh ht)
      | blocked => exact h
      | idle => exact h
    | start p =>
      simp only
      split
      · exact same _ rfl
      · exact h
    | hdr n =>
      simp only
      cases hf : feedHdr w.mem s n with
      | none => exact h
      | some r => obtain ⟨m, s'⟩ := r; exact own_update h hs (feedHdr_trans hp hh hf)
    | body b =>
      simp only
      cases hf : feedBody w.mem s b with
      | none => exact h
      | some r => obtain ⟨m, s'⟩ := r; exact own_update h hs (feedBody_trans hp hh hf)
    | eof =>
      simp only
      cases hf : feedEof w.mem s with
      | none => exact h
      | some r => obtain ⟨m, s'⟩ := r; exact own_update h hs (feedEof_trans hp hh hf)

theorem run_own (cfg : Cfg) (hv : cfg.v.recycleClears = true) (w : Sys) (h : Own w) (evs : List (Nat × Ev)) :
    Own (Sys.run cfg w evs).1 := by
  induction evs generalizing w with
  | nil => exact h
  | cons e rest ih =>
    obtain ⟨i, e⟩ := e
    simp only [Sys.run]
    exact ih _ (step_own cfg hv w h i e)


/-! ### a recycled buffer is never read again -/

/-- the buffer a slice returned by a read points to -/
def Rd.buf : Rd → Option Nat
  | .data id _ => Option.some id
  | _ => Option.none

/-- the buffer the kept auth response points to -/
def HsRes.buf : HsRes → Option Nat
  | .info _ (.alias id _ _) => Option.some id
  | _ => Option.none

/-- continuations that look at the packet just read -/
def Cont.reads : Cont → Bool
  | .hs1 => true
  | .hs2 => true
  | .cmd => true
  | _ => false

/-- The pooled buffers the next atomic step of the session reads: the packet
    (`Rd.view`) or the kept auth response (`AuthRef.resolve`). -/
def stepReads (s : Sess) : List Nat :=
  match s.todo with
  | .k c :: _ =>
    match c with
    | .hs1 => s.rd.buf.toList
    | .hs2 => s.rd.buf.toList
    | .cmd => s.rd.buf.toList
    | .doneResp => s.hs.buf.toList
    | .doneHs => s.hs.buf.toList
    | .check => s.hs.buf.toList
    | .hsTail => s.hs.buf.toList
    | _ => []
  | _ => []

/-- every continuation that looks at a packet directly follows the read of that packet -/
def okTail : List Instr → Bool
  | [] => true
  | .readHdr :: .k _ :: r => okTail r
  | .readBody :: .k _ :: r => okTail r
  | .k c :: r => !c.reads && okTail r
  | .enter :: r => okTail r
  | .recycle :: r => okTail r
  | .start _ :: r => okTail r
  | .flush :: r => okTail r
  | .readHdr :: r => okTail r
  | .readBody :: r => okTail r

/-- the slice the last read returned is a slice of the buffer the connection holds -/
def ViewOk (s : Sess) : Prop := ∀ id len, s.rd = .data id len → s.conn.cur = some id ∧ s.conn.len = len ∧ s.filled = len

/-- a continuation at the head that looks at the packet finds it in the buffer the connection holds -/
def Shape (s : Sess) : List Instr → Prop
  | .k c :: r => (c.reads = true → ViewOk s) ∧ okTail r = true
  | t => okTail t = true

/-- The shape of a session that runs the programs of the repaired source. -/
structure Good (s : Sess) : Prop where
  noAlias : s.hs.buf = Option.none
  shape : Shape s s.todo

theorem good_init : Good Sess.init := ⟨rfl, rfl⟩

theorem okTail_writes (n : Nat) (r : List Instr) : okTail (writes n ++ r) = okTail r := by
  induction n with
  | zero => rfl
  | succ n ih => simp [writes, okTail, ih]

/-- `okTail t` gives the shape clause of `Good` for `t` at the head, whatever the last read was,
    provided a reading continuation is not at the head -/
theorem shape_of_okTail (s : Sess) (t : List Instr) (h : okTail t = true) : Shape s t := by
  match t, h with
  | [], _ => rfl
  | .k c :: r, h =>
    simp only [okTail, Bool.and_eq_true, Bool.not_eq_true'] at h
    exact ⟨fun hc => by rw [h.1] at hc; exact absurd hc (by decide), h.2⟩
  | .enter :: r, h => exact h
  | .recycle :: r, h => exact h
  | .start _ :: r, h => exact h
  | .flush :: r, h => exact h
  | .readHdr :: r, h => exact h
  | .readBody :: r, h => exact h


theorem good_of_okTail (s : Sess) (h1 : s.hs.buf = Option.none) (h2 : okTail s.todo = true) : Good s :=
  ⟨h1, shape_of_okTail s s.todo h2⟩

/-- what `Good` says about the rest of the list once the head is known -/
theorem Good.rest {s : Sess} (h : Good s) {i : Instr} {rest : List Instr} (ht : s.todo = i :: rest) :
    okTail rest = true ∨ (∃ c r, (i = .readHdr ∨ i = .readBody) ∧ rest = .k c :: r ∧ okTail r = true) := by
  have hs := h.shape
  rw [ht] at hs
  cases i with
  | k c => exact Or.inl hs.2
  | enter => exact Or.inl hs
  | recycle => exact Or.inl hs
  | start n => exact Or.inl hs
  | flush => exact Or.inl hs
  | readHdr =>
    cases rest with
    | nil => exact Or.inl rfl
    | cons j r =>
      cases j with
      | k c => exact Or.inr ⟨c, r, Or.inl rfl, rfl, hs⟩
      | enter => exact Or.inl hs
      | recycle => exact Or.inl hs
      | start n => exact Or.inl hs
      | flush => exact Or.inl hs
      | readHdr => exact Or.inl hs
      | readBody => exact Or.inl hs
  | readBody =>
    cases rest with
    | nil => exact Or.inl rfl
    | cons j r =>
      cases j with
      | k c => exact Or.inr ⟨c, r, Or.inr rfl, rfl, hs⟩
      | enter => exact Or.inl hs
      | recycle => exact Or.inl hs
      | start n => exact Or.inl hs
      | flush => exact Or.inl hs
      | readHdr => exact Or.inl hs
      | readBody => exact Or.inl hs

theorem contCore_good {cfg : Cfg} (hsw : cfg.v.copySwitch = true) (hnl : cfg.v.copyNull = true) (pkt : Bytes)
    (res : AuthRef → Bytes) {s : Sess} {c : Cont} {rest : List Instr} (hno : s.hs.buf = Option.none) (hr : okTail rest = true) :
    Good (contCore cfg pkt res s c rest).1 := by
  unfold contCore
  simp only [died, hsw, hnl, Bool.or_true, if_true]
  repeat' split
  all_goals refine good_of_okTail _ ?_ ?_
  all_goals first
    | rfl
    | exact hno
    | exact hr
    | (simp only [okTail, okTail_writes, List.cons_append, hr, Bool.and_true, Cont.reads, Bool.not_false, Bool.true_and])
    | (simp_all [HsRes.buf])

theorem cont_good {cfg : Cfg} (hsw : cfg.v.copySwitch = true) (hnl : cfg.v.copyNull = true) {m m' : Mem} {s s' : Sess}
    {c : Cont} {rest : List Instr} {obs : List Obs} (hno : s.hs.buf = Option.none) (hr : okTail rest = true)
    (h : cont cfg m s c rest = .ok m' s' obs) : Good s' := by
  unfold cont at h
  simp only [TickR.ok.injEq] at h
  obtain ⟨_, rfl, _⟩ := h
  exact contCore_good hsw hnl _ _ hno hr

theorem tick_good {cfg : Cfg} (hsw : cfg.v.copySwitch = true) (hnl : cfg.v.copyNull = true) {m m' : Mem} {s s' : Sess}
    {obs : List Obs} (hg : Good s) (h : tick cfg m s = .ok m' s' obs) : Good s' := by
  unfold tick at h
  split at h
  · cases h
  · cases h
  · cases h
  all_goals
    rename_i rest ht
    have hr := hg.rest ht
  · -- enter
    have hr' : okTail rest = true := by
      rcases hr with h1 | ⟨_, _, h1, _⟩
      · exact h1
      · rcases h1 with h1 | h1 <;> cases h1
    split at h <;>
    · simp only [diedT, TickR.ok.injEq] at h; obtain ⟨_, rfl, _⟩ := h
      exact good_of_okTail _ hg.noAlias (by first | rfl | exact hr')
  · have hr' : okTail rest = true := by
      rcases hr with h1 | ⟨_, _, h1, _⟩
      · exact h1
      · rcases h1 with h1 | h1 <;> cases h1
    split at h <;>
    · simp only [diedT, TickR.ok.injEq] at h; obtain ⟨_, rfl, _⟩ := h
      exact good_of_okTail _ hg.noAlias (by first | rfl | exact hr')
  · have hr' : okTail rest = true := by
      rcases hr with h1 | ⟨_, _, h1, _⟩
      · exact h1
      · rcases h1 with h1 | h1 <;> cases h1
    split at h <;>
    · simp only [diedT, TickR.ok.injEq] at h; obtain ⟨_, rfl, _⟩ := h
      exact good_of_okTail _ hg.noAlias (by first | rfl | exact hr')
  · have hr' : okTail rest = true := by
      rcases hr with h1 | ⟨_, _, h1, _⟩
      · exact h1
      · rcases h1 with h1 | h1 <;> cases h1
    split at h <;>
    · simp only [diedT, TickR.ok.injEq] at h; obtain ⟨_, rfl, _⟩ := h
      exact good_of_okTail _ hg.noAlias (by first | rfl | exact hr')
  · have hr' : okTail rest = true := by
      rcases hr with h1 | ⟨_, _, h1, _⟩
      · exact h1
      · rcases h1 with h1 | h1 <;> cases h1
    exact cont_good hsw hnl hg.noAlias hr' h

theorem feedHdr_good {m m' : Mem} {s s' : Sess} {n : Nat} (hg : Good s) (h : feedHdr m s n = some (m', s')) : Good s' := by
  unfold feedHdr at h
  split at h
  · rename_i rest ht
    have hr := hg.rest ht
    cases hb : readBegin m s.conn (some n) with
    | none =>
      simp only [hb, Option.some.injEq, Prod.mk.injEq] at h; obtain ⟨_, rfl⟩ := h
      exact good_of_okTail _ hg.noAlias rfl
    | some r =>
      obtain ⟨m1, c1, k⟩ := r
      simp only [hb] at h
      cases k <;> simp only [Option.some.injEq, Prod.mk.injEq] at h <;> obtain ⟨_, rfl⟩ := h
      · -- err (not produced for a header that arrived): as for the empty packet
        refine ⟨hg.noAlias, ?_⟩
        rcases hr with h1 | ⟨c, r, _, rfl, h1⟩
        · exact shape_of_okTail _ _ h1
        · exact ⟨fun _ id len hd => (by cases hd), h1⟩
      · refine ⟨hg.noAlias, ?_⟩
        rcases hr with h1 | ⟨c, r, _, rfl, h1⟩
        · exact shape_of_okTail _ _ h1
        · exact ⟨fun _ id len hd => (by cases hd), h1⟩
      · refine ⟨hg.noAlias, ?_⟩
        rcases hr with h1 | ⟨c, r, _, rfl, h1⟩
        · cases rest with
          | nil => rfl
          | cons j r => cases j <;> first | exact h1 | (simp only [okTail, Bool.and_eq_true] at h1; exact h1.2)
        · exact h1
      · exact good_of_okTail _ hg.noAlias rfl
  · cases h


theorem feedBody_good {m m' : Mem} {s s' : Sess} {b : Bytes} (hg : Good s) (h : feedBody m s b = some (m', s')) : Good s' := by
  unfold feedBody at h
  split at h
  · rename_i rest ht
    have hr := hg.rest ht
    simp only at h
    split at h
    · simp only [Option.some.injEq, Prod.mk.injEq] at h; obtain ⟨_, rfl⟩ := h
      exact good_of_okTail _ hg.noAlias rfl
    · split at h
      · rename_i hfull
        simp only [Option.some.injEq, Prod.mk.injEq] at h; obtain ⟨_, rfl⟩ := h
        refine ⟨hg.noAlias, ?_⟩
        rcases hr with h1 | ⟨c, r, _, rfl, h1⟩
        · exact shape_of_okTail _ _ h1
        · refine ⟨fun _ id len hd => ?_, h1⟩
          simp only at hd
          split at hd
          · rename_i id' hc
            cases hd
            exact ⟨hc, rfl, hfull⟩
          · cases hd
      · simp only [Option.some.injEq, Prod.mk.injEq] at h; obtain ⟨_, rfl⟩ := h
        refine ⟨hg.noAlias, ?_⟩
        have hs := hg.shape
        rw [ht] at hs
        simp only [ht]
        exact hs
  · cases h

theorem feedEof_good {m m' : Mem} {s s' : Sess} (hg : Good s) (h : feedEof m s = some (m', s')) : Good s' := by
  unfold feedEof at h
  split at h
  · rename_i rest ht
    have hr := hg.rest ht
    simp only [readBegin, Option.some.injEq, Prod.mk.injEq] at h; obtain ⟨_, rfl⟩ := h
    refine ⟨hg.noAlias, ?_⟩
    rcases hr with h1 | ⟨c, r, _, rfl, h1⟩
    · exact shape_of_okTail _ _ h1
    · exact ⟨fun _ id len hd => (by cases hd), h1⟩
  · rename_i rest ht
    have hr := hg.rest ht
    simp only [Option.some.injEq, Prod.mk.injEq] at h; obtain ⟨_, rfl⟩ := h
    refine ⟨hg.noAlias, ?_⟩
    rcases hr with h1 | ⟨c, r, _, rfl, h1⟩
    · exact shape_of_okTail _ _ h1
    · exact ⟨fun _ id len hd => (by cases hd), h1⟩
  · cases h

/-- the goroutines the proxy starts on a connection -/
def RealProg (cfg : Cfg) (p : List Instr) : Prop :=
  p = progGreet cfg ∨ p = progResp ∨ p = progCheck ∨ p = progHs cfg ∨ p = progRun

theorem realProg_okTail {cfg : Cfg} {p : List Instr} (h : RealProg cfg p) : okTail p = true := by
  rcases h with h | h | h | h | h <;> subst h <;> rfl

/-- events whose `start` events start real programs only -/
def RealEv (cfg : Cfg) : Ev → Prop
  | .start p => RealProg cfg p
  | _ => True

/-- every session has the shape of `Good` -/
def GoodSys (w : Sys) : Prop := ∀ (i : Nat) (s : Sess), w.sess[i]? = some s → Good s

theorem goodSys_init (n : Nat) : GoodSys (Sys.init n) := by
  intro i s hs
  have : s = Sess.init := by
    simp [Sys.init, List.getElem?_replicate] at hs; exact hs.2.symm
  subst this; exact good_init

theorem goodSys_set {w : Sys} {i : Nat} {s' : Sess} {m' : Mem} (h : GoodSys w) (hs' : Good s') : GoodSys ⟨m', w.sess.set i s'⟩ := by
  intro j t hj
  simp only at hj
  rw [List.getElem?_set] at hj
  split at hj
  · split at hj
    · cases hj; exact hs'
    · cases hj
  · exact h j t hj

theorem step_good (cfg : Cfg) (hsw : cfg.v.copySwitch = true) (hnl : cfg.v.copyNull = true) (w : Sys) (h : GoodSys w)
    (i : Nat) (e : Ev) (he : RealEv cfg e) : GoodSys (Sys.step cfg w i e).1 := by
  unfold Sys.step
  cases hs : w.sess[i]? with
  | none => exact h
  | some s =>
    have hg := h i s hs
    cases e with
    | tick =>
      simp only
      cases ht : tick cfg w.mem s with
      | ok m s' obs => exact goodSys_set h (tick_good hsw hnl hg ht)
      | blocked => exact h
      | idle => exact h
    | start p =>
      simp only
      split
      · exact goodSys_set h (good_of_okTail _ hg.noAlias (realProg_okTail he))
      · exact h
    | hdr n =>
      simp only
      cases hf : feedHdr w.mem s n with
      | none => exact h
      | some r => obtain ⟨m, s'⟩ := r; exact goodSys_set h (feedHdr_good hg hf)
    | body b =>
      simp only
      cases hf : feedBody w.mem s b with
      | none => exact h
      | some r => obtain ⟨m, s'⟩ := r; exact goodSys_set h (feedBody_good hg hf)
    | eof =>
      simp only
      cases hf : feedEof w.mem s with
      | none => exact h
      | some r => obtain ⟨m, s'⟩ := r; exact goodSys_set h (feedEof_good hg hf)

theorem run_good (cfg : Cfg) (hsw : cfg.v.copySwitch = true) (hnl : cfg.v.copyNull = true) (w : Sys) (h : GoodSys w)
    (evs : List (Nat × Ev)) (he : ∀ e ∈ evs, RealEv cfg e.2) : GoodSys (Sys.run cfg w evs).1 := by
  induction evs generalizing w with
  | nil => exact h
  | cons e rest ih =>
    obtain ⟨i, e⟩ := e
    simp only [Sys.run]
    exact ih _ (step_good cfg hsw hnl w h i e (he (i, e) (by simp))) (fun e' he' => he e' (by simp [he']))

/-- **A recycled buffer is never read again.**  In a session of the shape
    `Good`, every pooled buffer the next step reads (the packet just read, or a
    kept auth response) is the buffer the session's connection holds. -/
theorem good_reads_held {s : Sess} (hg : Good s) : ∀ id ∈ stepReads s, s.conn.cur = some id := by
  intro id hid
  unfold stepReads at hid
  split at hid
  · rename_i c r ht
    have hs := hg.shape
    rw [ht] at hs
    have hno := hg.noAlias
    cases c <;> simp only [hno, Option.toList, List.not_mem_nil] at hid
    all_goals
      have hv := hs.1 rfl
      cases hrd : s.rd with
      | data id' len =>
        simp only [hrd, Rd.buf, Option.toList, List.mem_singleton] at hid
        subst hid
        exact (hv id len hrd).1
      | none => simp [hrd, Rd.buf] at hid
      | err => simp [hrd, Rd.buf] at hid
      | empty => simp [hrd, Rd.buf] at hid
  · simp at hid

end GaeaVerif.BufOwn
