import GaeaVerif.Lemmas.PreviewC21Word
/-
  Helper lemmas for C21: `SplitMarginComments` on a text that starts with a letter.
-/
namespace GaeaVerif.PreviewC21
open GaeaVerif GaeaVerif.LexC17

/-- `x` is empty or starts with an ASCII letter. -/
def StartsLetter (x : Bytes) : Prop := x = [] ∨ ∃ b t, x = b :: t ∧ isAsciiLetterB b = true

theorem startsLetter_take (x : Bytes) (h : StartsLetter x) (m : Nat) : StartsLetter (x.take m) := by
  rcases h with rfl | ⟨b, t, rfl, hb⟩
  · left; simp
  · cases m with
    | zero => left; simp
    | succ m => right; exact ⟨b, t.take m, by simp, hb⟩

theorem leadingCommentEnd_letter (x : Bytes) (h : StartsLetter x) : leadingCommentEnd x = 0 := by
  rcases h with rfl | ⟨b, t, rfl, hb⟩
  · simp [leadingCommentEnd, leadingCommentEndLoop]
  · have hl := letterB b hb
    have hns : isNonSpace b.toNat = true := by
      simp only [isNonSpace, isSpace, Bool.not_eq_true', Bool.or_eq_false_iff, Bool.and_eq_false_iff, decide_eq_false_iff_not]
      omega
    have hidx : indexFunc isNonSpace ((b :: t).length + 1) (b :: t) = some 0 := by
      rw [indexFunc_succ_cons, decodeRune_ascii b t hl.1, if_pos hns]
    have hne : (b :: t).take 2 ≠ cSlashStar := by
      cases t with
      | nil => simp [cSlashStar]
      | cons c t' =>
        simp only [List.take_succ_cons, List.take_zero, cSlashStar, ne_eq, List.cons.injEq, and_true, not_and]
        intro e; rw [e] at hl; exact absurd hl.2 (by decide)
    simp only [leadingCommentEnd, List.length_cons, leadingCommentEndLoop, Nat.zero_lt_succ, if_true, List.drop_zero]
    rw [show t.length + 1 + 1 = (b :: t).length + 1 by simp, hidx]
    simp only [Nat.add_zero, List.drop_zero]
    rw [if_pos (Or.inr hne)]
    simp

/-- The statement without margin comments is a prefix of the text when the text starts with a letter. -/
theorem splitMarginQuery_prefix (x : Bytes) (h : StartsLetter x) : ∃ m, splitMarginQuery x = x.take m := by
  simp only [splitMarginQuery]
  have hy := startsLetter_take x h (trailingCommentStart x)
  rw [leadingCommentEnd_letter _ hy, List.drop_zero]
  rcases hy with hy | ⟨b, t, hy, hb⟩
  · rw [hy]; exact ⟨0, by simp [trimFunc, trimLeftFunc, trimRightFunc]⟩
  · have hl := letterB b hb
    have hf : (fun c => isSpace c || decide (c = 0x3B)) b.toNat = false := by
      simp only [isSpace, Bool.or_eq_false_iff, Bool.and_eq_false_iff, decide_eq_false_iff_not]
      omega
    simp only [trimFunc]
    rw [hy, trimLeft_stop _ _ b t hl.1 hf]
    obtain ⟨m, hm⟩ := trimRight_is_take (fun c => isSpace c || decide (c = 0x3B)) (b :: t).length (b :: t)
    rw [hm, ← hy, List.take_take]
    exact ⟨_, rfl⟩

end GaeaVerif.PreviewC21
