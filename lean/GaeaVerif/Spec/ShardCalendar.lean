/-
  C09 reference: intervals of a range rule, calendar periods of the year /
  month / day rules, the accepted spellings of an instant, and the list of
  periods a `date_range` entry denotes.  Written from the property text and the
  documented configuration format, not from the Go code.

  Core Lean only (the driver evaluates this file as the property oracle).
-/
namespace GaeaVerif.CalendarSpec

/-! ### range rule -/

/-- The table whose half-open interval `[i·limit, (i+1)·limit)`, `0 ≤ i < n`,
    contains `k`. -/
def rangeTable (n : Nat) (limit : Int) (k : Int) : Option Nat :=
  if 0 < limit ∧ 0 ≤ k ∧ k < n * limit then some (k / limit).toNat else none

/-! ### Gregorian calendar -/

def leapYear (y : Int) : Bool := (y % 4 = 0 ∧ y % 100 ≠ 0) ∨ y % 400 = 0

def monthLength (y : Int) (m : Nat) : Nat :=
  match m with
  | 1 => 31 | 2 => if leapYear y then 29 else 28 | 3 => 31 | 4 => 30 | 5 => 31 | 6 => 30
  | 7 => 31 | 8 => 31 | 9 => 30 | 10 => 31 | 11 => 30 | 12 => 31
  | _ => 0

/-- A civil date-time. -/
structure DateTime where
  year : Int
  month : Nat
  day : Nat
  hour : Nat := 0
  minute : Nat := 0
  second : Nat := 0
  deriving Repr, DecidableEq

/-- A real date-time whose year can be written with four digits. -/
def DateTime.valid (c : DateTime) : Bool :=
  0 ≤ c.year && c.year ≤ 9999 && 1 ≤ c.month && c.month ≤ 12 && 1 ≤ c.day &&
    c.day ≤ monthLength c.year c.month && c.hour < 24 && c.minute < 60 && c.second < 60

/-- Period numbers: the table index of the year, month and day rules. -/
def yearNumber (c : DateTime) : Int := c.year
def monthNumber (c : DateTime) : Int := c.year * 100 + c.month
def dayNumber (c : DateTime) : Int := c.year * 10000 + c.month * 100 + c.day

def periodNumber (rule : String) (c : DateTime) : Int :=
  if rule == "date_year" then yearNumber c else if rule == "date_month" then monthNumber c else dayNumber c

/-! ### spellings -/

def digit? (b : Nat) : Option Nat := if 48 ≤ b ∧ b ≤ 57 then some (b - 48) else none

/-- Value of a list of bytes that are all ASCII digits. -/
def number? (bs : List Nat) : Option Nat :=
  bs.foldl (fun acc b => match acc, digit? b with
    | some a, some d => some (a * 10 + d)
    | _, _ => none) (some 0)

/-- Reads `'YYYY-MM-DD'` or `'YYYY-MM-DD hh:mm:ss'` (bytes); `none` for anything else. -/
def parseSpelling (s : List Nat) : Option DateTime :=
  let date? : List Nat → Option DateTime := fun d =>
    match d with
    | [y1, y2, y3, y4, 45, m1, m2, 45, d1, d2] => do
      let y ← number? [y1, y2, y3, y4]; let m ← number? [m1, m2]; let d ← number? [d1, d2]
      some { year := y, month := m, day := d }
    | _ => none
  if s.length = 10 then (date? s).bind fun c => if c.valid then some c else none
  else if s.length = 19 then
    match s.drop 10 with
    | [32, h1, h2, 58, i1, i2, 58, s1, s2] => do
      let c ← date? (s.take 10)
      let h ← number? [h1, h2]; let i ← number? [i1, i2]; let sec ← number? [s1, s2]
      let c := { c with hour := h, minute := i, second := sec }
      if c.valid then some c else none
    | _ => none
  else none

/-- The positions a rule reads from a date string (`YYYY`, `MM`, `DD` fields). -/
def readPositions (rule : String) : List Nat :=
  if rule == "date_year" then [0, 1, 2, 3]
  else if rule == "date_month" then [0, 1, 2, 3, 5, 6]
  else [0, 1, 2, 3, 5, 6, 8, 9]

/-- Clearly malformed for a rule: too short for the fields it reads, or a
    non-digit in one of them. -/
def malformedFor (rule : String) (s : List Nat) : Bool :=
  (readPositions rule).any fun p => match s[p]? with
    | some b => (digit? b).isNone
    | none => true

/-! ### instants -/

def yearLength (y : Int) : Int := if leapYear y then 366 else 365

/-- Civil date of day `z` counted from 1970-01-01, by walking whole years and
    months; `none` outside years 0 … 9999. -/
def dateOfDays (z : Int) : Option DateTime :=
  if z < -719528 ∨ z > 2932896 then none else
  -- walk from 0000-01-01 (day -719528)
  let rec years (fuel : Nat) (y : Int) (d : Int) : Int × Int :=
    match fuel with
    | 0 => (y, d)
    | f + 1 => if d ≥ yearLength y then years f (y + 1) (d - yearLength y) else (y, d)
  let rec months (fuel : Nat) (y : Int) (m : Nat) (d : Int) : Nat × Int :=
    match fuel with
    | 0 => (m, d)
    | f + 1 => if d ≥ monthLength y m then months f y (m + 1) (d - monthLength y m) else (m, d)
  let (y, d) := years 10000 0 (z + 719528)
  let (m, d) := months 12 y 1 d
  some { year := y, month := m, day := (d + 1).toNat }

/-- The civil date-time of unix time `v` in a zone `off` seconds east of UTC. -/
def dateTimeOfUnix (off v : Int) : Option DateTime :=
  let t := v + off
  (dateOfDays (t / 86400)).map fun c =>
    let r := (t % 86400).toNat
    { c with hour := r / 3600, minute := r % 3600 / 60, second := r % 60 }

/-! ### date_range entries -/

def validYearNum (p : Int) : Bool := 0 ≤ p && p ≤ 9999
def validMonthNum (p : Int) : Bool := 0 ≤ p && p / 100 ≤ 9999 && 1 ≤ p % 100 && p % 100 ≤ 12
def validDayNum (p : Int) : Bool :=
  0 ≤ p && p / 10000 ≤ 9999 && 1 ≤ p / 100 % 100 && p / 100 % 100 ≤ 12 && 1 ≤ p % 100 &&
    p % 100 ≤ monthLength (p / 10000) (p / 100 % 100).toNat

def validNum (rule : String) : Int → Bool :=
  if rule == "date_year" then validYearNum else if rule == "date_month" then validMonthNum else validDayNum

def width (rule : String) : Nat :=
  if rule == "date_year" then 4 else if rule == "date_month" then 6 else 8

/-- The period numbers an entry denotes: `P` alone, or every period from `A`
    to `B` in `A-B` (in either order), ascending; `none` if the entry is not of
    that form with valid periods of the rule's width. -/
def entryPeriods (rule : String) (entry : List Nat) : Option (List Int) :=
  let field? : List Nat → Option Int := fun f =>
    if f.length = width rule then
      (number? f).bind fun n => if validNum rule n then some (n : Int) else none
    else none
  match entry.span (· ≠ 45) with
  | (a, []) => (field? a).map fun p => [p]
  | (a, _ :: b) =>
    match field? a, field? b with
    | some p, some q =>
      let lo := min p q
      let hi := max p q
      some (((List.range (hi - lo + 1).toNat).map fun (i : Nat) => lo + (i : Int)).filter (validNum rule))
    | _, _ => none

/-- The sub-table list of a whole `date_range` configuration: the entries'
    periods concatenated, provided they are strictly ascending across entries;
    `none` if some entry is malformed or the entries overlap / are out of order. -/
def configPeriods (rule : String) (entries : List (List Nat)) : Option (List Int) :=
  entries.foldl (fun acc e => match acc, entryPeriods rule e with
    | some l, some ps =>
      match l.getLast?, ps.head? with
      | some last, some first => if first ≤ last then none else some (l ++ ps)
      | _, _ => some (l ++ ps)
    | _, _ => none) (some [])

end GaeaVerif.CalendarSpec
