import GaeaVerif.Model.BinRow
/-
  C13 — reference semantics, written independently of the encoder model:

  * `Val`: what a column value *is* (an integer, a float bit pattern, a decimal
    number, a byte string, a civil date/time, a signed duration, NULL);
  * `denoteText`: the value a text-protocol cell of a given column type
    denotes, defined only on the spellings a MySQL server produces for that
    type (`none` = not a value of the type: the property demands nothing);
  * `decodeTextRow`: the cells of a text-protocol row;
  * `decodeBinRow`: a decoder of the MySQL binary-protocol row format
    (header byte, null bitmap with offset 2, per-type value encodings).

  It shares with the model only `Field`, `FloatOps`, the column type numbers
  and the value of a run of decimal digits.  Core Lean only.
-/
namespace GaeaVerif.BinProto
open GaeaVerif GaeaVerif.BinRow

inductive Val where
  | null
  | int (v : Int)
  | f32 (bits : Nat)
  | f64 (bits : Nat)
  | dec (unscaled : Int) (scale : Nat)         -- unscaled · 10^-scale
  | bytes (b : Bytes)
  | dt (y mo d h mi s us : Nat)                -- DATE / DATETIME / TIMESTAMP
  | time (us : Int)                            -- TIME, signed microseconds
  deriving Repr, DecidableEq

/-- Same value: decimals are compared as numbers, everything else literally. -/
def Val.same : Val → Val → Bool
  | .dec u1 s1, .dec u2 s2 => u1 * 10 ^ s2 == u2 * 10 ^ s1
  | a, b => a == b

/-! ### the value a text cell denotes -/

def allDigits (s : Bytes) : Bool := !s.isEmpty && s.all isDigit

/-- `[-]digits`. -/
def intText (s : Bytes) : Option Int :=
  match s with
  | 45 :: ds => if allDigits ds then some (-(decVal ds : Int)) else none
  | ds => if allDigits ds then some (decVal ds : Int) else none

/-- Byte width of an integer column type. -/
def intWidth (ty : Nat) : Option Nat :=
  if ty = TypeTiny then some 1
  else if ty = TypeShort ∨ ty = TypeYear then some 2
  else if ty = TypeLong ∨ ty = TypeInt24 then some 4
  else if ty = TypeLonglong then some 8
  else none

/-- Is `v` a value of a `w`-byte integer of the given signedness? -/
def inIntRange (w : Nat) (unsigned : Bool) (v : Int) : Bool :=
  if unsigned then decide (0 ≤ v ∧ v < 2 ^ (8 * w))
  else decide (-(2 ^ (8 * w - 1) : Int) ≤ v ∧ v < 2 ^ (8 * w - 1))

/-- Split at the first `.`; `none` when there is none. -/
def splitDot : Bytes → Option (Bytes × Bytes)
  | [] => none
  | c :: cs => if c = 46 then some ([], cs) else (splitDot cs).map fun (a, b) => (c :: a, b)

/-- `digits[.digits]` as (unscaled, scale). -/
def decimalBody (body : Bytes) : Option (Nat × Nat) :=
  match splitDot body with
  | none => if allDigits body then some (decVal body, 0) else none
  | some (i, f) => if allDigits i && allDigits f then some (decVal (i ++ f), f.length) else none

/-- `[-]digits[.digits]` as (unscaled, scale). -/
def decimalText (s : Bytes) : Option (Int × Nat) :=
  let neg := s.head? == some 45
  let body := if neg then s.drop 1 else s
  (decimalBody body).map fun (u, sc) => (if neg then -(u : Int) else (u : Int), sc)

def two (a b : UInt8) : Option Nat :=
  if isDigit a && isDigit b then some (digVal a * 10 + digVal b) else none

def four (a b c d : UInt8) : Option Nat :=
  if isDigit a && isDigit b && isDigit c && isDigit d then
    some (digVal a * 1000 + digVal b * 100 + digVal c * 10 + digVal d) else none

/-- `.d{1,6}` or nothing → microseconds. -/
def fracText (s : Bytes) : Option Nat :=
  match s with
  | [] => some 0
  | 46 :: ds => if allDigits ds && ds.length ≤ 6 then some (decVal ds * 10 ^ (6 - ds.length)) else none
  | _ => none

/-- `YYYY-MM-DD`. -/
def dateText (s : Bytes) : Option Val :=
  match s with
  | [y0, y1, y2, y3, 45, m0, m1, 45, d0, d1] =>
    match four y0 y1 y2 y3, two m0 m1, two d0 d1 with
    | some y, some m, some d => if m ≤ 12 ∧ d ≤ 31 then some (.dt y m d 0 0 0 0) else none
    | _, _, _ => none
  | _ => none

/-- `YYYY-MM-DD HH:MM:SS[.ffffff]`. -/
def datetimeText (s : Bytes) : Option Val :=
  match s with
  | y0 :: y1 :: y2 :: y3 :: 45 :: m0 :: m1 :: 45 :: d0 :: d1 :: 32 :: h0 :: h1 :: 58 :: i0 :: i1 :: 58 :: s0 :: s1 :: frac =>
    match four y0 y1 y2 y3, two m0 m1, two d0 d1, two h0 h1, two i0 i1, two s0 s1, fracText frac with
    | some y, some m, some d, some h, some mi, some sec, some us =>
      if m ≤ 12 ∧ d ≤ 31 ∧ h < 24 ∧ mi < 60 ∧ sec < 60 then some (.dt y m d h mi sec us) else none
    | _, _, _, _, _, _, _ => none
  | _ => none

/-- Split at the first `:`. -/
def splitColon : Bytes → Option (Bytes × Bytes)
  | [] => none
  | c :: cs => if c = 58 then some ([], cs) else (splitColon cs).map fun (a, b) => (c :: a, b)

/-- `[-]H…:MM:SS[.ffffff]` with at most 838 hours. -/
def timeText (s : Bytes) : Option Val :=
  let neg := s.head? == some 45
  let body := if neg then s.drop 1 else s
  match splitColon body with
  | some (hs, i0 :: i1 :: 58 :: s0 :: s1 :: frac) =>
    match two i0 i1, two s0 s1, fracText frac with
    | some mi, some sec, some us =>
      if allDigits hs ∧ decVal hs ≤ 838 ∧ mi < 60 ∧ sec < 60 then
        let total : Int := (((decVal hs * 60 + mi) * 60 + sec) * 1000000 + us : Nat)
        some (.time (if neg then -total else total))
      else none
    | _, _, _ => none
  | _ => none

def isBytesType (ty : Nat) : Bool :=
  ty == TypeVarchar || ty == TypeBit || ty == TypeJSON || ty == TypeEnum || ty == TypeSet
    || ty == TypeTinyBlob || ty == TypeMediumBlob || ty == TypeLongBlob || ty == TypeBlob
    || ty == TypeVarString || ty == TypeString || ty == TypeGeometry

/-- The value denoted by a text-protocol cell (`none` cell = SQL NULL) of a
    column; `none` result = the text is not a value of that column type. -/
def denoteText (ops : FloatOps) (f : Field) (cell : Option Bytes) : Option Val :=
  match cell with
  | none => some .null
  | some s =>
    match intWidth f.typ with
    | some w =>
      match intText s with
      | some v => if inIntRange w f.isUnsigned v then some (.int v) else none
      | none => none
    | none =>
      if f.typ = TypeFloat then (ops.parseFloat s).map fun b => .f32 (ops.toF32 b)
      else if f.typ = TypeDouble then (ops.parseFloat s).map .f64
      else if f.typ = TypeNewDecimal ∨ f.typ = TypeDecimal then (decimalText s).map fun (u, sc) => .dec u sc
      else if f.typ = TypeDate ∨ f.typ = TypeNewDate then dateText s
      else if f.typ = TypeDatetime ∨ f.typ = TypeTimestamp then datetimeText s
      else if f.typ = TypeDuration then timeText s
      else if isBytesType f.typ then some (.bytes s)
      else none

/-- The values denoted by the cells of a row; `none` unless every cell is a
    value of its column's type (and there is one cell per column). -/
def denoteRow (ops : FloatOps) : List Field → List (Option Bytes) → Option (List Val)
  | [], [] => some []
  | f :: fs, c :: cs =>
    match denoteText ops f c, denoteRow ops fs cs with
    | some d, some ds => some (d :: ds)
    | _, _ => none
  | _, _ => none

/-! ### what a text cell says, whether or not it is a value of the column type

  `denoteText` is defined on the values of a column type.  `readText` is its
  extension to every text that still reads as a number or a date: an integer
  of any magnitude (also one the column's width cannot hold), a date or
  datetime with any two-digit month and day.  A client must never be handed a
  value other than the one the text spells; for the texts outside
  `denoteText` an error is the only other acceptable outcome. -/

/-- `YYYY-MM-DD`, whatever the month and day numbers. -/
def dateRead (s : Bytes) : Option Val :=
  match s with
  | [y0, y1, y2, y3, 45, m0, m1, 45, d0, d1] =>
    match four y0 y1 y2 y3, two m0 m1, two d0 d1 with
    | some y, some m, some d => some (.dt y m d 0 0 0 0)
    | _, _, _ => none
  | _ => none

/-- `YYYY-MM-DD HH:MM:SS[.ffffff]` with a time of day, whatever the month and
    day numbers. -/
def datetimeRead (s : Bytes) : Option Val :=
  match s with
  | y0 :: y1 :: y2 :: y3 :: 45 :: m0 :: m1 :: 45 :: d0 :: d1 :: 32 :: h0 :: h1 :: 58 :: i0 :: i1 :: 58 :: s0 :: s1 :: frac =>
    match four y0 y1 y2 y3, two m0 m1, two d0 d1, two h0 h1, two i0 i1, two s0 s1, fracText frac with
    | some y, some m, some d, some h, some mi, some sec, some us =>
      if h < 24 ∧ mi < 60 ∧ sec < 60 then some (.dt y m d h mi sec us) else none
    | _, _, _, _, _, _, _ => none
  | _ => none

/-- What a text-protocol cell says. -/
def readText (ops : FloatOps) (f : Field) (cell : Option Bytes) : Option Val :=
  match cell with
  | none => some .null
  | some s =>
    match intWidth f.typ with
    | some _ => (intText s).map .int
    | none =>
      if f.typ = TypeDate ∨ f.typ = TypeNewDate then dateRead s
      else if f.typ = TypeDatetime ∨ f.typ = TypeTimestamp then datetimeRead s
      else denoteText ops f (some s)

/-- `readText` of every cell of a row. -/
def readRow (ops : FloatOps) : List Field → List (Option Bytes) → Option (List Val)
  | [], [] => some []
  | f :: fs, c :: cs =>
    match readText ops f c, readRow ops fs cs with
    | some d, some ds => some (d :: ds)
    | _, _ => none
  | _, _ => none

/-! ### the values a MySQL server sends

  `denoteText` accepts a few spellings no server produces (`-0` in an UNSIGNED
  column).  `serverCell` is the domain on which the proxy must *deliver* the
  value (not merely refrain from sending another one): a value of the column
  type in the server's spelling. -/

def serverCell (ops : FloatOps) (f : Field) (cell : Option Bytes) : Bool :=
  match cell with
  | none => true
  | some s =>
    (denoteText ops f (some s)).isSome
      && (!((intWidth f.typ).isSome && f.isUnsigned) || s.head? != some 45)

def serverRow (ops : FloatOps) : List Field → List (Option Bytes) → Bool
  | [], [] => true
  | f :: fs, c :: cs => serverCell ops f c && serverRow ops fs cs
  | _, _ => false

/-- Column-wise `Val.same`. -/
def sameRow : List Val → List Val → Bool
  | [], [] => true
  | a :: as, b :: bs => Val.same a b && sameRow as bs
  | _, _ => false

/-! ### text-protocol rows -/

def takeN (n : Nat) (b : Bytes) : Option (Bytes × Bytes) :=
  if b.length < n then none else some (b.take n, b.drop n)

/-- A length-encoded string at the head of `b` (`0xfb`/`0xff` are not lengths). -/
def takeLenEnc (b : Bytes) : Option (Bytes × Bytes) :=
  match b with
  | [] => none
  | c :: rest =>
    if c.toNat < 251 then takeN c.toNat rest
    else
      let w := if c = 0xfc then 2 else if c = 0xfd then 3 else if c = 0xfe then 8 else 0
      if w = 0 then none
      else
        match takeN w rest with
        | none => none
        | some (l, r) => takeN (leNat l) r

/-- The first `n` cells of a text-protocol row: `0xfb` is NULL, anything else
    a length-encoded string. -/
def decodeTextRow : Nat → Bytes → Option (List (Option Bytes))
  | 0, _ => some []
  | n + 1, b =>
    match b with
    | 0xfb :: rest => (decodeTextRow n rest).map (none :: ·)
    | _ =>
      match takeLenEnc b with
      | none => none
      | some (v, rest) => (decodeTextRow n rest).map (some v :: ·)

/-- The text-protocol row a server sends for the given cells. -/
def encodeTextRow : List (Option Bytes) → Bytes
  | [] => []
  | none :: cs => 0xfb :: encodeTextRow cs
  | some v :: cs => LenEnc.appendLenEncStringBytes v ++ encodeTextRow cs

/-! ### binary-protocol rows -/

/-- Two's-complement reading of a `w`-byte little-endian number. -/
def toSigned (w : Nat) (v : Nat) : Int :=
  if v < 2 ^ (8 * w - 1) then (v : Int) else (v : Int) - 2 ^ (8 * w)

def decodeDate (b : Bytes) : Option (Val × Bytes) :=
  match b with
  | 0 :: r => some (.dt 0 0 0 0 0 0 0, r)
  | 4 :: y0 :: y1 :: m :: d :: r => some (.dt (leNat [y0, y1]) m.toNat d.toNat 0 0 0 0, r)
  | 7 :: y0 :: y1 :: m :: d :: h :: mi :: s :: r =>
    some (.dt (leNat [y0, y1]) m.toNat d.toNat h.toNat mi.toNat s.toNat 0, r)
  | 11 :: y0 :: y1 :: m :: d :: h :: mi :: s :: u0 :: u1 :: u2 :: u3 :: r =>
    some (.dt (leNat [y0, y1]) m.toNat d.toNat h.toNat mi.toNat s.toNat (leNat [u0, u1, u2, u3]), r)
  | _ => none

def mkTime (neg : UInt8) (days h mi s us : Nat) : Option Val :=
  if neg.toNat ≤ 1 ∧ h < 24 ∧ mi < 60 ∧ s < 60 ∧ us < 1000000 then
    let total : Int := ((((days * 24 + h) * 60 + mi) * 60 + s) * 1000000 + us : Nat)
    some (.time (if neg = 1 then -total else total))
  else none

def decodeTime (b : Bytes) : Option (Val × Bytes) :=
  match b with
  | 0 :: r => some (.time 0, r)
  | 8 :: neg :: d0 :: d1 :: d2 :: d3 :: h :: mi :: s :: r =>
    (mkTime neg (leNat [d0, d1, d2, d3]) h.toNat mi.toNat s.toNat 0).map (·, r)
  | 12 :: neg :: d0 :: d1 :: d2 :: d3 :: h :: mi :: s :: u0 :: u1 :: u2 :: u3 :: r =>
    (mkTime neg (leNat [d0, d1, d2, d3]) h.toNat mi.toNat s.toNat (leNat [u0, u1, u2, u3])).map (·, r)
  | _ => none

/-- One non-NULL value of a binary row. -/
def decodeValue (f : Field) (b : Bytes) : Option (Val × Bytes) :=
  match intWidth f.typ with
  | some w =>
    (takeN w b).map fun (v, r) => (.int (if f.isUnsigned then (leNat v : Int) else toSigned w (leNat v)), r)
  | none =>
    if f.typ = TypeFloat then (takeN 4 b).map fun (v, r) => (.f32 (leNat v), r)
    else if f.typ = TypeDouble then (takeN 8 b).map fun (v, r) => (.f64 (leNat v), r)
    else if f.typ = TypeNewDecimal ∨ f.typ = TypeDecimal then
      match takeLenEnc b with
      | none => none
      | some (v, r) => (decimalText v).map fun (u, sc) => (.dec u sc, r)
    else if f.typ = TypeDate ∨ f.typ = TypeNewDate ∨ f.typ = TypeDatetime ∨ f.typ = TypeTimestamp then decodeDate b
    else if f.typ = TypeDuration then decodeTime b
    else if isBytesType f.typ then (takeLenEnc b).map fun (v, r) => (.bytes v, r)
    else if f.typ = TypeNull then some (.null, b)
    else none

def decodeCols : List Field → List Bool → Bytes → Option (List Val × Bytes)
  | [], _, b => some ([], b)
  | _ :: _, [], _ => none
  | f :: fs, isNull :: ns, b =>
    if isNull then (decodeCols fs ns b).map fun (vs, r) => (Val.null :: vs, r)
    else
      match decodeValue f b with
      | none => none
      | some (v, r) => (decodeCols fs ns r).map fun (vs, r') => (v :: vs, r')

/-- Bit `i + 2` of the null bitmap. -/
def nullBit (bm : Bytes) (i : Nat) : Bool := (bm.getD ((i + 2) / 8) 0).toNat.testBit ((i + 2) % 8)

/-- A binary-protocol resultset row: `0x00`, the null bitmap of
    `(n + 7 + 2) / 8` bytes, the non-NULL values in column order, nothing else. -/
def decodeBinRow (fields : List Field) (row : Bytes) : Option (List Val) :=
  match row with
  | 0 :: rest =>
    match takeN ((fields.length + 7 + 2) / 8) rest with
    | none => none
    | some (bm, payload) =>
      match decodeCols fields ((List.range fields.length).map (nullBit bm)) payload with
      | some (vs, []) => some vs
      | _ => none
  | _ => none

/-! ### column definitions (Protocol::ColumnDefinition41 of a result set) -/

structure ColumnDef where
  catalog : Bytes
  schema : Bytes
  table : Bytes
  orgTable : Bytes
  name : Bytes
  orgName : Bytes
  charset : Nat
  columnLength : Nat
  typ : Nat
  flags : Nat
  decimals : Nat
  deriving Repr, DecidableEq

/-- The type and flags a client decodes the rows by. -/
def ColumnDef.toField (c : ColumnDef) : Field := { typ := c.typ, flag := c.flags }

/-- The numbers fit their wire widths, the strings are shorter than 2^62 bytes. -/
def ColumnDef.wf (c : ColumnDef) : Prop :=
  c.charset < 2 ^ 16 ∧ c.columnLength < 2 ^ 32 ∧ c.typ < 256 ∧ c.flags < 2 ^ 16 ∧ c.decimals < 256
    ∧ c.catalog.length < 2 ^ 62 ∧ c.schema.length < 2 ^ 62 ∧ c.table.length < 2 ^ 62 ∧ c.orgTable.length < 2 ^ 62
    ∧ c.name.length < 2 ^ 62 ∧ c.orgName.length < 2 ^ 62

/-- "def" -/
def defCatalog : Bytes := [100, 101, 102]

/-- The 13 bytes after the six strings: length of the fixed part (0x0c),
    character set, column length, type, flags, decimals, two filler bytes. -/
def columnDefTail (c : ColumnDef) : Bytes :=
  [0x0c] ++ leBytes c.charset 2 ++ leBytes c.columnLength 4 ++ [UInt8.ofNat c.typ] ++ leBytes c.flags 2
    ++ [UInt8.ofNat c.decimals] ++ [0, 0]

/-- The packet a server sends for a column of a result set. -/
def encodeColumnDef (c : ColumnDef) : Bytes :=
  LenEnc.appendLenEncStringBytes c.catalog ++ LenEnc.appendLenEncStringBytes c.schema
    ++ LenEnc.appendLenEncStringBytes c.table ++ LenEnc.appendLenEncStringBytes c.orgTable
    ++ LenEnc.appendLenEncStringBytes c.name ++ LenEnc.appendLenEncStringBytes c.orgName ++ columnDefTail c

/-- A client's reading of a column-definition packet of a result set. -/
def decodeColumnDef (p : Bytes) : Option ColumnDef :=
  match takeLenEnc p with
  | none => none
  | some (catalog, p) =>
  match takeLenEnc p with
  | none => none
  | some (schema, p) =>
  match takeLenEnc p with
  | none => none
  | some (table, p) =>
  match takeLenEnc p with
  | none => none
  | some (orgTable, p) =>
  match takeLenEnc p with
  | none => none
  | some (name, p) =>
  match takeLenEnc p with
  | none => none
  | some (orgName, p) =>
    match p with
    | [0x0c, c0, c1, l0, l1, l2, l3, t, f0, f1, d, _, _] =>
      some { catalog, schema, table, orgTable, name, orgName, charset := leNat [c0, c1],
             columnLength := leNat [l0, l1, l2, l3], typ := t.toNat, flags := leNat [f0, f1], decimals := d.toNat }
    | _ => none

end GaeaVerif.BinProto
