/-
  C08 reference: Mycat's partition functions with Java semantics, written from
  the Java sources (io.mycat.route.function.PartitionByMod / PartitionByLong /
  PartitionByString / PartitionByMurmurHash, io.mycat.route.util.PartitionUtil,
  io.mycat.util.StringUtil.hash, io.mycat.util.PairUtil.sequenceSlicing, Guava's
  Murmur3_32HashFunction.hashUnencodedChars) and NOT from the Go code.

  A Java `String` is the list of its UTF-16 code units (`char`s, `Nat`s below
  2^16); Java `int` is `BitVec 32`, `long` is `BitVec 64`, `BigInteger` is `Int`.
  The column value of an integer key is its decimal spelling (`Long.toString`).
  A function returns `none` where the Java code throws (the key or the
  parameter set is rejected).  Deviation from Java, stated here once: decimal
  digits are the ASCII digits only (`Character.digit` also accepts the other
  Unicode `Nd` digits).

  Core Lean only (the driver evaluates this file as the property oracle).
-/
namespace GaeaVerif.MycatSpec

/-- Java `String`: UTF-16 code units. -/
abbrev JString := List Nat

/-- Code units of one Unicode scalar value (`Character.toChars`). -/
def charsOfScalar (c : Nat) : JString :=
  if c < 0x10000 then [c]
  else [0xD800 + (c - 0x10000) / 0x400, 0xDC00 + (c - 0x10000) % 0x400]

/-- The Java `String` holding a text given as Unicode scalar values. -/
def javaString (cs : List Nat) : JString := cs.flatMap charsOfScalar

/-! ### numbers written in decimal -/

def digitOf (u : Nat) : Option Nat := if 48 ≤ u ∧ u ≤ 57 then some (u - 48) else none

def magStep (acc : Option Nat) (u : Nat) : Option Nat :=
  match acc, digitOf u with
  | some a, some d => some (a * 10 + d)
  | _, _ => none

/-- Magnitude of a non-empty digit string. -/
def magnitude : JString → Option Nat
  | [] => none
  | u :: us => (u :: us).foldl magStep (some 0)

/-- `new BigInteger(s)`: an optional single sign, then one or more digits. -/
def bigInteger (s : JString) : Option Int :=
  match s with
  | 45 :: r => (magnitude r).map fun n => -(n : Int)
  | 43 :: r => (magnitude r).map fun n => (n : Int)
  | _ => (magnitude s).map fun n => (n : Int)

/-- `Long.parseLong(s)`: as above, inside the range of `long`. -/
def parseLong (s : JString) : Option Int :=
  match bigInteger s with
  | some v => if -(2 : Int) ^ 63 ≤ v ∧ v < 2 ^ 63 then some v else none
  | none => none

/-- `Integer.parseInt(s)`. -/
def parseInt (s : JString) : Option Int :=
  match bigInteger s with
  | some v => if -(2 : Int) ^ 31 ≤ v ∧ v < 2 ^ 31 then some v else none
  | none => none

/-- Decimal spelling of a natural number. -/
def natToString (n : Nat) : JString := (Nat.toDigits 10 n).map Char.toNat

/-- `Long.toString(v)` / the SQL spelling of an integer literal. -/
def intToString (v : Int) : JString :=
  if v < 0 then 45 :: natToString v.natAbs else natToString v.natAbs

/-! ### PartitionByMod -/

/-- `new BigInteger(columnValue).abs().mod(BigInteger.valueOf(count)).intValue()`. -/
def partitionByMod (count : Nat) (columnValue : JString) : Option Nat :=
  if count = 0 then none else
  (bigInteger columnValue).map fun v => v.natAbs % count

/-! ### PartitionUtil / PartitionByLong -/

/-- Lengths of the segments, one entry per partition: `count[i]` copies of `length[i]`. -/
def segmentLengths (count length : List Nat) : List Nat :=
  (count.zip length).flatMap fun cl => List.replicate cl.1 cl.2

/-- Parameters `PartitionUtil` accepts: as many lengths as counts and the
    segment lengths adding up to 1024 (`PARTITION_LENGTH`). -/
def validPartition (count length : List Nat) : Bool :=
  count.length == length.length && (segmentLengths count length).foldl (· + ·) 0 == 1024

/-- Index of the segment that holds `slot`: the first `i` with
    `slot < lens[0] + … + lens[i]`. -/
def segmentOf : List Nat → Nat → Option Nat
  | [], _ => none
  | l :: ls, slot => if slot < l then some 0 else (segmentOf ls (slot - l)).map (· + 1)

/-- `PartitionUtil.partition(long hash)`: `segment[(int)(hash & 1023)]`; the
    ten low bits of a two's-complement `long` are its residue modulo 1024. -/
def partition (count length : List Nat) (hash : Int) : Option Nat :=
  segmentOf (segmentLengths count length) (hash % 1024).toNat

/-- `PartitionByLong.calculate`. -/
def partitionByLong (count length : List Nat) (columnValue : JString) : Option Nat :=
  if validPartition count length then
    (parseLong columnValue).bind fun key => partition count length key
  else none

/-! ### PartitionByString -/

/-- `String.trim` (code units ≤ U+0020 removed at both ends). -/
def trim (s : JString) : JString :=
  ((s.dropWhile (· ≤ 32)).reverse.dropWhile (· ≤ 32)).reverse

/-- `slice.indexOf(':')` with the two substrings around it. -/
def cutColon : JString → Option (JString × JString)
  | [] => none
  | c :: cs => if c = 58 then some ([], cs) else (cutColon cs).map fun p => (c :: p.1, p.2)

/-- `PairUtil.sequenceSlicing`: "2"→(0,2) "1:2"→(1,2) "1:"→(1,0) "-1:"→(-1,0) ":-1"→(0,-1) ":"→(0,0). -/
def sequenceSlicing (slice : JString) : Option (Int × Int) :=
  match cutColon slice with
  | none =>
    (parseInt (trim slice)).map fun i => if i ≥ 0 then (0, i) else (i, 0)
  | some (left, right) =>
    let left := trim left
    let right := trim right
    let start := if left.length ≤ 0 then some 0 else parseInt left
    let end_ := if right.length ≤ 0 then some 0 else parseInt right
    match start, end_ with
    | some s, some e => some (s, e)
    | _, _ => none

/-- `StringUtil.hash(s, start, end)`: `h = (h << 5) - h + s.charAt(i)` on a `long`. -/
def stringUtilHash (s : JString) (start end_ : Int) : BitVec 64 :=
  let start := if start < 0 then 0 else start
  let end_ := if end_ > s.length then (s.length : Int) else end_
  ((s.drop start.toNat).take (end_ - start).toNat).foldl
    (fun h c => (h <<< 5) - h + BitVec.ofNat 64 c) 0

/-- `PartitionByString.calculate`. -/
def partitionByString (count length : List Nat) (hashSlice : Int × Int) (columnValue : JString) :
    Option Nat :=
  if validPartition count length then
    let start := if hashSlice.1 ≥ 0 then hashSlice.1 else (columnValue.length : Int) + hashSlice.1
    let end_ := if hashSlice.2 > 0 then hashSlice.2 else (columnValue.length : Int) + hashSlice.2
    partition count length (stringUtilHash columnValue start end_).toInt
  else none

/-! ### Guava Murmur3_32HashFunction -/

def C1 : BitVec 32 := 0xcc9e2d51#32
def C2 : BitVec 32 := 0x1b873593#32

def mixK1 (k1 : BitVec 32) : BitVec 32 := ((k1 * C1).rotateLeft 15) * C2

def mixH1 (h1 k1 : BitVec 32) : BitVec 32 := ((h1 ^^^ k1).rotateLeft 13) * 5#32 + 0xe6546b64#32

def fmix (h1 length : BitVec 32) : BitVec 32 :=
  let h1 := h1 ^^^ length
  let h1 := h1 ^^^ (h1 >>> 16)
  let h1 := h1 * 0x85ebca6b#32
  let h1 := h1 ^^^ (h1 >>> 13)
  let h1 := h1 * 0xc2b2ae35#32
  h1 ^^^ (h1 >>> 16)

/-- The two loops of `hashUnencodedChars`: chars two at a time, then the odd one. -/
def hashChars : JString → BitVec 32 → BitVec 32
  | c0 :: c1 :: rest, h1 =>
    hashChars rest (mixH1 h1 (mixK1 (BitVec.ofNat 32 c0 ||| (BitVec.ofNat 32 c1 <<< 16))))
  | [c0], h1 => h1 ^^^ mixK1 (BitVec.ofNat 32 c0)
  | [], h1 => h1

/-- `Hashing.murmur3_32(seed).hashUnencodedChars(input).asInt()`. -/
def hashUnencodedChars (seed : BitVec 32) (input : JString) : Int :=
  (fmix (hashChars input seed) (BitVec.ofNat 32 (2 * input.length))).toInt

/-! ### PartitionByMurmurHash -/

def ascii (s : String) : JString := s.toList.map Char.toNat

/-- Name hashed for virtual node `n` of shard `i`: the `StringBuilder` keeps
    growing, `SHARD-i-NODE-0-NODE-1…-NODE-n`. -/
def nodeName (i n : Nat) : JString :=
  ascii "SHARD-" ++ natToString i ++
    (List.range (n + 1)).flatMap fun k => ascii "-NODE-" ++ natToString k

/-- The `bucketMap.put` calls of `generateBucketMap`, in order (weights are 1). -/
def ringPuts (seed : BitVec 32) (count virtualBucketTimes : Nat) : List (Int × Nat) :=
  (List.range count).flatMap fun i =>
    (List.range virtualBucketTimes).map fun n => (hashUnencodedChars seed (nodeName i n), i)

/-- `TreeMap.get` after a sequence of puts: the last value put under the key. -/
def lastPut (puts : List (Int × Nat)) (k : Int) : Option Nat :=
  (puts.reverse.find? (·.1 = k)).map (·.2)

def minKey : List Int → Option Int
  | [] => none
  | k :: ks => match minKey ks with
    | none => some k
    | some m => some (if k ≤ m then k else m)

/-- `bucketMap.tailMap(h)`: first key if non-empty, else `bucketMap.firstKey()`. -/
def ringLookup (puts : List (Int × Nat)) (h : Int) : Option Nat :=
  let keys := puts.map (·.1)
  match minKey (keys.filter (h ≤ ·)) with
  | some k => lastPut puts k
  | none => (minKey keys).bind (lastPut puts)

/-- `PartitionByMurmurHash.calculate`. -/
def partitionByMurmurHash (seed : BitVec 32) (count virtualBucketTimes : Nat) (columnValue : JString) :
    Option Nat :=
  ringLookup (ringPuts seed count virtualBucketTimes) (hashUnencodedChars seed columnValue)

end GaeaVerif.MycatSpec
