import GaeaVerif.Model.UserMgr
/-
  C29 — Credentials authenticate into exactly their own namespace, across reloads.
  Theorems about `Model/UserMgr.lean` (tie to proxy/server/manager.go and
  Session.handleHandshakeResponse: correspondence check `gvh run C29`).
-/
namespace GaeaVerif.C29
open GaeaVerif GaeaVerif.UserMgr

variable {κ ν σ : Type} [DecidableEq κ] [DecidableEq σ]

/-! ### Go maps as association lists -/

theorem mget_mdel (m : List (κ × ν)) (k k' : κ) :
    mget (mdel m k) k' = if k = k' then none else mget m k' := by
  induction m with
  | nil => simp [mdel, mget]
  | cons e r ih =>
    obtain ⟨a, b⟩ := e
    simp only [mdel, List.filter] at ih ⊢
    by_cases h : a = k
    · subst h
      simp only [decide_true, Bool.not_true]
      rw [ih]
      by_cases h2 : a = k'
      · simp [h2]
      · simp [h2, mget]
    · simp only [h, decide_false, Bool.not_false, mget]
      rw [ih]
      by_cases h2 : k = k'
      · subst h2; simp [h]
      · simp [h2]

theorem mget_mset (m : List (κ × ν)) (k : κ) (v : ν) (k' : κ) :
    mget (mset m k v) k' = if k = k' then some v else mget m k' := by
  simp only [mset, mget]
  by_cases h : k = k'
  · simp [h]
  · simp [h, mget_mdel]

theorem keys_mdel_sub (m : List (κ × ν)) (k : κ) : ∀ x, x ∈ (mdel m k).map Prod.fst → x ∈ m.map Prod.fst ∧ x ≠ k := by
  intro x hx
  simp only [mdel, List.mem_map, List.mem_filter] at hx ⊢
  obtain ⟨e, ⟨he, hk⟩, rfl⟩ := hx
  exact ⟨⟨e, he, rfl⟩, by simpa using hk⟩

theorem nodup_mdel (m : List (κ × ν)) (k : κ) (h : (m.map Prod.fst).Nodup) : ((mdel m k).map Prod.fst).Nodup := by
  induction m with
  | nil => simp [mdel]
  | cons e r ih =>
    simp only [List.map_cons, List.nodup_cons] at h
    simp only [mdel, List.filter]
    split
    · simp only [List.map_cons, List.nodup_cons]
      refine ⟨?_, ih h.2⟩
      intro hm
      exact h.1 (keys_mdel_sub r k _ hm).1
    · exact ih h.2

theorem nodup_mset (m : List (κ × ν)) (k : κ) (v : ν) (h : (m.map Prod.fst).Nodup) : ((mset m k v).map Prod.fst).Nodup := by
  simp only [mset, List.map_cons, List.nodup_cons]
  exact ⟨fun hm => (keys_mdel_sub m k _ hm).2 rfl, nodup_mdel m k h⟩

theorem mget_none_of_not_mem (m : List (κ × ν)) (k : κ) (h : k ∉ m.map Prod.fst) : mget m k = none := by
  induction m with
  | nil => rfl
  | cons e r ih =>
    obtain ⟨a, b⟩ := e
    simp only [List.map_cons, List.mem_cons, not_or] at h
    simp only [mget]
    rw [if_neg (fun e => h.1 e.symm)]
    exact ih h.2

/-- With distinct keys, the entries of the association list are exactly what `mget` reads. -/
theorem mem_iff_mget (m : List (κ × ν)) (h : (m.map Prod.fst).Nodup) (k : κ) (v : ν) :
    (k, v) ∈ m ↔ mget m k = some v := by
  induction m with
  | nil => simp [mget]
  | cons e r ih =>
    obtain ⟨a, b⟩ := e
    simp only [List.map_cons, List.nodup_cons] at h
    simp only [List.mem_cons, mget, Prod.mk.injEq]
    by_cases hk : a = k
    · subst hk
      simp only [if_true, Option.some.injEq]
      constructor
      · rintro (⟨_, rfl⟩ | hm)
        · rfl
        · exact absurd (List.mem_map.mpr ⟨(a, v), hm, rfl⟩) h.1
      · intro e; exact Or.inl ⟨trivial, e.symm⟩
    · rw [if_neg hk, ← ih h.2]
      constructor
      · rintro (⟨e, _⟩ | hm)
        · exact absurd e.symm hk
        · exact hm
      · exact Or.inr


/-! ### The abstraction invariant -/

/-- Prop form of `uniqueT`: no (user, password) pair in two different namespaces. -/
def UniqueT (T : List (Triple σ)) : Prop :=
  ∀ n n' user pw, (n, user, pw) ∈ T → (n', user, pw) ∈ T → n = n'

theorem uniqueT_iff (T : List (Triple σ)) : uniqueT T = true ↔ UniqueT T := by
  simp only [uniqueT, UniqueT, List.all_eq_true, Bool.or_eq_true, Bool.not_eq_true',
    Bool.and_eq_false_iff, decide_eq_true_eq, decide_eq_false_iff_not]
  constructor
  · intro h n n' user pw h1 h2
    rcases h _ h1 _ h2 with (h3 | h3) | h3
    · exact absurd rfl h3
    · exact absurd rfl h3
    · exact h3
  · intro h t1 h1 t2 h2
    obtain ⟨n1, u1, p1⟩ := t1
    obtain ⟨n2, u2, p2⟩ := t2
    by_cases hu : u1 = u2
    · by_cases hp : p1 = p2
      · subst hu; subst hp; exact Or.inr (h _ _ _ _ h1 h2)
      · exact Or.inl (Or.inr hp)
    · exact Or.inl (Or.inl hu)

/-- The two maps of a `UserManager` represent the triple set `T`. -/
structure Inv (u : UserManager σ) (T : List (Triple σ)) : Prop where
  keys : ∀ user pw n, mget u.userNamespaces (user, pw) = some n ↔ (n, user, pw) ∈ T
  pws : ∀ user pw, pw ∈ (mget u.users user).getD [] ↔ ∃ n, (n, user, pw) ∈ T
  nonempty : ∀ user l, mget u.users user = some l → l ≠ []
  nodup : (u.userNamespaces.map Prod.fst).Nodup

theorem Inv.unique {u : UserManager σ} {T : List (Triple σ)} (h : Inv u T) : UniqueT T := by
  intro n n' user pw h1 h2
  have a := (h.keys user pw n).mpr h1
  have b := (h.keys user pw n').mpr h2
  rw [a] at b
  exact Option.some.inj b

theorem Inv.congr {u : UserManager σ} {T T' : List (Triple σ)} (h : Inv u T)
    (e : ∀ t, t ∈ T ↔ t ∈ T') : Inv u T' where
  keys := fun user pw n => by rw [h.keys, e]
  pws := fun user pw => by
    rw [h.pws]
    exact ⟨fun ⟨n, hn⟩ => ⟨n, (e _).mp hn⟩, fun ⟨n, hn⟩ => ⟨n, (e _).mpr hn⟩⟩
  nonempty := h.nonempty
  nodup := h.nodup

theorem inv_new : Inv (newUserManager : UserManager σ) [] where
  keys := by intro user pw n; simp [newUserManager, mget]
  pws := by intro user pw; simp [newUserManager, mget]
  nonempty := by intro user l h; simp [newUserManager, mget] at h
  nodup := by simp [newUserManager]

/-! ### addNamespaceUsers -/

theorem addUser_inv {u : UserManager σ} {T : List (Triple σ)} (h : Inv u T) (name user pw : σ)
    (hu : ∀ n, (n, user, pw) ∈ T → n = name) :
    Inv (addUser name u (user, pw)) (T ++ [(name, user, pw)]) where
  keys := by
    intro user' pw' n
    simp only [addUser, getUserKey, mget_mset, List.mem_append, List.mem_singleton, Prod.mk.injEq]
    by_cases hk : user = user' ∧ pw = pw'
    · obtain ⟨rfl, rfl⟩ := hk
      simp only [and_self, if_true, Option.some.injEq, and_true]
      constructor
      · intro e; exact Or.inr e.symm
      · rintro (hm | e)
        · exact (hu n hm).symm
        · exact e.symm
    · rw [if_neg hk, h.keys]
      constructor
      · exact Or.inl
      · rintro (hm | ⟨_, e1, e2⟩)
        · exact hm
        · exact absurd ⟨e1.symm, e2.symm⟩ hk
  pws := by
    intro user' pw'
    simp only [addUser, mget_mset, List.mem_append, List.mem_singleton, Prod.mk.injEq]
    by_cases hk : user = user'
    · subst hk
      simp only [if_true, Option.getD_some, List.mem_append, List.mem_singleton, true_and]
      rw [h.pws]
      constructor
      · rintro (⟨n, hn⟩ | e)
        · exact ⟨n, Or.inl hn⟩
        · exact ⟨name, Or.inr ⟨rfl, e⟩⟩
      · rintro ⟨n, hn | ⟨_, e⟩⟩
        · exact Or.inl ⟨n, hn⟩
        · exact Or.inr e
    · rw [if_neg hk, h.pws]
      constructor
      · rintro ⟨n, hn⟩; exact ⟨n, Or.inl hn⟩
      · rintro ⟨n, hn | ⟨_, e, _⟩⟩
        · exact ⟨n, hn⟩
        · exact absurd e.symm hk
  nonempty := by
    intro user' l
    simp only [addUser, mget_mset]
    by_cases hk : user = user'
    · rw [if_pos hk]; intro e; rw [← Option.some.inj e]; simp
    · rw [if_neg hk]; exact h.nonempty user' l
  nodup := nodup_mset _ _ _ h.nodup

theorem addUsers_inv (name : σ) (l : List (σ × σ)) :
    ∀ (u : UserManager σ) (T : List (Triple σ)), Inv u T →
      UniqueT (T ++ l.map fun up => (name, up.1, up.2)) →
      Inv (l.foldl (addUser name) u) (T ++ l.map fun up => (name, up.1, up.2)) := by
  induction l with
  | nil => intro u T h _; simpa using h
  | cons x r ih =>
    intro u T h hu
    obtain ⟨user, pw⟩ := x
    simp only [List.foldl_cons, List.map_cons]
    have e : T ++ (name, user, pw) :: r.map (fun up => (name, up.1, up.2))
        = (T ++ [(name, user, pw)]) ++ r.map (fun up => (name, up.1, up.2)) := by simp
    simp only [List.map_cons] at hu
    rw [e] at hu ⊢
    apply ih _ _ _ hu
    apply addUser_inv h
    intro n hn
    exact hu n name user pw (by simp [hn]) (by simp)

/-- `addNamespaceUsers` adds exactly the namespace's triples, provided the result
    respects the uniqueness rule. -/
theorem addNamespaceUsers_inv {u : UserManager σ} {T : List (Triple σ)} (h : Inv u T) (cfg : NsCfg σ)
    (hu : UniqueT (T ++ cfgTriples cfg)) : Inv (addNamespaceUsers u cfg) (T ++ cfgTriples cfg) :=
  addUsers_inv cfg.name cfg.users u T h hu


/-! ### ClearNamespaceUsers, for every iteration order -/

theorem clearOrd_cons (u : UserManager σ) (nsName : σ) (e : (σ × σ) × σ) (r : List ((σ × σ) × σ)) :
    clearNamespaceUsersOrd u nsName (e :: r) = clearNamespaceUsersOrd (clearStep nsName u e) nsName r := rfl

theorem clearStep_match (nsName : σ) (u : UserManager σ) (eu ep : σ) :
    clearStep nsName u ((eu, ep), nsName)
      = { userNamespaces := mdel u.userNamespaces (eu, ep)
          users :=
            if (List.filter (fun pwd => !decide (pwd = ep)) ((mget u.users eu).getD [])).length = 0
            then mdel u.users eu
            else mset u.users eu (List.filter (fun pwd => !decide (pwd = ep)) ((mget u.users eu).getD [])) } := by
  unfold clearStep
  rw [if_pos rfl]
  rfl

theorem clearStep_nomatch (nsName : σ) (u : UserManager σ) (e : (σ × σ) × σ) (h : e.2 ≠ nsName) :
    clearStep nsName u e = u := by
  unfold clearStep
  rw [if_neg h]

/-- After the loop, exactly the keys of the visited entries of `nsName` are gone. -/
theorem clear_keys (nsName : σ) (order : List ((σ × σ) × σ)) :
    ∀ (u : UserManager σ) (k : σ × σ),
      mget (clearNamespaceUsersOrd u nsName order).userNamespaces k
        = if (k, nsName) ∈ order then none else mget u.userNamespaces k := by
  induction order with
  | nil => intro u k; simp [clearNamespaceUsersOrd]
  | cons e r ih =>
    intro u k
    rw [clearOrd_cons, ih]
    obtain ⟨ek, en⟩ := e
    by_cases hr : (k, nsName) ∈ r
    · simp [hr]
    · simp only [hr, if_false, List.mem_cons, or_false, Prod.mk.injEq]
      by_cases hn : en = nsName
      · subst hn
        obtain ⟨eu, ep⟩ := ek
        rw [clearStep_match]
        simp only [mget_mdel]
        by_cases hk : (eu, ep) = k
        · simp [hk]
        · rw [if_neg hk, if_neg (fun h => hk h.1.symm)]
      · rw [clearStep_nomatch _ _ _ hn]
        rw [if_neg (fun h => hn h.2.symm)]

theorem mget_clear_users (m : List (σ × List σ)) (eu user : σ) (L : List σ) :
    mget (if L.length = 0 then mdel m eu else mset m eu L) user
      = if eu = user then (if L.length = 0 then none else some L) else mget m user := by
  by_cases hl : L.length = 0
  · simp only [hl, if_true, mget_mdel]
  · simp only [hl, if_false, mget_mset]

/-- After the loop, a user's password list has lost exactly the passwords of the
    visited entries of `nsName` for that user. -/
theorem clear_pws (nsName : σ) (order : List ((σ × σ) × σ)) :
    ∀ (u : UserManager σ) (user pw : σ),
      pw ∈ (mget (clearNamespaceUsersOrd u nsName order).users user).getD []
        ↔ pw ∈ (mget u.users user).getD [] ∧ ((user, pw), nsName) ∉ order := by
  induction order with
  | nil => intro u user pw; simp [clearNamespaceUsersOrd]
  | cons e r ih =>
    intro u user pw
    rw [clearOrd_cons, ih]
    obtain ⟨⟨eu, ep⟩, en⟩ := e
    have hstep : pw ∈ (mget (clearStep nsName u ((eu, ep), en)).users user).getD []
        ↔ pw ∈ (mget u.users user).getD [] ∧ ¬ (eu = user ∧ ep = pw ∧ en = nsName) := by
      by_cases hn : en = nsName
      · subst hn
        rw [clearStep_match]
        simp only [and_true, mget_clear_users]
        by_cases hu : eu = user
        · subst hu
          rw [if_pos rfl]
          by_cases hl : (List.filter (fun pwd => !decide (pwd = ep)) ((mget u.users eu).getD [])).length = 0
          · rw [if_pos hl]
            have hnil := List.eq_nil_of_length_eq_zero hl
            simp only [Option.getD_none, List.not_mem_nil, false_iff, true_and, not_and, Classical.not_not]
            intro hm
            by_cases hp : ep = pw
            · exact hp
            · have : pw ∈ List.filter (fun pwd => !decide (pwd = ep)) ((mget u.users eu).getD []) := by
                simp only [List.mem_filter, hm, true_and, Bool.not_eq_true', decide_eq_false_iff_not]
                exact fun h => hp (Eq.symm h)
              rw [hnil] at this
              simp at this
          · rw [if_neg hl]
            simp only [Option.getD_some, List.mem_filter, Bool.not_eq_true', decide_eq_false_iff_not, true_and]
            constructor
            · rintro ⟨a, b⟩; exact ⟨a, fun h => b h.symm⟩
            · rintro ⟨a, b⟩; exact ⟨a, fun h => b h.symm⟩
        · rw [if_neg hu]; simp [hu]
      · rw [clearStep_nomatch _ _ _ hn]; simp [hn]
    rw [hstep]
    simp only [List.mem_cons, Prod.mk.injEq, not_or]
    constructor
    · rintro ⟨⟨a, b⟩, c⟩
      exact ⟨a, fun h => b ⟨h.1.1.symm, h.1.2.symm, h.2.symm⟩, c⟩
    · rintro ⟨a, b, c⟩
      exact ⟨⟨a, fun h => b ⟨⟨h.1.symm, h.2.1.symm⟩, h.2.2.symm⟩⟩, c⟩

theorem clearStep_nonempty (nsName : σ) (u : UserManager σ) (e : (σ × σ) × σ)
    (h : ∀ user l, mget u.users user = some l → l ≠ []) :
    ∀ user l, mget (clearStep nsName u e).users user = some l → l ≠ [] := by
  intro user l
  obtain ⟨⟨eu, ep⟩, en⟩ := e
  by_cases hn : en = nsName
  · subst hn
    rw [clearStep_match]
    simp only [mget_clear_users]
    split
    · split
      · intro h'; cases h'
      · rename_i hl
        intro h'; rw [← Option.some.inj h']
        intro hnil; rw [hnil] at hl; exact hl rfl
    · exact h user l
  · rw [clearStep_nomatch _ _ _ hn]; exact h user l

theorem clear_nonempty (nsName : σ) (order : List ((σ × σ) × σ)) :
    ∀ (u : UserManager σ), (∀ user l, mget u.users user = some l → l ≠ []) →
      ∀ user l, mget (clearNamespaceUsersOrd u nsName order).users user = some l → l ≠ [] := by
  induction order with
  | nil => intro u h; exact h
  | cons e r ih => intro u h; rw [clearOrd_cons]; exact ih _ (clearStep_nonempty nsName u e h)

theorem clear_nodup (nsName : σ) (order : List ((σ × σ) × σ)) :
    ∀ (u : UserManager σ), (u.userNamespaces.map Prod.fst).Nodup →
      ((clearNamespaceUsersOrd u nsName order).userNamespaces.map Prod.fst).Nodup := by
  induction order with
  | nil => intro u h; exact h
  | cons e r ih =>
    intro u h
    rw [clearOrd_cons]
    apply ih
    obtain ⟨⟨eu, ep⟩, en⟩ := e
    by_cases hn : en = nsName
    · subst hn; rw [clearStep_match]; exact nodup_mdel _ _ h
    · rw [clearStep_nomatch _ _ _ hn]; exact h

/-- `ClearNamespaceUsers(nsName)` removes exactly the triples of `nsName`, whatever
    order the `range` over the map produces the entries in. -/
theorem clearNamespaceUsersOrd_inv {u : UserManager σ} {T : List (Triple σ)} (h : Inv u T) (nsName : σ)
    (order : List ((σ × σ) × σ)) (hperm : order.Perm u.userNamespaces) :
    Inv (clearNamespaceUsersOrd u nsName order) (T.filter fun t => !decide (t.1 = nsName)) where
  keys := by
    intro user pw n
    rw [clear_keys]
    have hm : ((user, pw), nsName) ∈ order ↔ (nsName, user, pw) ∈ T := by
      rw [hperm.mem_iff, mem_iff_mget _ h.nodup, h.keys]
    simp only [List.mem_filter, Bool.not_eq_true', decide_eq_false_iff_not]
    by_cases hin : ((user, pw), nsName) ∈ order
    · rw [if_pos hin]
      constructor
      · intro e; cases e
      · rintro ⟨h1, h2⟩
        exact absurd (h.unique _ _ _ _ h1 (hm.mp hin)) h2
    · rw [if_neg hin, h.keys]
      constructor
      · intro h1
        exact ⟨h1, fun e => hin (hm.mpr (e ▸ h1))⟩
      · exact fun h1 => h1.1
  pws := by
    intro user pw
    rw [clear_pws, h.pws]
    have hm : ((user, pw), nsName) ∈ order ↔ (nsName, user, pw) ∈ T := by
      rw [hperm.mem_iff, mem_iff_mget _ h.nodup, h.keys]
    rw [hm]
    simp only [List.mem_filter, Bool.not_eq_true', decide_eq_false_iff_not]
    constructor
    · rintro ⟨⟨n, hn⟩, hnot⟩
      exact ⟨n, hn, fun e => hnot (e ▸ hn)⟩
    · rintro ⟨n, hn, hne⟩
      exact ⟨⟨n, hn⟩, fun h2 => hne (h.unique _ _ _ _ hn h2)⟩
  nonempty := clear_nonempty nsName order u h.nonempty
  nodup := clear_nodup nsName order u h.nodup


/-! ### Histories: every sequence of operations, every map iteration order -/

/-- `CreateUserManager`: the `range` over the configuration map may produce the
    namespaces in any order. -/
def CreateRel (init : List (NsCfg σ)) (u : UserManager σ) : Prop :=
  ∃ order : List (NsCfg σ), order.Perm init ∧ u = order.foldl addNamespaceUsers newUserManager

/-- One control-plane operation on the current `UserManager` (clone, then rebuild
    or clear); the `range` inside `ClearNamespaceUsers` may produce the entries of
    `userNamespaces` in any order. -/
inductive StepRel : UserManager σ → Op σ → UserManager σ → Prop
  | reload (u : UserManager σ) (cfg : NsCfg σ) (order : List ((σ × σ) × σ))
      (h : order.Perm (cloneUserManager u).userNamespaces) :
      StepRel u (.reload cfg) (addNamespaceUsers (clearNamespaceUsersOrd (cloneUserManager u) cfg.name order) cfg)
  | delete (u : UserManager σ) (name : σ) (order : List ((σ × σ) × σ))
      (h : order.Perm (cloneUserManager u).userNamespaces) :
      StepRel u (.delete name) (clearNamespaceUsersOrd (cloneUserManager u) name order)

inductive Steps : UserManager σ → List (Op σ) → UserManager σ → Prop
  | nil (u : UserManager σ) : Steps u [] u
  | cons {u u' u'' : UserManager σ} {op : Op σ} {ops : List (Op σ)} :
      StepRel u op u' → Steps u' ops u'' → Steps u (op :: ops) u''

omit [DecidableEq σ] in
theorem UniqueT.subset {T T' : List (Triple σ)} (h : UniqueT T') (hs : ∀ t, t ∈ T → t ∈ T') : UniqueT T :=
  fun n n' user pw h1 h2 => h n n' user pw (hs _ h1) (hs _ h2)

theorem uniqueAlong_head (T : List (Triple σ)) (ops : List (Op σ)) (h : uniqueAlong T ops = true) :
    uniqueT T = true := by
  cases ops with
  | nil => exact h
  | cons op r => simp only [uniqueAlong, Bool.and_eq_true] at h; exact h.1

theorem step_inv {u u' : UserManager σ} {T : List (Triple σ)} {op : Op σ} (h : Inv u T)
    (hs : StepRel u op u') (hu : UniqueT (specStep T op)) : Inv u' (specStep T op) := by
  cases hs with
  | reload cfg order hp =>
    exact addNamespaceUsers_inv (clearNamespaceUsersOrd_inv h cfg.name order hp) cfg hu
  | delete name order hp =>
    exact clearNamespaceUsersOrd_inv h name order hp

theorem steps_inv {u u' : UserManager σ} {ops : List (Op σ)} (hs : Steps u ops u') :
    ∀ {T : List (Triple σ)}, Inv u T → uniqueAlong T ops = true → Inv u' (specRun T ops) := by
  induction hs with
  | nil u => intro T h _; exact h
  | cons hstep _ ih =>
    intro T h hu
    simp only [uniqueAlong, Bool.and_eq_true] at hu
    simp only [specRun, List.foldl_cons]
    exact ih (step_inv h hstep ((uniqueT_iff _).mp (uniqueAlong_head _ _ hu.2))) hu.2

theorem addNamespaces_inv (l : List (NsCfg σ)) :
    ∀ (u : UserManager σ) (T : List (Triple σ)), Inv u T → UniqueT (T ++ l.flatMap cfgTriples) →
      Inv (l.foldl addNamespaceUsers u) (T ++ l.flatMap cfgTriples) := by
  induction l with
  | nil => intro u T h _; simpa using h
  | cons c r ih =>
    intro u T h hu
    simp only [List.foldl_cons, List.flatMap_cons]
    rw [← List.append_assoc]
    simp only [List.flatMap_cons] at hu
    rw [← List.append_assoc] at hu
    apply ih _ _ _ hu
    apply addNamespaceUsers_inv h
    exact hu.subset (fun t ht => by simp only [List.mem_append] at ht ⊢; exact Or.inl ht)

theorem create_inv {init : List (NsCfg σ)} {u : UserManager σ} (hc : CreateRel init u)
    (hu : uniqueT (specInit init) = true) : Inv u (specInit init) := by
  obtain ⟨order, hp, rfl⟩ := hc
  have hmem : ∀ t, t ∈ order.flatMap cfgTriples ↔ t ∈ specInit init := by
    intro t
    simp only [specInit, List.mem_flatMap]
    exact ⟨fun ⟨c, hc, ht⟩ => ⟨c, hp.mem_iff.mp hc, ht⟩, fun ⟨c, hc, ht⟩ => ⟨c, hp.mem_iff.mpr hc, ht⟩⟩
  have hu' : UniqueT ([] ++ order.flatMap cfgTriples) :=
    ((uniqueT_iff _).mp hu).subset (fun t ht => (hmem t).mp (by simpa using ht))
  have := addNamespaces_inv order newUserManager [] inv_new hu'
  exact this.congr (fun t => by simpa using hmem t)

/-! ### The decision of the handshake, read off the invariant -/

theorem find_eq_pw (l : List σ) (pw : σ) :
    l.find? (fun stored => decide (stored = pw)) = if pw ∈ l then some pw else none := by
  induction l with
  | nil => simp
  | cons a r ih =>
    simp only [List.find?_cons, List.mem_cons]
    by_cases h : a = pw
    · simp [h]
    · simp only [h, decide_false, ih]
      by_cases h2 : pw ∈ r
      · simp [h2]
      · simp only [h2, or_false, if_false]
        rw [if_neg (fun e : pw = a => h e.symm)]

theorem authenticate_of_inv [Inhabited σ] {u : UserManager σ} {T : List (Triple σ)} (h : Inv u T)
    (user pw n : σ) : authenticate u user pw = some n ↔ (n, user, pw) ∈ T := by
  unfold authenticate checkUser checkPasswordWith
  rw [find_eq_pw]
  have hp := h.pws user pw
  by_cases hin : pw ∈ (mget u.users user).getD []
  · obtain ⟨n', hn'⟩ := hp.mp hin
    have hsome : (mget u.users user).isSome = true := by
      cases hm : mget u.users user with
      | none => rw [hm] at hin; simp at hin
      | some l => rfl
    have hk := (h.keys user pw n').mpr hn'
    simp only [hsome, Bool.not_true, if_pos hin, getNamespaceByUser, getUserKey, hk]
    simp only [Bool.false_eq_true, if_false, Option.getD_some, Option.some.injEq]
    constructor
    · intro e; exact e ▸ hn'
    · intro hn; exact h.unique _ _ _ _ hn' hn
  · have hno : ¬ (n, user, pw) ∈ T := fun hn => hin (hp.mpr ⟨n, hn⟩)
    simp only [if_neg hin]
    constructor
    · intro e; split at e <;> cases e
    · intro hn; exact absurd hn hno

theorem checkUser_of_inv {u : UserManager σ} {T : List (Triple σ)} (h : Inv u T) (user : σ) :
    checkUser u user = true ↔ ∃ n pw, (n, user, pw) ∈ T := by
  unfold checkUser
  cases hm : mget u.users user with
  | none =>
    simp only [Option.isSome_none, Bool.false_eq_true, false_iff]
    rintro ⟨n, pw, hn⟩
    have := (h.pws user pw).mpr ⟨n, hn⟩
    rw [hm] at this; simp at this
  | some l =>
    simp only [Option.isSome_some, true_iff]
    have hne := h.nonempty user l hm
    cases l with
    | nil => exact absurd rfl hne
    | cons pw r =>
      obtain ⟨n, hn⟩ := (h.pws user pw).mp (by rw [hm]; simp)
      exact ⟨n, pw, hn⟩


/-! ### C29 -/

/-- **C29 (refinement).** Start from any configuration, apply any sequence of
    namespace creations/reloads and deletions — with `CreateUserManager` and every
    `ClearNamespaceUsers` ranging over their maps in any order — such that no
    (user, password) pair is ever configured in two namespaces (`uniqueAlong`, the
    control plane's rule, checked on the reference triple sets only).  Then for
    every user name and password, over any alphabet: the handshake decision binds
    the session to namespace `n` **iff** `(n, user, password)` is configured at
    that moment. -/
theorem usermgr_refines [Inhabited σ] (init : List (NsCfg σ)) (ops : List (Op σ)) (u0 u : UserManager σ)
    (hc : CreateRel init u0) (hs : Steps u0 ops u)
    (hu : uniqueAlong (specInit init) ops = true) (user pw n : σ) :
    authenticate u user pw = some n ↔ (n, user, pw) ∈ specRun (specInit init) ops :=
  authenticate_of_inv (steps_inv hs (create_inv hc (uniqueAlong_head _ _ hu)) hu) user pw n

/-- **C29 (rejection).** Under the same hypotheses a credential is refused iff it
    is configured in no namespace. -/
theorem usermgr_rejects_iff [Inhabited σ] (init : List (NsCfg σ)) (ops : List (Op σ)) (u0 u : UserManager σ)
    (hc : CreateRel init u0) (hs : Steps u0 ops u)
    (hu : uniqueAlong (specInit init) ops = true) (user pw : σ) :
    authenticate u user pw = none ↔ ∀ n, (n, user, pw) ∉ specRun (specInit init) ops := by
  constructor
  · intro h n hn
    rw [(usermgr_refines init ops u0 u hc hs hu user pw n).mpr hn] at h
    cases h
  · intro h
    cases ha : authenticate u user pw with
    | none => rfl
    | some n => exact absurd ((usermgr_refines init ops u0 u hc hs hu user pw n).mp ha) (h n)

/-- `CheckUser` answers whether the user name is configured anywhere. -/
theorem usermgr_checkUser_iff (init : List (NsCfg σ)) (ops : List (Op σ)) (u0 u : UserManager σ)
    (hc : CreateRel init u0) (hs : Steps u0 ops u)
    (hu : uniqueAlong (specInit init) ops = true) (user : σ) :
    checkUser u user = true ↔ ∃ n pw, (n, user, pw) ∈ specRun (specInit init) ops :=
  checkUser_of_inv (steps_inv hs (create_inv hc (uniqueAlong_head _ _ hu)) hu) user

theorem steps_snoc {u u' u'' : UserManager σ} {ops : List (Op σ)} {op : Op σ}
    (h1 : Steps u ops u') (h2 : StepRel u' op u'') : Steps u (ops ++ [op]) u'' := by
  induction h1 with
  | nil u => exact Steps.cons h2 (Steps.nil _)
  | cons hstep _ ih => exact Steps.cons hstep (ih h2)

theorem specStep_other (T : List (Triple σ)) (op : Op σ) (n user pw : σ) (hn : n ≠ op.target) :
    (n, user, pw) ∈ specStep T op ↔ (n, user, pw) ∈ T := by
  cases op with
  | reload cfg =>
    simp only [specStep, Op.target, List.mem_append, List.mem_filter, Bool.not_eq_true',
      decide_eq_false_iff_not, cfgTriples, List.mem_map, Prod.mk.injEq] at hn ⊢
    constructor
    · rintro (h | ⟨_, _, e, _⟩)
      · exact h.1
      · exact absurd e.symm hn
    · intro h; exact Or.inl ⟨h, hn⟩
  | delete name =>
    simp only [specStep, Op.target, List.mem_filter, Bool.not_eq_true', decide_eq_false_iff_not] at hn ⊢
    exact ⟨fun h => h.1, fun h => ⟨h, hn⟩⟩

/-- **C29 (isolation).** Reloading or deleting one namespace never changes which
    credentials authenticate into any *other* namespace: for every reachable state
    `u`, every operation `op` (any iteration order) leading to `u'`, and every
    namespace `n` other than the one `op` acts on, `(user, pw)` is bound to `n`
    after the operation iff it was before. -/
theorem other_namespaces_unaffected [Inhabited σ] (init : List (NsCfg σ)) (ops : List (Op σ)) (op : Op σ)
    (u0 u u' : UserManager σ) (hc : CreateRel init u0) (hs : Steps u0 ops u) (hstep : StepRel u op u')
    (hu : uniqueAlong (specInit init) (ops ++ [op]) = true) (user pw n : σ) (hn : n ≠ op.target) :
    authenticate u' user pw = some n ↔ authenticate u user pw = some n := by
  have hpre : uniqueAlong (specInit init) ops = true := by
    have : ∀ (T : List (Triple σ)) (l : List (Op σ)), uniqueAlong T (l ++ [op]) = true → uniqueAlong T l = true := by
      intro T l
      induction l generalizing T with
      | nil => intro h; exact uniqueAlong_head _ _ h
      | cons a r ih =>
        intro h
        simp only [List.cons_append, uniqueAlong, Bool.and_eq_true] at h ⊢
        exact ⟨h.1, ih _ h.2⟩
    exact this _ _ hu
  rw [usermgr_refines init (ops ++ [op]) u0 u' hc (steps_snoc hs hstep) hu,
    usermgr_refines init ops u0 u hc hs hpre]
  simp only [specRun, List.foldl_append, List.foldl_cons, List.foldl_nil]
  exact specStep_other _ op n user pw hn

/-! ### The executable model run by the driver is one of the covered behaviours -/

theorem createRel_create (init : List (NsCfg σ)) : CreateRel init (createUserManager init) :=
  ⟨init, List.Perm.refl _, rfl⟩

theorem stepRel_step (u : UserManager σ) (op : Op σ) : StepRel u op (step u op) := by
  cases op with
  | reload cfg => exact StepRel.reload u cfg _ (List.Perm.refl _)
  | delete name => exact StepRel.delete u name _ (List.Perm.refl _)

theorem steps_foldl (ops : List (Op σ)) : ∀ u : UserManager σ, Steps u ops (ops.foldl step u) := by
  induction ops with
  | nil => intro u; exact Steps.nil u
  | cons op r ih => intro u; exact Steps.cons (stepRel_step u op) (ih _)

/-- The functional model `run` (association-list order) refines the triple set. -/
theorem run_refines [Inhabited σ] (init : List (NsCfg σ)) (ops : List (Op σ))
    (hu : uniqueAlong (specInit init) ops = true) (user pw n : σ) :
    authenticate (run init ops) user pw = some n ↔ (n, user, pw) ∈ specRun (specInit init) ops :=
  usermgr_refines init ops _ _ (createRel_create init) (steps_foldl ops _) hu user pw n

/-- Under the uniqueness rule the reference answer `specAuth` used by the property
    oracle is the membership statement of `usermgr_refines`. -/
theorem specAuth_iff (T : List (Triple σ)) (hu : UniqueT T) (user pw n : σ) :
    specAuth T user pw = some n ↔ (n, user, pw) ∈ T := by
  unfold specAuth
  constructor
  · intro h
    cases hf : T.find? (fun t => decide (t.2.1 = user) && decide (t.2.2 = pw)) with
    | none => rw [hf] at h; cases h
    | some t =>
      rw [hf] at h
      have hm := List.mem_of_find?_eq_some hf
      have hp := List.find?_some hf
      simp only [Bool.and_eq_true, decide_eq_true_eq] at hp
      obtain ⟨n', u', p'⟩ := t
      simp only [Option.map_some, Option.some.injEq] at h
      simp only at hp
      obtain ⟨rfl, rfl⟩ := hp
      exact h ▸ hm
  · intro hm
    cases hf : T.find? (fun t => decide (t.2.1 = user) && decide (t.2.2 = pw)) with
    | none =>
      have := List.find?_eq_none.mp hf _ hm
      simp at this
    | some t =>
      have hm' := List.mem_of_find?_eq_some hf
      have hp := List.find?_some hf
      simp only [Bool.and_eq_true, decide_eq_true_eq] at hp
      obtain ⟨n', u', p'⟩ := t
      simp only at hp
      obtain ⟨rfl, rfl⟩ := hp
      simp only [Option.map_some, Option.some.injEq]
      exact hu _ _ _ _ hm' hm

/-! ### Non-vacuity: the hypotheses hold on a history with `:` in passwords and
    user names shared between namespaces (the witness of the pinned tree's defect) -/

def exInit : List (NsCfg String) :=
  [{ name := "n1", users := [("u", "p:q"), ("a:b", "c")] }, { name := "n2", users := [("u", "p"), ("a", "b:c")] }]

def exOps : List (Op String) :=
  [.reload { name := "n1", users := [("u", "p:q2")] }, .delete "n3", .reload { name := "n3", users := [("u", "x")] }]

example : uniqueAlong (specInit exInit) exOps = true := by decide
example : authenticate (run exInit exOps) "u" "p" = some "n2" := by decide
example : authenticate (run exInit exOps) "a" "b:c" = some "n2" := by decide
example : authenticate (run exInit exOps) "u" "p:q2" = some "n1" := by decide
example : authenticate (run exInit exOps) "u" "p:q" = none := by decide
example : ("n2", "u", "p") ∈ specRun (specInit exInit) exOps := by decide
example : StepRel (run exInit []) (.delete "n1") (clearNamespaceUsersOrd (run exInit []) "n1" (run exInit []).userNamespaces.reverse) :=
  StepRel.delete _ _ _ (List.reverse_perm _)

/-! ### The defect of the pinned tree (repaired by cf4783b), for the record -/

/-- Pinned tree: distinct credentials shared one `user:password` key. -/
theorem legacy_key_not_injective :
    legacyUserKey "a:b".toList "c".toList = legacyUserKey "a".toList "b:c".toList
      ∧ ("a:b".toList, "c".toList) ≠ ("a".toList, "b:c".toList) := by decide

/-- Pinned tree: splitting the key back truncated a password containing `:`, so
    clearing namespace n1's `(u, p:q)` removed namespace n2's password `p` of user `u`. -/
theorem legacy_split_truncates_password :
    legacyUserAndPasswordFromKey (legacyUserKey "u".toList "p:q".toList) = ("u".toList, "p".toList) := by decide

omit [DecidableEq σ] in
/-- The repaired key is injective and splits back exactly. -/
theorem key_injective (u p u' p' : σ) : getUserKey u p = getUserKey u' p' ↔ (u = u' ∧ p = p') := by
  simp [getUserKey]

omit [DecidableEq σ] in
theorem key_split (u p : σ) : getUserAndPasswordFromKey (getUserKey u p) = (u, p) := rfl

end GaeaVerif.C29
