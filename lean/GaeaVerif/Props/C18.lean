import GaeaVerif.Lemmas.SessConnsPins
/-
  C18 — A transaction stays on one master connection per slice.

  Model: Model/SessionConns.lean (`run cfg ops`: any sequence of client
  commands, disconnects and namespace reloads, every command with its own
  backend faults and map-iteration order; every configuration).  The backend
  ledger of the model records, per connection, its slice and role, how often
  it was given back, and three monitors that are set at the moment of the
  event: `uar` (touched after it was given back), `dup` (handed out while
  another connection of the same slice was out), `rif` (given back while a
  statement was in flight).

  How the English property is rendered.  "Every statement that touches slice S
  between BEGIN and COMMIT runs on one and the same master connection, never on
  a replica, never on a connection another session is using" is the
  conjunction of
   * `no_second_conn_on_slice`: at no moment are two connections of one slice
     out, so at every moment there is at most one connection a statement on S
     can legitimately run on;
   * `never_used_after_return`: no backend call ever hits a connection that is
     not out (it may belong to another session by then);
   * `tx_conns_master`: between commands the transaction holds, per slice, one
     connection, which is a master connection of that slice and is out;
   * `tx_affinity_partial`: the entry of a slice in the transaction's map does
     not change until a command that ends the transaction.
  "COMMIT and ROLLBACK are sent to exactly the connections used by the
  transaction, after which those connections are released" is `commit_targets`
  (COMMIT; for ROLLBACK only the release is proved: it skips connections that
  are already closed) and `commit_releases`.

  The pinned tree violates the full statements in three ways, each with a
  witness below and a `known/C18.json` entry: after a statement timeout the
  transaction silently continues on a new connection
  (`tx_continues_after_conn_loss_witness`; the partial theorems exclude
  timeouts), a read-only user of a keep-session namespace runs its
  transactions on a replica (`ks_readonly_tx_on_replica_witness`), and a
  sharded statement that times out gives its connection back while the worker
  still uses it (C19.return_in_flight_witness).
-/
namespace GaeaVerif.C18
open GaeaVerif.SessionConns

theorem run_snoc (cfg : Cfg) (ops : List Op) (op : Op) :
    run cfg (ops ++ [op]) = (step cfg (run cfg ops) op).1 := by
  simp [run, List.foldl_append]

theorem run_append (cfg : Cfg) (ops mid : List Op) :
    run cfg (ops ++ mid) = mid.foldl (fun s op => (step cfg s op).1) (run cfg ops) := by
  simp [run, List.foldl_append]

/-- At no moment of any history are two connections of one slice out. -/
theorem no_second_conn_on_slice (cfg : Cfg) (ops : List Op) :
    ∀ c ∈ (run cfg ops).w.conns, c.dup = false := by
  intro c hc
  have h := (idle_run_all cfg ops).inv.wi
  obtain ⟨i, hi, hget⟩ := List.mem_iff_getElem.1 hc
  exact (h.flags i c (by rw [List.getElem?_eq_getElem hi, hget])).2

/-- No backend call of any history hits a connection after it was given back
    to its pool ("never on a connection another session is using"). -/
theorem never_used_after_return (cfg : Cfg) (ops : List Op) :
    ∀ c ∈ (run cfg ops).w.conns, c.uar = false := by
  intro c hc
  have h := (idle_run_all cfg ops).inv.wi
  obtain ⟨i, hi, hget⟩ := List.mem_iff_getElem.1 hc
  exact (h.flags i c (by rw [List.getElem?_eq_getElem hi, hget])).1

/-- Between two commands, every connection of the transaction is a master
    connection of the slice it is filed under and is out (not given back);
    there is one per slice and none is filed twice.  For all histories. -/
theorem tx_conns_master (cfg : Cfg) (ops : List Op) :
    (∀ e ∈ (run cfg ops).txConns, ∃ cn : Conn, (run cfg ops).w.conns[e.2]? = some cn ∧
      cn.master = true ∧ cn.slice = e.1 ∧ cn.returns = 0) ∧
    (run cfg ops).txConns.keys.Nodup ∧ (run cfg ops).txConns.vals.Nodup := by
  have h := (idle_run_all cfg ops).inv.wi
  simp only [List.append_nil] at h
  refine ⟨?_, ?_, ?_⟩
  · intro e he
    have hmem : e ∈ held (run cfg ops) := by simp [held, he]
    obtain ⟨cn, hcn, h0, hsl⟩ := h.out e hmem
    obtain ⟨cn', hcn', hm⟩ := h.mast e.2 (by
      simp only [masters, List.mem_append]; exact Or.inl (mem_vals.2 ⟨e.1, he⟩))
    rw [hcn] at hcn'; cases hcn'
    exact ⟨cn, hcn, hm, hsl, h0⟩
  · have := h.nodupS
    simp only [held, CMap.keys, List.map_append] at this
    exact (List.nodup_append.1 this).1
  · have := h.nodupC
    simp only [held, CMap.vals, List.map_append] at this
    exact (List.nodup_append.1 this).1

/-- Outside keep-session mode a session that is not in a transaction holds no connection. -/
theorem idle_holds_nothing (cfg : Cfg) (ops : List Op) (hks : cfg.ks = false)
    (hin : (run cfg ops).isInTransaction = false) :
    (run cfg ops).txConns = [] ∧ (run cfg ops).ksConns = [] :=
  ⟨(idle_run_all cfg ops).inv.txIdle hin, (idle_run_all cfg ops).inv.ksOff hks⟩

/-- the hypotheses of the partial theorems: no statement timeout (and no ping failure) is injected -/
def Calm (ops : List Op) : Prop := ∀ op ∈ ops, CalmOp op

def qCalm : Q := { t := false, p := true }

theorem idle_calm (cfg : Cfg) (ops : List Op) (h : Calm ops) : Idle qCalm cfg (run cfg ops) :=
  idle_run cfg ops (fun op hop => ⟨fun hq => by simp [qCalm] at hq, fun _ => h op hop⟩)

/-- One more operation that does not end the transaction (anything but COMMIT,
    ROLLBACK, autocommit=1, quit, disconnect) keeps every entry of the
    transaction's map. -/
theorem tx_pin_stable_partial (cfg : Cfg) (ops : List Op) (op : Op) (hks : cfg.ks = false)
    (hc : Calm ops) (hco : CalmOp op) (hkeep : op.body.keepsTx = true) :
    ∀ e ∈ (run cfg ops).txConns, e ∈ (run cfg (ops ++ [op])).txConns := by
  intro e he
  rw [run_snoc]
  have hI := idle_calm cfg ops hc
  cases hcl : (run cfg ops).closed with
  | true => rw [(hI.clean hcl).1] at he; cases he
  | false =>
    cases hcmd : op.body.isCommand with
    | true =>
      have hq : op.body ≠ .quit := by intro h; rw [h] at hkeep; simp [Body.keepsTx] at hkeep
      obtain ⟨_, htx, _, _⟩ := grow_step (q := qCalm) cfg op
        ⟨fun hq => by simp [qCalm] at hq, fun _ => hco⟩ rfl hcmd hq hI hcl (Or.inl hks)
      obtain ⟨A, hA⟩ := htx hkeep
      rw [hA]; exact List.mem_append_left _ he
    | false =>
      -- a reload between two commands (a disconnect ends the transaction)
      have hb : op.body = .nsc := by
        cases hb : op.body <;> simp_all [Body.isCommand, Body.keepsTx]
      unfold step
      simp only [hcl, hb, Bool.false_eq_true, if_false]
      exact he

/-- FULL STATEMENT (false of the pinned tree, see the witness below): the same
    without `Calm`.  Between the command that made the transaction take a
    connection for slice S and the command that ends the transaction, the
    connection filed under S is the same: whatever the commands in between,
    their faults and their iteration orders, as long as no statement times
    out.  With `tx_conns_master`, `no_second_conn_on_slice` and
    `never_used_after_return` this is "all statements of the transaction on S
    run on one master connection". -/
theorem tx_affinity_partial (cfg : Cfg) (ops mid : List Op) (hks : cfg.ks = false)
    (hc : Calm (ops ++ mid)) (hkeep : ∀ op ∈ mid, op.body.keepsTx = true) :
    ∀ e ∈ (run cfg ops).txConns, e ∈ (run cfg (ops ++ mid)).txConns := by
  induction mid generalizing ops with
  | nil => intro e he; simpa using he
  | cons op mid ih =>
    intro e he
    have h1 := tx_pin_stable_partial cfg ops op hks
      (fun o ho => hc o (by simp [ho])) (hc op (by simp)) (hkeep op (by simp)) e he
    have := ih (ops ++ [op]) (by simpa using hc) (fun o ho => hkeep o (by simp [ho])) e h1
    simpa using this

/-- COMMIT, ROLLBACK and autocommit=1 (outside keep-session mode) leave the
    transaction's map empty and every connection that was in it given back
    exactly once.  For all histories, faults included (a COMMIT that fails on
    one connection still releases all of them). -/
theorem commit_releases (cfg : Cfg) (ops : List Op) (op : Op) (hks : cfg.ks = false)
    (hb : op.body = .commit ∨ op.body = .rollback ∨ op.body = .ac true)
    (hopen : (run cfg ops).closed = false) :
    (run cfg (ops ++ [op])).txConns = [] ∧
    ∀ e ∈ (run cfg ops).txConns, ∃ cn : Conn,
      (run cfg (ops ++ [op])).w.conns[e.2]? = some cn ∧ cn.returns = 1 := by
  have hI := idle_run_all cfg ops
  have hI' := idle_run_all cfg (ops ++ [op])
  -- the map is empty afterwards
  have htx : (run cfg (ops ++ [op])).txConns = [] := by
    rw [run_snoc]
    have hbc : op.body.isCommand = true := by rcases hb with hb | hb | hb <;> rw [hb] <;> rfl
    have e : (step cfg (run cfg ops) op).1 = (runCommand { cfg := cfg, ord := op.ord, faults := op.faults } op.body
        { (run cfg ops) with w := { (run cfg ops).w with trace := [] } }).1 := by
      unfold step
      dsimp only
      simp only [hopen, Bool.false_eq_true, if_false]
      split
      · rename_i hb'; rw [hb'] at hbc; simp [Body.isCommand] at hbc
      · rename_i hb'; rw [hb'] at hbc; simp [Body.isCommand] at hbc
      · rfl
    rw [e]
    exact endTx_runCommand (ctx := { cfg := cfg, ord := op.ord, faults := op.faults }) hks op.body hb hI.cont
  refine ⟨htx, ?_⟩
  intro e he
  -- the connection is still in the ledger, and it is not held any more
  obtain ⟨cn, hcn, _, _⟩ := hI.inv.wi.out e (by simp [held, he])
  have hext : Ext (run cfg ops).w (run cfg (ops ++ [op])).w := by rw [run_snoc]; exact ext_step cfg op
  obtain ⟨cn', hcn', _, _, _, _⟩ := hext e.2 cn hcn
  refine ⟨cn', hcn', hI'.inv.wi.ret e.2 cn' hcn' ?_⟩
  simp [held, htx, hI'.inv.ksOff hks, CMap.vals]

/-- COMMIT (outside keep-session mode) is sent to exactly the connections of
    the transaction, each once: the connections that receive a COMMIT during the
    command are, up to order, the ones filed in the transaction's map. -/
theorem commit_targets (cfg : Cfg) (ops : List Op) (op : Op) (hks : cfg.ks = false)
    (hb : op.body = .commit) (hopen : (run cfg ops).closed = false) :
    (callsOn .C (run cfg (ops ++ [op])).w.trace).Perm (run cfg ops).txConns.vals := by
  have hI := idle_run_all cfg ops
  rw [run_snoc]
  have e : (step cfg (run cfg ops) op).1 = (runCommand { cfg := cfg, ord := op.ord, faults := op.faults } op.body
      { (run cfg ops) with w := { (run cfg ops).w with trace := [] } }).1 := by
    unfold step
    dsimp only
    simp only [hopen, hb, Bool.false_eq_true, if_false]
  rw [e]
  obtain ⟨s2, hw2, htx2, hks2, hw⟩ := runCommand_w_noks (ctx := { cfg := cfg, ord := op.ord, faults := op.faults })
    (s := { (run cfg ops) with w := { (run cfg ops).w with trace := [] } }) hks op.body (Or.inl hb) hI.cont
  rw [hw, hb]
  show (callsOn .C (commit _ s2).1.w.trace).Perm _
  have hks0 : s2.ksConns = [] := by rw [hks2]; exact hI.inv.ksOff hks
  simp only [commit, hks0, iterOrder, sortBy, CMap.vals, List.foldr_nil, List.map_nil, eachConn]
  have hv : ∀ c ∈ (iterOrder op.ord s2.txConns).vals, ∃ cn : Conn, s2.w.conns[c]? = some cn := by
    intro c hc
    have hc' : c ∈ (run cfg ops).txConns.vals := by rw [← htx2]; exact iter_vals_sub _ _ c hc
    obtain ⟨sl, hsl⟩ := mem_vals.1 hc'
    obtain ⟨cn, hcn, _⟩ := hI.inv.wi.out (sl, c) (by simp [held, hsl])
    exact ⟨cn, by rw [hw2]; exact hcn⟩
  have := callsOn_eachCommitTx { cfg := cfg, ord := op.ord, faults := op.faults } mergeAnd _ s2.w true hv
  simp only [iterOrder, sortBy, CMap.vals] at this
  rw [this, hw2]
  simp only [callsOn, List.filterMap_nil, List.append_nil]
  refine (List.reverse_perm _).trans ?_
  rw [htx2]
  exact (iterOrder_perm op.ord (run cfg ops).txConns).map _

/-! ## Witnesses of the known findings -/

/-- a transaction on slice 0, a statement that times out, another statement -/
def connLossOps : List Op :=
  [ { body := .begin, ord := [0, 1], faults := [] },
    { body := .qu .w, ord := [0, 1], faults := [] },
    { body := .qu .w, ord := [0, 1], faults := [{ k := .x, slice := 0, mode := .t }] },
    { body := .qu .w, ord := [0, 1], faults := [] } ]

/-- Known finding `tx-continues-after-conn-loss`: the full statement of
    `tx_affinity_partial` fails when a statement times out: the transaction is
    still open for the client, but its statements now run on connection 1
    instead of connection 0. -/
theorem tx_continues_after_conn_loss_witness :
    (run { ks := false, user := .w, fb := true } (connLossOps.take 2)).txConns = [(0, 0)] ∧
    (run { ks := false, user := .w, fb := true } connLossOps).txConns = [(0, 1)] ∧
    (run { ks := false, user := .w, fb := true } connLossOps).inTrans = true := by
  decide

/-- a read-only user of a keep-session namespace opens a transaction -/
def ksReadonlyOps : List Op :=
  [ { body := .begin, ord := [0, 1], faults := [] },
    { body := .qu .r, ord := [0, 1], faults := [] } ]

/-- Known finding `ks-readonly-tx-on-replica`: with keep-session the connection
    a read-only user's transaction runs on is a replica connection. -/
theorem ks_readonly_tx_on_replica_witness :
    (run { ks := true, user := .r, fb := true } ksReadonlyOps).inTrans = true ∧
    (run { ks := true, user := .r, fb := true } ksReadonlyOps).ksConns = [(0, 0)] ∧
    ((run { ks := true, user := .r, fb := true } ksReadonlyOps).w.conns.map (·.master)) = [false] := by
  decide

/-- FULL STATEMENT (false, see the witness above): the same for every user.
    With keep-session the pinned connections of a user that may write are master
    connections. -/
theorem ks_conns_master_partial (cfg : Cfg) (ops : List Op) (hu : cfg.user ≠ .r) :
    ∀ e ∈ (run cfg ops).ksConns, ∃ cn : Conn, (run cfg ops).w.conns[e.2]? = some cn ∧
      cn.master = true ∧ cn.slice = e.1 ∧ cn.returns = 0 := by
  have h := (idle_run_all cfg ops).inv.wi
  simp only [List.append_nil] at h
  intro e he
  have hmem : e ∈ held (run cfg ops) := by simp [held, he]
  obtain ⟨cn, hcn, h0, hsl⟩ := h.out e hmem
  obtain ⟨cn', hcn', hm⟩ := h.mast e.2 (by
    simp only [masters, hu, if_false, List.mem_append]; exact Or.inr (mem_vals.2 ⟨e.1, he⟩))
  rw [hcn] at hcn'; cases hcn'
  exact ⟨cn, hcn, hm, hsl, h0⟩

/-! Non-vacuity -/

/-- a two-slice transaction with faults that are not timeouts -/
def demoOps : List Op :=
  [ { body := .begin, ord := [0, 1], faults := [] },
    { body := .qs .w [0, 1], ord := [1, 0], faults := [{ k := .x, slice := 1, mode := .e }] } ]
def demoMid : List Op :=
  [ { body := .qu .w, ord := [0, 1], faults := [{ k := .u, slice := 0, mode := .e }] },
    { body := .sp 1, ord := [1, 0], faults := [] },
    { body := .qs .r [1], ord := [0, 1], faults := [] } ]

example : (run { ks := false, user := .w, fb := true } demoOps).txConns = [(1, 0), (0, 1)] := by decide
example : (run { ks := false, user := .w, fb := true } (demoOps ++ demoMid)).txConns = [(1, 0), (0, 1)] := by decide
example : Calm (demoOps ++ demoMid) := by
  intro op hop f hf
  simp [demoOps, demoMid] at hop
  rcases hop with rfl | rfl | rfl | rfl | rfl <;> simp at hf <;> (try subst hf) <;> simp
example : ∀ op ∈ demoMid, op.body.keepsTx = true := by decide

end GaeaVerif.C18
