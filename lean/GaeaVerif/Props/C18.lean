import GaeaVerif.Lemmas.SessConnsPins
/-
  C18 — A transaction stays on one master connection per slice.

  Model: Model/SessionConns.lean (`run cfg ops`: any sequence of client
  commands, disconnects and namespace reloads, every command with its own
  backend faults and map-iteration order; every configuration).  The backend
  ledger of the model records, per connection, its slice and role, how often
  it was given back, and three monitors that are set at the moment of the
  event: `uar` (touched after it was given back), `dup` (handed out while
  another connection of the same slice was out), `rif` (given back while a
  statement was in flight).

  How the English property is rendered.  "Every statement that touches slice S
  between BEGIN and COMMIT runs on one and the same master connection, never on
  a replica, never on a connection another session is using" is the
  conjunction of
   * `no_second_conn_on_slice`: at no moment are two connections of one slice
     out, so at every moment there is at most one connection a statement on S
     can legitimately run on;
   * `never_used_after_return`: no backend call ever hits a connection that is
     not out (it may belong to another session by then);
   * `tx_conns_master`, `ks_conns_master`: between commands the session holds,
     per slice, one connection, which is a master connection of that slice and
     is out (keep-session mode and read-only users included);
   * `tx_affinity` (`tx_pin_stable`, `tx_held_stable`, `tx_affinity_tx`): the
     connection filed under a slice does not change until a command that ends
     the transaction - for all histories, faults, timeouts and lost connections:
     when the transaction loses a connection the session is closed instead
     (`tx_conns_open`: an open session in a transaction holds no closed
     connection).
  "COMMIT and ROLLBACK are sent to exactly the connections used by the
  transaction, after which those connections are released" is `commit_targets`,
  `rollback_targets` and `commit_releases`.

  The pinned tree violated the full statements in three ways; all three are
  repaired (fix commits 5a42848, cb8bfb6, e307c15) and the former witness
  histories are kept as theorems about the repaired behaviour
  (`tx_conn_loss_closes_session`, `ks_readonly_tx_on_master`,
  C19.`timeout_conn_closed_before_return`) and as corpus cases.
-/
namespace GaeaVerif.C18
open GaeaVerif.SessionConns

theorem run_snoc (cfg : Cfg) (ops : List Op) (op : Op) :
    run cfg (ops ++ [op]) = (step cfg (run cfg ops) op).1 := by
  simp [run, List.foldl_append]

theorem run_append (cfg : Cfg) (ops mid : List Op) :
    run cfg (ops ++ mid) = mid.foldl (fun s op => (step cfg s op).1) (run cfg ops) := by
  simp [run, List.foldl_append]

/-- At no moment of any history are two connections of one slice out. -/
theorem no_second_conn_on_slice (cfg : Cfg) (ops : List Op) :
    ∀ c ∈ (run cfg ops).w.conns, c.dup = false := by
  intro c hc
  have h := (idle_run_all cfg ops).inv.wi
  obtain ⟨i, hi, hget⟩ := List.mem_iff_getElem.1 hc
  exact (h.flags i c (by rw [List.getElem?_eq_getElem hi, hget])).2

/-- No backend call of any history hits a connection after it was given back
    to its pool ("never on a connection another session is using"). -/
theorem never_used_after_return (cfg : Cfg) (ops : List Op) :
    ∀ c ∈ (run cfg ops).w.conns, c.uar = false := by
  intro c hc
  have h := (idle_run_all cfg ops).inv.wi
  obtain ⟨i, hi, hget⟩ := List.mem_iff_getElem.1 hc
  exact (h.flags i c (by rw [List.getElem?_eq_getElem hi, hget])).1

/-- Between two commands, every connection of the transaction is a master
    connection of the slice it is filed under and is out (not given back);
    there is one per slice and none is filed twice.  For all histories. -/
theorem tx_conns_master (cfg : Cfg) (ops : List Op) :
    (∀ e ∈ (run cfg ops).txConns, ∃ cn : Conn, (run cfg ops).w.conns[e.2]? = some cn ∧
      cn.master = true ∧ cn.slice = e.1 ∧ cn.returns = 0) ∧
    (run cfg ops).txConns.keys.Nodup ∧ (run cfg ops).txConns.vals.Nodup := by
  have h := (idle_run_all cfg ops).inv.wi
  simp only [List.append_nil] at h
  refine ⟨?_, ?_, ?_⟩
  · intro e he
    have hmem : e ∈ held (run cfg ops) := by simp [held, he]
    obtain ⟨cn, hcn, h0, hsl⟩ := h.out e hmem
    obtain ⟨cn', hcn', hm⟩ := h.mast e.2 (by
      simp only [masters, List.mem_append]; exact Or.inl (mem_vals.2 ⟨e.1, he⟩))
    rw [hcn] at hcn'; cases hcn'
    exact ⟨cn, hcn, hm, hsl, h0⟩
  · have := h.nodupS
    simp only [held, CMap.keys, List.map_append] at this
    exact (List.nodup_append.1 this).1
  · have := h.nodupC
    simp only [held, CMap.vals, List.map_append] at this
    exact (List.nodup_append.1 this).1

/-- Outside keep-session mode a session that is not in a transaction holds no connection. -/
theorem idle_holds_nothing (cfg : Cfg) (ops : List Op) (hks : cfg.ks = false)
    (hin : (run cfg ops).isInTransaction = false) :
    (run cfg ops).txConns = [] ∧ (run cfg ops).ksConns = [] :=
  ⟨(idle_run_all cfg ops).inv.txIdle hin, (idle_run_all cfg ops).inv.ksOff hks⟩

/-- One more operation that does not end the transaction (anything but COMMIT,
    ROLLBACK, autocommit=1, quit, disconnect), whatever its faults, timeouts and
    iteration order: every entry of the transaction's map is still there
    afterwards, or the session has been closed (which is what happens when the
    transaction loses a connection: the statement fails and `Session.Run` ends
    the session, fix 5a42848). -/
theorem tx_pin_stable (cfg : Cfg) (ops : List Op) (op : Op) (hkeep : op.body.keepsTx = true) :
    ∀ e ∈ (run cfg ops).txConns,
      e ∈ (run cfg (ops ++ [op])).txConns ∨ (run cfg (ops ++ [op])).closed = true := by
  intro e he
  rw [run_snoc]
  have hI := idle_run_all cfg ops
  have hin : (run cfg ops).isInTransaction = true := by
    cases h : (run cfg ops).isInTransaction with
    | true => rfl
    | false => rw [hI.inv.txIdle h] at he; cases he
  rcases keep_step_in_tx cfg op (qhop_none op) hI hkeep hin with h | ⟨_, h, _⟩
  · exact Or.inr h
  · exact Or.inl (h e he)

/-- The same for everything a session in a transaction holds, keep-session mode
    included (there the transaction runs on the pinned connections): one more
    operation that does not end the transaction leaves the session closed, or
    still in its transaction with every connection it held, filed under the same
    slice. -/
theorem tx_held_stable (cfg : Cfg) (ops : List Op) (op : Op) (hkeep : op.body.keepsTx = true)
    (hin : (run cfg ops).isInTransaction = true) :
    (run cfg (ops ++ [op])).closed = true ∨
    ((run cfg (ops ++ [op])).isInTransaction = true ∧
      ∀ e ∈ held (run cfg ops), e ∈ held (run cfg (ops ++ [op]))) := by
  rw [run_snoc]
  rcases keep_step_in_tx cfg op (qhop_none op) (idle_run_all cfg ops) hkeep hin with h | ⟨h1, h2, h3⟩
  · exact Or.inl h
  · refine Or.inr ⟨h1, ?_⟩
    intro e he
    simp only [held, List.mem_append] at he ⊢
    rcases he with he | he
    · exact Or.inl (h2 e he)
    · exact Or.inr (h3 e he)

theorem closed_stays (cfg : Cfg) (ops mid : List Op) (h : (run cfg ops).closed = true) :
    (run cfg (ops ++ mid)).closed = true := by
  induction mid generalizing ops with
  | nil => simpa using h
  | cons op mid ih =>
    have h1 : (run cfg (ops ++ [op])).closed = true := by
      rw [run_snoc]; unfold step; simp [h]
    have := ih (ops ++ [op]) h1
    simpa using this

/-- `tx_affinity` — the transaction stays on its connections.  From any point
    of any history at which the session is in a transaction, through any further
    operations that do not end the transaction (statements on any slices,
    savepoints, BEGIN again, pings, reloads; any backend faults, statement
    timeouts, lost connections, iteration orders): the connection filed under a
    slice is the same at the end - or the session has been closed.  No
    transaction silently continues on another connection.  With
    `tx_conns_master`, `ks_conns_master`, `no_second_conn_on_slice` and
    `never_used_after_return` this is "every statement of the transaction that
    touches slice S runs on one and the same master connection of S". -/
theorem tx_affinity (cfg : Cfg) (ops mid : List Op) (hkeep : ∀ op ∈ mid, op.body.keepsTx = true)
    (hin : (run cfg ops).isInTransaction = true) :
    (run cfg (ops ++ mid)).closed = true ∨
    ((run cfg (ops ++ mid)).isInTransaction = true ∧
      ∀ e ∈ held (run cfg ops), e ∈ held (run cfg (ops ++ mid))) := by
  induction mid generalizing ops with
  | nil => exact Or.inr ⟨by simpa using hin, fun e he => by simpa using he⟩
  | cons op mid ih =>
    rcases tx_held_stable cfg ops op (hkeep op (by simp)) hin with h | ⟨h1, h2⟩
    · left
      have := closed_stays cfg (ops ++ [op]) mid h
      simpa using this
    · rcases ih (ops ++ [op]) (fun o ho => hkeep o (by simp [ho])) h1 with h | ⟨h3, h4⟩
      · left; simpa using h
      · right
        refine ⟨by simpa using h3, fun e he => ?_⟩
        have := h4 e (h2 e he)
        simpa using this

/-- the transaction's map alone (outside keep-session mode everything the
    transaction holds): no hypothesis on the state at all -/
theorem tx_affinity_tx (cfg : Cfg) (ops mid : List Op) (hkeep : ∀ op ∈ mid, op.body.keepsTx = true) :
    ∀ e ∈ (run cfg ops).txConns,
      e ∈ (run cfg (ops ++ mid)).txConns ∨ (run cfg (ops ++ mid)).closed = true := by
  induction mid generalizing ops with
  | nil => intro e he; left; simpa using he
  | cons op mid ih =>
    intro e he
    rcases tx_pin_stable cfg ops op (hkeep op (by simp)) e he with h | h
    · have := ih (ops ++ [op]) (fun o ho => hkeep o (by simp [ho])) e h
      simpa using this
    · right
      have := closed_stays cfg (ops ++ [op]) mid h
      simpa using this

/-- Between two commands, the connections of an open session that is in a
    transaction are all open: a transaction never goes on with a lost connection. -/
theorem tx_conns_open (cfg : Cfg) (ops : List Op) (hopen : (run cfg ops).closed = false)
    (hin : (run cfg ops).isInTransaction = true) :
    ∀ e ∈ held (run cfg ops), isClosed e.2 (run cfg ops).w = false := by
  intro e he
  refine heldOpen_run cfg ops hopen hin e.2 ?_
  simp only [held, List.mem_append] at he
  rcases he with he | he
  · exact List.mem_append_left _ (mem_vals.2 ⟨e.1, he⟩)
  · exact List.mem_append_right _ (mem_vals.2 ⟨e.1, he⟩)

/-- COMMIT, ROLLBACK and autocommit=1 (outside keep-session mode) leave the
    transaction's map empty and every connection that was in it given back
    exactly once.  For all histories, faults included (a COMMIT that fails on
    one connection still releases all of them). -/
theorem commit_releases (cfg : Cfg) (ops : List Op) (op : Op) (hks : cfg.ks = false)
    (hb : op.body = .commit ∨ op.body = .rollback ∨ op.body = .ac true)
    (hopen : (run cfg ops).closed = false) :
    (run cfg (ops ++ [op])).txConns = [] ∧
    ∀ e ∈ (run cfg ops).txConns, ∃ cn : Conn,
      (run cfg (ops ++ [op])).w.conns[e.2]? = some cn ∧ cn.returns = 1 := by
  have hI := idle_run_all cfg ops
  have hI' := idle_run_all cfg (ops ++ [op])
  -- the map is empty afterwards
  have htx : (run cfg (ops ++ [op])).txConns = [] := by
    rw [run_snoc]
    have hbc : op.body.isCommand = true := by rcases hb with hb | hb | hb <;> rw [hb] <;> rfl
    have e : (step cfg (run cfg ops) op).1 = (runCommand { cfg := cfg, ord := op.ord, faults := op.faults } op.body
        { (run cfg ops) with w := { (run cfg ops).w with trace := [] } }).1 := by
      unfold step
      dsimp only
      simp only [hopen, Bool.false_eq_true, if_false]
      split
      · rename_i hb'; rw [hb'] at hbc; simp [Body.isCommand] at hbc
      · rename_i hb'; rw [hb'] at hbc; simp [Body.isCommand] at hbc
      · rfl
    rw [e]
    exact endTx_runCommand (ctx := { cfg := cfg, ord := op.ord, faults := op.faults }) hks op.body hb hI.cont
  refine ⟨htx, ?_⟩
  intro e he
  -- the connection is still in the ledger, and it is not held any more
  obtain ⟨cn, hcn, _, _⟩ := hI.inv.wi.out e (by simp [held, he])
  have hext : Ext (run cfg ops).w (run cfg (ops ++ [op])).w := by rw [run_snoc]; exact ext_step cfg op
  obtain ⟨cn', hcn', _, _, _, _⟩ := hext e.2 cn hcn
  refine ⟨cn', hcn', hI'.inv.wi.ret e.2 cn' hcn' ?_⟩
  simp [held, htx, hI'.inv.ksOff hks, CMap.vals]

/-- COMMIT (outside keep-session mode) is sent to exactly the connections of
    the transaction, each once: the connections that receive a COMMIT during the
    command are, up to order, the ones filed in the transaction's map. -/
theorem commit_targets (cfg : Cfg) (ops : List Op) (op : Op) (hks : cfg.ks = false)
    (hb : op.body = .commit) (hopen : (run cfg ops).closed = false) :
    (callsOn .C (run cfg (ops ++ [op])).w.trace).Perm (run cfg ops).txConns.vals := by
  have hI := idle_run_all cfg ops
  rw [run_snoc]
  have e : (step cfg (run cfg ops) op).1 = (runCommand { cfg := cfg, ord := op.ord, faults := op.faults } op.body
      { (run cfg ops) with w := { (run cfg ops).w with trace := [] } }).1 := by
    unfold step
    dsimp only
    simp only [hopen, hb, Bool.false_eq_true, if_false]
  rw [e]
  obtain ⟨s2, hw2, htx2, hks2, hw⟩ := runCommand_w_noks (ctx := { cfg := cfg, ord := op.ord, faults := op.faults })
    (s := { (run cfg ops) with w := { (run cfg ops).w with trace := [] } }) hks op.body (Or.inl hb) hI.cont
    (hI.inv.ksOff hks)
  rw [hw, hb]
  show (callsOn .C (commit _ s2).1.w.trace).Perm _
  have hks0 : s2.ksConns = [] := by rw [hks2]; exact hI.inv.ksOff hks
  simp only [commit, hks0, iterOrder, sortBy, CMap.vals, List.foldr_nil, List.map_nil, eachConn]
  have hv : ∀ c ∈ (iterOrder op.ord s2.txConns).vals, ∃ cn : Conn, s2.w.conns[c]? = some cn := by
    intro c hc
    have hc' : c ∈ (run cfg ops).txConns.vals := by rw [← htx2]; exact iter_vals_sub _ _ c hc
    obtain ⟨sl, hsl⟩ := mem_vals.1 hc'
    obtain ⟨cn, hcn, _⟩ := hI.inv.wi.out (sl, c) (by simp [held, hsl])
    exact ⟨cn, by rw [hw2]; exact hcn⟩
  have := callsOn_eachCommitTx { cfg := cfg, ord := op.ord, faults := op.faults } mergeAnd _ s2.w true hv
  simp only [iterOrder, sortBy, CMap.vals] at this
  rw [this, hw2]
  simp only [callsOn, List.filterMap_nil, List.append_nil]
  refine (List.reverse_perm _).trans ?_
  rw [htx2]
  exact (iterOrder_perm op.ord (run cfg ops).txConns).map _

/-- ROLLBACK (outside keep-session mode) is sent to exactly the connections of
    the transaction, each once: the connections that receive a ROLLBACK during
    the command are, up to order, the ones filed in the transaction's map
    (`rollback` skips a connection that is closed, but an open session in a
    transaction holds none: `tx_conns_open`). -/
theorem rollback_targets (cfg : Cfg) (ops : List Op) (op : Op) (hks : cfg.ks = false)
    (hb : op.body = .rollback) (hopen : (run cfg ops).closed = false) :
    (callsOn .R (run cfg (ops ++ [op])).w.trace).Perm (run cfg ops).txConns.vals := by
  have hI := idle_run_all cfg ops
  rw [run_snoc]
  have e : (step cfg (run cfg ops) op).1 = (runCommand { cfg := cfg, ord := op.ord, faults := op.faults } op.body
      { (run cfg ops) with w := { (run cfg ops).w with trace := [] } }).1 := by
    unfold step
    dsimp only
    simp only [hopen, hb, Bool.false_eq_true, if_false]
  rw [e]
  obtain ⟨s2, hw2, htx2, hks2, hw⟩ := runCommand_w_noks (ctx := { cfg := cfg, ord := op.ord, faults := op.faults })
    (s := { (run cfg ops) with w := { (run cfg ops).w with trace := [] } }) hks op.body (Or.inr (Or.inl hb)) hI.cont
    (hI.inv.ksOff hks)
  rw [hw, hb]
  show (callsOn .R (rollback _ s2).1.w.trace).Perm _
  have hks0 : s2.ksConns = [] := by rw [hks2]; exact hI.inv.ksOff hks
  simp only [rollback, hks0, iterOrder, sortBy, CMap.vals, List.foldr_nil, List.map_nil, eachConn]
  have hnd : (iterOrder op.ord s2.txConns).vals.Nodup := by
    have hp := (iterOrder_perm op.ord s2.txConns).map (fun e : Nat × Nat => e.2)
    refine (hp.nodup_iff).2 ?_
    rw [htx2]
    exact (tx_conns_master cfg ops).2.2
  have hv : ∀ c ∈ (iterOrder op.ord s2.txConns).vals, ∃ cn : Conn, s2.w.conns[c]? = some cn ∧ cn.closed = false := by
    intro c hc
    have hc' : c ∈ (run cfg ops).txConns.vals := by rw [← htx2]; exact iter_vals_sub _ _ c hc
    obtain ⟨sl, hsl⟩ := mem_vals.1 hc'
    obtain ⟨cn, hcn, _⟩ := hI.inv.wi.out (sl, c) (by simp [held, hsl])
    have hin : (run cfg ops).isInTransaction = true := by
      cases h : (run cfg ops).isInTransaction with
      | true => rfl
      | false => rw [hI.inv.txIdle h] at hsl; cases hsl
    have hop := tx_conns_open cfg ops hopen hin (sl, c) (by simp [held, hsl])
    simp only [isClosed] at hop
    replace hcn : (run cfg ops).w.conns[c]? = some cn := hcn
    rw [hcn] at hop
    exact ⟨cn, by rw [hw2]; exact hcn, hop⟩
  have := callsOn_eachRollbackTx { cfg := cfg, ord := op.ord, faults := op.faults } mergeLast _ s2.w true hnd hv
  simp only [iterOrder, sortBy, CMap.vals] at this
  rw [this, hw2]
  simp only [callsOn, List.filterMap_nil, List.append_nil]
  refine (List.reverse_perm _).trans ?_
  rw [htx2]
  exact (iterOrder_perm op.ord (run cfg ops).txConns).map _

/-! ## The three defects of the pinned tree, repaired

  The histories that witnessed the former known findings are kept: the
  theorems below state what the repaired code does on them (they were
  `…_witness` theorems of the negation before the fix commits). -/

/-- a transaction on slice 0, a statement that times out, another statement -/
def connLossOps : List Op :=
  [ { body := .begin, ord := [0, 1], faults := [] },
    { body := .qu .w, ord := [0, 1], faults := [] },
    { body := .qu .w, ord := [0, 1], faults := [{ k := .x, slice := 0, mode := .t }] },
    { body := .qu .w, ord := [0, 1], faults := [] } ]

/-- Former finding `tx-continues-after-conn-loss` (repaired by 5a42848): the
    statement that times out ends the session; the transaction's connection was
    closed, rolled back by nobody else and given back exactly once, and no
    second connection is ever taken. -/
theorem tx_conn_loss_closes_session :
    (run { ks := false, user := .w, fb := true } (connLossOps.take 2)).txConns = [(0, 0)] ∧
    (run { ks := false, user := .w, fb := true } (connLossOps.take 3)).closed = true ∧
    (run { ks := false, user := .w, fb := true } connLossOps).txConns = [] ∧
    ((run { ks := false, user := .w, fb := true } connLossOps).w.conns.map fun c => (c.closed, c.returns)) = [(true, 1)] := by
  decide

/-- a read-only user of a keep-session namespace opens a transaction -/
def ksReadonlyOps : List Op :=
  [ { body := .begin, ord := [0, 1], faults := [] },
    { body := .qu .r, ord := [0, 1], faults := [] } ]

/-- Former finding `ks-readonly-tx-on-replica` (repaired by cb8bfb6): the
    connection a read-only user's keep-session transaction runs on is a master
    connection. -/
theorem ks_readonly_tx_on_master :
    (run { ks := true, user := .r, fb := true } ksReadonlyOps).inTrans = true ∧
    (run { ks := true, user := .r, fb := true } ksReadonlyOps).ksConns = [(0, 0)] ∧
    ((run { ks := true, user := .r, fb := true } ksReadonlyOps).w.conns.map (·.master)) = [true] := by
  decide

/-- With keep-session the pinned connections are master connections of the
    slice they are filed under, and are out - for every user (the read-only
    ones included since cb8bfb6), every history. -/
theorem ks_conns_master (cfg : Cfg) (ops : List Op) :
    ∀ e ∈ (run cfg ops).ksConns, ∃ cn : Conn, (run cfg ops).w.conns[e.2]? = some cn ∧
      cn.master = true ∧ cn.slice = e.1 ∧ cn.returns = 0 := by
  have h := (idle_run_all cfg ops).inv.wi
  simp only [List.append_nil] at h
  intro e he
  have hmem : e ∈ held (run cfg ops) := by simp [held, he]
  obtain ⟨cn, hcn, h0, hsl⟩ := h.out e hmem
  obtain ⟨cn', hcn', hm⟩ := h.mast e.2 (by
    simp only [masters, List.mem_append]; exact Or.inr (mem_vals.2 ⟨e.1, he⟩))
  rw [hcn] at hcn'; cases hcn'
  exact ⟨cn, hcn, hm, hsl, h0⟩

/-! Non-vacuity -/

/-- a two-slice transaction; then faults of every kind, a timeout on the other path included -/
def demoOps : List Op :=
  [ { body := .begin, ord := [0, 1], faults := [] },
    { body := .qs .w [0, 1], ord := [1, 0], faults := [{ k := .x, slice := 1, mode := .e }] } ]
def demoMid : List Op :=
  [ { body := .qu .w, ord := [0, 1], faults := [{ k := .u, slice := 0, mode := .e }] },
    { body := .sp 1, ord := [1, 0], faults := [] },
    { body := .qs .r [1], ord := [0, 1], faults := [] } ]
/-- the same with a statement timeout in the middle: the session is closed -/
def demoMidLost : List Op :=
  [ { body := .qu .w, ord := [0, 1], faults := [] },
    { body := .qs .w [0, 1], ord := [0, 1], faults := [{ k := .x, slice := 1, mode := .t }] },
    { body := .qu .w, ord := [0, 1], faults := [] } ]

example : (run { ks := false, user := .w, fb := true } demoOps).txConns = [(1, 0), (0, 1)] := by decide
example : (run { ks := false, user := .w, fb := true } demoOps).isInTransaction = true := by decide
example : (run { ks := false, user := .w, fb := true } (demoOps ++ demoMid)).txConns = [(1, 0), (0, 1)] ∧
    (run { ks := false, user := .w, fb := true } (demoOps ++ demoMid)).closed = false := by decide
example : (run { ks := false, user := .w, fb := true } (demoOps ++ demoMidLost)).closed = true := by decide
example : ∀ op ∈ demoMid ++ demoMidLost, op.body.keepsTx = true := by decide
/-- keep-session: the transaction runs on the pinned connections -/
example : held (run { ks := true, user := .rw, fb := true } demoOps) = [(1, 0), (0, 1)] ∧
    held (run { ks := true, user := .rw, fb := true } (demoOps ++ demoMid)) = [(1, 0), (0, 1)] := by decide
/-- a ROLLBACK that reaches both connections of the transaction -/
example : callsOn .R (run { ks := false, user := .w, fb := true }
    (demoOps ++ [{ body := .rollback, ord := [0, 1], faults := [] }])).w.trace = [0, 1] := by decide

end GaeaVerif.C18
