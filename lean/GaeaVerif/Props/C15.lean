import GaeaVerif.Lemmas.StmtRelex
import GaeaVerif.Lemmas.StmtFloat
import GaeaVerif.Props.C12
import GaeaVerif.Props.C14
/-
  C15 — Binding parameters preserves their values and cannot change the statement.

  Theorems about `Model/StmtBind.lean` (bindStmtArgs, util.ItoString, escapeSQL
  as repaired, Stmt.GetRewriteSQL; tied to the code by `gvh run C15`) against
  the lexical grammar `Model/StmtLex.lean` in both sql_modes (`nbe` = the
  session has set NO_BACKSLASH_ESCAPES):

    string_param_roundtrip    every byte string, both modes, whatever follows: the rendered
                              parameter is read as exactly one string literal that denotes
                              exactly the bound bytes, and lexing continues right behind it
    int_param_roundtrip       every integer: `[-]digits` denoting exactly that integer
    null_param                NULL
    bind_string_value, bind_int_value
                              the bound value is the value in the packet (length-encoded
                              bytes; little-endian two's complement / unsigned of each width)
    C15_rewrite_structure     both modes, every template and all fitting arguments: the
                              statement produced is, token by token, the template with each
                              placeholder replaced by one literal of its argument
    C15_default_mode, C15_no_backslash_escapes_mode
                              the same, from `CalcParams`' own items
    argFits_float, argFits_all, C15_rewrite_structure_full (+ C15_default_mode_full, C15_no_backslash_escapes_mode_full)
                              every float is rendered as a bare word (theorems about
                              `Model/StmtGoFloat.lean`, the model of Go's `%v`), so `ArgFits` holds of
                              every argument and the structure theorem needs no hypothesis about the
                              arguments any more (`FitsShape`: one argument per placeholder, no glue)
    float_param_numeric_literal, bound_float_finite
                              a finite float is rendered as `[-] digits [. digits] [e ± digits]`, and
                              `bindStmtArgs` only ever binds finite doubles (NaN / ±Inf refused)
    float_param_within_half_ulp, float_param_zero, float_param_sign
                              the literal denotes a decimal inside the rounding interval of the bound
                              double (between the midpoints to its neighbours) — proved on the model
                              of Go's shortest formatting, digit selection and `%e` / `%f` layout included
    ReadsNearestDouble        named assumption (not proved; the server is not modelled): the server
                              converts a numeric literal to the nearest double, ties to even
    float_param_roundtrip     under that assumption the literal is read back as exactly the bound double
-/
namespace GaeaVerif.C15
open GaeaVerif GaeaVerif.StmtLex GaeaVerif.StmtBind GaeaVerif.StmtCalcParams

/-! ### strings -/

/-- **string_param_roundtrip.**  Wherever the lexer stands in SQL (inside or
    outside `/*! */`), with either sql_mode: the rendering of a byte-string
    parameter (strings, blobs, decimals, dates, times …) is read as exactly one
    string literal, which denotes exactly the bound bytes, and lexing goes on
    right behind it as if nothing had happened — for every value, whatever
    follows (that is not a quote glued to it). -/
theorem string_param_roundtrip (nbe : Bool) (b rest : Bytes) (hrest : rest.head? ≠ some cSQuote)
    (n : Nat) (v : Bool) :
    lexF nbe (n + 1) v (renderArg nbe (.bytes b) ++ rest) =
        (lexF nbe n v rest).map (Tok.str cSQuote (escapeSQL nbe b) :: ·)
      ∧ strValue nbe cSQuote (escapeSQL nbe b) = b :=
  lex_rendered_string nbe b rest hrest n v

/-! ### NULL and integers -/

theorem null_param (nbe : Bool) : renderArg nbe .null = [0x4e, 0x55, 0x4c, 0x4c] := rfl

def isDigit (c : UInt8) : Prop := 0x30 ≤ c ∧ c ≤ 0x39

/-- Value of a string of decimal digits. -/
def digitsVal : Bytes → Nat := fun bs => bs.foldl (fun a c => a * 10 + (c.toNat - 48)) 0

theorem digitsVal_append (a : Bytes) (c : UInt8) : digitsVal (a ++ [c]) = digitsVal a * 10 + (c.toNat - 48) := by
  simp [digitsVal, List.foldl_append]

theorem ofNat_digit (d : Nat) (h : d < 10) : (UInt8.ofNat (48 + d)).toNat = 48 + d := by
  simp [UInt8.toNat_ofNat']; omega

theorem natDigitsF_spec (f : Nat) : ∀ n, n ≤ f →
    digitsVal (natDigitsF f n) = n ∧ (∀ c ∈ natDigitsF f n, isDigit c) ∧ natDigitsF f n ≠ [] := by
  induction f with
  | zero =>
    intro n hn
    have : n = 0 := by omega
    subst this
    refine ⟨by decide, ?_, by simp [natDigitsF]⟩
    intro c hc; simp [natDigitsF] at hc; subst hc; constructor <;> decide
  | succ f ih =>
    intro n hn
    rw [natDigitsF]
    split
    · rename_i h
      have hd := ofNat_digit n h
      refine ⟨?_, ?_, by simp⟩
      · simp only [digitsVal, List.foldl_cons, List.foldl_nil, hd]; omega
      · intro c hc
        simp at hc; subst hc
        constructor <;> (simp only [UInt8.le_iff_toNat_le, hd]; simp; try omega)
    · rename_i h
      obtain ⟨h1, h2, h3⟩ := ih (n / 10) (by omega)
      have hd := ofNat_digit (n % 10) (by omega)
      refine ⟨?_, ?_, by simp⟩
      · rw [digitsVal_append, h1, hd]; omega
      · intro c hc
        simp at hc
        rcases hc with hc | hc
        · exact h2 c hc
        · subst hc
          constructor <;> (simp only [UInt8.le_iff_toNat_le, hd]; simp; try omega)

theorem natDigits_spec (n : Nat) : digitsVal (natDigits n) = n ∧ (∀ c ∈ natDigits n, isDigit c) ∧ natDigits n ≠ [] :=
  natDigitsF_spec n n (Nat.le_refl n)

/-- Value of `[-]digits`. -/
def intVal : Bytes → Int
  | 0x2d :: ds => -(digitsVal ds : Int)
  | ds => (digitsVal ds : Int)

/-- **int_param_roundtrip.**  An integer parameter of any width and signedness
    is rendered as an optional minus sign and decimal digits — no byte that
    could open a literal, a comment or a placeholder — and that numeral denotes
    exactly the bound integer. -/
theorem int_param_roundtrip (nbe : Bool) (v : Int) :
    intVal (renderArg nbe (.int v)) = v ∧
      (∀ c ∈ renderArg nbe (.int v), isDigit c ∨ c = 0x2d) := by
  have hr : renderArg nbe (.int v) = fmtInt v := rfl
  rw [hr]
  unfold fmtInt
  obtain ⟨h1, h2, h3⟩ := natDigits_spec v.natAbs
  split
  · rename_i hneg
    refine ⟨?_, ?_⟩
    · simp only [intVal, h1]; omega
    · intro c hc
      simp at hc
      rcases hc with hc | hc
      · right; exact hc
      · left; exact h2 c hc
  · rename_i hpos
    refine ⟨?_, fun c hc => Or.inl (h2 c hc)⟩
    have hne : ∀ ds, natDigits v.natAbs = 0x2d :: ds → False := by
      intro ds e
      have := h2 0x2d (by rw [e]; simp)
      exact absurd this.1 (by decide)
    cases hd : natDigits v.natAbs with
    | nil => exact absurd hd h3
    | cons c ds =>
      by_cases hc : c = 0x2d
      · subst hc; exact absurd hd (fun e => hne ds e)
      · have : intVal (c :: ds) = (digitsVal (c :: ds) : Int) := by
          unfold intVal
          split
          · rename_i heq; simp at heq; exact absurd heq.1 hc
          · rfl
        rw [this, ← hd, h1]; omega


/-! ### decoding the packet: the bound value is the value the client sent -/

/-- A string / blob / decimal / … parameter sent as a length-encoded string is
    bound as exactly those bytes (any length-encoded string, anywhere in the
    values area). -/
theorem bind_string_value (tp : UInt8) (htp : isStringType tp = true) (u : Bool) (pre suf b : Bytes)
    (hb : b.length < 2 ^ 63) :
    bindOne tp u (pre ++ LenEnc.appendLenEncStringBytes b ++ suf) pre.length =
      .ok (.bytes b, (pre.length : Int) + LenEnc.lenEncIntSize b.length + b.length) := by
  have hne : ∀ c : UInt8, isStringType c = false → tp ≠ c := by
    intro c hc e; subst e; rw [hc] at htp; exact absurd htp (by simp)
  have hlen : ¬ (((pre ++ LenEnc.appendLenEncStringBytes b ++ suf).length : Int) < (pre.length : Int) + 1) := by
    have : (LenEnc.appendLenEncStringBytes b).length ≥ 1 := by
      unfold LenEnc.appendLenEncStringBytes
      rw [List.length_append, C12.appendLenEncInt_length]
      unfold LenEnc.lenEncIntSize; repeat' split <;> omega
    simp only [List.length_append]; omega
  unfold bindOne
  rw [if_neg (hne 6 (by decide)), if_neg (hne 1 (by decide))]
  rw [if_neg (by intro h; rcases h with h | h; exact hne 2 (by decide) h; exact hne 13 (by decide) h)]
  rw [if_neg (by intro h; rcases h with h | h; exact hne 9 (by decide) h; exact hne 3 (by decide) h)]
  rw [if_neg (hne 8 (by decide)), if_neg (hne 4 (by decide)), if_neg (hne 5 (by decide))]
  rw [if_neg (by intro h; rcases h with h | h; exact hne 10 (by decide) h; exact hne 14 (by decide) h)]
  rw [if_neg (hne 11 (by decide))]
  rw [if_neg (by intro h; rcases h with h | h; exact hne 7 (by decide) h; exact hne 12 (by decide) h)]
  rw [if_pos htp, if_neg hlen, C12.lenenc_str_roundtrip pre suf b hb]
  rfl

/-- A fixed-width integer parameter is bound as the integer whose `w` little-endian
    bytes the client sent: read unsigned when the unsigned flag is set, as a
    two's-complement number otherwise. -/
theorem bind_int_value (w : Nat) (u : Bool) (pre suf : Bytes) (x : Nat) (hx : x < 256 ^ w) :
    bindInt (pre ++ leBytes x w ++ suf) pre.length w u =
      .ok (if u then .int x else .int (if x < 2 ^ (8 * w - 1) then (x : Int) else (x : Int) - 2 ^ (8 * w)),
           (pre.length : Int) + w) := by
  unfold bindInt
  have hl := C12.leBytes_length x w
  rw [if_neg (by simp only [List.length_append, hl]; omega)]
  have := C12.goSlice_append pre (leBytes x w) suf
  rw [hl] at this
  rw [this]
  simp only [ofR, bind, R.bind, signedLE, C12.leNat_leBytes w x hx, hl]


/-! ### integers and NULL are bare words -/

theorem wordByte_of_digit (c : UInt8) (h : isDigit c) : wordByte c = true := by
  obtain ⟨h1, h2⟩ := h
  simp [wordByte, h1, h2]

theorem wordAux_digits (ds : Bytes) (h : ∀ c ∈ ds, isDigit c) : WordAux ds := by
  induction ds with
  | nil => trivial
  | cons c r ih =>
    exact ⟨Or.inl (wordByte_of_digit c (h c (by simp))), ih (fun c hc => h c (List.mem_cons_of_mem _ hc))⟩

theorem argFits_int (nbe : Bool) (v : Int) : ArgFits nbe (.int v) := by
  show Word (fmtInt v)
  unfold fmtInt
  obtain ⟨_, h2, h3⟩ := natDigits_spec v.natAbs
  split
  · refine ⟨by simp, ?_, wordAux_digits _ h2⟩
    cases hd : natDigits v.natAbs with
    | nil => exact absurd hd h3
    | cons e r' =>
      exact Or.inr ⟨rfl, e, r', rfl, wordByte_of_digit e (h2 e (by rw [hd]; simp))⟩
  · exact ⟨h3, wordAux_digits _ h2⟩

theorem argFits_null (nbe : Bool) : ArgFits nbe .null := by
  show Word [0x4e, 0x55, 0x4c, 0x4c]
  exact ⟨by simp, Or.inl (by decide), Or.inl (by decide), Or.inl (by decide), Or.inl (by decide), trivial⟩

theorem argFits_bytes (nbe : Bool) (b : Bytes) : ArgFits nbe (.bytes b) := trivial

/-! ### the property -/

/-- **C15_rewrite_structure.**  In either sql_mode: let `toks` be the lexical
    elements of the template and let the arguments fit it (`Fits`: one per
    placeholder; each a byte string — every string, blob, decimal, date and time
    parameter — or rendered as a bare word — NULL and every integer,
    `argFits_null`, `argFits_int`; floats by hypothesis —; no placeholder glued
    to a `'…'` literal or to another placeholder).  Then the statement
    `GetRewriteSQL` produces is, lexical element by lexical element, the
    template with each placeholder replaced by the literal of its argument
    (`substToks`): one `'…'` string literal whose value is exactly the bound
    bytes (`strValue_escape`), or the bare word.  No element of the template
    changes, none appears, none disappears: no value can alter the statement. -/
theorem C15_rewrite_structure (nbe : Bool) (text : Bytes) (toks : List Tok) (args : List Arg)
    (hl : lex nbe text = some toks) (hfit : Fits nbe toks args) :
    getRewriteSQL nbe (cutItems text 0 (paramOffsets 0 toks)) args = .ok (rawOf (substToks nbe toks args)) ∧
    lex nbe (rawOf (substToks nbe toks args)) = some (substToks nbe toks args) := by
  have hraw := lex_raw nbe text toks hl
  have hne := lexF_raw_ne_nil _ _ _ _ _ hl
  have hq := lexF_raw_ne_qmark _ _ _ _ _ hl
  constructor
  · have h1 := cutItems_pieces toks [] []
    simp only [List.nil_append, List.length_nil, Nat.add_zero, hraw] at h1
    rw [h1]
    have := rewrite_pieces nbe args toks [] 0 (by simpa using hfit) hne hq (by decide) (fun h => absurd rfl h)
    simpa [getRewriteSQL] using this
  · obtain ⟨f, hf⟩ := relex nbe _ false text toks hl args hfit
    have hne' := lexF_raw_ne_nil _ _ _ _ _ hf
    have hle := toks_length_le _ hne'
    exact lexF_any_fuel nbe f false _ _ hf _ (by omega)

/-- Every string literal that stands for an argument denotes exactly the bound bytes. -/
theorem litToks_value (nbe : Bool) (b : Bytes) :
    litToks nbe (.bytes b) = [Tok.str cSQuote (escapeSQL nbe b)] ∧ strValue nbe cSQuote (escapeSQL nbe b) = b :=
  ⟨rfl, strValue_escape nbe b⟩


/-- In the default sql_mode, from `CalcParams`' own result (C14): the statement
    executed for a template and fitting arguments is the template with each
    placeholder replaced by the literal of its argument, and nothing else. -/
theorem C15_default_mode (text : Bytes) (toks : List Tok) (args : List Arg)
    (hl : lex false text = some toks) (hfit : Fits false toks args) :
    ∃ n offs items, calcParams text = .ok (n, offs, items) ∧
      getRewriteSQL false items args = .ok (rawOf (substToks false toks args)) ∧
      lex false (rawOf (substToks false toks args)) = some (substToks false toks args) := by
  have h := C14.calcParams_eq_spec text
  rw [hl] at h
  exact ⟨_, _, _, h, C15_rewrite_structure false text toks args hl hfit⟩

/-- With NO_BACKSLASH_ESCAPES set, for templates that read the same in both
    modes (`CalcParams` itself always reads the template in the default mode;
    a template without a backslash inside a literal is such a template). -/
theorem C15_no_backslash_escapes_mode (text : Bytes) (toks : List Tok) (args : List Arg)
    (hl : lex true text = some toks) (hsame : lex false text = lex true text) (hfit : Fits true toks args) :
    ∃ n offs items, calcParams text = .ok (n, offs, items) ∧
      getRewriteSQL true items args = .ok (rawOf (substToks true toks args)) ∧
      lex true (rawOf (substToks true toks args)) = some (substToks true toks args) := by
  have h := C14.calcParams_eq_spec text
  rw [hsame, hl] at h
  exact ⟨_, _, _, h, C15_rewrite_structure true text toks args hl hfit⟩


/-! ### the statements are not vacuous; the probed defect of the pinned tree -/

/-- `\' OR 1=1 -- ` — the value of the probed injection. -/
def inj : Bytes := [0x5c, 0x27, 0x20, 0x4f, 0x52, 0x20, 0x31, 0x3d, 0x31, 0x20, 0x2d, 0x2d, 0x20]

/-- `?,?` lexes to placeholder, comma, placeholder; any byte string and any
    integer fit it: the hypotheses of `C15_rewrite_structure` are satisfiable. -/
example : lex true [0x3f, 0x2c, 0x3f] = some [.param, .other 0x2c, .param] := by decide
example (b : Bytes) (v : Int) : Fits true [.param, .other 0x2c, .param] [.bytes b, .int v] :=
  ⟨trivial, by simp [isQ], argFits_int true v, by simp, trivial⟩

/-- With NO_BACKSLASH_ESCAPES the value is rendered `'\'' OR 1=1 -- '`, without it `'\\'' OR 1=1 -- '`: one
    literal each, denoting the value. -/
example : renderArg true (.bytes inj) = [0x27, 0x5c, 0x27, 0x27, 0x20, 0x4f, 0x52, 0x20, 0x31, 0x3d, 0x31, 0x20, 0x2d, 0x2d, 0x20, 0x27] := by decide
example : renderArg false (.bytes inj) = [0x27, 0x5c, 0x5c, 0x27, 0x27, 0x20, 0x4f, 0x52, 0x20, 0x31, 0x3d, 0x31, 0x20, 0x2d, 0x2d, 0x20, 0x27] := by decide
example : lex true (renderArg true (.bytes inj)) = some [.str cSQuote (escapeSQL true inj)] := by decide
example : lex false (renderArg false (.bytes inj)) = some [.str cSQuote (escapeSQL false inj)] := by decide

/-- What the pinned `escapeSQL` did (a backslash before every backslash and quote, in every mode). -/
def pinnedEscape : Bytes → Bytes
  | [] => []
  | c :: rest => if c = cBackslash ∨ c = cSQuote then cBackslash :: c :: pinnedEscape rest else c :: pinnedEscape rest

/-- **Witness of the repaired defect.**  Under NO_BACKSLASH_ESCAPES the pinned
    rendering `'\\\' OR 1=1 -- '` is not one literal: it is the literal `\\\` followed by
    ` OR 1=1 ` and a comment. -/
theorem pinned_escape_witness :
    lex true (cSQuote :: pinnedEscape inj ++ [cSQuote]) =
      some [.str cSQuote [0x5c, 0x5c, 0x5c], .other 0x20, .other 0x4f, .other 0x52, .other 0x20, .other 0x31,
            .other 0x3d, .other 0x31, .other 0x20, .lineComment [0x2d, 0x2d, 0x20, 0x27]] := by decide

/-- Integers of every width: `bind_int_value` and `int_param_roundtrip` on -128 sent as TINYINT. -/
example : bindInt [0x80] 0 1 false = .ok (.int (-128), 1) := by decide
example : renderArg false (.int (-128)) = [0x2d, 0x31, 0x32, 0x38] := by decide

/-! ### float parameters -/

open GaeaVerif.StmtGoFloat GaeaVerif.StmtFloat in
/-- **float_param_numeric_literal.**  A finite FLOAT / DOUBLE argument is
    rendered as a numeric literal — an optional minus sign, digits, optionally
    `.` and digits, optionally `e`, a sign and digits; it starts with a digit, or
    with `-` and a digit (so it is none of `NaN`, `+Inf`, `-Inf`, which the pinned
    code wrote into the statement). -/
theorem float_param_numeric_literal (nbe dbl : Bool) (bits : Nat) (hf : finite dbl bits = true) :
    NumLit (renderArg nbe (.float dbl bits)) ∧
    ((∃ c r, renderArg nbe (.float dbl bits) = c :: r ∧ IsDig c) ∨
     (∃ c r, renderArg nbe (.float dbl bits) = 0x2d :: c :: r ∧ IsDig c)) :=
  ⟨fmtV_numLit dbl bits hf, numLit_head _ (fmtV_numLit dbl bits hf)⟩

open GaeaVerif.StmtGoFloat GaeaVerif.StmtFloat in
/-- Every float argument is rendered as a bare word: what `C15_rewrite_structure`
    had to assume of floats (`ArgFits`) holds. -/
theorem argFits_float (nbe dbl : Bool) (bits : Nat) : ArgFits nbe (.float dbl bits) :=
  fmtV_word dbl bits

/-- `ArgFits` holds of every argument: it is no hypothesis any more. -/
theorem argFits_all (nbe : Bool) : ∀ a : Arg, ArgFits nbe a
  | .null => argFits_null nbe
  | .int v => argFits_int nbe v
  | .float d bits => argFits_float nbe d bits
  | .bytes b => argFits_bytes nbe b

/-- The template and the argument list fit in shape: one argument per
    placeholder, no placeholder glued to a `'…'` literal or to another
    placeholder.  Nothing is asked of the arguments themselves. -/
def FitsShape : List Tok → List Arg → Prop
  | [], _ => True
  | t :: ts, as =>
    match t, as with
    | .param, [] => False
    | .param, _ :: as' => ts.head?.map isQ ≠ some true ∧ FitsShape ts as'
    | .str q _, _ => (q = cSQuote → ts.head? ≠ some .param) ∧ FitsShape ts as
    | _, _ => FitsShape ts as

theorem fits_of_shape (nbe : Bool) : ∀ (toks : List Tok) (args : List Arg), FitsShape toks args → Fits nbe toks args
  | [], _, _ => trivial
  | t :: ts, as, h => by
    cases t with
    | param =>
      cases as with
      | nil => exact h
      | cons a as' => exact ⟨argFits_all nbe a, h.1, fits_of_shape nbe ts as' h.2⟩
    | str q s => exact ⟨h.1, fits_of_shape nbe ts as h.2⟩
    | _ => exact fits_of_shape nbe ts as h

/-- **C15_rewrite_structure_full.**  `C15_rewrite_structure` without any
    hypothesis about the arguments: in either sql_mode, for every template and
    every argument list of every type (NULL, integers, floats, byte strings)
    with one argument per placeholder — no placeholder glued to a `'…'` literal
    or to another placeholder —, the statement `GetRewriteSQL` produces is,
    lexical element by lexical element, the template with each placeholder
    replaced by the literal of its argument. -/
theorem C15_rewrite_structure_full (nbe : Bool) (text : Bytes) (toks : List Tok) (args : List Arg)
    (hl : lex nbe text = some toks) (hfit : FitsShape toks args) :
    getRewriteSQL nbe (cutItems text 0 (paramOffsets 0 toks)) args = .ok (rawOf (substToks nbe toks args)) ∧
    lex nbe (rawOf (substToks nbe toks args)) = some (substToks nbe toks args) :=
  C15_rewrite_structure nbe text toks args hl (fits_of_shape nbe toks args hfit)

/-- `C15_default_mode` without a hypothesis about the arguments. -/
theorem C15_default_mode_full (text : Bytes) (toks : List Tok) (args : List Arg)
    (hl : lex false text = some toks) (hfit : FitsShape toks args) :
    ∃ n offs items, calcParams text = .ok (n, offs, items) ∧
      getRewriteSQL false items args = .ok (rawOf (substToks false toks args)) ∧
      lex false (rawOf (substToks false toks args)) = some (substToks false toks args) :=
  C15_default_mode text toks args hl (fits_of_shape false toks args hfit)

/-- `C15_no_backslash_escapes_mode` without a hypothesis about the arguments. -/
theorem C15_no_backslash_escapes_mode_full (text : Bytes) (toks : List Tok) (args : List Arg)
    (hl : lex true text = some toks) (hsame : lex false text = lex true text) (hfit : FitsShape toks args) :
    ∃ n offs items, calcParams text = .ok (n, offs, items) ∧
      getRewriteSQL true items args = .ok (rawOf (substToks true toks args)) ∧
      lex true (rawOf (substToks true toks args)) = some (substToks true toks args) :=
  C15_no_backslash_escapes_mode text toks args hl hsame (fits_of_shape true toks args hfit)

/-- every template/argument pair of the earlier example fits in shape too -/
example (b : Bytes) (f : Nat) : FitsShape [.param, .other 0x2c, .param] [.bytes b, .float true f] :=
  ⟨by simp [isQ], by simp, trivial⟩

/-- `?,?` with the double 0.1 and the string `a'b`: what `GetRewriteSQL` writes -/
example : getRewriteSQL false (cutItems [0x3f, 0x2c, 0x3f] 0 (paramOffsets 0 [.param, .other 0x2c, .param]))
    [.float true 0x3FB999999999999A, .bytes [0x61, 0x27, 0x62]] =
    .ok [0x30, 0x2e, 0x31, 0x2c, 0x27, 0x61, 0x27, 0x27, 0x62, 0x27] := by decide

/-! ### after the repair no NaN or infinity is ever bound -/

theorem f32to64_finite (bits b64 : Nat) (h : f32to64 bits = some b64) : StmtGoFloat.finite true b64 = true := by
  unfold f32to64 at h
  simp only at h
  have hs : bits / 2 ^ 31 % 2 ≤ 1 := by omega
  have he : bits / 2 ^ 23 % 256 < 256 := Nat.mod_lt _ (by decide)
  have hm : bits % 2 ^ 23 < 2 ^ 23 := Nat.mod_lt _ (by decide)
  generalize bits / 2 ^ 31 % 2 = sign at h hs
  generalize bits / 2 ^ 23 % 256 = e at h he
  generalize bits % 2 ^ 23 = m at h hm
  show decide (StmtGoFloat.expField true b64 ≠ 2 ^ StmtGoFloat.expbits true - 1) = true
  simp only [StmtGoFloat.expField, StmtGoFloat.mantbits, StmtGoFloat.expbits, if_true, decide_eq_true_eq]
  split at h
  · cases h
  · split at h
    · split at h
      · cases h; omega
      · rename_i hm0
        cases h
        -- subnormal float32: m = 2^k + r with r < 2^k, k < 23
        have hk1 : 2 ^ m.log2 ≤ m := Nat.log2_self_le hm0
        have hk2 : m < 2 ^ (m.log2 + 1) := Nat.lt_log2_self
        have hk : m.log2 < 23 := by
          rcases Nat.lt_or_ge m.log2 23 with h | h
          · exact h
          · have : 2 ^ 23 ≤ 2 ^ m.log2 := Nat.pow_le_pow_right (by decide) h
            omega
        generalize m.log2 = k at hk1 hk2 hk
        have hfr : (m - 2 ^ k) * 2 ^ (52 - k) < 2 ^ 52 := by
          have h1 : m - 2 ^ k < 2 ^ k := by rw [Nat.pow_succ] at hk2; omega
          have hp : 0 < 2 ^ (52 - k) := Nat.pos_of_ne_zero (by simp)
          have h2 : (m - 2 ^ k) * 2 ^ (52 - k) < 2 ^ k * 2 ^ (52 - k) := Nat.mul_lt_mul_of_pos_right h1 hp
          rw [← Nat.pow_add] at h2
          have : k + (52 - k) = 52 := by omega
          rw [this] at h2; exact h2
        generalize (m - 2 ^ k) * 2 ^ (52 - k) = fr at hfr
        omega
    · cases h; omega

/-- **bound_float_finite.**  Whatever the packet, the value `bindStmtArgs`
    stores for a FLOAT or DOUBLE parameter is a finite float64: NaN and the
    infinities are refused (fix aa6cf9f), and a FLOAT is widened to the double
    it denotes.  So `float_param_numeric_literal` applies to every float
    argument a client can bind. -/
theorem bound_float_finite (tp : UInt8) (u : Bool) (pv : Bytes) (pos : Int) (d : Bool) (bits : Nat) (p : Int)
    (h : bindOne tp u pv pos = .ok (.float d bits, p)) :
    d = true ∧ StmtGoFloat.finite true bits = true := by
  unfold bindOne at h
  have hint : ∀ w, bindInt pv pos w u ≠ .ok (.float d bits, p) := by
    intro w hw
    unfold bindInt at hw
    split at hw
    · cases hw
    · cases hg : goSlice pv pos (pos + ↑w) with
      | ok b => rw [hg] at hw; simp [ofR, bind, R.bind] at hw; split at hw <;> cases hw.1
      | fail => rw [hg] at hw; simp [ofR, bind, R.bind] at hw
      | panic => rw [hg] at hw; simp [ofR, bind, R.bind] at hw
  have htemp : ∀ f, bindTemporal f pv pos ≠ .ok (.float d bits, p) := by
    intro f hw
    unfold bindTemporal at hw
    split at hw
    · cases hw
    · cases hg : goIdx pv pos with
      | fail => rw [hg] at hw; simp [ofR, bind, O.bind] at hw
      | panic => rw [hg] at hw; simp [ofR, bind, O.bind] at hw
      | ok nb =>
        rw [hg] at hw
        simp only [ofR, bind, O.bind] at hw
        split at hw
        · cases hw
        · cases hs : goSlice pv (pos + 1) (pos + 1 + ↑nb.toNat) with
          | fail => rw [hs] at hw; simp at hw
          | panic => rw [hs] at hw; simp at hw
          | ok dd =>
            rw [hs] at hw
            simp only at hw
            cases hf : f nb.toNat dd with
            | ok t => rw [hf] at hw; simp at hw
            | err e => rw [hf] at hw; simp at hw
            | panic => rw [hf] at hw; simp at hw
  by_cases h6 : tp = 6
  · rw [if_pos h6] at h; cases h
  rw [if_neg h6] at h
  by_cases h1 : tp = 1
  · rw [if_pos h1] at h; exact absurd h (hint _)
  rw [if_neg h1] at h
  by_cases h2 : tp = 2 ∨ tp = 13
  · rw [if_pos h2] at h; exact absurd h (hint _)
  rw [if_neg h2] at h
  by_cases h3 : tp = 9 ∨ tp = 3
  · rw [if_pos h3] at h; exact absurd h (hint _)
  rw [if_neg h3] at h
  by_cases h8 : tp = 8
  · rw [if_pos h8] at h; exact absurd h (hint _)
  rw [if_neg h8] at h
  by_cases h4 : tp = 4
  · rw [if_pos h4] at h
    split at h
    · cases h
    · cases hg : goSlice pv pos (pos + 4) with
      | fail => rw [hg] at h; simp [ofR, bind, O.bind] at h
      | panic => rw [hg] at h; simp [ofR, bind, O.bind] at h
      | ok b =>
        rw [hg] at h
        simp only [ofR, bind, O.bind] at h
        cases hf : f32to64 (leNat b) with
        | none => rw [hf] at h; cases h
        | some b64 =>
          rw [hf] at h
          simp only [O.ok.injEq, Prod.mk.injEq, Arg.float.injEq] at h
          obtain ⟨⟨rfl, rfl⟩, _⟩ := h
          exact ⟨rfl, f32to64_finite _ _ hf⟩
  rw [if_neg h4] at h
  by_cases h5 : tp = 5
  · rw [if_pos h5] at h
    split at h
    · cases h
    · cases hg : goSlice pv pos (pos + 8) with
      | fail => rw [hg] at h; simp [ofR, bind, O.bind] at h
      | panic => rw [hg] at h; simp [ofR, bind, O.bind] at h
      | ok b =>
        rw [hg] at h
        simp only [ofR, bind, O.bind] at h
        split at h
        · cases h
        · rename_i hfin
          simp only [O.ok.injEq, Prod.mk.injEq, Arg.float.injEq] at h
          obtain ⟨⟨rfl, rfl⟩, _⟩ := h
          refine ⟨rfl, ?_⟩
          show decide (StmtGoFloat.expField true (leNat b) ≠ 2 ^ StmtGoFloat.expbits true - 1) = true
          simp only [StmtGoFloat.expField, StmtGoFloat.mantbits, StmtGoFloat.expbits, if_true, decide_eq_true_eq]
          omega
  rw [if_neg h5] at h
  by_cases h10 : tp = 10 ∨ tp = 14
  · rw [if_pos h10] at h; exact absurd h (htemp _)
  rw [if_neg h10] at h
  by_cases h11 : tp = 11
  · rw [if_pos h11] at h; exact absurd h (htemp _)
  rw [if_neg h11] at h
  by_cases h7 : tp = 7 ∨ tp = 12
  · rw [if_pos h7] at h; exact absurd h (htemp _)
  rw [if_neg h7] at h
  split at h
  · split at h
    · cases h
    · cases hr : LenEnc.readLenEncStringAsBytes pv pos with
      | fail => rw [hr] at h; simp [ofR, bind, O.bind] at h
      | panic => rw [hr] at h; simp [ofR, bind, O.bind] at h
      | ok x =>
        rw [hr] at h
        obtain ⟨v, q, isNull⟩ := x
        simp only [ofR, bind, O.bind] at h
        split at h <;> simp at h
  · cases h

/-- the hypothesis of `bound_float_finite` is satisfiable: the DOUBLE 0.1, and
    a FLOAT widened to the double it denotes; an infinity is refused -/
example : bindOne 5 false [0x9a, 0x99, 0x99, 0x99, 0x99, 0x99, 0xb9, 0x3f] 0 = .ok (.float true 0x3FB999999999999A, 8) := by
  decide
example : bindOne 4 false [0xcd, 0xcc, 0xcc, 0x3d] 0 = .ok (.float true 0x3FB99999A0000000, 4) := by decide
example : bindOne 5 false [0, 0, 0, 0, 0, 0, 0xf0, 0x7f] 0 = .err .badFloat := by decide

/-! ### the value of a float parameter -/

open GaeaVerif.StmtGoFloat GaeaVerif.StmtFloat in
/-- **float_param_within_half_ulp.**  The literal written for a finite
    non-zero float argument is its sign and a numeric literal that denotes a
    decimal `M × 10^E` (`readUNum`) lying between the midpoints to the two
    neighbouring floats, a midpoint itself only when the float's mantissa is
    even (`WithinHalfUlp`): exactly the decimals that rounding to nearest, ties
    to even, maps back to this float. -/
theorem float_param_within_half_ulp (nbe dbl : Bool) (bits : Nat) (hf : finite dbl bits = true)
    (hm : (mantExp dbl bits).1 ≠ 0) :
    renderArg nbe (.float dbl bits) = (if negative dbl bits then [0x2d] else []) ++ fmtMagnitude dbl bits ∧
    ∃ M E, readUNum (fmtMagnitude dbl bits) = some (M, E) ∧ WithinHalfUlp dbl bits M E := by
  refine ⟨?_, float_literal_within_half_ulp dbl bits hm⟩
  show fmtV dbl bits = _
  unfold fmtV; rw [if_pos hf]

open GaeaVerif.StmtGoFloat in
/-- … and a zero is written `0` or `-0`. -/
theorem float_param_zero (nbe dbl : Bool) (bits : Nat) (hf : finite dbl bits = true)
    (hm : (mantExp dbl bits).1 = 0) :
    renderArg nbe (.float dbl bits) = (if negative dbl bits then [0x2d] else []) ++ [0x30] := by
  show fmtV dbl bits = _
  unfold fmtV fmtMagnitude; rw [if_pos hf, if_pos hm]

open GaeaVerif.StmtGoFloat GaeaVerif.StmtFloat in
/-- **Named assumption `ReadsNearestDouble`** (the `float_roundtrip` assumption
    of DESIGN.md; not proved — the server's reader of numeric literals is not
    part of the model): `read`, the function from the text of an unsigned
    numeric literal to the bits of the double the MySQL server takes it for,
    rounds correctly.  Whenever the text denotes the decimal `M × 10^E`
    (`readUNum`) and that decimal lies inside the rounding interval of a finite
    non-zero double (`WithinHalfUlp`: between the midpoints to its neighbours, a
    midpoint only for an even mantissa), the server reads that double.  This is
    IEEE 754 round-to-nearest-even conversion, which MySQL's `my_strtod`
    implements.  (The intervals of different doubles do not overlap — neighbours
    share a midpoint and differ in the parity of their mantissa — so the demand
    can be met; that is argued here, not proved.) -/
def ReadsNearestDouble (read : Bytes → Option Nat) : Prop :=
  ∀ (text : Bytes) (M : Nat) (E : Int) (bits : Nat),
    bits < 2 ^ 63 → finite true bits = true → (mantExp true bits).1 ≠ 0 →
    readUNum text = some (M, E) → WithinHalfUlp true bits M E → read text = some bits

open GaeaVerif.StmtGoFloat GaeaVerif.StmtFloat in
/-- **float_param_roundtrip** (under the named assumption): a server that
    converts numeric literals with correct rounding reads the literal of every
    finite non-zero double argument back as exactly that double — the magnitude
    from the digits, the sign from the `-` in front (`float_param_within_half_ulp`).
    Together with `bound_float_finite` (every bound FLOAT / DOUBLE is such a
    double, or a zero: `float_param_zero`) this is the value half of C15 for
    floats; the structure half is `C15_rewrite_structure_full`. -/
theorem float_param_roundtrip (read : Bytes → Option Nat) (hread : ReadsNearestDouble read)
    (bits : Nat) (hb : bits < 2 ^ 63) (hf : finite true bits = true) (hm : (mantExp true bits).1 ≠ 0) :
    read (fmtMagnitude true bits) = some bits := by
  obtain ⟨M, E, h1, h2⟩ := float_literal_within_half_ulp true bits hm
  exact hread _ M E bits hb hf hm h1 h2

open GaeaVerif.StmtGoFloat GaeaVerif.StmtFloat in
/-- The magnitude printed does not depend on the sign bit: a negative double is
    `-` followed by the literal of its absolute value. -/
theorem float_param_sign (bits : Nat) (hb : bits < 2 ^ 63) :
    fmtMagnitude true (bits + 2 ^ 63) = fmtMagnitude true bits ∧
    negative true (bits + 2 ^ 63) = true ∧ negative true bits = false := by
  have he : expField true (bits + 2 ^ 63) = expField true bits := by
    simp only [expField, mantbits, expbits, if_true]; omega
  have hfr : fracField true (bits + 2 ^ 63) = fracField true bits := by
    simp only [fracField, mantbits, if_true]; omega
  have hme : mantExp true (bits + 2 ^ 63) = mantExp true bits := by
    unfold mantExp; rw [he, hfr]
  refine ⟨?_, ?_, ?_⟩
  · unfold fmtMagnitude shortestOf; rw [hme]
  · simp only [negative, mantbits, expbits, if_true, decide_eq_true_eq]; omega
  · simp only [negative, mantbits, expbits, if_true, decide_eq_false_iff_not]; omega

section FloatExamples
open GaeaVerif.StmtGoFloat GaeaVerif.StmtFloat

/-- 0.1, 1.5, -1e+20, 5e-324 (the smallest subnormal) and the largest double:
    what is written, and what `readUNum` takes it for -/
example : fmtV true 0x3FB999999999999A = [0x30, 0x2e, 0x31] ∧ readUNum [0x30, 0x2e, 0x31] = some (1, -1) := by decide
example : fmtV true 0x3FF8000000000000 = [0x31, 0x2e, 0x35] := by decide
example : fmtV true 0xC415AF1D78B58C40 = [0x2d, 0x31, 0x65, 0x2b, 0x32, 0x30] ∧
    readUNum [0x31, 0x65, 0x2b, 0x32, 0x30] = some (1, 20) := by decide
set_option maxRecDepth 100000 in
example : fmtV true 1 = [0x35, 0x65, 0x2d, 0x33, 0x32, 0x34] ∧
    readUNum [0x35, 0x65, 0x2d, 0x33, 0x32, 0x34] = some (5, -324) := by decide

instance (lo up : Nat) (inc : Bool) (x : Nat) : Decidable (InB lo up inc x) := by unfold InB; infer_instance
instance (dbl : Bool) (bits M : Nat) (E : Int) : Decidable (WithinHalfUlp dbl bits M E) := by
  unfold WithinHalfUlp; infer_instance

/-- `WithinHalfUlp` says something: 0.1 = 1 × 10^-1 lies in the rounding interval
    of the double 0x3FB999999999999A, and in that of neither neighbour; 0.3 does
    not lie in the interval of the double nearest to 0.1 + 0.2 -/
example : WithinHalfUlp true 0x3FB999999999999A 1 (-1) ∧ ¬ WithinHalfUlp true 0x3FB9999999999999 1 (-1) ∧
    ¬ WithinHalfUlp true 0x3FB999999999999B 1 (-1) ∧ ¬ WithinHalfUlp true 0x3FD3333333333334 3 (-1) := by decide

/-- the hypotheses of `float_param_roundtrip` are satisfiable -/
example : (0x3FB999999999999A : Nat) < 2 ^ 63 ∧ finite true 0x3FB999999999999A = true ∧
    (mantExp true 0x3FB999999999999A).1 ≠ 0 := by decide

/-- NaN and the infinities are words, not numbers: the reason they are refused when bound -/
example : fmtV true 0x7FF8000000000000 = [0x4e, 0x61, 0x4e] ∧ finite true 0x7FF8000000000000 = false ∧
    readUNum [0x4e, 0x61, 0x4e] = none := by decide

end FloatExamples

end GaeaVerif.C15
