import GaeaVerif.Lemmas.StmtRelex
import GaeaVerif.Props.C12
import GaeaVerif.Props.C14
/-
  C15 — Binding parameters preserves their values and cannot change the statement.

  Theorems about `Model/StmtBind.lean` (bindStmtArgs, util.ItoString, escapeSQL
  as repaired, Stmt.GetRewriteSQL; tied to the code by `gvh run C15`) against
  the lexical grammar `Model/StmtLex.lean` in both sql_modes (`nbe` = the
  session has set NO_BACKSLASH_ESCAPES):

    string_param_roundtrip    every byte string, both modes, whatever follows: the rendered
                              parameter is read as exactly one string literal that denotes
                              exactly the bound bytes, and lexing continues right behind it
    int_param_roundtrip       every integer: `[-]digits` denoting exactly that integer
    null_param                NULL
    bind_string_value, bind_int_value
                              the bound value is the value in the packet (length-encoded
                              bytes; little-endian two's complement / unsigned of each width)
    C15_rewrite_structure     both modes, every template and all fitting arguments: the
                              statement produced is, token by token, the template with each
                              placeholder replaced by one literal of its argument
    C15_default_mode, C15_no_backslash_escapes_mode
                              the same, from `CalcParams`' own items
    float parameters          `_partial`: in `C15_rewrite_structure` a float argument has to
                              satisfy `ArgFits` (rendered as a bare word) by hypothesis, and
                              that its numeral denotes the bound value is checked by the
                              correspondence run only (Lean has no verified float printing)
-/
namespace GaeaVerif.C15
open GaeaVerif GaeaVerif.StmtLex GaeaVerif.StmtBind GaeaVerif.StmtCalcParams

/-! ### strings -/

/-- **string_param_roundtrip.**  Wherever the lexer stands in SQL (inside or
    outside `/*! */`), with either sql_mode: the rendering of a byte-string
    parameter (strings, blobs, decimals, dates, times …) is read as exactly one
    string literal, which denotes exactly the bound bytes, and lexing goes on
    right behind it as if nothing had happened — for every value, whatever
    follows (that is not a quote glued to it). -/
theorem string_param_roundtrip (nbe : Bool) (b rest : Bytes) (hrest : rest.head? ≠ some cSQuote)
    (n : Nat) (v : Bool) :
    lexF nbe (n + 1) v (renderArg nbe (.bytes b) ++ rest) =
        (lexF nbe n v rest).map (Tok.str cSQuote (escapeSQL nbe b) :: ·)
      ∧ strValue nbe cSQuote (escapeSQL nbe b) = b :=
  lex_rendered_string nbe b rest hrest n v

/-! ### NULL and integers -/

theorem null_param (nbe : Bool) : renderArg nbe .null = [0x4e, 0x55, 0x4c, 0x4c] := rfl

def isDigit (c : UInt8) : Prop := 0x30 ≤ c ∧ c ≤ 0x39

/-- Value of a string of decimal digits. -/
def digitsVal : Bytes → Nat := fun bs => bs.foldl (fun a c => a * 10 + (c.toNat - 48)) 0

theorem digitsVal_append (a : Bytes) (c : UInt8) : digitsVal (a ++ [c]) = digitsVal a * 10 + (c.toNat - 48) := by
  simp [digitsVal, List.foldl_append]

theorem ofNat_digit (d : Nat) (h : d < 10) : (UInt8.ofNat (48 + d)).toNat = 48 + d := by
  simp [UInt8.toNat_ofNat']; omega

theorem natDigitsF_spec (f : Nat) : ∀ n, n ≤ f →
    digitsVal (natDigitsF f n) = n ∧ (∀ c ∈ natDigitsF f n, isDigit c) ∧ natDigitsF f n ≠ [] := by
  induction f with
  | zero =>
    intro n hn
    have : n = 0 := by omega
    subst this
    refine ⟨by decide, ?_, by simp [natDigitsF]⟩
    intro c hc; simp [natDigitsF] at hc; subst hc; constructor <;> decide
  | succ f ih =>
    intro n hn
    rw [natDigitsF]
    split
    · rename_i h
      have hd := ofNat_digit n h
      refine ⟨?_, ?_, by simp⟩
      · simp only [digitsVal, List.foldl_cons, List.foldl_nil, hd]; omega
      · intro c hc
        simp at hc; subst hc
        constructor <;> (simp only [UInt8.le_iff_toNat_le, hd]; simp; try omega)
    · rename_i h
      obtain ⟨h1, h2, h3⟩ := ih (n / 10) (by omega)
      have hd := ofNat_digit (n % 10) (by omega)
      refine ⟨?_, ?_, by simp⟩
      · rw [digitsVal_append, h1, hd]; omega
      · intro c hc
        simp at hc
        rcases hc with hc | hc
        · exact h2 c hc
        · subst hc
          constructor <;> (simp only [UInt8.le_iff_toNat_le, hd]; simp; try omega)

theorem natDigits_spec (n : Nat) : digitsVal (natDigits n) = n ∧ (∀ c ∈ natDigits n, isDigit c) ∧ natDigits n ≠ [] :=
  natDigitsF_spec n n (Nat.le_refl n)

/-- Value of `[-]digits`. -/
def intVal : Bytes → Int
  | 0x2d :: ds => -(digitsVal ds : Int)
  | ds => (digitsVal ds : Int)

/-- **int_param_roundtrip.**  An integer parameter of any width and signedness
    is rendered as an optional minus sign and decimal digits — no byte that
    could open a literal, a comment or a placeholder — and that numeral denotes
    exactly the bound integer. -/
theorem int_param_roundtrip (nbe : Bool) (v : Int) :
    intVal (renderArg nbe (.int v)) = v ∧
      (∀ c ∈ renderArg nbe (.int v), isDigit c ∨ c = 0x2d) := by
  have hr : renderArg nbe (.int v) = fmtInt v := rfl
  rw [hr]
  unfold fmtInt
  obtain ⟨h1, h2, h3⟩ := natDigits_spec v.natAbs
  split
  · rename_i hneg
    refine ⟨?_, ?_⟩
    · simp only [intVal, h1]; omega
    · intro c hc
      simp at hc
      rcases hc with hc | hc
      · right; exact hc
      · left; exact h2 c hc
  · rename_i hpos
    refine ⟨?_, fun c hc => Or.inl (h2 c hc)⟩
    have hne : ∀ ds, natDigits v.natAbs = 0x2d :: ds → False := by
      intro ds e
      have := h2 0x2d (by rw [e]; simp)
      exact absurd this.1 (by decide)
    cases hd : natDigits v.natAbs with
    | nil => exact absurd hd h3
    | cons c ds =>
      by_cases hc : c = 0x2d
      · subst hc; exact absurd hd (fun e => hne ds e)
      · have : intVal (c :: ds) = (digitsVal (c :: ds) : Int) := by
          unfold intVal
          split
          · rename_i heq; simp at heq; exact absurd heq.1 hc
          · rfl
        rw [this, ← hd, h1]; omega


/-! ### decoding the packet: the bound value is the value the client sent -/

/-- A string / blob / decimal / … parameter sent as a length-encoded string is
    bound as exactly those bytes (any length-encoded string, anywhere in the
    values area). -/
theorem bind_string_value (tp : UInt8) (htp : isStringType tp = true) (u : Bool) (pre suf b : Bytes)
    (hb : b.length < 2 ^ 63) :
    bindOne tp u (pre ++ LenEnc.appendLenEncStringBytes b ++ suf) pre.length =
      .ok (.bytes b, (pre.length : Int) + LenEnc.lenEncIntSize b.length + b.length) := by
  have hne : ∀ c : UInt8, isStringType c = false → tp ≠ c := by
    intro c hc e; subst e; rw [hc] at htp; exact absurd htp (by simp)
  have hlen : ¬ (((pre ++ LenEnc.appendLenEncStringBytes b ++ suf).length : Int) < (pre.length : Int) + 1) := by
    have : (LenEnc.appendLenEncStringBytes b).length ≥ 1 := by
      unfold LenEnc.appendLenEncStringBytes
      rw [List.length_append, C12.appendLenEncInt_length]
      unfold LenEnc.lenEncIntSize; repeat' split <;> omega
    simp only [List.length_append]; omega
  unfold bindOne
  rw [if_neg (hne 6 (by decide)), if_neg (hne 1 (by decide))]
  rw [if_neg (by intro h; rcases h with h | h; exact hne 2 (by decide) h; exact hne 13 (by decide) h)]
  rw [if_neg (by intro h; rcases h with h | h; exact hne 9 (by decide) h; exact hne 3 (by decide) h)]
  rw [if_neg (hne 8 (by decide)), if_neg (hne 4 (by decide)), if_neg (hne 5 (by decide))]
  rw [if_neg (by intro h; rcases h with h | h; exact hne 10 (by decide) h; exact hne 14 (by decide) h)]
  rw [if_neg (hne 11 (by decide))]
  rw [if_neg (by intro h; rcases h with h | h; exact hne 7 (by decide) h; exact hne 12 (by decide) h)]
  rw [if_pos htp, if_neg hlen, C12.lenenc_str_roundtrip pre suf b hb]
  rfl

/-- A fixed-width integer parameter is bound as the integer whose `w` little-endian
    bytes the client sent: read unsigned when the unsigned flag is set, as a
    two's-complement number otherwise. -/
theorem bind_int_value (w : Nat) (u : Bool) (pre suf : Bytes) (x : Nat) (hx : x < 256 ^ w) :
    bindInt (pre ++ leBytes x w ++ suf) pre.length w u =
      .ok (if u then .int x else .int (if x < 2 ^ (8 * w - 1) then (x : Int) else (x : Int) - 2 ^ (8 * w)),
           (pre.length : Int) + w) := by
  unfold bindInt
  have hl := C12.leBytes_length x w
  rw [if_neg (by simp only [List.length_append, hl]; omega)]
  have := C12.goSlice_append pre (leBytes x w) suf
  rw [hl] at this
  rw [this]
  simp only [ofR, bind, R.bind, signedLE, C12.leNat_leBytes w x hx, hl]


/-! ### integers and NULL are bare words -/

theorem wordByte_of_digit (c : UInt8) (h : isDigit c) : wordByte c = true := by
  obtain ⟨h1, h2⟩ := h
  simp [wordByte, h1, h2]

theorem wordAux_digits (ds : Bytes) (h : ∀ c ∈ ds, isDigit c) : WordAux ds := by
  induction ds with
  | nil => trivial
  | cons c r ih =>
    exact ⟨Or.inl (wordByte_of_digit c (h c (by simp))), ih (fun c hc => h c (List.mem_cons_of_mem _ hc))⟩

theorem argFits_int (nbe : Bool) (v : Int) : ArgFits nbe (.int v) := by
  show Word (fmtInt v)
  unfold fmtInt
  obtain ⟨_, h2, h3⟩ := natDigits_spec v.natAbs
  split
  · refine ⟨by simp, ?_, wordAux_digits _ h2⟩
    cases hd : natDigits v.natAbs with
    | nil => exact absurd hd h3
    | cons e r' =>
      exact Or.inr ⟨rfl, e, r', rfl, wordByte_of_digit e (h2 e (by rw [hd]; simp))⟩
  · exact ⟨h3, wordAux_digits _ h2⟩

theorem argFits_null (nbe : Bool) : ArgFits nbe .null := by
  show Word [0x4e, 0x55, 0x4c, 0x4c]
  exact ⟨by simp, Or.inl (by decide), Or.inl (by decide), Or.inl (by decide), Or.inl (by decide), trivial⟩

theorem argFits_bytes (nbe : Bool) (b : Bytes) : ArgFits nbe (.bytes b) := trivial

/-! ### the property -/

/-- **C15_rewrite_structure.**  In either sql_mode: let `toks` be the lexical
    elements of the template and let the arguments fit it (`Fits`: one per
    placeholder; each a byte string — every string, blob, decimal, date and time
    parameter — or rendered as a bare word — NULL and every integer,
    `argFits_null`, `argFits_int`; floats by hypothesis —; no placeholder glued
    to a `'…'` literal or to another placeholder).  Then the statement
    `GetRewriteSQL` produces is, lexical element by lexical element, the
    template with each placeholder replaced by the literal of its argument
    (`substToks`): one `'…'` string literal whose value is exactly the bound
    bytes (`strValue_escape`), or the bare word.  No element of the template
    changes, none appears, none disappears: no value can alter the statement. -/
theorem C15_rewrite_structure (nbe : Bool) (text : Bytes) (toks : List Tok) (args : List Arg)
    (hl : lex nbe text = some toks) (hfit : Fits nbe toks args) :
    getRewriteSQL nbe (cutItems text 0 (paramOffsets 0 toks)) args = .ok (rawOf (substToks nbe toks args)) ∧
    lex nbe (rawOf (substToks nbe toks args)) = some (substToks nbe toks args) := by
  have hraw := lex_raw nbe text toks hl
  have hne := lexF_raw_ne_nil _ _ _ _ _ hl
  have hq := lexF_raw_ne_qmark _ _ _ _ _ hl
  constructor
  · have h1 := cutItems_pieces toks [] []
    simp only [List.nil_append, List.length_nil, Nat.add_zero, hraw] at h1
    rw [h1]
    have := rewrite_pieces nbe args toks [] 0 (by simpa using hfit) hne hq (by decide) (fun h => absurd rfl h)
    simpa [getRewriteSQL] using this
  · obtain ⟨f, hf⟩ := relex nbe _ false text toks hl args hfit
    have hne' := lexF_raw_ne_nil _ _ _ _ _ hf
    have hle := toks_length_le _ hne'
    exact lexF_any_fuel nbe f false _ _ hf _ (by omega)

/-- Every string literal that stands for an argument denotes exactly the bound bytes. -/
theorem litToks_value (nbe : Bool) (b : Bytes) :
    litToks nbe (.bytes b) = [Tok.str cSQuote (escapeSQL nbe b)] ∧ strValue nbe cSQuote (escapeSQL nbe b) = b :=
  ⟨rfl, strValue_escape nbe b⟩


/-- In the default sql_mode, from `CalcParams`' own result (C14): the statement
    executed for a template and fitting arguments is the template with each
    placeholder replaced by the literal of its argument, and nothing else. -/
theorem C15_default_mode (text : Bytes) (toks : List Tok) (args : List Arg)
    (hl : lex false text = some toks) (hfit : Fits false toks args) :
    ∃ n offs items, calcParams text = .ok (n, offs, items) ∧
      getRewriteSQL false items args = .ok (rawOf (substToks false toks args)) ∧
      lex false (rawOf (substToks false toks args)) = some (substToks false toks args) := by
  have h := C14.calcParams_eq_spec text
  rw [hl] at h
  exact ⟨_, _, _, h, C15_rewrite_structure false text toks args hl hfit⟩

/-- With NO_BACKSLASH_ESCAPES set, for templates that read the same in both
    modes (`CalcParams` itself always reads the template in the default mode;
    a template without a backslash inside a literal is such a template). -/
theorem C15_no_backslash_escapes_mode (text : Bytes) (toks : List Tok) (args : List Arg)
    (hl : lex true text = some toks) (hsame : lex false text = lex true text) (hfit : Fits true toks args) :
    ∃ n offs items, calcParams text = .ok (n, offs, items) ∧
      getRewriteSQL true items args = .ok (rawOf (substToks true toks args)) ∧
      lex true (rawOf (substToks true toks args)) = some (substToks true toks args) := by
  have h := C14.calcParams_eq_spec text
  rw [hsame, hl] at h
  exact ⟨_, _, _, h, C15_rewrite_structure true text toks args hl hfit⟩


/-! ### the statements are not vacuous; the probed defect of the pinned tree -/

/-- `\' OR 1=1 -- ` — the value of the probed injection. -/
def inj : Bytes := [0x5c, 0x27, 0x20, 0x4f, 0x52, 0x20, 0x31, 0x3d, 0x31, 0x20, 0x2d, 0x2d, 0x20]

/-- `?,?` lexes to placeholder, comma, placeholder; any byte string and any
    integer fit it: the hypotheses of `C15_rewrite_structure` are satisfiable. -/
example : lex true [0x3f, 0x2c, 0x3f] = some [.param, .other 0x2c, .param] := by decide
example (b : Bytes) (v : Int) : Fits true [.param, .other 0x2c, .param] [.bytes b, .int v] :=
  ⟨trivial, by simp [isQ], argFits_int true v, by simp, trivial⟩

/-- With NO_BACKSLASH_ESCAPES the value is rendered `'\'' OR 1=1 -- '`, without it `'\\'' OR 1=1 -- '`: one
    literal each, denoting the value. -/
example : renderArg true (.bytes inj) = [0x27, 0x5c, 0x27, 0x27, 0x20, 0x4f, 0x52, 0x20, 0x31, 0x3d, 0x31, 0x20, 0x2d, 0x2d, 0x20, 0x27] := by decide
example : renderArg false (.bytes inj) = [0x27, 0x5c, 0x5c, 0x27, 0x27, 0x20, 0x4f, 0x52, 0x20, 0x31, 0x3d, 0x31, 0x20, 0x2d, 0x2d, 0x20, 0x27] := by decide
example : lex true (renderArg true (.bytes inj)) = some [.str cSQuote (escapeSQL true inj)] := by decide
example : lex false (renderArg false (.bytes inj)) = some [.str cSQuote (escapeSQL false inj)] := by decide

/-- What the pinned `escapeSQL` did (a backslash before every backslash and quote, in every mode). -/
def pinnedEscape : Bytes → Bytes
  | [] => []
  | c :: rest => if c = cBackslash ∨ c = cSQuote then cBackslash :: c :: pinnedEscape rest else c :: pinnedEscape rest

/-- **Witness of the repaired defect.**  Under NO_BACKSLASH_ESCAPES the pinned
    rendering `'\\\' OR 1=1 -- '` is not one literal: it is the literal `\\\` followed by
    ` OR 1=1 ` and a comment. -/
theorem pinned_escape_witness :
    lex true (cSQuote :: pinnedEscape inj ++ [cSQuote]) =
      some [.str cSQuote [0x5c, 0x5c, 0x5c], .other 0x20, .other 0x4f, .other 0x52, .other 0x20, .other 0x31,
            .other 0x3d, .other 0x31, .other 0x20, .lineComment [0x2d, 0x2d, 0x20, 0x27]] := by decide

/-- Integers of every width: `bind_int_value` and `int_param_roundtrip` on -128 sent as TINYINT. -/
example : bindInt [0x80] 0 1 false = .ok (.int (-128), 1) := by decide
example : renderArg false (.int (-128)) = [0x2d, 0x31, 0x32, 0x38] := by decide

end GaeaVerif.C15
