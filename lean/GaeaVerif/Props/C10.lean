import GaeaVerif.Lemmas.C10Load
import GaeaVerif.Lemmas.C10Place
import GaeaVerif.Lemmas.C10NoPanic
import GaeaVerif.Gen.Consts
/-
  C10 — Accepted configurations load and give an unambiguous routing table.

  "Every namespace configuration that the control plane's validation accepts
   can be loaded by a proxy, and in the loaded routing table each physical
   table of a sharded or global table is listed once and belongs to exactly
   one slice; the sharding function of a hash, mod, range or mycat rule only
   names listed tables."

  Theorems about `Model/C10Config.lean` (the model of Namespace.Verify,
  router.NewRouter and the FindForKey functions after the repairs listed in
  known/C10.json; the tie to /repo is the correspondence check `gvh run C10`).

    verify_never_panics            Namespace.Verify returns (ok or an error) on every configuration
    verify_implies_load            accepted ⇒ NewRouter returns a router (no error, no panic)
    routing_table_unambiguous      every stored rule (global rules included): sub tables strictly
                                   ascending (listed once), tableToSlice defined exactly on them, slice
                                   indexes inside the rule's slice list, slices are namespace slices,
                                   one database per listed table for Mycat and global rules
    pinned_global_slice_index_witness  what NewRouter did to a global rule before c29cd53
    shard_fn_in_range              hash, mod, range, mycat_mod/long/string/murmur/padding_mod: for every
                                   key FindTableIndex never panics and an index it returns is listed
    mycatMod_in_range, mycatMod_value  mycat_mod spelled out: every key, MinInt64 included; |key| mod count
    pinned_mycatMod_negative_index_witness  what mycat_mod did for MinInt64 before 722beea
    constants_tie                  the constants the model uses are those of the current source
-/
namespace GaeaVerif.C10
open GaeaVerif

/-! ### constants regenerated from /repo on every run (harness/extract/c10.go) -/

/-- `PartitionLength` (both copies), the mask `andValue = PartitionLength - 1`
    (the model takes keys modulo `partitionLength`), the padding-mod constants
    and the rule-type names of the source are the ones the model uses. -/
theorem constants_tie :
    Gen.c10ModelsPartitionLength = (partitionLength : Int) ∧ Gen.c10RouterPartitionLength = (partitionLength : Int) ∧
    Gen.c10RouterAndValueIsPartitionLengthMinus1 = true ∧ partitionLength = 1024 ∧
    Gen.c10ModelsPaddingModLeftEnd = 0 ∧ Gen.c10RouterPaddingModLeftEnd = 0 ∧
    Gen.c10ModelsPaddingModRightEnd = 1 ∧ Gen.c10RouterPaddingModRightEnd = 1 ∧
    Gen.c10ModelsPaddingModDefaultMod = 2 ∧ Gen.c10RouterPaddingModDefaultMod = 2 ∧
    Gen.c10TypeDefault = tDefault ∧ Gen.c10TypeGlobal = tGlobal ∧ Gen.c10TypeLinked = tLinked ∧
    Gen.c10TypeMod = tMod ∧ Gen.c10TypeHash = tHash ∧ Gen.c10TypeRange = tRange ∧ Gen.c10TypeYear = tYear ∧
    Gen.c10TypeMonth = tMonth ∧ Gen.c10TypeDay = tDay ∧ Gen.c10TypeMycatMod = tMycatMod ∧
    Gen.c10TypeMycatLong = tMycatLong ∧ Gen.c10TypeMycatString = tMycatString ∧
    Gen.c10TypeMycatMurmur = tMycatMurmur ∧ Gen.c10TypeMycatPadding = tMycatPadding := by decide

/-! ### validation itself never panics -/

/-- `Namespace.Verify` never panics, whatever the slices, default slice and
    shard rules are (before 0d18265 `partition_count: "3,-1"` made it panic, and
    before accbf50 so did `locations: [-1]` on a range rule). -/
theorem verify_never_panics (n : Namespace) : verify n ≠ .panic := by
  have h1 : verifySlices n ≠ .panic := by
    unfold verifySlices; repeat' split
    all_goals simp
  have h2 : verifyDefaultSlice n ≠ .panic := by
    unfold verifyDefaultSlice; split <;> simp
  have h3 : verifyDefaultSliceExists n ≠ .panic := by
    unfold verifyDefaultSliceExists; split <;> simp
  have h4 : verifyShardRules n ≠ .panic := by
    unfold verifyShardRules
    have := verifyRulesLoop_ne_panic (sliceNames n) n.shardRules [] []
    split
    · exact verifyLinkedLoop_ne_panic _ _
    · simp
    · next hp => exact absurd hp this
  unfold verify
  repeat' split
  all_goals simp_all

/-- the statement is about a model in which panics are possible outcomes: the
    router's own parser does panic on a month range that Verify refuses -/
example : parseDateRuleSliceInfos (parseMonthRange false)
    [['2','0','1','5','0','1'], ['2','0','1','5','2','5','-','2','0','1','6','0','1']] [['a'], ['b']] = .panic := by
  decide

/-! ### accepted configurations load -/

/-- Every namespace accepted by `Namespace.Verify` is loaded by `NewRouter`:
    it returns a router, neither an error nor a panic. -/
theorem verify_implies_load (n : Namespace) (h : verify n = .ok ()) : ∃ r, newRouter n = .ok r := by
  unfold verify at h
  r_cases h : verifySlices n with u1 h1
  r_cases h : verifyDefaultSlice n with u2 h2
  r_cases h : verifyDefaultSliceExists n with u3 h3
  -- the default slice is a slice of the namespace
  have hdef : includeSlice (sliceNames n) n.defaultSlice = true := by
    unfold verifyDefaultSliceExists at h3
    unfold verifyDefaultSlice at h2
    split at h3
    · cases h3
    · next hne =>
      split at h2
      · cases h2
      · next hinc =>
        cases hi : includeSlice (sliceNames n) n.defaultSlice with
        | true => rfl
        | false => simp [hi, hne] at hinc
  unfold verifyShardRules at h
  cases hl : verifyRulesLoop (sliceNames n) n.shardRules [] [] with
  | fail => rw [hl] at h; simp at h
  | panic => rw [hl] at h; simp at h
  | ok p =>
    obtain ⟨linked, rules⟩ := p
    rw [hl] at h
    simp only at h
    have inv0 : LoadInv [] [] [] := ⟨by simp [lookup], by simp [lookup], by simp⟩
    obtain ⟨rr, hrr, inv⟩ := rulesLoop_load (sliceNames n) n.shardRules [] [] [] linked rules inv0 hl
    obtain ⟨rr', hrr'⟩ := linkedLoop_load rules linked rr inv.linked inv.sup h
    refine ⟨⟨rr', n.defaultSlice⟩, ?_⟩
    unfold newRouter
    rw [if_neg (by simp [hdef]), hrr]
    simp only [hrr']

/-! ### the loaded routing table is unambiguous -/

/-- what C10 says of one stored rule (`names`: the slices of the namespace) -/
structure RuleUnambiguous (names : List Str) (b : BaseRule) : Prop where
  /-- the sub tables are listed in strictly ascending order: each one once -/
  ascending : b.subTableIndexes.Pairwise (· < ·)
  /-- `tableToSlice` is defined exactly on the listed sub tables -/
  defined : ∀ i, i ∈ b.subTableIndexes ↔ (mapGet b.tableToSlice i).isSome
  /-- … with a slice index that `GetSlice` resolves (every rule type; for global
      rules this needed fix c29cd53) -/
  slice : ∀ i v, mapGet b.tableToSlice i = some v → 0 ≤ v ∧ v < b.slices.length
  /-- … to a slice of the namespace -/
  known : ∀ s ∈ b.slices, s ∈ names
  /-- a Mycat or global rule names one physical database per listed sub table
      (`GetDatabaseNameByTableIndex` is defined on every listed index) -/
  databases : isMycatShardingRule (rtOf b.ruleType) = true ∨ rtOf b.ruleType = .global →
    b.mycatDatabases.length = b.subTableIndexes.length

theorem mem_of_includeSlice {names : List Str} {s : Str} (h : includeSlice names s = true) : s ∈ names := by
  unfold includeSlice at h
  obtain ⟨x, hx, he⟩ := List.any_eq_true.mp h
  simp only [decide_eq_true_eq] at he
  subst he; exact hx

theorem parsed_rule_unambiguous (names : List Str) (s : Shard) (hs : s.slices.all (includeSlice names) = true)
    (b : BaseRule) (hb : parseRule s = .ok b) : RuleUnambiguous names b := by
  have sp := parseRule_spec s b hb
  obtain ⟨hasc, hkeys, hrange⟩ := sp.2.2.2.2.1
  refine ⟨hasc, ?_, ?_, ?_, ?_⟩
  · intro i
    rw [mapGet_isSome_iff, hkeys]
  · intro i v hv
    rw [sp.2.2.2.1]
    exact hrange (i, v) (mapGet_mem _ _ _ hv)
  · intro x hx
    rw [sp.2.2.2.1] at hx
    exact mem_of_includeSlice (List.all_eq_true.mp hs x hx)
  · intro hm
    rw [sp.2.2.1] at hm
    exact parseRule_databases s b hb hm

/-- In the router built by `NewRouter`, every stored rule (the rule a linked
    rule links to, for a linked rule) lists each sub table exactly once, maps
    exactly the listed sub tables to a slice, and that slice is one of the
    namespace's slices. -/
theorem routing_table_unambiguous (n : Namespace) (r : Router) (h : newRouter n = .ok r)
    (k : Str × Str) (rule : Rule) (hk : r.get k = some rule) :
    RuleUnambiguous (sliceNames n) rule.target := by
  have hall := newRouter_all (RuleUnambiguous (sliceNames n)) n r
    (fun s _ hs b hb => parsed_rule_unambiguous (sliceNames n) s hs b hb) h
  exact hall (k, rule) (lookup_mem _ _ _ hk)

/-! ### the sharding function only names listed tables -/

/-- For every rule of a loaded router whose type is hash, mod, range,
    mycat_mod, mycat_long, mycat_string, mycat_murmur or mycat_padding_mod, and
    for every key (an int64, a uint64 or a string), `FindTableIndex` does not
    panic and an index it returns is one of the rule's listed sub tables.  The
    murmur hash is arbitrary (`bucketOf`, `keyHash`).  `hlen` is Go's bound on
    the length of a slice.  (mycat_mod is included since fix 722beea, `|key| mod
    count` on the full integer, is part of the tree: no key is excluded.) -/
theorem shard_fn_in_range (n : Namespace) (r : Router) (h : newRouter n = .ok r)
    (k : Str × Str) (rule : Rule) (hk : r.get k = some rule)
    (hprobed : rule.target.shard.probed = true)
    (hlen : (rule.target.subTableIndexes.length : Int) ≤ 2 ^ 63)
    (bucketOf : Nat → Nat → Int) (keyHash : Str → Int) (key : Key) (hkey : key.WF) :
    findForKey bucketOf keyHash rule.target.shard key ≠ .panic ∧
    ∀ i, findForKey bucketOf keyHash rule.target.shard key = .ok i → i ∈ rule.target.subTableIndexes := by
  have hall := newRouter_all (fun b => ShardWF b.shard b.subTableIndexes) n r
    (by
      intro s _ _ b hb
      exact (parseRule_spec s b hb).2.2.2.2.2) h
  have hwf := hall (k, rule) (lookup_mem _ _ _ hk)
  exact findForKey_spec bucketOf keyHash _ _ hwf hlen key hkey hprobed

/-- mycat_mod, spelled out (the former `mycatMod_in_range_partial`, which
    excluded the key MinInt64, at full strength): for every key — every int64,
    MinInt64 included, every uint64, every string — `FindTableIndex` of a
    loaded mycat_mod rule does not panic, and an index it returns is listed. -/
theorem mycatMod_in_range (n : Namespace) (r : Router) (h : newRouter n = .ok r)
    (k : Str × Str) (rule : Rule) (hk : r.get k = some rule)
    (m : Int) (hm : rule.target.shard = .mycatMod m)
    (hlen : (rule.target.subTableIndexes.length : Int) ≤ 2 ^ 63)
    (key : Key) (hkey : key.WF) :
    findForKey (fun _ _ => 0) (fun _ => 0) rule.target.shard key ≠ .panic ∧
    ∀ i, findForKey (fun _ _ => 0) (fun _ => 0) rule.target.shard key = .ok i → i ∈ rule.target.subTableIndexes :=
  shard_fn_in_range n r h k rule hk (by rw [hm]; rfl) hlen _ _ key hkey

/-- … and what a mycat_mod rule of `m > 0` tables returns: `|key| mod m` of the
    key read as an integer of any size; a key that is not a decimal integer is
    rejected (the recovered KeyError). -/
theorem mycatMod_value (m : Int) (key : Key) (hm : 0 < m) :
    findForKey (fun _ _ => 0) (fun _ => 0) (.mycatMod m) key =
      match parseBigDec (getString key) with
      | some v => .ok ((v.natAbs : Int) % m)
      | none => .fail := by
  simp only [findForKey]
  cases parseBigDec (getString key) with
  | none => rfl
  | some v => simp only; rw [if_neg (by omega)]

/-! ### concrete configurations: the hypotheses are satisfiable, and the witnesses of the open findings -/

section Examples

def exS0 : Str := ['s', '0']
def exS1 : Str := ['s', '1']
def exDb : Str := ['d', 'b']
def exSlice (name : Str) : Slice := ⟨name, ['r', 'o', 'o', 't'], ['m'], [], 4, 8⟩
def exBlank (table typ : Str) : Shard :=
  ⟨exDb, table, [], typ, ['I', 'D'], [], [], [], 0, [], [], [], [], [], [], [], [], [], []⟩

/-- a namespace with a hash rule `T1` (3 sub tables on two slices), a linked
    rule naming its parent `t1`, a range rule, a global rule on both slices, a
    mycat_mod rule on three databases and a date_year rule -/
def exNamespace : Namespace :=
  ⟨[exSlice exS0, exSlice exS1], exS0,
   [{ exBlank ['T', '1'] tHash with locations := [2, 1], slices := [exS0, exS1] },
    { exBlank ['c'] tLinked with parentTable := ['t', '1'] },
    { exBlank ['r'] tRange with locations := [1, 2], slices := [exS1, exS0], tableRowLimit := 100 },
    { exBlank ['g'] tGlobal with locations := [1, 1], slices := [exS0, exS1] },
    { exBlank ['m'] tMycatMod with locations := [1, 2], slices := [exS0, exS1], databases := [['a'], ['b'], ['c']] },
    { exBlank ['y'] tYear with slices := [exS0, exS1], dateRange := [['2','0','1','5','-','2','0','1','7'], ['2','0','1','8']] }]⟩

/-- the router the model builds for it -/
def exRouter : Router :=
  match newRouter exNamespace with
  | .ok r => r
  | _ => ⟨[], []⟩

set_option maxRecDepth 100000 in
/-- `verify_implies_load`: the hypothesis holds of a non-trivial namespace … -/
example : verify exNamespace = .ok () := by decide

set_option maxRecDepth 100000 in
/-- … and `routing_table_unambiguous`, `shard_fn_in_range`: so do theirs -/
theorem exRouter_loaded : newRouter exNamespace = .ok exRouter := by decide

set_option maxRecDepth 100000 in
example : (exRouter.get (exDb, ['t', '1'])).map (fun rule => (rule.target.subTableIndexes, rule.target.shard.probed)) =
    some ([0, 1, 2], true) := by decide

set_option maxRecDepth 100000 in
example : (exRouter.get (exDb, ['c'])).map (fun rule => rule.target.table) = some ['t', '1'] := by decide

set_option maxRecDepth 100000 in
example : findForKey (fun _ _ => 0) (fun _ => 0) (.hash 3) (.str ['a', 'b', 'c']) = .ok 0 ∧
    findForKey (fun _ _ => 0) (fun _ => 0) (.mod 3) (.int minInt64) = .ok 2 := by decide

example : (Key.int minInt64).WF ∧ (Key.uint (2 ^ 63)).WF ∧ (Key.str ['x']).WF := by
  refine ⟨?_, ?_, trivial⟩
  · unfold Key.WF minInt64 maxInt64; omega
  · unfold Key.WF; omega

set_option maxRecDepth 100000 in
/-- a global rule is among the rules `routing_table_unambiguous` speaks about -/
example : (exRouter.get (exDb, ['g'])).map (fun rule => (rtOf rule.target.ruleType, rule.target.slices)) =
    some (.global, [exS0, exS1]) := by decide

set_option maxRecDepth 100000 in
/-- `mycatMod_in_range`: a loaded mycat_mod rule; the keys the former `_partial`
    excluded (MinInt64 as int64, 2^63 as uint64, a 30-digit string) are placed
    in listed tables -/
example : (exRouter.get (exDb, ['m'])).map (fun rule => rule.target.shard) = some (.mycatMod 3) ∧
    findForKey (fun _ _ => 0) (fun _ => 0) (.mycatMod 3) (.int minInt64) = .ok 2 ∧
    findForKey (fun _ _ => 0) (fun _ => 0) (.mycatMod 3) (.uint (2 ^ 63)) = .ok 2 ∧
    findForKey (fun _ _ => 0) (fun _ => 0) (.mycatMod 3) (.str "-100000000000000000000000000001".toList) = .ok 2 ∧
    findForKey (fun _ _ => 0) (fun _ => 0) (.mycatMod 3) (.str ['1', '_', '0']) = .fail := by decide

/-- A global rule that lists the slices s1, s0, s0 in a namespace with the two
    slices s0, s1 (the former open finding `global-slice-index-out-of-range`). -/
def wNamespace : Namespace :=
  ⟨[exSlice exS0, exSlice exS1], exS0,
   [{ exBlank ['g'] tGlobal with locations := [1, 1, 1], slices := [exS1, exS0, exS0] }]⟩

def wRouter : Router :=
  match newRouter wNamespace with
  | .ok r => r
  | _ => ⟨[], []⟩

/-- what `NewRouter` did to a global rule before c29cd53:
    `if rule.ruleType == GlobalTableRuleType { rule.slices = sliceNames }` -/
def pinnedUseNamespaceSlices (names : List Str) (rule : BaseRule) : BaseRule :=
  if rtOf rule.ruleType = .global then { rule with slices := names } else rule

set_option maxRecDepth 100000 in
/-- The namespace is accepted and loaded.  With the repaired `NewRouter` its
    global rule keeps the three configured slices, so slice index 2 of sub
    table 2 resolves (to s0); the pinned code replaced the slice list by the
    namespace's two slices and `GetSlice(2)` panicked. -/
theorem pinned_global_slice_index_witness :
    verify wNamespace = .ok () ∧ newRouter wNamespace = .ok wRouter ∧
    (wRouter.get (exDb, ['g'])).map
      (fun rule => (mapGet rule.target.tableToSlice 2, rule.target.slices,
        (pinnedUseNamespaceSlices (sliceNames wNamespace) rule.target).slices.length)) =
      some (some 2, [exS1, exS0, exS0], 2) := by decide

/-- mycat_mod on three databases -/
def mNamespace : Namespace :=
  ⟨[exSlice exS0, exSlice exS1], exS0,
   [{ exBlank ['m'] tMycatMod with locations := [1, 2], slices := [exS0, exS1], databases := [['a'], ['b'], ['c']] }]⟩

def mRouter : Router :=
  match newRouter mNamespace with
  | .ok r => r
  | _ => ⟨[], []⟩

/-- what `MycatPartitionModShard.FindForKey` computed before 722beea:
    `int(hack.Abs(NumValue(key)) % int64(m.ShardNum))` -/
def pinnedMycatModFind (n : Int) (key : Key) : R Int :=
  match numValue key with
  | .ok v => if n = 0 then .panic else .ok (goMod (hackAbs v) n)
  | .fail => .fail
  | .panic => .panic

set_option maxRecDepth 100000 in
/-- Regression record of the former finding: the namespace is accepted and
    loaded, its mycat_mod rule lists the tables 0, 1, 2; the pinned code computed
    `hack.Abs(MinInt64) % 3 = -2`, a table that is not listed; the repaired code
    places MinInt64 in table 2 = 2^63 mod 3. -/
theorem pinned_mycatMod_negative_index_witness :
    verify mNamespace = .ok () ∧ newRouter mNamespace = .ok mRouter ∧
    (mRouter.get (exDb, ['m'])).map
      (fun rule => (rule.target.subTableIndexes,
        findForKey (fun _ _ => 0) (fun _ => 0) rule.target.shard (.int minInt64))) =
      some ([0, 1, 2], .ok 2) ∧
    pinnedMycatModFind 3 (.int minInt64) = .ok (-2) := by decide

end Examples

end GaeaVerif.C10
