import GaeaVerif.Lemmas.StmtLex
import GaeaVerif.Model.StmtCalcParams
/-
  C14 — Prepared-statement parameters are exactly the SQL grammar's placeholders.

  `StmtCalcParams.calcParams` is the model of `CalcParams`
  (/repo/proxy/server/executor_stmt.go, tied to the code by `gvh run C14`);
  `StmtLex.lex`/`placeholders` is the lexical grammar (tied to /repo's parser by
  the same run).  Main theorems (bottom of the file):

    calcParams_eq_spec        for every text: the result of CalcParams is exactly
                              (number, offsets, text cut at) the grammar's placeholders,
                              and an error iff a literal/identifier/comment is unterminated
    calcParams_no_panic       no slice expression of CalcParams can panic
    lex_raw, lex_other_ne_qmark, paramOffsets_iff
                              what the grammar's placeholders are: the text is the
                              concatenation of its lexical elements, every `?` byte lies
                              in a string literal, a quoted identifier, a comment or is a
                              parameter marker, and the offsets are those of the markers
    items_join                the items joined give back the statement text
-/
namespace GaeaVerif.C14
open GaeaVerif GaeaVerif.StmtLex GaeaVerif.StmtCalcParams

/-- The run of the scanner over a text: which bytes are recorded as markers,
    and the scanner variables at the end. -/
def mask (s : ScanSt) : Bytes → List Bool × ScanSt
  | [] => ([], s)
  | c :: rest => ((scanStep s c rest).2 :: (mask (scanStep s c rest).1 rest).1, (mask (scanStep s c rest).1 rest).2)

def falses (n : Nat) : List Bool := List.replicate n false

theorem falses_succ (n : Nat) : falses (n + 1) = false :: falses n := rfl
theorem falses_zero : falses 0 = [] := rfl

theorem mask_skip (st : Scan) (q : UInt8) (v : Bool) (k : Nat) (c : UInt8) (rest : Bytes) :
    mask ⟨st, q, v, k + 1⟩ (c :: rest) =
      (false :: (mask ⟨st, q, v, k⟩ rest).1, (mask ⟨st, q, v, k⟩ rest).2) := by
  simp [mask, scanStep]

/-- Inside a string literal the scanner records nothing and comes back to SQL
    exactly where the lexical grammar ends the literal. -/
theorem mask_string (q : UInt8) (hq : q = cSQuote ∨ q = cDQuote) (v : Bool) (t body rest : Bytes)
    (h : scanStr false q t = some (body, rest)) :
    mask ⟨.string, q, v, 0⟩ t =
      (falses (body.length + 1) ++ (mask ⟨.sql, q, v, 0⟩ rest).1, (mask ⟨.sql, q, v, 0⟩ rest).2) := by
  fun_induction scanStr false q t generalizing body rest
  · simp at h
  · rename_i c hc
    simp at h; obtain ⟨rfl, rfl⟩ := h
    obtain ⟨rfl, hb⟩ := hc
    simp at hb
    simp [mask, scanStep, hb, falses]
  · simp at h
  · rename_i c d r hc ih
    simp only [Option.map_eq_some_iff] at h
    obtain ⟨⟨b, r'⟩, hb, heq⟩ := h
    simp at heq; obtain ⟨rfl, rfl⟩ := heq
    have hc' : c = cBackslash := by simpa using hc
    subst hc'
    rw [mask]
    have : scanStep ⟨.string, q, v, 0⟩ cBackslash (d :: r) = (⟨.string, q, v, 1⟩, false) := by
      simp [scanStep]
    rw [this]
    simp only
    rw [mask_skip, ih b r' hb]
    simp [falses, List.replicate_succ]
  · -- doubled quote: the scanner closes the literal and reopens it at once
    rename_i r hc ih
    simp only [Option.map_eq_some_iff] at h
    obtain ⟨⟨b, r'⟩, hb, heq⟩ := h
    simp at heq; obtain ⟨rfl, rfl⟩ := heq
    have hnb : q ≠ cBackslash := by
      rcases hq with rfl | rfl <;> decide
    have s1 : scanStep ⟨.string, q, v, 0⟩ q (q :: r) = (⟨.sql, q, v, 0⟩, false) := by
      simp [scanStep, hnb]
    have s2 : scanStep ⟨.sql, q, v, 0⟩ q r = (⟨.string, q, v, 0⟩, false) := by
      rcases hq with rfl | rfl <;> simp [scanStep]
    rw [mask, s1]; simp only
    rw [mask, s2]; simp only
    rw [ih b r' hb]
    simp [falses, List.replicate_succ]
  · rename_i d r hdq hc
    simp at h; obtain ⟨rfl, rfl⟩ := h
    have hnb : q ≠ cBackslash := by
      rcases hq with rfl | rfl <;> decide
    have s1 : scanStep ⟨.string, q, v, 0⟩ q (d :: r) = (⟨.sql, q, v, 0⟩, false) := by
      simp [scanStep, hnb]
    rw [mask, s1]
    simp [falses]
  · rename_i c d r hc hcq ih
    simp only [Option.map_eq_some_iff] at h
    obtain ⟨⟨b, r'⟩, hb, heq⟩ := h
    simp at heq; obtain ⟨rfl, rfl⟩ := heq
    have hnb : c ≠ cBackslash := by simpa using hc
    have s1 : scanStep ⟨.string, q, v, 0⟩ c (d :: r) = (⟨.string, q, v, 0⟩, false) := by
      simp [scanStep, hnb, hcq]
    rw [mask, s1]; simp only
    rw [ih b r' hb]
    simp [falses, List.replicate_succ]

/-- An unterminated string literal leaves the scanner in a state that CalcParams rejects. -/
theorem mask_string_none (q : UInt8) (hq : q = cSQuote ∨ q = cDQuote) (v : Bool) (t : Bytes)
    (h : scanStr false q t = none) : (mask ⟨.string, q, v, 0⟩ t).2.bad = true := by
  have hnb : q ≠ cBackslash := by rcases hq with rfl | rfl <;> decide
  fun_induction scanStr false q t
  · simp [mask, ScanSt.bad]
  · simp at h
  · rename_i c hc
    by_cases h1 : c = cBackslash
    · subst h1; simp [mask, scanStep, ScanSt.bad]
    · have : c ≠ q := by intro e; apply hc; subst e; simp [h1]
      simp [mask, scanStep, ScanSt.bad, h1, this]
  · rename_i c d r hc ih
    have hc' : c = cBackslash := by simpa using hc
    subst hc'
    have h' : scanStr false q r = none := by simpa using h
    have s1 : scanStep ⟨.string, q, v, 0⟩ cBackslash (d :: r) = (⟨.string, q, v, 1⟩, false) := by
      simp [scanStep]
    rw [mask, s1]; simp only
    rw [mask_skip]; exact ih h'
  · rename_i r hc ih
    have h' : scanStr false q r = none := by simpa using h
    have s1 : scanStep ⟨.string, q, v, 0⟩ q (q :: r) = (⟨.sql, q, v, 0⟩, false) := by
      simp [scanStep, hnb]
    have s2 : scanStep ⟨.sql, q, v, 0⟩ q r = (⟨.string, q, v, 0⟩, false) := by
      rcases hq with rfl | rfl <;> simp [scanStep]
    rw [mask, s1]; simp only
    rw [mask, s2]; simp only
    exact ih h'
  · simp at h
  · rename_i c d r hc hcq ih
    have h' : scanStr false q (d :: r) = none := by simpa using h
    have hnb' : c ≠ cBackslash := by simpa using hc
    have s1 : scanStep ⟨.string, q, v, 0⟩ c (d :: r) = (⟨.string, q, v, 0⟩, false) := by
      simp [scanStep, hnb', hcq]
    rw [mask, s1]; simp only
    exact ih h'

/-! quoted identifiers -/

theorem mask_qident (q : UInt8) (v : Bool) (t body rest : Bytes)
    (h : scanQIdent t = some (body, rest)) :
    mask ⟨.quotedIdent, q, v, 0⟩ t =
      (falses (body.length + 1) ++ (mask ⟨.sql, q, v, 0⟩ rest).1, (mask ⟨.sql, q, v, 0⟩ rest).2) := by
  have s2 : ∀ r, scanStep ⟨.sql, q, v, 0⟩ cBQuote r = (⟨.quotedIdent, q, v, 0⟩, false) := by
    intro r; simp [scanStep, cBQuote, cDQuote, cSQuote]
  fun_induction scanQIdent t generalizing body rest
  · simp at h
  · simp at h; obtain ⟨rfl, rfl⟩ := h
    simp [mask, scanStep, falses]
  · simp at h
  · rename_i r ih
    simp only [Option.map_eq_some_iff] at h
    obtain ⟨⟨b, r'⟩, hb, heq⟩ := h
    simp at heq; obtain ⟨rfl, rfl⟩ := heq
    have s1 : scanStep ⟨.quotedIdent, q, v, 0⟩ cBQuote (cBQuote :: r) = (⟨.sql, q, v, 0⟩, false) := by
      simp [scanStep]
    rw [mask, s1]; simp only
    rw [mask, s2]; simp only
    rw [ih b r' hb]
    simp [falses, List.replicate_succ]
  · rename_i d r hd
    simp at h; obtain ⟨rfl, rfl⟩ := h
    have s1 : scanStep ⟨.quotedIdent, q, v, 0⟩ cBQuote (d :: r) = (⟨.sql, q, v, 0⟩, false) := by
      simp [scanStep]
    rw [mask, s1]
    simp [falses]
  · rename_i c d r hc ih
    simp only [Option.map_eq_some_iff] at h
    obtain ⟨⟨b, r'⟩, hb, heq⟩ := h
    simp at heq; obtain ⟨rfl, rfl⟩ := heq
    have s1 : scanStep ⟨.quotedIdent, q, v, 0⟩ c (d :: r) = (⟨.quotedIdent, q, v, 0⟩, false) := by
      simp [scanStep, hc]
    rw [mask, s1]; simp only
    rw [ih b r' hb]
    simp [falses, List.replicate_succ]

theorem mask_qident_none (q : UInt8) (v : Bool) (t : Bytes)
    (h : scanQIdent t = none) : (mask ⟨.quotedIdent, q, v, 0⟩ t).2.bad = true := by
  have s2 : ∀ r, scanStep ⟨.sql, q, v, 0⟩ cBQuote r = (⟨.quotedIdent, q, v, 0⟩, false) := by
    intro r; simp [scanStep, cBQuote, cDQuote, cSQuote]
  fun_induction scanQIdent t
  · simp [mask, ScanSt.bad]
  · simp at h
  · rename_i c hc
    simp [mask, scanStep, ScanSt.bad, hc]
  · rename_i r ih
    have h' : scanQIdent r = none := by simpa using h
    have s1 : scanStep ⟨.quotedIdent, q, v, 0⟩ cBQuote (cBQuote :: r) = (⟨.sql, q, v, 0⟩, false) := by
      simp [scanStep]
    rw [mask, s1]; simp only
    rw [mask, s2]; simp only
    exact ih h'
  · simp at h
  · rename_i c d r hc ih
    have h' : scanQIdent (d :: r) = none := by simpa using h
    have s1 : scanStep ⟨.quotedIdent, q, v, 0⟩ c (d :: r) = (⟨.quotedIdent, q, v, 0⟩, false) := by
      simp [scanStep, hc]
    rw [mask, s1]; simp only
    exact ih h'

/-! block comments -/

theorem mask_block (q : UInt8) (v : Bool) (t body rest : Bytes)
    (h : scanBlock t = some (body, rest)) :
    mask ⟨.blockComment, q, v, 0⟩ t =
      (falses (body.length + 2) ++ (mask ⟨.sql, q, v, 0⟩ rest).1, (mask ⟨.sql, q, v, 0⟩ rest).2) := by
  fun_induction scanBlock t generalizing body rest
  · simp at h
  · simp at h
  · rename_i c d r hc
    obtain ⟨rfl, rfl⟩ := hc
    simp at h; obtain ⟨rfl, rfl⟩ := h
    have s1 : scanStep ⟨.blockComment, q, v, 0⟩ cStar (cSlash :: r) = (⟨.sql, q, v, 1⟩, false) := by
      simp [scanStep, next1Is]
    rw [mask, s1]; simp only
    rw [mask_skip]
    simp [falses, List.replicate_succ]
  · rename_i c d r hc ih
    simp only [Option.map_eq_some_iff] at h
    obtain ⟨⟨b, r'⟩, hb, heq⟩ := h
    simp at heq; obtain ⟨rfl, rfl⟩ := heq
    have s1 : scanStep ⟨.blockComment, q, v, 0⟩ c (d :: r) = (⟨.blockComment, q, v, 0⟩, false) := by
      simp only [scanStep, next1Is]
      by_cases h1 : c = cStar
      · have : d ≠ cSlash := fun e => hc ⟨h1, e⟩
        simp [h1, this]
      · simp [h1]
    rw [mask, s1]; simp only
    rw [ih b r' hb]
    simp [falses, List.replicate_succ]

theorem mask_block_none (q : UInt8) (v : Bool) (t : Bytes)
    (h : scanBlock t = none) : (mask ⟨.blockComment, q, v, 0⟩ t).2.bad = true := by
  fun_induction scanBlock t
  · simp [mask, ScanSt.bad]
  · rename_i c
    simp [mask, scanStep, ScanSt.bad, next1Is]
  · simp at h
  · rename_i c d r hc ih
    have h' : scanBlock (d :: r) = none := by simpa using h
    have s1 : scanStep ⟨.blockComment, q, v, 0⟩ c (d :: r) = (⟨.blockComment, q, v, 0⟩, false) := by
      simp only [scanStep, next1Is]
      by_cases h1 : c = cStar
      · have : d ≠ cSlash := fun e => hc ⟨h1, e⟩
        simp [h1, this]
      · simp [h1]
    rw [mask, s1]; simp only
    exact ih h'

/-! line comments -/

theorem mask_line (q : UInt8) (v : Bool) (t : Bytes) :
    mask ⟨.lineComment, q, v, 0⟩ t =
      if cNewline ∈ t then
        (falses (scanLine t).1.length ++ (mask ⟨.sql, q, v, 0⟩ (scanLine t).2).1,
         (mask ⟨.sql, q, v, 0⟩ (scanLine t).2).2)
      else (falses t.length, ⟨.lineComment, q, v, 0⟩) := by
  induction t with
  | nil => simp [mask, falses]
  | cons c r ih =>
    rw [scanLine_cons]
    by_cases hc : c = cNewline
    · subst hc
      simp [mask, scanStep, falses]
    · have s1 : scanStep ⟨.lineComment, q, v, 0⟩ c r = (⟨.lineComment, q, v, 0⟩, false) := by
        simp [scanStep, hc]
      rw [mask, s1]; simp only
      rw [ih]
      have : (cNewline ∈ c :: r) ↔ cNewline ∈ r := by
        simp [List.mem_cons, Ne.symm hc]
      by_cases hm : cNewline ∈ r
      · simp [hm, hc, falses, List.replicate_succ]
      · simp [hm, hc, Ne.symm hc, falses, List.replicate_succ]

theorem scanLine_no_newline (t : Bytes) (h : cNewline ∉ t) : scanLine t = (t, []) := by
  induction t with
  | nil => rfl
  | cons c r ih =>
    have hc : c ≠ cNewline := fun e => h (by simp [e])
    have hr : cNewline ∉ r := fun e => h (by simp [e])
    rw [scanLine_cons, if_neg hc, ih hr]


/-! ### the simulation: scanner run = token stream -/

/-- What the scanner should record over one lexical element. -/
def tokMaskOne : Tok → List Bool
  | .param => [true]
  | t => falses t.len

def tokMask (ts : List Tok) : List Bool := ts.flatMap tokMaskOne

/-- The statement of the simulation for one (scanner result, lexer result) pair. -/
def Agree (o : Option (List Tok)) (M : List Bool × ScanSt) : Prop :=
  match o with
  | some toks => M.1 = tokMask toks ∧ M.2.bad = false
  | none => M.2.bad = true

theorem agree_cons (o : Option (List Tok)) (M : List Bool × ScanSt) (tok : Tok) (pre : List Bool)
    (hpre : pre = tokMaskOne tok) (h : Agree o M) :
    Agree (o.map (tok :: ·)) (pre ++ M.1, M.2) := by
  cases o with
  | none => simpa [Agree] using h
  | some toks =>
    simp only [Agree, Option.map_some] at h ⊢
    simp [tokMask, hpre, h.1, h.2]

theorem sim (fuel : Nat) : ∀ (text : Bytes) (v : Bool) (q0 : UInt8), text.length < fuel →
    Agree (lexF false fuel v text) (mask ⟨.sql, q0, v, 0⟩ text) := by
  induction fuel with
  | zero => intro text v q0 h; omega
  | succ n ih =>
    intro text v q0 hlen
    cases text with
    | nil => cases v <;> simp [lexF, mask, ScanSt.bad, tokMask, Agree]
    | cons c rest =>
      have hr : rest.length < n := by simp at hlen; omega
      rw [lexF]
      by_cases h1 : c = cSQuote ∨ c = cDQuote
      · -- string literal
        rw [if_pos h1]
        have s1 : scanStep ⟨.sql, q0, v, 0⟩ c rest = (⟨.string, c, v, 0⟩, false) := by
          rcases h1 with rfl | rfl <;> simp [scanStep]
        rw [mask, s1]; simp only
        cases hs : scanStr false c rest with
        | none =>
          simp only [Agree]
          exact mask_string_none c h1 v rest hs
        | some p =>
          obtain ⟨body, rest'⟩ := p
          simp only
          rw [mask_string c h1 v rest body rest' hs]
          have hsplit := scanStr_split false c rest body rest' hs
          have hlen' : rest'.length < n := by
            have := congrArg List.length hsplit
            simp at this; omega
          have := agree_cons _ _ (Tok.str c body) (false :: falses (body.length + 1)) (by
            simp [tokMaskOne, Tok.len, Tok.raw, falses, List.replicate_succ]) (ih rest' v c hlen')
          simpa using this
      · rw [if_neg h1]
        have h1a : c ≠ cSQuote := fun e => h1 (Or.inl e)
        have h1b : c ≠ cDQuote := fun e => h1 (Or.inr e)
        by_cases h2 : c = cBQuote
        · -- quoted identifier
          rw [if_pos h2]; subst h2
          have s1 : scanStep ⟨.sql, q0, v, 0⟩ cBQuote rest = (⟨.quotedIdent, q0, v, 0⟩, false) := by
            simp [scanStep, cBQuote, cDQuote, cSQuote]
          rw [mask, s1]; simp only
          cases hs : scanQIdent rest with
          | none =>
            simp only [Agree]
            exact mask_qident_none q0 v rest hs
          | some p =>
            obtain ⟨body, rest'⟩ := p
            simp only
            rw [mask_qident q0 v rest body rest' hs]
            have hsplit := scanQIdent_split rest body rest' hs
            have hlen' : rest'.length < n := by
              have := congrArg List.length hsplit
              simp at this; omega
            have := agree_cons _ _ (Tok.qident body) (false :: falses (body.length + 1)) (by
              simp [tokMaskOne, Tok.len, Tok.raw, falses, List.replicate_succ]) (ih rest' v q0 hlen')
            simpa using this
        · rw [if_neg h2]
          have hdd : dashComment rest = dashDashSpace rest := by
            unfold dashComment dashDashSpace isSpaceOrControl; rfl
          by_cases h3 : c = cHash ∨ (c = cDash ∧ dashComment rest = true)
          · -- line comment
            rw [if_pos h3]
            have s1 : scanStep ⟨.sql, q0, v, 0⟩ c rest = (⟨.lineComment, q0, v, 0⟩, false) := by
              rcases h3 with rfl | ⟨rfl, hd⟩
              · simp [scanStep, cHash, cBQuote, cDQuote, cSQuote]
              · rw [hdd] at hd
                simp [scanStep, cHash, cDash, cBQuote, cDQuote, cSQuote, hd]
            rw [mask, s1]; simp only
            rw [mask_line]
            have hsplit := scanLine_split rest
            have hlen' : (scanLine rest).2.length < n := by
              have := congrArg List.length hsplit
              simp at this; omega
            by_cases hm : cNewline ∈ rest
            · rw [if_pos hm]
              have := agree_cons _ _ (Tok.lineComment (c :: (scanLine rest).1))
                (false :: falses (scanLine rest).1.length) (by
                  simp [tokMaskOne, Tok.len, Tok.raw, falses, List.replicate_succ])
                (ih (scanLine rest).2 v q0 hlen')
              simpa using this
            · rw [if_neg hm]
              rw [scanLine_no_newline rest hm]
              simp only
              obtain ⟨m, rfl⟩ : ∃ m, n = m + 1 := ⟨n - 1, by omega⟩
              cases v <;> simp [lexF, Agree, tokMask, tokMaskOne, Tok.len, Tok.raw, falses, ScanSt.bad,
                List.replicate_succ]
          · rw [if_neg h3]
            have h3a : c ≠ cHash := fun e => h3 (Or.inl e)
            have h3b : ¬ (c = cDash ∧ dashDashSpace rest = true) := by
              rw [← hdd]; exact fun e => h3 (Or.inr e)
            by_cases h4 : c = cSlash ∧ rest.head? = some cStar
            · rw [if_pos h4]
              obtain ⟨rfl, hst⟩ := h4
              obtain ⟨rest1, rfl⟩ : ∃ rest1, rest = cStar :: rest1 := by
                cases rest with
                | nil => simp at hst
                | cons d r => simp at hst; exact ⟨r, by rw [hst]⟩
              by_cases h5 : (cStar :: rest1).tail.head? = some cBang
              · -- /*! : MySQL-specific code, the scanner goes on in SQL
                rw [if_pos h5]
                obtain ⟨rest2, rfl⟩ : ∃ rest2, rest1 = cBang :: rest2 := by
                  cases rest1 with
                  | nil => simp at h5
                  | cons d r => simp at h5; exact ⟨r, by rw [h5]⟩
                have s1 : scanStep ⟨.sql, q0, v, 0⟩ cSlash (cStar :: cBang :: rest2)
                    = (⟨.sql, q0, true, 2⟩, false) := by
                  simp [scanStep, next1Is, next2Is, cSlash, cHash, cDash, cBQuote, cDQuote, cSQuote]
                rw [mask, s1]; simp only
                rw [mask_skip, mask_skip]
                have hlen' : rest2.length < n := by simp at hr; omega
                have := agree_cons _ _ Tok.verOpen [false, false, false] (by
                  simp [tokMaskOne, Tok.len, Tok.raw, falses, List.replicate_succ]) (ih rest2 true q0 hlen')
                simpa using this
              · -- /* … */
                rw [if_neg h5]
                have h5' : next2Is (cStar :: rest1) cBang = false := by
                  cases rest1 with
                  | nil => rfl
                  | cons d r => simp at h5; simp [next2Is, h5]
                have s1 : scanStep ⟨.sql, q0, v, 0⟩ cSlash (cStar :: rest1)
                    = (⟨.blockComment, q0, v, 1⟩, false) := by
                  simp [scanStep, next1Is, h5', cSlash, cHash, cDash, cBQuote, cDQuote, cSQuote]
                rw [mask, s1]; simp only
                rw [mask_skip]
                simp only [List.tail_cons]
                cases hs : scanBlock rest1 with
                | none =>
                  simp only [Agree]
                  exact mask_block_none q0 v rest1 hs
                | some p =>
                  obtain ⟨body, rest'⟩ := p
                  simp only
                  rw [mask_block q0 v rest1 body rest' hs]
                  have hsplit := scanBlock_split rest1 body rest' hs
                  have hlen' : rest'.length < n := by
                    have := congrArg List.length hsplit
                    simp at this hr; omega
                  have := agree_cons _ _ (Tok.blockComment body) (false :: false :: falses (body.length + 2)) (by
                    simp [tokMaskOne, Tok.len, Tok.raw, falses, List.replicate_succ]) (ih rest' v q0 hlen')
                  simpa using this
            · rw [if_neg h4]
              have h4' : ¬ (c = cSlash ∧ next1Is rest cStar = true) := by
                intro ⟨e1, e2⟩; apply h4; refine ⟨e1, ?_⟩
                cases rest with
                | nil => simp [next1Is] at e2
                | cons d r => simp [next1Is] at e2; simp [e2]
              by_cases h6 : c = cStar ∧ v = true ∧ rest.head? = some cSlash
              · -- the */ that closes /*!
                rw [if_pos h6]
                obtain ⟨rfl, rfl, hsl⟩ := h6
                obtain ⟨rest1, rfl⟩ : ∃ rest1, rest = cSlash :: rest1 := by
                  cases rest with
                  | nil => simp at hsl
                  | cons d r => simp at hsl; exact ⟨r, by rw [hsl]⟩
                have s1 : scanStep ⟨.sql, q0, true, 0⟩ cStar (cSlash :: rest1)
                    = (⟨.sql, q0, false, 1⟩, false) := by
                  simp [scanStep, next1Is, cStar, cSlash, cHash, cDash, cBQuote, cDQuote, cSQuote]
                rw [mask, s1]; simp only
                rw [mask_skip]
                have hlen' : rest1.length < n := by simp at hr; omega
                have := agree_cons _ _ Tok.verClose [false, false] (by
                  simp [tokMaskOne, Tok.len, Tok.raw, falses, List.replicate_succ]) (ih rest1 false q0 hlen')
                simpa using this
              · rw [if_neg h6]
                have h6' : ¬ (c = cStar ∧ v = true ∧ next1Is rest cSlash = true) := by
                  intro ⟨e1, e2, e3⟩; apply h6; refine ⟨e1, e2, ?_⟩
                  cases rest with
                  | nil => simp [next1Is] at e3
                  | cons d r => simp [next1Is] at e3; simp [e3]
                by_cases h7 : c = cQMark
                · -- a parameter marker
                  rw [if_pos h7]; subst h7
                  have s1 : scanStep ⟨.sql, q0, v, 0⟩ cQMark rest = (⟨.sql, q0, v, 0⟩, true) := by
                    simp [scanStep, cQMark, cStar, cSlash, cHash, cDash, cBQuote, cDQuote, cSQuote]
                  rw [mask, s1]; simp only
                  have := agree_cons _ _ Tok.param [true] (by simp [tokMaskOne]) (ih rest v q0 hr)
                  simpa using this
                · rw [if_neg h7]
                  have s1 : scanStep ⟨.sql, q0, v, 0⟩ c rest = (⟨.sql, q0, v, 0⟩, false) := by
                    simp only [scanStep]
                    simp [h1a, h1b, h2, h3a, h3b, h4', h6', h7]
                  rw [mask, s1]; simp only
                  have := agree_cons _ _ (Tok.other c) [false] (by
                    simp [tokMaskOne, Tok.len, Tok.raw, falses]) (ih rest v q0 hr)
                  simpa using this

/-! ### the accumulators -/

/-- Offsets of the recorded bytes of a scanner run that starts at offset `i`. -/
def maskOffsets : Nat → List Bool → List Nat
  | _, [] => []
  | i, b :: m => if b then i :: maskOffsets (i + 1) m else maskOffsets (i + 1) m

/-- The items appended for a list of marker offsets, the current piece starting at `sub`. -/
def itemsFrom (sql : Bytes) (sub : Nat) : List Nat → List Bytes
  | [] => []
  | o :: os => (sql.drop sub).take (o - sub) :: [cQMark] :: itemsFrom sql (o + 1) os

/-- `subBeginIndex` after those markers. -/
def lastSub (sub : Nat) : List Nat → Nat
  | [] => sub
  | o :: os => lastSub (o + 1) os

theorem mask_length (s : ScanSt) (t : Bytes) : (mask s t).1.length = t.length := by
  induction t generalizing s with
  | nil => rfl
  | cons c r ih => simp [mask, ih]

theorem maskOffsets_bounds (i : Nat) (m : List Bool) :
    ∀ o ∈ maskOffsets i m, i ≤ o ∧ o < i + m.length := by
  induction m generalizing i with
  | nil => simp [maskOffsets]
  | cons b m ih =>
    intro o ho
    simp only [maskOffsets] at ho
    split at ho
    · simp at ho
      rcases ho with rfl | ho
      · simp
      · have := ih (i + 1) o ho; simp; omega
    · have := ih (i + 1) o ho; simp; omega

theorem lastSub_le (sub bound : Nat) (offs : List Nat) (hs : sub ≤ bound) (h : ∀ o ∈ offs, o < bound) :
    lastSub sub offs ≤ bound := by
  induction offs generalizing sub with
  | nil => simpa [lastSub]
  | cons o os ih =>
    simp only [lastSub]
    apply ih
    · have := h o (by simp); omega
    · intro o' ho'; exact h o' (by simp [ho'])

theorem goSlice_nat (sql : Bytes) (lo hi : Nat) (h1 : lo ≤ hi) (h2 : hi ≤ sql.length) :
    goSlice sql (lo : Int) (hi : Int) = .ok ((sql.drop lo).take (hi - lo)) := by
  unfold goSlice
  rw [if_pos (by omega)]
  have e1 : ((lo : Int)).toNat = lo := by omega
  have e2 : ((hi : Int) - (lo : Int)).toNat = hi - lo := by omega
  rw [e1, e2]

/-- The loop computes the scanner run, and its accumulators are determined by
    the offsets of the recorded bytes.  No slice expression panics. -/
theorem loop_eq (sql : Bytes) : ∀ (rest : Bytes) (i : Nat) (s : ScanSt) (a : Acc),
    i + rest.length = sql.length → a.subBeginIndex ≤ i →
    loop sql i rest s a = .ok ((mask s rest).2,
      { count := a.count + (maskOffsets i (mask s rest).1).length,
        offsets := a.offsets ++ maskOffsets i (mask s rest).1,
        sqlItems := a.sqlItems ++ itemsFrom sql a.subBeginIndex (maskOffsets i (mask s rest).1),
        subBeginIndex := lastSub a.subBeginIndex (maskOffsets i (mask s rest).1) }) := by
  intro rest
  induction rest with
  | nil => intro i s a _ _; simp [loop, mask, maskOffsets, itemsFrom, lastSub]
  | cons c r ih =>
    intro i s a hlen hsub
    simp only [List.length_cons] at hlen
    rw [loop]
    simp only [mask, maskOffsets]
    cases hb : (scanStep s c r).2 with
    | true =>
      simp only [if_true]
      rw [goSlice_nat sql a.subBeginIndex i hsub (by omega)]
      simp only [bind, R.bind]
      rw [ih (i + 1) _ _ (by omega) (by simp)]
      simp [itemsFrom, lastSub, Nat.add_assoc, Nat.add_comm 1]
    | false =>
      simp only [Bool.false_eq_true, if_false]
      rw [ih (i + 1) _ _ (by omega) (by omega)]


/-! ### the property -/

theorem maskOffsets_falses (i k : Nat) (m : List Bool) :
    maskOffsets i (falses k ++ m) = maskOffsets (i + k) m := by
  induction k generalizing i with
  | zero => simp [falses]
  | succ k ih =>
    simp only [falses, List.replicate_succ, List.cons_append, maskOffsets] at ih ⊢
    simp only [Bool.false_eq_true, if_false]
    rw [ih]; congr 1; omega

/-- The offsets recorded over a token stream are the offsets of its markers. -/
theorem maskOffsets_tokMask (i : Nat) (toks : List Tok) :
    maskOffsets i (tokMask toks) = paramOffsets i toks := by
  induction toks generalizing i with
  | nil => rfl
  | cons t ts ih =>
    cases t <;> simp only [tokMask, List.flatMap_cons, tokMaskOne, paramOffsets] at ih ⊢
    all_goals first
      | (rw [maskOffsets_falses]; exact ih _)
      | (simp only [List.cons_append, List.nil_append, maskOffsets, if_true]; rw [ih])

theorem cutItems_eq (text : Bytes) (sub : Nat) (offs : List Nat) :
    cutItems text sub offs =
      itemsFrom text sub offs ++
        (if lastSub sub offs ≠ text.length then [text.drop (lastSub sub offs)] else []) := by
  induction offs generalizing sub with
  | nil => simp only [cutItems, itemsFrom, lastSub, List.nil_append]; rfl
  | cons o os ih => simp only [cutItems, itemsFrom, lastSub, ih, List.cons_append]; rfl

/-- **C14.**  For every statement text, `CalcParams` returns an error exactly
    when the lexical grammar finds an unterminated string literal, quoted
    identifier or comment, and otherwise returns the number and the byte
    offsets of exactly the grammar's parameter markers — a `?` inside a string
    literal (after backslash-escaped or doubled quotes too), a quoted
    identifier or a comment is not one, every other `?` is — together with the
    statement text cut at those offsets. -/
theorem calcParams_eq_spec (text : Bytes) :
    calcParams text =
      match lex false text with
      | some toks =>
        .ok ((paramOffsets 0 toks).length, paramOffsets 0 toks, cutItems text 0 (paramOffsets 0 toks))
      | none => .fail := by
  unfold calcParams
  rw [loop_eq text text 0 ScanSt.init Acc.init (by simp) (by simp [Acc.init])]
  simp only [bind, R.bind, Acc.init, List.nil_append, Nat.zero_add]
  have hsim := sim (text.length + 1) text false 0 (by omega)
  unfold lex
  have hb := maskOffsets_bounds 0 (mask ScanSt.init text).1
  rw [mask_length] at hb
  have hle : lastSub 0 (maskOffsets 0 (mask ScanSt.init text).1) ≤ text.length :=
    lastSub_le 0 text.length _ (by omega) (fun o ho => by have := hb o ho; omega)
  have hinit : ScanSt.init = ⟨.sql, 0, false, 0⟩ := rfl
  rw [hinit] at hle ⊢
  cases hl : lexF false (text.length + 1) false text with
  | none =>
    rw [hl] at hsim
    simp only [Agree] at hsim
    split
    · rw [goSlice_nat _ _ _ hle (by omega)]; simp [pure, hsim]
    · simp [pure, hsim]
  | some toks =>
    rw [hl] at hsim
    simp only [Agree] at hsim
    obtain ⟨hm, hbad⟩ := hsim
    rw [hm, maskOffsets_tokMask] at hle ⊢
    simp only
    rw [cutItems_eq]
    split
    · rw [goSlice_nat _ _ _ hle (by omega)]
      have : ∀ k, List.take (text.length - k) (List.drop k text) = List.drop k text := by
        intro k; apply List.take_of_length_le; simp
      simp_all [pure]
    · simp_all [pure]


/-- `CalcParams` cannot panic: `sql[subBeginIndex:i]` and `sql[subBeginIndex:]`
    are always in range. -/
theorem calcParams_no_panic (text : Bytes) : calcParams text ≠ .panic := by
  rw [calcParams_eq_spec]; split <;> simp

/-- Read as a statement about offsets: a byte offset is reported by
    `CalcParams` iff the text is accepted by the lexical grammar and a
    parameter-marker element of its token stream starts there. -/
theorem calcParams_offsets (text : Bytes) (n : Nat) (offs : List Nat) (items : List Bytes)
    (h : calcParams text = .ok (n, offs, items)) :
    ∃ toks, lex false text = some toks ∧ rawOf toks = text ∧ n = offs.length ∧
      (∀ o, o ∈ offs ↔ ∃ pre post, toks = pre ++ Tok.param :: post ∧ o = (rawOf pre).length) ∧
      (∀ b, Tok.other b ∈ toks → b ≠ cQMark) := by
  rw [calcParams_eq_spec] at h
  cases hl : lex false text with
  | none => rw [hl] at h; simp at h
  | some toks =>
    rw [hl] at h
    simp only [R.ok.injEq, Prod.mk.injEq] at h
    obtain ⟨rfl, rfl, rfl⟩ := h
    refine ⟨toks, rfl, lex_raw _ _ _ hl, rfl, ?_, lexF_other_ne_qmark _ _ _ _ _ hl⟩
    intro o
    have := paramOffsets_iff 0 toks o
    simpa using this

/-- The items joined give back the statement text (so rewriting only ever
    replaces the `?` items). -/
theorem items_join (text : Bytes) (n : Nat) (offs : List Nat) (items : List Bytes)
    (h : calcParams text = .ok (n, offs, items)) : items.flatten = text := by
  rw [calcParams_eq_spec] at h
  cases hl : lex false text with
  | none => rw [hl] at h; simp at h
  | some toks =>
    rw [hl] at h
    simp only [R.ok.injEq, Prod.mk.injEq] at h
    obtain ⟨rfl, rfl, rfl⟩ := h
    have hraw := lex_raw _ _ _ hl
    have := markersAt_paramOffsets [] toks
    simp only [List.nil_append, List.length_nil, hraw] at this
    simpa using cutItems_flatten text 0 _ this

/-! ### the statements are not vacuous; the probed defects of the pinned tree -/

/-- ``select 'it\'s ?', `a?b`, ? -- ?⏎, ? /* ? */ # ?`` -/
def ex1 : Bytes := [0x73, 0x65, 0x6c, 0x65, 0x63, 0x74, 0x20, 0x27, 0x69, 0x74, 0x5c, 0x27, 0x73, 0x20, 0x3f, 0x27, 0x2c, 0x20, 0x60, 0x61, 0x3f, 0x62, 0x60, 0x2c, 0x20, 0x3f, 0x20, 0x2d, 0x2d, 0x20, 0x3f, 0x0a, 0x2c, 0x20, 0x3f, 0x20, 0x2f, 0x2a, 0x20, 0x3f, 0x20, 0x2a, 0x2f, 0x20, 0x23, 0x20, 0x3f]

/-- Two markers, at 25 and 34; the pinned code counted the `?` inside the literal
    (and failed), inside the quoted identifier and inside the comments. -/
example : calcParams ex1 = .ok (2, [25, 34],
    [[0x73, 0x65, 0x6c, 0x65, 0x63, 0x74, 0x20, 0x27, 0x69, 0x74, 0x5c, 0x27, 0x73, 0x20, 0x3f, 0x27, 0x2c, 0x20, 0x60, 0x61, 0x3f, 0x62, 0x60, 0x2c, 0x20], [cQMark],
     [0x20, 0x2d, 0x2d, 0x20, 0x3f, 0x0a, 0x2c, 0x20], [cQMark],
     [0x20, 0x2f, 0x2a, 0x20, 0x3f, 0x20, 0x2a, 0x2f, 0x20, 0x23, 0x20, 0x3f]]) := by decide

example : placeholders ex1 = some [25, 34] := by decide

/-- `'a''?' --? /*! ? */` : doubled quotes; `--` without a blank is not a comment;
    MySQL-specific code is SQL. -/
example : placeholders [0x27, 0x61, 0x27, 0x27, 0x3f, 0x27, 0x20, 0x2d, 0x2d, 0x3f, 0x20, 0x2f, 0x2a, 0x21, 0x20, 0x3f, 0x20, 0x2a, 0x2f] = some [9, 15] := by decide

/-- unterminated literal (`select 'abc ?`, `select 'a\`), identifier (``select `abc ?``),
    comment (`select 1 /* ?`): rejected -/
example : calcParams [0x73, 0x65, 0x6c, 0x65, 0x63, 0x74, 0x20, 0x27, 0x61, 0x62, 0x63, 0x20, 0x3f] = .fail := by decide
example : calcParams [0x73, 0x65, 0x6c, 0x65, 0x63, 0x74, 0x20, 0x27, 0x61, 0x5c] = .fail := by decide
example : calcParams [0x73, 0x65, 0x6c, 0x65, 0x63, 0x74, 0x20, 0x60, 0x61, 0x62, 0x63, 0x20, 0x3f] = .fail := by decide
example : calcParams [0x73, 0x65, 0x6c, 0x65, 0x63, 0x74, 0x20, 0x31, 0x20, 0x2f, 0x2a, 0x20, 0x3f] = .fail := by decide

end GaeaVerif.C14
