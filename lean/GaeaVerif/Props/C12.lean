import GaeaVerif.Model.LenEnc
/-
  C12 — Length-encoded wire values round-trip and decoding stays in bounds.
  Theorems about `Model/LenEnc.lean` (the tie to /repo/mysql/encoding.go is the
  correspondence check `gvh run C12`).
-/
namespace GaeaVerif.C12
open GaeaVerif GaeaVerif.LenEnc

/-! ### helper lemmas -/

theorem leBytes_length (i n : Nat) : (leBytes i n).length = n := by
  induction n generalizing i with
  | zero => rfl
  | succ n ih => simp [leBytes, ih]

theorem leNat_leBytes (n i : Nat) (h : i < 256 ^ n) : leNat (leBytes i n) = i := by
  induction n generalizing i with
  | zero => simp at h; subst h; rfl
  | succ n ih =>
    simp only [leBytes, leNat]
    have h2 : i / 256 < 256 ^ n := by
      rw [Nat.div_lt_iff_lt_mul (by decide)]; rw [Nat.pow_succ] at h; omega
    rw [ih _ h2]
    have : (UInt8.ofNat (i % 256)).toNat = i % 256 := by
      simp [UInt8.toNat_ofNat']
    rw [this]; omega

theorem goIdx_append (pre l suf : Bytes) (k : Nat) (hk : k < l.length) :
    goIdx (pre ++ l ++ suf) ((pre.length : Int) + k) = .ok (l.getD k 0) := by
  unfold goIdx
  have h1 : (0 : Int) ≤ (pre.length : Int) + k := by omega
  have h2 : (pre.length : Int) + k < ((pre ++ l ++ suf).length : Int) := by
    simp only [List.length_append]; omega
  rw [if_pos ⟨h1, h2⟩]
  have : ((pre.length : Int) + k).toNat = pre.length + k := by omega
  rw [this]
  simp [List.getD_eq_getElem?_getD, List.getElem?_append_left, List.getElem?_append_right, hk]

theorem goSlice_append (pre l suf : Bytes) :
    goSlice (pre ++ l ++ suf) pre.length ((pre.length : Int) + l.length) = .ok l := by
  unfold goSlice
  have h : (0 : Int) ≤ pre.length ∧ (pre.length : Int) ≤ (pre.length : Int) + l.length ∧
      (pre.length : Int) + l.length ≤ ((pre ++ l ++ suf).length : Int) := by
    simp only [List.length_append]; omega
  rw [if_pos h]
  have : ((pre.length : Int) + l.length - pre.length).toNat = l.length := by omega
  rw [this]
  simp [List.append_assoc]


/-! ### encoders -/

/-- `AppendLenEncInt` produces exactly `LenEncIntSize i` bytes. -/
theorem appendLenEncInt_length (i : Nat) : (appendLenEncInt i).length = lenEncIntSize i := by
  unfold appendLenEncInt lenEncIntSize
  repeat' split
  all_goals simp [leBytes_length]
  all_goals omega

/-- `WriteLenEncInt` and `AppendLenEncInt` produce the same bytes. -/
theorem write_eq_append (i : Nat) : writeLenEncInt i = appendLenEncInt i := by
  unfold appendLenEncInt writeLenEncInt
  have e1 : (i < 251) = (i ≤ 250) := by simp; omega
  have e2 : (i < 65536) = (i ≤ 0xffff) := by simp; omega
  have e3 : (i < 16777216) = (i ≤ 0xffffff) := by simp; omega
  simp only [e1, e2, e3]

theorem ofNat_toNat (i : Nat) (h : i < 256) : (UInt8.ofNat i).toNat = i := by
  simp [UInt8.toNat_ofNat']; omega

theorem u8_ne (i : Nat) (h : i < 256) (c : UInt8) (hc : i ≠ c.toNat) : ¬ (UInt8.ofNat i = c) := by
  intro e; apply hc; rw [← e, ofNat_toNat i h]

/-! ### round trips -/

/-- **C12 (integers).** Every 64-bit value, encoded by either writer
    (`write_eq_append`) and embedded anywhere in a buffer, is decoded to the
    same value, not NULL, and the reader advances by exactly `LenEncIntSize`. -/
theorem lenenc_int_roundtrip (pre suf : Bytes) (i : Nat) (hi : i < 2 ^ 64) :
    readLenEncInt (pre ++ appendLenEncInt i ++ suf) pre.length
      = .ok (i, (pre.length : Int) + lenEncIntSize i, false) := by
  have idx : ∀ (l : Bytes) (k : Nat), k < l.length →
      goIdx (pre ++ l ++ suf) ((pre.length : Int) + k) = .ok (l.getD k 0) :=
    fun l k hk => goIdx_append pre l suf k hk
  by_cases h1 : i ≤ 250
  · have e : appendLenEncInt i = [UInt8.ofNat i] := by unfold appendLenEncInt; simp [h1]
    have s : lenEncIntSize i = 1 := by unfold lenEncIntSize; rw [if_pos (by omega)]
    rw [e, s]
    have := idx [UInt8.ofNat i] 0 (by simp)
    simp only [Int.natCast_zero, Int.add_zero] at this
    unfold readLenEncInt
    rw [this]
    have n1 := u8_ne i (by omega) 0xfb (by simp; omega)
    have n2 := u8_ne i (by omega) 0xfc (by simp; omega)
    have n3 := u8_ne i (by omega) 0xfd (by simp; omega)
    have n4 := u8_ne i (by omega) 0xfe (by simp; omega)
    simp [n1, n2, n3, n4, ofNat_toNat i (by omega)]
    omega
  by_cases h2 : i ≤ 0xffff
  · have e : appendLenEncInt i = 0xfc :: leBytes i 2 := by unfold appendLenEncInt; simp [h1, h2]
    have s : lenEncIntSize i = 3 := by
      unfold lenEncIntSize; rw [if_neg (by omega), if_pos (by omega)]
    rw [e, s]
    have i0 := idx (0xfc :: leBytes i 2) 0 (by simp [leBytes_length])
    have i1 := idx (0xfc :: leBytes i 2) 1 (by simp [leBytes_length])
    have i2 := idx (0xfc :: leBytes i 2) 2 (by simp [leBytes_length])
    simp only [Int.natCast_zero, Int.add_zero] at i0
    have hl := leNat_leBytes 2 i (by omega)
    unfold readLenEncInt
    rw [i0]
    simp [leBytes] at hl i1 i2 ⊢
    rw [i1, i2]
    simp [leNat] at hl ⊢
    rw [if_neg (by omega), if_neg (by omega), hl]
  by_cases h3 : i ≤ 0xffffff
  · have e : appendLenEncInt i = 0xfd :: leBytes i 3 := by unfold appendLenEncInt; simp [h1, h2, h3]
    have s : lenEncIntSize i = 4 := by
      unfold lenEncIntSize; rw [if_neg (by omega), if_neg (by omega), if_pos (by omega)]
    rw [e, s]
    have i0 := idx (0xfd :: leBytes i 3) 0 (by simp [leBytes_length])
    have i1 := idx (0xfd :: leBytes i 3) 1 (by simp [leBytes_length])
    have i2 := idx (0xfd :: leBytes i 3) 2 (by simp [leBytes_length])
    have i3 := idx (0xfd :: leBytes i 3) 3 (by simp [leBytes_length])
    simp only [Int.natCast_zero, Int.add_zero] at i0
    have hl := leNat_leBytes 3 i (by omega)
    unfold readLenEncInt
    rw [i0]
    simp [leBytes] at hl i1 i2 i3 ⊢
    rw [i1, i2, i3]
    simp [leNat] at hl ⊢
    rw [if_neg (by omega), if_neg (by omega), hl]
  · have e : appendLenEncInt i = 0xfe :: leBytes i 8 := by unfold appendLenEncInt; simp [h1, h2, h3]
    have s : lenEncIntSize i = 9 := by
      unfold lenEncIntSize; rw [if_neg (by omega), if_neg (by omega), if_neg (by omega)]
    rw [e, s]
    have i0 := idx (0xfe :: leBytes i 8) 0 (by simp [leBytes_length])
    have i1 := idx (0xfe :: leBytes i 8) 1 (by simp [leBytes_length])
    have i2 := idx (0xfe :: leBytes i 8) 2 (by simp [leBytes_length])
    have i3 := idx (0xfe :: leBytes i 8) 3 (by simp [leBytes_length])
    have i4 := idx (0xfe :: leBytes i 8) 4 (by simp [leBytes_length])
    have i5 := idx (0xfe :: leBytes i 8) 5 (by simp [leBytes_length])
    have i6 := idx (0xfe :: leBytes i 8) 6 (by simp [leBytes_length])
    have i7 := idx (0xfe :: leBytes i 8) 7 (by simp [leBytes_length])
    have i8 := idx (0xfe :: leBytes i 8) 8 (by simp [leBytes_length])
    simp only [Int.natCast_zero, Int.add_zero] at i0
    have hl := leNat_leBytes 8 i (by omega)
    unfold readLenEncInt
    rw [i0]
    simp [leBytes] at hl i1 i2 i3 i4 i5 i6 i7 i8 ⊢
    rw [i1, i2, i3, i4, i5, i6, i7, i8]
    simp [leNat] at hl ⊢
    rw [if_neg (by omega), if_neg (by omega), hl]


/-- **C12 (strings).** Every byte string (shorter than 2^63 bytes) encoded by
    `AppendLenEncStringBytes` and embedded anywhere in a buffer is decoded to
    itself, and the reader stops right after it. -/
theorem lenenc_str_roundtrip (pre suf b : Bytes) (hb : b.length < 2 ^ 63) :
    readLenEncStringAsBytes (pre ++ appendLenEncStringBytes b ++ suf) pre.length
      = .ok (b, (pre.length : Int) + lenEncIntSize b.length + b.length, false) := by
  unfold readLenEncStringAsBytes appendLenEncStringBytes
  have e : pre ++ (appendLenEncInt b.length ++ b) ++ suf
      = pre ++ appendLenEncInt b.length ++ (b ++ suf) := by simp [List.append_assoc]
  rw [e, lenenc_int_roundtrip pre (b ++ suf) b.length (by omega)]
  simp only [R.bind_ok]
  have hu : u64ToInt b.length = (b.length : Int) := by unfold u64ToInt; rw [if_pos hb]
  rw [hu]
  have hlen := appendLenEncInt_length b.length
  have hcond : ¬ ((b.length : Int) < 0 ∨ (b.length : Int) >
      ((pre ++ appendLenEncInt b.length ++ (b ++ suf)).length : Int)
        - ((pre.length : Int) + lenEncIntSize b.length)) := by
    simp only [List.length_append, hlen]; omega
  rw [if_neg hcond]
  have e2 : pre ++ appendLenEncInt b.length ++ (b ++ suf)
      = (pre ++ appendLenEncInt b.length) ++ b ++ suf := by simp [List.append_assoc]
  have hp : ((pre.length : Int) + lenEncIntSize b.length)
      = (((pre ++ appendLenEncInt b.length).length : Nat) : Int) := by
    simp only [List.length_append, hlen]; omega
  rw [e2, hp, goSlice_append]
  rfl

/-! ### decoding stays in bounds

`InBounds d pos next val r` says: `r` is not a panic, and if it is a value then
the reader moved forward inside the buffer and what it returned is a slice of
the input lying between the old and the new position. -/

def InBounds {α : Type} (d : Bytes) (pos : Int) (next : α → Int) (val : α → Option Bytes) : R α → Prop
  | .ok a => 0 ≤ pos ∧ pos ≤ next a ∧ next a ≤ d.length ∧
      (∀ v, val a = some v → ∃ lo hi : Nat, (pos ≤ lo ∧ lo ≤ hi ∧ (hi : Int) ≤ next a) ∧ v = (d.drop lo).take (hi - lo))
  | .fail => True
  | .panic => False

theorem readLenEncInt_in_bounds (d : Bytes) (pos : Int) :
    InBounds d pos (fun x => x.2.1) (fun _ => none) (readLenEncInt d pos) := by
  unfold readLenEncInt goIdx
  simp only [bind, R.bind]
  repeat' split
  all_goals simp_all [InBounds]
  all_goals omega

theorem readByte_in_bounds (d : Bytes) (pos : Int) :
    InBounds d pos (fun x => x.2) (fun _ => none) (readByte d pos) := by
  unfold readByte goIdx
  simp only [bind, R.bind]
  repeat' split
  all_goals simp_all [InBounds]
  all_goals omega

theorem goSlice_ok (d : Bytes) (lo hi : Int) (h : 0 ≤ lo ∧ lo ≤ hi ∧ hi ≤ d.length) :
    goSlice d lo hi = .ok ((d.drop lo.toNat).take (hi.toNat - lo.toNat)) := by
  unfold goSlice; rw [if_pos h]
  have : (hi - lo).toNat = hi.toNat - lo.toNat := by omega
  rw [this]

theorem readBytes_in_bounds (d : Bytes) (pos size : Int) :
    InBounds d pos (fun x => x.2) (fun x => some x.1) (readBytes d pos size) := by
  unfold readBytes
  split
  · trivial
  · rename_i h
    rw [goSlice_ok d pos (pos + size) (by omega)]
    simp only [R.bind_ok, InBounds]
    refine ⟨by omega, by omega, by omega, ?_⟩
    intro v hv
    refine ⟨pos.toNat, (pos + size).toNat, by omega, ?_⟩
    simpa using hv.symm

theorem indexZero_lt (l : Bytes) (e : Nat) (h : indexZero l = some e) : e < l.length := by
  induction l generalizing e with
  | nil => simp [indexZero] at h
  | cons b bs ih =>
    simp only [indexZero] at h
    split at h
    · simp at h; subst h; simp
    · cases h2 : indexZero bs with
      | none => simp [h2] at h
      | some e' => simp [h2] at h; subst h; have := ih e' h2; simp; omega

theorem readNull_in_bounds (d : Bytes) (pos : Int) :
    InBounds d pos (fun x => x.2) (fun x => some x.1) (readNull d pos) := by
  unfold readNull
  split
  · trivial
  · rename_i h
    rw [goSlice_ok d pos d.length (by omega)]
    simp only [R.bind_ok]
    split
    · trivial
    · rename_i e he
      have hlt := indexZero_lt _ _ he
      simp only [List.length_take, List.length_drop] at hlt
      rw [goSlice_ok d pos (pos + e) (by omega)]
      simp only [R.bind_ok, InBounds]
      refine ⟨by omega, by omega, by omega, ?_⟩
      intro v hv
      refine ⟨pos.toNat, (pos + e).toNat, by omega, ?_⟩
      simpa using hv.symm

theorem readUintN_in_bounds (n : Nat) (d : Bytes) (pos : Int) :
    InBounds d pos (fun x => x.2) (fun _ => none) (readUintN n d pos) := by
  unfold readUintN
  split
  · trivial
  · rename_i h
    rw [goSlice_ok d pos (pos + n) (by omega)]
    simp only [R.bind_ok, InBounds]
    refine ⟨by omega, by omega, by omega, ?_⟩
    intro v hv; simp at hv

theorem readLenEncStringAsBytes_in_bounds (d : Bytes) (pos : Int) :
    InBounds d pos (fun x => x.2.1) (fun x => some x.1) (readLenEncStringAsBytes d pos) := by
  unfold readLenEncStringAsBytes
  have hb := readLenEncInt_in_bounds d pos
  cases hr : readLenEncInt d pos with
  | fail => trivial
  | panic => rw [hr] at hb; exact hb.elim
  | ok a =>
    obtain ⟨size, p, isNull⟩ := a
    rw [hr] at hb
    simp only [InBounds] at hb
    simp only [R.bind_ok]
    split
    · trivial
    · rename_i h
      rw [goSlice_ok d p (p + u64ToInt size) (by omega)]
      simp only [R.bind_ok, InBounds]
      refine ⟨by omega, by omega, by omega, ?_⟩
      intro v hv
      refine ⟨p.toNat, (p + u64ToInt size).toNat, by omega, ?_⟩
      simpa using hv.symm

theorem skipLenEncString_in_bounds (d : Bytes) (pos : Int) :
    InBounds d pos (fun x => x) (fun _ => none) (skipLenEncString d pos) := by
  unfold skipLenEncString
  have hb := readLenEncInt_in_bounds d pos
  cases hr : readLenEncInt d pos with
  | fail => trivial
  | panic => rw [hr] at hb; exact hb.elim
  | ok a =>
    obtain ⟨size, p, isNull⟩ := a
    rw [hr] at hb
    simp only [InBounds] at hb
    simp only [R.bind_ok]
    split
    · trivial
    · rename_i h
      simp only [InBounds]
      refine ⟨by omega, by omega, by omega, ?_⟩
      intro v hv; simp at hv

end GaeaVerif.C12
