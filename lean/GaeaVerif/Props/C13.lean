import GaeaVerif.Lemmas.C13Big
import GaeaVerif.Gen.Consts
/-
  C13 — Prepared-statement results carry the same values as the backend's
  text results.

  Model: `Model/BinRow.lean` (`RowData.ParseText`, `BuildBinaryResultset`,
  `integerFitsColumn`, `AppendBinaryValue`, `splitTextDate(time)`,
  `stringToMysqlTime`, `mysqlTimeToBinaryResult`, with the library functions
  they call).  Reference semantics: `Spec/BinProto.lean`
  (`denoteText`: the value a text cell denotes; `decodeBinRow`: an independent
  decoder of the binary row format).  Helper lemmas: `Lemmas/C13*.lean`.
  The tie to /repo/mysql is the correspondence check `gvh run C13` and the
  constants of `Gen/Consts.lean`.

  Rendering of the English property.  "Every row the backend returns in the text
  protocol" = `encodeTextRow cells` for any list of cells (NULL or a byte
  string), shorter than 2^62 bytes.  "Every value of that type" = the cells on
  which `denoteText` is defined (integers in the range of the column's width and
  signedness; `[-]digits[.digits]` decimals of any length; any byte string for
  string/blob/bit/enum/set/json columns; `YYYY-MM-DD` with month ≤ 12 and
  day ≤ 31, zero and partial dates included; `YYYY-MM-DD HH:MM:SS[.f{1,6}]`;
  `[-]H…:MM:SS[.f{1,6}]` up to 838 hours; floats: whatever text the opaque
  `parseFloat` accepts).  "Decodes to the same value or the proxy reports an
  error" = if the model returns `ok out` then the spec decoder reads `out`
  completely and yields, column by column, the denoted values (`sameRow`:
  decimals compared as numbers, everything else literally); the model's other
  outcome is `err kind`, never a panic (`no_panic`).

  Beyond the values of the type (second half of this file).  `readText`
  widens `denoteText` to every text that still reads as a number or a date (an
  integer of any magnitude, any two-digit month and day): `C13_row_exact`,
  `C13_resultset_exact`.  `serverRow` is the domain on which the proxy must
  deliver the value, not merely refrain from sending another one:
  `C13_row_delivered`, `C13_resultset_delivered`.  The column definitions
  (`Model/ColDef.lean`: `FieldData.Parse`, `writeColumnDefinition`, the whole
  COM_STMT_EXECUTE result `stmtResult`): `C13_coldef_forwarded`,
  `C13_stmt_result_correct`, `C13_stmt_result_delivered`.  Byte strings of any
  length: `big_cell_row`.  One open finding with its witness:
  `date_garbage_zero_witness`.

  Floats (assumption `FloatOpsOk`): IEEE arithmetic is not modelled; the three
  functions of `FloatOps` are parameters, so for FLOAT/DOUBLE columns the
  theorems say that the binary row carries exactly `toF32 (parseFloat text)` /
  `parseFloat text`, whatever these functions are, provided they return 32/64
  bit patterns.
-/
namespace GaeaVerif.C13
open GaeaVerif GaeaVerif.BinRow GaeaVerif.BinProto GaeaVerif.LenEnc GaeaVerif.ColDef

/-! ### tie to the source: constants and call structure (regenerated on every run) -/

/-- The column type numbers and the UNSIGNED flag the model and the spec are
    written against are those of /repo/mysql/type.go. -/
theorem type_codes_match :
    [Gen.c13TypeDecimal, Gen.c13TypeTiny, Gen.c13TypeShort, Gen.c13TypeLong, Gen.c13TypeFloat, Gen.c13TypeDouble,
     Gen.c13TypeNull, Gen.c13TypeTimestamp, Gen.c13TypeLonglong, Gen.c13TypeInt24, Gen.c13TypeDate,
     Gen.c13TypeDuration, Gen.c13TypeDatetime, Gen.c13TypeYear, Gen.c13TypeNewDate, Gen.c13TypeVarchar,
     Gen.c13TypeBit, Gen.c13TypeJSON, Gen.c13TypeNewDecimal, Gen.c13TypeEnum, Gen.c13TypeSet,
     Gen.c13TypeTinyBlob, Gen.c13TypeMediumBlob, Gen.c13TypeLongBlob, Gen.c13TypeBlob, Gen.c13TypeVarString,
     Gen.c13TypeString, Gen.c13TypeGeometry, Gen.c13UnsignedFlag]
    = [TypeDecimal, TypeTiny, TypeShort, TypeLong, TypeFloat, TypeDouble, TypeNull, TypeTimestamp, TypeLonglong,
       TypeInt24, TypeDate, TypeDuration, TypeDatetime, TypeYear, TypeNewDate, TypeVarchar, TypeBit, TypeJSON,
       TypeNewDecimal, TypeEnum, TypeSet, TypeTinyBlob, TypeMediumBlob, TypeLongBlob, TypeBlob, TypeVarString,
       TypeString, TypeGeometry, UnsignedFlag] := by decide

/-- Both writers of a COM_STMT_EXECUTE result (`Session.writeResponse`,
    `ClientConn.writeOKResultStream`) convert the result with
    `BuildBinaryResultSet` when the response is binary. -/
theorem binary_writers_convert :
    Gen.c13WriteResponseBuildsBinary = true ∧ Gen.c13ResultStreamBuildsBinary = true := by decide

set_option maxRecDepth 20000 in
/-- The tables of the encoder model are those of the source: the column types
    the append phase of `AppendBinaryValue` sends as length-encoded strings and
    the ones it appends as they are; `BuildBinaryResultset` guards
    `AppendBinaryValue` by `integerFitsColumn`; `writeColumnDefinition` writes,
    after the 0x0c byte, character set (2), column length (4), type (1), flags
    (2), decimals (1) and two zero bytes — the layout of `ColDef.writeColumnDefinition`
    and of the spec's `columnDefTail`. -/
theorem encoder_tables_match :
    (List.range 256).all (fun ty => isLenEncFieldType ty == Gen.c13LenEncAppendTypes.contains ty) = true
    ∧ (List.range 256).all (fun ty => isRawFieldType ty == Gen.c13RawAppendTypes.contains ty) = true
    ∧ Gen.c13BuildChecksIntegerRange = true
    ∧ Gen.c13ColumnDefFixedPart
        = [("Charset", 2), ("ColumnLength", 4), ("Type", 1), ("Flag", 2), ("Decimal", 1), ("0", 2)] := by
  refine ⟨by decide, by decide, by decide, by decide⟩

/-! ### the null bitmap -/

/-- **Null bitmap.** A binary row is `0x00`, a bitmap of `(n + 7 + 2) / 8` bytes
    and the payload; bit `i + 2` of the bitmap is set iff column `i` is NULL —
    for any number of columns. -/
theorem bitmap_correct (ops : FloatOps) (fields : List Field) (vals : List GoVal) (out : Bytes)
    (h : buildBinaryRow ops fields vals = .ok out) :
    ∃ (bm payload : Bytes), out = 0 :: (bm ++ payload) ∧ bm.length = (fields.length + 7 + 2) / 8
      ∧ ∀ i, nullBit bm i = decide (vals[i]? = some GoVal.nil) := by
  obtain ⟨bm, enc, h1, h2, _, _, h5⟩ := buildBinaryRow_shape ops fields vals out h
  exact ⟨bm, enc, h1, h2, h5⟩

example : buildBinaryRow ⟨fun _ => none, fun _ => 0, fun _ => []⟩
    [⟨TypeTiny, 0⟩, ⟨TypeLong, 0⟩, ⟨TypeTiny, 0⟩, ⟨TypeTiny, 0⟩, ⟨TypeTiny, 0⟩, ⟨TypeTiny, 0⟩, ⟨TypeTiny, 0⟩]
    [.nil, .i64 7, .nil, .nil, .nil, .nil, .nil] = .ok [0, 0xf4, 0x01, 7, 0, 0, 0] := by decide

/-! ### one column, per type family -/

/-- **Integers** of every width and signedness (TINY, SHORT, YEAR, LONG, INT24,
    LONGLONG): a text integer in the range of the column type is sent as the
    little-endian bytes the decoder reads back as the same integer. -/
theorem enc_dec_int (ops : FloatOps) (ty flag w : Nat) (cell : Bytes) (x : Int) (v : GoVal) (b rest : Bytes)
    (hwid : intWidth ty = some w) (hx : intText cell = some x)
    (hr : inIntRange w (Field.isUnsigned ⟨ty, flag⟩) x = true)
    (hpt : parseTextValue ops ⟨ty, flag⟩ cell = .ok v)
    (habv : appendBinaryValue ops ty v = .ok b) :
    decodeValue ⟨ty, flag⟩ (b ++ rest) = some (.int x, rest) :=
  int_col ops ty flag w cell x v b rest hwid hx hr hpt habv

example : intWidth TypeLonglong = some 8 ∧ intText [45, 49] = some (-1) ∧ inIntRange 8 false (-1) = true
    ∧ parseTextValue ⟨fun _ => none, fun _ => 0, fun _ => []⟩ ⟨TypeLonglong, 0⟩ [45, 49] = .ok (.i64 (-1))
    ∧ appendBinaryValue ⟨fun _ => none, fun _ => 0, fun _ => []⟩ TypeLonglong (.i64 (-1))
        = .ok [255, 255, 255, 255, 255, 255, 255, 255] := by decide

/-- **Decimals**: what `decimal.NewFromString` + `Decimal.String()` produce for
    a `[-]digits[.digits]` text of any length reads back as the same number. -/
theorem enc_dec_decimal (cell : Bytes) (u : Int) (sc : Nat) (v e : Int)
    (hd : decimalText cell = some (u, sc)) (hn : newFromString cell = some (v, e)) :
    ∃ u' sc', decimalText (decimalString v e) = some (u', sc') ∧ u' * 10 ^ sc = u * 10 ^ sc' :=
  (decimal_cell_roundtrip cell u sc v e hd hn).1

example : decimalText [45, 48, 48, 55, 46, 53, 48] = some (-750, 2)
    ∧ newFromString [45, 48, 48, 55, 46, 53, 48] = some (-750, -2)
    ∧ decimalString (-750) (-2) = [45, 55, 46, 53] := by decide

/-- **Strings, blobs, BIT, ENUM, SET, JSON**: sent as a length-encoded string
    holding exactly the cell's bytes (or refused: GEOMETRY). -/
theorem enc_dec_bytes (ops : FloatOps) (ty flag : Nat) (cell : Bytes) (v : GoVal) (b rest : Bytes)
    (hty : isBytesType ty = true) (hlen : cell.length < 2 ^ 64)
    (hpt : parseTextValue ops ⟨ty, flag⟩ cell = .ok v)
    (habv : appendBinaryValue ops ty v = .ok b) :
    decodeValue ⟨ty, flag⟩ (b ++ rest) = some (.bytes cell, rest) :=
  bytes_col ops ty flag cell v b rest hty hlen hpt habv

example : isBytesType TypeEnum = true
    ∧ parseTextValue ⟨fun _ => none, fun _ => 0, fun _ => []⟩ ⟨TypeEnum, 0⟩ [97] = .ok (.bytes [97])
    ∧ appendBinaryValue ⟨fun _ => none, fun _ => 0, fun _ => []⟩ TypeEnum (.bytes [97]) = .ok [1, 97] := by decide

/-- **DATE / NEWDATE**: every `YYYY-MM-DD` (month ≤ 12, day ≤ 31; zero and
    partial dates and dates outside the calendar included) is sent as that date. -/
theorem enc_dec_date (cell rest : Bytes) (dv : Val) (h : dateText cell = some dv) :
    decodeDate (dateBytes cell ++ rest) = some (dv, rest) :=
  date_enc_dec cell rest dv h

example : dateText [50, 48, 50, 48, 45, 48, 48, 45, 48, 48] = some (.dt 2020 0 0 0 0 0 0)
    ∧ dateBytes [50, 48, 50, 48, 45, 48, 48, 45, 48, 48] = [4, 228, 7, 0, 0] := by decide

/-- **DATETIME / TIMESTAMP** with 0–6 fractional digits: sent as that instant,
    or refused. -/
theorem enc_dec_datetime (cell rest b : Bytes) (dv : Val) (h : datetimeText cell = some dv)
    (hb : datetimeBytes cell = .ok b) : decodeDate (b ++ rest) = some (dv, rest) :=
  datetime_enc_dec cell rest b dv h hb

/-- **TIME**, negative and beyond 24 h, with 0–6 fractional digits: sent as the
    same signed duration, or refused. -/
theorem enc_dec_time (cell rest b : Bytes) (dv : Val) (h : timeText cell = some dv)
    (hb : durationBytes cell = .ok b) : decodeTime (b ++ rest) = some (dv, rest) :=
  time_enc_dec cell rest b dv h hb

example : timeText [45, 56, 51, 56, 58, 53, 57, 58, 53, 57, 46, 53] = some (.time (-3020399500000))
    ∧ durationBytes [45, 56, 51, 56, 58, 53, 57, 58, 53, 57, 46, 53]
        = .ok [12, 1, 34, 0, 0, 0, 22, 59, 59, 32, 161, 7, 0] := by decide

/-- **FLOAT** (under `FloatOpsOk`): the row carries `toF32 (parseFloat text)`. -/
theorem enc_dec_float (ops : FloatOps) (hops : FloatOpsOk ops) (flag : Nat) (cell : Bytes) (d : Val) (v : GoVal)
    (b rest : Bytes)
    (hden : (ops.parseFloat cell).map (fun b => Val.f32 (ops.toF32 b)) = some d)
    (hpt : parseTextValue ops ⟨TypeFloat, flag⟩ cell = .ok v)
    (habv : appendBinaryValue ops TypeFloat v = .ok b) :
    decodeValue ⟨TypeFloat, flag⟩ (b ++ rest) = some (d, rest) :=
  float_col ops hops flag cell d v b rest hden hpt habv

/-- **DOUBLE** (under `FloatOpsOk`): the row carries `parseFloat text`. -/
theorem enc_dec_double (ops : FloatOps) (hops : FloatOpsOk ops) (flag : Nat) (cell : Bytes) (d : Val) (v : GoVal)
    (b rest : Bytes)
    (hden : (ops.parseFloat cell).map Val.f64 = some d)
    (hpt : parseTextValue ops ⟨TypeDouble, flag⟩ cell = .ok v)
    (habv : appendBinaryValue ops TypeDouble v = .ok b) :
    decodeValue ⟨TypeDouble, flag⟩ (b ++ rest) = some (d, rest) :=
  double_col ops hops flag cell d v b rest hden hpt habv

/-- **Any column.** A non-NULL cell that is a value of its column's type (any
    type code, any flag word), converted by `ParseText` and encoded by
    `AppendBinaryValue`, is decoded to the same value, and the decoder stops
    exactly at the end of the encoding (so later columns are not shifted). -/
theorem C13_col_correct (ops : FloatOps) (hops : FloatOpsOk ops) (f : Field) (cell : Bytes) (d : Val) (v : GoVal)
    (b rest : Bytes) (hlen : cell.length < 2 ^ 62)
    (hden : denoteText ops f (some cell) = some d)
    (hpt : parseTextValue ops f cell = .ok v)
    (habv : appendBinaryValue ops f.typ v = .ok b) :
    ∃ v', decodeValue f (b ++ rest) = some (v', rest) ∧ Val.same v' d = true :=
  col_correct ops hops f cell d v b rest hlen hden hpt habv

/-! ### rows and resultsets -/

/-- **C13, one row.** For every column list and every text-protocol row whose
    cells are values of their columns' types (NULL allowed anywhere): if the
    proxy produces a binary row at all, that row decodes — per the binary
    protocol, completely, with nothing left over — to the same value in every
    column. -/
theorem C13_row_correct (ops : FloatOps) (hops : FloatOpsOk ops) (fields : List Field)
    (cells : List (Option Bytes)) (ds : List Val) (out : Bytes)
    (hlen : (encodeTextRow cells).length < 2 ^ 62)
    (hden : denoteRow ops fields cells = some ds)
    (hout : rowToBinary ops fields (encodeTextRow cells) = .ok out) :
    ∃ vs, decodeBinRow fields out = some vs ∧ sameRow vs ds = true := by
  have hcnt := denoteRow_len ops fields cells ds hden
  unfold rowToBinary at hout
  rw [parseText_encode ops fields cells hcnt (by omega)] at hout
  cases hc : convertCells ops fields cells with
  | err e => simp [hc] at hout
  | ok vals =>
    simp only [hc] at hout
    obtain ⟨bm, enc, hshape, hbl, hvl, henc, hbits⟩ := buildBinaryRow_shape ops fields vals out hout
    obtain ⟨vs, hdec, hsame⟩ := decodeCols_correct ops hops fields cells vals enc ds [] hc henc hden
      (fun v hv => by have := cell_len_le cells v hv; omega)
    refine ⟨vs, ?_, hsame⟩
    subst hshape
    unfold decodeBinRow
    simp only
    rw [takeN_append' bm enc _ hbl.symm]
    have hn : (List.range fields.length).map (nullBit bm) = nullFlags vals := by
      rw [← hvl, ← range_nullFlags]
      apply List.map_congr_left
      intro i _; exact hbits i
    simp only [hn]
    rw [List.append_nil] at hdec
    rw [hdec]

/-- A row mixing all type families, with a NULL, a partial date, a negative
    time beyond 24 h, the largest unsigned BIGINT and an ENUM. -/
def exOps : FloatOps := { parseFloat := fun _ => none, toF32 := fun _ => 0, formatFloat := fun _ => [] }
def exFields : List Field :=
  [⟨TypeTiny, 0⟩, ⟨TypeNewDecimal, 0⟩, ⟨TypeEnum, 0⟩, ⟨TypeDate, 0⟩, ⟨TypeDuration, 0⟩, ⟨TypeLonglong, 32⟩,
   ⟨TypeDatetime, 0⟩, ⟨TypeSet, 256⟩]
def exCells : List (Option Bytes) :=
  [some [45, 49, 50, 56],                                               -- -128
   some [48, 49, 46, 53, 48],                                           -- 01.50
   none,
   some [50, 48, 50, 48, 45, 48, 48, 45, 48, 48],                       -- 2020-00-00
   some [45, 56, 51, 56, 58, 53, 57, 58, 53, 57, 46, 53],               -- -838:59:59.5
   some [49, 56, 52, 52, 54, 55, 52, 52, 48, 55, 51, 55, 48, 57, 53, 53, 49, 54, 49, 53],  -- 2^64-1
   some [50, 48, 50, 52, 45, 49, 50, 45, 50, 51, 32, 49, 48, 58, 50, 48, 58, 51, 48, 46, 49, 50, 51],
   some [97, 44, 98]]                                                   -- a,b

example : FloatOpsOk exOps := ⟨fun _ => by simp [exOps], fun _ _ h => by simp [exOps] at h⟩

example : (encodeTextRow exCells).length < 2 ^ 62
    ∧ denoteRow exOps exFields exCells = some [.int (-128), .dec 150 2, .null, .dt 2020 0 0 0 0 0 0,
        .time (-3020399500000), .int 18446744073709551615, .dt 2024 12 23 10 20 30 123000, .bytes [97, 44, 98]]
    ∧ rowToBinary exOps exFields (encodeTextRow exCells) = .ok
        [0, 16, 0, 128, 3, 49, 46, 53, 4, 228, 7, 0, 0, 12, 1, 34, 0, 0, 0, 22, 59, 59, 32, 161, 7, 0,
         255, 255, 255, 255, 255, 255, 255, 255, 11, 232, 7, 12, 23, 10, 20, 30, 120, 224, 1, 0, 3, 97, 44, 98] := by
  decide

/-- `rowsToBinary` treats the rows one by one. -/
theorem rowsToBinary_rows (ops : FloatOps) (fields : List Field) (rows outs : List Bytes)
    (h : rowsToBinary ops fields rows = .ok outs) :
    List.Forall₂ (fun row out => rowToBinary ops fields row = .ok out) rows outs := by
  induction rows generalizing outs with
  | nil =>
    simp [rowsToBinary, parseRows, buildBinaryResultset] at h
    subst h; exact List.Forall₂.nil
  | cons p ps ih =>
    unfold rowsToBinary at h
    simp only [parseRows] at h
    cases hp : parseText ops p fields with
    | err e => simp [hp] at h
    | ok v =>
      cases hps : parseRows ops fields ps with
      | err e => simp [hp, hps] at h
      | ok vs =>
        simp only [hp, hps, buildBinaryResultset] at h
        cases hb : buildBinaryRow ops fields v with
        | err e => simp [hb] at h
        | ok r =>
          cases hbs : buildBinaryResultset ops fields vs with
          | err e => simp [hb, hbs] at h
          | ok rs =>
            simp only [hb, hbs, Res.ok.injEq] at h
            subst h
            refine List.Forall₂.cons ?_ (ih rs ?_)
            · simp [rowToBinary, hp, hb]
            · simp [rowsToBinary, hps, hbs]

/-- **C13, a whole resultset.** If the proxy builds binary rows for the text
    rows of a resultset, there is one binary row per text row, in order, and
    every text row all of whose cells are values of their columns' types is
    carried by a binary row that decodes to the same values. -/
theorem C13_resultset_correct (ops : FloatOps) (hops : FloatOpsOk ops) (fields : List Field)
    (rows : List (List (Option Bytes))) (outs : List Bytes)
    (hout : rowsToBinary ops fields (rows.map encodeTextRow) = .ok outs) :
    List.Forall₂ (fun cells out => ∀ ds, (encodeTextRow cells).length < 2 ^ 62 →
        denoteRow ops fields cells = some ds →
        ∃ vs, decodeBinRow fields out = some vs ∧ sameRow vs ds = true) rows outs := by
  have h := rowsToBinary_rows ops fields _ outs hout
  clear hout
  induction rows generalizing outs with
  | nil => cases h; exact List.Forall₂.nil
  | cons cells rest ih =>
    rw [List.map_cons] at h
    cases h with
    | cons h1 h2 =>
      exact List.Forall₂.cons (fun ds hlen hden => C13_row_correct ops hops fields cells ds _ hlen hden h1) (ih _ h2)

/-! ### errors, never panics -/

/-- **No panic.** On every input (any bytes as a row, any columns) the
    conversion returns binary rows or an error kind; no index or slice
    expression of `ParseText`/`BuildBinaryResultset` can go out of range. -/
theorem no_panic (ops : FloatOps) (fields : List Field) (rows : List Bytes) :
    rowsToBinary ops fields rows ≠ .err .panic := by
  have hrow : ∀ v, buildBinaryRow ops fields v ≠ .err .panic := by
    intro v
    unfold buildBinaryRow
    split
    · simp
    · rename_i hl
      simp only [ne_eq, Decidable.not_not] at hl
      have := buildRowLoop_no_panic ops fields v 0 [] (List.replicate ((fields.length + 7 + 2) / 8) 0) hl
        (by simp only [List.length_replicate]; omega)
      simp only
      split
      · rename_i e heq
        intro h
        simp only [Res.err.injEq] at h
        subst h
        exact this heq
      · simp
  have hbuild : ∀ vs, buildBinaryResultset ops fields vs ≠ .err .panic := by
    intro vs
    induction vs with
    | nil => simp [buildBinaryResultset]
    | cons v vs ih =>
      simp only [buildBinaryResultset]
      have h1 := hrow v
      cases hb : buildBinaryRow ops fields v with
      | err e => rw [hb] at h1; simpa using h1
      | ok r =>
        cases hbs : buildBinaryResultset ops fields vs with
        | err e => rw [hbs] at ih; simpa using ih
        | ok rs => simp
  have hparse : ∀ ps, parseRows ops fields ps ≠ .err .panic := by
    intro ps
    induction ps with
    | nil => simp [parseRows]
    | cons p ps ih =>
      simp only [parseRows]
      have h1 := parseTextLoop_no_panic ops p fields 0
      cases hp : parseText ops p fields with
      | err e => unfold parseText at hp; rw [hp] at h1; simpa using h1
      | ok v =>
        cases hps : parseRows ops fields ps with
        | err e => rw [hps] at ih; simpa using ih
        | ok vs => simp
  unfold rowsToBinary
  cases hp : parseRows ops fields rows with
  | err e => have := hparse rows; rw [hp] at this; simpa using this
  | ok vals => exact hbuild vals

/-! ### what the text says, also outside the column type's range

  `C13_row_correct` speaks about the values of a column type.  The statements
  below widen the domain to every text that still reads as a number or a date
  (`readText`: an integer of any magnitude, a date or datetime with any
  two-digit month and day): whatever the proxy sends for such a row decodes to
  what the text says — an integer the column's width cannot carry is refused
  (`integerFitsColumn`), never sent as its low bytes. -/

/-- **Integers of any magnitude.** A text integer that `ParseText` accepts and
    that passes the range check of `BuildBinaryResultset` is sent as the bytes
    the decoder reads back as the same integer; no hypothesis on its range. -/
theorem enc_dec_int_checked (ops : FloatOps) (ty flag w : Nat) (cell : Bytes) (x : Int) (v : GoVal) (b rest : Bytes)
    (hwid : intWidth ty = some w) (hx : intText cell = some x)
    (hpt : parseTextValue ops ⟨ty, flag⟩ cell = .ok v)
    (hfit : integerFitsColumn ⟨ty, flag⟩ v = true)
    (habv : appendBinaryValue ops ty v = .ok b) :
    decodeValue ⟨ty, flag⟩ (b ++ rest) = some (.int x, rest) :=
  int_col ops ty flag w cell x v b rest hwid hx (fits_range ops ty flag w cell x v hwid hx hpt hfit) hpt habv

/-- TINYINT UNSIGNED 200 travels as 0xc8 and is read back as 200; a signed
    TINYINT column refuses it. -/
example : parseTextValue exOps ⟨TypeTiny, 32⟩ [50, 48, 48] = .ok (.u64 200)
    ∧ integerFitsColumn ⟨TypeTiny, 32⟩ (.u64 200) = true
    ∧ appendBinaryValue exOps TypeTiny (.u64 200) = .ok [200]
    ∧ decodeValue ⟨TypeTiny, 32⟩ [200] = some (.int 200, [])
    ∧ parseTextValue exOps ⟨TypeTiny, 0⟩ [50, 48, 48] = .ok (.i64 200)
    ∧ integerFitsColumn ⟨TypeTiny, 0⟩ (.i64 200) = false := by decide

/-- **C13, one row, wide reading.** If the proxy produces a binary row for a
    text row every cell of which reads as something (`readRow`), that row
    decodes completely and to what the text says in every column. -/
theorem C13_row_exact (ops : FloatOps) (hops : FloatOpsOk ops) (fields : List Field)
    (cells : List (Option Bytes)) (ds : List Val) (out : Bytes)
    (hlen : (encodeTextRow cells).length < 2 ^ 62)
    (hden : readRow ops fields cells = some ds)
    (hout : rowToBinary ops fields (encodeTextRow cells) = .ok out) :
    ∃ vs, decodeBinRow fields out = some vs ∧ sameRow vs ds = true := by
  have hcnt := readRow_len ops fields cells ds hden
  unfold rowToBinary at hout
  rw [parseText_encode ops fields cells hcnt (by omega)] at hout
  cases hc : convertCells ops fields cells with
  | err e => simp [hc] at hout
  | ok vals =>
    simp only [hc] at hout
    obtain ⟨bm, enc, hshape, hbl, hvl, henc, hbits⟩ := buildBinaryRow_shape ops fields vals out hout
    obtain ⟨vs, hdec, hsame⟩ := decodeCols_exact ops hops fields cells vals enc ds [] hc henc hden
      (fun v hv => by have := cell_len_le cells v hv; omega)
    refine ⟨vs, ?_, hsame⟩
    subst hshape
    unfold decodeBinRow
    simp only
    rw [takeN_append' bm enc _ hbl.symm]
    have hn : (List.range fields.length).map (nullBit bm) = nullFlags vals := by
      rw [← hvl, ← range_nullFlags]
      apply List.map_congr_left
      intro i _; exact hbits i
    simp only [hn]
    rw [List.append_nil] at hdec
    rw [hdec]

/-- 300 in a TINYINT column, 2020-13-45 in a DATE column: the first row is
    refused, the second is sent as it is spelt. -/
example : readRow exOps [⟨TypeTiny, 0⟩] [some [51, 48, 48]] = some [.int 300]
    ∧ rowToBinary exOps [⟨TypeTiny, 0⟩] (encodeTextRow [some [51, 48, 48]]) = .err .intRange := by decide

set_option maxRecDepth 4000 in
example : readRow exOps [⟨TypeDate, 0⟩] [some [50, 48, 50, 48, 45, 49, 51, 45, 52, 53]] = some [.dt 2020 13 45 0 0 0 0]
    ∧ rowToBinary exOps [⟨TypeDate, 0⟩] (encodeTextRow [some [50, 48, 50, 48, 45, 49, 51, 45, 52, 53]])
        = .ok [0, 0, 4, 228, 7, 13, 45] := by decide

/-- **C13, a whole resultset, wide reading.** -/
theorem C13_resultset_exact (ops : FloatOps) (hops : FloatOpsOk ops) (fields : List Field)
    (rows : List (List (Option Bytes))) (outs : List Bytes)
    (hout : rowsToBinary ops fields (rows.map encodeTextRow) = .ok outs) :
    List.Forall₂ (fun cells out => ∀ ds, (encodeTextRow cells).length < 2 ^ 62 →
        readRow ops fields cells = some ds →
        ∃ vs, decodeBinRow fields out = some vs ∧ sameRow vs ds = true) rows outs := by
  have h := rowsToBinary_rows ops fields _ outs hout
  clear hout
  induction rows generalizing outs with
  | nil => cases h; exact List.Forall₂.nil
  | cons cells rest ih =>
    rw [List.map_cons] at h
    cases h with
    | cons h1 h2 =>
      exact List.Forall₂.cons (fun ds hlen hden => C13_row_exact ops hops fields cells ds _ hlen hden h1) (ih _ h2)

/-- The wide reading extends the values of the type: `C13_row_correct` is the
    restriction of `C13_row_exact` to `denoteRow`. -/
theorem denote_le_read (ops : FloatOps) (fields : List Field) (cells : List (Option Bytes)) (ds : List Val)
    (h : denoteRow ops fields cells = some ds) : readRow ops fields cells = some ds :=
  denoteRow_sub_readRow ops fields cells ds h

/-! ### delivery: values a server sends are not answered with an error -/

/-- **C13, delivery of one row.** For every column list and every row of values
    of the columns' types in a server's spelling (`serverRow`: every type code
    the binary protocol has an encoding for — all integer widths and
    signednesses, FLOAT/DOUBLE texts the float parser accepts, both DECIMAL
    codes, all string/blob/BIT/ENUM/SET/JSON/GEOMETRY codes, DATE, DATETIME and
    TIMESTAMP including zero, partial and out-of-calendar dates with 0–6
    fractional digits, TIME to ±838 h) with cells shorter than 2 GiB, the proxy
    does produce a binary row, and it decodes to the same values. -/
theorem C13_row_delivered (ops : FloatOps) (hops : FloatOpsOk ops) (fields : List Field)
    (cells : List (Option Bytes))
    (hs : serverRow ops fields cells = true) (hcell : ∀ v, some v ∈ cells → v.length < 2 ^ 31)
    (hlen : (encodeTextRow cells).length < 2 ^ 62) :
    ∃ out ds vs, rowToBinary ops fields (encodeTextRow cells) = .ok out ∧ denoteRow ops fields cells = some ds
      ∧ decodeBinRow fields out = some vs ∧ sameRow vs ds = true := by
  obtain ⟨out, hout⟩ := row_total ops fields cells hs hcell (by omega)
  obtain ⟨ds, hds⟩ := serverRow_denote ops fields cells hs
  obtain ⟨vs, hdec, hsame⟩ := C13_row_correct ops hops fields cells ds out hlen hds hout
  exact ⟨out, ds, vs, hout, hds, hdec, hsame⟩

/-- "0000-00-00 00:00:00.000000" -/
def exZeroDatetime6 : Bytes :=
  [48, 48, 48, 48, 45, 48, 48, 45, 48, 48, 32, 48, 48, 58, 48, 48, 58, 48, 48, 46, 48, 48, 48, 48, 48, 48]
/-- "2020-01-00 10:00:00" -/
def exZeroDayDatetime : Bytes :=
  [50, 48, 50, 48, 45, 48, 49, 45, 48, 48, 32, 49, 48, 58, 48, 48, 58, 48, 48]

/-- The zero DATETIME(6) value, a datetime with a zero day, a GEOMETRY value:
    all refused before the repairs, all delivered now. -/
example : serverRow exOps [⟨TypeDatetime, 0⟩] [some exZeroDatetime6] = true
    ∧ rowToBinary exOps [⟨TypeDatetime, 0⟩] (encodeTextRow [some exZeroDatetime6]) = .ok [0, 0, 0] := by decide

example : serverRow exOps [⟨TypeDatetime, 128⟩] [some exZeroDayDatetime] = true
    ∧ rowToBinary exOps [⟨TypeDatetime, 128⟩] (encodeTextRow [some exZeroDayDatetime])
        = .ok [0, 0, 11, 228, 7, 1, 0, 10, 0, 0, 0, 0, 0, 0] := by decide

example : serverRow exOps [⟨TypeGeometry, 128⟩] [some [0, 0, 0, 0, 1, 1]] = true
    ∧ rowToBinary exOps [⟨TypeGeometry, 128⟩] (encodeTextRow [some [0, 0, 0, 0, 1, 1]])
        = .ok [0, 0, 6, 0, 0, 0, 0, 1, 1] := by decide

theorem rowsToBinary_of_rows (ops : FloatOps) (fields : List Field) (rows : List Bytes)
    (h : ∀ r ∈ rows, ∃ out, rowToBinary ops fields r = .ok out) :
    ∃ outs, rowsToBinary ops fields rows = .ok outs := by
  have hp : ∃ vals, parseRows ops fields rows = .ok vals
      ∧ ∀ v ∈ vals, ∃ out, buildBinaryRow ops fields v = .ok out := by
    induction rows with
    | nil => exact ⟨[], rfl, by simp⟩
    | cons r rs ih =>
      obtain ⟨vals, hv, hb⟩ := ih (fun r' hr' => h r' (by simp [hr']))
      obtain ⟨out, ho⟩ := h r (by simp)
      unfold rowToBinary at ho
      cases hpt : parseText ops r fields with
      | err e => simp [hpt] at ho
      | ok v =>
        simp only [hpt] at ho
        refine ⟨v :: vals, by simp [parseRows, hpt, hv], ?_⟩
        intro v' hv'
        rcases List.mem_cons.1 hv' with e | e
        · subst e; exact ⟨out, ho⟩
        · exact hb v' e
  obtain ⟨vals, hv, hb⟩ := hp
  unfold rowsToBinary
  rw [hv]
  simp only
  clear hv h
  induction vals with
  | nil => exact ⟨[], rfl⟩
  | cons v vs ih =>
    obtain ⟨out, ho⟩ := hb v (by simp)
    obtain ⟨outs, hos⟩ := ih (fun v' hv' => hb v' (by simp [hv']))
    exact ⟨out :: outs, by simp [buildBinaryResultset, ho, hos]⟩

/-- **C13, delivery of a resultset.** -/
theorem C13_resultset_delivered (ops : FloatOps) (fields : List Field) (rows : List (List (Option Bytes)))
    (h : ∀ cells ∈ rows, serverRow ops fields cells = true ∧ (∀ v, some v ∈ cells → v.length < 2 ^ 31)
      ∧ (encodeTextRow cells).length < 2 ^ 62) :
    ∃ outs, rowsToBinary ops fields (rows.map encodeTextRow) = .ok outs := by
  apply rowsToBinary_of_rows
  intro r hr
  obtain ⟨cells, hc, e⟩ := List.mem_map.1 hr
  subst e
  obtain ⟨h1, h2, h3⟩ := h cells hc
  exact row_total ops fields cells h1 h2 (by omega)

/-! ### byte strings of every size class -/

/-- **A byte-string cell of any length** (TEXT/BLOB/VARCHAR/CHAR/BIT/ENUM/SET/
    JSON/GEOMETRY, up to 2^62 bytes: all four size classes of the
    length-encoded codec, NUL and non-UTF-8 bytes included) followed by the
    sentinel INT 7 becomes: header, null bitmap, the cell's length prefix, the
    cell, the sentinel.  The driver answers `big` requests (cells of 16 MiB,
    which it cannot push through the list-based model) from this theorem and
    `pattern_hash`. -/
theorem big_cell_row (ops : FloatOps) (ty flag : Nat) (cell : Bytes) (hty : isBytesType ty = true)
    (hlen : cell.length < 2 ^ 62) :
    rowToBinary ops [⟨ty, flag⟩, ⟨TypeLong, 0⟩] (encodeTextRow [some cell, some [55]])
      = .ok (bigRowHead cell.length ++ cell ++ bigRowTail) :=
  big_cell_row' ops ty flag cell hty hlen

/-- The hash the driver computes by a loop is the hash of the pattern cell. -/
theorem pattern_hash (n : Nat) : patHash n = hashBytes (patCell n) ∧ (patCell n).length = n :=
  ⟨patHash_eq n, patCell_length n⟩

example : rowToBinary exOps [⟨TypeBlob, 0⟩, ⟨TypeLong, 0⟩] (encodeTextRow [some (patCell 3), some [55]])
    = .ok [0, 0, 3, 3, 10, 17, 7, 0, 0, 0] := by decide

/-! ### the open finding: a DATE cell that is no date -/

/-- **Witness (known/C13.json, class `non-date-sent-as-zero-date`).** A DATE
    cell that is not of the form `YYYY-MM-DD` is neither refused nor read: the
    client is sent the zero date 0000-00-00.  (`TestAppendBinaryValue` of
    /repo/mysql pins this behaviour — "string with TypeDate invalid" — so it is
    listed, not repaired.) -/
theorem date_garbage_zero_witness :
    readText exOps ⟨TypeDate, 0⟩ (some [105, 110, 118, 97, 108, 105, 100]) = none
    ∧ rowToBinary exOps [⟨TypeDate, 0⟩] (encodeTextRow [some [105, 110, 118, 97, 108, 105, 100]]) = .ok [0, 0, 0]
    ∧ decodeBinRow [⟨TypeDate, 0⟩] [0, 0, 0] = some [.dt 0 0 0 0 0 0 0] := by decide

/-! ### the column definitions sent with the rows -/

/-- **Column definitions are forwarded unchanged.** For every column definition
    `c` (any schema/table/column names, character set, display length, type
    code, flag word, decimals) in the packet a server sends for it:
    `FieldData.Parse` succeeds; the type and flags the row conversion then uses
    are those of `c`; and `writeColumnDefinition` sends the client the very
    packet of `c` with the catalog "def" — which the spec's reader reads as
    `c`.  So the client decodes the rows by the same type, UNSIGNED flag,
    character set and decimals as the backend declared. -/
theorem C13_coldef_forwarded (c : ColumnDef) (h : c.wf) :
    ∃ f, fieldParse (encodeColumnDef c) = .ok f ∧ f.toField = c.toField
      ∧ writeColumnDefinition f = .ok (encodeColumnDef { c with catalog := defCatalog })
      ∧ decodeColumnDef (encodeColumnDef { c with catalog := defCatalog }) = some { c with catalog := defCatalog } :=
  ⟨fieldOf c, fieldParse_encode c h, fieldOf_toField c, write_fieldOf c,
    decode_encode_coldef _ (wf_def c h)⟩

def exColumn : ColumnDef :=
  { catalog := defCatalog, schema := [100, 98], table := [116], orgTable := [116], name := [118], orgName := [118],
    charset := 63, columnLength := 3, typ := TypeTiny, flags := 32, decimals := 0 }

example : exColumn.wf := by simp [ColumnDef.wf, exColumn, defCatalog, TypeTiny]

example : encodeColumnDef exColumn
      = [3, 100, 101, 102, 2, 100, 98, 1, 116, 1, 116, 1, 118, 1, 118, 12, 63, 0, 3, 0, 0, 0, 1, 32, 0, 0, 0, 0]
    ∧ fieldParse (encodeColumnDef exColumn) = .ok (fieldOf exColumn)
    ∧ writeColumnDefinition (fieldOf exColumn) = .ok (encodeColumnDef exColumn) := by decide

/-- **C13, a whole COM_STMT_EXECUTE result.** The backend sends the column
    definitions `cds` and text rows; if the proxy answers with a result, the
    client receives the definitions unchanged (catalog "def") and one binary row
    per text row, in order, each of which — decoded by the types and flags of
    the definitions the client received — yields what the text row says in
    every column. -/
theorem C13_stmt_result_correct (ops : FloatOps) (hops : FloatOpsOk ops) (cds : List ColumnDef)
    (hwf : ∀ c ∈ cds, c.wf) (rows : List (List (Option Bytes))) (outDefs outs : List Bytes)
    (h : stmtResult ops (cds.map encodeColumnDef) (rows.map encodeTextRow) = .ok (outDefs, outs)) :
    outDefs.map decodeColumnDef = cds.map (fun c => some { c with catalog := defCatalog })
    ∧ List.Forall₂ (fun cells out => ∀ ds, (encodeTextRow cells).length < 2 ^ 62 →
        readRow ops (cds.map ColumnDef.toField) cells = some ds →
        ∃ vs, decodeBinRow (cds.map ColumnDef.toField) out = some vs ∧ sameRow vs ds = true) rows outs := by
  rw [stmtResult_shape ops cds hwf] at h
  cases hr : rowsToBinary ops (cds.map ColumnDef.toField) (rows.map encodeTextRow) with
  | err e => simp [hr] at h
  | ok bins =>
    simp only [hr, Res.ok.injEq, Prod.mk.injEq] at h
    obtain ⟨h1, h2⟩ := h
    subst h1; subst h2
    refine ⟨?_, C13_resultset_exact ops hops _ rows bins hr⟩
    rw [List.map_map]
    apply List.map_congr_left
    intro c hc
    exact decode_encode_coldef _ (wf_def c (hwf c hc))

/-- **C13, delivery of a COM_STMT_EXECUTE result.** Well-formed definitions
    and rows of server values: the proxy answers with the result. -/
theorem C13_stmt_result_delivered (ops : FloatOps) (cds : List ColumnDef) (hwf : ∀ c ∈ cds, c.wf)
    (rows : List (List (Option Bytes)))
    (h : ∀ cells ∈ rows, serverRow ops (cds.map ColumnDef.toField) cells = true
      ∧ (∀ v, some v ∈ cells → v.length < 2 ^ 31) ∧ (encodeTextRow cells).length < 2 ^ 62) :
    ∃ outs, stmtResult ops (cds.map encodeColumnDef) (rows.map encodeTextRow)
      = .ok (cds.map (fun c => encodeColumnDef { c with catalog := defCatalog }), outs) := by
  obtain ⟨outs, ho⟩ := C13_resultset_delivered ops (cds.map ColumnDef.toField) rows h
  exact ⟨outs, by rw [stmtResult_shape ops cds hwf, ho]⟩

/-- **No panic on a whole result.** For column definitions as a server sends
    them and any bytes as rows, the answer is a result or an error kind. -/
theorem stmt_result_no_panic (ops : FloatOps) (cds : List ColumnDef) (hwf : ∀ c ∈ cds, c.wf) (rows : List Bytes) :
    stmtResult ops (cds.map encodeColumnDef) rows ≠ .err .panic := by
  rw [stmtResult_shape ops cds hwf]
  have := no_panic ops (cds.map ColumnDef.toField) rows
  cases h : rowsToBinary ops (cds.map ColumnDef.toField) rows with
  | err e => rw [h] at this; simpa using this
  | ok bins => simp

end GaeaVerif.C13