import GaeaVerif.Lemmas.C13Rows
import GaeaVerif.Gen.Consts
/-
  C13 — Prepared-statement results carry the same values as the backend's
  text results.

  Model: `Model/BinRow.lean` (`RowData.ParseText`, `BuildBinaryResultset`,
  `AppendBinaryValue`, `stringToMysqlTime`, `mysqlTimeToBinaryResult`, with the
  library functions they call).  Reference semantics: `Spec/BinProto.lean`
  (`denoteText`: the value a text cell denotes; `decodeBinRow`: an independent
  decoder of the binary row format).  Helper lemmas: `Lemmas/C13*.lean`.
  The tie to /repo/mysql is the correspondence check `gvh run C13` and the
  constants of `Gen/Consts.lean`.

  Rendering of the English property.  "Every row the backend returns in the text
  protocol" = `encodeTextRow cells` for any list of cells (NULL or a byte
  string), shorter than 2^62 bytes.  "Every value of that type" = the cells on
  which `denoteText` is defined (integers in the range of the column's width and
  signedness; `[-]digits[.digits]` decimals of any length; any byte string for
  string/blob/bit/enum/set/json columns; `YYYY-MM-DD` with month ≤ 12 and
  day ≤ 31, zero and partial dates included; `YYYY-MM-DD HH:MM:SS[.f{1,6}]`;
  `[-]H…:MM:SS[.f{1,6}]` up to 838 hours; floats: whatever text the opaque
  `parseFloat` accepts).  "Decodes to the same value or the proxy reports an
  error" = if the model returns `ok out` then the spec decoder reads `out`
  completely and yields, column by column, the denoted values (`sameRow`:
  decimals compared as numbers, everything else literally); the model's other
  outcome is `err kind`, never a panic (`no_panic`).

  Floats (assumption `FloatOpsOk`): IEEE arithmetic is not modelled; the three
  functions of `FloatOps` are parameters, so for FLOAT/DOUBLE columns the
  theorems say that the binary row carries exactly `toF32 (parseFloat text)` /
  `parseFloat text`, whatever these functions are, provided they return 32/64
  bit patterns.
-/
namespace GaeaVerif.C13
open GaeaVerif GaeaVerif.BinRow GaeaVerif.BinProto GaeaVerif.LenEnc

/-! ### tie to the source: constants and call structure (regenerated on every run) -/

/-- The column type numbers and the UNSIGNED flag the model and the spec are
    written against are those of /repo/mysql/type.go. -/
theorem type_codes_match :
    [Gen.c13TypeDecimal, Gen.c13TypeTiny, Gen.c13TypeShort, Gen.c13TypeLong, Gen.c13TypeFloat, Gen.c13TypeDouble,
     Gen.c13TypeNull, Gen.c13TypeTimestamp, Gen.c13TypeLonglong, Gen.c13TypeInt24, Gen.c13TypeDate,
     Gen.c13TypeDuration, Gen.c13TypeDatetime, Gen.c13TypeYear, Gen.c13TypeNewDate, Gen.c13TypeVarchar,
     Gen.c13TypeBit, Gen.c13TypeJSON, Gen.c13TypeNewDecimal, Gen.c13TypeEnum, Gen.c13TypeSet,
     Gen.c13TypeTinyBlob, Gen.c13TypeMediumBlob, Gen.c13TypeLongBlob, Gen.c13TypeBlob, Gen.c13TypeVarString,
     Gen.c13TypeString, Gen.c13TypeGeometry, Gen.c13UnsignedFlag]
    = [TypeDecimal, TypeTiny, TypeShort, TypeLong, TypeFloat, TypeDouble, TypeNull, TypeTimestamp, TypeLonglong,
       TypeInt24, TypeDate, TypeDuration, TypeDatetime, TypeYear, TypeNewDate, TypeVarchar, TypeBit, TypeJSON,
       TypeNewDecimal, TypeEnum, TypeSet, TypeTinyBlob, TypeMediumBlob, TypeLongBlob, TypeBlob, TypeVarString,
       TypeString, TypeGeometry, UnsignedFlag] := by decide

/-- Both writers of a COM_STMT_EXECUTE result (`Session.writeResponse`,
    `ClientConn.writeOKResultStream`) convert the result with
    `BuildBinaryResultSet` when the response is binary. -/
theorem binary_writers_convert :
    Gen.c13WriteResponseBuildsBinary = true ∧ Gen.c13ResultStreamBuildsBinary = true := by decide

/-! ### the null bitmap -/

/-- **Null bitmap.** A binary row is `0x00`, a bitmap of `(n + 7 + 2) / 8` bytes
    and the payload; bit `i + 2` of the bitmap is set iff column `i` is NULL —
    for any number of columns. -/
theorem bitmap_correct (ops : FloatOps) (fields : List Field) (vals : List GoVal) (out : Bytes)
    (h : buildBinaryRow ops fields vals = .ok out) :
    ∃ (bm payload : Bytes), out = 0 :: (bm ++ payload) ∧ bm.length = (fields.length + 7 + 2) / 8
      ∧ ∀ i, nullBit bm i = decide (vals[i]? = some GoVal.nil) := by
  obtain ⟨bm, enc, h1, h2, _, _, h5⟩ := buildBinaryRow_shape ops fields vals out h
  exact ⟨bm, enc, h1, h2, h5⟩

example : buildBinaryRow ⟨fun _ => none, fun _ => 0, fun _ => []⟩
    [⟨TypeTiny, 0⟩, ⟨TypeLong, 0⟩, ⟨TypeTiny, 0⟩, ⟨TypeTiny, 0⟩, ⟨TypeTiny, 0⟩, ⟨TypeTiny, 0⟩, ⟨TypeTiny, 0⟩]
    [.nil, .i64 7, .nil, .nil, .nil, .nil, .nil] = .ok [0, 0xf4, 0x01, 7, 0, 0, 0] := by decide

/-! ### one column, per type family -/

/-- **Integers** of every width and signedness (TINY, SHORT, YEAR, LONG, INT24,
    LONGLONG): a text integer in the range of the column type is sent as the
    little-endian bytes the decoder reads back as the same integer. -/
theorem enc_dec_int (ops : FloatOps) (ty flag w : Nat) (cell : Bytes) (x : Int) (v : GoVal) (b rest : Bytes)
    (hwid : intWidth ty = some w) (hx : intText cell = some x)
    (hr : inIntRange w (Field.isUnsigned ⟨ty, flag⟩) x = true)
    (hpt : parseTextValue ops ⟨ty, flag⟩ cell = .ok v)
    (habv : appendBinaryValue ops ty v = .ok b) :
    decodeValue ⟨ty, flag⟩ (b ++ rest) = some (.int x, rest) :=
  int_col ops ty flag w cell x v b rest hwid hx hr hpt habv

example : intWidth TypeLonglong = some 8 ∧ intText [45, 49] = some (-1) ∧ inIntRange 8 false (-1) = true
    ∧ parseTextValue ⟨fun _ => none, fun _ => 0, fun _ => []⟩ ⟨TypeLonglong, 0⟩ [45, 49] = .ok (.i64 (-1))
    ∧ appendBinaryValue ⟨fun _ => none, fun _ => 0, fun _ => []⟩ TypeLonglong (.i64 (-1))
        = .ok [255, 255, 255, 255, 255, 255, 255, 255] := by decide

/-- **Decimals**: what `decimal.NewFromString` + `Decimal.String()` produce for
    a `[-]digits[.digits]` text of any length reads back as the same number. -/
theorem enc_dec_decimal (cell : Bytes) (u : Int) (sc : Nat) (v e : Int)
    (hd : decimalText cell = some (u, sc)) (hn : newFromString cell = some (v, e)) :
    ∃ u' sc', decimalText (decimalString v e) = some (u', sc') ∧ u' * 10 ^ sc = u * 10 ^ sc' :=
  (decimal_cell_roundtrip cell u sc v e hd hn).1

example : decimalText [45, 48, 48, 55, 46, 53, 48] = some (-750, 2)
    ∧ newFromString [45, 48, 48, 55, 46, 53, 48] = some (-750, -2)
    ∧ decimalString (-750) (-2) = [45, 55, 46, 53] := by decide

/-- **Strings, blobs, BIT, ENUM, SET, JSON**: sent as a length-encoded string
    holding exactly the cell's bytes (or refused: GEOMETRY). -/
theorem enc_dec_bytes (ops : FloatOps) (ty flag : Nat) (cell : Bytes) (v : GoVal) (b rest : Bytes)
    (hty : isBytesType ty = true) (hlen : cell.length < 2 ^ 64)
    (hpt : parseTextValue ops ⟨ty, flag⟩ cell = .ok v)
    (habv : appendBinaryValue ops ty v = .ok b) :
    decodeValue ⟨ty, flag⟩ (b ++ rest) = some (.bytes cell, rest) :=
  bytes_col ops ty flag cell v b rest hty hlen hpt habv

example : isBytesType TypeEnum = true
    ∧ parseTextValue ⟨fun _ => none, fun _ => 0, fun _ => []⟩ ⟨TypeEnum, 0⟩ [97] = .ok (.bytes [97])
    ∧ appendBinaryValue ⟨fun _ => none, fun _ => 0, fun _ => []⟩ TypeEnum (.bytes [97]) = .ok [1, 97] := by decide

/-- **DATE / NEWDATE**: every `YYYY-MM-DD` (month ≤ 12, day ≤ 31; zero and
    partial dates and dates outside the calendar included) is sent as that date. -/
theorem enc_dec_date (cell rest : Bytes) (dv : Val) (h : dateText cell = some dv) :
    decodeDate (dateBytes cell ++ rest) = some (dv, rest) :=
  date_enc_dec cell rest dv h

example : dateText [50, 48, 50, 48, 45, 48, 48, 45, 48, 48] = some (.dt 2020 0 0 0 0 0 0)
    ∧ dateBytes [50, 48, 50, 48, 45, 48, 48, 45, 48, 48] = [4, 228, 7, 0, 0] := by decide

/-- **DATETIME / TIMESTAMP** with 0–6 fractional digits: sent as that instant,
    or refused. -/
theorem enc_dec_datetime (cell rest b : Bytes) (dv : Val) (h : datetimeText cell = some dv)
    (hb : datetimeBytes cell = .ok b) : decodeDate (b ++ rest) = some (dv, rest) :=
  datetime_enc_dec cell rest b dv h hb

/-- **TIME**, negative and beyond 24 h, with 0–6 fractional digits: sent as the
    same signed duration, or refused. -/
theorem enc_dec_time (cell rest b : Bytes) (dv : Val) (h : timeText cell = some dv)
    (hb : durationBytes cell = .ok b) : decodeTime (b ++ rest) = some (dv, rest) :=
  time_enc_dec cell rest b dv h hb

example : timeText [45, 56, 51, 56, 58, 53, 57, 58, 53, 57, 46, 53] = some (.time (-3020399500000))
    ∧ durationBytes [45, 56, 51, 56, 58, 53, 57, 58, 53, 57, 46, 53]
        = .ok [12, 1, 34, 0, 0, 0, 22, 59, 59, 32, 161, 7, 0] := by decide

/-- **FLOAT** (under `FloatOpsOk`): the row carries `toF32 (parseFloat text)`. -/
theorem enc_dec_float (ops : FloatOps) (hops : FloatOpsOk ops) (flag : Nat) (cell : Bytes) (d : Val) (v : GoVal)
    (b rest : Bytes)
    (hden : (ops.parseFloat cell).map (fun b => Val.f32 (ops.toF32 b)) = some d)
    (hpt : parseTextValue ops ⟨TypeFloat, flag⟩ cell = .ok v)
    (habv : appendBinaryValue ops TypeFloat v = .ok b) :
    decodeValue ⟨TypeFloat, flag⟩ (b ++ rest) = some (d, rest) :=
  float_col ops hops flag cell d v b rest hden hpt habv

/-- **DOUBLE** (under `FloatOpsOk`): the row carries `parseFloat text`. -/
theorem enc_dec_double (ops : FloatOps) (hops : FloatOpsOk ops) (flag : Nat) (cell : Bytes) (d : Val) (v : GoVal)
    (b rest : Bytes)
    (hden : (ops.parseFloat cell).map Val.f64 = some d)
    (hpt : parseTextValue ops ⟨TypeDouble, flag⟩ cell = .ok v)
    (habv : appendBinaryValue ops TypeDouble v = .ok b) :
    decodeValue ⟨TypeDouble, flag⟩ (b ++ rest) = some (d, rest) :=
  double_col ops hops flag cell d v b rest hden hpt habv

/-- **Any column.** A non-NULL cell that is a value of its column's type (any
    type code, any flag word), converted by `ParseText` and encoded by
    `AppendBinaryValue`, is decoded to the same value, and the decoder stops
    exactly at the end of the encoding (so later columns are not shifted). -/
theorem C13_col_correct (ops : FloatOps) (hops : FloatOpsOk ops) (f : Field) (cell : Bytes) (d : Val) (v : GoVal)
    (b rest : Bytes) (hlen : cell.length < 2 ^ 62)
    (hden : denoteText ops f (some cell) = some d)
    (hpt : parseTextValue ops f cell = .ok v)
    (habv : appendBinaryValue ops f.typ v = .ok b) :
    ∃ v', decodeValue f (b ++ rest) = some (v', rest) ∧ Val.same v' d = true :=
  col_correct ops hops f cell d v b rest hlen hden hpt habv

/-! ### rows and resultsets -/

/-- **C13, one row.** For every column list and every text-protocol row whose
    cells are values of their columns' types (NULL allowed anywhere): if the
    proxy produces a binary row at all, that row decodes — per the binary
    protocol, completely, with nothing left over — to the same value in every
    column. -/
theorem C13_row_correct (ops : FloatOps) (hops : FloatOpsOk ops) (fields : List Field)
    (cells : List (Option Bytes)) (ds : List Val) (out : Bytes)
    (hlen : (encodeTextRow cells).length < 2 ^ 62)
    (hden : denoteRow ops fields cells = some ds)
    (hout : rowToBinary ops fields (encodeTextRow cells) = .ok out) :
    ∃ vs, decodeBinRow fields out = some vs ∧ sameRow vs ds = true := by
  have hcnt := denoteRow_len ops fields cells ds hden
  unfold rowToBinary at hout
  rw [parseText_encode ops fields cells hcnt (by omega)] at hout
  cases hc : convertCells ops fields cells with
  | err e => simp [hc] at hout
  | ok vals =>
    simp only [hc] at hout
    obtain ⟨bm, enc, hshape, hbl, hvl, henc, hbits⟩ := buildBinaryRow_shape ops fields vals out hout
    obtain ⟨vs, hdec, hsame⟩ := decodeCols_correct ops hops fields cells vals enc ds [] hc henc hden
      (fun v hv => by have := cell_len_le cells v hv; omega)
    refine ⟨vs, ?_, hsame⟩
    subst hshape
    unfold decodeBinRow
    simp only
    rw [takeN_append' bm enc _ hbl.symm]
    have hn : (List.range fields.length).map (nullBit bm) = nullFlags vals := by
      rw [← hvl, ← range_nullFlags]
      apply List.map_congr_left
      intro i _; exact hbits i
    simp only [hn]
    rw [List.append_nil] at hdec
    rw [hdec]

/-- A row mixing all type families, with a NULL, a partial date, a negative
    time beyond 24 h, the largest unsigned BIGINT and an ENUM. -/
def exOps : FloatOps := { parseFloat := fun _ => none, toF32 := fun _ => 0, formatFloat := fun _ => [] }
def exFields : List Field :=
  [⟨TypeTiny, 0⟩, ⟨TypeNewDecimal, 0⟩, ⟨TypeEnum, 0⟩, ⟨TypeDate, 0⟩, ⟨TypeDuration, 0⟩, ⟨TypeLonglong, 32⟩,
   ⟨TypeDatetime, 0⟩, ⟨TypeSet, 256⟩]
def exCells : List (Option Bytes) :=
  [some [45, 49, 50, 56],                                               -- -128
   some [48, 49, 46, 53, 48],                                           -- 01.50
   none,
   some [50, 48, 50, 48, 45, 48, 48, 45, 48, 48],                       -- 2020-00-00
   some [45, 56, 51, 56, 58, 53, 57, 58, 53, 57, 46, 53],               -- -838:59:59.5
   some [49, 56, 52, 52, 54, 55, 52, 52, 48, 55, 51, 55, 48, 57, 53, 53, 49, 54, 49, 53],  -- 2^64-1
   some [50, 48, 50, 52, 45, 49, 50, 45, 50, 51, 32, 49, 48, 58, 50, 48, 58, 51, 48, 46, 49, 50, 51],
   some [97, 44, 98]]                                                   -- a,b

example : FloatOpsOk exOps := ⟨fun _ => by simp [exOps], fun _ _ h => by simp [exOps] at h⟩

example : (encodeTextRow exCells).length < 2 ^ 62
    ∧ denoteRow exOps exFields exCells = some [.int (-128), .dec 150 2, .null, .dt 2020 0 0 0 0 0 0,
        .time (-3020399500000), .int 18446744073709551615, .dt 2024 12 23 10 20 30 123000, .bytes [97, 44, 98]]
    ∧ rowToBinary exOps exFields (encodeTextRow exCells) = .ok
        [0, 16, 0, 128, 3, 49, 46, 53, 4, 228, 7, 0, 0, 12, 1, 34, 0, 0, 0, 22, 59, 59, 32, 161, 7, 0,
         255, 255, 255, 255, 255, 255, 255, 255, 11, 232, 7, 12, 23, 10, 20, 30, 120, 224, 1, 0, 3, 97, 44, 98] := by
  decide

/-- `rowsToBinary` treats the rows one by one. -/
theorem rowsToBinary_rows (ops : FloatOps) (fields : List Field) (rows outs : List Bytes)
    (h : rowsToBinary ops fields rows = .ok outs) :
    List.Forall₂ (fun row out => rowToBinary ops fields row = .ok out) rows outs := by
  induction rows generalizing outs with
  | nil =>
    simp [rowsToBinary, parseRows, buildBinaryResultset] at h
    subst h; exact List.Forall₂.nil
  | cons p ps ih =>
    unfold rowsToBinary at h
    simp only [parseRows] at h
    cases hp : parseText ops p fields with
    | err e => simp [hp] at h
    | ok v =>
      cases hps : parseRows ops fields ps with
      | err e => simp [hp, hps] at h
      | ok vs =>
        simp only [hp, hps, buildBinaryResultset] at h
        cases hb : buildBinaryRow ops fields v with
        | err e => simp [hb] at h
        | ok r =>
          cases hbs : buildBinaryResultset ops fields vs with
          | err e => simp [hb, hbs] at h
          | ok rs =>
            simp only [hb, hbs, Res.ok.injEq] at h
            subst h
            refine List.Forall₂.cons ?_ (ih rs ?_)
            · simp [rowToBinary, hp, hb]
            · simp [rowsToBinary, hps, hbs]

/-- **C13, a whole resultset.** If the proxy builds binary rows for the text
    rows of a resultset, there is one binary row per text row, in order, and
    every text row all of whose cells are values of their columns' types is
    carried by a binary row that decodes to the same values. -/
theorem C13_resultset_correct (ops : FloatOps) (hops : FloatOpsOk ops) (fields : List Field)
    (rows : List (List (Option Bytes))) (outs : List Bytes)
    (hout : rowsToBinary ops fields (rows.map encodeTextRow) = .ok outs) :
    List.Forall₂ (fun cells out => ∀ ds, (encodeTextRow cells).length < 2 ^ 62 →
        denoteRow ops fields cells = some ds →
        ∃ vs, decodeBinRow fields out = some vs ∧ sameRow vs ds = true) rows outs := by
  have h := rowsToBinary_rows ops fields _ outs hout
  clear hout
  induction rows generalizing outs with
  | nil => cases h; exact List.Forall₂.nil
  | cons cells rest ih =>
    rw [List.map_cons] at h
    cases h with
    | cons h1 h2 =>
      exact List.Forall₂.cons (fun ds hlen hden => C13_row_correct ops hops fields cells ds _ hlen hden h1) (ih _ h2)

/-! ### errors, never panics -/

/-- **No panic.** On every input (any bytes as a row, any columns) the
    conversion returns binary rows or an error kind; no index or slice
    expression of `ParseText`/`BuildBinaryResultset` can go out of range. -/
theorem no_panic (ops : FloatOps) (fields : List Field) (rows : List Bytes) :
    rowsToBinary ops fields rows ≠ .err .panic := by
  have hrow : ∀ v, buildBinaryRow ops fields v ≠ .err .panic := by
    intro v
    unfold buildBinaryRow
    split
    · simp
    · rename_i hl
      simp only [ne_eq, Decidable.not_not] at hl
      have := buildRowLoop_no_panic ops fields v 0 [] (List.replicate ((fields.length + 7 + 2) / 8) 0) hl
        (by simp only [List.length_replicate]; omega)
      simp only
      split
      · rename_i e heq
        intro h
        simp only [Res.err.injEq] at h
        subst h
        exact this heq
      · simp
  have hbuild : ∀ vs, buildBinaryResultset ops fields vs ≠ .err .panic := by
    intro vs
    induction vs with
    | nil => simp [buildBinaryResultset]
    | cons v vs ih =>
      simp only [buildBinaryResultset]
      have h1 := hrow v
      cases hb : buildBinaryRow ops fields v with
      | err e => rw [hb] at h1; simpa using h1
      | ok r =>
        cases hbs : buildBinaryResultset ops fields vs with
        | err e => rw [hbs] at ih; simpa using ih
        | ok rs => simp
  have hparse : ∀ ps, parseRows ops fields ps ≠ .err .panic := by
    intro ps
    induction ps with
    | nil => simp [parseRows]
    | cons p ps ih =>
      simp only [parseRows]
      have h1 := parseTextLoop_no_panic ops p fields 0
      cases hp : parseText ops p fields with
      | err e => unfold parseText at hp; rw [hp] at h1; simpa using h1
      | ok v =>
        cases hps : parseRows ops fields ps with
        | err e => rw [hps] at ih; simpa using ih
        | ok vs => simp
  unfold rowsToBinary
  cases hp : parseRows ops fields rows with
  | err e => have := hparse rows; rw [hp] at this; simpa using this
  | ok vals => exact hbuild vals

end GaeaVerif.C13
