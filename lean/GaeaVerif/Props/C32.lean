import GaeaVerif.Model.MgrTwoPhase
import GaeaVerif.Props.C31
import GaeaVerif.Gen.Consts
/-
  C32 — A namespace change is applied on all proxies or on none.

  Theorems about `Model/MgrTwoPhase.lean` (cc's `ModifyNamespace` /
  `DelNamespace` against any number of proxies running the reload manager of
  C31, every request with a scripted fate: delivered, not delivered, delivered
  with the answer lost = timeout).  The tie to /repo/cc/service, /repo/cc/proxy
  and the proxies' admin API is the correspondence `gvh run C32`.

  Rendering of the English property.  "Reports success ⇒ every registered
  proxy runs the new configuration" is proved in full, for every number of
  proxies and every placement of faults (`modify_success_on_every_proxy`,
  `del_success_on_every_proxy`).  "Reports failure ⇒ the stored configuration
  and every proxy's running configuration are the previous one" is false of
  the code by design — a commit or a delete performed on a proxy cannot be
  undone — so it is proved under the hypothesis that excludes exactly the
  failing placements (the stored configuration alone is restored on every
  failure: `del_failure_store_restored`, after the repair of `DelNamespace`):

    full statement (NOT provable, see the witnesses):
      ∀ w n v kind fs, WF w → (ModifyNamespace w n v kind fs).2 ≠ .ok →
        store unchanged ∧ every proxy's view unchanged

    `twophase_all_or_none_partial`: the same under `CommitsAllOk fs ∨
      CommitsAllFail fs k` — no commit request fails or times out once any
      commit request has been performed (every commit is delivered and
      answered, or none is delivered).  All prepare-phase faults (refused,
      lost, retried, unbuildable configuration) are covered.
    `del_all_or_none_partial`: the same for `DelNamespace` when every delete
      request is delivered and answered or the first one is not delivered.

  Concurrent changes: `pair_success_on_every_proxy` proves the success
  direction for two concurrent changes of different namespaces under every
  request order; the failure direction fails without any fault
  (`concurrent_split_witness`).

  Witnesses of the negation (`decide`): `twophase_split_witness`,
  `twophase_lost_commit_witness`, `del_failure_witness`,
  `concurrent_split_witness`; `prepare_leftover_witness` shows the pending
  prepare a failed change leaves behind.
-/
namespace GaeaVerif.C32
open GaeaVerif GaeaVerif.MgrReload GaeaVerif.MgrTwoPhase GaeaVerif.C31

/-- The retry counts the model uses are those of the source
    (cc/service/service.go, extracted on every run). -/
theorem retry_consts :
    Gen.ccPrepareRetryTimes = prepareRetryTimes ∧ Gen.ccCommitRetryTimes = commitRetryTimes := by decide

/-! ### vocabulary -/

/-- The proxy's manager is in a state reachable by whole operations (C31's invariant). -/
def Good (m : Manager) : Prop := ∃ s, Rel m s

def WF (w : World) : Prop := ∀ m ∈ w.proxies, Good m

/-- `m'` serves sessions exactly what `m` serves. -/
def sameView (m m' : Manager) : Prop :=
  ∀ k, GetNamespace m' k = GetNamespace m k ∧ GetNamespaceByUser m' k = GetNamespaceByUser m k

/-- The proxy runs configuration `c` of namespace `n` (`none` = does not have it). -/
def Runs (m : Manager) (n : Name) (c : Option Ver) : Prop :=
  GetNamespace m n = some c ∧ GetNamespaceByUser m n = some c

/-- A prepare of version `v` of `n` is pending on the proxy. -/
def Ready (m : Manager) (n : Name) (v : Ver) : Prop :=
  ∃ s, Rel m s ∧ m.reloadPrepared = true ∧ m.preparedName = n ∧ s.prepared n = some v

/-- Every commit request is delivered and answered. -/
def CommitsAllOk (fs : List PF) : Prop := ∀ f ∈ fs, f.c = .ok

/-- No commit request is delivered (to any of the `k` proxies). -/
def CommitsAllFail (fs : List PF) (k : Nat) : Prop := k ≤ fs.length ∧ ∀ f ∈ fs, f.c = .fail

/-- Two lists related element by element. -/
inductive Forall2 {α β : Type} (R : α → β → Prop) : List α → List β → Prop where
  | nil : Forall2 R [] []
  | cons {a : α} {b : β} {as : List α} {bs : List β} : R a b → Forall2 R as bs → Forall2 R (a :: as) (b :: bs)

theorem Forall2.length_eq {α β : Type} {R : α → β → Prop} {as : List α} {bs : List β}
    (h : Forall2 R as bs) : as.length = bs.length := by
  induction h with
  | nil => rfl
  | cons _ _ ih => simp [ih]

@[simp] theorem rpc_fail (m : Manager) (op : Manager → Manager × Out) : rpc .fail m op = (m, true) := rfl
@[simp] theorem rpc_lost (m : Manager) (op : Manager → Manager × Out) : rpc .lost m op = ((op m).1, true) := rfl
@[simp] theorem rpc_ok (m : Manager) (op : Manager → Manager × Out) :
    rpc .ok m op = ((op m).1, (op m).2 != .ok) := rfl

theorem sameView_refl (m : Manager) : sameView m m := fun _ => ⟨rfl, rfl⟩

theorem sameView_trans {a b c : Manager} (h1 : sameView a b) (h2 : sameView b c) : sameView a c :=
  fun k => ⟨(h2 k).1.trans (h1 k).1, (h2 k).2.trans (h1 k).2⟩

/-! ### one request on one proxy -/

theorem prepare_sets_flag {m : Manager} {s : Spec} (h : Rel m s) (n : Name) (v : Ver) :
    (ReloadNamespacePrepare m n v true).1.reloadPrepared = true ∧
    (ReloadNamespacePrepare m n v true).1.preparedName = n := by
  simp [ReloadNamespacePrepare, ReloadNamespacePrepareTrace, h.ns, h.us]

theorem proxyPrepare_spec {m : Manager} (hg : Good m) (store : Table) (n : Name) (b : Bool) :
    Good (proxyPrepare store n b m).1 ∧ sameView m (proxyPrepare store n b m).1 ∧
    ∀ v, (proxyPrepare store n b m).2 = .ok → store n = some v → Ready (proxyPrepare store n b m).1 n v := by
  obtain ⟨s, h⟩ := hg
  unfold proxyPrepare
  cases hs : store n with
  | none => exact ⟨⟨s, h⟩, sameView_refl m, by intro v hv; cases hv⟩
  | some w =>
    have hr := prepare_refines h n w b
    refine ⟨⟨_, hr.1⟩, fun k => prepare_keeps_view h n w b k, ?_⟩
    intro v hok hv
    have hwv : w = v := by injection hv
    subst hwv
    cases b with
    | false => rw [hr.2] at hok; cases hok
    | true =>
      have hf := prepare_sets_flag h n w
      have hrel := hr.1
      rw [hok] at hrel
      exact ⟨_, hrel, hf.1, hf.2, by simp [Spec.step]⟩

theorem rpc_prepare_spec {m : Manager} (hg : Good m) (f : Fault) (store : Table) (n : Name) (b : Bool) :
    Good (rpc f m (proxyPrepare store n b)).1 ∧ sameView m (rpc f m (proxyPrepare store n b)).1 ∧
    ∀ v, (rpc f m (proxyPrepare store n b)).2 = false → store n = some v →
      Ready (rpc f m (proxyPrepare store n b)).1 n v := by
  have hp := proxyPrepare_spec hg store n b
  cases f with
  | fail =>
    rw [rpc_fail]
    exact ⟨hg, sameView_refl m, fun v hv => by cases hv⟩
  | lost =>
    rw [rpc_lost]
    exact ⟨hp.1, hp.2.1, fun v hv => by cases hv⟩
  | ok =>
    rw [rpc_ok]
    refine ⟨hp.1, hp.2.1, ?_⟩
    intro v he hv
    apply hp.2.2 v _ hv
    simpa using he

theorem prepareRetry_spec (store : Table) (n : Name) (b : Bool) (fuel : Nat) :
    ∀ (fs : List Fault) (m : Manager), Good m →
      Good (prepareRetry store n b fuel fs m).1 ∧ sameView m (prepareRetry store n b fuel fs m).1 ∧
      ∀ v, 0 < fuel → (prepareRetry store n b fuel fs m).2 = false → store n = some v →
        Ready (prepareRetry store n b fuel fs m).1 n v := by
  induction fuel with
  | zero => intro fs m hg; exact ⟨hg, sameView_refl m, by intro v h; omega⟩
  | succ fuel ih =>
    intro fs m hg
    have hr := rpc_prepare_spec hg (fs.headD .ok) store n b
    unfold prepareRetry
    cases he : (rpc (fs.headD .ok) m (proxyPrepare store n b)).2 with
    | false =>
      simp only [he, Bool.not_false, if_true]
      exact ⟨hr.1, hr.2.1, fun v _ _ hv => hr.2.2 v he hv⟩
    | true =>
      simp only [he, Bool.not_true]
      by_cases hf : fuel = 0
      · simp only [hf, if_true]
        refine ⟨hr.1, hr.2.1, ?_⟩
        intro v _ h; simp at h
      · simp only [hf, if_false]
        have := ih fs.tail _ hr.1
        refine ⟨this.1, sameView_trans hr.2.1 this.2.1, ?_⟩
        intro v _ h2 hv
        exact this.2.2 v (by omega) h2 hv

theorem commit_ready {m : Manager} {n : Name} {v : Ver} (hr : Ready m n v) :
    (ReloadNamespaceCommit m n).2 = .ok ∧ Good (ReloadNamespaceCommit m n).1 ∧
    Runs (ReloadNamespaceCommit m n).1 n (some v) := by
  obtain ⟨s, h, hp, hn, hv⟩ := hr
  have hc := commit_refines h n
  have hok : (ReloadNamespaceCommit m n).2 = .ok := by
    obtain ⟨v', _, hns, _⟩ := h.prep hp
    subst hn
    simp [ReloadNamespaceCommit, ReloadNamespaceCommitTrace, hp, h.ns, GetNamespace, hns]
  refine ⟨hok, ⟨_, hc.1⟩, ?_⟩
  obtain ⟨v', hv', h1, h2, _⟩ := commit_activates_last_prepared h n hok
  rw [hv] at hv'; cases hv'
  exact ⟨h1, h2⟩

theorem commitRetry_spec {m : Manager} (hg : Good m) (n : Name) (f : Fault) :
    Good (commitRetry n commitRetryTimes f m).1 ∧
    (f = .fail → commitRetry n commitRetryTimes f m = (m, true)) ∧
    (∀ v, Ready m n v → ((commitRetry n commitRetryTimes f m).2 = false ↔ f = .ok) ∧
      (f ≠ .fail → Runs (commitRetry n commitRetryTimes f m).1 n (some v))) := by
  obtain ⟨s, h⟩ := hg
  have hc := (commit_refines h n).1
  have hgc : Good (ReloadNamespaceCommit m n).1 := ⟨_, hc⟩
  cases f with
  | fail =>
    have e : commitRetry n commitRetryTimes .fail m = (m, true) := by
      simp [commitRetry, commitRetryTimes]
    rw [e]
    exact ⟨⟨s, h⟩, fun _ => rfl, fun v _ => ⟨by simp, fun h => absurd rfl h⟩⟩
  | lost =>
    have e : commitRetry n commitRetryTimes .lost m = ((ReloadNamespaceCommit m n).1, true) := by
      simp [commitRetry, commitRetryTimes]
    rw [e]
    exact ⟨hgc, (fun h => by cases h), fun v hr => ⟨by simp, fun _ => (commit_ready hr).2.2⟩⟩
  | ok =>
    have e : commitRetry n commitRetryTimes .ok m =
        ((ReloadNamespaceCommit m n).1, (ReloadNamespaceCommit m n).2 != .ok) := by
      cases he : (ReloadNamespaceCommit m n).2 <;> simp [commitRetry, commitRetryTimes, he]
    rw [e]
    refine ⟨hgc, (fun h => by cases h), ?_⟩
    intro v hr
    have hk := commit_ready hr
    exact ⟨by simp [hk.1], fun _ => hk.2.2⟩

/-! ### the phases over all proxies -/

theorem prepareAll_spec (store : Table) (n : Name) (b : Bool) :
    ∀ (ms : List Manager) (fs : List PF), (∀ m ∈ ms, Good m) →
      (∀ m' ∈ (prepareAll store n b ms fs).map (·.1), Good m') ∧
      Forall2 sameView ms ((prepareAll store n b ms fs).map (·.1)) ∧
      ∀ v, store n = some v → (prepareAll store n b ms fs).any (·.2) = false →
        ∀ m' ∈ (prepareAll store n b ms fs).map (·.1), Ready m' n v := by
  intro ms
  induction ms with
  | nil => intro fs _; simp [prepareAll]; exact Forall2.nil
  | cons m ms ih =>
    intro fs hg
    have hm := prepareRetry_spec store n b prepareRetryTimes (fs.headD PF.none).p m (hg m (by simp))
    have hrest := ih fs.tail (fun x hx => hg x (by simp [hx]))
    simp only [prepareAll, List.map_cons, List.any_cons]
    refine ⟨?_, Forall2.cons hm.2.1 hrest.2.1, ?_⟩
    · intro m' hm'
      simp only [List.mem_cons] at hm'
      rcases hm' with e | e
      · subst e; exact hm.1
      · exact hrest.1 m' e
    · intro v hv hany m' hm'
      simp only [Bool.or_eq_false_iff] at hany
      simp only [List.mem_cons] at hm'
      rcases hm' with e | e
      · subst e; exact hm.2.2 v (by decide) hany.1 hv
      · exact hrest.2.2 v hv hany.2 m' e

theorem commitAll_good (n : Name) :
    ∀ (ms : List Manager) (fs : List PF), (∀ m ∈ ms, Good m) →
      ∀ m' ∈ (commitAll n ms fs).map (·.1), Good m' := by
  intro ms
  induction ms with
  | nil => intro fs _; simp [commitAll]
  | cons m ms ih =>
    intro fs hg m' hm'
    simp only [commitAll, List.map_cons, List.mem_cons] at hm'
    rcases hm' with e | e
    · subst e; exact (commitRetry_spec (hg m (by simp)) n _).1
    · exact ih fs.tail (fun x hx => hg x (by simp [hx])) m' e

/-- Success of the commit phase on prepared proxies: every commit was
    delivered and answered, and every proxy now runs `v`. -/
theorem commitAll_success (n : Name) (v : Ver) :
    ∀ (ms : List Manager) (fs : List PF), (∀ m ∈ ms, Ready m n v) →
      (commitAll n ms fs).any (·.2) = false →
      ∀ m' ∈ (commitAll n ms fs).map (·.1), Runs m' n (some v) := by
  intro ms
  induction ms with
  | nil => intro fs _ _; simp [commitAll]
  | cons m ms ih =>
    intro fs hr hany m' hm'
    simp only [commitAll, List.any_cons, Bool.or_eq_false_iff] at hany
    simp only [commitAll, List.map_cons, List.mem_cons] at hm'
    have hm := hr m (by simp)
    have hg : Good m := by obtain ⟨s, h, _⟩ := hm; exact ⟨s, h⟩
    have hs := (commitRetry_spec hg n (fs.headD PF.none).c).2.2 v hm
    rcases hm' with e | e
    · subst e
      have hf : (fs.headD PF.none).c = .ok := hs.1.mp hany.1
      exact hs.2 (by rw [hf]; simp)
    · exact ih fs.tail (fun x hx => hr x (by simp [hx])) hany.2 m' e

theorem commitAll_allOk (n : Name) (v : Ver) :
    ∀ (ms : List Manager) (fs : List PF), (∀ m ∈ ms, Ready m n v) → CommitsAllOk fs →
      (commitAll n ms fs).any (·.2) = false := by
  intro ms
  induction ms with
  | nil => intro fs _ _; simp [commitAll]
  | cons m ms ih =>
    intro fs hr hok
    have hm := hr m (by simp)
    have hg : Good m := by obtain ⟨s, h, _⟩ := hm; exact ⟨s, h⟩
    have hf : (fs.headD PF.none).c = .ok := by
      cases fs with
      | nil => rfl
      | cons f fs => exact hok f (by simp)
    have htail : CommitsAllOk fs.tail := fun f hf => hok f (List.mem_of_mem_tail hf)
    simp only [commitAll, List.any_cons, Bool.or_eq_false_iff]
    exact ⟨((commitRetry_spec hg n _).2.2 v hm).1.mpr hf, ih fs.tail (fun x hx => hr x (by simp [hx])) htail⟩

theorem commitAll_allFail (n : Name) :
    ∀ (ms : List Manager) (fs : List PF), (∀ m ∈ ms, Good m) → CommitsAllFail fs ms.length →
      (commitAll n ms fs).map (·.1) = ms := by
  intro ms
  induction ms with
  | nil => intro fs _ _; simp [commitAll]
  | cons m ms ih =>
    intro fs hg hf
    cases fs with
    | nil => have := hf.1; simp at this
    | cons f fs =>
      have h1 : f.c = .fail := hf.2 f (by simp)
      have h2 : CommitsAllFail fs ms.length := ⟨by have := hf.1; simp at this; omega, fun g hg' => hf.2 g (by simp [hg'])⟩
      simp only [commitAll, List.map_cons, List.headD_cons, List.tail_cons]
      rw [(commitRetry_spec (hg m (by simp)) n f.c).2.1 h1, ih fs (fun x hx => hg x (by simp [hx])) h2]

/-! ### ModifyNamespace -/

theorem rollback_restores (store : Table) (n : Name) (v : Ver) :
    rollbackNamespace (store.set n v) n (store n) = store := by
  funext k
  cases h : store n with
  | none => by_cases hk : k = n <;> simp [rollbackNamespace, Table.erase, Table.set, hk, h]
  | some e => by_cases hk : k = n <;> simp [rollbackNamespace, Table.set, hk, h]

/-- The proxies stay in states reachable by whole operations, whatever happens. -/
theorem modify_preserves_wf (w : World) (hw : WF w) (n : Name) (v : Ver) (kind : Kind) (fs : List PF) :
    WF (ModifyNamespace w n v kind fs).1 := by
  unfold ModifyNamespace
  by_cases hk : kind = .invalid
  · simp [hk]; exact hw
  · have hp := prepareAll_spec (w.store.set n v) n (kind != .unbuildable) w.proxies fs hw
    simp only [hk, if_false]
    split
    · exact hp.1
    · split
      · exact commitAll_good n _ fs hp.1
      · exact commitAll_good n _ fs hp.1

/-- **Success ⇒ applied everywhere** (full strength: any number of proxies,
    any placement of faults).  If `ModifyNamespace` reports success, the store
    holds the new configuration and every registered proxy runs it. -/
theorem modify_success_on_every_proxy (w : World) (hw : WF w) (n : Name) (v : Ver) (kind : Kind) (fs : List PF)
    (hok : (ModifyNamespace w n v kind fs).2 = .ok) :
    (ModifyNamespace w n v kind fs).1.store n = some v ∧
    (∀ k, k ≠ n → (ModifyNamespace w n v kind fs).1.store k = w.store k) ∧
    ∀ m' ∈ (ModifyNamespace w n v kind fs).1.proxies, Runs m' n (some v) := by
  unfold ModifyNamespace at hok ⊢
  by_cases hk : kind = .invalid
  · simp [hk] at hok
  · have hp := prepareAll_spec (w.store.set n v) n (kind != .unbuildable) w.proxies fs hw
    simp only [hk, if_false] at hok ⊢
    split at hok
    · cases hok
    · rename_i hprep
      split at hok
      · cases hok
      · rename_i hcom
        simp only [hprep, hcom]
        simp only [Bool.not_eq_true] at hprep hcom
        have hready := hp.2.2 v (by simp) hprep
        refine ⟨by simp, fun k hk => by simp [set_other _ _ hk], ?_⟩
        exact commitAll_success n v _ fs hready hcom

example : (ModifyNamespace { store := Table.ofList [(0, 1)], proxies := [CreateManager [(0, 1)], CreateManager [(0, 1)]] }
    0 2 .good [{ p := [.fail, .lost], c := .ok }]).2 = .ok := by decide

/-- **C32, partial.**  Under `CommitsAllOk fs ∨ CommitsAllFail fs k` (no commit
    request fails or is lost once any commit request has been performed):
    success ⇒ the store and every proxy hold the new configuration;
    failure ⇒ the store is the previous one and every proxy serves exactly what
    it served before — for every number of proxies and every placement of
    prepare-phase faults, retries included. -/
theorem twophase_all_or_none_partial (w : World) (hw : WF w) (n : Name) (v : Ver) (kind : Kind) (fs : List PF)
    (H : CommitsAllOk fs ∨ CommitsAllFail fs w.proxies.length) :
    ((ModifyNamespace w n v kind fs).2 = .ok →
        (ModifyNamespace w n v kind fs).1.store n = some v ∧
        ∀ m' ∈ (ModifyNamespace w n v kind fs).1.proxies, Runs m' n (some v)) ∧
    ((ModifyNamespace w n v kind fs).2 ≠ .ok →
        (ModifyNamespace w n v kind fs).1.store = w.store ∧
        Forall2 sameView w.proxies (ModifyNamespace w n v kind fs).1.proxies) := by
  refine ⟨fun hok => ⟨(modify_success_on_every_proxy w hw n v kind fs hok).1,
    (modify_success_on_every_proxy w hw n v kind fs hok).2.2⟩, ?_⟩
  intro hne
  have hrefl : Forall2 sameView w.proxies w.proxies := by
    generalize w.proxies = l
    induction l with
    | nil => exact Forall2.nil
    | cons a l ih => exact Forall2.cons (sameView_refl a) ih
  unfold ModifyNamespace at hne ⊢
  by_cases hk : kind = .invalid
  · simp only [hk, if_true]; exact ⟨trivial, hrefl⟩
  · have hp := prepareAll_spec (w.store.set n v) n (kind != .unbuildable) w.proxies fs hw
    simp only [hk, if_false] at hne ⊢
    split
    · exact ⟨rollback_restores w.store n v, hp.2.1⟩
    · rename_i hprep
      simp only [hprep] at hne
      simp only [Bool.not_eq_true] at hprep
      have hready := hp.2.2 v (by simp) hprep
      rcases H with H | H
      · have := commitAll_allOk n v _ fs hready H
        simp [this] at hne
      · have hlen : ((prepareAll (w.store.set n v) n (kind != .unbuildable) w.proxies fs).map (·.1)).length = w.proxies.length :=
          (Forall2.length_eq hp.2.1).symm
        have hsame := commitAll_allFail n _ fs hp.1 (by rw [hlen]; exact H)
        split
        · exact ⟨rollback_restores w.store n v, by rw [hsame]; exact hp.2.1⟩
        · rename_i hcom
          simp [hcom] at hne

example : CommitsAllFail [{ p := [], c := .fail }, { p := [.lost], c := .fail }] 2 := ⟨by decide, by
  intro f hf; simp at hf; rcases hf with e | e <;> subst e <;> rfl⟩

example : (ModifyNamespace { store := Table.ofList [(0, 1)], proxies := [CreateManager [(0, 1)], CreateManager [(0, 1)]] }
    0 2 .good [{ p := [], c := .fail }, { p := [.lost], c := .fail }]).2 = .errCommit := by decide

/-! ### DelNamespace -/

theorem rpc_delete_spec {m : Manager} (hg : Good m) (f : Fault) (n : Name) :
    Good (rpc f m (fun m => DeleteNamespace m n)).1 ∧
    ((rpc f m (fun m => DeleteNamespace m n)).2 = false → Runs (rpc f m (fun m => DeleteNamespace m n)).1 n none) := by
  obtain ⟨s, h⟩ := hg
  have hd := delete_refines h n
  have hr := delete_removes_only_that h n
  cases f with
  | fail => rw [rpc_fail]; exact ⟨⟨s, h⟩, fun hf => by cases hf⟩
  | lost => rw [rpc_lost]; exact ⟨⟨_, hd.1⟩, fun hf => by cases hf⟩
  | ok => rw [rpc_ok]; exact ⟨⟨_, hd.1⟩, fun _ => ⟨hr.1, hr.2.1⟩⟩

theorem delLoop_spec (n : Name) :
    ∀ (ms : List Manager) (fs : List Fault), (∀ m ∈ ms, Good m) →
      (∀ m' ∈ (delLoop n ms fs).1, Good m') ∧
      ((delLoop n ms fs).2 = false → ∀ m' ∈ (delLoop n ms fs).1, Runs m' n none) := by
  intro ms
  induction ms with
  | nil => intro fs _; simp [delLoop]
  | cons m ms ih =>
    intro fs hg
    have hm := rpc_delete_spec (hg m (by simp)) (fs.headD .ok) n
    have hrest := ih fs.tail (fun x hx => hg x (by simp [hx]))
    unfold delLoop
    cases he : (rpc (fs.headD .ok) m (fun m => DeleteNamespace m n)).2 with
    | true =>
      simp only [he, if_true]
      refine ⟨?_, by intro h; cases h⟩
      intro m' hm'
      rcases List.mem_cons.mp hm' with e | e
      · subst e; exact hm.1
      · exact hg m' (by simp [e])
    | false =>
      simp only [he]
      refine ⟨?_, ?_⟩
      · intro m' hm'
        rcases List.mem_cons.mp hm' with e | e
        · subst e; exact hm.1
        · exact hrest.1 m' e
      · intro h2 m' hm'
        rcases List.mem_cons.mp hm' with e | e
        · subst e; exact hm.2 he
        · exact hrest.2 (by simpa using h2) m' e

theorem del_preserves_wf (w : World) (hw : WF w) (n : Name) (fs : List Fault) :
    WF (DelNamespace w n fs).1 := by
  unfold DelNamespace
  cases h : (delLoop n w.proxies fs).2 <;> simp only [h] <;> exact (delLoop_spec n w.proxies fs hw).1

/-- **Success ⇒ deleted everywhere** (full strength). -/
theorem del_success_on_every_proxy (w : World) (hw : WF w) (n : Name) (fs : List Fault)
    (hok : (DelNamespace w n fs).2 = .ok) :
    (DelNamespace w n fs).1.store n = none ∧ ∀ m' ∈ (DelNamespace w n fs).1.proxies, Runs m' n none := by
  unfold DelNamespace at hok ⊢
  cases h : (delLoop n w.proxies fs).2 with
  | true => simp [h] at hok
  | false =>
    simp only [h]
    exact ⟨by simp, (delLoop_spec n w.proxies fs hw).2 h⟩

example : (DelNamespace { store := Table.ofList [(0, 1)], proxies := [CreateManager [(0, 1)], CreateManager [(0, 1)]] }
    0 []).2 = .ok := by decide

/-- **Failure ⇒ the stored configuration is the previous one** (full strength,
    after the repair of `DelNamespace`). -/
theorem del_failure_store_restored (w : World) (n : Name) (fs : List Fault)
    (hne : (DelNamespace w n fs).2 ≠ .ok) : (DelNamespace w n fs).1.store = w.store := by
  unfold DelNamespace at hne ⊢
  cases h : (delLoop n w.proxies fs).2 with
  | false => simp [h] at hne
  | true =>
    simp only [h, if_true]
    funext k
    cases he : w.store n with
    | none => by_cases hk : k = n <;> simp [Table.erase, hk, he]
    | some e => by_cases hk : k = n <;> simp [Table.erase, Table.set, hk, he]

theorem delLoop_allOk (n : Name) :
    ∀ (ms : List Manager) (fs : List Fault), (∀ m ∈ ms, Good m) → (∀ f ∈ fs, f = Fault.ok) →
      (delLoop n ms fs).2 = false := by
  intro ms
  induction ms with
  | nil => intro fs _ _; simp [delLoop]
  | cons m ms ih =>
    intro fs hg hf
    have h1 : fs.headD .ok = .ok := by
      cases fs with
      | nil => rfl
      | cons f fs => exact hf f (by simp)
    obtain ⟨s, h⟩ := hg m (by simp)
    have hd := (delete_refines h n).2
    unfold delLoop
    simp only [h1, rpc_ok, hd]
    simpa using ih fs.tail (fun x hx => hg x (by simp [hx])) (fun f hf' => hf f (List.mem_of_mem_tail hf'))

/-- **C32 for deletions, partial.**  If every delete request is delivered and
    answered, or the very first one is not delivered, then: success ⇒ store and
    every proxy have dropped the namespace; failure ⇒ store and every proxy are
    as before.  (A delete that fails after another proxy's delete was performed
    cannot be undone: `del_failure_witness`.) -/
theorem del_all_or_none_partial (w : World) (hw : WF w) (n : Name) (fs : List Fault)
    (H : (∀ f ∈ fs, f = Fault.ok) ∨ fs.head? = some .fail) :
    ((DelNamespace w n fs).2 = .ok →
        (DelNamespace w n fs).1.store n = none ∧ ∀ m' ∈ (DelNamespace w n fs).1.proxies, Runs m' n none) ∧
    ((DelNamespace w n fs).2 ≠ .ok →
        (DelNamespace w n fs).1.store = w.store ∧ (DelNamespace w n fs).1.proxies = w.proxies) := by
  refine ⟨del_success_on_every_proxy w hw n fs, fun hne => ⟨del_failure_store_restored w n fs hne, ?_⟩⟩
  rcases H with H | H
  · have := delLoop_allOk n w.proxies fs hw H
    unfold DelNamespace at hne
    simp [this] at hne
  · cases fs with
    | nil => cases H
    | cons f fs =>
      have hf : f = .fail := by simpa using H
      subst hf
      unfold DelNamespace at hne ⊢
      cases hp : w.proxies with
      | nil => simp [hp, delLoop] at hne
      | cons m ms => simp [delLoop]

example : (DelNamespace { store := Table.ofList [(0, 1)], proxies := [CreateManager [(0, 1)], CreateManager [(0, 1)]] }
    0 [.fail]).2 = .errDelete := by decide

/-! ### two concurrent changes -/

/-- The version last prepared for `n` on the proxy is `v`. -/
def LastPrep (m : Manager) (n : Name) (v : Ver) : Prop := ∃ s, Rel m s ∧ s.prepared n = some v

/-- `t` is the prepare (`c = false`) or commit (`c = true`) request of change `x` to proxy `i`. -/
def isTok (x : Bool) (i : Nat) (c : Bool) (t : Tok) : Prop := t.second = x ∧ t.proxy = i ∧ t.commit = c

/-- Every commit request of change `x` comes after that change's prepare
    request to the same proxy (cc sends commits only after all prepares returned). -/
def Ordered (x : Bool) (pre rest : List Tok) : Prop :=
  ∀ pre' t post, rest = pre' ++ t :: post → t.second = x → t.commit = true →
    ∃ t' ∈ pre ++ pre', isTok x t.proxy false t'

@[simp] theorem sel_upd_same {α : Type} (x : Bool) (p : α × α) (v : α) : sel x (upd x p v) = v := by
  cases x <;> simp [sel, upd]

theorem sel_upd_other {α : Type} {x y : Bool} (h : x ≠ y) (p : α × α) (v : α) : sel x (upd y p v) = sel x p := by
  cases x <;> cases y <;> simp_all [sel, upd]

theorem runs_of_sameView {m m' : Manager} (h : sameView m m') {n : Name} {c : Option Ver} (hr : Runs m n c) :
    Runs m' n c := ⟨(h n).1.trans hr.1, (h n).2.trans hr.2⟩

theorem pair_prepare_spec {m : Manager} (hg : Good m) (store : Table) (n : Name) :
    Good (proxyPrepare store n true m).1 ∧ sameView m (proxyPrepare store n true m).1 ∧
    (∀ k v, k ≠ n → LastPrep m k v → LastPrep (proxyPrepare store n true m).1 k v) ∧
    (∀ v, (proxyPrepare store n true m).2 = .ok → store n = some v → LastPrep (proxyPrepare store n true m).1 n v) := by
  have hp := proxyPrepare_spec hg store n true
  refine ⟨hp.1, hp.2.1, ?_, ?_⟩
  · intro k v hk ⟨s, h, hs⟩
    unfold proxyPrepare
    cases hst : store n with
    | none => exact ⟨s, h, hs⟩
    | some w =>
      have hr := prepare_refines h n w true
      refine ⟨_, hr.1, ?_⟩
      rw [hr.2]
      simp [Spec.step, set_other _ _ hk, hs]
  · intro v hok hv
    obtain ⟨s, h, _, _, hs⟩ := hp.2.2 v hok hv
    exact ⟨s, h, hs⟩

theorem pair_commit_spec {m : Manager} (hg : Good m) (n : Name) :
    Good (ReloadNamespaceCommit m n).1 ∧
    (∀ k v, LastPrep m k v → LastPrep (ReloadNamespaceCommit m n).1 k v) ∧
    (∀ k c, k ≠ n → Runs m k c → Runs (ReloadNamespaceCommit m n).1 k c) ∧
    (∀ v, (ReloadNamespaceCommit m n).2 = .ok → LastPrep m n v → Runs (ReloadNamespaceCommit m n).1 n (some v)) := by
  obtain ⟨s0, h0⟩ := hg
  refine ⟨⟨_, (commit_refines h0 n).1⟩, ?_, ?_, ?_⟩
  · intro k v ⟨s, h, hs⟩
    refine ⟨_, (commit_refines h n).1, ?_⟩
    cases (ReloadNamespaceCommit m n).2 <;> simp [Spec.step, hs]
    cases s.prepared n <;> simp [hs]
  · intro k c hk hr
    cases hok : (ReloadNamespaceCommit m n).2 with
    | ok =>
      obtain ⟨_, _, _, _, hoth⟩ := commit_activates_last_prepared h0 n hok
      exact ⟨(hoth k hk).1.trans hr.1, (hoth k hk).2.trans hr.2⟩
    | errNotPrepared =>
      have := failed_commit_keeps_view h0 n (by rw [hok]; simp) k
      exact ⟨this.1.trans hr.1, this.2.trans hr.2⟩
    | errBuild =>
      have := failed_commit_keeps_view h0 n (by rw [hok]; simp) k
      exact ⟨this.1.trans hr.1, this.2.trans hr.2⟩
    | panic =>
      have := failed_commit_keeps_view h0 n (by rw [hok]; simp) k
      exact ⟨this.1.trans hr.1, this.2.trans hr.2⟩
  · intro v hok ⟨s, h, hs⟩
    obtain ⟨v', hv', h1, h2, _⟩ := commit_activates_last_prepared h n hok
    rw [hs] at hv'; cases hv'
    exact ⟨h1, h2⟩

/-- Invariant of the request-by-request execution of a pair of changes, for
    change `x` with namespace `n` and new version `v`. -/
structure PInv (x : Bool) (n : Name) (v : Ver) (pre : List Tok) (s : PairState) : Prop where
  good : ∀ m ∈ s.proxies, Good m
  prep : ∀ i m, s.proxies[i]? = some m → (∃ t ∈ pre, isTok x i false t) → sel x s.prepErr = false →
    LastPrep m n v
  com : ∀ i m, s.proxies[i]? = some m → (∃ t ∈ pre, isTok x i true t) → sel x s.prepErr = false →
    sel x s.comErr = false → Runs m n (some v)

theorem mem_set_good {l : List Manager} {j : Nat} {a : Manager} (hl : ∀ m ∈ l, Good m) (ha : Good a) :
    ∀ m ∈ l.set j a, Good m := by
  intro m hm
  rcases List.mem_or_eq_of_mem_set hm with h | h
  · exact hl m h
  · subst h; exact ha

theorem pairStep_inv (store : Table) (na nb : Name) (x : Bool) (v : Ver) (hne : na ≠ nb)
    (hst : store (nm na nb x) = some v)
    (pre : List Tok) (s : PairState) (t : Tok) (h : PInv x (nm na nb x) v pre s)
    (hord : t.second = x → t.commit = true → ∃ t' ∈ pre, isTok x t.proxy false t') :
    PInv x (nm na nb x) v (pre ++ [t]) (pairStep store na nb s t) := by
  -- a request already in `pre ++ [t]` for proxy i ≠ t.proxy (or of another kind) was in `pre`
  have hold : ∀ i c, (∃ t' ∈ pre ++ [t], isTok x i c t') → ¬ isTok x i c t → ∃ t' ∈ pre, isTok x i c t' := by
    intro i c ⟨t', hm, ht'⟩ hn
    rcases List.mem_append.mp hm with hm | hm
    · exact ⟨t', hm, ht'⟩
    · simp at hm; subst hm; exact absurd ht' hn
  unfold pairStep
  cases hj : s.proxies[t.proxy]? with
  | none =>
    simp only
    refine ⟨h.good, ?_, ?_⟩
    · intro i m hi hex
      apply h.prep i m hi
      apply hold i false hex
      intro ⟨_, hp, _⟩; rw [hp] at hj; rw [hj] at hi; cases hi
    · intro i m hi hex
      apply h.com i m hi
      apply hold i true hex
      intro ⟨_, hp, _⟩; rw [hp] at hj; rw [hj] at hi; cases hi
  | some mj =>
    have hgj : Good mj := h.good mj (List.mem_of_getElem? hj)
    have hlt : t.proxy < s.proxies.length := by
      rcases List.getElem?_eq_some_iff.mp hj with ⟨hl, _⟩; exact hl
    simp only
    cases hc : t.commit with
    | true =>
      simp only [if_true]
      cases hpe : sel t.second s.prepErr with
      | true =>
        -- the change was abandoned: nothing happens
        simp only [if_true]
        refine ⟨h.good, ?_, ?_⟩
        · intro i m hi hex
          apply h.prep i m hi
          apply hold i false hex
          intro ⟨_, _, hcc⟩; rw [hc] at hcc; cases hcc
        · intro i m hi hex hp
          by_cases hx : t.second = x
          · rw [hx] at hpe; rw [hpe] at hp; cases hp
          · apply h.com i m hi _ hp
            apply hold i true hex
            intro ⟨hs, _, _⟩; exact hx hs
      | false =>
        simp only [Bool.false_eq_true, if_false, rpc_ok]
        have hcs := pair_commit_spec hgj (nm na nb t.second)
        refine ⟨mem_set_good h.good hcs.1, ?_, ?_⟩
        · intro i m hi hex hp
          have hex' : ∃ t' ∈ pre, isTok x i false t' := by
            apply hold i false hex
            intro ⟨_, _, hcc⟩; rw [hc] at hcc; cases hcc
          by_cases hij : t.proxy = i
          · subst hij
            rw [List.getElem?_set_self hlt] at hi
            cases hi
            exact hcs.2.1 _ _ (h.prep _ mj hj hex' hp)
          · rw [List.getElem?_set_ne hij] at hi
            exact h.prep i m hi hex' hp
        · intro i m hi hex hp hce
          by_cases hij : t.proxy = i
          · subst hij
            rw [List.getElem?_set_self hlt] at hi
            cases hi
            by_cases hx : t.second = x
            · -- this is the commit of change x on this proxy
              subst hx
              simp only [sel_upd_same, Bool.or_eq_false_iff] at hce
              have hok : (ReloadNamespaceCommit mj (nm na nb t.second)).2 = .ok := by
                have := hce.2
                cases ho : (ReloadNamespaceCommit mj (nm na nb t.second)).2 <;> simp [ho] at this ⊢
              obtain ⟨t', ht', htok⟩ := hord rfl hc
              exact hcs.2.2.2 v hok (h.prep _ mj hj ⟨t', ht', htok⟩ hp)
            · -- a commit of the other change: another namespace
              have hnn : nm na nb x ≠ nm na nb t.second := by
                cases hx' : x <;> cases ht : t.second <;> simp_all [nm]
                · exact fun e => hne e.symm
              rw [sel_upd_other (Ne.symm hx)] at hce
              have hex' : ∃ t' ∈ pre, isTok x t.proxy true t' := by
                apply hold _ true hex
                intro ⟨hs, _, _⟩; exact hx hs
              exact hcs.2.2.1 _ _ hnn (h.com _ mj hj hex' hp hce)
          · rw [List.getElem?_set_ne hij] at hi
            have hex' : ∃ t' ∈ pre, isTok x i true t' := by
              apply hold i true hex
              intro ⟨_, hp', _⟩; exact hij hp'
            have hce' : sel x s.comErr = false := by
              by_cases hx : t.second = x
              · subst hx
                simp only [sel_upd_same, Bool.or_eq_false_iff] at hce
                exact hce.1
              · rwa [sel_upd_other (Ne.symm hx)] at hce
            exact h.com i m hi hex' hp hce'
    | false =>
      simp only [Bool.false_eq_true, if_false, rpc_ok]
      have hps := pair_prepare_spec hgj store (nm na nb t.second)
      refine ⟨mem_set_good h.good hps.1, ?_, ?_⟩
      · intro i m hi hex hp
        by_cases hij : t.proxy = i
        · subst hij
          rw [List.getElem?_set_self hlt] at hi
          cases hi
          by_cases hx : t.second = x
          · subst hx
            simp only [sel_upd_same, Bool.or_eq_false_iff] at hp
            have hok : (proxyPrepare store (nm na nb t.second) true mj).2 = .ok := by
              have := hp.2
              cases ho : (proxyPrepare store (nm na nb t.second) true mj).2 <;> simp [ho] at this ⊢
            exact hps.2.2.2 v hok hst
          · have hnn : nm na nb x ≠ nm na nb t.second := by
              cases hx' : x <;> cases ht : t.second <;> simp_all [nm]
              · exact fun e => hne e.symm
            rw [sel_upd_other (Ne.symm hx)] at hp
            have hex' : ∃ t' ∈ pre, isTok x t.proxy false t' := by
              apply hold _ false hex
              intro ⟨hs, _, _⟩; exact hx hs
            exact hps.2.2.1 _ _ hnn (h.prep _ mj hj hex' hp)
        · rw [List.getElem?_set_ne hij] at hi
          have hex' : ∃ t' ∈ pre, isTok x i false t' := by
            apply hold i false hex
            intro ⟨_, hp', _⟩; exact hij hp'
          have hp' : sel x s.prepErr = false := by
            by_cases hx : t.second = x
            · subst hx
              simp only [sel_upd_same, Bool.or_eq_false_iff] at hp
              exact hp.1
            · rwa [sel_upd_other (Ne.symm hx)] at hp
          exact h.prep i m hi hex' hp'
      · intro i m hi hex hp hce
        have hex' : ∃ t' ∈ pre, isTok x i true t' := by
          apply hold i true hex
          intro ⟨_, _, hcc⟩; rw [hc] at hcc; cases hcc
        have hp' : sel x s.prepErr = false := by
          by_cases hx : t.second = x
          · subst hx
            simp only [sel_upd_same, Bool.or_eq_false_iff] at hp
            exact hp.1
          · rwa [sel_upd_other (Ne.symm hx)] at hp
        by_cases hij : t.proxy = i
        · subst hij
          rw [List.getElem?_set_self hlt] at hi
          cases hi
          exact runs_of_sameView hps.2.1 (h.com _ mj hj hex' hp' hce)
        · rw [List.getElem?_set_ne hij] at hi
          exact h.com i m hi hex' hp' hce

theorem pairFold_inv (store : Table) (na nb : Name) (x : Bool) (v : Ver) (hne : na ≠ nb)
    (hst : store (nm na nb x) = some v) :
    ∀ (rest pre : List Tok) (s : PairState), PInv x (nm na nb x) v pre s → Ordered x pre rest →
      PInv x (nm na nb x) v (pre ++ rest) (rest.foldl (pairStep store na nb) s) := by
  intro rest
  induction rest with
  | nil => intro pre s h _; simpa using h
  | cons t rest ih =>
    intro pre s h hord
    have hstep := pairStep_inv store na nb x v hne hst pre s t h
      (fun hx hc => by simpa using hord [] t rest rfl hx hc)
    have := ih (pre ++ [t]) _ hstep (by
      intro pre' t' post he hx hc
      have := hord (t :: pre') t' post (by simp [he]) hx hc
      simpa using this)
    simpa using this

theorem pairStep_length (store : Table) (na nb : Name) (s : PairState) (t : Tok) :
    (pairStep store na nb s t).proxies.length = s.proxies.length := by
  unfold pairStep
  cases s.proxies[t.proxy]? with
  | none => rfl
  | some m =>
    simp only
    split
    · split <;> simp
    · simp

theorem pairFold_length (store : Table) (na nb : Name) :
    ∀ (rest : List Tok) (s : PairState), (rest.foldl (pairStep store na nb) s).proxies.length = s.proxies.length := by
  intro rest
  induction rest with
  | nil => intro s; rfl
  | cons t rest ih => intro s; simp only [List.foldl_cons]; rw [ih, pairStep_length]

/-- **Concurrent changes, success ⇒ applied everywhere** (full strength).
    Two `ModifyNamespace` calls for different namespaces run concurrently and
    their requests reach the proxies in ANY order in which each change's commit
    to a proxy follows its prepare to that proxy, every proxy receiving the
    commit.  Whichever of the two reports success (`x = false`: the first,
    `x = true`: the second): the store holds its new configuration and every
    proxy runs it. -/
theorem pair_success_on_every_proxy (w : World) (hw : WF w) (na : Name) (va : Ver) (nb : Name) (vb : Ver)
    (hne : na ≠ nb) (sched : List Tok) (x : Bool)
    (hord : Ordered x [] sched)
    (hall : ∀ i, i < w.proxies.length → ∃ t ∈ sched, isTok x i true t)
    (hok : sel x (ModifyPair w na va nb vb sched).2 = .ok) :
    (ModifyPair w na va nb vb sched).1.store (nm na nb x) = some (sel x (va, vb)) ∧
    ∀ m' ∈ (ModifyPair w na va nb vb sched).1.proxies, Runs m' (nm na nb x) (some (sel x (va, vb))) := by
  have hst : ((w.store.set na va).set nb vb) (nm na nb x) = some (sel x (va, vb)) := by
    cases x <;> simp [nm, sel, Table.set, hne]
  have h0 : PInv x (nm na nb x) (sel x (va, vb)) []
      { proxies := w.proxies, prepErr := (false, false), comErr := (false, false) } :=
    ⟨hw, (fun i m _ hex _ => by obtain ⟨t, ht, _⟩ := hex; cases ht),
      (fun i m _ hex _ _ => by obtain ⟨t, ht, _⟩ := hex; cases ht)⟩
  have hinv := pairFold_inv _ na nb x _ hne hst sched [] _ h0 hord
  have hlen := pairFold_length ((w.store.set na va).set nb vb) na nb sched
    { proxies := w.proxies, prepErr := (false, false), comErr := (false, false) }
  simp only [List.nil_append] at hinv
  unfold ModifyPair at hok ⊢
  simp only at hok ⊢
  generalize hS : sched.foldl (pairStep ((w.store.set na va).set nb vb) na nb)
      { proxies := w.proxies, prepErr := (false, false), comErr := (false, false) } = S at hok hinv hlen ⊢
  -- success of change x means: no prepare error and no commit error of x
  have hflags : sel x S.prepErr = false ∧ sel x S.comErr = false := by
    cases x
    · simp only [sel, Bool.false_eq_true, if_false] at hok ⊢
      cases h1 : S.prepErr.1 <;> cases h2 : S.comErr.1 <;> simp_all
    · simp only [sel, if_true] at hok ⊢
      cases h1 : S.prepErr.2 <;> cases h2 : S.comErr.2 <;> simp_all
  have hroll : ∀ (c : Prop) [Decidable c] (st : Table) (n : Name) (e : Option Ver) (k : Name), k ≠ n →
      (if c then st else rollbackNamespace st n e) k = st k := by
    intro c _ st n e k hk
    split
    · rfl
    · cases e <;> simp [rollbackNamespace, Table.set, Table.erase, hk]
  refine ⟨?_, ?_⟩
  · -- the store: the successful change is not rolled back, the other one touches another key
    cases x
    · simp only [sel, Bool.false_eq_true, if_false] at hflags ⊢
      simp only [hflags.1, hflags.2, Bool.false_eq_true, if_false, if_true, nm]
      rw [hroll _ _ _ _ _ hne]
      simp [Table.set, hne]
    · simp only [sel, if_true] at hflags ⊢
      simp only [hflags.1, hflags.2, Bool.false_eq_true, if_false, if_true, nm]
      rw [hroll _ _ _ _ _ (Ne.symm hne)]
      simp [Table.set]
  · intro m' hm'
    obtain ⟨i, hi, hget⟩ := List.getElem_of_mem hm'
    have hi' : i < w.proxies.length := by rw [← hlen]; exact hi
    have hsome : S.proxies[i]? = some m' := by rw [List.getElem?_eq_getElem hi, hget]
    exact hinv.com i m' hsome (hall i hi') hflags.1 hflags.2

example : sel false (ModifyPair
    { store := Table.ofList [(0, 1), (1, 1)], proxies := [CreateManager [(0, 1), (1, 1)], CreateManager [(0, 1), (1, 1)]] }
    0 2 1 2
    [⟨false, 0, false⟩, ⟨false, 1, false⟩, ⟨false, 0, true⟩, ⟨true, 0, false⟩, ⟨false, 1, true⟩, ⟨true, 1, false⟩,
     ⟨true, 0, true⟩, ⟨true, 1, true⟩]).2 = .ok := by decide

/-! ### witnesses: the property is false of the code -/

def w2 : World := { store := Table.ofList [(0, 1)], proxies := [CreateManager [(0, 1)], CreateManager [(0, 1)]] }

/-- Commit performed on proxy 0, refused on proxy 1: failure is reported and
    the store is rolled back to version 1, but proxy 0 runs version 2. -/
theorem twophase_split_witness :
    let r := ModifyNamespace w2 0 2 .good [PF.none, { p := [], c := .fail }]
    r.2 = .errCommit ∧ r.1.store 0 = some 1 ∧
    r.1.proxies.map (fun m => GetNamespace m 0) = [some (some 2), some (some 1)] := by decide

/-- Every commit performed, one answer lost (a timeout): failure is reported,
    the store is rolled back, and every proxy runs the new configuration. -/
theorem twophase_lost_commit_witness :
    let r := ModifyNamespace w2 0 2 .good [PF.none, { p := [], c := .lost }]
    r.2 = .errCommit ∧ r.1.store 0 = some 1 ∧
    r.1.proxies.map (fun m => GetNamespace m 0) = [some (some 2), some (some 2)] := by decide

/-- A failed prepare phase leaves the pending prepare on the proxies that did
    prepare (there is no abort message). -/
theorem prepare_leftover_witness :
    let r := ModifyNamespace w2 0 2 .good [PF.none, { p := [.fail, .fail, .fail], c := .ok }]
    r.2 = .errPrepare ∧ r.1.store 0 = some 1 ∧
    r.1.proxies.map (fun m => (m.reloadPrepared, GetNamespace m 0)) = [(true, some (some 1)), (false, some (some 1))] := by
  decide

/-- `DelNamespace` failing on the second proxy: failure is reported and the
    stored configuration is put back, but the first proxy has dropped the namespace. -/
theorem del_failure_witness :
    let r := DelNamespace w2 0 [.ok, .fail]
    r.2 = .errDelete ∧ r.1.store 0 = some 1 ∧
    r.1.proxies.map (fun m => GetNamespace m 0) = [some none, some (some 1)] := by decide

/-- Before the repair of `DelNamespace`: refused by the first proxy, no proxy
    dropped the namespace, failure reported, and the stored configuration was
    gone all the same (regression witness for the `fix:` commit). -/
theorem pinned_del_store_witness :
    let r := Pinned.DelNamespace w2 0 [.fail, .ok]
    r.2 = .errDelete ∧ r.1.store 0 = none ∧
    r.1.proxies.map (fun m => GetNamespace m 0) = [some (some 1), some (some 1)] := by decide

/-- Two concurrent changes of different namespaces, no fault at all: proxy 0
    serves the requests of change a first, proxy 1 sees the prepare of b
    between a's prepare and commit.  Change a is reported failed and rolled
    back in the store while proxy 0 runs it. -/
theorem concurrent_split_witness :
    let w : World := { store := Table.ofList [(0, 1), (1, 1)],
                       proxies := [CreateManager [(0, 1), (1, 1)], CreateManager [(0, 1), (1, 1)]] }
    let r := ModifyPair w 0 2 1 2
      [⟨false, 0, false⟩, ⟨false, 1, false⟩, ⟨true, 1, false⟩, ⟨false, 0, true⟩, ⟨false, 1, true⟩,
       ⟨true, 0, false⟩, ⟨true, 0, true⟩, ⟨true, 1, true⟩]
    r.2.1 = .errCommit ∧ r.2.2 = .ok ∧ r.1.store 0 = some 1 ∧
    r.1.proxies.map (fun m => GetNamespace m 0) = [some (some 2), some (some 1)] := by decide

end GaeaVerif.C32
