import GaeaVerif.Model.Balancer
import GaeaVerif.Gen.Consts
/-
  C25 — Replica selection follows weights, health and locality.

  Theorems about `Model/Balancer.lean` (the tie to /repo/backend/balancer.go
  and backend/slice.go is the correspondence check `gvh run C25`; the policy
  constants come from the source through `Gen/Consts.lean`).

  Rendering of the English statement:
  * "normalized weight" of a replica of weight `w > 0` = `w / gcd` where `gcd`
    is the value computed by the model's `gcd`, proved to be the greatest
    common divisor of the positive weights (`gcd_spec`); the "normalized weight
    total" is the queue length `L`;
  * "any run of consecutive replica selections as long as the normalized
    weight total picks each replica exactly its normalized weight times":
    `window_exact`, `any_window_exact` (every queue, every cursor value, every
    position in a run), `newBalancer_counts`/`initBalancers_wf` (what the queue
    holds), put together for `GetSlaveConn` in
    `closed_selection_follows_weights`; "a zero-weight replica is never
    picked": same theorem and `run_sound`;
  * "a replica marked down is never picked while another eligible replica is
    up": `getNodeFromBalancer_sound` (never a down node),
    `getNodeFromBalancer_complete` (an up node is found if there is one),
    `GetSlaveConn_spec`/`run_sound` (`Sound`: the "no replica" errors occur only
    when every candidate is down);
  * "with forced-local reads a replica outside the proxy's datacenter is never
    picked": `Sound` (`.conn`, `.pool`), `selected_node_ok`;
  * "preferred-local falls back to remote replicas only when no local one can
    serve": `prefer_local_first` (full strength, after the `fix:` commit 5e14b16;
    `getConnFromBalancerTryAll_spec` is the retry loop's contract,
    `GetSlaveConnGets_spec` says which pools one selection asks), with the
    converse `prefer_local_serves` and `prefer_gives_up_only_if_none_serves`;
    `prefer_local_legacy_witness` records the repaired defect;
  * configurations: any node list, weights, datacenters, states (no bound);
    schedules: `cas_linearizable` (any interleaving of the atomic actions of
    concurrent `next` callers); `GetSlaveConn` runs under the `DBInfo` lock.
-/
namespace GaeaVerif.C25
open GaeaVerif GaeaVerif.Balancer

/-- The policy numbers the model dispatches on are those of the source. -/
theorem policy_consts :
    Gen.c25LocalSlaveReadClosed = LocalSlaveReadClosed ∧
    Gen.c25LocalSlaveReadPrefer = LocalSlaveReadPrefer ∧
    Gen.c25LocalSlaveReadForce = LocalSlaveReadForce := by decide

/-! ### `gcd` computes the greatest common divisor of positive weights -/

theorem gcdHelperFuel_nat (n : Nat) : ∀ (a b : Nat), b < n →
    gcdHelperFuel n (a : Int) (b : Int) = (Nat.gcd a b : Int) := by
  induction n with
  | zero => intro a b h; omega
  | succ n ih =>
    intro a b hb
    unfold gcdHelperFuel
    by_cases h0 : b = 0
    · subst h0; simp
    · have : ¬ ((b : Int) = 0) := by omega
      simp only [this, if_false]
      rw [← Int.ofNat_tmod, ih b (a % b) (by have := Nat.mod_lt a (Nat.pos_of_ne_zero h0); omega)]
      rw [Nat.gcd_comm b (a % b), ← Nat.gcd_rec b a, Nat.gcd_comm]

theorem gcdHelper_nonneg (a b : Int) (ha : 0 ≤ a) (hb : 0 ≤ b) :
    gcdHelper a b = (Nat.gcd a.natAbs b.natAbs : Int) := by
  unfold gcdHelper
  have ea : a = (a.natAbs : Int) := (Int.natAbs_of_nonneg ha).symm
  have eb : b = (b.natAbs : Int) := (Int.natAbs_of_nonneg hb).symm
  conv => lhs; rw [ea, eb]
  rw [gcdHelperFuel_nat _ _ _ (by simp)]

/-- the mathematical gcd of `acc` and the absolute values of `ws` -/
def foldGcd (acc : Nat) (ws : List Int) : Nat := ws.foldl (fun g w => Nat.gcd g w.natAbs) acc

theorem foldGcd_one (ws : List Int) : foldGcd 1 ws = 1 := by
  induction ws with
  | nil => rfl
  | cons w ws ih => simp [foldGcd, List.foldl_cons] at ih ⊢; exact ih

theorem gcdLoop_nonneg (ws : List Int) : ∀ (g : Int), 0 ≤ g → (∀ w ∈ ws, 0 ≤ w) →
    gcdLoop g ws = (foldGcd g.natAbs ws : Int) := by
  induction ws with
  | nil => intro g hg _; simp [gcdLoop, foldGcd, Int.natAbs_of_nonneg hg]
  | cons w ws ih =>
    intro g hg hws
    have hw : 0 ≤ w := hws w (by simp)
    simp only [gcdLoop, gcdHelper_nonneg g w hg hw]
    by_cases h1 : ((Nat.gcd g.natAbs w.natAbs : Nat) : Int) = 1
    · simp only [h1, if_true]
      have : Nat.gcd g.natAbs w.natAbs = 1 := by omega
      simp only [foldGcd, List.foldl_cons, this]
      have := foldGcd_one ws
      simp only [foldGcd] at this
      rw [this]; rfl
    · simp only [h1, if_false]
      rw [ih _ (by omega) (fun x hx => hws x (by simp [hx]))]
      simp [foldGcd, List.foldl_cons]

theorem foldGcd_dvd (ws : List Int) : ∀ acc, foldGcd acc ws ∣ acc ∧ ∀ w ∈ ws, foldGcd acc ws ∣ w.natAbs := by
  induction ws with
  | nil => intro acc; simp [foldGcd]
  | cons w ws ih =>
    intro acc
    have h := ih (Nat.gcd acc w.natAbs)
    simp only [foldGcd, List.foldl_cons] at h ⊢
    refine ⟨Nat.dvd_trans h.1 (Nat.gcd_dvd_left _ _), ?_⟩
    intro x hx
    rcases List.mem_cons.mp hx with rfl | hx
    · exact Nat.dvd_trans h.1 (Nat.gcd_dvd_right _ _)
    · exact h.2 x hx

theorem dvd_foldGcd (d : Nat) (ws : List Int) : ∀ acc, d ∣ acc → (∀ w ∈ ws, d ∣ w.natAbs) → d ∣ foldGcd acc ws := by
  induction ws with
  | nil => intro acc h _; simpa [foldGcd] using h
  | cons w ws ih =>
    intro acc h hws
    simp only [foldGcd, List.foldl_cons]
    exact ih _ (Nat.dvd_gcd h (hws w (by simp))) (fun x hx => hws x (by simp [hx]))

/-- **`gcd` is the greatest common divisor.** For a non-empty list of positive
    weights the value computed by `gcd` (with its early exit at 1) is positive,
    divides every weight, and every common divisor of the weights divides it. -/
theorem gcd_spec (ws : List Int) (hne : ws ≠ []) (hpos : ∀ w ∈ ws, 0 < w) :
    ∃ g : Nat, gcd ws = (g : Int) ∧ 0 < g ∧ (∀ w ∈ ws, (g : Int) ∣ w) ∧
      ∀ d : Nat, (∀ w ∈ ws, (d : Int) ∣ w) → d ∣ g := by
  match ws, hne with
  | w :: rest, _ =>
    have hw : 0 < w := hpos w (by simp)
    refine ⟨foldGcd w.natAbs rest, ?_, ?_, ?_, ?_⟩
    · simp only [gcd]
      exact gcdLoop_nonneg rest w (by omega) (fun x hx => by have := hpos x (by simp [hx]); omega)
    · have := (foldGcd_dvd rest w.natAbs).1
      have hp : 0 < w.natAbs := by omega
      exact Nat.pos_of_dvd_of_pos this hp
    · intro x hx
      rw [Int.ofNat_dvd_left]
      rcases List.mem_cons.mp hx with rfl | hx
      · exact (foldGcd_dvd rest x.natAbs).1
      · exact (foldGcd_dvd rest w.natAbs).2 x hx
    · intro d hd
      apply dvd_foldGcd
      · exact Int.ofNat_dvd_left.mp (hd w (by simp))
      · intro x hx; exact Int.ofNat_dvd_left.mp (hd x (by simp [hx]))

example : gcd [4, 6, 8] = 2 ∧ gcd [2, 3, 4] = 1 ∧ gcd [5] = 5 := by decide

/-! ### `newBalancer`: the queue holds every index its normalized weight times -/

theorem mem_expand (g : Int) (is : List Int) : ∀ (ws : List Int) (v : Int), v ∈ expand g is ws → v ∈ is := by
  induction is with
  | nil => intro ws v h; simp [expand] at h
  | cons i is ih =>
    intro ws v h
    cases ws with
    | nil => simp [expand] at h
    | cons w ws =>
      simp only [expand, List.mem_append, List.mem_replicate] at h
      rcases h with ⟨_, rfl⟩ | h
      · simp
      · exact List.mem_cons_of_mem _ (ih ws v h)

/-- With distinct indices, index `i` of weight `w` occurs `w / gcdVal` times. -/
theorem count_expand (g : Int) (is : List Int) : ∀ (ws : List Int) (i w : Int),
    is.Nodup → (i, w) ∈ is.zip ws → (expand g is ws).count i = (Int.tdiv w g).toNat := by
  induction is with
  | nil => intro ws i w _ h; simp at h
  | cons i0 is ih =>
    intro ws i w hnd h
    cases ws with
    | nil => simp at h
    | cons w0 ws =>
      simp only [List.zip_cons_cons, List.mem_cons, Prod.mk.injEq] at h
      simp only [expand, List.count_append, List.count_replicate]
      have hnd' := List.nodup_cons.mp hnd
      rcases h with ⟨rfl, rfl⟩ | h
      · have : (expand g is ws).count i = 0 := by
          rw [List.count_eq_zero]; intro hm; exact hnd'.1 (mem_expand g is ws i hm)
        simp [this]
      · have hi : i ∈ is := (List.of_mem_zip h).1
        have hne : ¬ (i0 = i) := by intro e; subst e; exact hnd'.1 hi
        simp [hne, ih ws i w hnd'.2 h]

theorem count_expand_not_mem (g : Int) (is ws : List Int) (v : Int) (h : v ∉ is) :
    (expand g is ws).count v = 0 := by
  rw [List.count_eq_zero]; intro hm; exact h (mem_expand g is ws v hm)

/-- A permuting shuffle. -/
def Permutes (sh : List Int → List Int) : Prop := ∀ l, (sh l).Perm l

/-- **C25 (the queue).** For distinct node indices with positive weights and
    any shuffle that permutes, `newBalancer` succeeds, starts the cursor at 0
    and builds a queue in which index `i` of weight `w` occurs exactly
    `w / gcd(weights)` times (its normalized weight) and nothing else occurs. -/
theorem newBalancer_counts (is ws : List Int) (sh : List Int → List Int) (hsh : Permutes sh)
    (hlen : is.length = ws.length) (hne : is ≠ []) (hpos : ∀ w ∈ ws, 0 < w) (hnd : is.Nodup) :
    ∃ b, newBalancer is ws sh = .ok (some b) ∧ b.nextIndex = 0 ∧
      (∀ i w, (i, w) ∈ is.zip ws → b.roundRobinQ.count i = (Int.tdiv w (gcd ws)).toNat ∧
          1 ≤ (Int.tdiv w (gcd ws)).toNat) ∧
      (∀ v, v ∈ b.roundRobinQ → v ∈ is) := by
  have hwne : ws ≠ [] := by
    intro e; rw [e] at hlen; exact hne (List.length_eq_zero_iff.mp hlen)
  obtain ⟨g, hg, hgpos, hgd, _⟩ := gcd_spec ws hwne hpos
  have hperm : ∀ q : List Int, (if q.length > 1 then sh q else q).Perm q := by
    intro q; split
    · exact hsh q
    · exact List.Perm.refl q
  have h1 : ¬ (is.length ≠ ws.length) := by omega
  have h2 : ¬ (is.length = 0) := by
    intro e; exact hne (List.length_eq_zero_iff.mp e)
  have h3 : ¬ (gcd ws = 0) := by omega
  refine ⟨{ nextIndex := 0,
            roundRobinQ := if (expand (gcd ws) is ws).length > 1 then sh (expand (gcd ws) is ws)
                           else expand (gcd ws) is ws,
            poolIndices := is, poolWeights := ws },
          by unfold newBalancer; simp only [h1, h2, h3, if_false], rfl, ?_, ?_⟩
  · intro i w hiw
    have hp := hperm (expand (gcd ws) is ws)
    simp only
    rw [hp.count_eq, count_expand (gcd ws) is ws i w hnd hiw]
    refine ⟨rfl, ?_⟩
    have hw := hpos w (List.of_mem_zip hiw).2
    have hdv := hgd w (List.of_mem_zip hiw).2
    rw [hg]
    obtain ⟨k, hk⟩ := hdv
    have hgi : (0 : Int) < (g : Int) := by omega
    have : (1 : Int) ≤ Int.tdiv w (g : Int) := by
      apply Int.le_tdiv_of_mul_le hgi
      rw [hk]
      have hkpos : 0 < k := by
        rcases Int.lt_trichotomy k 0 with hk0 | hk0 | hk0
        · have : (g : Int) * k < 0 := Int.mul_neg_of_pos_of_neg hgi hk0
          omega
        · subst hk0; simp at hk; omega
        · exact hk0
      have : (g : Int) * 1 ≤ (g : Int) * k := Int.mul_le_mul_of_nonneg_left (by omega) (by omega)
      omega
    omega
  · intro v hv
    have hp := hperm (expand (gcd ws) is ws)
    exact mem_expand _ _ _ _ (hp.subset hv)

example : Permutes (fun l => l.reverse) := fun l => List.reverse_perm l

/-! ### `next`: the cursor walks the queue cyclically -/

theorem qIdx_lt (q : List Int) (i : Nat) (h : i < q.length) : qIdx q i = .ok q[i] := by
  unfold qIdx; rw [List.getElem?_eq_getElem h]

theorem next_inc (c : Nat) (q pi pw : List Int) (h2 : 2 ≤ q.length) (hL : q.length ≤ 4294967296)
    (hc : c + 1 < q.length) :
    (Balancer.mk c q pi pw).next = (Balancer.mk (c + 1) q pi pw, .ok (q[c + 1]'hc)) := by
  unfold Balancer.next
  have h0 : ¬ (q.length = 0) := by omega
  have h1 : ¬ (q.length = 1) := by omega
  have h3 : ¬ (c + 1 ≥ q.length) := by omega
  have hm : (c + 1) % 4294967296 = c + 1 := Nat.mod_eq_of_lt (by omega)
  simp only [h0, h1, h3, if_false, qIdx_lt q (c + 1) hc, hm]

theorem next_wrap (c : Nat) (q pi pw : List Int) (h2 : 2 ≤ q.length) (hc : c + 1 ≥ q.length) :
    (Balancer.mk c q pi pw).next = (Balancer.mk 0 q pi pw, .ok (q[0]'(by omega))) := by
  unfold Balancer.next
  have h0 : ¬ (q.length = 0) := by omega
  have h1 : ¬ (q.length = 1) := by omega
  simp only [h0, h1, hc, if_false, if_true, qIdx_lt q 0 (by omega)]

theorem nextN_append (m n : Nat) : ∀ (b b1 b2 : Balancer) (xs ys : List Int),
    nextN m b = .ok (b1, xs) → nextN n b1 = .ok (b2, ys) → nextN (m + n) b = .ok (b2, xs ++ ys) := by
  induction m with
  | zero =>
    intro b b1 b2 xs ys h1 h2
    simp only [nextN, R.ok.injEq, Prod.mk.injEq] at h1
    obtain ⟨rfl, rfl⟩ := h1
    simpa using h2
  | succ m ih =>
    intro b b1 b2 xs ys h1 h2
    have e : m + 1 + n = (m + n) + 1 := by omega
    rw [e]
    simp only [nextN] at h1 ⊢
    rcases hb : b.next with ⟨b', r⟩
    rw [hb] at h1
    cases r with
    | ok v =>
      simp only at h1 ⊢
      cases hr : nextN m b' with
      | ok p =>
        obtain ⟨b'', vs⟩ := p
        rw [hr] at h1
        simp only [R.ok.injEq, Prod.mk.injEq] at h1
        obtain ⟨rfl, rfl⟩ := h1
        rw [ih b' b'' b2 vs ys hr h2]
        rfl
      | fail => rw [hr] at h1; simp at h1
      | panic => rw [hr] at h1; simp at h1
    | fail => simp at h1
    | panic => simp at h1

/-- `k` picks that stay inside the queue: the elements after the cursor. -/
theorem nextN_inc (q pi pw : List Int) (h2 : 2 ≤ q.length) (hL : q.length ≤ 4294967296) (k : Nat) :
    ∀ c, c + k < q.length →
      nextN k (Balancer.mk c q pi pw) = .ok (Balancer.mk (c + k) q pi pw, (q.drop (c + 1)).take k) := by
  induction k with
  | zero => intro c _; simp [nextN]
  | succ k ih =>
    intro c hc
    have hc1 : c + 1 < q.length := by omega
    simp only [nextN, next_inc c q pi pw h2 hL hc1]
    rw [ih (c + 1) (by omega)]
    have e : c + 1 + k = c + (k + 1) := by omega
    rw [e]
    have : q.drop (c + 1) = q[c + 1] :: q.drop (c + 1 + 1) := List.drop_eq_getElem_cons hc1
    rw [this, List.take_succ_cons]

/-- A full round from a cursor inside the queue: the queue rotated, and the
    cursor is back where it was. -/
theorem nextN_round (c : Nat) (q pi pw : List Int) (h2 : 2 ≤ q.length) (hL : q.length ≤ 4294967296)
    (hc : c < q.length) :
    nextN q.length (Balancer.mk c q pi pw) =
      .ok (Balancer.mk c q pi pw, q.drop (c + 1) ++ q.take (c + 1)) := by
  have s1 := nextN_inc q pi pw h2 hL (q.length - 1 - c) c (by omega)
  have e1 : c + (q.length - 1 - c) = q.length - 1 := by omega
  rw [e1] at s1
  have s2 : nextN 1 (Balancer.mk (q.length - 1) q pi pw) = .ok (Balancer.mk 0 q pi pw, [q[0]'(by omega)]) := by
    simp only [nextN, next_wrap (q.length - 1) q pi pw h2 (by omega)]
  have s3 := nextN_inc q pi pw h2 hL c 0 (by omega)
  have s12 := nextN_append _ _ _ _ _ _ _ s1 s2
  have s123 := nextN_append _ _ _ _ _ _ _ s12 s3
  have e : q.length - 1 - c + 1 + c = q.length := by omega
  rw [e] at s123
  rw [s123]
  have t1 : (q.drop (c + 1)).take (q.length - 1 - c) = q.drop (c + 1) := by
    apply List.take_of_length_le; simp; omega
  have t2 : q.take (c + 1) = q[0]'(by omega) :: (q.drop 1).take c := by
    have hq : q = q[0]'(by omega) :: q.drop 1 := by
      have := List.drop_eq_getElem_cons (l := q) (i := 0) (by omega)
      simpa using this
    conv => lhs; rw [hq]
    rw [List.take_succ_cons]
  simp only [Nat.zero_add, t1, t2, List.append_assoc, List.singleton_append]

/-- A full round from a cursor at or beyond the queue length (possible only for
    a cursor set from outside): the queue in order. -/
theorem nextN_round_out (c : Nat) (q pi pw : List Int) (h2 : 2 ≤ q.length) (hL : q.length ≤ 4294967296)
    (hc : q.length ≤ c) :
    nextN q.length (Balancer.mk c q pi pw) = .ok (Balancer.mk (q.length - 1) q pi pw, q) := by
  have s1 : nextN 1 (Balancer.mk c q pi pw) = .ok (Balancer.mk 0 q pi pw, [q[0]'(by omega)]) := by
    simp only [nextN, next_wrap c q pi pw h2 (by omega)]
  have s2 := nextN_inc q pi pw h2 hL (q.length - 1) 0 (by omega)
  have s12 := nextN_append _ _ _ _ _ _ _ s1 s2
  have e : 1 + (q.length - 1) = q.length := by omega
  rw [e] at s12
  rw [s12]
  have t1 : (q.drop (0 + 1)).take (q.length - 1) = q.drop 1 := by
    apply List.take_of_length_le; simp
  have hq : q = q[0]'(by omega) :: q.drop 1 := by
    have := List.drop_eq_getElem_cons (l := q) (i := 0) (by omega)
    simpa using this
  simp only [Nat.zero_add, t1, List.singleton_append, ← hq]

/-- `next` never touches the queue, the indices or the weights. -/
theorem next_queue (b : Balancer) : b.next.1.roundRobinQ = b.roundRobinQ := by
  unfold Balancer.next
  dsimp only
  split
  · rfl
  · split <;> rfl

theorem nextN_queue (n : Nat) : ∀ (b b' : Balancer) (ps : List Int),
    nextN n b = .ok (b', ps) → b'.roundRobinQ = b.roundRobinQ ∧ ps.length = n := by
  induction n with
  | zero => intro b b' ps h; simp only [nextN, R.ok.injEq, Prod.mk.injEq] at h; obtain ⟨rfl, rfl⟩ := h; simp
  | succ n ih =>
    intro b b' ps h
    simp only [nextN] at h
    rcases hb : b.next with ⟨b1, r⟩
    rw [hb] at h
    cases r with
    | ok v =>
      simp only at h
      cases hr : nextN n b1 with
      | ok p =>
        obtain ⟨b2, vs⟩ := p
        rw [hr] at h
        simp only [R.ok.injEq, Prod.mk.injEq] at h
        obtain ⟨rfl, rfl⟩ := h
        have := ih b1 b2 vs hr
        have hq := next_queue b
        rw [hb] at hq
        exact ⟨by rw [this.1, hq], by simp [this.2]⟩
      | fail => rw [hr] at h; simp at h
      | panic => rw [hr] at h; simp at h
    | fail => simp at h
    | panic => simp at h

/-- **C25 (exact windows).** For every queue of length `L ≥ 2` and *every*
    value of the cursor, the next `L` selections succeed and are a permutation
    of the queue: each index is picked exactly as often as it occurs in the
    queue (its normalized weight, `newBalancer_counts`). -/
theorem window_exact (b : Balancer) (h2 : 2 ≤ b.roundRobinQ.length) (hL : b.roundRobinQ.length ≤ 4294967296) :
    ∃ b' ps, nextN b.roundRobinQ.length b = .ok (b', ps) ∧ ps.Perm b.roundRobinQ ∧
      b'.roundRobinQ = b.roundRobinQ := by
  obtain ⟨c, q, pi, pw⟩ := b
  simp only at h2 hL ⊢
  by_cases hc : c < q.length
  · refine ⟨_, _, nextN_round c q pi pw h2 hL hc, ?_, rfl⟩
    have : (q.drop (c + 1) ++ q.take (c + 1)).Perm (q.take (c + 1) ++ q.drop (c + 1)) := List.perm_append_comm
    rw [List.take_append_drop] at this
    exact this
  · exact ⟨_, _, nextN_round_out c q pi pw h2 hL (by omega), List.Perm.refl _, rfl⟩

/-- Any number of selections succeeds (queue of length ≥ 2). -/
theorem nextN_ok (n : Nat) : ∀ (b : Balancer), 2 ≤ b.roundRobinQ.length →
    ∃ b' ps, nextN n b = .ok (b', ps) := by
  induction n with
  | zero => intro b _; exact ⟨b, [], rfl⟩
  | succ n ih =>
    intro b h2
    obtain ⟨c, q, pi, pw⟩ := b
    simp only at h2
    have hn : ∃ c' v, (Balancer.mk c q pi pw).next = (Balancer.mk c' q pi pw, .ok v) := by
      unfold Balancer.next
      have h0 : ¬ (q.length = 0) := by omega
      have h1 : ¬ (q.length = 1) := by omega
      simp only [h0, h1, if_false]
      by_cases hc : c + 1 ≥ q.length
      · simp only [hc, if_true]
        exact ⟨_, q[0]'(by omega), by rw [qIdx_lt q 0 (by omega)]⟩
      · simp only [hc, if_false]
        exact ⟨_, q[c + 1]'(by omega), by rw [qIdx_lt q (c + 1) (by omega)]⟩
    obtain ⟨c', v, e⟩ := hn
    obtain ⟨b', ps, e2⟩ := ih (Balancer.mk c' q pi pw) h2
    exact ⟨b', v :: ps, by simp only [nextN, e, e2]⟩

/-- **C25 (any run of consecutive selections).** In a run of `n + L`
    selections from any state, the `L` selections following the first `n` are
    a permutation of the queue — wherever the window starts. -/
theorem any_window_exact (b : Balancer) (h2 : 2 ≤ b.roundRobinQ.length)
    (hL : b.roundRobinQ.length ≤ 4294967296) (n : Nat) :
    ∃ b' ps, nextN (n + b.roundRobinQ.length) b = .ok (b', ps) ∧
      ((ps.drop n).take b.roundRobinQ.length).Perm b.roundRobinQ := by
  obtain ⟨b1, xs, e1⟩ := nextN_ok n b h2
  have hq := nextN_queue n b b1 xs e1
  obtain ⟨b2, ys, e2, hp, _⟩ := window_exact b1 (by rw [hq.1]; exact h2) (by rw [hq.1]; exact hL)
  rw [hq.1] at e2 hp
  refine ⟨b2, xs ++ ys, nextN_append _ _ _ _ _ _ _ e1 e2, ?_⟩
  have hy := (nextN_queue _ b1 b2 ys e2).2
  rw [← hq.2, List.drop_left, ← hy, List.take_length]
  exact hp

example : (nextN 7 (Balancer.mk 4294967294 [0, 1, 2] [] [])).isPanic = false ∧
    (match nextN 7 (Balancer.mk 4294967294 [0, 1, 2] [] []) with | .ok (_, ps) => ps | _ => []) = [0, 1, 2, 0, 1, 2, 0] := by
  decide

/-- A queue of one entry: that entry, always (the cursor is not used). -/
theorem next_single (c : Nat) (v : Int) (pi pw : List Int) :
    (Balancer.mk c [v] pi pw).next = (Balancer.mk c [v] pi pw, .ok v) := by
  simp [Balancer.next, qIdx]

/-- An empty queue: the error return. -/
theorem next_empty (c : Nat) (pi pw : List Int) :
    (Balancer.mk c [] pi pw).next = (Balancer.mk c [] pi pw, .fail) := by
  simp [Balancer.next]

/-! ### `getNodeFromBalancer`: a node that is up is found whenever there is one -/

theorem next_ok (b : Balancer) (hne : b.roundRobinQ ≠ []) :
    ∃ b1 v, b.next = (b1, .ok v) ∧ v ∈ b.roundRobinQ ∧ b1.roundRobinQ = b.roundRobinQ := by
  obtain ⟨c, q, pi, pw⟩ := b
  simp only at hne ⊢
  have hpos : 0 < q.length := List.length_pos_iff.mpr hne
  by_cases h1 : q.length = 1
  · refine ⟨Balancer.mk c q pi pw, q[0], ?_, List.getElem_mem _, rfl⟩
    unfold Balancer.next
    have h0 : ¬ (q.length = 0) := by omega
    simp [h1, qIdx_lt q 0 hpos]
  · have h2 : 2 ≤ q.length := by omega
    by_cases hc : c + 1 ≥ q.length
    · exact ⟨_, _, next_wrap c q pi pw h2 hc, List.getElem_mem _, rfl⟩
    · unfold Balancer.next
      have h0 : ¬ (q.length = 0) := by omega
      simp only [h0, h1, hc, if_false, qIdx_lt q (c + 1) (by omega)]
      exact ⟨_, _, rfl, List.getElem_mem _, rfl⟩

/-- node `v` exists and is up -/
def upAt (nodes : List Node) (v : Int) : Bool :=
  match GetNode nodes v with
  | some nd => nd.up
  | none => false

theorem getNodeLoop_spec (nodes : List Node) (n : Nat) : ∀ (b : Balancer), b.roundRobinQ ≠ [] →
    (∃ b' i, getNodeLoop nodes n b = (b', .conn i) ∧ i ∈ b.roundRobinQ ∧ upAt nodes i = true ∧
        b'.roundRobinQ = b.roundRobinQ) ∨
    (∃ b' ps, getNodeLoop nodes n b = (b', .noHealthy) ∧ nextN n b = .ok (b', ps) ∧
        (∀ v ∈ ps, upAt nodes v = false) ∧ b'.roundRobinQ = b.roundRobinQ) := by
  induction n with
  | zero => intro b _; exact Or.inr ⟨b, [], rfl, rfl, by simp, rfl⟩
  | succ n ih =>
    intro b hne
    obtain ⟨b1, v, e, hv, hq⟩ := next_ok b hne
    have hne1 : b1.roundRobinQ ≠ [] := by rw [hq]; exact hne
    simp only [getNodeLoop, nextN, e]
    cases hg : GetNode nodes v with
    | some nd =>
      by_cases hu : nd.up = true
      · simp only [hu, if_true]
        exact Or.inl ⟨b1, v, rfl, hv, by simp [upAt, hg, hu], hq⟩
      · simp only [hu, if_false]
        rcases ih b1 hne1 with ⟨b', i, h1, h2, h3, h4⟩ | ⟨b', ps, h1, h2, h3, h4⟩
        · exact Or.inl ⟨b', i, h1, by rw [← hq]; exact h2, h3, by rw [h4, hq]⟩
        · refine Or.inr ⟨b', v :: ps, h1, by rw [h2], ?_, by rw [h4, hq]⟩
          intro x hx
          rcases List.mem_cons.mp hx with rfl | hx
          · simp [upAt, hg]; simpa using hu
          · exact h3 x hx
    | none =>
      simp only
      rcases ih b1 hne1 with ⟨b', i, h1, h2, h3, h4⟩ | ⟨b', ps, h1, h2, h3, h4⟩
      · exact Or.inl ⟨b', i, h1, by rw [← hq]; exact h2, h3, by rw [h4, hq]⟩
      · refine Or.inr ⟨b', v :: ps, h1, by rw [h2], ?_, by rw [h4, hq]⟩
        intro x hx
        rcases List.mem_cons.mp hx with rfl | hx
        · simp [upAt, hg]
        · exact h3 x hx

/-- **C25 (a down replica is never picked).** The node returned by
    `getNodeFromBalancer` is in the balancer's queue and is up; the queue is
    never modified. -/
theorem getNodeFromBalancer_sound (nodes : List Node) (b b' : Balancer) (i : Int)
    (h : getNodeFromBalancer nodes b = (b', .conn i)) :
    i ∈ b.roundRobinQ ∧ upAt nodes i = true ∧ b'.roundRobinQ = b.roundRobinQ := by
  unfold getNodeFromBalancer at h
  by_cases hne : b.roundRobinQ = []
  · rw [hne] at h; simp [getNodeLoop] at h
  · rcases getNodeLoop_spec nodes b.roundRobinQ.length b hne with ⟨b2, j, h1, h2, h3, h4⟩ | ⟨b2, ps, h1, _, _, _⟩
    · rw [h1] at h
      simp only [Prod.mk.injEq, Sel.conn.injEq] at h
      obtain ⟨rfl, rfl⟩ := h
      exact ⟨h2, h3, h4⟩
    · rw [h1] at h; simp at h

/-- **C25 (… while another eligible replica is up).** If some node of the
    balancer's queue is up, `getNodeFromBalancer` returns a node (it does not
    give up): one round of the cursor visits every entry of the queue. -/
theorem getNodeFromBalancer_complete (nodes : List Node) (b : Balancer)
    (hL : b.roundRobinQ.length ≤ 4294967296)
    (hup : ∃ v ∈ b.roundRobinQ, upAt nodes v = true) :
    ∃ b' i, getNodeFromBalancer nodes b = (b', .conn i) := by
  obtain ⟨v, hv, hvu⟩ := hup
  have hne : b.roundRobinQ ≠ [] := List.ne_nil_of_mem hv
  unfold getNodeFromBalancer
  rcases getNodeLoop_spec nodes b.roundRobinQ.length b hne with ⟨b2, j, h1, _, _, _⟩ | ⟨b2, ps, _, h2, h3, _⟩
  · exact ⟨b2, j, h1⟩
  · exfalso
    by_cases h1 : b.roundRobinQ.length = 1
    · -- a queue of one entry: the single pick is that entry
      obtain ⟨c, q, pi, pw⟩ := b
      simp only at h1 h2 hv
      match q, h1 with
      | [x], _ =>
        simp only [List.length_singleton, nextN, next_single] at h2
        simp only [R.ok.injEq, Prod.mk.injEq] at h2
        have hx : v = x := by simpa using hv
        have := h3 x (by rw [← h2.2]; simp)
        rw [hx, this] at hvu; cases hvu
    · have hlen : 2 ≤ b.roundRobinQ.length := by
        have := List.length_pos_iff.mpr hne; omega
      obtain ⟨b3, ps', e, hp, _⟩ := window_exact b hlen hL
      rw [e] at h2
      simp only [R.ok.injEq, Prod.mk.injEq] at h2
      have : v ∈ ps := by rw [← h2.2]; exact hp.symm.subset hv
      rw [h3 v this] at hvu; cases hvu

theorem getNodeFromBalancer_cases (nodes : List Node) (b : Balancer) (hL : b.roundRobinQ.length ≤ 4294967296) :
    (∃ b' i, getNodeFromBalancer nodes b = (b', .conn i) ∧ i ∈ b.roundRobinQ ∧ upAt nodes i = true ∧
        b'.roundRobinQ = b.roundRobinQ) ∨
    (∃ b', getNodeFromBalancer nodes b = (b', .noHealthy) ∧ (∀ v ∈ b.roundRobinQ, upAt nodes v = false) ∧
        b'.roundRobinQ = b.roundRobinQ) := by
  by_cases hne : b.roundRobinQ = []
  · refine Or.inr ⟨b, ?_, by rw [hne]; simp, rfl⟩
    unfold getNodeFromBalancer; rw [hne]; rfl
  · by_cases hup : ∃ v ∈ b.roundRobinQ, upAt nodes v = true
    · obtain ⟨b', i, e⟩ := getNodeFromBalancer_complete nodes b hL hup
      have := getNodeFromBalancer_sound nodes b b' i e
      exact Or.inl ⟨b', i, e, this.1, this.2.1, this.2.2⟩
    · have hall : ∀ v ∈ b.roundRobinQ, upAt nodes v = false := by
        intro v hv
        cases h : upAt nodes v with
        | false => rfl
        | true => exact absurd ⟨v, hv, h⟩ hup
      unfold getNodeFromBalancer
      rcases getNodeLoop_spec nodes b.roundRobinQ.length b hne with ⟨b2, j, _, h2, h3, _⟩ | ⟨b2, ps, h1, _, _, h4⟩
      · rw [hall j h2] at h3; cases h3
      · exact Or.inr ⟨b2, h1, hall, h4⟩

/-- node `v` exists and its pool answers -/
def poolAt (nodes : List Node) (v : Int) : Bool :=
  match GetNode nodes v with
  | some nd => nd.poolOk
  | none => false

/-- `getConnFromBalancer`: the three possible outcomes and what each means. -/
theorem getConnFromBalancer_cases (nodes : List Node) (b : Balancer) (hL : b.roundRobinQ.length ≤ 4294967296) :
    ∃ b' o, getConnFromBalancer nodes b = (b', o) ∧ b'.roundRobinQ = b.roundRobinQ ∧
      ((∃ i, o = .conn i ∧ i ∈ b.roundRobinQ ∧ upAt nodes i = true ∧ poolAt nodes i = true) ∨
       (∃ i, o = .pool i ∧ i ∈ b.roundRobinQ ∧ upAt nodes i = true ∧ poolAt nodes i = false) ∨
       (o = .noHealthy ∧ ∀ v ∈ b.roundRobinQ, upAt nodes v = false)) := by
  unfold getConnFromBalancer
  rcases getNodeFromBalancer_cases nodes b hL with ⟨b', i, e, hi, hu, hq⟩ | ⟨b', e, hall, hq⟩
  · rw [e]
    simp only
    cases hg : GetNode nodes i with
    | none => simp [upAt, hg] at hu
    | some nd =>
      by_cases hp : nd.poolOk = true
      · simp only [hp, if_true]
        exact ⟨b', _, rfl, hq, Or.inl ⟨i, rfl, hi, hu, by simp [poolAt, hg, hp]⟩⟩
      · simp only [hp, if_false]
        exact ⟨b', _, rfl, hq, Or.inr (Or.inl ⟨i, rfl, hi, hu, by simp [poolAt, hg]; simpa using hp⟩)⟩
  · rw [e]
    exact ⟨b', _, rfl, hq, Or.inr (Or.inr ⟨rfl, hall⟩)⟩

/-! ### `getConnFromBalancerTryAll`: every node of the queue that is up is asked -/

/-- Any number of selections succeeds on a non-empty queue. -/
theorem nextN_ok' (n : Nat) : ∀ (b : Balancer), b.roundRobinQ ≠ [] →
    ∃ b' ps, nextN n b = .ok (b', ps) ∧ b'.roundRobinQ = b.roundRobinQ := by
  induction n with
  | zero => intro b _; exact ⟨b, [], rfl, rfl⟩
  | succ n ih =>
    intro b hne
    obtain ⟨b1, v, e, _, hq⟩ := next_ok b hne
    obtain ⟨b', ps, e2, hq2⟩ := ih b1 (by rw [hq]; exact hne)
    exact ⟨b', v :: ps, by simp only [nextN, e, e2], by rw [hq2, hq]⟩

/-- A run of `m + n` selections is a run of `m` followed by a run of `n`. -/
theorem nextN_split (m n : Nat) (b b2 : Balancer) (zs : List Int) (hne : b.roundRobinQ ≠ [])
    (h : nextN (m + n) b = .ok (b2, zs)) :
    ∃ b1 xs ys, nextN m b = .ok (b1, xs) ∧ nextN n b1 = .ok (b2, ys) ∧ zs = xs ++ ys := by
  obtain ⟨b1, xs, e1, hq1⟩ := nextN_ok' m b hne
  obtain ⟨b2', ys, e2, _⟩ := nextN_ok' n b1 (by rw [hq1]; exact hne)
  have := nextN_append m n b b1 b2' xs ys e1 e2
  rw [h] at this
  simp only [R.ok.injEq, Prod.mk.injEq] at this
  obtain ⟨rfl, rfl⟩ := this
  exact ⟨b1, xs, ys, e1, e2, rfl⟩

/-- One round of selections, from any cursor value, meets every entry of the queue. -/
theorem round_covers (b b' : Balancer) (ps : List Int) (hne : b.roundRobinQ ≠ [])
    (hL : b.roundRobinQ.length ≤ 4294967296) (h : nextN b.roundRobinQ.length b = .ok (b', ps)) :
    ∀ v ∈ b.roundRobinQ, v ∈ ps := by
  intro v hv
  by_cases h1 : b.roundRobinQ.length = 1
  · obtain ⟨c, q, pi, pw⟩ := b
    simp only at h1 h hv
    match q, h1 with
    | [x], _ =>
      simp only [List.length_singleton, nextN, next_single] at h
      simp only [R.ok.injEq, Prod.mk.injEq] at h
      have hx : v = x := by simpa using hv
      rw [← h.2, hx]; simp
  · have hlen : 2 ≤ b.roundRobinQ.length := by
      have := List.length_pos_iff.mpr hne; omega
    obtain ⟨b3, ps', e, hp, _⟩ := window_exact b hlen hL
    rw [e] at h
    simp only [R.ok.injEq, Prod.mk.injEq] at h
    rw [← h.2]; exact hp.symm.subset hv

/-- …and so does every longer run. -/
theorem nextN_covers (K : Nat) (b b' : Balancer) (ps : List Int) (hne : b.roundRobinQ ≠ [])
    (hL : b.roundRobinQ.length ≤ 4294967296) (hK : b.roundRobinQ.length ≤ K)
    (h : nextN K b = .ok (b', ps)) : ∀ v ∈ b.roundRobinQ, v ∈ ps := by
  have e : K = b.roundRobinQ.length + (K - b.roundRobinQ.length) := by omega
  rw [e] at h
  obtain ⟨b1, xs, ys, e1, _, rfl⟩ := nextN_split _ _ b b' ps hne h
  intro v hv
  exact List.mem_append_left _ (round_covers b b1 xs hne hL e1 v hv)

/-- `getNodeLoop` as a run of `next`: a node is returned after `k + 1 ≤ n`
    selections, the first `k` of which met nodes that are down; or all `n` did. -/
theorem getNodeLoop_trace (nodes : List Node) (n : Nat) : ∀ (b : Balancer), b.roundRobinQ ≠ [] →
    (∃ b' i k ps, getNodeLoop nodes n b = (b', .conn i) ∧ k < n ∧ nextN (k + 1) b = .ok (b', ps ++ [i]) ∧
        (∀ v ∈ ps, upAt nodes v = false) ∧ upAt nodes i = true) ∨
    (∃ b', getNodeLoop nodes n b = (b', .noHealthy)) := by
  induction n with
  | zero => intro b _; exact Or.inr ⟨b, rfl⟩
  | succ n ih =>
    intro b hne
    obtain ⟨b1, v, e, hv, hq⟩ := next_ok b hne
    have hne1 : b1.roundRobinQ ≠ [] := by rw [hq]; exact hne
    have hrec : (∃ b', getNodeLoop nodes n b1 = (b', .noHealthy)) ∨ True := Or.inr trivial
    have step : upAt nodes v = false →
        ((∃ b' i k ps, getNodeLoop nodes n b1 = (b', .conn i) ∧ k < n + 1 ∧ nextN (k + 1) b = .ok (b', ps ++ [i]) ∧
            (∀ v ∈ ps, upAt nodes v = false) ∧ upAt nodes i = true) ∨
         (∃ b', getNodeLoop nodes n b1 = (b', .noHealthy))) := by
      intro hdown
      rcases ih b1 hne1 with ⟨b', i, k, ps, h1, h2, h3, h4, h5⟩ | ⟨b', h1⟩
      · refine Or.inl ⟨b', i, k + 1, v :: ps, h1, by omega, ?_, ?_, h5⟩
        · have : nextN (k + 1 + 1) b = .ok (b', v :: (ps ++ [i])) := by
            unfold nextN
            simp only [e, h3]
          simpa using this
        · intro x hx
          rcases List.mem_cons.mp hx with rfl | hx
          · exact hdown
          · exact h4 x hx
      · exact Or.inr ⟨b', h1⟩
    simp only [getNodeLoop, e]
    cases hg : GetNode nodes v with
    | some nd =>
      by_cases hu : nd.up = true
      · simp only [hu, if_true]
        refine Or.inl ⟨b1, v, 0, [], rfl, by omega, ?_, by simp, by simp [upAt, hg, hu]⟩
        simp only [nextN, e, List.nil_append]
      · simp only [hu, if_false]
        exact step (by simp [upAt, hg]; simpa using hu)
    | none =>
      simp only
      exact step (by simp [upAt, hg])


/-- `getNodeFromBalancer` as a run of `next` (see `getNodeLoop_trace`). -/
theorem getNodeFromBalancer_trace (nodes : List Node) (b : Balancer) (hL : b.roundRobinQ.length ≤ 4294967296) :
    (∃ b' i k ps, getNodeFromBalancer nodes b = (b', .conn i) ∧ nextN (k + 1) b = .ok (b', ps ++ [i]) ∧
        (∀ v ∈ ps, upAt nodes v = false) ∧ upAt nodes i = true ∧ i ∈ b.roundRobinQ ∧
        b'.roundRobinQ = b.roundRobinQ) ∨
    (∃ b', getNodeFromBalancer nodes b = (b', .noHealthy) ∧ (∀ v ∈ b.roundRobinQ, upAt nodes v = false) ∧
        b'.roundRobinQ = b.roundRobinQ) := by
  rcases getNodeFromBalancer_cases nodes b hL with ⟨b', i, e, hi, hu, hq⟩ | ⟨b', e, hall, hq⟩
  · have hne : b.roundRobinQ ≠ [] := List.ne_nil_of_mem hi
    have e' := e
    unfold getNodeFromBalancer at e'
    rcases getNodeLoop_trace nodes b.roundRobinQ.length b hne with ⟨b2, j, k, ps, h1, _, h3, h4, h5⟩ | ⟨b2, h1⟩
    · rw [h1] at e'
      simp only [Prod.mk.injEq, Sel.conn.injEq] at e'
      obtain ⟨rfl, rfl⟩ := e'
      exact Or.inl ⟨b2, j, k, ps, e, h3, h4, h5, hi, hq⟩
    · rw [h1] at e'; simp at e'
  · exact Or.inr ⟨b', e, hall, hq⟩

/-- Neither up nor able to give a connection. -/
def cannotServe (nodes : List Node) (v : Int) : Prop := upAt nodes v = false ∨ poolAt nodes v = false

/-- The loop of `getConnFromBalancerTryAll`, started on balancer `b0`: `K`
    selections (`picks`) have been made so far, every node met is down, or its
    pool has been asked and failed; `m` iterations are left and `m + K` is at
    least the queue length, so when the loop runs out one whole round has been
    made (`nextN_covers`) and no node of the queue can serve. -/
theorem tryAllLoop_spec (nodes : List Node) (b0 : Balancer) (hne : b0.roundRobinQ ≠ [])
    (hL : b0.roundRobinQ.length ≤ 4294967296) :
    ∀ (m : Nat) (tried : List Int) (last : Sel) (b : Balancer) (K : Nat) (picks : List Int),
      b.roundRobinQ = b0.roundRobinQ → nextN K b0 = .ok (b, picks) →
      (∀ v ∈ picks, cannotServe nodes v) → (∀ v ∈ tried, poolAt nodes v = false ∧ v ∈ b0.roundRobinQ) → tried.Nodup →
      b0.roundRobinQ.length ≤ m + K → (last = .noHealthy ∨ ∃ i, last = .pool i) →
      ∃ b' o tr, tryAllLoop nodes m tried last b = (b', o, tr) ∧ b'.roundRobinQ = b0.roundRobinQ ∧ tr.Nodup ∧
        (∀ v ∈ tr, v ∈ b0.roundRobinQ) ∧
        ((∃ i, o = .conn i ∧ i ∈ b0.roundRobinQ ∧ upAt nodes i = true ∧ poolAt nodes i = true) ∨
         ((o = .noHealthy ∨ ∃ i, o = .pool i) ∧ ∀ v ∈ b0.roundRobinQ, cannotServe nodes v)) := by
  intro m
  induction m with
  | zero =>
    intro tried last b K picks hq hrun hpicks htried hnd hK hlast
    refine ⟨b, last, tried, rfl, hq, hnd, fun v hv => (htried v hv).2, Or.inr ⟨hlast, ?_⟩⟩
    intro v hv
    exact hpicks v (nextN_covers K b0 b picks hne hL (by omega) hrun v hv)
  | succ m ih =>
    intro tried last b K picks hq hrun hpicks htried hnd hK hlast
    have hLb : b.roundRobinQ.length ≤ 4294967296 := by rw [hq]; exact hL
    rcases getNodeFromBalancer_trace nodes b hLb with ⟨b1, i, k, ps, e, hnext, hps, hup, hi, hq1⟩ | ⟨b1, e, hall, hq1⟩
    · -- a node that is up was found after k + 1 selections
      have hrun1 := nextN_append K (k + 1) b0 b b1 picks (ps ++ [i]) hrun hnext
      have hq1' : b1.roundRobinQ = b0.roundRobinQ := by rw [hq1, hq]
      have hi0 : i ∈ b0.roundRobinQ := by rw [← hq]; exact hi
      have hpicks1 : poolAt nodes i = false → ∀ v ∈ picks ++ (ps ++ [i]), cannotServe nodes v := by
        intro hpi v hv
        rcases List.mem_append.mp hv with hv | hv
        · exact hpicks v hv
        · rcases List.mem_append.mp hv with hv | hv
          · exact Or.inl (hps v hv)
          · have : v = i := by simpa using hv
            rw [this]; exact Or.inr hpi
      simp only [tryAllLoop, e]
      by_cases hc : tried.contains i = true
      · -- its pool has been asked already: continue
        simp only [hc, if_true]
        have hpi : poolAt nodes i = false := (htried i (by simpa using hc)).1
        exact ih tried last b1 (K + (k + 1)) _ hq1' hrun1 (hpicks1 hpi) htried hnd (by omega) hlast
      · simp only [hc, if_false]
        have hni : i ∉ tried := by simpa using hc
        cases hg : GetNode nodes i with
        | none => simp [upAt, hg] at hup
        | some nd =>
          simp only
          by_cases hp : nd.poolOk = true
          · simp only [hp, if_true]
            refine ⟨b1, _, _, rfl, hq1', List.nodup_cons.mpr ⟨hni, hnd⟩, ?_,
              Or.inl ⟨i, rfl, hi0, hup, by simp [poolAt, hg, hp]⟩⟩
            intro v hv
            rcases List.mem_cons.mp hv with rfl | hv
            · exact hi0
            · exact (htried v hv).2
          · simp only [hp, if_false]
            have hpi : poolAt nodes i = false := by simp [poolAt, hg]; simpa using hp
            refine ih (i :: tried) (.pool i) b1 (K + (k + 1)) _ hq1' hrun1 (hpicks1 hpi) ?_
              (List.nodup_cons.mpr ⟨hni, hnd⟩) (by omega) (Or.inr ⟨i, rfl⟩)
            intro v hv
            rcases List.mem_cons.mp hv with rfl | hv
            · exact ⟨hpi, hi0⟩
            · exact htried v hv
    · -- every node of the queue is down
      simp only [tryAllLoop, e]
      refine ⟨b1, _, _, rfl, by rw [hq1, hq], hnd, fun v hv => (htried v hv).2, Or.inr ⟨Or.inl rfl, ?_⟩⟩
      intro v hv
      exact Or.inl (hall v (by rw [hq]; exact hv))

/-- **C25 (retry).** `getConnFromBalancerTryAll` never panics, leaves the queue
    alone, asks no pool twice and only pools of nodes of the queue, and either
    hands out a connection of a node of the queue that is up and whose pool
    answers, or fails — and it fails only if *every* node of the queue is down
    or has a failing pool. -/
theorem getConnFromBalancerTryAll_spec (nodes : List Node) (b : Balancer) (hL : b.roundRobinQ.length ≤ 4294967296) :
    ∃ b' o tr, getConnFromBalancerTryAll nodes b = (b', o, tr) ∧ b'.roundRobinQ = b.roundRobinQ ∧ tr.Nodup ∧
      (∀ v ∈ tr, v ∈ b.roundRobinQ) ∧
      ((∃ i, o = .conn i ∧ i ∈ b.roundRobinQ ∧ upAt nodes i = true ∧ poolAt nodes i = true) ∨
       ((o = .noHealthy ∨ ∃ i, o = .pool i) ∧ ∀ v ∈ b.roundRobinQ, cannotServe nodes v)) := by
  unfold getConnFromBalancerTryAll
  by_cases hne : b.roundRobinQ = []
  · rw [hne]
    exact ⟨b, .noHealthy, [], rfl, hne, List.nodup_nil, by simp, Or.inr ⟨Or.inl rfl, by simp⟩⟩
  · exact tryAllLoop_spec nodes b hne hL b.roundRobinQ.length [] .noHealthy b 0 [] rfl rfl (by simp) (by simp)
      List.nodup_nil (by omega) (Or.inl rfl)

example : getConnFromBalancerTryAll [⟨1, 0, true, false⟩, ⟨1, 0, true, true⟩] ⟨1, [0, 1], [0, 1], [1, 1]⟩
    = (⟨1, [0, 1], [0, 1], [1, 1]⟩, .conn 1, [1, 0]) := by decide

/-! ### `getIndicesAndWeights` / `InitBalancers` -/

/-- Reference: the (index, weight) pairs of the nodes from position `k` on that
    have a positive weight and satisfy `p`. -/
def pick (p : Node → Bool) : Int → List Node → List (Int × Int)
  | _, [] => []
  | k, nd :: rest =>
    if 0 < nd.weight ∧ p nd = true then (k, nd.weight) :: pick p (k + 1) rest else pick p (k + 1) rest

def iwl (l : List (Int × Int)) : IndexWeightList := ⟨l.map Prod.fst, l.map Prod.snd⟩

theorem getIndicesAndWeightsFrom_eq (proxy : Nat) (nodes : List Node) : ∀ k,
    getIndicesAndWeightsFrom proxy k nodes =
      (iwl (pick (fun nd => decide (nd.dc = proxy)) k nodes),
       iwl (pick (fun nd => !decide (nd.dc = proxy)) k nodes),
       iwl (pick (fun _ => true) k nodes)) := by
  induction nodes with
  | nil => intro k; rfl
  | cons nd rest ih =>
    intro k
    simp only [getIndicesAndWeightsFrom, ih (k + 1), pick]
    by_cases hw : nd.weight ≤ 0
    · have : ¬ (0 < nd.weight) := by omega
      simp [hw, this]
    · have hw' : 0 < nd.weight := by omega
      by_cases hd : nd.dc = proxy <;> simp [hw, hw', hd, iwl]

theorem pick_mem (p : Node → Bool) (nodes : List Node) : ∀ (k i w : Int), (i, w) ∈ pick p k nodes →
    k ≤ i ∧ ∃ nd, nodes[(i - k).toNat]? = some nd ∧ nd.weight = w ∧ 0 < w ∧ p nd = true := by
  induction nodes with
  | nil => intro k i w h; simp [pick] at h
  | cons nd rest ih =>
    intro k i w h
    simp only [pick] at h
    have tail : (i, w) ∈ pick p (k + 1) rest →
        k ≤ i ∧ ∃ nd', (nd :: rest)[(i - k).toNat]? = some nd' ∧ nd'.weight = w ∧ 0 < w ∧ p nd' = true := by
      intro h
      obtain ⟨h1, nd', h2, h3⟩ := ih (k + 1) i w h
      refine ⟨by omega, nd', ?_, h3⟩
      have : (i - k).toNat = (i - (k + 1)).toNat + 1 := by omega
      rw [this, List.getElem?_cons_succ]; exact h2
    split at h
    · rename_i hc
      rcases List.mem_cons.mp h with h | h
      · simp only [Prod.mk.injEq] at h
        obtain ⟨rfl, rfl⟩ := h
        exact ⟨by omega, nd, by simp, rfl, hc.1, hc.2⟩
      · exact tail h
    · exact tail h

theorem pick_lb (p : Node → Bool) (nodes : List Node) (k i : Int) (h : i ∈ (pick p k nodes).map Prod.fst) : k ≤ i := by
  obtain ⟨⟨i', w⟩, hm, rfl⟩ := List.mem_map.mp h
  exact (pick_mem p nodes k i' w hm).1

theorem pick_nodup (p : Node → Bool) (nodes : List Node) : ∀ k, ((pick p k nodes).map Prod.fst).Nodup := by
  induction nodes with
  | nil => intro k; simp [pick]
  | cons nd rest ih =>
    intro k
    simp only [pick]
    split
    · simp only [List.map_cons, List.nodup_cons]
      refine ⟨?_, ih (k + 1)⟩
      intro hm
      have := pick_lb p rest (k + 1) k hm
      omega
    · exact ih (k + 1)

theorem pick_complete (p : Node → Bool) (nodes : List Node) : ∀ (k : Int) (j : Nat) (nd : Node),
    nodes[j]? = some nd → 0 < nd.weight → p nd = true → (k + j, nd.weight) ∈ pick p k nodes := by
  induction nodes with
  | nil => intro k j nd h; simp at h
  | cons n0 rest ih =>
    intro k j nd h hw hp
    simp only [pick]
    cases j with
    | zero =>
      simp only [List.getElem?_cons_zero, Option.some.injEq] at h
      subst h
      simp [hw, hp]
    | succ j =>
      simp only [List.getElem?_cons_succ] at h
      have := ih (k + 1) j nd h hw hp
      have e : k + ((j + 1 : Nat) : Int) = k + 1 + (j : Int) := by omega
      rw [e]
      split
      · exact List.mem_cons_of_mem _ this
      · exact this

theorem zip_fst_snd (l : List (Int × Int)) : (l.map Prod.fst).zip (l.map Prod.snd) = l := by
  induction l with
  | nil => rfl
  | cons x xs ih => simp [ih]

theorem GetNode_eq (nodes : List Node) (i : Int) (nd : Node) (h0 : 0 ≤ i) (h : nodes[i.toNat]? = some nd) :
    GetNode nodes i = some nd := by
  unfold GetNode
  have hlt : i.toNat < nodes.length := by
    rcases Nat.lt_or_ge i.toNat nodes.length with h' | h'
    · exact h'
    · rw [List.getElem?_eq_none h'] at h; cases h
  have : ¬ (i < 0 ∨ i ≥ (nodes.length : Int)) := by omega
  simp only [this, if_false, h]

theorem GetNode_some (nodes : List Node) (i : Int) (nd : Node) (h : GetNode nodes i = some nd) :
    0 ≤ i ∧ nodes[i.toNat]? = some nd := by
  unfold GetNode at h
  split at h
  · cases h
  · rename_i hc; exact ⟨by omega, h⟩

theorem GetNode_mem (nodes : List Node) (i : Int) (nd : Node) (h : GetNode nodes i = some nd) : nd ∈ nodes :=
  List.mem_of_getElem? (GetNode_some nodes i nd h).2

/-- What `InitBalancers` establishes and every later step keeps: each
    balancer's queue holds exactly the nodes of its class with a positive
    weight, and (from the assumption on the weight sums) fits the cursor. -/
structure WF (proxy : Nat) (d : DBInfo) : Prop where
  loc : ∀ b, d.localB = some b → ∀ v ∈ b.roundRobinQ, ∃ nd, GetNode d.nodes v = some nd ∧ 0 < nd.weight ∧ nd.dc = proxy
  rem : ∀ b, d.remoteB = some b → ∀ v ∈ b.roundRobinQ, ∃ nd, GetNode d.nodes v = some nd ∧ 0 < nd.weight ∧ nd.dc ≠ proxy
  glo : ∀ b, d.globalB = some b → ∀ v ∈ b.roundRobinQ, ∃ nd, GetNode d.nodes v = some nd ∧ 0 < nd.weight
  locAll : ∀ i nd, GetNode d.nodes i = some nd → 0 < nd.weight → nd.dc = proxy →
    ∃ b, d.localB = some b ∧ i ∈ b.roundRobinQ
  remAll : ∀ i nd, GetNode d.nodes i = some nd → 0 < nd.weight → nd.dc ≠ proxy →
    ∃ b, d.remoteB = some b ∧ i ∈ b.roundRobinQ
  gloAll : ∀ i nd, GetNode d.nodes i = some nd → 0 < nd.weight →
    ∃ b, d.globalB = some b ∧ i ∈ b.roundRobinQ

/-- Assumption on the configuration: no queue is longer than the range of the
    32-bit cursor (the normalized weights sum to at most 2^32). -/
def Fits (d : DBInfo) : Prop :=
  ∀ b, (d.localB = some b ∨ d.remoteB = some b ∨ d.globalB = some b) → b.roundRobinQ.length ≤ 4294967296

/-- One balancer as `InitBalancers` builds it for the class `p` of nodes. -/
theorem mkBalancer_spec (p : Node → Bool) (nodes : List Node) (sh : List Int → List Int) (hsh : Permutes sh) :
    ∃ ob, (if (iwl (pick p 0 nodes)).indices.length > 0
            then newBalancer (iwl (pick p 0 nodes)).indices (iwl (pick p 0 nodes)).weights sh
            else R.ok (none : Option Balancer)) = .ok ob ∧
      (∀ b, ob = some b → b.nextIndex = 0 ∧
        (∀ v ∈ b.roundRobinQ, ∃ nd, GetNode nodes v = some nd ∧ 0 < nd.weight ∧ p nd = true) ∧
        (∀ i w, (i, w) ∈ pick p 0 nodes →
          b.roundRobinQ.count i = (Int.tdiv w (gcd ((pick p 0 nodes).map Prod.snd))).toNat)) ∧
      (∀ i nd, GetNode nodes i = some nd → 0 < nd.weight → p nd = true → ∃ b, ob = some b ∧ i ∈ b.roundRobinQ) := by
  by_cases hemp : pick p 0 nodes = []
  · refine ⟨none, by simp [hemp, iwl], by simp, ?_⟩
    intro i nd hg hw hp
    obtain ⟨h0, hget⟩ := GetNode_some nodes i nd hg
    have := pick_complete p nodes 0 i.toNat nd hget hw hp
    rw [hemp] at this; simp at this
  · have hlen : (iwl (pick p 0 nodes)).indices.length > 0 := by
      simp only [iwl, List.length_map]; exact List.length_pos_iff.mpr hemp
    simp only [hlen, if_true]
    obtain ⟨b, hb, hc0, hcnt, hmem⟩ := newBalancer_counts (iwl (pick p 0 nodes)).indices (iwl (pick p 0 nodes)).weights
      sh hsh (by simp [iwl]) (by simp [iwl, hemp])
      (by
        intro w hw
        simp only [iwl, List.mem_map] at hw
        obtain ⟨⟨i', w'⟩, hm, rfl⟩ := hw
        obtain ⟨_, nd, _, _, h3, _⟩ := pick_mem p nodes 0 i' w' hm
        exact h3)
      (pick_nodup p nodes 0)
    have hzip : (iwl (pick p 0 nodes)).indices.zip (iwl (pick p 0 nodes)).weights = pick p 0 nodes := zip_fst_snd _
    refine ⟨some b, hb, ?_, ?_⟩
    · intro b' hb'
      simp only [Option.some.injEq] at hb'
      subst hb'
      refine ⟨hc0, ?_, ?_⟩
      · intro v hv
        have hvi := hmem v hv
        simp only [iwl, List.mem_map] at hvi
        obtain ⟨⟨i', w'⟩, hm, rfl⟩ := hvi
        obtain ⟨h0, nd, h1, h2, h3, h4⟩ := pick_mem p nodes 0 i' w' hm
        refine ⟨nd, GetNode_eq nodes i' nd h0 (by simpa using h1), by omega, h4⟩
      · intro i w hiw
        exact (hcnt i w (by rw [hzip]; exact hiw)).1
    · intro i nd hg hw hp
      obtain ⟨h0, hget⟩ := GetNode_some nodes i nd hg
      have hm := pick_complete p nodes 0 i.toNat nd hget hw hp
      have e : (0 : Int) + (i.toNat : Int) = i := by omega
      rw [e] at hm
      have := hcnt i nd.weight (by rw [hzip]; exact hm)
      refine ⟨b, rfl, ?_⟩
      apply List.count_pos_iff.mp
      omega

/-- **C25 (`InitBalancers`).** For a non-empty replica list and any permuting
    shuffles, `InitBalancers` succeeds, establishes `WF`, starts every cursor
    at 0, and in the global / local / remote queue every node of that class
    with a positive weight `w` occurs exactly `w / gcd` times, `gcd` being the
    greatest common divisor (`gcd_spec`) of the positive weights of the class;
    nodes with weight ≤ 0 occur in no queue. -/
theorem initBalancers_wf (nodes : List Node) (proxy : Nat) (shG shL shR : List Int → List Int)
    (hG : Permutes shG) (hLo : Permutes shL) (hR : Permutes shR) (hne : nodes ≠ []) :
    ∃ d, InitBalancers ⟨nodes, none, none, none⟩ proxy shG shL shR = .ok d ∧ d.nodes = nodes ∧ WF proxy d ∧
      (∀ b, d.globalB = some b → b.nextIndex = 0 ∧ ∀ i w, (i, w) ∈ pick (fun _ => true) 0 nodes →
        b.roundRobinQ.count i = (Int.tdiv w (gcd ((pick (fun _ => true) 0 nodes).map Prod.snd))).toNat) ∧
      (∀ b, d.localB = some b → b.nextIndex = 0 ∧ ∀ i w, (i, w) ∈ pick (fun nd => decide (nd.dc = proxy)) 0 nodes →
        b.roundRobinQ.count i =
          (Int.tdiv w (gcd ((pick (fun nd => decide (nd.dc = proxy)) 0 nodes).map Prod.snd))).toNat) ∧
      (∀ b, d.remoteB = some b → b.nextIndex = 0 ∧ ∀ i w, (i, w) ∈ pick (fun nd => !decide (nd.dc = proxy)) 0 nodes →
        b.roundRobinQ.count i =
          (Int.tdiv w (gcd ((pick (fun nd => !decide (nd.dc = proxy)) 0 nodes).map Prod.snd))).toNat) := by
  obtain ⟨og, eg, hg1, hg2⟩ := mkBalancer_spec (fun _ => true) nodes shG hG
  obtain ⟨ol, el, hl1, hl2⟩ := mkBalancer_spec (fun nd => decide (nd.dc = proxy)) nodes shL hLo
  obtain ⟨or, er, hr1, hr2⟩ := mkBalancer_spec (fun nd => !decide (nd.dc = proxy)) nodes shR hR
  have hlen : ¬ (nodes.length = 0) := by
    intro e; exact hne (List.length_eq_zero_iff.mp e)
  refine ⟨⟨nodes, ol, or, og⟩, ?_, rfl, ?_, ?_, ?_, ?_⟩
  · unfold InitBalancers
    simp only [hlen, if_false, getIndicesAndWeights, getIndicesAndWeightsFrom_eq]
    rw [eg, el, er]
  · exact {
      loc := by
        intro b hb v hv
        obtain ⟨nd, h1, h2, h3⟩ := (hl1 b hb).2.1 v hv
        exact ⟨nd, h1, h2, by simpa using h3⟩
      rem := by
        intro b hb v hv
        obtain ⟨nd, h1, h2, h3⟩ := (hr1 b hb).2.1 v hv
        exact ⟨nd, h1, h2, by simpa using h3⟩
      glo := by
        intro b hb v hv
        obtain ⟨nd, h1, h2, _⟩ := (hg1 b hb).2.1 v hv
        exact ⟨nd, h1, h2⟩
      locAll := by
        intro i nd h1 h2 h3
        exact hl2 i nd h1 h2 (by simpa using h3)
      remAll := by
        intro i nd h1 h2 h3
        exact hr2 i nd h1 h2 (by simpa using h3)
      gloAll := by
        intro i nd h1 h2
        exact hg2 i nd h1 h2 rfl }
  · intro b hb; exact ⟨(hg1 b hb).1, (hg1 b hb).2.2⟩
  · intro b hb; exact ⟨(hl1 b hb).1, (hl1 b hb).2.2⟩
  · intro b hb; exact ⟨(hr1 b hb).1, (hr1 b hb).2.2⟩

/-- Non-vacuity of `WF`/`Fits`: three replicas in two datacenters, one of weight 0. -/
example : ∃ d, InitBalancers ⟨[⟨2, 0, true, true⟩, ⟨0, 0, true, true⟩, ⟨4, 1, false, true⟩], none, none, none⟩ 0
      (fun l => l) (fun l => l) (fun l => l) = .ok d ∧ WF 0 d ∧ Fits d ∧
      d.globalB = some ⟨0, [0, 2, 2], [0, 2], [2, 4]⟩ := by
  obtain ⟨d, h1, _, h3, _⟩ := initBalancers_wf [⟨2, 0, true, true⟩, ⟨0, 0, true, true⟩, ⟨4, 1, false, true⟩] 0
    (fun l => l) (fun l => l) (fun l => l) (fun l => List.Perm.refl l) (fun l => List.Perm.refl l)
    (fun l => List.Perm.refl l) (by simp)
  have hc : InitBalancers ⟨[⟨2, 0, true, true⟩, ⟨0, 0, true, true⟩, ⟨4, 1, false, true⟩], none, none, none⟩ 0
      (fun l => l) (fun l => l) (fun l => l) =
      .ok ⟨[⟨2, 0, true, true⟩, ⟨0, 0, true, true⟩, ⟨4, 1, false, true⟩],
           some ⟨0, [0], [0], [2]⟩, some ⟨0, [2], [2], [4]⟩, some ⟨0, [0, 2, 2], [0, 2], [2, 4]⟩⟩ := by decide
  rw [hc] at h1
  simp only [R.ok.injEq] at h1
  subst h1
  refine ⟨_, hc, h3, ?_, rfl⟩
  intro b hb
  rcases hb with h | h | h <;> (simp only [Option.some.injEq] at h; subst h; decide)

/-! ### `GetSlaveConn`: weights, health and locality -/

theorem upAt_eq (nodes : List Node) (i : Int) (nd : Node) (h : GetNode nodes i = some nd) : upAt nodes i = nd.up := by
  simp [upAt, h]

theorem poolAt_eq (nodes : List Node) (i : Int) (nd : Node) (h : GetNode nodes i = some nd) : poolAt nodes i = nd.poolOk := by
  simp [poolAt, h]

/-- every node of positive weight (in the proxy's datacenter if `localOnly`) is down -/
def AllDown (proxy : Nat) (nodes : List Node) (localOnly : Bool) : Prop :=
  ∀ j nd, GetNode nodes j = some nd → 0 < nd.weight → (localOnly = true → nd.dc = proxy) → nd.up = false

/-- no node of positive weight (in the proxy's datacenter if `localOnly`) can
    serve: each one is down or its pool fails -/
def NoneServes (proxy : Nat) (nodes : List Node) (localOnly : Bool) : Prop :=
  ∀ j nd, GetNode nodes j = some nd → 0 < nd.weight → (localOnly = true → nd.dc = proxy) →
    nd.up = false ∨ nd.poolOk = false

/-- What the property demands of one selection made in state `d` under `policy`. -/
def Sound (proxy : Nat) (d : DBInfo) (policy : Int) : Sel → Prop
  | .conn i => ∃ nd, GetNode d.nodes i = some nd ∧ 0 < nd.weight ∧ nd.up = true ∧ nd.poolOk = true ∧
      (policy = LocalSlaveReadForce → nd.dc = proxy) ∧
      (policy = LocalSlaveReadPrefer → nd.dc ≠ proxy → NoneServes proxy d.nodes true)
  | .pool i => ∃ nd, GetNode d.nodes i = some nd ∧ 0 < nd.weight ∧ nd.up = true ∧ nd.poolOk = false ∧
      (policy = LocalSlaveReadForce → nd.dc = proxy) ∧ policy ≠ LocalSlaveReadPrefer
  | .noSlave => ∀ nd ∈ d.nodes, nd.up = false
  | .noLocalBalancer => policy = LocalSlaveReadForce ∧ AllDown proxy d.nodes true
  | .noGlobalBalancer => policy ≠ LocalSlaveReadForce ∧ policy ≠ LocalSlaveReadPrefer ∧ AllDown proxy d.nodes false
  | .noHealthy => policy ≠ LocalSlaveReadPrefer ∧ AllDown proxy d.nodes (decide (policy = LocalSlaveReadForce))
  | .noLocalOrRemote => policy = LocalSlaveReadPrefer ∧ NoneServes proxy d.nodes false
  | .nextErr => False
  | .panic => False

/-- the queues of `d'` are those of `d` -/
def SameQueues (d d' : DBInfo) : Prop :=
  d'.nodes = d.nodes ∧
  d'.localB.map (·.roundRobinQ) = d.localB.map (·.roundRobinQ) ∧
  d'.remoteB.map (·.roundRobinQ) = d.remoteB.map (·.roundRobinQ) ∧
  d'.globalB.map (·.roundRobinQ) = d.globalB.map (·.roundRobinQ)

theorem map_q_some {ob ob' : Option Balancer} (h : ob'.map (·.roundRobinQ) = ob.map (·.roundRobinQ))
    (b' : Balancer) (hb : ob' = some b') : ∃ b, ob = some b ∧ b.roundRobinQ = b'.roundRobinQ := by
  subst hb
  cases ob with
  | none => simp at h
  | some b => exact ⟨b, rfl, by simpa using h.symm⟩

theorem map_q_some' {ob ob' : Option Balancer} (h : ob'.map (·.roundRobinQ) = ob.map (·.roundRobinQ))
    (b : Balancer) (hb : ob = some b) : ∃ b', ob' = some b' ∧ b'.roundRobinQ = b.roundRobinQ := by
  subst hb
  cases ob' with
  | none => simp at h
  | some b' => exact ⟨b', rfl, by simpa using h⟩

theorem wf_of_sameQueues (proxy : Nat) (d d' : DBInfo) (h : SameQueues d d') (hwf : WF proxy d) : WF proxy d' := by
  obtain ⟨hn, hl, hr, hg⟩ := h
  exact {
    loc := by
      intro b' hb' v hv
      obtain ⟨b, hb, hq⟩ := map_q_some hl b' hb'
      rw [hn]; exact hwf.loc b hb v (by rw [hq]; exact hv)
    rem := by
      intro b' hb' v hv
      obtain ⟨b, hb, hq⟩ := map_q_some hr b' hb'
      rw [hn]; exact hwf.rem b hb v (by rw [hq]; exact hv)
    glo := by
      intro b' hb' v hv
      obtain ⟨b, hb, hq⟩ := map_q_some hg b' hb'
      rw [hn]; exact hwf.glo b hb v (by rw [hq]; exact hv)
    locAll := by
      intro i nd h1 h2 h3
      rw [hn] at h1
      obtain ⟨b, hb, hi⟩ := hwf.locAll i nd h1 h2 h3
      obtain ⟨b', hb', hq⟩ := map_q_some' hl b hb
      exact ⟨b', hb', by rw [hq]; exact hi⟩
    remAll := by
      intro i nd h1 h2 h3
      rw [hn] at h1
      obtain ⟨b, hb, hi⟩ := hwf.remAll i nd h1 h2 h3
      obtain ⟨b', hb', hq⟩ := map_q_some' hr b hb
      exact ⟨b', hb', by rw [hq]; exact hi⟩
    gloAll := by
      intro i nd h1 h2
      rw [hn] at h1
      obtain ⟨b, hb, hi⟩ := hwf.gloAll i nd h1 h2
      obtain ⟨b', hb', hq⟩ := map_q_some' hg b hb
      exact ⟨b', hb', by rw [hq]; exact hi⟩ }

theorem fits_of_sameQueues (d d' : DBInfo) (h : SameQueues d d') (hf : Fits d) : Fits d' := by
  obtain ⟨_, hl, hr, hg⟩ := h
  intro b' hb'
  rcases hb' with hb' | hb' | hb'
  · obtain ⟨b, hb, hq⟩ := map_q_some hl b' hb'
    rw [← hq]; exact hf b (Or.inl hb)
  · obtain ⟨b, hb, hq⟩ := map_q_some hr b' hb'
    rw [← hq]; exact hf b (Or.inr (Or.inl hb))
  · obtain ⟨b, hb, hq⟩ := map_q_some hg b' hb'
    rw [← hq]; exact hf b (Or.inr (Or.inr hb))

/-- One attempt on one balancer whose queue holds exactly the nodes of class
    `cls` with positive weight: what the three outcomes mean for that class. -/
theorem attempt_spec (nodes : List Node) (b : Balancer) (cls : Node → Prop)
    (hL : b.roundRobinQ.length ≤ 4294967296)
    (hin : ∀ v ∈ b.roundRobinQ, ∃ nd, GetNode nodes v = some nd ∧ 0 < nd.weight ∧ cls nd)
    (hall : ∀ i nd, GetNode nodes i = some nd → 0 < nd.weight → cls nd → i ∈ b.roundRobinQ) :
    ∃ b' o, getConnFromBalancer nodes b = (b', o) ∧ b'.roundRobinQ = b.roundRobinQ ∧
      ((∃ i nd, o = .conn i ∧ GetNode nodes i = some nd ∧ 0 < nd.weight ∧ cls nd ∧ nd.up = true ∧ nd.poolOk = true) ∨
       (∃ i nd, o = .pool i ∧ GetNode nodes i = some nd ∧ 0 < nd.weight ∧ cls nd ∧ nd.up = true ∧ nd.poolOk = false) ∨
       (o = .noHealthy ∧ ∀ j nd, GetNode nodes j = some nd → 0 < nd.weight → cls nd → nd.up = false)) := by
  obtain ⟨b', o, e, hq, hc⟩ := getConnFromBalancer_cases nodes b hL
  refine ⟨b', o, e, hq, ?_⟩
  rcases hc with ⟨i, rfl, hi, hu, hp⟩ | ⟨i, rfl, hi, hu, hp⟩ | ⟨rfl, hdown⟩
  · obtain ⟨nd, h1, h2, h3⟩ := hin i hi
    exact Or.inl ⟨i, nd, rfl, h1, h2, h3, by rw [← upAt_eq nodes i nd h1]; exact hu,
      by rw [← poolAt_eq nodes i nd h1]; exact hp⟩
  · obtain ⟨nd, h1, h2, h3⟩ := hin i hi
    exact Or.inr (Or.inl ⟨i, nd, rfl, h1, h2, h3, by rw [← upAt_eq nodes i nd h1]; exact hu,
      by rw [← poolAt_eq nodes i nd h1]; exact hp⟩)
  · refine Or.inr (Or.inr ⟨rfl, ?_⟩)
    intro j nd h1 h2 h3
    have := hdown j (hall j nd h1 h2 h3)
    rw [upAt_eq nodes j nd h1] at this; exact this

theorem beq_pool_panic (i : Int) : (Sel.pool i == Sel.panic) = false := rfl
theorem beq_noHealthy_panic : (Sel.noHealthy == Sel.panic) = false := rfl
theorem beq_noLocalBalancer_panic : (Sel.noLocalBalancer == Sel.panic) = false := rfl

/-- Outcome of one guarded attempt on the balancer of the class `cls`. -/
def AttemptOut (nodes : List Node) (cls : Node → Prop) (nilOut o : Sel) : Prop :=
  (∃ i nd, o = .conn i ∧ GetNode nodes i = some nd ∧ 0 < nd.weight ∧ cls nd ∧ nd.up = true ∧ nd.poolOk = true) ∨
  (∃ i nd, o = .pool i ∧ GetNode nodes i = some nd ∧ 0 < nd.weight ∧ cls nd ∧ nd.up = true ∧ nd.poolOk = false) ∨
  ((o = .noHealthy ∨ o = nilOut) ∧ ∀ j nd, GetNode nodes j = some nd → 0 < nd.weight → cls nd → nd.up = false)

theorem attemptLocal_spec (proxy : Nat) (d : DBInfo) (hwf : WF proxy d) (hfit : Fits d) :
    ∃ d1 o, attemptLocal d = (d1, o) ∧ SameQueues d d1 ∧
      AttemptOut d.nodes (fun nd => nd.dc = proxy) .noLocalBalancer o := by
  unfold attemptLocal
  cases hl : d.localB with
  | none =>
    refine ⟨d, _, rfl, ⟨rfl, rfl, rfl, rfl⟩, Or.inr (Or.inr ⟨Or.inr rfl, ?_⟩)⟩
    intro j nd h1 h2 h3
    obtain ⟨b, hb, _⟩ := hwf.locAll j nd h1 h2 h3
    rw [hl] at hb; cases hb
  | some b =>
    obtain ⟨b', o, e, hq, hc⟩ := attempt_spec d.nodes b (fun nd => nd.dc = proxy)
      (hfit b (Or.inl hl)) (hwf.loc b hl)
      (by
        intro i nd h1 h2 h3
        obtain ⟨b2, hb2, hi⟩ := hwf.locAll i nd h1 h2 h3
        rw [hl] at hb2; cases hb2; exact hi)
    simp only [e]
    refine ⟨_, o, rfl, ⟨rfl, by simp [hl, hq], rfl, rfl⟩, ?_⟩
    rcases hc with h | h | ⟨h1, h2⟩
    · exact Or.inl h
    · exact Or.inr (Or.inl h)
    · exact Or.inr (Or.inr ⟨Or.inl h1, h2⟩)

theorem attemptRemote_spec (proxy : Nat) (d : DBInfo) (hwf : WF proxy d) (hfit : Fits d) :
    ∃ d1 o, attemptRemote d = (d1, o) ∧ SameQueues d d1 ∧
      AttemptOut d.nodes (fun nd => nd.dc ≠ proxy) .noLocalBalancer o := by
  unfold attemptRemote
  cases hl : d.remoteB with
  | none =>
    refine ⟨d, _, rfl, ⟨rfl, rfl, rfl, rfl⟩, Or.inr (Or.inr ⟨Or.inr rfl, ?_⟩)⟩
    intro j nd h1 h2 h3
    obtain ⟨b, hb, _⟩ := hwf.remAll j nd h1 h2 h3
    rw [hl] at hb; cases hb
  | some b =>
    obtain ⟨b', o, e, hq, hc⟩ := attempt_spec d.nodes b (fun nd => nd.dc ≠ proxy)
      (hfit b (Or.inr (Or.inl hl))) (hwf.rem b hl)
      (by
        intro i nd h1 h2 h3
        obtain ⟨b2, hb2, hi⟩ := hwf.remAll i nd h1 h2 h3
        rw [hl] at hb2; cases hb2; exact hi)
    simp only [e]
    refine ⟨_, o, rfl, ⟨rfl, rfl, by simp [hl, hq], rfl⟩, ?_⟩
    rcases hc with h | h | ⟨h1, h2⟩
    · exact Or.inl h
    · exact Or.inr (Or.inl h)
    · exact Or.inr (Or.inr ⟨Or.inl h1, h2⟩)

theorem attemptGlobal_spec (proxy : Nat) (d : DBInfo) (hwf : WF proxy d) (hfit : Fits d) :
    ∃ d1 o, attemptGlobal d = (d1, o) ∧ SameQueues d d1 ∧
      AttemptOut d.nodes (fun _ => True) .noGlobalBalancer o := by
  unfold attemptGlobal
  cases hl : d.globalB with
  | none =>
    refine ⟨d, _, rfl, ⟨rfl, rfl, rfl, rfl⟩, Or.inr (Or.inr ⟨Or.inr rfl, ?_⟩)⟩
    intro j nd h1 h2 _
    obtain ⟨b, hb, _⟩ := hwf.gloAll j nd h1 h2
    rw [hl] at hb; cases hb
  | some b =>
    obtain ⟨b', o, e, hq, hc⟩ := attempt_spec d.nodes b (fun _ => True)
      (hfit b (Or.inr (Or.inr hl)))
      (by
        intro v hv
        obtain ⟨nd, h1, h2⟩ := hwf.glo b hl v hv
        exact ⟨nd, h1, h2, trivial⟩)
      (by
        intro i nd h1 h2 _
        obtain ⟨b2, hb2, hi⟩ := hwf.gloAll i nd h1 h2
        rw [hl] at hb2; cases hb2; exact hi)
    simp only [e]
    refine ⟨_, o, rfl, ⟨rfl, rfl, rfl, by simp [hl, hq]⟩, ?_⟩
    rcases hc with h | h | ⟨h1, h2⟩
    · exact Or.inl h
    · exact Or.inr (Or.inl h)
    · exact Or.inr (Or.inr ⟨Or.inl h1, h2⟩)

/-- The retrying attempt on one balancer whose queue holds exactly the nodes of
    class `cls` with positive weight: a connection of such a node that is up and
    whose pool answers, or no node of the class can serve. -/
theorem attemptAll_spec (nodes : List Node) (b : Balancer) (cls : Node → Prop)
    (hL : b.roundRobinQ.length ≤ 4294967296)
    (hin : ∀ v ∈ b.roundRobinQ, ∃ nd, GetNode nodes v = some nd ∧ 0 < nd.weight ∧ cls nd)
    (hall : ∀ i nd, GetNode nodes i = some nd → 0 < nd.weight → cls nd → i ∈ b.roundRobinQ) :
    ∃ b' o tr, getConnFromBalancerTryAll nodes b = (b', o, tr) ∧ b'.roundRobinQ = b.roundRobinQ ∧
      (tr.Nodup ∧ ∀ v ∈ tr, ∃ nd, GetNode nodes v = some nd ∧ 0 < nd.weight ∧ cls nd) ∧
      ((∃ i nd, o = .conn i ∧ GetNode nodes i = some nd ∧ 0 < nd.weight ∧ cls nd ∧ nd.up = true ∧ nd.poolOk = true) ∨
       ((o = .noHealthy ∨ ∃ i, o = .pool i) ∧
          ∀ j nd, GetNode nodes j = some nd → 0 < nd.weight → cls nd → nd.up = false ∨ nd.poolOk = false)) := by
  obtain ⟨b', o, tr, e, hq, hnd, htr, hc⟩ := getConnFromBalancerTryAll_spec nodes b hL
  refine ⟨b', o, tr, e, hq, ⟨hnd, fun v hv => hin v (htr v hv)⟩, ?_⟩
  rcases hc with ⟨i, rfl, hi, hu, hp⟩ | ⟨ho, hnone⟩
  · obtain ⟨nd, h1, h2, h3⟩ := hin i hi
    exact Or.inl ⟨i, nd, rfl, h1, h2, h3, by rw [← upAt_eq nodes i nd h1]; exact hu,
      by rw [← poolAt_eq nodes i nd h1]; exact hp⟩
  · refine Or.inr ⟨ho, ?_⟩
    intro j nd h1 h2 h3
    have := hnone j (hall j nd h1 h2 h3)
    unfold cannotServe at this
    rw [upAt_eq nodes j nd h1, poolAt_eq nodes j nd h1] at this
    exact this

/-- Outcome of one guarded retrying attempt on the balancer of the class `cls`. -/
def AttemptAllOut (nodes : List Node) (cls : Node → Prop) (o : Sel) : Prop :=
  (∃ i nd, o = .conn i ∧ GetNode nodes i = some nd ∧ 0 < nd.weight ∧ cls nd ∧ nd.up = true ∧ nd.poolOk = true) ∨
  ((o = .noHealthy ∨ o = .noLocalBalancer ∨ ∃ i, o = .pool i) ∧
    ∀ j nd, GetNode nodes j = some nd → 0 < nd.weight → cls nd → nd.up = false ∨ nd.poolOk = false)

theorem attemptLocalAll_spec (proxy : Nat) (d : DBInfo) (hwf : WF proxy d) (hfit : Fits d) :
    ∃ d1 o tr, attemptLocalAll d = (d1, o, tr) ∧ SameQueues d d1 ∧
      (tr.Nodup ∧ ∀ v ∈ tr, ∃ nd, GetNode d.nodes v = some nd ∧ 0 < nd.weight ∧ nd.dc = proxy) ∧
      AttemptAllOut d.nodes (fun nd => nd.dc = proxy) o := by
  unfold attemptLocalAll
  cases hl : d.localB with
  | none =>
    refine ⟨d, _, _, rfl, ⟨rfl, rfl, rfl, rfl⟩, ⟨List.nodup_nil, by simp⟩, Or.inr ⟨Or.inr (Or.inl rfl), ?_⟩⟩
    intro j nd h1 h2 h3
    obtain ⟨b, hb, _⟩ := hwf.locAll j nd h1 h2 h3
    rw [hl] at hb; cases hb
  | some b =>
    obtain ⟨b', o, tr, e, hq, htr, hc⟩ := attemptAll_spec d.nodes b (fun nd => nd.dc = proxy)
      (hfit b (Or.inl hl)) (hwf.loc b hl)
      (by
        intro i nd h1 h2 h3
        obtain ⟨b2, hb2, hi⟩ := hwf.locAll i nd h1 h2 h3
        rw [hl] at hb2; cases hb2; exact hi)
    simp only [e]
    refine ⟨_, o, tr, rfl, ⟨rfl, by simp [hl, hq], rfl, rfl⟩, htr, ?_⟩
    rcases hc with h | ⟨h1, h2⟩
    · exact Or.inl h
    · refine Or.inr ⟨?_, h2⟩
      rcases h1 with h1 | h1
      · exact Or.inl h1
      · exact Or.inr (Or.inr h1)

theorem attemptRemoteAll_spec (proxy : Nat) (d : DBInfo) (hwf : WF proxy d) (hfit : Fits d) :
    ∃ d1 o tr, attemptRemoteAll d = (d1, o, tr) ∧ SameQueues d d1 ∧
      (tr.Nodup ∧ ∀ v ∈ tr, ∃ nd, GetNode d.nodes v = some nd ∧ 0 < nd.weight ∧ nd.dc ≠ proxy) ∧
      AttemptAllOut d.nodes (fun nd => nd.dc ≠ proxy) o := by
  unfold attemptRemoteAll
  cases hl : d.remoteB with
  | none =>
    refine ⟨d, _, _, rfl, ⟨rfl, rfl, rfl, rfl⟩, ⟨List.nodup_nil, by simp⟩, Or.inr ⟨Or.inr (Or.inl rfl), ?_⟩⟩
    intro j nd h1 h2 h3
    obtain ⟨b, hb, _⟩ := hwf.remAll j nd h1 h2 h3
    rw [hl] at hb; cases hb
  | some b =>
    obtain ⟨b', o, tr, e, hq, htr, hc⟩ := attemptAll_spec d.nodes b (fun nd => nd.dc ≠ proxy)
      (hfit b (Or.inr (Or.inl hl))) (hwf.rem b hl)
      (by
        intro i nd h1 h2 h3
        obtain ⟨b2, hb2, hi⟩ := hwf.remAll i nd h1 h2 h3
        rw [hl] at hb2; cases hb2; exact hi)
    simp only [e]
    refine ⟨_, o, tr, rfl, ⟨rfl, rfl, by simp [hl, hq], rfl⟩, htr, ?_⟩
    rcases hc with h | ⟨h1, h2⟩
    · exact Or.inl h
    · refine Or.inr ⟨?_, h2⟩
      rcases h1 with h1 | h1
      · exact Or.inl h1
      · exact Or.inr (Or.inr h1)

/-- an outcome that is not a connection (nor a panic) -/
theorem attemptAll_failed (o : Sel) (h : o = .noHealthy ∨ o = .noLocalBalancer ∨ ∃ i, o = .pool i) :
    (o.isConn || o == .panic) = false := by
  rcases h with rfl | rfl | ⟨i, rfl⟩
  · simp [Sel.isConn, beq_noHealthy_panic]
  · simp [Sel.isConn, beq_noLocalBalancer_panic]
  · simp [Sel.isConn, beq_pool_panic]

theorem sameQueues_trans (d d1 d2 : DBInfo) (h1 : SameQueues d d1) (h2 : SameQueues d1 d2) : SameQueues d d2 :=
  ⟨h2.1.trans h1.1, h2.2.1.trans h1.2.1, h2.2.2.1.trans h1.2.2.1, h2.2.2.2.trans h1.2.2.2⟩

/-- **C25 (one selection).** In a well-formed `DBInfo` every call of
    `GetSlaveConn`, under every policy value, leaves nodes and queues alone and
    has an outcome that is `Sound`: a connection comes from a node that has a
    positive weight, is up and whose pool answered; under the forced-local
    policy it is in the proxy's datacenter; under preferred-local a remote node
    is returned only if no local node of positive weight can serve (each is
    down or its pool fails), and the selection fails only if no node at all can
    serve; "no replica" errors of the other policies occur only when every
    candidate node is down; nothing panics. -/
theorem GetSlaveConn_spec (proxy : Nat) (d : DBInfo) (hwf : WF proxy d) (hfit : Fits d) (policy : Int) :
    ∃ d' o, GetSlaveConn d policy = (d', o) ∧ SameQueues d d' ∧ Sound proxy d policy o := by
  unfold GetSlaveConn
  by_cases h0 : d.nodes.length = 0 ∨ allSlaveIsOffline d.nodes = true
  · simp only [h0, if_true]
    refine ⟨d, .noSlave, rfl, ⟨rfl, rfl, rfl, rfl⟩, ?_⟩
    intro nd hnd
    rcases h0 with h0 | h0
    · rw [List.length_eq_zero_iff.mp h0] at hnd; simp at hnd
    · unfold allSlaveIsOffline at h0
      have := List.all_eq_true.mp h0 nd hnd
      simpa using this
  · simp only [h0, if_false]
    by_cases hF : policy = LocalSlaveReadForce
    · -- forced local
      simp only [hF, if_true]
      obtain ⟨d1, o, e, hs, hc⟩ := attemptLocal_spec proxy d hwf hfit
      refine ⟨d1, o, e, hs, ?_⟩
      rcases hc with ⟨i, nd, rfl, h1, h2, h3, h4, h5⟩ | ⟨i, nd, rfl, h1, h2, h3, h4, h5⟩ | ⟨rfl | rfl, hdown⟩
      · exact ⟨nd, h1, h2, h4, h5, fun _ => h3, fun hp => absurd hp (by decide)⟩
      · exact ⟨nd, h1, h2, h4, h5, fun _ => h3, by decide⟩
      · exact ⟨by decide, fun j nd h1 h2 h3 => hdown j nd h1 h2 (h3 (by simp))⟩
      · exact ⟨rfl, fun j nd h1 h2 h3 => hdown j nd h1 h2 (h3 rfl)⟩
    · simp only [hF, if_false]
      by_cases hP : policy = LocalSlaveReadPrefer
      · -- preferred local
        simp only [hP, if_true]
        obtain ⟨d1, o1, t1, e1, hs1, _, hc1⟩ := attemptLocalAll_spec proxy d hwf hfit
        rw [e1]
        simp only
        have hnF : ¬ (LocalSlaveReadPrefer = LocalSlaveReadForce) := by decide
        rcases hc1 with ⟨i, nd, rfl, h1, h2, h3, h4, h5⟩ | ⟨hfail1, hnone1⟩
        · -- served locally
          simp only [Sel.isConn, Bool.true_or, if_true]
          exact ⟨d1, _, rfl, hs1, nd, h1, h2, h4, h5, fun hf => absurd hf hnF, fun _ hne => absurd h3 hne⟩
        · -- no local node can serve
          have hlocal : NoneServes proxy d.nodes true := fun j nd h1 h2 h3 => hnone1 j nd h1 h2 (h3 rfl)
          simp only [attemptAll_failed o1 hfail1, Bool.false_eq_true, if_false]
          have hwf1 := wf_of_sameQueues proxy d d1 hs1 hwf
          have hfit1 := fits_of_sameQueues d d1 hs1 hfit
          have hn1 : d1.nodes = d.nodes := hs1.1
          obtain ⟨d2, o2, t2, e2, hs2, _, hc2⟩ := attemptRemoteAll_spec proxy d1 hwf1 hfit1
          rw [e2]
          simp only
          rw [hn1] at hc2
          have hs12 := sameQueues_trans d d1 d2 hs1 hs2
          rcases hc2 with ⟨i, nd, rfl, h1, h2, h3, h4, h5⟩ | ⟨hfail2, hnone2⟩
          · simp only [Sel.isConn, Bool.true_or, if_true]
            exact ⟨d2, _, rfl, hs12, nd, h1, h2, h4, h5, fun hf => absurd hf hnF, fun _ _ => hlocal⟩
          · simp only [attemptAll_failed o2 hfail2, Bool.false_eq_true, if_false]
            refine ⟨d2, _, rfl, hs12, rfl, ?_⟩
            intro j nd h1 h2 _
            by_cases hdc : nd.dc = proxy
            · exact hnone1 j nd h1 h2 hdc
            · exact hnone2 j nd h1 h2 hdc
      · -- closed, and every other value: the global balancer
        simp only [hP, if_false]
        obtain ⟨d1, o, e, hs, hc⟩ := attemptGlobal_spec proxy d hwf hfit
        refine ⟨d1, o, e, hs, ?_⟩
        rcases hc with ⟨i, nd, rfl, h1, h2, _, h4, h5⟩ | ⟨i, nd, rfl, h1, h2, _, h4, h5⟩ | ⟨rfl | rfl, hdown⟩
        · exact ⟨nd, h1, h2, h4, h5, fun hf => absurd hf hF, fun hp => absurd hp hP⟩
        · exact ⟨nd, h1, h2, h4, h5, fun hf => absurd hf hF, hP⟩
        · exact ⟨hP, fun j nd h1 h2 _ => hdown j nd h1 h2 trivial⟩
        · exact ⟨hF, hP, fun j nd h1 h2 _ => hdown j nd h1 h2 trivial⟩

/-- **C25 (which pools a selection asks).** In a well-formed `DBInfo`, under
    every policy value, one `GetSlaveConn` asks the pool of no node twice, only
    pools of nodes of positive weight, and under the forced-local policy only
    pools of the proxy's datacenter. (The harness records the sequence of
    `ConnPool.Get` calls of every selection and compares it with `GetSlaveConnGets`.) -/
theorem GetSlaveConnGets_spec (proxy : Nat) (d : DBInfo) (hwf : WF proxy d) (hfit : Fits d) (policy : Int) :
    (GetSlaveConnGets d policy).Nodup ∧
      ∀ v ∈ GetSlaveConnGets d policy, ∃ nd, GetNode d.nodes v = some nd ∧ 0 < nd.weight ∧
        (policy = LocalSlaveReadForce → nd.dc = proxy) := by
  unfold GetSlaveConnGets
  by_cases h0 : d.nodes.length = 0 ∨ allSlaveIsOffline d.nodes = true
  · rw [if_pos h0]; simp
  · rw [if_neg h0]
    by_cases hP : policy = LocalSlaveReadPrefer ∧ policy ≠ LocalSlaveReadForce
    · rw [if_pos hP]
      have hnF : ¬ (policy = LocalSlaveReadForce) := hP.2
      obtain ⟨d1, o1, t1, e1, hs1, ⟨hn1, hm1⟩, _⟩ := attemptLocalAll_spec proxy d hwf hfit
      rw [e1]
      simp only
      have hloc : ∀ v ∈ t1.reverse, ∃ nd, GetNode d.nodes v = some nd ∧ 0 < nd.weight ∧
          (policy = LocalSlaveReadForce → nd.dc = proxy) := by
        intro v hv
        obtain ⟨nd, g1, g2, g3⟩ := hm1 v (List.mem_reverse.mp hv)
        exact ⟨nd, g1, g2, fun _ => g3⟩
      by_cases hc : (o1.isConn || o1 == .panic) = true
      · rw [if_pos hc]
        exact ⟨(List.reverse_perm t1).nodup_iff.mpr hn1, hloc⟩
      · rw [if_neg hc]
        have hwf1 := wf_of_sameQueues proxy d d1 hs1 hwf
        have hfit1 := fits_of_sameQueues d d1 hs1 hfit
        obtain ⟨d2, o2, t2, e2, _, ⟨hn2, hm2⟩, _⟩ := attemptRemoteAll_spec proxy d1 hwf1 hfit1
        rw [e2]
        simp only
        rw [hs1.1] at hm2
        refine ⟨?_, ?_⟩
        · rw [List.nodup_append]
          refine ⟨(List.reverse_perm t1).nodup_iff.mpr hn1, (List.reverse_perm t2).nodup_iff.mpr hn2, ?_⟩
          intro a ha b hb hab
          subst hab
          obtain ⟨nd, g1, _, g3⟩ := hm1 a (List.mem_reverse.mp ha)
          obtain ⟨nd', g1', _, g3'⟩ := hm2 a (List.mem_reverse.mp hb)
          rw [g1] at g1'
          simp only [Option.some.injEq] at g1'
          subst g1'
          exact g3' g3
        · intro v hv
          rcases List.mem_append.mp hv with hv | hv
          · exact hloc v hv
          · obtain ⟨nd, g1, g2, _⟩ := hm2 v (List.mem_reverse.mp hv)
            exact ⟨nd, g1, g2, fun hf => absurd hf hnF⟩
    · rw [if_neg hP]
      obtain ⟨d', o, e, _, hsound⟩ := GetSlaveConn_spec proxy d hwf hfit policy
      rw [e]
      simp only
      cases o with
      | conn i =>
        obtain ⟨nd, g1, g2, _, _, g5, _⟩ := hsound
        refine ⟨by simp, ?_⟩
        intro v hv
        have : v = i := by simpa using hv
        subst this
        exact ⟨nd, g1, g2, g5⟩
      | pool i =>
        obtain ⟨nd, g1, g2, _, _, g5, _⟩ := hsound
        refine ⟨by simp, ?_⟩
        intro v hv
        have : v = i := by simpa using hv
        subst this
        exact ⟨nd, g1, g2, g5⟩
      | _ => simp

/-! ### histories of selections and status changes -/

theorem GetNode_setNode (nodes : List Node) (i : Nat) (f : Node → Node) (j : Int) :
    GetNode (setNode nodes i f) j = (GetNode nodes j).map fun nd => if j = (i : Int) then f nd else nd := by
  unfold setNode
  cases hi : nodes[i]? with
  | none =>
    simp only
    cases hg : GetNode nodes j with
    | none => rfl
    | some nd =>
      obtain ⟨h0, h1⟩ := GetNode_some nodes j nd hg
      have : ¬ (j = (i : Int)) := by
        intro e
        have : j.toNat = i := by omega
        rw [this, hi] at h1; cases h1
      simp [this]
  | some ndi =>
    simp only
    unfold GetNode
    simp only [List.length_set]
    by_cases hc : j < 0 ∨ j ≥ (nodes.length : Int)
    · simp [hc]
    · simp only [hc, if_false, List.getElem?_set]
      by_cases hij : j = (i : Int)
      · have e : i = j.toNat := by omega
        have hlt : i < nodes.length := by
          rcases Nat.lt_or_ge i nodes.length with h | h
          · exact h
          · rw [List.getElem?_eq_none h] at hi; cases hi
        have hget : nodes[i] = ndi := by
          have := List.getElem?_eq_getElem hlt
          rw [hi] at this; simpa using this.symm
        simp [hij, hlt, hi, hget]
      · have : ¬ (i = j.toNat) := by omega
        simp [hij, this]

theorem wf_setNode (proxy : Nat) (d : DBInfo) (i : Nat) (f : Node → Node)
    (hf : ∀ nd, (f nd).weight = nd.weight ∧ (f nd).dc = nd.dc) (hwf : WF proxy d) :
    WF proxy { d with nodes := setNode d.nodes i f } := by
  have fwd : ∀ v nd, GetNode d.nodes v = some nd →
      ∃ nd', GetNode (setNode d.nodes i f) v = some nd' ∧ nd'.weight = nd.weight ∧ nd'.dc = nd.dc := by
    intro v nd h
    rw [GetNode_setNode, h]
    by_cases hv : v = (i : Int)
    · exact ⟨f nd, by simp [hv], (hf nd).1, (hf nd).2⟩
    · exact ⟨nd, by simp [hv], rfl, rfl⟩
  have bwd : ∀ v nd', GetNode (setNode d.nodes i f) v = some nd' →
      ∃ nd, GetNode d.nodes v = some nd ∧ nd'.weight = nd.weight ∧ nd'.dc = nd.dc := by
    intro v nd' h
    rw [GetNode_setNode] at h
    cases hg : GetNode d.nodes v with
    | none => rw [hg] at h; simp at h
    | some nd =>
      rw [hg] at h
      simp only [Option.map_some, Option.some.injEq] at h
      refine ⟨nd, rfl, ?_⟩
      by_cases hv : v = (i : Int)
      · simp only [hv, if_true] at h; rw [← h]; exact hf nd
      · simp only [hv, if_false] at h; rw [← h]; exact ⟨rfl, rfl⟩
  exact {
    loc := by
      intro b hb v hv
      obtain ⟨nd, h1, h2, h3⟩ := hwf.loc b hb v hv
      obtain ⟨nd', g1, g2, g3⟩ := fwd v nd h1
      exact ⟨nd', g1, by rw [g2]; exact h2, by rw [g3]; exact h3⟩
    rem := by
      intro b hb v hv
      obtain ⟨nd, h1, h2, h3⟩ := hwf.rem b hb v hv
      obtain ⟨nd', g1, g2, g3⟩ := fwd v nd h1
      exact ⟨nd', g1, by rw [g2]; exact h2, by rw [g3]; exact h3⟩
    glo := by
      intro b hb v hv
      obtain ⟨nd, h1, h2⟩ := hwf.glo b hb v hv
      obtain ⟨nd', g1, g2, _⟩ := fwd v nd h1
      exact ⟨nd', g1, by rw [g2]; exact h2⟩
    locAll := by
      intro v nd' h1 h2 h3
      obtain ⟨nd, g1, g2, g3⟩ := bwd v nd' h1
      exact hwf.locAll v nd g1 (by rw [← g2]; exact h2) (by rw [← g3]; exact h3)
    remAll := by
      intro v nd' h1 h2 h3
      obtain ⟨nd, g1, g2, g3⟩ := bwd v nd' h1
      exact hwf.remAll v nd g1 (by rw [← g2]; exact h2) (by rw [← g3]; exact h3)
    gloAll := by
      intro v nd' h1 h2
      obtain ⟨nd, g1, g2, _⟩ := bwd v nd' h1
      exact hwf.gloAll v nd g1 (by rw [← g2]; exact h2) }

/-- **C25 (all histories).** From a well-formed state (what `InitBalancers`
    builds), along every sequence of selections under any policies interleaved
    with arbitrary status changes (health checker, breaker) and pool failures
    and recoveries, every selection is `Sound` with respect to the node states
    at the moment it was made.  In particular (see `Sound`): a node of weight
    ≤ 0 is never selected, a node marked down is never selected, forced-local
    reads never leave the proxy's datacenter, and a "no replica" error means
    every candidate was down. -/
theorem run_sound (proxy : Nat) (ops : List Op) : ∀ (d : DBInfo), WF proxy d → Fits d →
    ∀ t ∈ run d ops, Sound proxy t.1 t.2.1 t.2.2 := by
  induction ops with
  | nil => intro d _ _ t ht; simp [run] at ht
  | cons op ops ih =>
    intro d hwf hfit t ht
    cases op with
    | sel p =>
      obtain ⟨d', o, e, hs, hsound⟩ := GetSlaveConn_spec proxy d hwf hfit p
      simp only [run, step, e] at ht
      rcases List.mem_cons.mp ht with rfl | ht
      · exact hsound
      · exact ih d' (wf_of_sameQueues proxy d d' hs hwf) (fits_of_sameQueues d d' hs hfit) t ht
    | setUp i u =>
      simp only [run, step] at ht
      exact ih _ (wf_setNode proxy d i (fun nd => { nd with up := u }) (fun nd => ⟨rfl, rfl⟩) hwf)
        (fun b hb => hfit b hb) t ht
    | setPool i k =>
      simp only [run, step] at ht
      exact ih _ (wf_setNode proxy d i (fun nd => { nd with poolOk := k }) (fun nd => ⟨rfl, rfl⟩) hwf)
        (fun b hb => hfit b hb) t ht

/-- `zero_weight_never`, `down_never_picked`, `force_local_only` read off `Sound`. -/
theorem selected_node_ok (proxy : Nat) (d : DBInfo) (hwf : WF proxy d) (hfit : Fits d) (ops : List Op)
    (dk : DBInfo) (p : Int) (i : Int) (h : (dk, p, Sel.conn i) ∈ run d ops) :
    ∃ nd, GetNode dk.nodes i = some nd ∧ 0 < nd.weight ∧ nd.up = true ∧
      (p = LocalSlaveReadForce → nd.dc = proxy) := by
  obtain ⟨nd, h1, h2, h3, _, h5, _⟩ := run_sound proxy ops d hwf hfit _ h
  exact ⟨nd, h1, h2, h3, h5⟩

/-- **C25 (`prefer_local_first`, full strength).** Along every history, when a
    selection under the preferred-local policy hands out a node outside the
    proxy's datacenter, *no* local node could serve at that moment: every node
    of the proxy's datacenter with a positive weight is down or its pool fails.
    ("preferred-local falls back to remote replicas only when no local one can
    serve"; before the `fix:` commit 5e14b16 this held only in the partial form
    "all local nodes down or *some* local pool failing", `prefer_local_legacy_witness`.) -/
theorem prefer_local_first (proxy : Nat) (d : DBInfo) (hwf : WF proxy d) (hfit : Fits d) (ops : List Op)
    (dk : DBInfo) (i : Int) (h : (dk, LocalSlaveReadPrefer, Sel.conn i) ∈ run d ops)
    (nd : Node) (hi : GetNode dk.nodes i = some nd) (hremote : nd.dc ≠ proxy) :
    ∀ j ndj, GetNode dk.nodes j = some ndj → 0 < ndj.weight → ndj.dc = proxy →
      ndj.up = false ∨ ndj.poolOk = false := by
  obtain ⟨nd', h1, _, _, _, _, h6⟩ := run_sound proxy ops d hwf hfit _ h
  rw [hi] at h1
  simp only [Option.some.injEq] at h1
  subst h1
  intro j ndj g1 g2 g3
  exact h6 rfl hremote j ndj g1 g2 (fun _ => g3)

/-- **C25 (preferred-local serves locally whenever it can).** The converse
    reading: if some local node of positive weight is up and its pool answers,
    a preferred-local selection hands out a connection of a *local* node (not
    an error, not a remote node). -/
theorem prefer_local_serves (proxy : Nat) (d : DBInfo) (hwf : WF proxy d) (hfit : Fits d) (ops : List Op)
    (dk : DBInfo) (o : Sel) (h : (dk, LocalSlaveReadPrefer, o) ∈ run d ops)
    (j : Int) (ndj : Node) (hj : GetNode dk.nodes j = some ndj) (hw : 0 < ndj.weight) (hdc : ndj.dc = proxy)
    (hup : ndj.up = true) (hpool : ndj.poolOk = true) :
    ∃ i nd, o = .conn i ∧ GetNode dk.nodes i = some nd ∧ nd.dc = proxy ∧ nd.up = true ∧ nd.poolOk = true := by
  have hs := run_sound proxy ops d hwf hfit _ h
  have hnF : ¬ (LocalSlaveReadPrefer = LocalSlaveReadForce) := by decide
  have contra : ∀ lo, ¬ NoneServes proxy dk.nodes lo := by
    intro lo hn
    rcases hn j ndj hj hw (fun _ => hdc) with h' | h'
    · rw [hup] at h'; cases h'
    · rw [hpool] at h'; cases h'
  cases o with
  | conn i =>
    obtain ⟨nd, h1, _, h3, h4, _, h6⟩ := hs
    refine ⟨i, nd, rfl, h1, ?_, h3, h4⟩
    by_cases hd : nd.dc = proxy
    · exact hd
    · exact absurd (h6 rfl hd) (contra true)
  | pool i => obtain ⟨_, _, _, _, _, _, h7⟩ := hs; exact absurd rfl h7
  | noSlave =>
    have := hs ndj (GetNode_mem dk.nodes j ndj hj)
    rw [hup] at this; cases this
  | noLocalBalancer => exact absurd hs.1 hnF
  | noGlobalBalancer => exact absurd rfl hs.2.1
  | noHealthy => exact absurd rfl hs.1
  | noLocalOrRemote => exact absurd hs.2 (contra false)
  | nextErr => exact hs.elim
  | panic => exact hs.elim

/-- **C25 (preferred-local gives up only when nobody can serve).** A
    preferred-local selection that does not hand out a connection means that no
    node of positive weight, local or remote, could serve. -/
theorem prefer_gives_up_only_if_none_serves (proxy : Nat) (d : DBInfo) (hwf : WF proxy d) (hfit : Fits d)
    (ops : List Op) (dk : DBInfo) (o : Sel) (h : (dk, LocalSlaveReadPrefer, o) ∈ run d ops)
    (hno : o.isConn = false) :
    ∀ j ndj, GetNode dk.nodes j = some ndj → 0 < ndj.weight → ndj.up = false ∨ ndj.poolOk = false := by
  have hs := run_sound proxy ops d hwf hfit _ h
  have hnF : ¬ (LocalSlaveReadPrefer = LocalSlaveReadForce) := by decide
  intro j ndj hj hw
  cases o with
  | conn i => simp [Sel.isConn] at hno
  | pool i => obtain ⟨_, _, _, _, _, _, h7⟩ := hs; exact absurd rfl h7
  | noSlave => exact Or.inl (hs ndj (GetNode_mem dk.nodes j ndj hj))
  | noLocalBalancer => exact absurd hs.1 hnF
  | noGlobalBalancer => exact absurd rfl hs.2.1
  | noHealthy => exact absurd rfl hs.1
  | noLocalOrRemote => exact hs.2 j ndj hj hw (fun h => by cases h)
  | nextErr => exact hs.elim
  | panic => exact hs.elim

/-- The input of the repaired finding `prefer-remote-while-local-can-serve`:
    two local nodes, node 0's pool fails, node 1 can serve, remote node 2. -/
def preferWitness : DBInfo :=
  { nodes := [⟨1, 0, true, false⟩, ⟨1, 0, true, true⟩, ⟨1, 1, true, true⟩],
    localB := some ⟨1, [0, 1], [0, 1], [1, 1]⟩,
    remoteB := some ⟨0, [2], [2], [1]⟩,
    globalB := some ⟨0, [0, 1, 2], [0, 1, 2], [1, 1, 1]⟩ }

/-- Before the `fix:` commit the read went to the remote node 2 … -/
theorem prefer_local_legacy_witness :
    (GetSlaveConnLegacy preferWitness LocalSlaveReadPrefer).2 = .conn 2 := by decide

/-- … the repaired code asks the pool of node 0, then that of node 1, and serves locally. -/
theorem prefer_local_repaired :
    (GetSlaveConn preferWitness LocalSlaveReadPrefer).2 = .conn 1 ∧
      GetSlaveConnGets preferWitness LocalSlaveReadPrefer = [0, 1] := by decide

/-- Non-vacuity of `prefer_local_first` / `prefer_local_serves` /
    `prefer_gives_up_only_if_none_serves`: a well-formed state built by
    `InitBalancers` and a history on it with a local selection after a retry, a
    remote one once both local pools fail, and a failure once the remote pool
    fails too. -/
example : ∃ d, InitBalancers ⟨preferWitness.nodes, none, none, none⟩ 0 (fun l => l) (fun l => l) (fun l => l) = .ok d ∧
    WF 0 d ∧ Fits d ∧
    (run d [.sel 1, .sel 1, .setPool 1 false, .sel 1, .setPool 2 false, .sel 1]).map (fun t => t.2.2)
      = [.conn 1, .conn 1, .conn 2, .noLocalOrRemote] := by
  obtain ⟨d, h1, _, h3, _⟩ := initBalancers_wf preferWitness.nodes 0
    (fun l => l) (fun l => l) (fun l => l) (fun l => List.Perm.refl l) (fun l => List.Perm.refl l)
    (fun l => List.Perm.refl l) (by decide)
  have hc : InitBalancers ⟨preferWitness.nodes, none, none, none⟩ 0 (fun l => l) (fun l => l) (fun l => l) =
      .ok { preferWitness with localB := some ⟨0, [0, 1], [0, 1], [1, 1]⟩ } := by decide
  rw [hc] at h1
  simp only [R.ok.injEq] at h1
  subst h1
  refine ⟨_, hc, h3, ?_, by decide⟩
  intro b hb
  rcases hb with h | h | h <;> (simp only [preferWitness, Option.some.injEq] at h; subst h; decide)

/-! ### with all replicas up: selections follow the weights exactly -/

/-- every replica is up and its pool answers -/
def AllServing (nodes : List Node) : Prop := ∀ nd ∈ nodes, nd.up = true ∧ nd.poolOk = true

/-- With all replicas serving, one selection through the global balancer is
    exactly one step of its cursor. -/
theorem GetSlaveConn_global_serving (proxy : Nat) (d : DBInfo) (hwf : WF proxy d) (hserv : AllServing d.nodes)
    (b : Balancer) (hb : d.globalB = some b) (hne : b.roundRobinQ ≠ []) (policy : Int)
    (hF : policy ≠ LocalSlaveReadForce) (hP : policy ≠ LocalSlaveReadPrefer) :
    ∃ b1 v, b.next = (b1, .ok v) ∧ b1.roundRobinQ = b.roundRobinQ ∧
      GetSlaveConn d policy = ({ d with globalB := some b1 }, .conn v) := by
  obtain ⟨b1, v, e, hv, hq⟩ := next_ok b hne
  obtain ⟨nd, hg, _⟩ := hwf.glo b hb v hv
  have hmem := GetNode_mem d.nodes v nd hg
  obtain ⟨hup, hpool⟩ := hserv nd hmem
  refine ⟨b1, v, e, hq, ?_⟩
  have hlen : ∃ n, b.roundRobinQ.length = n + 1 := by
    have := List.length_pos_iff.mpr hne
    exact ⟨b.roundRobinQ.length - 1, by omega⟩
  obtain ⟨n, hn⟩ := hlen
  have h1 : getNodeFromBalancer d.nodes b = (b1, .conn v) := by
    unfold getNodeFromBalancer
    rw [hn]
    simp only [getNodeLoop, e, hg, hup, if_true]
  have h2 : getConnFromBalancer d.nodes b = (b1, .conn v) := by
    unfold getConnFromBalancer
    rw [h1]
    simp only [hg, hpool, if_true]
  have h0 : ¬ (d.nodes.length = 0 ∨ allSlaveIsOffline d.nodes = true) := by
    intro h
    rcases h with h | h
    · rw [List.length_eq_zero_iff.mp h] at hmem; simp at hmem
    · unfold allSlaveIsOffline at h
      have := List.all_eq_true.mp h nd hmem
      rw [hup] at this; simp at this
  unfold GetSlaveConn
  simp only [h0, hF, hP, if_false]
  unfold attemptGlobal
  rw [hb]
  simp only [h2]

theorem global_run_serving (proxy : Nat) (policy : Int)
    (hF : policy ≠ LocalSlaveReadForce) (hP : policy ≠ LocalSlaveReadPrefer) (k : Nat) :
    ∀ (d : DBInfo) (b : Balancer), WF proxy d → AllServing d.nodes → d.globalB = some b → b.roundRobinQ ≠ [] →
      ∃ b' ps, nextN k b = .ok (b', ps) ∧
        (run d (List.replicate k (.sel policy))).map (fun t => t.2.2) = ps.map Sel.conn := by
  induction k with
  | zero => intro d b _ _ _ _; exact ⟨b, [], rfl, rfl⟩
  | succ k ih =>
    intro d b hwf hserv hb hne
    obtain ⟨b1, v, e, hq, hsel⟩ := GetSlaveConn_global_serving proxy d hwf hserv b hb hne policy hF hP
    have hs : SameQueues d { d with globalB := some b1 } :=
      ⟨rfl, rfl, rfl, by simp [hb, hq]⟩
    obtain ⟨b', ps, e2, hrun⟩ := ih { d with globalB := some b1 } b1
      (wf_of_sameQueues proxy d _ hs hwf) hserv rfl (by rw [hq]; exact hne)
    refine ⟨b', v :: ps, by simp only [nextN, e, e2], ?_⟩
    simp only [List.replicate_succ, run, step, hsel, List.map_cons, hrun]

/-- **C25 (selections follow the weights).** Replicas all up and serving,
    balancers built by `InitBalancers` with any permuting shuffles, the read
    policy "closed" (or any value other than prefer/force): in a run of
    `n + L` consecutive `GetSlaveConn` calls, `L` the length of the global
    queue (the normalized weight total), the last `L` calls — i.e. *any* `L`
    consecutive selections — hand out every replica of positive weight `w`
    exactly `w / gcd` times, and no other replica (a zero-weight replica is
    never picked). -/
theorem closed_selection_follows_weights (nodes : List Node) (proxy : Nat) (shG shL shR : List Int → List Int)
    (hG : Permutes shG) (hLo : Permutes shL) (hR : Permutes shR) (hne : nodes ≠ []) (hserv : AllServing nodes)
    (policy : Int) (hF : policy ≠ LocalSlaveReadForce) (hP : policy ≠ LocalSlaveReadPrefer)
    (d : DBInfo) (hd : InitBalancers ⟨nodes, none, none, none⟩ proxy shG shL shR = .ok d)
    (b : Balancer) (hb : d.globalB = some b) (h2 : 2 ≤ b.roundRobinQ.length)
    (hfit : b.roundRobinQ.length ≤ 4294967296) (n : Nat) :
    ∃ ps : List Int,
      (run d (List.replicate (n + b.roundRobinQ.length) (.sel policy))).map (fun t => t.2.2) = ps.map Sel.conn ∧
      (∀ i w, (i, w) ∈ pick (fun _ => true) 0 nodes →
        ((ps.drop n).take b.roundRobinQ.length).count i =
          (Int.tdiv w (gcd ((pick (fun _ => true) 0 nodes).map Prod.snd))).toNat) ∧
      (∀ v ∈ (ps.drop n).take b.roundRobinQ.length, ∃ nd, GetNode nodes v = some nd ∧ 0 < nd.weight) := by
  obtain ⟨d0, hd0, hn0, hwf, hcg, _, _⟩ := initBalancers_wf nodes proxy shG shL shR hG hLo hR hne
  rw [hd] at hd0
  simp only [R.ok.injEq] at hd0
  subst hd0
  have hqne : b.roundRobinQ ≠ [] := by
    intro e; rw [e] at h2; simp at h2
  obtain ⟨b', ps, e, hrun⟩ := global_run_serving proxy policy hF hP (n + b.roundRobinQ.length) d b hwf
    (by rw [hn0]; exact hserv) hb hqne
  obtain ⟨b'', ps', e', hperm⟩ := any_window_exact b h2 hfit n
  rw [e] at e'
  simp only [R.ok.injEq, Prod.mk.injEq] at e'
  obtain ⟨_, rfl⟩ := e'
  refine ⟨ps, hrun, ?_, ?_⟩
  · intro i w hiw
    rw [hperm.count_eq]
    exact (hcg b hb).2 i w hiw
  · intro v hv
    obtain ⟨nd, h1, h2'⟩ := hwf.glo b hb v (hperm.subset hv)
    rw [hn0] at h1
    exact ⟨nd, h1, h2'⟩

example : AllServing [⟨2, 0, true, true⟩, ⟨0, 0, true, true⟩, ⟨4, 1, true, true⟩] := by
  intro nd h; simp at h; rcases h with rfl | rfl | rfl <;> simp

/-! ### concurrent callers of `next` -/

theorem casStep_spec (s : Shared) (a : Act) :
    (∃ s', casStep s a = (s', none) ∧ s'.b = s.b) ∨
    (∃ s', casStep s a = (s', some s.b.next.2) ∧ s'.b = s.b.next.1) := by
  cases a with
  | load t => exact Or.inl ⟨_, rfl, rfl⟩
  | cas t =>
    cases hreg : s.regs.getD t none with
    | none => exact Or.inl ⟨s, by simp only [casStep, hreg], rfl⟩
    | some old =>
      by_cases hc : s.b.nextIndex = old
      · have hb : (Balancer.mk old s.b.roundRobinQ s.b.poolIndices s.b.poolWeights) = s.b := by
          rw [← hc]
        refine Or.inr ⟨{ b := s.b.next.1, regs := s.regs.set t none }, ?_, rfl⟩
        simp only [casStep, hreg, hc, if_true]
        rw [hb]
      · exact Or.inl ⟨{ s with regs := s.regs.set t none }, by simp only [casStep, hreg, hc, if_false], rfl⟩

/-- **C25 (schedules).** Whatever the interleaving of the goroutines' atomic
    loads and compare-and-swaps, the values returned by the calls of `next`,
    in the order of their successful swaps, are exactly the values a
    sequential run of that many calls returns, and the cursor ends where the
    sequential run ends.  Hence every statement above about consecutive
    selections holds for concurrent callers. -/
theorem cas_linearizable (acts : List Act) : ∀ (s : Shared),
    ∃ k, ((runSched s acts).1.b, (runSched s acts).2) = nextSeq k s.b := by
  induction acts with
  | nil => intro s; exact ⟨0, rfl⟩
  | cons a as ih =>
    intro s
    rcases casStep_spec s a with ⟨s', e, hb⟩ | ⟨s', e, hb⟩
    · obtain ⟨k, hk⟩ := ih s'
      refine ⟨k, ?_⟩
      simp only [runSched, e]
      rw [← hb]; exact hk
    · obtain ⟨k, hk⟩ := ih s'
      refine ⟨k + 1, ?_⟩
      simp only [runSched, e, nextSeq]
      rw [hb] at hk
      rw [← hk]

example : (runSched ⟨⟨0, [10, 11, 12], [], []⟩, [none, none]⟩
    [.load 0, .load 1, .cas 1, .cas 0, .load 0, .cas 0]).2 = [.ok 11, .ok 12] := by decide

/-- Before the fix (`AddUint32` then `% len`) the window straddling the wrap of
    the 32-bit counter was not exact: three equal weights, counter at 2^32-2,
    the next three picks use the positions 0, 0, 1 — node 2 is skipped. -/
theorem window_wrap_witness :
    (match nextNWrapping 3 (Balancer.mk 4294967294 [0, 1, 2] [0, 1, 2] [1, 1, 1]) with
      | .ok (_, ps) => ps | _ => []) = [0, 0, 1] := by decide

end GaeaVerif.C25
