import GaeaVerif.Model.TimeWheelC37
import GaeaVerif.Gen.Consts
/-
  C37 — Idle sessions are closed on time and active ones are not.
  Theorems about `Model/TimeWheelC37.lean` (tie to /repo/util/time_wheel.go:
  correspondence check `gvh run C37` and the constants of `Gen/Consts.lean`).
-/
namespace GaeaVerif.C37
open GaeaVerif GaeaVerif.TimeWheel

/-! ### arithmetic of the wheel -/

/-- Slots from the current index forward to bucket `i` (going round). -/
def dist (N cur i : Int) : Int := if cur ≤ i then i - cur else i - cur + N

theorem emod_wrap (a N : Int) (h0 : N ≤ a) (h1 : a < 2 * N) : a % N = a - N := by
  have hN : 0 < N := by omega
  have := (Int.ediv_emod_unique (a := a) (b := N) (r := a - N) (q := 1) hN).mpr ⟨by omega, by omega, by omega⟩
  exact this.2

/-- The bucket chosen by `calculateIndex` is `d mod N` slots ahead. -/
theorem dist_index (N cur d : Int) (hN : 0 < N) (hc0 : 0 ≤ cur) (hc1 : cur < N) :
    dist N cur ((cur + d) % N) = d % N := by
  have hm0 : 0 ≤ d % N := Int.emod_nonneg d (by omega)
  have hm1 : d % N < N := Int.emod_lt_of_pos d hN
  have he : (cur + d) % N = (cur + d % N) % N := by
    rw [Int.add_comm cur d, Int.add_comm cur (d % N), Int.emod_add_emod]
  rw [he]
  unfold dist
  by_cases hlt : cur + d % N < N
  · rw [Int.emod_eq_of_lt (by omega) hlt]
    split <;> omega
  · rw [emod_wrap _ _ (by omega) (by omega)]
    split <;> omega

/-- Ticks until the task in bucket `i` with `round` rounds left is due. -/
def remaining (N cur i round : Int) : Int := dist N cur i + round * N

/-- `round` and `index` as computed by `add` put the task exactly `d` ticks ahead. -/
theorem remaining_add (N cur d : Int) (hN : 0 < N) (hc0 : 0 ≤ cur) (hc1 : cur < N) :
    remaining N cur ((cur + d) % N) (d / N) = d := by
  unfold remaining
  rw [dist_index N cur d hN hc0 hc1]
  exact Int.emod_add_ediv_mul d N

theorem dist_nonneg (N cur i : Int) (hc1 : cur < N) (hi0 : 0 ≤ i) : 0 ≤ dist N cur i := by
  unfold dist; split <;> omega

theorem dist_eq_zero (N cur i : Int) (hc1 : cur < N) (hi0 : 0 ≤ i) : dist N cur i = 0 ↔ i = cur := by
  unfold dist; split <;> omega

/-- The index after `handleTick`. -/
def nextIndex (N cur : Int) : Int := if cur = N - 1 then 0 else cur + 1

/-- One tick later every other bucket is one slot nearer. -/
theorem dist_next (N cur i : Int) (hc0 : 0 ≤ cur) (hc1 : cur < N) (hi0 : 0 ≤ i) (hi1 : i < N)
    (hne : i ≠ cur) : dist N (nextIndex N cur) i = dist N cur i - 1 := by
  unfold dist nextIndex
  repeat' split
  all_goals omega

/-- … and the bucket just handled is a whole round away. -/
theorem dist_next_self (N cur : Int) (hc0 : 0 ≤ cur) (_hc1 : cur < N) :
    dist N (nextIndex N cur) cur = N - 1 := by
  unfold dist nextIndex
  repeat' split
  all_goals omega

/-! ### the wheel as a list of countdowns -/

/-- Ticks until entry `e` of the wheel is due. -/
def rem (tw : TimeWheel) (e : Int × Task) : Int :=
  remaining tw.bucketsNum tw.currentIndex e.1 e.2.round

/-- What the property observes of an entry: key, registration, ticks left. -/
def view (tw : TimeWheel) (e : Int × Task) : Nat × Nat × Int := (e.2.key, e.2.reg, rem tw e)

def abs (tw : TimeWheel) : List (Nat × Nat × Int) := tw.buckets.map (view tw)

/-- Representation invariant of a wheel built by `NewTimeWheel` and changed
    only by `add`, `remove`, `handleTick`. -/
structure WF (tw : TimeWheel) : Prop where
  tickSec : 1 ≤ seconds tw.tick
  nPos : 0 < tw.bucketsNum
  curLo : 0 ≤ tw.currentIndex
  curHi : tw.currentIndex < tw.bucketsNum
  entry : ∀ e ∈ tw.buckets, 0 ≤ e.1 ∧ e.1 < tw.bucketsNum ∧ 0 ≤ e.2.round ∧
    mapLookup tw.bucketIndexes e.2.key = some e.1
  idx : ∀ p ∈ tw.bucketIndexes, 0 ≤ p.2 ∧ p.2 < tw.bucketsNum
  uniq : tw.buckets.Pairwise (fun a b => a.2.key ≠ b.2.key)

theorem mapLookup_mem (m : List (Nat × Int)) (k : Nat) (v : Int) (h : mapLookup m k = some v) :
    (k, v) ∈ m := by
  induction m with
  | nil => simp [mapLookup] at h
  | cons p rest ih =>
    obtain ⟨k', v'⟩ := p
    simp only [mapLookup] at h
    split at h
    · rename_i hk
      simp only [Option.some.injEq] at h
      subst hk; subst h; simp
    · simp [ih h]

/-- Filtering an association list on keys keeps the lookups of the kept keys. -/
theorem mapLookup_filter (m : List (Nat × Int)) (q : Nat → Bool) (k : Nat) (hq : q k = true) :
    mapLookup (m.filter (fun e => q e.1)) k = mapLookup m k := by
  induction m with
  | nil => rfl
  | cons p rest ih =>
    obtain ⟨k', v'⟩ := p
    by_cases hk : k' = k
    · subst hk
      simp [List.filter, hq, mapLookup]
    · by_cases hq' : q k' = true
      · simp [List.filter, hq', mapLookup, hk, ih]
      · simp [List.filter, hq', mapLookup, hk, ih]

theorem mapLookup_set_self (m : List (Nat × Int)) (k : Nat) (v : Int) :
    mapLookup (mapSet m k v) k = some v := by
  simp [mapSet, mapLookup]

theorem mapLookup_set_other (m : List (Nat × Int)) (k k' : Nat) (v : Int) (h : k' ≠ k) :
    mapLookup (mapSet m k v) k' = mapLookup m k' := by
  have := mapLookup_filter m (fun x => decide (x ≠ k)) k' (by simpa using h)
  simp only [mapSet, mapLookup, mapDelete]
  rw [if_neg (fun hh => h hh.symm)]
  exact this

theorem mapLookup_delete_other (m : List (Nat × Int)) (k k' : Nat) (h : k' ≠ k) :
    mapLookup (mapDelete m k) k' = mapLookup m k' := by
  have := mapLookup_filter m (fun x => decide (x ≠ k)) k' (by simpa using h)
  exact this

/-- Under the invariant, deleting key `k` from the bucket recorded for it
    removes every task of that key. -/
theorem bucketDelete_eq (bs : List (Int × Task)) (i : Int) (k : Nat)
    (h : ∀ e ∈ bs, e.2.key = k → e.1 = i) :
    bucketDelete bs i k = bs.filter (fun e => e.2.key ≠ k) := by
  unfold bucketDelete
  apply List.filter_congr
  intro e he
  by_cases hk : e.2.key = k
  · simp [hk, h e he hk]
  · simp [hk]

theorem filter_key_none (bs : List (Int × Task)) (k : Nat) (h : ∀ e ∈ bs, e.2.key ≠ k) :
    bs.filter (fun e => e.2.key ≠ k) = bs := by
  apply List.filter_eq_self.mpr
  intro e he
  simpa using h e he

/-! ### `add`, `remove`, `handleTick` on a well-formed wheel -/

/-- Whole ticks in a delay, as `calculateRound` / `calculateIndex` compute it. -/
def delayTicks (tick delay : Int) : Int := seconds delay / seconds tick

theorem seconds_nonneg (d : Int) (h : 0 ≤ d) : 0 ≤ seconds d :=
  Int.tdiv_nonneg h (by decide)

theorem calc_ok (tw : TimeWheel) (delay : Int) (hw : WF tw) (hd : 0 ≤ delay) :
    calculateRound tw delay = .ok (delayTicks tw.tick delay / tw.bucketsNum) ∧
    calculateIndex tw delay =
      .ok ((tw.currentIndex + delayTicks tw.tick delay) % tw.bucketsNum) ∧
    0 ≤ delayTicks tw.tick delay := by
  have hsd := seconds_nonneg delay hd
  have hst : seconds tw.tick ≠ 0 := by have := hw.tickSec; omega
  have hN : tw.bucketsNum ≠ 0 := by have := hw.nPos; omega
  have hd0 : 0 ≤ delayTicks tw.tick delay := Int.ediv_nonneg hsd (by have := hw.tickSec; omega)
  have h1 : goDiv (seconds delay) (seconds tw.tick) = .ok (delayTicks tw.tick delay) := by
    simp only [goDiv, hst, ↓reduceIte, delayTicks, Int.tdiv_eq_ediv_of_nonneg hsd]
  have h2 : goDiv (delayTicks tw.tick delay) tw.bucketsNum =
      .ok (delayTicks tw.tick delay / tw.bucketsNum) := by
    simp only [goDiv, hN, ↓reduceIte, Int.tdiv_eq_ediv_of_nonneg hd0]
  have h3 : goMod (tw.currentIndex + delayTicks tw.tick delay) tw.bucketsNum =
      .ok ((tw.currentIndex + delayTicks tw.tick delay) % tw.bucketsNum) := by
    have : 0 ≤ tw.currentIndex + delayTicks tw.tick delay := by have := hw.curLo; omega
    simp only [goMod, hN, ↓reduceIte, Int.tmod_eq_emod_of_nonneg this]
  refine ⟨?_, ?_, hd0⟩
  · simp only [calculateRound, h1, R.bind_ok, h2]
  · simp only [calculateIndex, h1, R.bind_ok, h3]

theorem add_ok (tw : TimeWheel) (task : Task) (hw : WF tw) (hd : 0 < task.delay) :
    ∃ tw', add tw task = .ok tw' ∧ WF tw' ∧
      tw'.tick = tw.tick ∧ tw'.bucketsNum = tw.bucketsNum ∧ tw'.currentIndex = tw.currentIndex ∧
      tw'.pipelineC = tw.pipelineC ∧ tw'.pipelineCap = tw.pipelineCap ∧
      abs tw' = (task.key, task.reg, delayTicks tw.tick task.delay) ::
        (abs tw).filter (fun x => x.1 ≠ task.key) := by
  obtain ⟨hr, hi, hd0⟩ := calc_ok tw task.delay hw (by omega)
  have hN := hw.nPos
  have hidx0 : 0 ≤ (tw.currentIndex + delayTicks tw.tick task.delay) % tw.bucketsNum :=
    Int.emod_nonneg _ (by omega)
  have hidx1 : (tw.currentIndex + delayTicks tw.tick task.delay) % tw.bucketsNum < tw.bucketsNum :=
    Int.emod_lt_of_pos _ hN
  -- whatever the lookup says, the first deletion leaves exactly the other keys
  have hb1 : deleteOrigin tw task.key = R.ok (tw.buckets.filter (fun e => e.2.key ≠ task.key)) := by
    unfold deleteOrigin
    cases hl : mapLookup tw.bucketIndexes task.key with
    | none =>
      simp only
      rw [filter_key_none]
      intro e he hk
      have := (hw.entry e he).2.2.2
      rw [hk, hl] at this
      cases this
    | some origin =>
      have hv := hw.idx (task.key, origin) (mapLookup_mem _ _ _ hl)
      have : validIndex tw origin = true := by simp [validIndex, hv.1, hv.2]
      simp only [this, ↓reduceIte]
      rw [bucketDelete_eq]
      intro e he hk
      have := (hw.entry e he).2.2.2
      rw [hk, hl] at this
      simp only [Option.some.injEq] at this
      exact this.symm
  have hv : validIndex tw ((tw.currentIndex + delayTicks tw.tick task.delay) % tw.bucketsNum) = true := by
    simp [validIndex, hidx0, hidx1]
  refine ⟨{ tw with
      bucketIndexes := mapSet tw.bucketIndexes task.key
        ((tw.currentIndex + delayTicks tw.tick task.delay) % tw.bucketsNum),
      buckets := ((tw.currentIndex + delayTicks tw.tick task.delay) % tw.bucketsNum,
          { task with round := delayTicks tw.tick task.delay / tw.bucketsNum }) ::
        tw.buckets.filter (fun e => e.2.key ≠ task.key) }, ?_, ?_, rfl, rfl, rfl, rfl, rfl, ?_⟩
  · -- the computation
    simp only [add, hr, hi, R.bind_ok, hb1, hv, ↓reduceIte, bucketSet]
    congr 3
    rw [bucketDelete_eq _ _ _ (by intro e he hk; simp at he; exact absurd hk he.2)]
    apply List.filter_eq_self.mpr
    intro e he
    simp only [List.mem_filter] at he
    exact he.2
  · -- the invariant
    refine ⟨hw.tickSec, hw.nPos, hw.curLo, hw.curHi, ?_, ?_, ?_⟩
    · intro e he
      simp only [List.mem_cons, List.mem_filter] at he
      rcases he with he | ⟨he, hk⟩
      · subst he
        exact ⟨hidx0, hidx1, Int.ediv_nonneg hd0 (by omega), mapLookup_set_self _ _ _⟩
      · obtain ⟨h1, h2, h3, h4⟩ := hw.entry e he
        refine ⟨h1, h2, h3, ?_⟩
        rw [mapLookup_set_other _ _ _ _ (by simpa using hk)]
        exact h4
    · intro p hp
      simp only [mapSet, mapDelete, List.mem_cons, List.mem_filter] at hp
      rcases hp with hp | ⟨hp, _⟩
      · subst hp; exact ⟨hidx0, hidx1⟩
      · exact hw.idx p hp
    · simp only [List.pairwise_cons]
      refine ⟨?_, hw.uniq.filter _⟩
      intro e he
      simp only [List.mem_filter] at he
      intro h
      have := he.2
      simp at this
      exact this h.symm
  · -- the countdowns
    simp only [abs, List.map_cons, view, rem]
    congr 1
    · simp only [remaining_add _ _ _ hN hw.curLo hw.curHi]
    · rw [List.filter_map]
      congr 1

theorem remove_ok (tw : TimeWheel) (k : Nat) (hw : WF tw) :
    ∃ tw', remove tw k = .ok tw' ∧ WF tw' ∧
      tw'.tick = tw.tick ∧ tw'.bucketsNum = tw.bucketsNum ∧ tw'.currentIndex = tw.currentIndex ∧
      tw'.pipelineC = tw.pipelineC ∧ tw'.pipelineCap = tw.pipelineCap ∧
      abs tw' = (abs tw).filter (fun x => x.1 ≠ k) := by
  unfold remove
  cases hl : mapLookup tw.bucketIndexes k with
  | none =>
    refine ⟨tw, rfl, hw, rfl, rfl, rfl, rfl, rfl, ?_⟩
    have hnone : ∀ e ∈ tw.buckets, e.2.key ≠ k := by
      intro e he hk
      have := (hw.entry e he).2.2.2
      rw [hk, hl] at this
      cases this
    symm
    apply List.filter_eq_self.mpr
    intro x hx
    simp only [abs, List.mem_map] at hx
    obtain ⟨e, he, hxe⟩ := hx
    subst hxe
    exact decide_eq_true (hnone e he)
  | some index =>
    have hv := hw.idx (k, index) (mapLookup_mem _ _ _ hl)
    have hvi : validIndex tw index = true := by simp [validIndex, hv.1, hv.2]
    have hbd : bucketDelete tw.buckets index k = tw.buckets.filter (fun e => e.2.key ≠ k) := by
      apply bucketDelete_eq
      intro e he hk
      have := (hw.entry e he).2.2.2
      rw [hk, hl] at this
      simp only [Option.some.injEq] at this
      exact this.symm
    simp only [hvi, ↓reduceIte, hbd]
    refine ⟨_, rfl, ?_, rfl, rfl, rfl, rfl, rfl, ?_⟩
    · refine ⟨hw.tickSec, hw.nPos, hw.curLo, hw.curHi, ?_, ?_, hw.uniq.filter _⟩
      · intro e he
        simp only [List.mem_filter] at he
        obtain ⟨h1, h2, h3, h4⟩ := hw.entry e he.1
        refine ⟨h1, h2, h3, ?_⟩
        rw [mapLookup_delete_other _ _ _ (by simpa using he.2)]
        exact h4
      · intro p hp
        simp only [mapDelete, List.mem_filter] at hp
        exact hw.idx p hp.1
    · simp only [abs]
      rw [List.filter_map]
      congr 1

/-- An entry is due exactly when it sits in the current bucket with no round left. -/
theorem rem_eq_zero_iff (tw : TimeWheel) (hw : WF tw) (e : Int × Task) (he : e ∈ tw.buckets) :
    rem tw e = 0 ↔ (e.1 = tw.currentIndex ∧ ¬ e.2.round > 0) := by
  obtain ⟨h1, h2, h3, _⟩ := hw.entry e he
  have hN := hw.nPos
  have hd := dist_nonneg tw.bucketsNum tw.currentIndex e.1 hw.curHi h1
  have hz := dist_eq_zero tw.bucketsNum tw.currentIndex e.1 hw.curHi h1
  have hm : 0 ≤ e.2.round * tw.bucketsNum := Int.mul_nonneg h3 (by omega)
  unfold rem remaining
  constructor
  · intro h
    have h0 : dist tw.bucketsNum tw.currentIndex e.1 = 0 := by omega
    have hr0 : e.2.round * tw.bucketsNum = 0 := by omega
    refine ⟨hz.mp h0, ?_⟩
    rcases Int.mul_eq_zero.mp hr0 with h | h <;> omega
  · intro ⟨h, hr⟩
    have hr0 : e.2.round = 0 := by omega
    rw [hz.mpr h, hr0]
    simp

theorem uniq_eq {α β : Type} (f : α → β) (l : List α) (h : l.Pairwise (fun a b => f a ≠ f b))
    (a b : α) (ha : a ∈ l) (hb : b ∈ l) (hf : f a = f b) : a = b := by
  induction l with
  | nil => simp at ha
  | cons x xs ih =>
    simp only [List.pairwise_cons] at h
    simp only [List.mem_cons] at ha hb
    rcases ha with ha | ha <;> rcases hb with hb | hb
    · rw [ha, hb]
    · subst ha; exact absurd hf (h.1 b hb)
    · subst hb; exact absurd hf.symm (h.1 a ha)
    · exact ih h.2 ha hb

/-- The per-entry step of `handleTick`, as a function. -/
def tickEntry (cur : Int) (e : Int × Task) : Option (Int × Task) :=
  if e.1 = cur then
    (if e.2.round > 0 then some (e.1, { e.2 with round := e.2.round - 1 }) else none)
  else some e

/-- What `handleTick` does to one entry, in countdown terms: a due entry goes,
    any other is one tick nearer. -/
theorem tickEntry_view (tw : TimeWheel) (hw : WF tw) (e : Int × Task) (he : e ∈ tw.buckets) :
    (tickEntry tw.currentIndex e).map
        (fun e' => (e'.2.key, e'.2.reg,
          remaining tw.bucketsNum (nextIndex tw.bucketsNum tw.currentIndex) e'.1 e'.2.round)) =
      if rem tw e ≠ 0 then some (e.2.key, e.2.reg, rem tw e - 1) else none := by
  obtain ⟨h1, h2, h3, _⟩ := hw.entry e he
  have hN := hw.nPos
  have hz := rem_eq_zero_iff tw hw e he
  unfold tickEntry
  by_cases hc : e.1 = tw.currentIndex
  · by_cases hr : e.2.round > 0
    · have hne : rem tw e ≠ 0 := fun h => (hz.mp h).2 hr
      simp only [hc, ↓reduceIte, hr, Option.map_some, hne, ne_eq, not_false_eq_true]
      congr 3
      unfold rem remaining
      rw [hc, dist_next_self _ _ hw.curLo hw.curHi, (dist_eq_zero _ _ _ hw.curHi hw.curLo).mpr rfl,
        Int.sub_mul, Int.one_mul]
      omega
    · have h0 : rem tw e = 0 := hz.mpr ⟨hc, hr⟩
      simp [hc, hr, h0]
  · have hne : rem tw e ≠ 0 := fun h => hc (hz.mp h).1
    simp only [hc, ↓reduceIte, Option.map_some, hne, ne_eq, not_false_eq_true]
    congr 3
    unfold rem remaining
    rw [dist_next _ _ _ hw.curLo hw.curHi h1 h2 hc]
    omega

theorem filterMap_view {α β : Type} (g : α → Option α) (v v' : α → β) (Q : β → Bool) (dec : β → β)
    (l : List α)
    (h : ∀ e ∈ l, (g e).map v' = if Q (v e) then some (dec (v e)) else none) :
    (l.filterMap g).map v' = ((l.map v).filter Q).map dec := by
  induction l with
  | nil => rfl
  | cons e es ih =>
    have he := h e (by simp)
    have ih' := ih (fun x hx => h x (by simp [hx]))
    cases hg : g e with
    | none =>
      rw [hg] at he
      have hq : Q (v e) = false := by
        cases hQ : Q (v e) with
        | false => rfl
        | true => rw [hQ] at he; simp at he
      simp [hg, hq, ih']
    | some e1 =>
      rw [hg] at he
      have hq : Q (v e) = true := by
        cases hQ : Q (v e) with
        | true => rfl
        | false => rw [hQ] at he; simp at he
      rw [hq] at he
      simp only [Option.map_some, ↓reduceIte, Option.some.injEq] at he
      simp [hg, hq, ih', he]

theorem handleTick_ok (tw : TimeWheel) (hw : WF tw) :
    ∃ tw' fired, handleTick tw = .ok (tw', fired) ∧ WF tw' ∧
      tw'.tick = tw.tick ∧ tw'.bucketsNum = tw.bucketsNum ∧
      tw'.pipelineC = tw.pipelineC ∧ tw'.pipelineCap = tw.pipelineCap ∧
      fired = ((abs tw).filter (fun x => x.2.2 = 0)).map (·.2.1) ∧
      abs tw' = ((abs tw).filter (fun x => x.2.2 ≠ 0)).map (fun x => (x.1, x.2.1, x.2.2 - 1)) := by
  have hN := hw.nPos
  have hv : validIndex tw tw.currentIndex = true := by simp [validIndex, hw.curLo, hw.curHi]
  have hfm : ∀ l : List (Int × Task), l.filterMap (fun e =>
      if e.1 = tw.currentIndex then
        (if e.2.round > 0 then some (e.1, { e.2 with round := e.2.round - 1 }) else none)
      else some e) = l.filterMap (tickEntry tw.currentIndex) := fun l => rfl
  unfold handleTick
  simp only [hv, ↓reduceIte, hfm]
  refine ⟨_, _, rfl, ?_, rfl, rfl, rfl, rfl, ?_, ?_⟩
  · -- the invariant
    refine ⟨hw.tickSec, hw.nPos, ?_, ?_, ?_, ?_, ?_⟩
    · show 0 ≤ nextIndex tw.bucketsNum tw.currentIndex
      have := hw.curLo; unfold nextIndex; split <;> omega
    · show nextIndex tw.bucketsNum tw.currentIndex < tw.bucketsNum
      have := hw.curHi; unfold nextIndex; split <;> omega
    · intro e' he'
      simp only [List.mem_filterMap] at he'
      obtain ⟨e, he, hg⟩ := he'
      obtain ⟨h1, h2, h3, h4⟩ := hw.entry e he
      -- the key of a surviving entry is not among the fired ones
      have hkeep : ∀ f ∈ tw.buckets.filter (fun e => e.1 = tw.currentIndex ∧ ¬ e.2.round > 0),
          f.2.key ≠ e.2.key ∨ (e.1 = tw.currentIndex ∧ ¬ e.2.round > 0) := by
        intro f hf
        simp only [List.mem_filter, decide_eq_true_eq] at hf
        by_cases hk : f.2.key = e.2.key
        · right
          have := uniq_eq (fun x : Int × Task => x.2.key) tw.buckets hw.uniq f e hf.1 he hk
          rw [← this]; exact hf.2
        · left; exact hk
      have hlookup : ¬ (e.1 = tw.currentIndex ∧ ¬ e.2.round > 0) →
          mapLookup (tw.bucketIndexes.filter (fun p => ¬ (tw.buckets.filter
            (fun e => e.1 = tw.currentIndex ∧ ¬ e.2.round > 0)).any (fun f => f.2.key = p.1))) e.2.key
          = some e.1 := by
        intro hnot
        rw [mapLookup_filter _ (fun k => ¬ (tw.buckets.filter
            (fun e => e.1 = tw.currentIndex ∧ ¬ e.2.round > 0)).any (fun f => f.2.key = k)) e.2.key]
        · exact h4
        · apply decide_eq_true
          intro hany
          obtain ⟨f, hf, hk⟩ := List.any_eq_true.mp hany
          have hk' : f.2.key = e.2.key := of_decide_eq_true hk
          rcases hkeep f hf with h | h
          · exact h hk'
          · exact hnot h
      unfold tickEntry at hg
      by_cases hc : e.1 = tw.currentIndex
      · by_cases hr : e.2.round > 0
        · simp only [hc, ↓reduceIte, hr, Option.some.injEq] at hg
          subst hg
          refine ⟨by simpa [hc] using hw.curLo, by simpa [hc] using hw.curHi, by simp; omega, ?_⟩
          have := hlookup (fun h => h.2 hr)
          simpa [hc] using this
        · simp [hc, hr] at hg
      · simp only [hc, ↓reduceIte, Option.some.injEq] at hg
        subst hg
        exact ⟨h1, h2, h3, hlookup (fun h => hc h.1)⟩
    · intro p hp
      simp only [List.mem_filter] at hp
      exact hw.idx p hp.1
    · apply List.Pairwise.filterMap (tickEntry tw.currentIndex) _ hw.uniq
      intro a a' hne b hb b' hb'
      have hkey : ∀ x y, tickEntry tw.currentIndex x = some y → y.2.key = x.2.key := by
        intro x y h
        unfold tickEntry at h
        split at h
        · split at h
          · simp only [Option.some.injEq] at h; subst h; rfl
          · cases h
        · simp only [Option.some.injEq] at h; subst h; rfl
      rw [hkey a b hb, hkey a' b' hb']
      exact hne
  · -- the callbacks started
    simp only [abs]
    rw [List.filter_map, List.map_map]
    have : (fun x : Nat × Nat × Int => x.2.1) ∘ view tw = fun e => e.2.reg := rfl
    rw [this]
    congr 1
    apply List.filter_congr
    intro e he
    have hz := rem_eq_zero_iff tw hw e he
    simp only [Function.comp, view]
    by_cases h0 : rem tw e = 0
    · have := hz.mp h0
      simp [h0, this.1, this.2]
    · have : ¬ (e.1 = tw.currentIndex ∧ ¬ e.2.round > 0) := fun h => h0 (hz.mpr h)
      simp only [h0, decide_false, decide_eq_false_iff_not]
      exact this
  · -- the countdowns afterwards
    simp only [abs]
    have := filterMap_view (tickEntry tw.currentIndex) (view tw)
      (fun e' => (e'.2.key, e'.2.reg,
        remaining tw.bucketsNum (nextIndex tw.bucketsNum tw.currentIndex) e'.1 e'.2.round))
      (fun x => decide (x.2.2 ≠ 0)) (fun x => (x.1, x.2.1, x.2.2 - 1)) tw.buckets
      (by
        intro e he
        rw [tickEntry_view tw hw e he]
        by_cases h0 : rem tw e = 0 <;> simp [view, h0])
    exact this

/-! ### the reference machine: one countdown per key -/

/-- State of the reference machine: for each registered key its latest
    registration and the ticks left before it is due, and the number of calls
    made since the last tick. -/
structure Spec where
  live : List (Nat × Nat × Int)
  queued : Nat
  deriving DecidableEq, Repr

/-- Activity on key `k`: its registration becomes `(r, d)`. -/
def sSet (l : List (Nat × Nat × Int)) (k r : Nat) (d : Int) : List (Nat × Nat × Int) :=
  (k, r, d) :: l.filter (fun x => x.1 ≠ k)
def sDel (l : List (Nat × Nat × Int)) (k : Nat) : List (Nat × Nat × Int) :=
  l.filter (fun x => x.1 ≠ k)
/-- The registrations due now. -/
def sFired (l : List (Nat × Nat × Int)) : List Nat := (l.filter (fun x => x.2.2 = 0)).map (·.2.1)
/-- … the others, one tick nearer. -/
def sNext (l : List (Nat × Nat × Int)) : List (Nat × Nat × Int) :=
  (l.filter (fun x => x.2.2 ≠ 0)).map (fun x => (x.1, x.2.1, x.2.2 - 1))

/-- One step of the reference machine for a wheel of tick `tick` whose
    pipeline holds `cap` calls: a call takes effect at once (it is recorded
    activity), unless `cap` calls were already made since the last tick — then
    `Add` is lost and `Remove` blocks. -/
def specStep (cap : Nat) (tick : Int) (s : Spec) : Op → Spec × Out
  | .add delay k r =>
    if delay ≤ 0 then (s, .api .invalid)
    else if s.queued < cap then (⟨sSet s.live k r (delayTicks tick delay), s.queued + 1⟩, .api .ok)
    else (s, .api .ok)
  | .remove k =>
    if s.queued < cap then (⟨sDel s.live k, s.queued + 1⟩, .api .ok) else (s, .api .blocked)
  | .tick => (⟨sNext s.live, 0⟩, .fired (sFired s.live))

def specRun (cap : Nat) (tick : Int) (s : Spec) : List Op → List Out
  | [] => []
  | op :: ops => (specStep cap tick s op).2 :: specRun cap tick (specStep cap tick s op).1 ops

/-- A queued item in countdown terms. -/
def applyItemAbs (tick : Int) (l : List (Nat × Nat × Int)) : Item → List (Nat × Nat × Int)
  | .add t => sSet l t.key t.reg (delayTicks tick t.delay)
  | .del k => sDel l k

/-- The wheel `tw` (with its queued calls) represents the reference state `s`. -/
def Ref (tw : TimeWheel) (s : Spec) : Prop :=
  WF tw ∧ s.queued = tw.pipelineC.length ∧ tw.pipelineC.length ≤ tw.pipelineCap ∧
  (∀ t, Item.add t ∈ tw.pipelineC → 0 < t.delay) ∧
  s.live = tw.pipelineC.foldl (applyItemAbs tw.tick) (abs tw)

/-- Draining applies every queued call, in order. -/
theorem drainItems_ok (limit : Nat) (items : List Item) :
    ∀ (tw : TimeWheel) (count : Nat), WF tw → (∀ t, Item.add t ∈ items → 0 < t.delay) →
      count + items.length ≤ limit →
      ∃ tw', drainItems limit tw items count = .ok (tw', []) ∧ WF tw' ∧
        tw'.tick = tw.tick ∧ tw'.bucketsNum = tw.bucketsNum ∧ tw'.pipelineC = tw.pipelineC ∧
        tw'.pipelineCap = tw.pipelineCap ∧
        abs tw' = items.foldl (applyItemAbs tw.tick) (abs tw) := by
  induction items with
  | nil =>
    intro tw count hw _ _
    exact ⟨tw, rfl, hw, rfl, rfl, rfl, rfl, rfl⟩
  | cons item rest ih =>
    intro tw count hw hd hc
    simp only [List.length_cons] at hc
    have hlt : count < limit := by omega
    have hstep : ∃ tw1, applyItem tw item = .ok tw1 ∧ WF tw1 ∧ tw1.tick = tw.tick ∧
        tw1.bucketsNum = tw.bucketsNum ∧ tw1.pipelineC = tw.pipelineC ∧
        tw1.pipelineCap = tw.pipelineCap ∧ abs tw1 = applyItemAbs tw.tick (abs tw) item := by
      cases item with
      | add t =>
        obtain ⟨tw1, h1, h2, h3, h4, _, h6, h7, h8⟩ := add_ok tw t hw (hd t (by simp))
        exact ⟨tw1, h1, h2, h3, h4, h6, h7, h8⟩
      | del k =>
        obtain ⟨tw1, h1, h2, h3, h4, _, h6, h7, h8⟩ := remove_ok tw k hw
        exact ⟨tw1, h1, h2, h3, h4, h6, h7, h8⟩
    obtain ⟨tw1, h1, h2, h3, h4, h5, h6, h7⟩ := hstep
    obtain ⟨tw', g1, g2, g3, g4, g5, g6, g7⟩ :=
      ih tw1 (count + 1) h2 (fun t ht => hd t (by simp [ht])) (by omega)
    refine ⟨tw', ?_, g2, by rw [g3, h3], by rw [g4, h4], by rw [g5, h5], by rw [g6, h6], ?_⟩
    · simp only [drainItems, hlt, ↓reduceIte, h1, g1]
    · rw [g7, h3, h7]; rfl

/-- One step of the model is one step of the reference machine. -/
theorem step_refines (limit : Nat) (tw : TimeWheel) (s : Spec) (op : Op)
    (hl : tw.pipelineCap ≤ limit) (h : Ref tw s) :
    ∃ tw', step limit tw op = .ok (tw', (specStep tw.pipelineCap tw.tick s op).2) ∧
      Ref tw' (specStep tw.pipelineCap tw.tick s op).1 ∧
      tw'.tick = tw.tick ∧ tw'.pipelineCap = tw.pipelineCap := by
  obtain ⟨hw, hq, hcap, hpos, hlive⟩ := h
  cases op with
  | add delay k r =>
    simp only [step, apiAdd, specStep]
    by_cases hd : delay ≤ 0
    · simp only [hd, ↓reduceIte]
      exact ⟨tw, rfl, ⟨hw, hq, hcap, hpos, hlive⟩, rfl, rfl⟩
    · simp only [hd, ↓reduceIte, hq]
      by_cases hfull : tw.pipelineC.length < tw.pipelineCap
      · simp only [hfull, ↓reduceIte]
        refine ⟨_, rfl, ⟨?_, ?_, ?_, ?_, ?_⟩, rfl, rfl⟩
        · exact ⟨hw.tickSec, hw.nPos, hw.curLo, hw.curHi, hw.entry, hw.idx, hw.uniq⟩
        · simp
        · simp only [List.length_append, List.length_cons, List.length_nil]; omega
        · intro t ht
          simp only [List.mem_append, List.mem_singleton, Item.add.injEq] at ht
          rcases ht with ht | ht
          · exact hpos t ht
          · subst ht; simp only; omega
        · simp only [List.foldl_append, List.foldl_cons, List.foldl_nil, applyItemAbs]
          rw [hlive]; rfl
      · simp only [hfull, ↓reduceIte]
        exact ⟨tw, rfl, ⟨hw, hq, hcap, hpos, hlive⟩, rfl, rfl⟩
  | remove k =>
    simp only [step, apiRemove, specStep, hq]
    by_cases hfull : tw.pipelineC.length < tw.pipelineCap
    · simp only [hfull, ↓reduceIte]
      refine ⟨_, rfl, ⟨?_, ?_, ?_, ?_, ?_⟩, rfl, rfl⟩
      · exact ⟨hw.tickSec, hw.nPos, hw.curLo, hw.curHi, hw.entry, hw.idx, hw.uniq⟩
      · simp
      · simp only [List.length_append, List.length_cons, List.length_nil]; omega
      · intro t ht
        simp only [List.mem_append, List.mem_singleton, reduceCtorEq, or_false] at ht
        exact hpos t ht
      · simp only [List.foldl_append, List.foldl_cons, List.foldl_nil, applyItemAbs]
        rw [hlive]; rfl
    · simp only [hfull, ↓reduceIte]
      exact ⟨tw, rfl, ⟨hw, hq, hcap, hpos, hlive⟩, rfl, rfl⟩
  | tick =>
    obtain ⟨tw1, g1, g2, g3, g4, g5, g6, g7⟩ :=
      drainItems_ok limit tw.pipelineC tw 0 hw hpos (by omega)
    have hw1 : WF { tw1 with pipelineC := [] } :=
      ⟨g2.tickSec, g2.nPos, g2.curLo, g2.curHi, g2.entry, g2.idx, g2.uniq⟩
    obtain ⟨tw2, fired, k1, k2, k3, k4, k5, k6, k7, k8⟩ := handleTick_ok _ hw1
    have habs : abs { tw1 with pipelineC := [] } = s.live := by
      rw [hlive, ← g7]; rfl
    refine ⟨tw2, ?_, ⟨k2, ?_, ?_, ?_, ?_⟩, by rw [k3]; exact g3, by rw [k6]; exact g6⟩
    · simp only [step, loopBody, drain, g1, k1, specStep]
      rw [k7, habs]; rfl
    · simp only [specStep]; rw [k5]; rfl
    · rw [k5]; simp
    · intro t ht; rw [k5] at ht; simp at ht
    · simp only [specStep]
      rw [k5, k8, habs]; rfl

/-- **Refinement.**  From any wheel representing a reference state, the model
    runs every history without a panic and answers exactly what the reference
    machine answers (same callbacks at the same ticks, in the same order). -/
theorem run_refines (limit : Nat) (ops : List Op) :
    ∀ (tw : TimeWheel) (s : Spec), tw.pipelineCap ≤ limit → Ref tw s →
      ∃ tw', run limit tw ops = .ok (tw', specRun tw.pipelineCap tw.tick s ops) := by
  induction ops with
  | nil => intro tw s _ _; exact ⟨tw, rfl⟩
  | cons op ops ih =>
    intro tw s hl h
    obtain ⟨tw1, h1, h2, h3, h4⟩ := step_refines limit tw s op hl h
    obtain ⟨tw2, g⟩ := ih tw1 _ (by rw [h4]; exact hl) h2
    refine ⟨tw2, ?_⟩
    simp only [run, h1, g, specRun, h3, h4]

/-- A wheel fresh from `NewTimeWheel` represents the empty reference state. -/
theorem new_ref (cap : Nat) (tick N : Int) (tw : TimeWheel) (h : newTimeWheel cap tick N = some tw) :
    Ref tw ⟨[], 0⟩ ∧ tw.pipelineCap = cap ∧ tw.tick = tick ∧ tw.bucketsNum = N := by
  unfold newTimeWheel at h
  split at h
  · cases h
  · split at h
    · cases h
    · simp only [Option.some.injEq] at h
      subst h
      refine ⟨⟨⟨by simp only; omega, by simp only; omega, by simp, by simp only; omega, ?_, ?_, ?_⟩,
        rfl, by simp, ?_, rfl⟩, rfl, rfl, rfl⟩
      · intro e he; simp at he
      · intro p hp; simp at hp
      · simp
      · intro t ht; simp at ht

/-- **The model of the time wheel is the reference machine.**  For a wheel
    built by `NewTimeWheel` (any tick ≥ 1 s, any number of buckets ≥ 1) whose
    drain loop handles at least as many items per tick as the pipeline holds,
    every history of `Add` / `Remove` calls and ticks runs without a panic
    (no zero divisor, no bucket index out of range) and starts exactly the
    callbacks the reference machine starts, tick by tick. -/
theorem model_refines_spec (cap limit : Nat) (tick N : Int) (tw : TimeWheel) (ops : List Op)
    (h : newTimeWheel cap tick N = some tw) (hl : cap ≤ limit) :
    ∃ tw', run limit tw ops = .ok (tw', specRun cap tick ⟨[], 0⟩ ops) := by
  obtain ⟨href, hc, ht, _⟩ := new_ref cap tick N tw h
  obtain ⟨tw', h'⟩ := run_refines limit ops tw ⟨[], 0⟩ (by rw [hc]; exact hl) href
  rw [hc, ht] at h'
  exact ⟨tw', h'⟩

/-! ### histories of the reference machine -/

/-- The callbacks started, tick by tick. -/
def firedLists : List Out → List (List Nat)
  | [] => []
  | .fired regs :: os => regs :: firedLists os
  | .api _ :: os => firedLists os

def ticksIn : List Op → Nat
  | [] => 0
  | .tick :: ops => ticksIn ops + 1
  | _ :: ops => ticksIn ops

/-- The registration numbers used by the `Add` calls of a history. -/
def regsOf : List Op → List Nat
  | [] => []
  | .add _ _ r :: ops => r :: regsOf ops
  | _ :: ops => regsOf ops

/-- Is `op` a call about key `k`? -/
def touches (k : Nat) : Op → Bool
  | .add _ k' _ => k' = k
  | .remove k' => k' = k
  | .tick => false

def specFinal (cap : Nat) (tick : Int) (s : Spec) : List Op → Spec
  | [] => s
  | op :: ops => specFinal cap tick (specStep cap tick s op).1 ops

theorem mem_sSet (l : List (Nat × Nat × Int)) (k r : Nat) (d : Int) (x : Nat × Nat × Int) :
    x ∈ sSet l k r d ↔ x = (k, r, d) ∨ (x ∈ l ∧ x.1 ≠ k) := by
  simp [sSet]

theorem mem_sDel (l : List (Nat × Nat × Int)) (k : Nat) (x : Nat × Nat × Int) :
    x ∈ sDel l k ↔ x ∈ l ∧ x.1 ≠ k := by
  simp [sDel]

theorem mem_sNext (l : List (Nat × Nat × Int)) (y : Nat × Nat × Int) :
    y ∈ sNext l ↔ ∃ x ∈ l, x.2.2 ≠ 0 ∧ y = (x.1, x.2.1, x.2.2 - 1) := by
  simp only [sNext, List.mem_map, List.mem_filter, ne_eq, decide_eq_true_eq]
  constructor
  · rintro ⟨x, ⟨hx, h0⟩, rfl⟩; exact ⟨x, hx, h0, rfl⟩
  · rintro ⟨x, hx, h0, rfl⟩; exact ⟨x, ⟨hx, h0⟩, rfl⟩

theorem mem_sFired (l : List (Nat × Nat × Int)) (r : Nat) :
    r ∈ sFired l ↔ ∃ x ∈ l, x.2.2 = 0 ∧ x.2.1 = r := by
  simp only [sFired, List.mem_map, List.mem_filter, decide_eq_true_eq]
  constructor
  · rintro ⟨x, ⟨hx, h0⟩, rfl⟩; exact ⟨x, hx, h0, rfl⟩
  · rintro ⟨x, hx, h0, rfl⟩; exact ⟨x, ⟨hx, h0⟩, rfl⟩

/-- Members of a list whose images under `f` are pairwise distinct are
    determined by their image. -/
theorem nodup_map_inj {α β : Type} (f : α → β) (l : List α) (h : (l.map f).Nodup)
    (a b : α) (ha : a ∈ l) (hb : b ∈ l) (hf : f a = f b) : a = b := by
  have hp : l.Pairwise (fun a b => f a ≠ f b) := by
    have := List.nodup_iff_pairwise_ne.mp h
    exact List.pairwise_map.mp this
  exact uniq_eq f l hp a b ha hb hf

/-- Invariant of the reference machine relative to the calls still to come:
    one entry per key, and every registration number is used once. -/
def SInv (s : Spec) (future : List Op) : Prop :=
  (s.live.map (·.1)).Nodup ∧ (s.live.map (·.2.1) ++ regsOf future).Nodup

theorem sublist_regs_filter (l : List (Nat × Nat × Int)) (p : Nat × Nat × Int → Bool) :
    ((l.filter p).map (·.2.1)).Sublist (l.map (·.2.1)) := List.Sublist.map _ List.filter_sublist

theorem sNext_keys (l : List (Nat × Nat × Int)) :
    (sNext l).map (·.1) = (l.filter (fun x => x.2.2 ≠ 0)).map (·.1) := by
  simp [sNext, List.map_map, Function.comp_def]

theorem sNext_regs (l : List (Nat × Nat × Int)) :
    (sNext l).map (·.2.1) = (l.filter (fun x => x.2.2 ≠ 0)).map (·.2.1) := by
  simp [sNext, List.map_map, Function.comp_def]

theorem sinv_step (cap : Nat) (tick : Int) (s : Spec) (op : Op) (rest : List Op)
    (h : SInv s (op :: rest)) : SInv (specStep cap tick s op).1 rest := by
  obtain ⟨hk, hr⟩ := h
  have hdrop : ∀ r, (s.live.map (·.2.1) ++ r :: regsOf rest).Nodup →
      (s.live.map (·.2.1) ++ regsOf rest).Nodup := by
    intro r h
    exact List.Sublist.nodup (List.Sublist.append (List.Sublist.refl _) (List.Sublist.cons _ (List.Sublist.refl _))) h
  cases op with
  | add delay k r =>
    simp only [regsOf] at hr
    simp only [specStep]
    split
    · exact ⟨hk, hdrop r hr⟩
    · split
      · -- accepted
        obtain ⟨h1, h2, h3⟩ := List.nodup_append.mp hr
        obtain ⟨h4, h5⟩ := List.nodup_cons.mp h2
        refine ⟨?_, ?_⟩
        · simp only [sSet, List.map_cons, List.nodup_cons]
          refine ⟨?_, List.Sublist.nodup (List.Sublist.map _ List.filter_sublist) hk⟩
          intro hmem
          obtain ⟨x, hx, hxk⟩ := List.mem_map.mp hmem
          simp only [List.mem_filter, ne_eq, decide_eq_true_eq] at hx
          exact hx.2 hxk
        · simp only [sSet, List.map_cons, List.cons_append, List.nodup_cons]
          refine ⟨?_, ?_⟩
          · intro hmem
            rcases List.mem_append.mp hmem with hm | hm
            · have := (sublist_regs_filter s.live _).subset hm
              exact h3 r this r (by simp) rfl
            · exact h4 hm
          · apply List.nodup_append.mpr
            refine ⟨List.Sublist.nodup (sublist_regs_filter s.live _) h1, h5, ?_⟩
            intro a ha b hb
            exact h3 a ((sublist_regs_filter s.live _).subset ha) b (by simp [hb])
      · exact ⟨hk, hdrop r hr⟩
  | remove k =>
    simp only [regsOf] at hr
    simp only [specStep]
    split
    · refine ⟨List.Sublist.nodup (List.Sublist.map _ List.filter_sublist) hk, ?_⟩
      exact List.Sublist.nodup (List.Sublist.append (sublist_regs_filter s.live _) (List.Sublist.refl _)) hr
    · exact ⟨hk, hr⟩
  | tick =>
    simp only [regsOf] at hr
    simp only [specStep]
    refine ⟨?_, ?_⟩
    · rw [sNext_keys]
      exact List.Sublist.nodup (List.Sublist.map _ List.filter_sublist) hk
    · rw [sNext_regs]
      exact List.Sublist.nodup (List.Sublist.append (sublist_regs_filter s.live _) (List.Sublist.refl _)) hr

theorem sinv_final (cap : Nat) (tick : Int) (ops rest : List Op) :
    ∀ s, SInv s (ops ++ rest) → SInv (specFinal cap tick s ops) rest := by
  induction ops with
  | nil => intro s h; exact h
  | cons op ops ih =>
    intro s h
    exact ih _ (sinv_step cap tick s op (ops ++ rest) h)

/-- A callback that starts was registered: it is in the state or among the
    calls to come. -/
theorem fired_mem (cap : Nat) (tick : Int) (ops : List Op) :
    ∀ (s : Spec) (r : Nat), r ∈ (firedLists (specRun cap tick s ops)).flatten →
      r ∈ s.live.map (·.2.1) ∨ r ∈ regsOf ops := by
  induction ops with
  | nil => intro s r h; simp [specRun, firedLists] at h
  | cons op ops ih =>
    intro s r h
    cases op with
    | add delay k r' =>
      simp only [specRun, specStep] at h
      simp only [regsOf, List.mem_cons]
      split at h
      · simp only [firedLists] at h
        rcases ih _ _ h with h | h
        · exact Or.inl h
        · exact Or.inr (Or.inr h)
      · split at h
        · simp only [firedLists] at h
          rcases ih _ _ h with h | h
          · simp only [sSet, List.map_cons, List.mem_cons] at h
            rcases h with h | h
            · exact Or.inr (Or.inl h)
            · exact Or.inl ((sublist_regs_filter s.live _).subset h)
          · exact Or.inr (Or.inr h)
        · simp only [firedLists] at h
          rcases ih _ _ h with h | h
          · exact Or.inl h
          · exact Or.inr (Or.inr h)
    | remove k =>
      simp only [specRun, specStep] at h
      simp only [regsOf]
      split at h
      · simp only [firedLists] at h
        rcases ih _ _ h with h | h
        · exact Or.inl ((sublist_regs_filter s.live _).subset h)
        · exact Or.inr h
      · simp only [firedLists] at h
        exact ih _ _ h
    | tick =>
      simp only [specRun, specStep, firedLists, List.flatten_cons, List.mem_append] at h
      simp only [regsOf]
      rcases h with h | h
      · left
        obtain ⟨x, hx, _, hxr⟩ := (mem_sFired _ _).mp h
        exact List.mem_map.mpr ⟨x, hx, hxr⟩
      · rcases ih _ _ h with h | h
        · left
          rw [sNext_regs] at h
          exact (sublist_regs_filter s.live _).subset h
        · exact Or.inr h

/-- **At most once.**  When every `Add` of the history carries its own
    registration number, no callback is started twice — neither by one tick
    nor by two. -/
theorem fired_nodup (cap : Nat) (tick : Int) (ops : List Op) :
    ∀ s, SInv s ops → (firedLists (specRun cap tick s ops)).flatten.Nodup := by
  induction ops with
  | nil => intro s _; simp [specRun, firedLists]
  | cons op ops ih =>
    intro s h
    have hnext := sinv_step cap tick s op ops h
    have ih' := ih _ hnext
    cases op with
    | add delay k r =>
      simp only [specRun, specStep] at ih' ⊢
      split <;> (try split) <;> simp_all [firedLists]
    | remove k =>
      simp only [specRun, specStep] at ih' ⊢
      split <;> simp_all [firedLists]
    | tick =>
      simp only [specRun, specStep, firedLists, List.flatten_cons] at ih' ⊢
      obtain ⟨hk, hr⟩ := h
      simp only [regsOf] at hr
      obtain ⟨h1, h2, h3⟩ := List.nodup_append.mp hr
      apply List.nodup_append.mpr
      refine ⟨?_, ih', ?_⟩
      · exact List.Sublist.nodup (sublist_regs_filter s.live _) h1
      · intro a ha b hb hab
        subst hab
        obtain ⟨x, hx, hx0, hxa⟩ := (mem_sFired _ _).mp ha
        rcases fired_mem cap tick ops _ a hb with hb | hb
        · obtain ⟨y', hy', hya⟩ := List.mem_map.mp hb
          obtain ⟨y, hy, hy0, rfl⟩ := (mem_sNext _ _).mp hy'
          simp only at hya
          have := nodup_map_inj (fun x : Nat × Nat × Int => x.2.1) s.live h1 x y hx hy (by rw [hxa, hya])
          subst this
          exact hy0 hx0
        · exact h3 a (List.mem_map.mpr ⟨x, hx, hxa⟩) a hb rfl

theorem getD_mem_flatten (ls : List (List Nat)) (n r : Nat) (h : r ∈ ls.getD n []) :
    r ∈ ls.flatten := by
  induction ls generalizing n with
  | nil => simp at h
  | cons l ls ih =>
    cases n with
    | zero => simp only [List.getD_cons_zero] at h; simp [h]
    | succ n =>
      simp only [List.getD_cons_succ] at h
      simp only [List.flatten_cons, List.mem_append]
      exact Or.inr (ih n h)

/-- **Exactly when due.**  An entry `(k, r, m)` of the reference state on
    whose key no call is made any more starts its callback at the tick that
    comes `m` ticks later, and at no other. -/
theorem entry_fires_at (cap : Nat) (tick : Int) (k r : Nat) (ops : List Op) :
    ∀ (s : Spec) (m : Int), (∀ op ∈ ops, touches k op = false) → 0 ≤ m → (k, r, m) ∈ s.live →
      SInv s ops →
      ∀ n : Nat, r ∈ (firedLists (specRun cap tick s ops)).getD n [] ↔
        ((n : Int) = m ∧ m < ticksIn ops) := by
  induction ops with
  | nil =>
    intro s m _ hm _ _ n
    simp only [specRun, firedLists, List.getD_nil, List.not_mem_nil, ticksIn, false_iff]
    omega
  | cons op ops ih =>
    intro s m hnt hm hmem hinv n
    have hnext := sinv_step cap tick s op ops hinv
    have hnt' : ∀ op ∈ ops, touches k op = false := fun o ho => hnt o (by simp [ho])
    cases op with
    | add delay k' r' =>
      have hk : k' ≠ k := by simpa [touches] using hnt (.add delay k' r') (by simp)
      have hmem' : (k, r, m) ∈ (specStep cap tick s (.add delay k' r')).1.live := by
        simp only [specStep]
        split
        · exact hmem
        · split
          · exact (mem_sSet _ _ _ _ _).mpr (Or.inr ⟨hmem, fun h => hk h.symm⟩)
          · exact hmem
      have := ih _ m hnt' hm hmem' hnext n
      have hout : (specStep cap tick s (.add delay k' r')).2 = .api .invalid ∨
          (specStep cap tick s (.add delay k' r')).2 = .api .ok := by
        simp only [specStep]; split
        · exact Or.inl rfl
        · split <;> exact Or.inr rfl
      simp only [specRun, ticksIn]
      rcases hout with h | h <;> (rw [h]; simpa only [firedLists] using this)
    | remove k' =>
      have hk : k' ≠ k := by simpa [touches] using hnt (.remove k') (by simp)
      have hmem' : (k, r, m) ∈ (specStep cap tick s (.remove k')).1.live := by
        simp only [specStep]
        split
        · exact (mem_sDel _ _ _).mpr ⟨hmem, fun h => hk h.symm⟩
        · exact hmem
      have := ih _ m hnt' hm hmem' hnext n
      have hout : (specStep cap tick s (.remove k')).2 = .api .ok ∨
          (specStep cap tick s (.remove k')).2 = .api .blocked := by
        simp only [specStep]; split
        · exact Or.inl rfl
        · exact Or.inr rfl
      simp only [specRun, ticksIn]
      rcases hout with h | h <;> (rw [h]; simpa only [firedLists] using this)
    | tick =>
      obtain ⟨hkeys, hregs⟩ := hinv
      simp only [regsOf] at hregs
      obtain ⟨h1, _, h3⟩ := List.nodup_append.mp hregs
      simp only [specRun, specStep, firedLists, ticksIn]
      cases n with
      | zero =>
        simp only [List.getD_cons_zero]
        constructor
        · intro h
          obtain ⟨x, hx, hx0, hxr⟩ := (mem_sFired _ _).mp h
          have := nodup_map_inj (fun x : Nat × Nat × Int => x.2.1) s.live h1 x (k, r, m) hx hmem hxr
          subst this
          simp only at hx0
          refine ⟨by simp [hx0], by omega⟩
        · intro ⟨h, _⟩
          have hm0 : m = 0 := by simpa using h.symm
          subst hm0
          exact (mem_sFired _ _).mpr ⟨(k, r, 0), hmem, rfl, rfl⟩
      | succ n' =>
        simp only [List.getD_cons_succ]
        by_cases hm0 : m = 0
        · -- fired just now: gone for good
          subst hm0
          constructor
          · intro h
            exfalso
            have hfl := getD_mem_flatten _ _ _ h
            rcases fired_mem cap tick ops _ r hfl with hb | hb
            · obtain ⟨y', hy', hyr⟩ := List.mem_map.mp hb
              obtain ⟨y, hy, hy0, rfl⟩ := (mem_sNext _ _).mp hy'
              simp only at hyr
              have := nodup_map_inj (fun x : Nat × Nat × Int => x.2.1) s.live h1 y (k, r, 0) hy hmem hyr
              subst this
              exact hy0 rfl
            · exact h3 r (List.mem_map.mpr ⟨(k, r, 0), hmem, rfl⟩) r hb rfl
          · intro ⟨h, _⟩; omega
        · have hmem' : (k, r, m - 1) ∈ sNext s.live :=
            (mem_sNext _ _).mpr ⟨(k, r, m), hmem, hm0, rfl⟩
          have hnext' : SInv ⟨sNext s.live, 0⟩ ops := by simpa only [specStep] using hnext
          have := ih ⟨sNext s.live, 0⟩ (m - 1) hnt' (by omega) hmem' hnext' n'
          rw [this]
          constructor <;> (intro ⟨a, b⟩; constructor <;> omega)

/-! ### prefixes -/

theorem specRun_append (cap : Nat) (tick : Int) (ops1 ops2 : List Op) :
    ∀ s, specRun cap tick s (ops1 ++ ops2) =
      specRun cap tick s ops1 ++ specRun cap tick (specFinal cap tick s ops1) ops2 := by
  induction ops1 with
  | nil => intro s; rfl
  | cons op ops ih => intro s; simp only [List.cons_append, specRun, specFinal, ih]

theorem firedLists_append (a b : List Out) : firedLists (a ++ b) = firedLists a ++ firedLists b := by
  induction a with
  | nil => rfl
  | cons o os ih =>
    cases o <;> simp [firedLists, ih]

theorem firedLists_length (cap : Nat) (tick : Int) (ops : List Op) :
    ∀ s, (firedLists (specRun cap tick s ops)).length = ticksIn ops := by
  induction ops with
  | nil => intro s; rfl
  | cons op ops ih =>
    intro s
    cases op with
    | add delay k r =>
      simp only [specRun, specStep, ticksIn]
      split
      · simp [firedLists, ih]
      · split <;> simp [firedLists, ih]
    | remove k =>
      simp only [specRun, specStep, ticksIn]
      split <;> simp [firedLists, ih]
    | tick => simp [specRun, specStep, firedLists, ticksIn, ih]

theorem ticksIn_append (a b : List Op) : ticksIn (a ++ b) = ticksIn a + ticksIn b := by
  induction a with
  | nil => simp [ticksIn]
  | cons o os ih => cases o <;> simp [ticksIn, ih] <;> omega

theorem regsOf_append (a b : List Op) : regsOf (a ++ b) = regsOf a ++ regsOf b := by
  induction a with
  | nil => rfl
  | cons o os ih => cases o <;> simp [regsOf, ih]

theorem getD_append_nat (a b : List (List Nat)) (n : Nat) :
    (a ++ b).getD n [] = if n < a.length then a.getD n [] else b.getD (n - a.length) [] := by
  induction a generalizing n with
  | nil => simp
  | cons x xs ih =>
    cases n with
    | zero => simp
    | succ n =>
      simp only [List.cons_append, List.getD_cons_succ, List.length_cons, ih]
      have : (n + 1 < xs.length + 1) = (n < xs.length) := by simp
      simp only [Nat.add_lt_add_iff_right, Nat.add_sub_add_right]

/-- Calls made since the last tick of a history (an upper bound of what is
    queued: invalid `Add`s are not queued). -/
def callsAcc (q : Nat) : List Op → Nat
  | [] => q
  | .tick :: ops => callsAcc 0 ops
  | .add delay _ _ :: ops => callsAcc (if delay ≤ 0 then q else q + 1) ops
  | .remove _ :: ops => callsAcc (q + 1) ops

def callsSinceTick (ops : List Op) : Nat := callsAcc 0 ops

theorem callsAcc_mono (ops : List Op) : ∀ q q', q ≤ q' → callsAcc q ops ≤ callsAcc q' ops := by
  induction ops with
  | nil => intro q q' h; exact h
  | cons op ops ih =>
    intro q q' h
    cases op with
    | add delay k r => simp only [callsAcc]; apply ih; split <;> omega
    | remove k => simp only [callsAcc]; apply ih; omega
    | tick => simp only [callsAcc]; exact Nat.le_refl _

theorem queued_le_calls (cap : Nat) (tick : Int) (ops : List Op) :
    ∀ s, (specFinal cap tick s ops).queued ≤ callsAcc s.queued ops := by
  induction ops with
  | nil => intro s; exact Nat.le_refl _
  | cons op ops ih =>
    intro s
    cases op with
    | add delay k r =>
      simp only [specFinal, specStep, callsAcc]
      split
      · exact ih s
      · split
        · exact ih _
        · exact Nat.le_trans (ih s) (callsAcc_mono ops _ _ (by omega))
    | remove k =>
      simp only [specFinal, specStep, callsAcc]
      split
      · exact ih _
      · exact Nat.le_trans (ih s) (callsAcc_mono ops _ _ (by omega))
    | tick => simp only [specFinal, specStep, callsAcc]; exact ih _

theorem delayTicks_nonneg (tick delay : Int) (ht : 1 ≤ seconds tick) (hd : 0 ≤ delay) :
    0 ≤ delayTicks tick delay :=
  Int.ediv_nonneg (seconds_nonneg delay hd) (by omega)

theorem mem_regsOf (ops : List Op) (d : Int) (k r : Nat) (h : Op.add d k r ∈ ops) : r ∈ regsOf ops := by
  induction ops with
  | nil => simp at h
  | cons o os ih =>
    simp only [List.mem_cons] at h
    rcases h with h | h
    · subst h; simp [regsOf]
    · cases o <;> simp [regsOf, ih h]

/-- With distinct registration numbers, a number names one `Add` call. -/
theorem regs_nodup_key (ops : List Op) (h : (regsOf ops).Nodup) (d1 d2 : Int) (k1 k2 r : Nat)
    (h1 : Op.add d1 k1 r ∈ ops) (h2 : Op.add d2 k2 r ∈ ops) : k1 = k2 := by
  induction ops with
  | nil => simp at h1
  | cons o os ih =>
    simp only [List.mem_cons] at h1 h2
    cases o with
    | add d k r0 =>
      simp only [regsOf, List.nodup_cons] at h
      rcases h1 with h1 | h1 <;> rcases h2 with h2 | h2
      · simp only [Op.add.injEq] at h1 h2; omega
      · simp only [Op.add.injEq] at h1
        exact absurd (mem_regsOf os d2 k2 r h2) (by rw [h1.2.2]; exact h.1)
      · simp only [Op.add.injEq] at h2
        exact absurd (mem_regsOf os d1 k1 r h1) (by rw [h2.2.2]; exact h.1)
      · exact ih h.2 h1 h2
    | remove k =>
      simp only [regsOf] at h
      have h1' : Op.add d1 k1 r ∈ os := by
        rcases h1 with h1 | h1
        · exact Op.noConfusion h1
        · exact h1
      have h2' : Op.add d2 k2 r ∈ os := by
        rcases h2 with h2 | h2
        · exact Op.noConfusion h2
        · exact h2
      exact ih h h1' h2'
    | tick =>
      simp only [regsOf] at h
      have h1' : Op.add d1 k1 r ∈ os := by
        rcases h1 with h1 | h1
        · exact Op.noConfusion h1
        · exact h1
      have h2' : Op.add d2 k2 r ∈ os := by
        rcases h2 with h2 | h2
        · exact Op.noConfusion h2
        · exact h2
      exact ih h h1' h2'

/-- Every entry of the state was put there by an `Add` of its key with its
    registration number (or was there at the start). -/
theorem live_origin (cap : Nat) (tick : Int) (ops : List Op) :
    ∀ (s : Spec) (x : Nat × Nat × Int), x ∈ (specFinal cap tick s ops).live →
      (∃ y ∈ s.live, y.1 = x.1 ∧ y.2.1 = x.2.1) ∨ (∃ d, Op.add d x.1 x.2.1 ∈ ops) := by
  induction ops with
  | nil => intro s x h; exact Or.inl ⟨x, h, rfl, rfl⟩
  | cons op ops ih =>
    intro s x h
    rcases ih _ x h with ⟨y, hy, hy1, hy2⟩ | ⟨d, hd⟩
    · cases op with
      | add delay k r =>
        simp only [specStep] at hy
        split at hy
        · exact Or.inl ⟨y, hy, hy1, hy2⟩
        · split at hy
          · rcases (mem_sSet _ _ _ _ _).mp hy with h | h
            · subst h
              simp only at hy1 hy2
              exact Or.inr ⟨delay, by rw [← hy1, ← hy2]; simp⟩
            · exact Or.inl ⟨y, h.1, hy1, hy2⟩
          · exact Or.inl ⟨y, hy, hy1, hy2⟩
      | remove k =>
        simp only [specStep] at hy
        split at hy
        · exact Or.inl ⟨y, ((mem_sDel _ _ _).mp hy).1, hy1, hy2⟩
        · exact Or.inl ⟨y, hy, hy1, hy2⟩
      | tick =>
        simp only [specStep] at hy
        obtain ⟨z, hz, _, rfl⟩ := (mem_sNext _ _).mp hy
        exact Or.inl ⟨z, hz, hy1, hy2⟩
    · exact Or.inr ⟨d, by simp [hd]⟩

/-! ### the property on the reference machine -/

/-- **Closed exactly when due.**  In any history in which every `Add` carries
    its own registration number: an accepted registration `Add(delay, k, r)`
    (valid delay, fewer than `cap` calls since the last tick) after which no
    call is made on `k` starts its callback at the tick that comes
    `⌊delay/tick⌋` ticks after the tick that saw it — if the history reaches
    that tick — and at no other tick. -/
theorem spec_fires_exactly_at (cap : Nat) (tick : Int) (ht : 1 ≤ seconds tick)
    (ops1 ops2 : List Op) (delay : Int) (k r : Nat) (hd : 0 < delay)
    (hacc : callsSinceTick ops1 < cap)
    (hnt : ∀ op ∈ ops2, touches k op = false)
    (hregs : (regsOf (ops1 ++ .add delay k r :: ops2)).Nodup) :
    ∀ n : Nat, r ∈ (firedLists (specRun cap tick ⟨[], 0⟩ (ops1 ++ .add delay k r :: ops2))).getD n [] ↔
      ((n : Int) = ticksIn ops1 + delayTicks tick delay ∧ delayTicks tick delay < ticksIn ops2) := by
  intro n
  have hd0 := delayTicks_nonneg tick delay ht (by omega)
  have hinv0 : SInv ⟨[], 0⟩ (ops1 ++ .add delay k r :: ops2) := ⟨by simp, by simpa using hregs⟩
  have hinv1 := sinv_final cap tick ops1 (.add delay k r :: ops2) _ hinv0
  have hq : (specFinal cap tick ⟨[], 0⟩ ops1).queued < cap :=
    Nat.lt_of_le_of_lt (queued_le_calls cap tick ops1 ⟨[], 0⟩) hacc
  have hinv2 := sinv_step cap tick _ (.add delay k r) ops2 hinv1
  have hstep : specStep cap tick (specFinal cap tick ⟨[], 0⟩ ops1) (.add delay k r) =
      (⟨sSet (specFinal cap tick ⟨[], 0⟩ ops1).live k r (delayTicks tick delay),
        (specFinal cap tick ⟨[], 0⟩ ops1).queued + 1⟩, .api .ok) := by
    simp only [specStep]
    rw [if_neg (by omega), if_pos hq]
  rw [hstep] at hinv2
  rw [specRun_append, firedLists_append, getD_append_nat, firedLists_length]
  by_cases hn : n < ticksIn ops1
  · rw [if_pos hn]
    constructor
    · intro h
      exfalso
      rcases fired_mem cap tick ops1 _ r (getD_mem_flatten _ _ _ h) with h | h
      · simp at h
      · rw [regsOf_append] at hregs
        have := (List.nodup_append.mp hregs).2.2 r h r (by simp [regsOf])
        exact this rfl
    · intro ⟨h, _⟩; omega
  · rw [if_neg hn]
    simp only [specRun, hstep, firedLists]
    rw [entry_fires_at cap tick k r ops2 _ (delayTicks tick delay) hnt hd0
      ((mem_sSet _ _ _ _ _).mpr (Or.inl rfl)) hinv2 (n - ticksIn ops1)]
    constructor <;> (intro ⟨a, b⟩; constructor <;> omega)

/-- **At most once.**  In such a history no callback is started twice. -/
theorem spec_fires_at_most_once (cap : Nat) (tick : Int) (ops : List Op) (hregs : (regsOf ops).Nodup) :
    (firedLists (specRun cap tick ⟨[], 0⟩ ops)).flatten.Nodup :=
  fired_nodup cap tick ops _ ⟨by simp, by simpa using hregs⟩

/-- **Removed, or active since: not closed by the older registration.**  Once
    an accepted call on key `k` — a `Remove`, or an `Add` with a valid delay
    (recorded activity) — has been made, the callback of a registration of `k`
    made before it is not started by any later tick. -/
theorem spec_superseded_never_fires (cap : Nat) (tick : Int)
    (ops1 ops2 ops3 : List Op) (delay : Int) (k r : Nat) (op' : Op)
    (hop : op' = .remove k ∨ ∃ delay' r', 0 < delay' ∧ op' = .add delay' k r')
    (hacc : callsSinceTick (ops1 ++ .add delay k r :: ops2) < cap)
    (hregs : (regsOf ((ops1 ++ .add delay k r :: ops2) ++ op' :: ops3)).Nodup) :
    ∀ n : Nat, ticksIn (ops1 ++ .add delay k r :: ops2) ≤ n →
      r ∉ (firedLists (specRun cap tick ⟨[], 0⟩ ((ops1 ++ .add delay k r :: ops2) ++ op' :: ops3))).getD n [] := by
  intro n hn hmem
  have hq : (specFinal cap tick ⟨[], 0⟩ (ops1 ++ .add delay k r :: ops2)).queued < cap :=
    Nat.lt_of_le_of_lt (queued_le_calls cap tick _ ⟨[], 0⟩) hacc
  rw [specRun_append, firedLists_append, getD_append_nat, firedLists_length,
    if_neg (by omega)] at hmem
  rw [regsOf_append] at hregs
  obtain ⟨hP, hS, hdisj⟩ := List.nodup_append.mp hregs
  have hrP : r ∈ regsOf (ops1 ++ .add delay k r :: ops2) := mem_regsOf _ delay k r (by simp)
  -- every entry with number r sits under key k
  have hkey : ∀ x ∈ (specFinal cap tick ⟨[], 0⟩ (ops1 ++ .add delay k r :: ops2)).live,
      x.2.1 = r → x.1 = k := by
    intro x hx hxr
    rcases live_origin cap tick _ _ x hx with ⟨y, hy, _⟩ | ⟨d, hd⟩
    · simp at hy
    · rw [hxr] at hd
      exact regs_nodup_key _ hP d delay x.1 k r hd (by simp)
  -- after the call no entry carries r
  have hgone : ∀ x ∈ (specStep cap tick (specFinal cap tick ⟨[], 0⟩ (ops1 ++ .add delay k r :: ops2)) op').1.live,
      x.2.1 ≠ r := by
    intro x hx hxr
    rcases hop with hop | ⟨delay', r', hd', hop⟩
    · subst hop
      simp only [specStep, if_pos hq] at hx
      obtain ⟨hx1, hx2⟩ := (mem_sDel _ _ _).mp hx
      exact hx2 (hkey x hx1 hxr)
    · subst hop
      simp only [specStep] at hx
      rw [if_neg (by omega), if_pos hq] at hx
      rcases (mem_sSet _ _ _ _ _).mp hx with h | ⟨hx1, hx2⟩
      · subst h
        simp only at hxr
        exact hdisj r hrP r (by simp [regsOf, hxr]) rfl
      · exact hx2 (hkey x hx1 hxr)
  have hout : firedLists (specRun cap tick (specFinal cap tick ⟨[], 0⟩ (ops1 ++ .add delay k r :: ops2)) (op' :: ops3)) =
      firedLists (specRun cap tick (specStep cap tick (specFinal cap tick ⟨[], 0⟩ (ops1 ++ .add delay k r :: ops2)) op').1 ops3) := by
    rcases hop with hop | ⟨delay', r', hd', hop⟩
    · subst hop; simp only [specRun, specStep, if_pos hq, firedLists]
    · subst hop
      simp only [specRun, specStep]
      rw [if_neg (by omega), if_pos hq]
      simp only [firedLists]
  rw [hout] at hmem
  rcases fired_mem cap tick ops3 _ r (getD_mem_flatten _ _ _ hmem) with h | h
  · obtain ⟨x, hx, hxr⟩ := List.mem_map.mp h
    exact hgone x hx hxr
  · have : r ∈ regsOf (op' :: ops3) := by
      rcases hop with hop | ⟨delay', r', _, hop⟩ <;> subst hop <;> simp [regsOf, h]
    exact hdisj r hrP r this rfl

/-! ### the property on the model, with the constants of the source -/

/-- The drain loop of `start()` handles at least a full pipeline per tick
    (constants extracted from util/time_wheel.go on every run). -/
theorem cap_le_limit : Gen.c37PipelineCap ≤ Gen.c37DrainLimit := by decide

theorem new_tick (cap : Nat) (tick N : Int) (tw : TimeWheel) (h : newTimeWheel cap tick N = some tw) :
    1 ≤ seconds tick := by
  unfold newTimeWheel at h
  split at h
  · cases h
  · split at h
    · cases h
    · omega

/-- **C37 on the model: never a panic.**  A wheel built by `NewTimeWheel` runs
    every history of `Add` / `Remove` calls and ticks to the end: no division by
    zero in `calculateRound` / `calculateIndex`, no bucket index out of range. -/
theorem never_panics (tick N : Int) (tw : TimeWheel) (ops : List Op)
    (hnew : newTimeWheel Gen.c37PipelineCap tick N = some tw) :
    ∃ tw' outs, run Gen.c37DrainLimit tw ops = .ok (tw', outs) := by
  obtain ⟨tw', h⟩ := model_refines_spec _ _ tick N tw ops hnew cap_le_limit
  exact ⟨tw', _, h⟩

/-- **C37 on the model: closed exactly once, exactly when due.**  For a wheel
    built by `NewTimeWheel` with any tick ≥ 1 s and any number of buckets
    (delays below, equal to and above any multiple of the wheel's span
    included), and any history in which every `Add` carries its own callback:
    an `Add(delay, k, r)` with a valid delay, made when fewer than 4096 calls
    were made since the last tick, and followed by no call on `k`, starts its
    callback at tick `t + ⌊delay_s / tick_s⌋` (`t` = the tick that sees it) if
    the history gets there, at no other tick, and no callback of the history is
    ever started twice. -/
theorem fires_exactly_once_at (tick N : Int) (tw : TimeWheel)
    (hnew : newTimeWheel Gen.c37PipelineCap tick N = some tw)
    (ops1 ops2 : List Op) (delay : Int) (k r : Nat) (hd : 0 < delay)
    (hacc : callsSinceTick ops1 < Gen.c37PipelineCap)
    (hnt : ∀ op ∈ ops2, touches k op = false)
    (hregs : (regsOf (ops1 ++ .add delay k r :: ops2)).Nodup) :
    ∃ tw' outs, run Gen.c37DrainLimit tw (ops1 ++ .add delay k r :: ops2) = .ok (tw', outs) ∧
      (∀ n : Nat, r ∈ (firedLists outs).getD n [] ↔
        ((n : Int) = ticksIn ops1 + delayTicks tick delay ∧ delayTicks tick delay < ticksIn ops2)) ∧
      (firedLists outs).flatten.Nodup := by
  obtain ⟨tw', h⟩ := model_refines_spec _ _ tick N tw _ hnew cap_le_limit
  exact ⟨tw', _, h,
    spec_fires_exactly_at _ tick (new_tick _ _ _ _ hnew) ops1 ops2 delay k r hd hacc hnt hregs,
    spec_fires_at_most_once _ tick _ hregs⟩

/-- **C37 on the model: a removed session is not closed.**  After an accepted
    `Remove(k)` no tick starts the callback of an earlier registration of `k`. -/
theorem removed_never_fires (tick N : Int) (tw : TimeWheel)
    (hnew : newTimeWheel Gen.c37PipelineCap tick N = some tw)
    (ops1 ops2 ops3 : List Op) (delay : Int) (k r : Nat)
    (hacc : callsSinceTick (ops1 ++ .add delay k r :: ops2) < Gen.c37PipelineCap)
    (hregs : (regsOf ((ops1 ++ .add delay k r :: ops2) ++ .remove k :: ops3)).Nodup) :
    ∃ tw' outs, run Gen.c37DrainLimit tw ((ops1 ++ .add delay k r :: ops2) ++ .remove k :: ops3) =
        .ok (tw', outs) ∧
      ∀ n : Nat, ticksIn (ops1 ++ .add delay k r :: ops2) ≤ n → r ∉ (firedLists outs).getD n [] := by
  obtain ⟨tw', h⟩ := model_refines_spec _ _ tick N tw _ hnew cap_le_limit
  exact ⟨tw', _, h, spec_superseded_never_fires _ tick ops1 ops2 ops3 delay k r _ (Or.inl rfl) hacc hregs⟩

/-- **C37 on the model: recorded activity supersedes.**  After an accepted
    `Add(delay', k, r')` (activity of the session) no tick starts the callback
    of an earlier registration of `k`. -/
theorem refresh_supersedes (tick N : Int) (tw : TimeWheel)
    (hnew : newTimeWheel Gen.c37PipelineCap tick N = some tw)
    (ops1 ops2 ops3 : List Op) (delay delay' : Int) (k r r' : Nat) (hd' : 0 < delay')
    (hacc : callsSinceTick (ops1 ++ .add delay k r :: ops2) < Gen.c37PipelineCap)
    (hregs : (regsOf ((ops1 ++ .add delay k r :: ops2) ++ .add delay' k r' :: ops3)).Nodup) :
    ∃ tw' outs, run Gen.c37DrainLimit tw ((ops1 ++ .add delay k r :: ops2) ++ .add delay' k r' :: ops3) =
        .ok (tw', outs) ∧
      ∀ n : Nat, ticksIn (ops1 ++ .add delay k r :: ops2) ≤ n → r ∉ (firedLists outs).getD n [] := by
  obtain ⟨tw', h⟩ := model_refines_spec _ _ tick N tw _ hnew cap_le_limit
  exact ⟨tw', _, h, spec_superseded_never_fires _ tick ops1 ops2 ops3 delay k r _
    (Or.inr ⟨delay', r', hd', rfl⟩) hacc hregs⟩

/-! ### wall-clock reading -/

/-
  The full wall-clock statement of the property would be, for every timeout `D > 0`:
      D ≤ fire - e ∧ fire - e ≤ D + T.
  The upper bound holds for every `D`; the lower bound is FALSE of the code when
  `D` is not a multiple of the tick (`early_close_witness` below), because the
  timeout is truncated to whole ticks.  Proved: the upper bound, and the lower
  bound under the hypothesis `D % T = 0`.
-/
/-- **In wall-clock terms** (ticker ideal: tick `j` happens at `(j+1)·T`, `T` a
    whole number `ts ≥ 1` of seconds).  Activity recorded at time `e` between
    tick `t-1` and tick `t` is seen by tick `t`; with `d = ⌊D_s / T_s⌋` the
    session is closed at `fire = (t+d+1)·T`.  Then `d·T < fire - e < (d+1)·T`:
    never later than timeout + one tick; and when the timeout `D` is a
    multiple of the tick, never earlier than the timeout. -/
theorem wall_clock_partial (ts D e t : Int) (hts : 1 ≤ ts) (hD : 0 < D)
    (he1 : t * (ts * 1000000000) < e) (he2 : e < (t + 1) * (ts * 1000000000)) :
    delayTicks (ts * 1000000000) D * (ts * 1000000000) <
        (t + delayTicks (ts * 1000000000) D + 1) * (ts * 1000000000) - e ∧
    (t + delayTicks (ts * 1000000000) D + 1) * (ts * 1000000000) - e < D + ts * 1000000000 ∧
    (D % (ts * 1000000000) = 0 →
      D < (t + delayTicks (ts * 1000000000) D + 1) * (ts * 1000000000) - e) := by
  have hsT : seconds (ts * 1000000000) = ts := Int.mul_tdiv_cancel ts (by decide)
  have hsD : seconds D = D / 1000000000 := Int.tdiv_eq_ediv_of_nonneg (by omega)
  have hd : delayTicks (ts * 1000000000) D = D / (ts * 1000000000) := by
    unfold delayTicks
    rw [hsT, hsD, Int.ediv_ediv_of_nonneg (by decide), Int.mul_comm]
  rw [hd]
  have hT : (0 : Int) < ts * 1000000000 := by omega
  have h1 : D / (ts * 1000000000) * (ts * 1000000000) ≤ D := Int.ediv_mul_le D (by omega)
  have h2 : D < (ts * 1000000000) * (D / (ts * 1000000000)) + ts * 1000000000 :=
    Int.lt_mul_ediv_self_add hT
  have h3 : D % (ts * 1000000000) = D - (ts * 1000000000) * (D / (ts * 1000000000)) := Int.emod_def _ _
  rw [Int.mul_comm (ts * 1000000000) (D / (ts * 1000000000))] at h2 h3
  have hexp : (t + D / (ts * 1000000000) + 1) * (ts * 1000000000) =
      t * (ts * 1000000000) + D / (ts * 1000000000) * (ts * 1000000000) + ts * 1000000000 := by
    rw [Int.add_mul, Int.add_mul, Int.one_mul]
  have hexp2 : (t + 1) * (ts * 1000000000) = t * (ts * 1000000000) + ts * 1000000000 := by
    rw [Int.add_mul, Int.one_mul]
  rw [hexp]
  rw [hexp2] at he2
  generalize D / (ts * 1000000000) * (ts * 1000000000) = dT at *
  generalize t * (ts * 1000000000) = tT at *
  refine ⟨by omega, by omega, fun h => by omega⟩

/-- The proxy's idle timer (`timeWheelUnit` seconds per tick, extracted): a
    session timeout that is a multiple of the tick closes a session no earlier
    than the timeout and less than one tick later. -/
theorem session_close_window_partial (timeoutS e t : Int) (hpos : 0 < timeoutS)
    (hmul : timeoutS % (Gen.c37TickSeconds : Int) = 0)
    (he1 : t * ((Gen.c37TickSeconds : Int) * 1000000000) < e)
    (he2 : e < (t + 1) * ((Gen.c37TickSeconds : Int) * 1000000000)) :
    timeoutS * 1000000000 <
      (t + delayTicks ((Gen.c37TickSeconds : Int) * 1000000000) (timeoutS * 1000000000) + 1) *
        ((Gen.c37TickSeconds : Int) * 1000000000) - e ∧
    (t + delayTicks ((Gen.c37TickSeconds : Int) * 1000000000) (timeoutS * 1000000000) + 1) *
        ((Gen.c37TickSeconds : Int) * 1000000000) - e <
      timeoutS * 1000000000 + (Gen.c37TickSeconds : Int) * 1000000000 := by
  have hts : (1 : Int) ≤ (Gen.c37TickSeconds : Int) := by decide
  obtain ⟨_, h2, h3⟩ := wall_clock_partial (Gen.c37TickSeconds : Int) (timeoutS * 1000000000) e t hts
    (by omega) he1 he2
  refine ⟨h3 ?_, h2⟩
  have hdvd : ((Gen.c37TickSeconds : Int) * 1000000000) ∣ timeoutS * 1000000000 :=
    Int.mul_dvd_mul_right _ (Int.dvd_of_emod_eq_zero hmul)
  exact Int.emod_eq_zero_of_dvd hdvd

/-! ### defects of the pinned code (open findings), as theorems about the model -/

/-- **Witness: closed early.**  The proxy's wheel (5 s tick, 3600 buckets), a
    session with a 7 s timeout whose activity is recorded 4 s after time 0
    (1 s before tick 0 at 5 s): its callback is started by tick 1, at 10 s —
    6 s after the activity, 1 s before the timeout. -/
theorem early_close_witness :
    (match newTimeWheel Gen.c37PipelineCap (Gen.c37TickSeconds * 1000000000) Gen.c37BucketsNum with
      | some tw =>
        (match run Gen.c37DrainLimit tw [.add 7000000000 1 1, .tick, .tick, .tick] with
         | .ok (_, outs) => some (firedLists outs)
         | _ => none)
      | none => none) = some [[], [1], []] ∧
    (1 + 1) * ((Gen.c37TickSeconds : Int) * 1000000000) - 4000000000 < 7000000000 := by decide

/-- `Add` on a full pipeline returns `nil` and changes nothing: the
    registration is lost. -/
theorem add_dropped_when_full (tw : TimeWheel) (delay : Int) (k r : Nat) (hd : 0 < delay)
    (hfull : tw.pipelineCap ≤ tw.pipelineC.length) : apiAdd tw delay k r = (tw, .ok) := by
  simp only [apiAdd]
  rw [if_neg (by omega), if_neg (by omega)]

theorem specFinal_append (cap : Nat) (tick : Int) (ops1 ops2 : List Op) :
    ∀ s, specFinal cap tick s (ops1 ++ ops2) = specFinal cap tick (specFinal cap tick s ops1) ops2 := by
  induction ops1 with
  | nil => intro s; rfl
  | cons o os ih => intro s; exact ih _

/-- A burst of `n` `Add`s by other sessions (keys `base`, `base+1`, …). -/
def burst (delay : Int) (base : Nat) : Nat → List Op
  | 0 => []
  | n + 1 => burst delay base n ++ [.add delay (base + n) (base + n)]

theorem burst_spec (cap : Nat) (tick delay : Int) (hd : 0 < delay) (base k r : Nat) (m : Int)
    (hk : k < base) (n : Nat) :
    ∀ s : Spec, s.queued + n ≤ cap → (k, r, m) ∈ s.live →
      (specFinal cap tick s (burst delay base n)).queued = s.queued + n ∧
      (k, r, m) ∈ (specFinal cap tick s (burst delay base n)).live ∧
      firedLists (specRun cap tick s (burst delay base n)) = [] := by
  induction n with
  | zero => intro s _ h; exact ⟨rfl, h, rfl⟩
  | succ n ih =>
    intro s hq hmem
    obtain ⟨h1, h2, h3⟩ := ih s (by omega) hmem
    simp only [burst]
    rw [specFinal_append, specRun_append, firedLists_append, h3]
    simp only [specFinal, specRun, specStep]
    rw [if_neg (by omega), if_pos (by omega)]
    refine ⟨by simp only; omega, ?_, rfl⟩
    exact (mem_sSet _ _ _ _ _).mpr (Or.inr ⟨h2, by simp only [ne_eq]; omega⟩)

/-- The history of the dropped refresh for a pipeline of `cap` calls: session
    1 registers (`delay`) and is seen by tick 0; then `cap` other sessions
    record activity; then session 1 records activity again; then tick 1. -/
def droppedHistory (cap : Nat) (delay : Int) : List Op :=
  [.add delay 1 1, .tick] ++
    (burst (1000 * delay) 1000000 cap ++ [.add delay 1 2, .tick])

/-- On the reference machine, whatever the capacity: when `delay` is one tick,
    tick 1 starts callback 1 although `Add(delay, 1, callback 2)` was called
    before it. -/
theorem refresh_dropped_spec (cap : Nat) (tick delay : Int) (hcap : 0 < cap) (hd : 0 < delay)
    (h1 : delayTicks tick delay = 1) :
    1 ∈ (firedLists (specRun cap tick ⟨[], 0⟩ (droppedHistory cap delay))).getD 1 [] := by
  have hb := burst_spec cap tick (1000 * delay) (by omega) 1000000 1 1 0 (by decide) cap
    ⟨[(1, 1, 0)], 0⟩ (by simp) (by simp)
  obtain ⟨hq, hmem, hfl⟩ := hb
  have hs2 : specFinal cap tick ⟨[], 0⟩ [.add delay 1 1, .tick] = ⟨[(1, 1, 0)], 0⟩ := by
    simp only [specFinal, specStep]
    rw [if_neg (by omega), if_pos hcap, h1]
    rfl
  have hA : firedLists (specRun cap tick ⟨[], 0⟩ [.add delay 1 1, .tick]) = [[]] := by
    simp only [specRun, specStep]
    rw [if_neg (by omega), if_pos hcap, h1]
    rfl
  unfold droppedHistory
  rw [specRun_append, firedLists_append, specRun_append, firedLists_append, hA, hs2, hfl]
  simp only [List.nil_append, List.singleton_append, List.getD_cons_succ, specRun, specStep]
  rw [if_neg (by omega), if_neg (by rw [hq]; simp)]
  simp only [firedLists, List.getD_cons_zero]
  exact (mem_sFired _ _).mpr ⟨(1, 1, 0), hmem, rfl, rfl⟩

/-- **Witness: an active session closed by its older registration.**  On the
    proxy's wheel (5 s tick, 3600 buckets, pipeline of 4096), in
    `droppedHistory` the refresh `Add(5 s, 1, callback 2)` is made before tick 1
    with a valid delay, and still tick 1 starts callback 1: the conclusion of
    `refresh_supersedes` fails without its hypothesis that fewer than 4096
    calls were made since the last tick. -/
theorem refresh_dropped_witness :
    ∃ tw tw' outs,
      newTimeWheel Gen.c37PipelineCap ((Gen.c37TickSeconds : Int) * 1000000000) Gen.c37BucketsNum = some tw ∧
      run Gen.c37DrainLimit tw
        (droppedHistory Gen.c37PipelineCap ((Gen.c37TickSeconds : Int) * 1000000000)) = .ok (tw', outs) ∧
      1 ∈ (firedLists outs).getD 1 [] := by
  have hnew : ∃ tw, newTimeWheel Gen.c37PipelineCap ((Gen.c37TickSeconds : Int) * 1000000000)
      Gen.c37BucketsNum = some tw := by
    cases h : newTimeWheel Gen.c37PipelineCap ((Gen.c37TickSeconds : Int) * 1000000000) Gen.c37BucketsNum with
    | some tw => exact ⟨tw, rfl⟩
    | none =>
      exfalso
      have : (newTimeWheel Gen.c37PipelineCap ((Gen.c37TickSeconds : Int) * 1000000000)
        Gen.c37BucketsNum).isSome = true := by decide
      rw [h] at this
      cases this
  obtain ⟨tw, hnew⟩ := hnew
  obtain ⟨tw', h⟩ := model_refines_spec _ _ _ _ tw
    (droppedHistory Gen.c37PipelineCap ((Gen.c37TickSeconds : Int) * 1000000000)) hnew cap_le_limit
  exact ⟨tw, tw', _, hnew, h,
    refresh_dropped_spec _ _ _ (by decide) (by decide) (by decide)⟩

/-! ### the hypotheses are satisfiable, the statements are not vacuous -/

/-- A wheel of 3 buckets and 1 s tick; key 1 registered for 7 s (more than two
    spans) after one tick, key 2 active in between: `fires_exactly_once_at`
    applies, and says tick 8 (= 1 + 7). -/
example :
    ∃ tw, newTimeWheel Gen.c37PipelineCap 1000000000 3 = some tw ∧
      callsSinceTick [Op.tick] < Gen.c37PipelineCap ∧
      (∀ op ∈ [Op.add 2000000000 2 8, .tick, .tick, .remove 2, .tick, .tick, .tick, .tick, .tick, .tick],
        touches 1 op = false) ∧
      (regsOf ([Op.tick] ++ .add 7000000000 1 7 ::
        [Op.add 2000000000 2 8, .tick, .tick, .remove 2, .tick, .tick, .tick, .tick, .tick, .tick])).Nodup ∧
      (match run Gen.c37DrainLimit tw ([Op.tick] ++ .add 7000000000 1 7 ::
        [Op.add 2000000000 2 8, .tick, .tick, .remove 2, .tick, .tick, .tick, .tick, .tick, .tick]) with
       | .ok (_, outs) => some (firedLists outs)
       | _ => none) = some [[], [], [], [], [], [], [], [], [7]] := by
  refine ⟨_, rfl, by decide, by decide, by decide, by decide⟩

/-- `removed_never_fires` / `refresh_supersedes` on a concrete history: key 1
    removed, key 2 refreshed (callback 3 replaces callback 2) before they are due. -/
example :
    (match newTimeWheel Gen.c37PipelineCap 1000000000 2 with
     | some tw =>
       (match run Gen.c37DrainLimit tw
          [.add 3000000000 1 1, .add 3000000000 2 2, .tick, .tick, .remove 1, .add 2000000000 2 3,
           .tick, .tick, .tick, .tick] with
        | .ok (_, outs) => some (firedLists outs)
        | _ => none)
     | none => none) = some [[], [], [], [], [3], []] := by decide

example : (regsOf ([Op.add 3000000000 1 1, .add 3000000000 2 2, .tick, .tick] ++
    .remove 1 :: [Op.add 2000000000 2 3, .tick])).Nodup := by decide

end GaeaVerif.C37
