import GaeaVerif.Model.ResourcePool
import GaeaVerif.Lemmas.C24Pool
/-
  C24 — The connection pool never over-allocates, double-issues or fails a return.

  Statement (properties.jsonl): under any interleaving of concurrent get,
  return, idle-close, automatic scale-out/scale-in, capacity change and close
  operations, the pool never has more connections handed out than its maximum
  capacity, never hands the same connection to two holders, and returning a
  connection obtained from it never fails; when no operation is in progress,
  idle plus in-use connections equal the current capacity.

  The model (Model/ResourcePool.lean) is the transition system of
  util/resource_pool.go at the granularity of its atomic actions, any number of
  threads, any programs, any schedule.

  What is proved:
  * `pool_no_double_issue` — full strength, every run of every program: a
    resource is never in two places (channel, operation in progress, client).
  * `pool_safe_partial` — every run in which no ScaleCapacity other than the
    one of Close lowers the capacity: handed-out ≤ maxCap, Put never panics
    (in fact no pool operation panics), quiescent ⇒ len(chan)+inUse = capacity
    and available = len(chan).  This covers Get (with scale-out and factory
    failures), Put, Put(nil), idle sweeps, growing SetCapacity/ScaleCapacity,
    Close, scale-in ticks that do not fire.
  * `pool_safe_clients_sweep_close` — the same without any hypothesis on the
    run, for threads whose programs consist of Get/Put/Put(nil)/sweep/Close.
  * The full statement (no hypothesis, all operations) is FALSE of the code:
    `shrink_scaleout_overalloc_witness`, `shrink_grow_put_full_witness`,
    `shrink_close_put_closed_witness` are concrete schedules (replayed on the
    real pool from corpus/C24) in which a capacity change during the window of
    a shrinking ScaleCapacity breaks each of the three safety clauses.
-/
namespace GaeaVerif.C24
open GaeaVerif.ResourcePool

/-! ## Reachability -/

/-- The step of thread `i` is not a capacity-lowering swap of ScaleCapacity,
    except the one of Close (target 0, after the timers were stopped). -/
def Allowed (s : State) (i : Nat) : Prop := ∀ t, s.threads[i]? = some t → AllowedT s.pool t

/-- States reachable from `s0` by any schedule of allowed steps. -/
inductive Reach (s0 : State) : State → Prop where
  | init : Reach s0 s0
  | step {s s' : State} {i : Nat} {a : Alt} {ev : Ev} :
      Reach s0 s → Allowed s i → step s i a = some (s', ev) → Reach s0 s'

/-- States reachable from `s0` by any schedule at all. -/
inductive ReachAll (s0 : State) : State → Prop where
  | init : ReachAll s0 s0
  | step {s s' : State} {i : Nat} {a : Alt} {ev : Ev} :
      ReachAll s0 s → step s i a = some (s', ev) → ReachAll s0 s'

/-! ## The inductive invariant -/

structure Inv (s : State) : Prop where
  eq : (s.pool.chan.length : Int) + (sumN tok s.threads : Nat) + (sumN growP s.threads : Nat)
        = s.pool.capacity + (sumN closeP s.threads : Nat)
  bound : s.pool.capacity + (sumN closeP s.threads : Nat) ≤ s.pool.maxCap
  capNonneg : 0 ≤ s.pool.capacity
  noCloser : s.pool.capacity ≠ 0 → sumN closer s.threads = 0
  oneCloser : sumN closer s.threads ≤ 1
  closedOk : s.pool.closed = true → s.pool.capacity = 0 ∧ sumN closer s.threads = 0
  timerOff : s.pool.capacity = 0 → s.pool.idleOn = false
  idleQuiet : s.pool.idleOn = false → s.pool.idleBusy = 0
  sweeps : sumN sweepF s.threads = s.pool.idleBusy
  asserts : ∀ t ∈ s.threads, A s.pool.maxCap t
  inUse : s.pool.inUse = (sumN inUseW s.threads : Nat)
  avail : s.pool.available = s.pool.chan.length + sumI avW s.threads
  alive : ∀ t ∈ s.threads, t.pc ≠ .dead

theorem closeP_zero_of_closer (t : Thread) (h : closer t = 0) : closeP t = 0 := by
  obtain ⟨prog, pc, held, child⟩ := t
  cases pc <;> simp_all [closer, closeP]

theorem inv_init {capacity maxCap : Int} {dyn : Bool} {progs : List (List Op)} {s : State}
    (h : init capacity maxCap dyn progs = some s) : Inv s := by
  unfold init newPool at h
  split at h
  · simp at h
  · rename_i hc
    simp at h
    subst h
    have z1 : sumN tok (progs.map mkThread) = 0 := sumN_map_zero _ _ (by intro x; simp [tok, pcTok, mkThread]) _
    have z2 : sumN growP (progs.map mkThread) = 0 := sumN_map_zero _ _ (by intro x; simp [growP, mkThread]) _
    have z3 : sumN closeP (progs.map mkThread) = 0 := sumN_map_zero _ _ (by intro x; simp [closeP, mkThread]) _
    have z4 : sumN closer (progs.map mkThread) = 0 := sumN_map_zero _ _ (by intro x; simp [closer, mkThread]) _
    have z5 : sumN sweepF (progs.map mkThread) = 0 := sumN_map_zero _ _ (by intro x; simp [sweepF, mkThread]) _
    have z6 : sumN inUseW (progs.map mkThread) = 0 := sumN_map_zero _ _ (by intro x; simp [inUseW, mkThread]) _
    have z7 : sumI avW (progs.map mkThread) = 0 := sumI_map_zero _ _ (by intro x; simp [avW, mkThread]) _
    constructor <;> simp_all <;> try omega
    all_goals (intro t _; subst_vars; simp [A, mkThread])

/-- Facts about the stepping thread that follow from the invariant. -/
theorem inv_local {s : State} {i : Nat} {t : Thread} (hI : Inv s) (hti : s.threads[i]? = some t) :
    A s.pool.maxCap t
    ∧ (s.pool.closed = true → tok t = 0 ∧ growP t = 0 ∧ closer t = 0 ∧ sweepF t = 0)
    ∧ s.pool.chan.length + tok t ≤ s.pool.maxCap
    ∧ (closer t = 1 → s.pool.capacity = 0)
    ∧ (s.pool.capacity ≠ 0 → sumN closeP s.threads = 0)
    ∧ closeP t ≤ sumN closeP s.threads
    ∧ sweepF t ≤ s.pool.idleBusy := by
  have hmem : t ∈ s.threads := List.mem_of_getElem? hti
  have e1 := sumN_elem_le tok _ i t hti
  have e2 := sumN_elem_le growP _ i t hti
  have e3 := sumN_elem_le closeP _ i t hti
  have e4 := sumN_elem_le closer _ i t hti
  have e5 := sumN_elem_le sweepF _ i t hti
  have heq := hI.eq
  have hb := hI.bound
  have hsw := hI.sweeps
  refine ⟨hI.asserts t hmem, ?_, ?_, ?_, ?_, e3, by omega⟩
  · intro hc
    obtain ⟨hc0, hcz⟩ := hI.closedOk hc
    have hcp := sumN_zero_of closeP closer closeP_zero_of_closer _ hcz
    have hio := hI.idleQuiet (hI.timerOff hc0)
    omega
  · omega
  · intro h1
    rcases Decidable.em (s.pool.capacity = 0) with h0 | h0
    · exact h0
    · have := hI.noCloser h0; omega
  · intro h0
    exact sumN_zero_of closeP closer closeP_zero_of_closer _ (hI.noCloser h0)

/-- The invariant is preserved by every allowed step of every thread. -/
theorem inv_step {s s' : State} {i : Nat} {a : Alt} {ev : Ev}
    (hI : Inv s) (hall : Allowed s i) (hs : step s i a = some (s', ev)) : Inv s' := by
  unfold step at hs
  cases hti : s.threads[i]? with
  | none => simp [hti] at hs
  | some t =>
    simp only [hti] at hs
    cases hr : stepThread s.pool t a with
    | none => simp [hr] at hs
    | some r =>
      simp only [hr, Option.some.injEq, Prod.mk.injEq] at hs
      obtain ⟨hs', _⟩ := hs
      have hp : s'.pool = r.pool := (congrArg State.pool hs').symm
      have hth : s'.threads = match r.spawn with
          | some c => s.threads.set i r.thr ++ [c] | none => s.threads.set i r.thr :=
        (congrArg State.threads hs').symm
      obtain ⟨hA, hcl, hroom, hc0, hS, hle, hsw⟩ := inv_local hI hti
      have hallT := hall t hti
      have L1 := step_eq _ _ _ _ hr hA hallT hcl hroom
      obtain ⟨C1, C2, C3, C4, C5⟩ := step_cap _ _ _ _ (sumN closeP s.threads) hr hA hallT hcl hI.capNonneg
        (fun hc => (hI.closedOk hc).1) hc0 hS hI.bound hle
      obtain ⟨T1, T2, T3⟩ := step_timer _ _ _ _ hr hA hallT hcl hI.capNonneg hI.timerOff hI.idleQuiet hsw
      obtain ⟨A1, A2, A3⟩ := step_A _ _ _ _ hr hA hallT hI.capNonneg
      obtain ⟨K1, K2, K3⟩ := step_counters _ _ _ _ hr hcl hroom hA
      have s1 := sumN_step tok s.threads s'.threads i t r.thr r.spawn hti hth (fun c hc => (A3 c hc).1)
      have s2 := sumN_step growP s.threads s'.threads i t r.thr r.spawn hti hth (fun c hc => (A3 c hc).2.1)
      have s3 := sumN_step closeP s.threads s'.threads i t r.thr r.spawn hti hth (fun c hc => (A3 c hc).2.2.1)
      have s4 := sumN_step closer s.threads s'.threads i t r.thr r.spawn hti hth (fun c hc => (A3 c hc).2.2.2.1)
      have s5 := sumN_step sweepF s.threads s'.threads i t r.thr r.spawn hti hth (fun c hc => (A3 c hc).2.2.2.2.1)
      have s6 := sumN_step inUseW s.threads s'.threads i t r.thr r.spawn hti hth (fun c hc => (A3 c hc).2.2.2.2.2.1)
      have s7 := sumI_step avW s.threads s'.threads i t r.thr r.spawn hti hth (fun c hc => (A3 c hc).2.2.2.2.2.2.1)
      have e4 := sumN_elem_le closer _ i t hti
      have heq := hI.eq
      have hb := hI.bound
      have hsw' := hI.sweeps
      have hiu := hI.inUse
      have hav := hI.avail
      have h1c := hI.oneCloser
      constructor
      · rw [hp]; omega
      · rw [hp]; omega
      · rw [hp]; exact C1
      · rw [hp]
        intro h0
        obtain ⟨c1, c2⟩ := C3 h0
        have := hI.noCloser c2
        omega
      · rcases C4 with c | ⟨c1, c2⟩
        · omega
        · have := hI.noCloser c1; omega
      · rw [hp]
        intro hc
        obtain ⟨c1, c2, c3⟩ := C5 hc
        refine ⟨c1, ?_⟩
        rcases c3 with c3 | c3
        · have := (hI.closedOk c3).2; omega
        · omega
      · rw [hp]; exact T1
      · rw [hp]; exact T2
      · rw [hp]; omega
      · rw [hp]
        intro t' ht'
        rw [A2]
        rcases mem_step hth ht' with h | h | h
        · exact hI.asserts t' h
        · subst h; rw [← A2]; exact A1
        · exact (A3 _ h).2.2.2.2.2.2.2.1
      · rw [hp]; omega
      · rw [hp]; omega
      · intro t' ht'
        rcases mem_step hth ht' with h | h | h
        · exact hI.alive t' h
        · subst h; exact K3
        · exact (A3 _ h).2.2.2.2.2.2.2.2

/-! ## The property -/

/-- Resources handed out to clients (obtained from Get and not yet given to Put). -/
def handedOut (s : State) : Nat := sumN (fun t => t.held.length) s.threads

/-- No operation is in progress. -/
def Quiescent (s : State) : Prop := ∀ t ∈ s.threads, t.pc = .idle

/-- C24 as a state predicate. -/
structure Safe (s : State) : Prop where
  /-- never more resources handed out than the maximum capacity -/
  notOver : handedOut s ≤ s.pool.maxCap
  /-- a Put about to send finds the channel open and not full -/
  putOk : ∀ t ∈ s.threads, ∀ w, t.pc = .pSend w → s.pool.closed = false ∧ s.pool.chan.length < s.pool.maxCap
  /-- no thread has panicked inside a pool operation -/
  noPanic : ∀ t ∈ s.threads, t.pc ≠ .dead
  /-- when no operation is in progress, idle + in-use = capacity (and the `available` counter is exact) -/
  quiescent : Quiescent s →
    (s.pool.chan.length : Int) + s.pool.inUse = s.pool.capacity ∧ s.pool.available = s.pool.chan.length

theorem sumN_const_zero (l : List Thread) : sumN (fun _ => 0) l = 0 := by
  induction l with
  | nil => simp
  | cons a l ih => simp [ih]

theorem safe_of_inv {s : State} (hI : Inv s) : Safe s := by
  have heq := hI.eq
  have hb := hI.bound
  constructor
  · have : handedOut s ≤ sumN tok s.threads := sumN_le_of _ _ (by intro t; simp [tok]) _
    omega
  · intro t ht w hpc
    obtain ⟨i, hti⟩ := List.mem_iff_getElem?.mp ht
    obtain ⟨_, hcl, hroom, _⟩ := inv_local hI hti
    have htok : 1 ≤ tok t := by simp [tok, pcTok, hpc]
    constructor
    · cases hc : s.pool.closed with
      | false => rfl
      | true => have := (hcl hc).1; omega
    · omega
  · exact hI.alive
  · intro hq
    have h1 : sumN tok s.threads = sumN inUseW s.threads :=
      sumN_congr _ _ _ (by intro t ht; simp [tok, inUseW, pcTok, hq t ht])
    have h2 : sumN growP s.threads = 0 := by
      rw [sumN_congr growP (fun _ => 0) _ (by intro t ht; simp [growP, hq t ht])]
      exact sumN_const_zero _
    have h3 : sumN closeP s.threads = 0 := by
      rw [sumN_congr closeP (fun _ => 0) _ (by intro t ht; simp [closeP, hq t ht])]
      exact sumN_const_zero _
    have h4 : sumI avW s.threads = 0 := sumI_zero_of _ _ (by intro t ht; simp [avW, hq t ht])
    have hiu := hI.inUse
    have hav := hI.avail
    constructor <;> omega

theorem reach_inv {s0 s : State} (h0 : Inv s0) (hr : Reach s0 s) : Inv s := by
  induction hr with
  | init => exact h0
  | step _ hall hs ih => exact inv_step ih hall hs

/--
  **C24, partial.**  Full statement: for every reachable state under every
  interleaving of every program (get, put, idle sweep, scale-in tick,
  SetCapacity, ScaleCapacity, Close): `Safe s`.  That statement is false of
  util/resource_pool.go (see the `_witness` theorems).  Proved here: along
  every schedule in which the only capacity-lowering swap of ScaleCapacity is
  the one of Close (`Allowed`), for any number of threads running any
  programs, from any valid pool configuration: never more than `maxCap`
  resources handed out, every Put finds room in an open channel, no pool
  operation panics, and in quiescent states `len(chan) + inUse = capacity`.
-/
theorem pool_safe_partial {capacity maxCap : Int} {dyn : Bool} {progs : List (List Op)} {s0 s : State}
    (h0 : init capacity maxCap dyn progs = some s0) (hr : Reach s0 s) : Safe s :=
  safe_of_inv (reach_inv (inv_init h0) hr)

/-- In the same runs, no step reports a panic: in particular a Put of a resource
    obtained from Get never hits the `full` or the closed-channel branch. -/
theorem put_never_fails_partial {capacity maxCap : Int} {dyn : Bool} {progs : List (List Op)} {s0 s s' : State}
    {i : Nat} {a : Alt} {ev : Ev}
    (h0 : init capacity maxCap dyn progs = some s0) (hr : Reach s0 s)
    (hs : step s i a = some (s', ev)) : evIsPanic ev = false := by
  have hI := reach_inv (inv_init h0) hr
  unfold step at hs
  cases hti : s.threads[i]? with
  | none => simp [hti] at hs
  | some t =>
    simp only [hti] at hs
    cases hr' : stepThread s.pool t a with
    | none => simp [hr'] at hs
    | some r =>
      simp only [hr', Option.some.injEq, Prod.mk.injEq] at hs
      obtain ⟨_, hev⟩ := hs
      obtain ⟨hA, hcl, hroom, _⟩ := inv_local hI hti
      have K := (step_counters _ _ _ _ hr' hcl hroom hA).2.2
      cases hp : evIsPanic ev with
      | false => rfl
      | true => exact absurd (ev_panic_dead _ _ _ _ hr' (hev ▸ hp)) K

/-! ## The fragment without hypothesis on the schedule -/

/-- Every thread belongs to the fragment Get/Put/Put(nil)/sweep/Close. -/
def BasicS (s : State) : Prop :=
  ∀ t ∈ s.threads, BasicT t ∧ (inClose t.pc = true → s.pool.idleOn = false)

theorem basic_step {s s' : State} {i : Nat} {a : Alt} {ev : Ev}
    (hB : BasicS s) (hs : step s i a = some (s', ev)) : BasicS s' ∧ Allowed s i := by
  unfold step at hs
  cases hti : s.threads[i]? with
  | none => simp [hti] at hs
  | some t =>
    simp only [hti] at hs
    cases hr : stepThread s.pool t a with
    | none => simp [hr] at hs
    | some r =>
      simp only [hr, Option.some.injEq, Prod.mk.injEq] at hs
      obtain ⟨hs', _⟩ := hs
      have hmem : t ∈ s.threads := List.mem_of_getElem? hti
      obtain ⟨hBt, hct⟩ := hB t hmem
      obtain ⟨b1, b2, b3, b4⟩ := step_basic _ _ _ _ hr hBt hct
      have hp : s'.pool = r.pool := (congrArg State.pool hs').symm
      have hth : s'.threads = match r.spawn with
          | some c => s.threads.set i r.thr ++ [c] | none => s.threads.set i r.thr :=
        (congrArg State.threads hs').symm
      refine ⟨?_, ?_⟩
      · intro t' ht'
        rw [hp]
        rcases mem_step hth ht' with h | h | h
        · obtain ⟨x1, x2⟩ := hB t' h
          exact ⟨x1, fun hc => b4 (x2 hc)⟩
        · subst h; exact ⟨b1, b2⟩
        · rw [b3] at h; cases h
      · intro t2 ht2
        rw [hti] at ht2
        cases ht2
        exact basic_allowed _ _ hBt hct

theorem basic_reach {s0 s : State} (hB : BasicS s0) (hr : ReachAll s0 s) : BasicS s ∧ Reach s0 s := by
  induction hr with
  | init => exact ⟨hB, .init⟩
  | step _ hs ih =>
    obtain ⟨b, a⟩ := basic_step ih.1 hs
    exact ⟨b, .step ih.2 a hs⟩

/--
  **C24 for clients, the idle sweeper and Close — no hypothesis on the schedule.**
  Any number of threads whose programs consist of Get (with any number of
  factory failures, with scale-out when `Dynamic`), Put, Put(nil), idle sweeps,
  Close (and the passing of time), under every interleaving of their atomic
  steps: the pool is `Safe` in every reachable state.
-/
theorem pool_safe_clients_sweep_close {capacity maxCap : Int} {dyn : Bool} {progs : List (List Op)} {s0 s : State}
    (hprogs : ∀ p ∈ progs, p.all basicOp = true)
    (h0 : init capacity maxCap dyn progs = some s0) (hr : ReachAll s0 s) : Safe s := by
  have hB : BasicS s0 := by
    unfold init at h0
    cases hp : newPool capacity maxCap dyn with
    | none => simp [hp] at h0
    | some p =>
      simp [hp] at h0
      subst h0
      intro t ht
      simp at ht
      obtain ⟨pr, hpr, rfl⟩ := ht
      simp [BasicT, mkThread, inClose]
      exact fun x hx => List.all_eq_true.mp (hprogs pr hpr) x hx
  exact pool_safe_partial h0 (basic_reach hB hr).2

/-! ## No resource is issued twice (all runs, all operations) -/

/-- Number of places resource `r` is in: slots of the channel, operations in
    progress, clients. -/
def occ (r : Nat) (s : State) : Nat := s.pool.chan.count (some r) + sumN (resW r) s.threads

def ND (s : State) : Prop := ∀ r, occ r s ≤ 1 ∧ (s.pool.nextRes ≤ r → occ r s = 0)

theorem nd_init {capacity maxCap : Int} {dyn : Bool} {progs : List (List Op)} {s : State}
    (h : init capacity maxCap dyn progs = some s) : ND s := by
  unfold init newPool at h
  split at h
  · simp at h
  · simp at h
    subst h
    intro r
    have z : sumN (resW r) (progs.map mkThread) = 0 :=
      sumN_map_zero _ _ (by intro x; simp [resW, pcRes, mkThread]) _
    simp [occ, z, List.count_replicate]

theorem nd_step {s s' : State} {i : Nat} {a : Alt} {ev : Ev}
    (hN : ND s) (hs : step s i a = some (s', ev)) : ND s' := by
  unfold step at hs
  cases hti : s.threads[i]? with
  | none => simp [hti] at hs
  | some t =>
    simp only [hti] at hs
    cases hr : stepThread s.pool t a with
    | none => simp [hr] at hs
    | some q =>
      simp only [hr, Option.some.injEq, Prod.mk.injEq] at hs
      obtain ⟨hs', _⟩ := hs
      have hp : s'.pool = q.pool := (congrArg State.pool hs').symm
      have hth : s'.threads = match q.spawn with
          | some c => s.threads.set i q.thr ++ [c] | none => s.threads.set i q.thr :=
        (congrArg State.threads hs').symm
      intro r
      obtain ⟨R1, R2⟩ := step_res _ _ _ _ r hr
      have e := sumN_step (resW r) s.threads s'.threads i t q.thr q.spawn hti hth R2
      have el := sumN_elem_le (resW r) _ i t hti
      obtain ⟨n1, n2⟩ := hN r
      unfold occ at n1 n2 ⊢
      rw [hp]
      rcases R1 with ⟨r1, r2⟩ | ⟨r1, r2⟩
      · rw [r1]
        constructor
        · omega
        · intro h; have := n2 h; omega
      · rw [r1]
        by_cases hr0 : s.pool.nextRes = r
        · simp [hr0] at r2
          have := n2 (by omega)
          constructor
          · omega
          · intro h; omega
        · simp [hr0] at r2
          constructor
          · omega
          · intro h; have := n2 (by omega); omega

/--
  **C24: a resource is never issued twice** — full strength: every program,
  every operation (including the racy capacity changes), every interleaving.
  In every reachable state every resource number is in at most one place
  (a slot of the channel, an operation in progress, a client).
-/
theorem pool_no_double_issue {capacity maxCap : Int} {dyn : Bool} {progs : List (List Op)} {s0 s : State}
    (h0 : init capacity maxCap dyn progs = some s0) (hr : ReachAll s0 s) (r : Nat) : occ r s ≤ 1 := by
  have : ND s := by
    induction hr with
    | init => exact nd_init h0
    | step _ hs ih => exact nd_step ih hs
  exact (this r).1

/-- Consequence in the words of the property: two different threads never hold
    the same resource, and no client holds it twice. -/
theorem no_two_holders {capacity maxCap : Int} {dyn : Bool} {progs : List (List Op)} {s0 s : State}
    (h0 : init capacity maxCap dyn progs = some s0) (hr : ReachAll s0 s)
    {i j : Nat} {t1 t2 : Thread} (hi : s.threads[i]? = some t1) (hj : s.threads[j]? = some t2) (hij : i ≠ j)
    (r : Nat) (h1 : r ∈ t1.held) : r ∉ t2.held ∧ t1.held.count r = 1 := by
  have ho := pool_no_double_issue h0 hr r
  have h2 := sumN_two_le (resW r) s.threads i j t1 t2 hij hi hj
  have c1 : 0 < t1.held.count r := List.count_pos_iff.mpr h1
  unfold occ at ho
  constructor
  · intro hin
    have c2 : 0 < t2.held.count r := List.count_pos_iff.mpr hin
    simp [resW] at h2
    omega
  · simp [resW] at h2
    omega

/-! ## Concrete runs: witnesses of the negation, and non-vacuity -/

theorem reachAll_run (s0 s : State) (hs : ReachAll s0 s) (sched : List (Nat × Alt)) :
    ReachAll s0 (run s sched) := by
  induction sched generalizing s with
  | nil => exact hs
  | cons x rest ih =>
    obtain ⟨i, a⟩ := x
    unfold run
    cases h : step s i a with
    | none => simpa using ih s hs
    | some r => obtain ⟨s', ev⟩ := r; simpa using ih s' (.step hs h)

/-- Decidable form of `Allowed`. -/
def allowedB (s : State) (i : Nat) : Bool :=
  match s.threads[i]? with
  | some t =>
    match t.pc with
    | .sCas c old => !(decide (s.pool.capacity = old) && decide (c < old)) || (decide (c = 0) && !s.pool.idleOn)
    | _ => true
  | none => true

theorem allowedB_sound {s : State} {i : Nat} (h : allowedB s i = true) : Allowed s i := by
  intro t ht c old hpc hcap hlt
  simp [allowedB, ht, hpc, hcap, hlt] at h
  exact h

/-- Every step executed by `run` is allowed. -/
def runAllowed (s : State) : List (Nat × Alt) → Bool
  | [] => true
  | (i, a) :: rest =>
    match step s i a with
    | some (s', _) => allowedB s i && runAllowed s' rest
    | none => runAllowed s rest

theorem reach_run (s0 s : State) (hs : Reach s0 s) (sched : List (Nat × Alt))
    (h : runAllowed s sched = true) : Reach s0 (run s sched) := by
  induction sched generalizing s with
  | nil => exact hs
  | cons x rest ih =>
    obtain ⟨i, a⟩ := x
    unfold run
    unfold runAllowed at h
    cases hst : step s i a with
    | none => simp [hst] at h ⊢; exact ih s hs h
    | some r =>
      obtain ⟨s', ev⟩ := r
      simp [hst] at h ⊢
      exact ih s' (.step hs (allowedB_sound h.1) hst) h.2

/-- `n` consecutive steps of thread `i`. -/
def rep (i n : Nat) : List (Nat × Alt) := List.replicate n (i, {})

theorem witness_of_run (c m : Int) (d : Bool) (progs : List (List Op)) (sched : List (Nat × Alt))
    (P : State → Bool) (h : ((init c m d progs).map fun s0 => P (run s0 sched)) = some true) :
    ∃ s0 s, init c m d progs = some s0 ∧ ReachAll s0 s ∧ P s = true := by
  cases hi : init c m d progs with
  | none => simp [hi] at h
  | some s0 =>
    simp [hi] at h
    exact ⟨s0, run s0 sched, rfl, reachAll_run s0 s0 .init sched, h⟩

def pcOf (s : State) (i : Nat) : Option Pc := s.threads[i]?.map (·.pc)

/-! ### Witness 1: scale-in tick racing a scale-out (corpus/C24 line 1)

  capacity 1, max 2.  Clients 0 and 1 take both slots (1 scales out to 2).  The
  scale-in tick (thread 3) spawns thread 4, which swaps the capacity 2 → 1 and
  waits for a slot.  Client 2 finds the channel empty and scales out again
  (1 < 2): three resources are handed out.  Then clients 0, 1 return theirs and
  the Put of client 2 finds the channel full. -/
def w1Progs : List (List Op) := [[.get 0, .put], [.get 0, .put], [.get 0, .put], [.age, .tick]]
def w1Sched : List (Nat × Alt) := rep 0 6 ++ rep 1 12 ++ rep 3 6 ++ rep 4 3 ++ rep 2 12

theorem shrink_scaleout_overalloc_witness :
    ∃ s0 s, init 1 2 true w1Progs = some s0 ∧ ReachAll s0 s ∧
      decide (s.pool.maxCap < handedOut s) = true :=
  witness_of_run 1 2 true w1Progs w1Sched (fun s => decide (s.pool.maxCap < handedOut s)) (by decide)

theorem shrink_scaleout_put_full_witness :
    ∃ s0 s, init 1 2 true w1Progs = some s0 ∧ ReachAll s0 s ∧
      (pcOf s 2 == some .dead && !s.pool.closed && s.pool.chan.length == s.pool.maxCap) = true :=
  witness_of_run 1 2 true w1Progs (w1Sched ++ rep 0 4 ++ rep 1 4 ++ rep 2 2) _ (by decide)

/-! ### Witness 2: a growing ScaleCapacity during a pending shrinking one (corpus line 2)

  capacity = max = 3, three resources out.  ScaleCapacity(1) swaps 3 → 1 and
  waits for two slots; ScaleCapacity(3) swaps 1 → 3 and puts two new slots into
  the channel.  The first Put fills the channel, the second one panics
  ("attempt to Put into a full ResourcePool") although only 3 = max resources
  were ever handed out. -/
def w2Progs : List (List Op) := [[.get 0, .put], [.get 0, .put], [.get 0, .put], [.scale 1], [.scale 3]]
def w2Sched : List (Nat × Alt) := rep 0 6 ++ rep 1 6 ++ rep 2 6 ++ rep 3 3 ++ rep 4 7 ++ rep 0 4 ++ rep 1 2

theorem shrink_grow_put_full_witness :
    ∃ s0 s, init 3 3 false w2Progs = some s0 ∧ ReachAll s0 s ∧
      (pcOf s 1 == some .dead && !s.pool.closed && s.pool.chan.length == s.pool.maxCap
        && decide (handedOut s ≤ s.pool.maxCap)) = true :=
  witness_of_run 3 3 false w2Progs w2Sched _ (by decide)

/-! ### Witness 3: Close during a pending shrinking ScaleCapacity (corpus lines 3–4)

  capacity = max = 2, both resources out.  ScaleCapacity(1) swaps 2 → 1 and
  waits for a slot; Close swaps 1 → 0, takes the slot of the first Put and closes
  the channel; the second Put panics on the closed channel. -/
def w3Progs : List (List Op) := [[.get 0, .put], [.get 0, .put], [.scale 1], [.close]]
def w3Sched : List (Nat × Alt) := rep 0 6 ++ rep 1 6 ++ rep 2 3 ++ rep 3 5 ++ rep 0 4 ++ rep 3 4 ++ rep 1 2

theorem shrink_close_put_closed_witness :
    ∃ s0 s, init 2 2 false w3Progs = some s0 ∧ ReachAll s0 s ∧
      (pcOf s 1 == some .dead && s.pool.closed) = true :=
  witness_of_run 2 2 false w3Progs w3Sched _ (by decide)

/-! ### Witness 4: the quiescent equation after Close during a pending shrink (corpus line 5)

  capacity = max = 2, one resource out.  ScaleCapacity(1) has swapped 2 → 1 but
  not yet taken its slot; Close swaps 1 → 0, takes the idle slot, closes and
  returns; ScaleCapacity(1) "receives" from the closed channel and returns.  No
  operation is in progress, yet idle (0) + in-use (1) ≠ capacity (0). -/
def w4Progs : List (List Op) := [[.get 0, .put], [.scale 1], [.close]]
def w4Sched : List (Nat × Alt) := rep 0 6 ++ rep 1 3 ++ rep 2 9 ++ rep 1 3

theorem shrink_close_quiescent_witness :
    ∃ s0 s, init 2 2 false w4Progs = some s0 ∧ ReachAll s0 s ∧
      (s.threads.all (fun t => t.pc == .idle)
        && decide ((s.pool.chan.length : Int) + s.pool.inUse ≠ s.pool.capacity)) = true :=
  witness_of_run 2 2 false w4Progs w4Sched _ (by decide)

/-- The unrestricted statement of C24 does not hold of the pool. -/
theorem pool_not_safe_in_general_witness :
    ¬ ∀ (capacity maxCap : Int) (dyn : Bool) (progs : List (List Op)) (s0 s : State),
        init capacity maxCap dyn progs = some s0 → ReachAll s0 s → Safe s := by
  intro h
  obtain ⟨s0, s, h0, hr, hp⟩ := shrink_scaleout_overalloc_witness
  have := (h _ _ _ _ s0 s h0 hr).notOver
  simp at hp
  omega

/-! ### Non-vacuity -/

/-- Round-robin schedule over `n` threads. -/
def roundRobin (n steps : Nat) : List (Nat × Alt) := (List.range steps).map fun k => (k % n, {})

def exProgs : List (List Op) :=
  [[.get 0, .put, .get 1, .drop], [.get 0, .put, .get 3], [.sweep, .sweep], [.setCap 2], [.close]]

/-- `pool_safe_partial` applies to non-trivial runs: two clients, a sweeper, a
    growing SetCapacity and a Close, every step allowed; the run passes through
    a state with `maxCap` resources handed out and ends closed and quiescent. -/
example : ∃ s0 s1 s2, init 1 2 true exProgs = some s0 ∧ Reach s0 s1 ∧ Reach s0 s2 ∧
    handedOut s1 = 2 ∧ s2.pool.closed = true ∧ (∀ t ∈ s2.threads, t.pc = .idle ∧ t.prog = []) := by
  refine ⟨(init 1 2 true exProgs).get (by decide), run _ (rep 0 6 ++ rep 1 12), run _ (roundRobin 5 400), by simp,
    reach_run _ _ .init _ (by decide), reach_run _ _ .init _ (by decide), by decide, by decide, by decide⟩

/-- The programs of `pool_safe_clients_sweep_close` exist and its runs reach closed pools. -/
example : (∀ p ∈ ([[.get 0, .put], [.get 3, .get 0, .drop], [.sweep], [.close]] : List (List Op)),
    p.all basicOp = true) := by decide

/-- `pool_no_double_issue` is about states in which resources really are in
    circulation: here resource 0 is held by client 0 and resource 1 lies in the channel. -/
example : ∃ s0 s, init 2 2 true [[.get 0], [.get 0, .put]] = some s0 ∧ ReachAll s0 s ∧
    occ 0 s = 1 ∧ occ 1 s = 1 ∧ s.pool.chan.count (some 1) = 1 := by
  refine ⟨(init 2 2 true [[.get 0], [.get 0, .put]]).get (by decide), run _ (roundRobin 2 40), by simp,
    reachAll_run _ _ .init _, by decide, by decide, by decide⟩

end GaeaVerif.C24
