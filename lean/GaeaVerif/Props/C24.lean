import GaeaVerif.Model.ResourcePool
import GaeaVerif.Lemmas.C24Pool
/-
  C24 — The connection pool never over-allocates, double-issues or fails a return.

  Statement (properties.jsonl): under any interleaving of concurrent get,
  return, idle-close, automatic scale-out/scale-in, capacity change and close
  operations, the pool never has more connections handed out than its maximum
  capacity, never hands the same connection to two holders, and returning a
  connection obtained from it never fails; when no operation is in progress,
  idle plus in-use connections equal the current capacity.

  The model (Model/ResourcePool.lean) is the transition system of
  util/resource_pool.go at the granularity of its atomic actions, any number of
  threads, any programs, any schedule.

  What is proved (all at full strength: every program made of Get, Put,
  Put(nil), idle sweep, scale-in tick, SetCapacity, ScaleCapacity, Close, every
  interleaving of their atomic steps, any number of threads):
  * `pool_safe` — handed-out ≤ maxCap, every Put finds an open channel with
    room, no pool operation panics, quiescent ⇒ len(chan)+inUse = capacity and
    available = len(chan).  `put_never_fails`: no step reports a panic.
  * `pool_no_double_issue` / `no_two_holders` — a resource is never in two
    places (channel, operation in progress, client).
  * `no_deadlock`, `lock_waiter_has_running_holder`, `holder_rank_decreases` —
    the `scaling` semaphore that serialises the capacity changes introduces
    no deadlock: whoever waits for `rp.lock` or the semaphore waits for a
    thread that can move or that itself waits for a resource to be returned;
    when nothing can move at all, every slot of the pool is in the hands of a
    client and the channel is empty (the wait of an exhausted pool).
  Repairs considered for the shrink window (ScaleCapacity lowers `capacity`
  first and drains afterwards): (a) holding `rp.lock` for the whole
  ScaleCapacity — a Get that finds the channel empty then blocks on the mutex
  inside scaleOutResources, deaf to its context, and a client that holds a
  resource and calls Get while a shrink waits for that resource deadlocks
  (with the semaphore the same Get fails its TryAcquire, waits on the channel
  and times out: `no_deadlock` has no such state); (b) draining before
  lowering the capacity — `Capacity()`/`IsClosed()` would keep the old value
  while Close or a shrink is pending, which the repository's own TestShrinking
  and TestClosing assert against, and scale-outs would continue during Close;
  (c) chosen: a one-slot semaphore held by ScaleCapacity for its whole
  duration and tried, never awaited, by the scale-out inside `rp.lock`.

  Up to fix b12dcd5 the unrestricted statement was false of the code (a
  capacity change during the window of a shrinking ScaleCapacity): the former
  witness schedules are kept below as regression examples (`w1Sched` …) and in
  corpus/C24.
-/
namespace GaeaVerif.C24
open GaeaVerif.ResourcePool

/-! ## Reachability -/

/-- States reachable from `s0` by any schedule at all. -/
inductive ReachAll (s0 : State) : State → Prop where
  | init : ReachAll s0 s0
  | step {s s' : State} {i : Nat} {a : Alt} {ev : Ev} :
      ReachAll s0 s → step s i a = some (s', ev) → ReachAll s0 s'

/-! ## The inductive invariant -/

structure Inv (s : State) : Prop where
  /-- slot balance: slots in the channel, in operations, with clients and still to be
      added by a growing ScaleCapacity = capacity counter + slots a shrinking one has
      lowered it by but not yet taken out -/
  eq : (s.pool.chan.length : Int) + (sumN tok s.threads : Nat) + (sumN growP s.threads : Nat)
        = s.pool.capacity + (sumN closeP s.threads : Nat)
  bound : s.pool.capacity + (sumN closeP s.threads : Nat) ≤ s.pool.maxCap
  capNonneg : 0 ≤ s.pool.capacity
  /-- the semaphore is taken exactly while one thread holds it -/
  holders : sumN holder s.threads = b2n s.pool.scaling
  /-- after the swap of a ScaleCapacity(0) the capacity counter is 0 -/
  zero : ∀ t ∈ s.threads, zeroing t → s.pool.capacity = 0
  closedOk : s.pool.closed = true → s.pool.capacity = 0 ∧ sumN inLoop s.threads = 0
  asserts : ∀ t ∈ s.threads, A s.pool.maxCap t
  inUse : s.pool.inUse = (sumN inUseW s.threads : Nat)
  avail : s.pool.available = s.pool.chan.length + sumI avW s.threads
  alive : ∀ t ∈ s.threads, t.pc ≠ .dead

theorem inv_init {capacity maxCap : Int} {dyn : Bool} {progs : List (List Op)} {s : State}
    (h : init capacity maxCap dyn progs = some s) : Inv s := by
  unfold init newPool at h
  split at h
  · simp at h
  · rename_i hc
    simp at h
    subst h
    have z1 : sumN tok (progs.map mkThread) = 0 := sumN_map_zero _ _ (by intro x; simp [tok, pcTok, mkThread]) _
    have z2 : sumN growP (progs.map mkThread) = 0 := sumN_map_zero _ _ (by intro x; simp [growP, mkThread]) _
    have z3 : sumN closeP (progs.map mkThread) = 0 := sumN_map_zero _ _ (by intro x; simp [closeP, mkThread]) _
    have z4 : sumN holder (progs.map mkThread) = 0 := sumN_map_zero _ _ (by intro x; simp [holder, mkThread]) _
    have z5 : sumN inLoop (progs.map mkThread) = 0 := sumN_map_zero _ _ (by intro x; simp [inLoop, mkThread]) _
    have z6 : sumN inUseW (progs.map mkThread) = 0 := sumN_map_zero _ _ (by intro x; simp [inUseW, mkThread]) _
    have z7 : sumI avW (progs.map mkThread) = 0 := sumI_map_zero _ _ (by intro x; simp [avW, mkThread]) _
    constructor <;> simp_all <;> try omega
    all_goals (intro t _; subst_vars; simp [A, zeroing, mkThread])

/-- Facts about the stepping thread that follow from the invariant. -/
theorem inv_local {s : State} {i : Nat} {t : Thread} (hI : Inv s) (hti : s.threads[i]? = some t) :
    A s.pool.maxCap t
    ∧ (s.pool.closed = true → tok t = 0 ∧ growP t = 0 ∧ inLoop t = 0)
    ∧ s.pool.chan.length + tok t + growP t ≤ s.pool.maxCap
    ∧ (zeroing t → s.pool.capacity = 0)
    ∧ (holder t = 1 → s.pool.scaling = true)
    ∧ s.pool.capacity + closeP t ≤ s.pool.maxCap
    ∧ (holder t = 1 → sumN closeP s.threads = closeP t ∧ sumN inLoop s.threads = inLoop t) := by
  have hmem : t ∈ s.threads := List.mem_of_getElem? hti
  have e1 := sumN_elem_le tok _ i t hti
  have e2 := sumN_elem_le growP _ i t hti
  have e3 := sumN_elem_le closeP _ i t hti
  have e4 := sumN_elem_le holder _ i t hti
  have e5 := sumN_elem_le inLoop _ i t hti
  have heq := hI.eq
  have hb := hI.bound
  have hh := hI.holders
  refine ⟨hI.asserts t hmem, ?_, by omega, hI.zero t hmem, ?_, by omega, ?_⟩
  · intro hc
    obtain ⟨hc0, hcz⟩ := hI.closedOk hc
    have hcp := sumN_zero_of closeP inLoop closeP_zero_of_inLoop _ hcz
    omega
  · intro h1
    cases hs : s.pool.scaling with
    | true => rfl
    | false => rw [hs] at hh; simp at hh; omega
  · intro h1
    have hle : sumN holder s.threads ≤ holder t := by
      cases hs : s.pool.scaling <;> rw [hs] at hh <;> simp at hh <;> omega
    exact ⟨sumN_eq_of_others_zero closeP holder closeP_zero_of_holder _ i t hti hle,
           sumN_eq_of_others_zero inLoop holder inLoop_zero_of_holder _ i t hti hle⟩

/-- The invariant is preserved by every step of every thread. -/
theorem inv_step {s s' : State} {i : Nat} {a : Alt} {ev : Ev}
    (hI : Inv s) (hs : step s i a = some (s', ev)) : Inv s' := by
  unfold step at hs
  cases hti : s.threads[i]? with
  | none => simp [hti] at hs
  | some t =>
    simp only [hti] at hs
    cases hr : stepThread s.pool t a with
    | none => simp [hr] at hs
    | some r =>
      simp only [hr, Option.some.injEq, Prod.mk.injEq] at hs
      obtain ⟨hs', _⟩ := hs
      have hp : s'.pool = r.pool := (congrArg State.pool hs').symm
      have hth : s'.threads = match r.spawn with
          | some c => s.threads.set i r.thr ++ [c] | none => s.threads.set i r.thr :=
        (congrArg State.threads hs').symm
      obtain ⟨hA, hcl, hroom, hz, hh, hbt, hone⟩ := inv_local hI hti
      have L1 := step_eq _ _ _ _ hr hA hcl hroom
      obtain ⟨C1, C2, C3, C4, C5, C6⟩ := step_cap _ _ _ _ hr hA hcl hI.capNonneg
        (fun hc => (hI.closedOk hc).1) hz hbt
      have H1 := step_holder _ _ _ _ hr hh
      obtain ⟨A1, A2, A3⟩ := step_A _ _ _ _ hr hA hI.capNonneg
      obtain ⟨K1, K2, K3⟩ := step_counters _ _ _ _ hr hcl hroom hA
      have s1 := sumN_step tok s.threads s'.threads i t r.thr r.spawn hti hth (fun c hc => (A3 c hc).1)
      have s2 := sumN_step growP s.threads s'.threads i t r.thr r.spawn hti hth (fun c hc => (A3 c hc).2.1)
      have s3 := sumN_step closeP s.threads s'.threads i t r.thr r.spawn hti hth (fun c hc => (A3 c hc).2.2.1)
      have s4 := sumN_step holder s.threads s'.threads i t r.thr r.spawn hti hth (fun c hc => (A3 c hc).2.2.2.1)
      have s5 := sumN_step inLoop s.threads s'.threads i t r.thr r.spawn hti hth (fun c hc => (A3 c hc).2.2.2.2.1)
      have s6 := sumN_step inUseW s.threads s'.threads i t r.thr r.spawn hti hth (fun c hc => (A3 c hc).2.2.2.2.2.1)
      have s7 := sumI_step avW s.threads s'.threads i t r.thr r.spawn hti hth (fun c hc => (A3 c hc).2.2.2.2.2.2.1)
      have e3 := sumN_elem_le closeP _ i t hti
      have heq := hI.eq
      have hb := hI.bound
      have hiu := hI.inUse
      have hav := hI.avail
      have hho := hI.holders
      have hle1 := holder_le_one t
      have hil := inLoop_le_holder t
      constructor
      · rw [hp]; omega
      · -- bound
        rw [hp]
        rcases Nat.eq_zero_or_pos (holder t) with h0 | h0
        · obtain ⟨c1, c2⟩ := C3 h0
          have := closeP_zero_of_holder t h0
          rw [c1]; omega
        · obtain ⟨o1, _⟩ := hone (by omega)
          omega
      · rw [hp]; exact C1
      · rw [hp]; omega
      · -- zero
        rw [hp]
        intro t' ht' hzt
        rcases mem_step hth ht' with h | h | h
        · exact C4 (hI.zero t' h hzt)
        · subst h; exact C5 hzt
        · exact absurd hzt (A3 _ h).2.2.2.2.2.2.2.2.2
      · -- closedOk
        rw [hp]
        intro hc
        obtain ⟨c1, c2, c3⟩ := C6 hc
        refine ⟨c1, ?_⟩
        rcases c3 with c3 | c3
        · have := (hI.closedOk c3).2; omega
        · obtain ⟨_, o2⟩ := hone (by omega)
          omega
      · rw [hp]
        intro t' ht'
        rw [A2]
        rcases mem_step hth ht' with h | h | h
        · exact hI.asserts t' h
        · subst h; rw [← A2]; exact A1
        · exact (A3 _ h).2.2.2.2.2.2.2.1
      · rw [hp]; omega
      · rw [hp]; omega
      · intro t' ht'
        rcases mem_step hth ht' with h | h | h
        · exact hI.alive t' h
        · subst h; exact K3
        · exact (A3 _ h).2.2.2.2.2.2.2.2.1

/-! ## The property -/

/-- Resources handed out to clients (obtained from Get and not yet given to Put). -/
def handedOut (s : State) : Nat := sumN (fun t => t.held.length) s.threads

/-- No operation is in progress. -/
def Quiescent (s : State) : Prop := ∀ t ∈ s.threads, t.pc = .idle

/-- C24 as a state predicate. -/
structure Safe (s : State) : Prop where
  /-- never more resources handed out than the maximum capacity -/
  notOver : handedOut s ≤ s.pool.maxCap
  /-- a Put about to send finds the channel open and not full -/
  putOk : ∀ t ∈ s.threads, ∀ w, t.pc = .pSend w → s.pool.closed = false ∧ s.pool.chan.length < s.pool.maxCap
  /-- no thread has panicked inside a pool operation -/
  noPanic : ∀ t ∈ s.threads, t.pc ≠ .dead
  /-- when no operation is in progress, idle + in-use = capacity (and the `available` counter is exact) -/
  quiescent : Quiescent s →
    (s.pool.chan.length : Int) + s.pool.inUse = s.pool.capacity ∧ s.pool.available = s.pool.chan.length

theorem sumN_const_zero (l : List Thread) : sumN (fun _ => 0) l = 0 := by
  induction l with
  | nil => simp
  | cons a l ih => simp [ih]

theorem safe_of_inv {s : State} (hI : Inv s) : Safe s := by
  have heq := hI.eq
  have hb := hI.bound
  constructor
  · have : handedOut s ≤ sumN tok s.threads := sumN_le_of _ _ (by intro t; simp [tok]) _
    omega
  · intro t ht w hpc
    obtain ⟨i, hti⟩ := List.mem_iff_getElem?.mp ht
    obtain ⟨_, hcl, hroom, _⟩ := inv_local hI hti
    have htok : 1 ≤ tok t := by simp [tok, pcTok, hpc]
    constructor
    · cases hc : s.pool.closed with
      | false => rfl
      | true => have := (hcl hc).1; omega
    · omega
  · exact hI.alive
  · intro hq
    have h1 : sumN tok s.threads = sumN inUseW s.threads :=
      sumN_congr _ _ _ (by intro t ht; simp [tok, inUseW, pcTok, hq t ht])
    have h2 : sumN growP s.threads = 0 := by
      rw [sumN_congr growP (fun _ => 0) _ (by intro t ht; simp [growP, hq t ht])]
      exact sumN_const_zero _
    have h3 : sumN closeP s.threads = 0 := by
      rw [sumN_congr closeP (fun _ => 0) _ (by intro t ht; simp [closeP, hq t ht])]
      exact sumN_const_zero _
    have h4 : sumI avW s.threads = 0 := sumI_zero_of _ _ (by intro t ht; simp [avW, hq t ht])
    have hiu := hI.inUse
    have hav := hI.avail
    constructor <;> omega

theorem reach_inv {s0 s : State} (h0 : Inv s0) (hr : ReachAll s0 s) : Inv s := by
  induction hr with
  | init => exact h0
  | step _ hs ih => exact inv_step ih hs

/--
  **C24.**  For every reachable state under every interleaving of every
  program (Get with any number of factory failures and scale-out, Put,
  Put(nil), idle sweep, scale-in tick and its goroutine, SetCapacity,
  ScaleCapacity, Close, the passing of time), for any number of threads, from
  any valid pool configuration: never more than `maxCap` resources handed out,
  every Put finds room in an open channel, no pool operation panics, and in
  quiescent states `len(chan) + inUse = capacity` (and `available = len(chan)`).
  (This was `pool_safe_partial`, restricted to runs without a non-closing
  shrink, before the fix commits b12dcd5 and 481c0c2.)
-/
theorem pool_safe {capacity maxCap : Int} {dyn : Bool} {progs : List (List Op)} {s0 s : State}
    (h0 : init capacity maxCap dyn progs = some s0) (hr : ReachAll s0 s) : Safe s :=
  safe_of_inv (reach_inv (inv_init h0) hr)

/-- No step of any run reports a panic: in particular a Put of a resource
    obtained from Get never hits the `full` or the closed-channel branch. -/
theorem put_never_fails {capacity maxCap : Int} {dyn : Bool} {progs : List (List Op)} {s0 s s' : State}
    {i : Nat} {a : Alt} {ev : Ev}
    (h0 : init capacity maxCap dyn progs = some s0) (hr : ReachAll s0 s)
    (hs : step s i a = some (s', ev)) : evIsPanic ev = false := by
  have hI := reach_inv (inv_init h0) hr
  unfold step at hs
  cases hti : s.threads[i]? with
  | none => simp [hti] at hs
  | some t =>
    simp only [hti] at hs
    cases hr' : stepThread s.pool t a with
    | none => simp [hr'] at hs
    | some r =>
      simp only [hr', Option.some.injEq, Prod.mk.injEq] at hs
      obtain ⟨_, hev⟩ := hs
      obtain ⟨hA, hcl, hroom, _⟩ := inv_local hI hti
      have K := (step_counters _ _ _ _ hr' hcl hroom hA).2.2
      cases hp : evIsPanic ev with
      | false => rfl
      | true => exact absurd (ev_panic_dead _ _ _ _ hr' (hev ▸ hp)) K

/-- The former fragment theorem (clients, the idle sweeper and Close), now a
    special case of `pool_safe`. -/
theorem pool_safe_clients_sweep_close {capacity maxCap : Int} {dyn : Bool} {progs : List (List Op)} {s0 s : State}
    (_hprogs : ∀ p ∈ progs, p.all basicOp = true)
    (h0 : init capacity maxCap dyn progs = some s0) (hr : ReachAll s0 s) : Safe s :=
  pool_safe h0 hr

/-! ## Locks and progress: the `scaling` semaphore introduces no deadlock -/

/-- Ownership of `rp.lock`, the running timer callbacks, and the values the
    holder of the semaphore compares-and-swaps against. -/
structure LInv (s : State) : Prop where
  locks : sumN lockW s.threads = b2n s.pool.lock
  sweeps : sumN sweepF s.threads = s.pool.idleBusy
  ticks : sumN tickF s.threads = s.pool.capBusy
  cas : ∀ t ∈ s.threads, casOk s.pool t

theorem linv_init {capacity maxCap : Int} {dyn : Bool} {progs : List (List Op)} {s : State}
    (h : init capacity maxCap dyn progs = some s) : LInv s := by
  unfold init newPool at h
  split at h
  · simp at h
  · simp at h
    subst h
    have z1 : sumN lockW (progs.map mkThread) = 0 := sumN_map_zero _ _ (by intro x; simp [lockW, mkThread]) _
    have z2 : sumN sweepF (progs.map mkThread) = 0 := sumN_map_zero _ _ (by intro x; simp [sweepF, mkThread]) _
    have z3 : sumN tickF (progs.map mkThread) = 0 := sumN_map_zero _ _ (by intro x; simp [tickF, mkThread]) _
    constructor <;> simp_all
    intro t _; subst_vars; simp [casOk, mkThread]

theorem casOk_congr {p q : Pool} {t : Thread} (h : q.capacity = p.capacity) (hc : casOk p t) : casOk q t := by
  obtain ⟨prog, pc, held, child⟩ := t
  cases pc <;> simp_all [casOk]

theorem rank_congr {p q : Pool} (t : Thread) (h : q.capacity = p.capacity) : rank q t = rank p t := by
  obtain ⟨prog, pc, held, child⟩ := t
  cases pc <;> simp_all [rank]

/-- While thread `i` holds the semaphore no thread at another index does. -/
theorem other_not_holder {s : State} {i j : Nat} {t u : Thread} (hI : Inv s)
    (hti : s.threads[i]? = some t) (huj : s.threads[j]? = some u) (hij : j ≠ i) (hu : holder u = 1) :
    holder t = 0 := by
  have h2 := sumN_two_le holder s.threads i j t u (fun e => hij e.symm) hti huj
  have hh := hI.holders
  cases hs : s.pool.scaling <;> rw [hs] at hh <;> simp at hh <;> omega

theorem linv_step {s s' : State} {i : Nat} {a : Alt} {ev : Ev}
    (hI : Inv s) (hL : LInv s) (hs : step s i a = some (s', ev)) : LInv s' := by
  unfold step at hs
  cases hti : s.threads[i]? with
  | none => simp [hti] at hs
  | some t =>
    simp only [hti] at hs
    cases hr : stepThread s.pool t a with
    | none => simp [hr] at hs
    | some r =>
      simp only [hr, Option.some.injEq, Prod.mk.injEq] at hs
      obtain ⟨hs', _⟩ := hs
      have hp : s'.pool = r.pool := (congrArg State.pool hs').symm
      have hth : s'.threads = match r.spawn with
          | some c => s.threads.set i r.thr ++ [c] | none => s.threads.set i r.thr :=
        (congrArg State.threads hs').symm
      obtain ⟨hA, hcl, hroom, hz, hh, hbt, hone⟩ := inv_local hI hti
      have e1 := sumN_elem_le lockW _ i t hti
      have e2 := sumN_elem_le sweepF _ i t hti
      have e3 := sumN_elem_le tickF _ i t hti
      have hl := hL.locks
      have hsw := hL.sweeps
      have htk := hL.ticks
      have hlk : lockW t = 1 → s.pool.lock = true := by
        intro h1
        cases hq : s.pool.lock with
        | true => rfl
        | false => rw [hq] at hl; simp at hl; omega
      obtain ⟨K1, K2, K3, K4⟩ := step_locks _ _ _ _ hr hcl hroom hlk (by omega) (by omega)
      obtain ⟨Q1, Q2⟩ := step_casOk _ _ _ _ hr
      obtain ⟨_, _, C3, _⟩ := step_cap _ _ _ _ hr hA hcl hI.capNonneg (fun hc => (hI.closedOk hc).1) hz hbt
      have s1 := sumN_step lockW s.threads s'.threads i t r.thr r.spawn hti hth (fun c hc => (K4 c hc).1)
      have s2 := sumN_step sweepF s.threads s'.threads i t r.thr r.spawn hti hth (fun c hc => (K4 c hc).2.1)
      have s3 := sumN_step tickF s.threads s'.threads i t r.thr r.spawn hti hth (fun c hc => (K4 c hc).2.2)
      constructor
      · rw [hp]; omega
      · rw [hp]; omega
      · rw [hp]; omega
      · rw [hp]
        intro t' ht'
        rcases mem_step_idx hth ht' with ⟨j, hji, htj⟩ | h | h
        · rcases Nat.eq_zero_or_pos (holder t') with h0 | h0
          · exact casOk_of_not_holder _ _ h0
          · have h1 : holder t' = 1 := by have := holder_le_one t'; omega
            have ht0 := other_not_holder hI hti htj hji h1
            exact casOk_congr (C3 ht0).1 (hL.cas t' (List.mem_of_getElem? htj))
        · subst h; exact Q1
        · exact casOk_of_not_holder _ _ (Q2 _ h)

theorem reach_linv {capacity maxCap : Int} {dyn : Bool} {progs : List (List Op)} {s0 s : State}
    (h0 : init capacity maxCap dyn progs = some s0) (hr : ReachAll s0 s) : Inv s ∧ LInv s := by
  induction hr with
  | init => exact ⟨inv_init h0, linv_init h0⟩
  | step _ hs ih => exact ⟨inv_step ih.1 hs, linv_step ih.1 ih.2 hs⟩

theorem step_isSome {s : State} {j : Nat} {u : Thread} {a : Alt}
    (hj : s.threads[j]? = some u) (h : (stepThread s.pool u a).isSome = true) : (step s j a).isSome = true := by
  unfold step
  simp only [hj]
  cases hr : stepThread s.pool u a with
  | none => simp [hr] at h
  | some r => simp

theorem step_none {s : State} {j : Nat} {u : Thread} {a : Alt}
    (hj : s.threads[j]? = some u) (h : step s j a = none) : stepThread s.pool u a = none := by
  cases hr : stepThread s.pool u a with
  | none => rfl
  | some r => have := step_isSome hj (by simp [hr] : (stepThread s.pool u a).isSome = true); simp [h] at this

theorem lockW_le_one (t : Thread) : lockW t ≤ 1 := by
  obtain ⟨prog, pc, held, child⟩ := t
  cases pc <;> simp [lockW]
theorem sweepF_le_one (t : Thread) : sweepF t ≤ 1 := by
  obtain ⟨prog, pc, held, child⟩ := t
  cases pc <;> simp [sweepF]
theorem tickF_le_one (t : Thread) : tickF t ≤ 1 := by
  obtain ⟨prog, pc, held, child⟩ := t
  cases pc <;> simp [tickF]

/-- **`rp.lock` is never awaited in vain**: when it is held, the thread that
    holds it can take its next step (the locked sections — scale-out with
    its TryAcquire, the scale-in tick — contain no blocking action). -/
theorem lock_held_has_running_holder {capacity maxCap : Int} {dyn : Bool} {progs : List (List Op)} {s0 s : State}
    (h0 : init capacity maxCap dyn progs = some s0) (hr : ReachAll s0 s) (hl : s.pool.lock = true) (a : Alt) :
    ∃ j u, s.threads[j]? = some u ∧ lockW u = 1 ∧ (step s j a).isSome = true := by
  obtain ⟨_, hL⟩ := reach_linv h0 hr
  have h1 := hL.locks
  rw [hl] at h1
  obtain ⟨u, hu, hpos⟩ := sumN_pos_exists lockW s.threads (by simp at h1; omega)
  have hu1 : lockW u = 1 := by have := lockW_le_one u; omega
  obtain ⟨j, hj⟩ := List.mem_iff_getElem?.mp hu
  exact ⟨j, u, hj, hu1, step_isSome hj (lock_section_enabled _ _ _ hu1)⟩

/-- **The `scaling` semaphore is never awaited in vain**: when it is taken,
    the thread that holds it can take its next step, or it is a shrinking
    ScaleCapacity (Close) waiting on the empty channel for a resource to be
    returned — the wait ScaleCapacity always had, which every Put ends. -/
theorem scaling_held_has_running_holder {capacity maxCap : Int} {dyn : Bool} {progs : List (List Op)} {s0 s : State}
    (h0 : init capacity maxCap dyn progs = some s0) (hr : ReachAll s0 s) (hsc : s.pool.scaling = true) (a : Alt) :
    ∃ j u, s.threads[j]? = some u ∧ holder u = 1 ∧
      ((step s j a).isSome = true
        ∨ (s.pool.chan = [] ∧ s.pool.closed = false ∧ ∃ c old i, u.pc = .sShrRecv c old i)) := by
  obtain ⟨hI, _⟩ := reach_linv h0 hr
  have h1 := hI.holders
  rw [hsc] at h1
  obtain ⟨u, hu, hpos⟩ := sumN_pos_exists holder s.threads (by simp at h1; omega)
  have hu1 : holder u = 1 := by have := holder_le_one u; omega
  obtain ⟨j, hj⟩ := List.mem_iff_getElem?.mp hu
  refine ⟨j, u, hj, hu1, ?_⟩
  rcases holder_enabled s.pool u a hu1 with h | h | ⟨hfull, c, old, i, hpc⟩
  · exact Or.inl (step_isSome hj h)
  · exact Or.inr h
  · exfalso
    obtain ⟨hA, _, hroom, _⟩ := inv_local hI hj
    simp [A, hpc] at hA
    simp [growP, hpc] at hroom
    omega

/-- `Timer.Stop` in Close waits for a running callback only: a running idle
    sweep can always move, a running scale-in tick can move or waits for `rp.lock`. -/
theorem timer_stop_waits_for_running_callback {capacity maxCap : Int} {dyn : Bool} {progs : List (List Op)} {s0 s : State}
    (h0 : init capacity maxCap dyn progs = some s0) (hr : ReachAll s0 s) (a : Alt) :
    (s.pool.idleBusy ≠ 0 → ∃ j u, s.threads[j]? = some u ∧ sweepF u = 1 ∧ (step s j a).isSome = true)
    ∧ (s.pool.capBusy ≠ 0 → ∃ j u, s.threads[j]? = some u ∧ tickF u = 1 ∧
        ((step s j a).isSome = true ∨ (u.pc = .tLock ∧ s.pool.lock = true))) := by
  obtain ⟨hI, hL⟩ := reach_linv h0 hr
  constructor
  · intro hb
    obtain ⟨u, hu, hpos⟩ := sumN_pos_exists sweepF s.threads (by have := hL.sweeps; omega)
    have hu1 : sweepF u = 1 := by have := sweepF_le_one u; omega
    obtain ⟨j, hj⟩ := List.mem_iff_getElem?.mp hu
    obtain ⟨_, _, hroom, _⟩ := inv_local hI hj
    exact ⟨j, u, hj, hu1, step_isSome hj (sweep_enabled _ _ _ hu1 (by omega))⟩
  · intro hb
    obtain ⟨u, hu, hpos⟩ := sumN_pos_exists tickF s.threads (by have := hL.ticks; omega)
    have hu1 : tickF u = 1 := by have := tickF_le_one u; omega
    obtain ⟨j, hj⟩ := List.mem_iff_getElem?.mp hu
    refine ⟨j, u, hj, hu1, ?_⟩
    cases hl : s.pool.lock with
    | false => exact Or.inl (step_isSome hj (tick_enabled _ _ _ hu1 hl))
    | true =>
      by_cases hpc : u.pc = .tLock
      · exact Or.inr ⟨hpc, rfl⟩
      · left
        apply step_isSome hj
        obtain ⟨prog, pc, held, child⟩ := u
        cases pc <;> simp [tickF] at hu1 <;> simp at hpc <;> simp only [stepThread] <;> (repeat' split) <;> simp

/-- **The holder of the semaphore releases it after a bounded number of its own
    steps**: each of them lowers `rank` (its compare-and-swap cannot fail: nobody
    else changes the capacity) or releases the semaphore. -/
theorem holder_rank_decreases {capacity maxCap : Int} {dyn : Bool} {progs : List (List Op)} {s0 s s' : State}
    {i : Nat} {a : Alt} {ev : Ev} {t : Thread}
    (h0 : init capacity maxCap dyn progs = some s0) (hr : ReachAll s0 s)
    (hs : step s i a = some (s', ev)) (hti : s.threads[i]? = some t) (hh : holder t = 1) :
    ∃ t', s'.threads[i]? = some t' ∧ (holder t' = 0 ∨ rank s'.pool t' < rank s.pool t) := by
  obtain ⟨hI, hL⟩ := reach_linv h0 hr
  have hlen : i < s.threads.length := by
    rcases Nat.lt_or_ge i s.threads.length with h | h
    · exact h
    · simp [List.getElem?_eq_none h] at hti
  unfold step at hs
  simp only [hti] at hs
  cases hr' : stepThread s.pool t a with
  | none => simp [hr'] at hs
  | some r =>
    simp only [hr', Option.some.injEq, Prod.mk.injEq] at hs
    obtain ⟨hs', _⟩ := hs
    subst hs'
    have hmem : t ∈ s.threads := List.mem_of_getElem? hti
    refine ⟨r.thr, ?_, step_rank _ _ _ _ hr' hh (hI.asserts t hmem) (hL.cas t hmem)⟩
    cases r.spawn with
    | none => simp [hlen]
    | some c => simp [List.getElem?_append_left, hlen]

/-- … and the steps of the other threads leave its rank alone. -/
theorem holder_rank_stable {capacity maxCap : Int} {dyn : Bool} {progs : List (List Op)} {s0 s s' : State}
    {i j : Nat} {a : Alt} {ev : Ev} {u : Thread}
    (h0 : init capacity maxCap dyn progs = some s0) (hr : ReachAll s0 s)
    (hs : step s i a = some (s', ev)) (hji : j ≠ i) (huj : s.threads[j]? = some u) (hh : holder u = 1) :
    s'.threads[j]? = some u ∧ rank s'.pool u = rank s.pool u := by
  obtain ⟨hI, hL⟩ := reach_linv h0 hr
  have hlen : j < s.threads.length := by
    rcases Nat.lt_or_ge j s.threads.length with h | h
    · exact h
    · simp [List.getElem?_eq_none h] at huj
  unfold step at hs
  cases hti : s.threads[i]? with
  | none => simp [hti] at hs
  | some t =>
    simp only [hti] at hs
    cases hr' : stepThread s.pool t a with
    | none => simp [hr'] at hs
    | some r =>
      simp only [hr', Option.some.injEq, Prod.mk.injEq] at hs
      obtain ⟨hs', _⟩ := hs
      subst hs'
      obtain ⟨hA, hcl, hroom, hz, _, hbt, _⟩ := inv_local hI hti
      obtain ⟨_, _, C3, _⟩ := step_cap _ _ _ _ hr' hA hcl hI.capNonneg (fun hc => (hI.closedOk hc).1) hz hbt
      have ht0 := other_not_holder hI hti huj hji hh
      constructor
      · have hne : i ≠ j := fun e => hji e.symm
        cases r.spawn with
        | none => simp [hne, huj]
        | some c =>
          show (s.threads.set i r.thr ++ [c])[j]? = some u
          rw [List.getElem?_append_left (by simpa using hlen), List.getElem?_set_ne hne]
          exact huj
      · exact rank_congr u (C3 ht0).1

/-- The same for `rp.lock`: every step inside a locked section brings the unlock nearer. -/
theorem lock_rank_decreases {capacity maxCap : Int} {dyn : Bool} {progs : List (List Op)} {s0 s s' : State}
    {i : Nat} {a : Alt} {ev : Ev} {t : Thread}
    (h0 : init capacity maxCap dyn progs = some s0) (hr : ReachAll s0 s)
    (hs : step s i a = some (s', ev)) (hti : s.threads[i]? = some t) (hh : lockW t = 1) :
    ∃ t', s'.threads[i]? = some t' ∧ lockRank t' < lockRank t ∧ (lockW t' = 0 ↔ lockRank t' = 0) := by
  obtain ⟨hI, hL⟩ := reach_linv h0 hr
  have hlen : i < s.threads.length := by
    rcases Nat.lt_or_ge i s.threads.length with h | h
    · exact h
    · simp [List.getElem?_eq_none h] at hti
  unfold step at hs
  simp only [hti] at hs
  cases hr' : stepThread s.pool t a with
  | none => simp [hr'] at hs
  | some r =>
    simp only [hr', Option.some.injEq, Prod.mk.injEq] at hs
    obtain ⟨hs', _⟩ := hs
    subst hs'
    have hmem : t ∈ s.threads := List.mem_of_getElem? hti
    refine ⟨r.thr, ?_, step_lockRank _ _ _ _ hr' hh (hL.cas t hmem)⟩
    cases r.spawn with
    | none => simp [hlen]
    | some c => simp [List.getElem?_append_left, hlen]

/-- A thread whose program has ended. -/
def Finished (t : Thread) : Prop := t.pc = .idle ∧ t.prog = []
instance : DecidablePred Finished := fun t => by unfold Finished; exact inferInstance
/-- A Get waiting for a resource (`select` on the channel and `ctx.Done()`). -/
def AtGetWait (t : Thread) : Prop := ∃ f, t.pc = .gWait f
/-- A shrinking ScaleCapacity (Close) waiting for a slot. -/
def AtShrinkRecv (t : Thread) : Prop := ∃ c old i, t.pc = .sShrRecv c old i
/-- A ScaleCapacity waiting for the semaphore. -/
def AtScaleLock (t : Thread) : Prop := ∃ c, t.pc = .sLock c

/--
  **No deadlock.**  If, without a timeout, no thread at all can move, then
  every thread has finished its program, or waits in Get for a resource, or is
  a shrinking ScaleCapacity/Close waiting for a slot, or waits for the semaphore
  held by such a ScaleCapacity; and unless all have finished, the pool is simply
  exhausted: the channel is empty and open, and every one of the pool's slots
  (capacity + the ones the shrink still has to take out) is a resource in the
  hands of a client.  That is the wait the pool had before the semaphore was
  introduced (a Get on an exhausted pool, Close "waits for all resources to be
  returned"), ended by any Put — which takes neither lock — or by the Get's
  context; nobody ever waits for a lock whose holder cannot move.
-/
theorem no_deadlock {capacity maxCap : Int} {dyn : Bool} {progs : List (List Op)} {s0 s : State}
    (h0 : init capacity maxCap dyn progs = some s0) (hr : ReachAll s0 s)
    (hstuck : ∀ j, step s j {} = none) :
    (∀ t ∈ s.threads, Finished t ∨ AtGetWait t ∨ AtShrinkRecv t
        ∨ (AtScaleLock t ∧ ∃ u ∈ s.threads, AtShrinkRecv u))
    ∧ ((∃ t ∈ s.threads, ¬ Finished t) →
        s.pool.chan = [] ∧ s.pool.closed = false
        ∧ (handedOut s : Int) = s.pool.capacity + (sumN closeP s.threads : Nat)) := by
  obtain ⟨hI, hL⟩ := reach_linv h0 hr
  have hnone : ∀ u ∈ s.threads, stepThread s.pool u {} = none := by
    intro u hu
    obtain ⟨j, hj⟩ := List.mem_iff_getElem?.mp hu
    exact step_none hj (hstuck j)
  have hlock : s.pool.lock = false := by
    cases hl : s.pool.lock with
    | false => rfl
    | true =>
      obtain ⟨j, u, hj, _, hsome⟩ := lock_held_has_running_holder h0 hr hl {}
      simp [hstuck j] at hsome
  have hidle : s.pool.idleBusy = 0 := by
    rcases Nat.eq_zero_or_pos s.pool.idleBusy with h | h
    · exact h
    · obtain ⟨j, u, hj, _, hsome⟩ := (timer_stop_waits_for_running_callback h0 hr {}).1 (by omega)
      simp [hstuck j] at hsome
  have hcapb : s.pool.capBusy = 0 := by
    rcases Nat.eq_zero_or_pos s.pool.capBusy with h | h
    · exact h
    · obtain ⟨j, u, hj, _, hsome⟩ := (timer_stop_waits_for_running_callback h0 hr {}).2 (by omega)
      rcases hsome with hsome | ⟨_, hl⟩
      · simp [hstuck j] at hsome
      · rw [hlock] at hl; cases hl
  -- classification, with the state of the channel
  have hclass : ∀ t ∈ s.threads, Finished t ∨
      (s.pool.chan = [] ∧ s.pool.closed = false ∧
        (AtGetWait t ∨ AtShrinkRecv t ∨ (AtScaleLock t ∧ ∃ u ∈ s.threads, AtShrinkRecv u))) := by
    intro t ht
    obtain ⟨k, hk⟩ := List.mem_iff_getElem?.mp ht
    obtain ⟨hA, _, hroom, _⟩ := inv_local hI hk
    cases blocked_cases _ _ _ (hnone t ht) with
    | finished h1 h2 => exact Or.inl ⟨h1, h2⟩
    | dead h1 => exact absurd h1 (hI.alive t ht)
    | onLock _ hl _ => rw [hlock] at hl; cases hl
    | onScaling _ hsc hpc =>
      obtain ⟨j, u, hj, _, hsome⟩ := scaling_held_has_running_holder h0 hr hsc {}
      rcases hsome with hsome | ⟨c1, c2, c3⟩
      · simp [hstuck j] at hsome
      · exact Or.inr ⟨c1, c2, Or.inr (Or.inr ⟨hpc, u, List.mem_of_getElem? hj, c3⟩)⟩
    | getWait c1 c2 hpc => exact Or.inr ⟨c1, c2, Or.inl hpc⟩
    | shrinkWait c1 c2 hpc => exact Or.inr ⟨c1, c2, Or.inr (Or.inl hpc)⟩
    | full hfull hw =>
      exfalso
      rcases hw with hw | ⟨c, old, i, hpc⟩
      · omega
      · simp [A, hpc] at hA
        simp [growP, hpc] at hroom
        omega
    | idleTimer hb _ => exact absurd hidle hb
    | capTimer hb _ => exact absurd hcapb hb
  constructor
  · intro t ht
    rcases hclass t ht with h | ⟨_, _, h⟩
    · exact Or.inl h
    · exact Or.inr h
  · intro ⟨t, ht, hnf⟩
    rcases hclass t ht with h | ⟨c1, c2, _⟩
    · exact absurd h hnf
    · refine ⟨c1, c2, ?_⟩
      have hz : ∀ u ∈ s.threads, pcTok u.pc = 0 ∧ growP u = 0 := by
        intro u hu
        rcases hclass u hu with h | ⟨_, _, h | h | ⟨h, _⟩⟩
        · simp [growP, h.1, pcTok]
        · obtain ⟨f, hf⟩ := h; simp [growP, hf, pcTok]
        · obtain ⟨c, old, i, hf⟩ := h; simp [growP, hf, pcTok]
        · obtain ⟨c, hf⟩ := h; simp [growP, hf, pcTok]
      have e1 : sumN tok s.threads = handedOut s :=
        sumN_congr _ _ _ (by intro u hu; simp [tok, (hz u hu).1])
      have e2 : sumN growP s.threads = 0 := by
        rw [sumN_congr growP (fun _ => 0) _ (by intro u hu; exact (hz u hu).2)]
        exact sumN_const_zero _
      have heq := hI.eq
      simp [c1] at heq
      omega

/-! ## No resource is issued twice (all runs, all operations) -/

/-- Number of places resource `r` is in: slots of the channel, operations in
    progress, clients. -/
def occ (r : Nat) (s : State) : Nat := s.pool.chan.count (some r) + sumN (resW r) s.threads

def ND (s : State) : Prop := ∀ r, occ r s ≤ 1 ∧ (s.pool.nextRes ≤ r → occ r s = 0)

theorem nd_init {capacity maxCap : Int} {dyn : Bool} {progs : List (List Op)} {s : State}
    (h : init capacity maxCap dyn progs = some s) : ND s := by
  unfold init newPool at h
  split at h
  · simp at h
  · simp at h
    subst h
    intro r
    have z : sumN (resW r) (progs.map mkThread) = 0 :=
      sumN_map_zero _ _ (by intro x; simp [resW, pcRes, mkThread]) _
    simp [occ, z, List.count_replicate]

theorem nd_step {s s' : State} {i : Nat} {a : Alt} {ev : Ev}
    (hN : ND s) (hs : step s i a = some (s', ev)) : ND s' := by
  unfold step at hs
  cases hti : s.threads[i]? with
  | none => simp [hti] at hs
  | some t =>
    simp only [hti] at hs
    cases hr : stepThread s.pool t a with
    | none => simp [hr] at hs
    | some q =>
      simp only [hr, Option.some.injEq, Prod.mk.injEq] at hs
      obtain ⟨hs', _⟩ := hs
      have hp : s'.pool = q.pool := (congrArg State.pool hs').symm
      have hth : s'.threads = match q.spawn with
          | some c => s.threads.set i q.thr ++ [c] | none => s.threads.set i q.thr :=
        (congrArg State.threads hs').symm
      intro r
      obtain ⟨R1, R2⟩ := step_res _ _ _ _ r hr
      have e := sumN_step (resW r) s.threads s'.threads i t q.thr q.spawn hti hth R2
      have el := sumN_elem_le (resW r) _ i t hti
      obtain ⟨n1, n2⟩ := hN r
      unfold occ at n1 n2 ⊢
      rw [hp]
      rcases R1 with ⟨r1, r2⟩ | ⟨r1, r2⟩
      · rw [r1]
        constructor
        · omega
        · intro h; have := n2 h; omega
      · rw [r1]
        by_cases hr0 : s.pool.nextRes = r
        · simp [hr0] at r2
          have := n2 (by omega)
          constructor
          · omega
          · intro h; omega
        · simp [hr0] at r2
          constructor
          · omega
          · intro h; have := n2 (by omega); omega

/--
  **C24: a resource is never issued twice** — full strength: every program,
  every operation (including the racy capacity changes), every interleaving.
  In every reachable state every resource number is in at most one place
  (a slot of the channel, an operation in progress, a client).
-/
theorem pool_no_double_issue {capacity maxCap : Int} {dyn : Bool} {progs : List (List Op)} {s0 s : State}
    (h0 : init capacity maxCap dyn progs = some s0) (hr : ReachAll s0 s) (r : Nat) : occ r s ≤ 1 := by
  have : ND s := by
    induction hr with
    | init => exact nd_init h0
    | step _ hs ih => exact nd_step ih hs
  exact (this r).1

/-- Consequence in the words of the property: two different threads never hold
    the same resource, and no client holds it twice. -/
theorem no_two_holders {capacity maxCap : Int} {dyn : Bool} {progs : List (List Op)} {s0 s : State}
    (h0 : init capacity maxCap dyn progs = some s0) (hr : ReachAll s0 s)
    {i j : Nat} {t1 t2 : Thread} (hi : s.threads[i]? = some t1) (hj : s.threads[j]? = some t2) (hij : i ≠ j)
    (r : Nat) (h1 : r ∈ t1.held) : r ∉ t2.held ∧ t1.held.count r = 1 := by
  have ho := pool_no_double_issue h0 hr r
  have h2 := sumN_two_le (resW r) s.threads i j t1 t2 hij hi hj
  have c1 : 0 < t1.held.count r := List.count_pos_iff.mpr h1
  unfold occ at ho
  constructor
  · intro hin
    have c2 : 0 < t2.held.count r := List.count_pos_iff.mpr hin
    simp [resW] at h2
    omega
  · simp [resW] at h2
    omega

/-! ## Concrete runs: the former witness schedules, and non-vacuity -/

theorem reachAll_run (s0 s : State) (hs : ReachAll s0 s) (sched : List (Nat × Alt)) :
    ReachAll s0 (run s sched) := by
  induction sched generalizing s with
  | nil => exact hs
  | cons x rest ih =>
    obtain ⟨i, a⟩ := x
    unfold run
    cases h : step s i a with
    | none => simpa using ih s hs
    | some r => obtain ⟨s', ev⟩ := r; simpa using ih s' (.step hs h)

/-- `n` consecutive steps of thread `i`. -/
def rep (i n : Nat) : List (Nat × Alt) := List.replicate n (i, {})

theorem exists_of_run (c m : Int) (d : Bool) (progs : List (List Op)) (sched : List (Nat × Alt))
    (P : State → Bool) (h : ((init c m d progs).map fun s0 => P (run s0 sched)) = some true) :
    ∃ s0 s, init c m d progs = some s0 ∧ ReachAll s0 s ∧ P s = true := by
  cases hi : init c m d progs with
  | none => simp [hi] at h
  | some s0 =>
    simp [hi] at h
    exact ⟨s0, run s0 sched, rfl, reachAll_run s0 s0 .init sched, h⟩

def pcOf (s : State) (i : Nat) : Option Pc := s.threads[i]?.map (·.pc)

/-! ### The former witness schedules (corpus/C24 lines 1–5), on the repaired pool

  Each of them ran into the window of a shrinking ScaleCapacity; the capacity
  change that used to break the pool now waits (or, for the scale-out, is
  refused and the Get waits for a returned resource). -/

/-- corpus line 1: capacity 1, max 2, clients 0 and 1 hold both slots, the
    scale-in goroutine (thread 4) has swapped 2 → 1 and waits for a slot.
    Client 2 finds the semaphore taken, does not scale out and waits: two
    resources out, not three.  Once client 0 returns its resource the shrink
    completes. -/
def w1Progs : List (List Op) := [[.get 0, .put], [.get 0, .put], [.get 0, .put], [.age, .tick]]
def w1Sched : List (Nat × Alt) := rep 0 6 ++ rep 1 14 ++ rep 3 6 ++ rep 4 4 ++ rep 2 12

example : ∃ s0 s, init 1 2 true w1Progs = some s0 ∧ ReachAll s0 s ∧
    (handedOut s == 2 && pcOf s 2 == some (.gWait 0) && pcOf s 4 == some (.sShrRecv 1 2 0)
      && s.pool.scaling && s.pool.capacity == 1) = true :=
  exists_of_run 1 2 true w1Progs w1Sched _ (by decide)

example : ∃ s0 s, init 1 2 true w1Progs = some s0 ∧ ReachAll s0 s ∧
    (handedOut s == 1 && pcOf s 4 == some .idle && !s.pool.scaling && s.pool.capacity == 1
      && s.pool.chan.length == 0) = true :=
  exists_of_run 1 2 true w1Progs (w1Sched ++ rep 0 4 ++ rep 4 9) _ (by decide)

/-- corpus line 2: ScaleCapacity(1) pending (3 → 1); ScaleCapacity(3) now waits
    for the semaphore instead of adding two slots; all three Puts succeed and
    the pool ends with capacity 3 = three slots in the channel. -/
def w2Progs : List (List Op) := [[.get 0, .put], [.get 0, .put], [.get 0, .put], [.scale 1], [.scale 3]]
def w2Sched : List (Nat × Alt) := rep 0 6 ++ rep 1 6 ++ rep 2 6 ++ rep 3 4 ++ rep 4 7

example : ∃ s0 s, init 3 3 false w2Progs = some s0 ∧ ReachAll s0 s ∧
    (pcOf s 3 == some (.sShrRecv 1 3 0) && pcOf s 4 == some (.sLock 3) && s.pool.capacity == 1) = true :=
  exists_of_run 3 3 false w2Progs w2Sched _ (by decide)

example : ∃ s0 s, init 3 3 false w2Progs = some s0 ∧ ReachAll s0 s ∧
    (s.threads.all (fun t => t.pc == .idle && t.prog.isEmpty) && s.pool.capacity == 3
      && s.pool.chan.length == 3 && s.pool.inUse == 0) = true :=
  exists_of_run 3 3 false w2Progs (w2Sched ++ rep 0 4 ++ rep 1 4 ++ rep 3 9 ++ rep 4 12 ++ rep 2 4 ++ rep 4 9) _ (by decide)

/-- corpus lines 3–5: ScaleCapacity(1) pending (2 → 1); Close waits for the
    semaphore, then for both resources, and closes an empty pool: no Put meets
    a closed channel and the quiescent equation holds at the end. -/
def w3Progs : List (List Op) := [[.get 0, .put], [.get 0, .put], [.scale 1], [.close]]
def w3Sched : List (Nat × Alt) := rep 0 6 ++ rep 1 6 ++ rep 2 4 ++ rep 3 5

example : ∃ s0 s, init 2 2 false w3Progs = some s0 ∧ ReachAll s0 s ∧
    (pcOf s 2 == some (.sShrRecv 1 2 0) && pcOf s 3 == some (.sLock 0) && !s.pool.closed) = true :=
  exists_of_run 2 2 false w3Progs w3Sched _ (by decide)

example : ∃ s0 s, init 2 2 false w3Progs = some s0 ∧ ReachAll s0 s ∧
    (s.threads.all (fun t => t.pc == .idle && t.prog.isEmpty) && s.pool.closed && s.pool.capacity == 0
      && s.pool.chan.length == 0 && s.pool.inUse == 0) = true :=
  exists_of_run 2 2 false w3Progs (w3Sched ++ rep 0 4 ++ rep 2 9 ++ rep 3 9 ++ rep 1 4 ++ rep 3 9) _ (by decide)

/-- fix 481c0c2: ScaleCapacity(0) closes the channel while an idle sweep is
    between two slots; the sweep returns instead of sending the zero value. -/
example : ∃ s0 s, init 2 2 false [[.sweep], [.scale 0]] = some s0 ∧ ReachAll s0 s ∧
    (s.threads.all (fun t => t.pc == .idle) && s.pool.closed && s.pool.idleBusy == 0) = true :=
  exists_of_run 2 2 false [[.sweep], [.scale 0]] (rep 0 4 ++ rep 1 20 ++ rep 0 5) _ (by decide)

/-! ### Non-vacuity -/

/-- Round-robin schedule over `n` threads. -/
def roundRobin (n steps : Nat) : List (Nat × Alt) := (List.range steps).map fun k => (k % n, {})

def exProgs : List (List Op) :=
  [[.get 0, .put, .get 1, .drop], [.get 0, .put, .get 3], [.sweep, .sweep], [.setCap 2], [.age, .tick, .scale 1], [.close]]

/-- `pool_safe` is about runs in which everything happens: two clients, a
    sweeper, a growing SetCapacity, a scale-in tick, a ScaleCapacity and a
    Close, interleaved step by step; the run passes through a state with
    `maxCap` resources handed out and ends closed and quiescent. -/
example : ∃ s0 s1 s2, init 1 2 true exProgs = some s0 ∧ ReachAll s0 s1 ∧ ReachAll s0 s2 ∧
    handedOut s1 = 2 ∧ s2.pool.closed = true ∧ (∀ t ∈ s2.threads, t.pc = .idle ∧ t.prog = []) := by
  refine ⟨(init 1 2 true exProgs).get (by decide), run _ (rep 0 6 ++ rep 1 14), run _ (roundRobin 7 200), by simp,
    reachAll_run _ _ .init _, reachAll_run _ _ .init _, by decide, by decide, by decide⟩

/-- … and runs in which the automatic scale-in fires while both resources are
    out (thread 4 is its goroutine), Close queues behind it, and both complete
    as the resources come back. -/
example : ∃ s0 s, init 1 2 true [[.get 0, .put], [.get 0, .put], [.age, .tick], [.close]] = some s0 ∧ ReachAll s0 s ∧
    s.threads.length = 5 ∧ s.pool.closed = true ∧ s.pool.capacity = 0 ∧ s.pool.inUse = 0
    ∧ (∀ t ∈ s.threads, t.pc = .idle ∧ t.prog = []) := by
  refine ⟨(init 1 2 true [[.get 0, .put], [.get 0, .put], [.age, .tick], [.close]]).get (by decide),
    run _ (rep 0 6 ++ rep 1 14 ++ rep 2 6 ++ rep 4 4 ++ rep 3 9 ++ rep 0 4 ++ rep 4 9 ++ rep 3 20 ++ rep 1 4 ++ rep 3 9),
    by simp, reachAll_run _ _ .init _, by decide, by decide, by decide, by decide, by decide⟩

/-- Stuck states are found by looking at the finitely many threads. -/
theorem stuck_of_all (s : State)
    (h : (List.range s.threads.length).all (fun j => (step s j {}).isNone) = true) : ∀ j, step s j {} = none := by
  intro j
  rcases Nat.lt_or_ge j s.threads.length with hj | hj
  · have := List.all_eq_true.mp h j (List.mem_range.mpr hj)
    simpa using this
  · unfold step
    simp [List.getElem?_eq_none hj]

/-- The hypothesis of `no_deadlock` is satisfiable by a state with unfinished
    threads, and its conclusion names all three kinds of waiting: client 0
    holds both resources and has ended; ScaleCapacity(1) has lowered the
    capacity and waits for a slot; Close waits for the semaphore; a second
    client waits in Get. -/
example : ∃ s0 s, init 2 2 false [[.get 0, .get 0], [.scale 1], [.close], [.get 0]] = some s0 ∧ ReachAll s0 s ∧
    (∀ j, step s j {} = none) ∧ (∃ t ∈ s.threads, ¬ Finished t) ∧
    pcOf s 1 = some (.sShrRecv 1 2 0) ∧ pcOf s 2 = some (.sLock 0) ∧ pcOf s 3 = some (.gWait 0) ∧
    handedOut s = 2 := by
  refine ⟨(init 2 2 false [[.get 0, .get 0], [.scale 1], [.close], [.get 0]]).get (by decide),
    run _ (rep 0 12 ++ rep 1 9 ++ rep 2 9 ++ rep 3 9), by simp, reachAll_run _ _ .init _,
    stuck_of_all _ (by decide), by decide, by decide, by decide, by decide, by decide⟩

/-- The hypotheses of `scaling_held_has_running_holder` / `holder_rank_decreases`
    hold in reachable states: here the scale-in goroutine holds the semaphore
    with rank 5 while a Close waits for it. -/
example : ∃ s0 s, init 1 2 true [[.get 0], [.get 0], [.age, .tick], [.close]] = some s0 ∧ ReachAll s0 s ∧
    s.pool.scaling = true ∧ (s.threads[4]?.map holder) = some 1 ∧ (s.threads[4]?.map (rank s.pool)) = some 5
    ∧ pcOf s 3 = some (.sLock 0) := by
  refine ⟨(init 1 2 true [[.get 0], [.get 0], [.age, .tick], [.close]]).get (by decide),
    run _ (rep 0 6 ++ rep 1 14 ++ rep 2 6 ++ rep 4 4 ++ rep 3 9), by simp, reachAll_run _ _ .init _,
    by decide, by decide, by decide, by decide⟩

/-- `pool_no_double_issue` is about states in which resources really are in
    circulation: here resource 0 is held by client 0 and resource 1 lies in the channel. -/
example : ∃ s0 s, init 2 2 true [[.get 0], [.get 0, .put]] = some s0 ∧ ReachAll s0 s ∧
    occ 0 s = 1 ∧ occ 1 s = 1 ∧ s.pool.chan.count (some 1) = 1 := by
  refine ⟨(init 2 2 true [[.get 0], [.get 0, .put]]).get (by decide), run _ (roundRobin 2 40), by simp,
    reachAll_run _ _ .init _, by decide, by decide, by decide⟩

end GaeaVerif.C24
