import GaeaVerif.Model.ShardPlace
import GaeaVerif.Spec.Mycat
import GaeaVerif.Lemmas.ShardStr
import GaeaVerif.Lemmas.ShardMurmur
import GaeaVerif.Lemmas.ShardRing
import GaeaVerif.Lemmas.ShardRingBuild
import GaeaVerif.Lemmas.ShardSegment
import GaeaVerif.Gen.Consts
/-
  C08 — Mycat-compatible rules place keys exactly where Mycat does.

  Model: Model/ShardPlace.lean (shard_mycat.go, util/murmur.go, after the fix:
  commits "hash the UTF-16 code units" and "|key| mod count on the full
  integer").  Reference: Spec/Mycat.lean (Mycat's Java algorithms).
  The tie to the Go code is the correspondence check `gvh run C08`.

  A key is what the client wrote: an integer literal (any signed 64-bit value)
  or a string (any list of Unicode scalar values: ASCII, multi-byte, outside the
  BMP).  `goKey` is the value `FindTableIndex` receives for it, `javaValue` the
  `columnValue` String Mycat's function receives.
-/
namespace GaeaVerif.C08
open GaeaVerif GaeaVerif.ShardGo GaeaVerif.ShardPlace GaeaVerif.ShardLemmas

/-- A sharding key as the client wrote it. -/
inductive ClientKey where
  | int (k : Int)
  | text (cs : List Nat)

/-- Signed 64-bit integers; strings of Unicode scalar values. -/
def ClientKey.valid : ClientKey → Prop
  | .int k => -2 ^ 63 ≤ k ∧ k < 2 ^ 63
  | .text cs => ∀ c ∈ cs, isScalar c

/-- What `FindTableIndex` receives: an int64, or the UTF-8 string. -/
def goKey : ClientKey → Key
  | .int k => .int64 k
  | .text cs => .str (utf8 cs)

/-- What Mycat's `calculate(String columnValue)` receives. -/
def javaValue : ClientKey → MycatSpec.JString
  | .int k => MycatSpec.intToString k
  | .text cs => MycatSpec.javaString cs

/-- A placement by the reference as a Go result: a rejected key is the KeyError panic. -/
def placed : Option Nat → Out Int
  | some i => .ok (i : Int)
  | none => .err .keyPanic

/-! ### helper lemmas: the key as the two sides see it -/

theorem intToString_ascii (k : Int) : ∀ b ∈ MycatSpec.intToString k, b < 128 := by
  intro b hb
  unfold MycatSpec.intToString at hb
  split at hb
  · rcases List.mem_cons.mp hb with h | h
    · omega
    · exact natToString_ascii _ b h
  · exact natToString_ascii _ b hb

/-- `GetString` of the Go key, and its UTF-16 code units are the Java String. -/
theorem getString_units (ck : ClientKey) (hv : ck.valid) :
    ∃ s, GetString (goKey ck) = .ok s ∧ utf16Units s = javaValue ck := by
  cases ck with
  | int k =>
    refine ⟨fmtInt k, rfl, ?_⟩
    rw [fmtInt_eq]
    exact utf16Units_ascii _ (intToString_ascii k)
  | text cs => exact ⟨utf8 cs, rfl, utf16Units_utf8 cs hv⟩

theorem parseBigDec_nonascii (s : List Nat) (h : ∃ b ∈ s, 128 ≤ b) : parseBigDec s = none := by
  obtain ⟨b, hb, hge⟩ := h
  have hnd : ∀ r : List Nat, b ∈ r → parseUDec r = none := by
    intro r hr
    unfold parseUDec
    have : ¬ (r.all isDigit = true) := by
      rw [List.all_eq_true]; intro hall
      have := hall b hr; simp [isDigit] at this; omega
    simp [this]
  unfold parseBigDec
  split
  · rename_i r
    rcases List.mem_cons.mp hb with h | h
    · omega
    · simp [hnd r h]
  · rename_i r
    rcases List.mem_cons.mp hb with h | h
    · omega
    · simp [hnd r h]
  · simp [hnd s hb]

theorem utf8OfScalar_nonascii (c : Nat) (hc : 128 ≤ c) : ∀ b ∈ utf8OfScalar c, 128 ≤ b := by
  intro b hb
  unfold utf8OfScalar at hb
  split at hb
  · omega
  · split at hb
    · simp at hb; omega
    · split at hb <;> (simp at hb; omega)

theorem charsOfScalar_nonascii (c : Nat) (hc : 128 ≤ c) : ∀ b ∈ MycatSpec.charsOfScalar c, 128 ≤ b := by
  intro b hb
  unfold MycatSpec.charsOfScalar at hb
  split at hb <;> (simp at hb; omega)

/-- A string is read as the same number (or rejected) by Go on its UTF-8 bytes
    and by Java on its UTF-16 chars. -/
theorem parse_text (cs : List Nat) :
    parseBigDec (utf8 cs) = MycatSpec.bigInteger (MycatSpec.javaString cs) := by
  by_cases h : ∀ c ∈ cs, c < 128
  · rw [utf8_ascii cs h, javaString_bmp cs (fun b hb => by have := h b hb; omega), bigInteger_eq]
  · have h' : ∃ c ∈ cs, 128 ≤ c := by
      apply Classical.byContradiction; intro hn; apply h
      intro c hc; apply Classical.byContradiction; intro hlt; exact hn ⟨c, hc, by omega⟩
    obtain ⟨c, hc, hge⟩ := h'
    have hne : utf8OfScalar c ≠ [] := by
      have := utf8OfScalar_length_pos c; intro e; rw [e] at this; simp at this
    have hne2 : MycatSpec.charsOfScalar c ≠ [] := by
      unfold MycatSpec.charsOfScalar; split <;> simp
    have l1 : ∃ b ∈ utf8 cs, 128 ≤ b := by
      obtain ⟨b, hb⟩ := List.exists_mem_of_ne_nil _ hne
      exact ⟨b, by unfold utf8; exact List.mem_flatMap.mpr ⟨c, hc, hb⟩, utf8OfScalar_nonascii c hge b hb⟩
    have l2 : ∃ b ∈ MycatSpec.javaString cs, 128 ≤ b := by
      obtain ⟨b, hb⟩ := List.exists_mem_of_ne_nil _ hne2
      exact ⟨b, by unfold MycatSpec.javaString; exact List.mem_flatMap.mpr ⟨c, hc, hb⟩,
        charsOfScalar_nonascii c hge b hb⟩
    rw [parseBigDec_nonascii _ l1, bigInteger_eq, parseBigDec_nonascii _ l2]

/-- The number both sides read from a key. -/
theorem key_number (ck : ClientKey) :
    ∃ s, GetString (goKey ck) = .ok s ∧ parseBigDec s = MycatSpec.bigInteger (javaValue ck) := by
  cases ck with
  | int k =>
    refine ⟨fmtInt k, rfl, ?_⟩
    show parseBigDec (fmtInt k) = MycatSpec.bigInteger (MycatSpec.intToString k)
    rw [bigInteger_eq, fmtInt_eq]
  | text cs => exact ⟨utf8 cs, rfl, parse_text cs⟩

/-! ### mycat_mod -/

/-- **C08, mycat_mod.** For every number of databases `n ≥ 1` and every key,
    `MycatPartitionModShard.FindForKey` returns the database
    `new BigInteger(columnValue).abs().mod(n)` of Mycat's PartitionByMod, and
    rejects exactly the keys Mycat rejects. (No bound on the integer: keys
    beyond int64 written as strings are covered.) -/
theorem mycat_mod_eq (n : Nat) (hn : 1 ≤ n) (ck : ClientKey) :
    MycatPartitionModShard.FindForKey (n : Int) (goKey ck) =
      placed (MycatSpec.partitionByMod n (javaValue ck)) := by
  obtain ⟨s, hs, hp⟩ := key_number ck
  unfold MycatPartitionModShard.FindForKey MycatSpec.partitionByMod
  rw [hs]; simp only [hp]
  have hn0 : ¬ ((n : Int) = 0) := by omega
  have hn1 : ¬ (n = 0) := by omega
  cases MycatSpec.bigInteger (javaValue ck) with
  | none => simp [placed, hn1]
  | some v => simp [placed, hn0, hn1]

example : (ClientKey.int (-9223372036854775808)).valid := by unfold ClientKey.valid; omega
/-- The key the pinned code misplaced (`hack.Abs(MinInt64) < 0` gave index -2): Mycat says 2. -/
example : MycatSpec.partitionByMod 3 (javaValue (.int (-9223372036854775808))) = some 2 := by decide

/-- The same for the other Go types that can carry the key. -/
theorem mycat_mod_carriers (n : Int) (k : Int) (s : GoStr) :
    MycatPartitionModShard.FindForKey n (.int k) = MycatPartitionModShard.FindForKey n (.int64 k) ∧
    MycatPartitionModShard.FindForKey n (.bytes s) = MycatPartitionModShard.FindForKey n (.str s) :=
  ⟨rfl, rfl⟩

/-! ### mycat_long -/

theorem slot_lt (h : Int) : (h % 1024).toNat < 1024 := by omega

/-- Looking a slot up in the finished table. -/
theorem segment_lookup (count length : List Nat) (hv : MycatSpec.validPartition count length = true)
    (h : Int) :
    arrGet (segTable 0 (MycatSpec.segmentLengths count length)) (slotOf h) =
      placed (MycatSpec.partition count length h) := by
  have htot : total (MycatSpec.segmentLengths count length) = 1024 := by
    unfold MycatSpec.validPartition at hv
    simp only [Bool.and_eq_true, beq_iff_eq] at hv; exact hv.2
  obtain ⟨i, hi, _⟩ := segmentOf_isSome (MycatSpec.segmentLengths count length) (h % 1024).toNat
    (by rw [htot]; exact slot_lt h)
  unfold MycatSpec.partition
  rw [hi]
  unfold arrGet slotOf
  rw [if_pos ⟨by omega, by rw [segTable_length, htot]; omega⟩, segTable_get _ 0 _ i hi]
  simp [placed]

/-- **`segment_total` + C08, mycat_long.** For every parameter set Mycat's
    PartitionUtil accepts (as many lengths as counts, segments adding up to 1024)
    `Init` succeeds, and for every key `FindForKey` returns
    `segment[(int)(Long.parseLong(columnValue) & 1023)]` of Mycat's
    PartitionByLong; keys `Long.parseLong` rejects are rejected. -/
theorem mycat_long_eq (count length : List Nat) (hv : MycatSpec.validPartition count length = true)
    (ck : ClientKey) (hk : ck.valid) :
    ∃ segment,
      MycatPartitionLongShard.initLists (total count) (ints count) (ints length) = .ok segment ∧
      MycatPartitionLongShard.FindForKey segment (goKey ck) =
        placed (MycatSpec.partitionByLong count length (javaValue ck)) := by
  refine ⟨_, initLists_ok count length hv, ?_⟩
  unfold MycatPartitionLongShard.FindForKey MycatSpec.partitionByLong
  rw [if_pos hv]
  cases ck with
  | int k =>
    have : MycatSpec.parseLong (javaValue (.int k)) = some k := by
      rw [parseLong_eq]; show parseInt64 (MycatSpec.intToString k) = some k
      rw [← fmtInt_eq]; exact parseInt64_fmtInt k hk
    rw [this]
    show (match Out.ok k with | .ok h => arrGet _ (slotOf h) | .err e => .err e | .panic => .panic) = _
    simp only [Option.bind_some]
    exact segment_lookup count length hv k
  | text cs =>
    have hp : parseInt64 (utf8 cs) = MycatSpec.parseLong (MycatSpec.javaString cs) := by
      unfold parseInt64 MycatSpec.parseLong; rw [parse_text]
      cases MycatSpec.bigInteger (MycatSpec.javaString cs) <;> simp
    show (match (match parseInt64 (utf8 cs) with | some v => Out.ok v | none => .err .keyPanic) with
      | .ok h => arrGet _ (slotOf h) | .err e => .err e | .panic => .panic) = _
    rw [hp]
    show _ = placed ((MycatSpec.parseLong (MycatSpec.javaString cs)).bind _)
    cases MycatSpec.parseLong (MycatSpec.javaString cs) with
    | none => rfl
    | some v => simp only [Option.bind_some]; exact segment_lookup count length hv v

example : MycatSpec.validPartition [1, 1, 4] [512, 256, 64] = true := by decide
/-- Placements copied from Mycat in shard_mycat_test.go (count "1,1,4", length "512,256,64"). -/
example : MycatSpec.partitionByLong [1, 1, 4] [512, 256, 64] (javaValue (.text (ascii "-1"))) = some 5 := by decide
example : MycatSpec.partitionByLong [1, 1, 4] [512, 256, 64] (javaValue (.int 768)) = some 2 := by decide
example : MycatSpec.partitionByLong [1, 1, 4] [512, 256, 64] (javaValue (.int 9223372036854775807)) = some 5 := by decide

/-! ### mycat_string -/

theorem stringHashLoop_eq (input : List Nat) (n : Nat) (i : Nat) (h : BitVec 64) (hb : i + n ≤ input.length) :
    stringHashLoop input n (i : Int) h =
      .ok (((input.drop i).take n).foldl (fun h c => (h <<< 5) - h + BitVec.ofNat 64 c) h) := by
  induction n generalizing i h with
  | zero => simp [stringHashLoop]
  | succ n ih =>
    unfold stringHashLoop
    rw [if_pos ⟨by omega, by omega⟩]
    have e : ((i : Int) + 1) = ((i + 1 : Nat) : Int) := by omega
    have hi : i < input.length := by omega
    have hg : input.getD ((i : Int)).toNat 0 = input[i] := by
      simp [List.getD_eq_getElem?_getD, hi]
    rw [hg, e, ih (i + 1) _ (by omega)]
    congr 1
    conv => rhs; rw [List.drop_eq_getElem_cons hi, List.take_succ_cons, List.foldl_cons]

/-- `stringHash` never indexes out of range and is `StringUtil.hash`. -/
theorem stringHash_eq (input : List Nat) (start end_ : Int) :
    stringHash input start end_ = .ok (MycatSpec.stringUtilHash input start end_) := by
  unfold stringHash MycatSpec.stringUtilHash
  simp only
  generalize hs : (if start < 0 then (0 : Int) else start) = s
  generalize he : (if end_ > (input.length : Int) then (input.length : Int) else end_) = e
  have hs0 : 0 ≤ s := by rw [← hs]; split <;> omega
  have hel : e ≤ input.length := by rw [← he]; split <;> omega
  have hsn : s = ((s.toNat : Nat) : Int) := by omega
  by_cases hle : s ≤ e
  · have := stringHashLoop_eq input (e - s).toNat s.toNat 0 (by omega)
    rw [← hsn] at this
    exact this
  · have h0 : (e - s).toNat = 0 := by omega
    rw [h0]; simp [stringHashLoop]

/-- **C08, mycat_string.** For every valid partition layout, every hash slice
    `(start, end)` — positive, negative, zero/open, out of range — and every key
    (strings with multi-byte and supplementary-plane characters included, and
    integers through their decimal spelling), `FindForKey` returns the database
    of Mycat's PartitionByString: positions and lengths count UTF-16 chars. -/
theorem mycat_string_eq (count length : List Nat) (hv : MycatSpec.validPartition count length = true)
    (hashSliceStart hashSliceEnd : Int) (ck : ClientKey) (hk : ck.valid) :
    ∃ segment,
      MycatPartitionLongShard.initLists (total count) (ints count) (ints length) = .ok segment ∧
      MycatPartitionStringShard.FindForKey segment hashSliceStart hashSliceEnd (goKey ck) =
        placed (MycatSpec.partitionByString count length (hashSliceStart, hashSliceEnd) (javaValue ck)) := by
  refine ⟨_, initLists_ok count length hv, ?_⟩
  obtain ⟨s, hs, hu⟩ := getString_units ck hk
  unfold MycatPartitionStringShard.FindForKey MycatSpec.partitionByString
  rw [hs, if_pos hv]
  simp only [hu, stringHash_eq]
  exact segment_lookup count length hv _

/-- "ab你好" under hash slice "-2:" (start -2, end 0): the pinned code placed it in 0, Mycat in 33. -/
example : (ClientKey.text [0x61, 0x62, 0x4F60, 0x597D]).valid := by
  intro c hc; simp at hc; rcases hc with h | h | h | h <;> subst h <;> decide
example : MycatSpec.partitionByString [64] [16] (-2, 0)
    (javaValue (.text [0x61, 0x62, 0x4F60, 0x597D])) = some 33 := by decide
/-- "😀" (U+1F600, two chars in Java) under hash slice "32": Mycat 22, the pinned code 32. -/
example : MycatSpec.partitionByString [64] [16] (0, 32) (javaValue (.text [0x1F600])) = some 22 := by decide
/-- Placements copied from Mycat in shard_mycat_test.go (64 partitions of 16, hash slice "32"). -/
example : MycatSpec.partitionByString [64] [16] (0, 32) (javaValue (.text (ascii "hello, world"))) = some 24 := by decide
example : MycatSpec.partitionByString [64] [16] (0, 32)
    (javaValue (.text [0x4F60, 0x597D, 0x2C, 0x20, 0x4E2D, 0x56FD])) = some 40 := by decide
example : MycatSpec.partitionByString [64] [16] (0, 32) (javaValue (.text (ascii "-120123012"))) = some 4 := by decide

/-! ### mycat_murmur -/

/-- A placement by the reference ring as a Go result: an empty ring is the error
    "bucket map is empty" (Mycat throws NoSuchElementException). -/
def ringPlaced : Option Nat → Out Int
  | some i => .ok (i : Int)
  | none => .err .emptyRing

/-- **C08, mycat_murmur.** For every seed, every number of databases and every
    number of virtual buckets, the ring built by `generateBucketMap` and the
    lookup of `FindForKey` return, for every key, the database of Mycat's
    PartitionByMurmurHash: Guava's murmur3_32 `hashUnencodedChars` of the Java
    String (UTF-16 chars), `TreeMap.tailMap(hash)` first entry, else the first
    entry of the map. -/
theorem mycat_murmur_eq (seed : Int) (count virtualBucketTimes : Nat) (ck : ClientKey) (hk : ck.valid) :
    MycatPartitionMurmurHashShard.FindForKey seed
        (generateBucketMap seed count virtualBucketTimes) (goKey ck) =
      ringPlaced (MycatSpec.partitionByMurmurHash (BitVec.ofInt 32 seed) count virtualBucketTimes
        (javaValue ck)) := by
  obtain ⟨s, hs, hu⟩ := getString_units ck hk
  unfold MycatPartitionMurmurHashShard.FindForKey MycatSpec.partitionByMurmurHash
  rw [hs]
  simp only [HashUnencodedChars_eq, hu, generateBucketMap_eq]
  have h := ring_ceiling (MycatSpec.ringPuts (BitVec.ofInt 32 seed) count virtualBucketTimes)
    (MycatSpec.hashUnencodedChars (BitVec.ofInt 32 seed) (javaValue ck))
  unfold ringFind at h
  cases hc : tmCeiling _ _ with
  | some e =>
    rw [hc] at h
    cases hr : MycatSpec.ringLookup _ _ with
    | none => rw [hr] at h; simp at h
    | some i => rw [hr] at h; simp at h; simp [ringPlaced, h]
  | none =>
    rw [hc] at h
    cases hm : tmMin _ with
    | some e =>
      rw [hm] at h
      cases hr : MycatSpec.ringLookup _ _ with
      | none => rw [hr] at h; simp at h
      | some i => rw [hr] at h; simp at h; simp [ringPlaced, h]
    | none =>
      rw [hm] at h
      cases hr : MycatSpec.ringLookup _ _ with
      | none => simp [ringPlaced]
      | some i => rw [hr] at h; simp at h

/-- The hypotheses are satisfiable and the reference computes: seed 0, three databases, two virtual
    buckets each, key "a😀你" (a supplementary-plane and a CJK character); seed 1, an integer key. -/
example : (ClientKey.text [0x61, 0x1F600, 0x4F60]).valid := by
  intro c hc; simp at hc; rcases hc with h | h | h <;> subst h <;> decide
example : MycatSpec.partitionByMurmurHash 0#32 3 2 (javaValue (.text [0x61, 0x1F600, 0x4F60])) = some 1 := by
  decide
example : MycatSpec.partitionByMurmurHash 1#32 4 2 (javaValue (.int (-50))) = some 2 := by decide

/-- `Init` reads the seed and the bucket count it was configured with. -/
theorem mycat_murmur_init (seed : Int) (hs : -2 ^ 63 ≤ seed ∧ seed < 2 ^ 63) (vbt count : Nat) (hv : vbt < 2 ^ 63) :
    MycatPartitionMurmurHashShard.Init (fmtInt seed) (fmtInt vbt) count =
      .ok (seed, generateBucketMap seed count vbt) := by
  unfold MycatPartitionMurmurHashShard.Init
  rw [parseInt64_fmtInt seed hs]
  have hne : fmtInt (vbt : Int) ≠ [] := by
    unfold fmtInt; rw [if_neg (by omega)]; exact fmtNat_ne_nil _
  simp only [hne, if_false]
  rw [parseInt64_fmtInt vbt ⟨by omega, by omega⟩]

/-- The arithmetic at the heart of the murmur tie: the int64 product truncated
    to int32 is the 32-bit product (`mix_k1_trunc`). -/
theorem mix_k1_trunc (k : BitVec 32) : ShardPlace.mixK1 k = MycatSpec.mixK1 k := mixK1_eq k

/-! ### parameter strings -/

theorem splitOn_single (a : GoStr) (h : ∀ b ∈ a, b ≠ 44) : splitOn 44 a = [a] := by
  induction a with
  | nil => rfl
  | cons x xs ih =>
    have hx : x ≠ 44 := h x (by simp)
    simp only [splitOn, hx, if_false]
    rw [ih (fun b hb => h b (by simp [hb]))]

theorem splitOn_cons (a rest : GoStr) (h : ∀ b ∈ a, b ≠ 44) :
    splitOn 44 (a ++ 44 :: rest) = a :: splitOn 44 rest := by
  induction a with
  | nil => simp [splitOn]
  | cons x xs ih =>
    have hx : x ≠ 44 := h x (by simp)
    simp only [List.cons_append, splitOn, hx, if_false]
    rw [ih (fun b hb => h b (by simp [hb]))]

/-- Comma-separated decimal numbers. -/
def render : List Nat → GoStr
  | [] => []
  | [n] => fmtNat n
  | n :: m :: r => fmtNat n ++ 44 :: render (m :: r)

theorem fmtNat_no_comma (n : Nat) : ∀ b ∈ fmtNat n, b ≠ 44 := by
  intro b hb e; subst e; have := fmtNat_digits n 44 hb; simp [isDigit] at this

theorem fmtNat_no_space (n : Nat) : ∀ b ∈ fmtNat n, b ≠ 32 := by
  intro b hb e; subst e; have := fmtNat_digits n 32 hb; simp [isDigit] at this

theorem render_no_space (l : List Nat) : ∀ b ∈ render l, b ≠ 32 := by
  induction l with
  | nil => intro b hb; simp [render] at hb
  | cons n r ih =>
    cases r with
    | nil => exact fmtNat_no_space n
    | cons m r' =>
      intro b hb
      simp only [render, List.mem_append, List.mem_cons] at hb
      rcases hb with hb | hb | hb
      · exact fmtNat_no_space n b hb
      · omega
      · exact ih b hb

theorem splitOn_render (l : List Nat) (hne : l ≠ []) : splitOn 44 (render l) = l.map fmtNat := by
  induction l with
  | nil => exact absurd rfl hne
  | cons n r ih =>
    cases r with
    | nil => simp [render, splitOn_single _ (fmtNat_no_comma n)]
    | cons m r' =>
      simp only [render]
      rw [splitOn_cons _ _ (fmtNat_no_comma n), ih (by simp)]
      simp

theorem parseInt64_fmtNat (n : Nat) (h : n < 2 ^ 63) : parseInt64 (fmtNat n) = some (n : Int) := by
  have := parseInt64_fmtInt (n : Int) ⟨by omega, by omega⟩
  unfold fmtInt at this
  rw [if_neg (by omega)] at this
  simpa using this

/-- `toIntArray` reads a rendered list back. -/
theorem toIntArray_render (l : List Nat) (hne : l ≠ []) (hb : ∀ n ∈ l, n < 2 ^ 63) :
    toIntArray (render l) = .ok (ints l) := by
  unfold toIntArray removeSpaces
  have hf : (render l).filter (· ≠ 32) = render l := by
    rw [List.filter_eq_self]; intro b hb'; simpa using render_no_space l b hb'
  rw [hf, splitOn_render l hne]
  clear hf hne
  induction l with
  | nil => rfl
  | cons n r ih =>
    simp only [List.map_cons, List.foldr_cons]
    rw [ih (fun x hx => hb x (by simp [hx])), parseInt64_fmtNat n (hb n (by simp))]
    rfl

/-- **mycat_long / mycat_string from the configuration strings.**  With
    `partition_count` and `partition_length` written as comma-separated decimal
    numbers, `Init` builds the table of `mycat_long_eq`. -/
theorem mycat_long_init (count length : List Nat) (hv : MycatSpec.validPartition count length = true)
    (hne : count ≠ []) (hc : ∀ n ∈ count, n < 2 ^ 63) (hl : ∀ n ∈ length, n < 2 ^ 63) :
    MycatPartitionLongShard.Init (total count) (render count) (render length) =
      MycatPartitionLongShard.initLists (total count) (ints count) (ints length) := by
  have hlen : count.length = length.length := by
    unfold MycatSpec.validPartition at hv
    simp only [Bool.and_eq_true, beq_iff_eq] at hv; exact hv.1
  have hne' : length ≠ [] := by
    intro e; rw [e] at hlen; simp at hlen; exact hne hlen
  unfold MycatPartitionLongShard.Init
  rw [toIntArray_render count hne hc, toIntArray_render length hne' hl]


/-! ### hash-slice strings -/

theorem dropWhile_none {α : Type} (p : α → Bool) (l : List α) (h : ∀ b ∈ l, p b = false) : l.dropWhile p = l := by
  cases l with
  | nil => rfl
  | cons a as => simp [List.dropWhile, h a (by simp)]

theorem trimSpace_id (s : GoStr) (h : ∀ b ∈ s, isAsciiSpace b = false) : trimSpace s = s := by
  unfold trimSpace
  rw [dropWhile_none _ s h, dropWhile_none _ s.reverse (fun b hb => h b (List.mem_reverse.mp hb)), List.reverse_reverse]

theorem trim_id (s : List Nat) (h : ∀ b ∈ s, 32 < b) : MycatSpec.trim s = s := by
  unfold MycatSpec.trim
  have h' : ∀ b ∈ s, (decide (b ≤ 32)) = false := by intro b hb; have := h b hb; simp; omega
  rw [dropWhile_none _ s h', dropWhile_none _ s.reverse (fun b hb => h' b (List.mem_reverse.mp hb)),
    List.reverse_reverse]

theorem splitOn58_single (a : GoStr) (h : ∀ b ∈ a, b ≠ 58) : splitOn 58 a = [a] := by
  induction a with
  | nil => rfl
  | cons x xs ih =>
    have hx : x ≠ 58 := h x (by simp)
    simp only [splitOn, hx, if_false]
    rw [ih (fun b hb => h b (by simp [hb]))]

theorem splitOn58_pair (a b : GoStr) (ha : ∀ x ∈ a, x ≠ 58) (hb : ∀ x ∈ b, x ≠ 58) :
    splitOn 58 (a ++ 58 :: b) = [a, b] := by
  induction a with
  | nil => simp [splitOn, splitOn58_single b hb]
  | cons x xs ih =>
    have hx : x ≠ 58 := ha x (by simp)
    simp only [List.cons_append, splitOn, hx, if_false]
    rw [ih (fun b hb => ha b (by simp [hb]))]

/-- Bytes of a decimal number: digits or '-'. -/
theorem fmtInt_bytes (v : Int) : ∀ b ∈ fmtInt v, isDigit b = true ∨ b = 45 := by
  intro b hb
  unfold fmtInt at hb
  split at hb
  · rcases List.mem_cons.mp hb with h | h
    · exact Or.inr h
    · exact Or.inl (fmtNat_digits _ b h)
  · exact Or.inl (fmtNat_digits _ b hb)

/-- One bound of a hash slice as written in the configuration: a number or nothing. -/
def boundText : Option Int → GoStr
  | some v => fmtInt v
  | none => []

def boundValue : Option Int → Int
  | some v => v
  | none => 0

theorem boundText_bytes (o : Option Int) : ∀ b ∈ boundText o, isDigit b = true ∨ b = 45 := by
  cases o with
  | none => intro b hb; simp [boundText] at hb
  | some v => exact fmtInt_bytes v

theorem bytes_facts (s : GoStr) (h : ∀ b ∈ s, isDigit b = true ∨ b = 45) :
    (∀ b ∈ s, b ≠ 58) ∧ (∀ b ∈ s, isAsciiSpace b = false) ∧ (∀ b ∈ s, 32 < b) := by
  refine ⟨?_, ?_, ?_⟩ <;> intro b hb <;> rcases h b hb with h1 | h1
  · simp [isDigit] at h1; omega
  · omega
  · simp [isDigit] at h1; simp [isAsciiSpace]; omega
  · subst h1; decide
  · simp [isDigit] at h1; omega
  · omega

theorem parseHashSliceValue_bound (o : Option Int) (h : ∀ v, o = some v → -2 ^ 63 ≤ v ∧ v < 2 ^ 63) :
    parseHashSliceValue (boundText o) = some (boundValue o) := by
  cases o with
  | none => rfl
  | some v =>
    unfold parseHashSliceValue boundText boundValue
    have hne : fmtInt v ≠ [] := by
      unfold fmtInt; split
      · simp
      · exact fmtNat_ne_nil _
    rw [if_neg hne, parseInt64_fmtInt v (h v rfl)]

/-- **The hash slice `start:end`, `start:`, `:end`, `:` as Gaea reads it.** -/
theorem parse_hash_slice_pair (s e : Option Int) (hs : ∀ v, s = some v → -2 ^ 63 ≤ v ∧ v < 2 ^ 63)
    (he : ∀ v, e = some v → -2 ^ 63 ≤ v ∧ v < 2 ^ 63) :
    parseHashSliceStartEnd (boundText s ++ 58 :: boundText e) = .ok (boundValue s, boundValue e) := by
  obtain ⟨s1, s2, _⟩ := bytes_facts _ (boundText_bytes s)
  obtain ⟨e1, e2, _⟩ := bytes_facts _ (boundText_bytes e)
  unfold parseHashSliceStartEnd
  rw [trimSpace_id _ (by
    intro b hb
    rcases List.mem_append.mp hb with h | h
    · exact s2 b h
    · rcases List.mem_cons.mp h with h | h
      · subst h; decide
      · exact e2 b h)]
  rw [splitOn58_pair _ _ s1 e1]
  simp only
  rw [parseHashSliceValue_bound s hs, parseHashSliceValue_bound e he]

/-- The hash slice written as one number `n`: `(0, n)` for `n ≥ 0`, `(n, 0)` otherwise. -/
theorem parse_hash_slice_single (n : Int) (hn : -2 ^ 63 ≤ n ∧ n < 2 ^ 63) :
    parseHashSliceStartEnd (fmtInt n) = .ok (if n ≥ 0 then (0, n) else (n, 0)) := by
  obtain ⟨s1, s2, _⟩ := bytes_facts _ (fmtInt_bytes n)
  unfold parseHashSliceStartEnd
  rw [trimSpace_id _ s2, splitOn58_single _ s1]
  simp only
  rw [parseInt64_fmtInt n hn]
  simp only
  split <;> rfl


theorem cutColon_none (a : List Nat) (h : ∀ b ∈ a, b ≠ 58) : MycatSpec.cutColon a = none := by
  induction a with
  | nil => rfl
  | cons x xs ih =>
    have hx : x ≠ 58 := h x (by simp)
    simp [MycatSpec.cutColon, hx, ih (fun b hb => h b (by simp [hb]))]

theorem cutColon_some (a b : List Nat) (h : ∀ x ∈ a, x ≠ 58) : MycatSpec.cutColon (a ++ 58 :: b) = some (a, b) := by
  induction a with
  | nil => simp [MycatSpec.cutColon]
  | cons x xs ih =>
    have hx : x ≠ 58 := h x (by simp)
    simp [MycatSpec.cutColon, hx, ih (fun b hb => h b (by simp [hb]))]

theorem specParseInt_fmtInt (v : Int) (h : -2 ^ 31 ≤ v ∧ v < 2 ^ 31) : MycatSpec.parseInt (fmtInt v) = some v := by
  unfold MycatSpec.parseInt
  rw [bigInteger_eq, parseBigDec_fmtInt]
  simp only
  rw [if_pos ⟨by omega, by omega⟩]

theorem specBound (o : Option Int) (h : ∀ v, o = some v → -2 ^ 31 ≤ v ∧ v < 2 ^ 31) :
    (if (MycatSpec.trim (boundText o)).length ≤ 0 then some 0 else MycatSpec.parseInt (MycatSpec.trim (boundText o))) =
      some (boundValue o) := by
  obtain ⟨_, _, h3⟩ := bytes_facts _ (boundText_bytes o)
  rw [trim_id _ h3]
  cases o with
  | none => rfl
  | some v =>
    unfold boundText boundValue
    have hne : fmtInt v ≠ [] := by
      unfold fmtInt; split
      · simp
      · exact fmtNat_ne_nil _
    have : ¬ (fmtInt v).length ≤ 0 := by
      intro hl; apply hne; exact List.length_eq_zero_iff.mp (by omega)
    rw [if_neg this, specParseInt_fmtInt v (h v rfl)]

/-- Mycat's `sequenceSlicing` reads the same pair from the same text. -/
theorem spec_hash_slice_pair (s e : Option Int) (hs : ∀ v, s = some v → -2 ^ 31 ≤ v ∧ v < 2 ^ 31)
    (he : ∀ v, e = some v → -2 ^ 31 ≤ v ∧ v < 2 ^ 31) :
    MycatSpec.sequenceSlicing (boundText s ++ 58 :: boundText e) = some (boundValue s, boundValue e) := by
  obtain ⟨s1, _, _⟩ := bytes_facts _ (boundText_bytes s)
  unfold MycatSpec.sequenceSlicing
  rw [cutColon_some _ _ s1]
  simp only
  rw [specBound s hs, specBound e he]

theorem spec_hash_slice_single (n : Int) (hn : -2 ^ 31 ≤ n ∧ n < 2 ^ 31) :
    MycatSpec.sequenceSlicing (fmtInt n) = some (if n ≥ 0 then (0, n) else (n, 0)) := by
  obtain ⟨s1, _, s3⟩ := bytes_facts _ (fmtInt_bytes n)
  unfold MycatSpec.sequenceSlicing
  rw [cutColon_none _ s1]
  simp only
  rw [trim_id _ s3, specParseInt_fmtInt n hn]
  rfl

/-- The canonical spellings are read identically by Gaea and by Mycat: "1:2", "-3:-1", "1:", ":-1", ":", "2". -/
example : parseHashSliceStartEnd (boundText (some (-3)) ++ 58 :: boundText (some (-1))) = .ok (-3, -1) ∧
    MycatSpec.sequenceSlicing (boundText (some (-3)) ++ 58 :: boundText (some (-1))) = some (-3, -1) :=
  ⟨parse_hash_slice_pair _ _ (by intro v h; cases h; omega) (by intro v h; cases h; omega),
   spec_hash_slice_pair _ _ (by intro v h; cases h; omega) (by intro v h; cases h; omega)⟩
example : boundText (some 1) ++ 58 :: boundText none = ascii "1:" := by decide

/-- **Tie to the source constants** (regenerated from util/murmur.go and
    shard_mycat.go on every run by `gvh extract`): the constants and literals of
    the current source are those of the model, which are Guava's and Mycat's. -/
theorem source_constants :
    Gen.shardMurmurC1 = ShardPlace.murmurC1.toNat ∧ Gen.shardMurmurC1 = MycatSpec.C1.toNat ∧
    Gen.shardMurmurC2 = ShardPlace.murmurC2.toNat ∧ Gen.shardMurmurC2 = MycatSpec.C2.toNat ∧
    (Gen.shardPartitionLength : Int) = ShardPlace.PartitionLength ∧ Gen.shardPartitionLength = 1024 ∧
    Gen.shardMixK1Lits = [15] ∧ Gen.shardMixH1Lits = [13, 5, 0xe6546b64] ∧
    Gen.shardFmixLits = [16, 0x85ebca6b, 13, 0xc2b2ae35, 16] ∧ Gen.shardRotateLits = [32] := by
  decide

/-- A supplementary-plane key hashes as two chars in Guava. -/
example : MycatSpec.hashUnencodedChars 0#32 (javaValue (.text [0x1F600])) =
    MycatSpec.hashUnencodedChars 0#32 [0xD83D, 0xDE00] := by decide

end GaeaVerif.C08
