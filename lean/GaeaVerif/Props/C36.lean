import GaeaVerif.Model.Fingerprint
import GaeaVerif.Model.FingerprintGrammar
import GaeaVerif.Lemmas.FingerprintSteps
import GaeaVerif.Lemmas.FingerprintBlank
import GaeaVerif.Gen.Consts
/-
  C36 — The SQL blacklist ignores literals, spacing, case and comments.

  Theorems about `Model/Fingerprint.lean` (transliteration of
  mysql.GetFingerprint with blankComments, and of parseBlackSqls /
  Namespace.IsSQLAllowed, tied to /repo by the correspondence check
  `gvh run C36`).

  Statements are taken from the token grammar of `Model/FingerprintGrammar.lean`:
  a statement is a sequence of items, each followed by a separator.
  * A *chunk* is text without blanks: word text (keywords, identifiers,
    operators, punctuation), numeric literals (plain, hex, with exponent `e-5` /
    `e+5`, signed, with a leading dot) and quoted strings (backslash escapes,
    doubled quotes, hex/bit strings `x'0F'`) glued together: `select`, `t.id`,
    `a,`, `>=`, `count(*)`, `id=1`, `name>='it''s'`, `f(1,2)`, `5,10`,
    `(a=-1.5e+3`, `a=x'0F'`.
  * A *value list* is `in`/`value`/`values`, a gap, a parenthesised list
    (balanced parentheses, closed quotes) and any number of further rows
    `, ( … )`; a one-row list may be glued to the chunk after it (`(a in (1))`).
  * A separator / gap is any non-empty sequence of white-space characters
    (blank, tab, CR, LF, VT, FF) and complete comments `/* */`, `-- `, `#`:
    a comment may be glued to the tokens around it, stand between `in` and its
    list, between two rows, and inside the parentheses of a list (where it may
    hold quotes and parentheses).
  Two statements are *variants* of each other if they have the same skeleton
  (`Stmt.skeleton`: the lower-cased word text in order, `?` for every literal,
  `in(?+)` for every value list): they differ only in literal values, letter
  case, amount and kind of white space, comments, and the contents and number
  of rows of value lists.

  * `blank_stmt` (Lemmas/FingerprintBlank.lean): `blankComments` turns the text
    of a statement into the text of the same statement with blanks for comments.
  * `fingerprint_core`: the state machine on a comment-free statement writes
    its skeleton — by symbolic execution (`Lemmas/FingerprintSteps.lean`).
  * `fingerprint_eq_joinSp`: the fingerprint of every statement of the grammar
    is its skeleton joined by single blanks, and `GetFingerprint` does not panic
    — for all statements (any length).
  * `fp_invariant_partial`: variants have the same fingerprint.
  * `fp_discriminates_partial`: statements with different skeletons (another
    table, column, operator, keyword, clause, or number of items) have
    different fingerprints.
  * `blacklist_rejects_variant_partial`, `blacklist_allows_mutant_partial`:
    the same two facts for `IsSQLAllowed` against `parseBlackSqls [entry]`.

  `_partial`: the property quantifies over every SELECT/INSERT/UPDATE/DELETE
  statement; the theorems cover the grammar above.  NOT covered (correspondence
  and oracle only): the words `null` (as a value) / `asc` / `use` and
  `in`/`value(s)` without a list (also behind `ON DUPLICATE KEY UPDATE`, where
  only the glued form `a=values(a)` is covered), the characters
  `: + - / #` inside word text (arithmetic), a word glued behind a number
  (`1and`), a comma or an operator directly after a value
  list.  Two classes in which the code is known to fail remain open
  (`known/C36.json`, `…_witness` theorems below): optional white space around
  operators and punctuation is significant (`id=1` / `id = 1`, pinned by the
  expected strings of mysql/sql_fingerprint_test.go), and the contents of a
  value list are collapsed whatever they are (`a in (1)` / `a in (b)`).
  The model is that of the code after the fix commits of the repository
  worktree listed in known/C36.json (`fixed`); the `…_repaired` theorems record
  the former witnesses.
-/
namespace GaeaVerif.C36
open GaeaVerif.Fingerprint GaeaVerif.FingerprintGrammar GaeaVerif.FingerprintSteps GaeaVerif.FingerprintBlank

theorem renderItems_snoc : ∀ (l : List (Item × Gap)) (x : Item × Gap),
    renderItems (l ++ [x]) = renderItems l ++ (x.1.text ++ gapText x.2) := by
  intro l x
  induction l with
  | nil => simp [renderItems]
  | cons p rest ih => obtain ⟨a, b⟩ := p; simp [renderItems, ih]

theorem text_space (s : Stmt) : s.text ++ [' '] = gapText s.lead ++ renderItems s.allItems := by
  simp [Stmt.text, Stmt.allItems, renderItems_snoc, Stmt.lastSep, gapText, SepPiece.text]

/-! ### The state machine on a comment-free statement -/

theorem clean_init : Clean false 0 ({} : St) := by
  apply Clean.of
  · right; exact ⟨rfl, by decide⟩
  · rfl
  · decide
  · rfl
  · decide
  · simp
  · left; rfl
  · decide
  · rfl
  · intro _; decide
  · rfl
  · rfl

/-- **The state machine writes the skeleton of every comment-free statement
    of the grammar**: the normal form of every item, one blank after each
    separator; it does not panic. -/
theorem fingerprint_core (s : Stmt) (hcore : s.core = true) :
    run (s.text ++ [' ']) (2 * (s.text ++ [' ']).length + 1) 0 {} (s.text ++ [' ']) =
      .ret (trimTrailing (normAll s.allItems)) := by
  simp only [Stmt.core, Bool.and_eq_true] at hcore
  obtain ⟨⟨⟨⟨⟨hlead, hinit⟩, hlast⟩, htail⟩, hctx⟩, hseps⟩ := hcore
  rw [text_space]
  generalize hq : gapText s.lead ++ renderItems s.allItems = q
  have hcap : 2 * q.length < 2 * q.length + 1 := Nat.lt_succ_self _
  -- leading blanks
  obtain ⟨σ1, h1, hc1, hs1⟩ := ws_run q (2 * q.length + 1) (gapText s.lead) 0 {} clean_init (gapText_ws _ hlead)
  -- the items
  have hdrop : q.drop (0 + (gapText s.lead).length) = renderItems s.allItems := by
    rw [← hq]; simp
  have hitems : ∀ p ∈ s.allItems, p.1.core = true ∧ wsGap p.2 = true := by
    intro p hp
    simp only [Stmt.allItems, List.mem_append, List.mem_singleton] at hp
    rcases hp with hp | hp
    · have := List.all_eq_true.mp hinit p hp
      simpa using this
    · subst hp
      refine ⟨hlast, ?_⟩
      simp only [Stmt.lastSep]
      exact wsGap_append _ _ htail (by decide)
  have hmap : s.allItems.map (·.1) = s.items := by simp [Stmt.allItems, Stmt.items]
  obtain ⟨σ2, h2, hf2⟩ := items_run q (2 * q.length + 1) hcap s.allItems false _ σ1 (Or.inl hc1) hdrop hitems
    (by rw [hs1.2, hmap]; exact hctx) hseps
  have e : q = gapText s.lead ++ (renderItems s.allItems ++ []) := by simp [hq]
  conv => lhs; arg 5; rw [e]
  rw [run_of_runSeg q _ _ _ 0 {} σ1 h1, run_of_runSeg q _ _ _ _ σ1 σ2 h2]
  simp [run, hf2, hs1.1]

/-! ### Skeletons determine fingerprints, and are determined by them -/

/-- A skeleton token: not empty, no white space inside. -/
def TokOK (t : List Char) : Prop := t ≠ [] ∧ ∀ c ∈ t, isSpace c = false

theorem trimTrailing_snoc_space (xs : List Char) : trimTrailing (xs ++ [' ']) = trimTrailing xs := by
  simp [trimTrailing, List.dropWhile, isSpace]

theorem trimTrailing_of_last (xs : List Char) (c : Char) (hc : isSpace c = false) :
    trimTrailing (xs ++ [c]) = xs ++ [c] := by
  simp [trimTrailing, List.dropWhile, hc]

theorem joinSkel_eq (sk : List (List Char)) (h : sk ≠ []) : joinSkel sk = joinSp sk ++ [' '] := by
  induction sk with
  | nil => exact absurd rfl h
  | cons t rest ih =>
    cases rest with
    | nil => simp [joinSkel, joinSp]
    | cons u r => rw [joinSkel, ih (by simp)]; simp [joinSp]

theorem joinSp_last (sk : List (List Char)) (h : sk ≠ []) (hok : ∀ t ∈ sk, TokOK t) :
    ∃ xs c, joinSp sk = xs ++ [c] ∧ isSpace c = false := by
  induction sk with
  | nil => exact absurd rfl h
  | cons t rest ih =>
    cases rest with
    | nil =>
      have ht := hok t (by simp)
      refine ⟨t.dropLast, t.getLast ht.1, ?_, ht.2 _ (List.getLast_mem ht.1)⟩
      simp [joinSp, List.dropLast_concat_getLast]
    | cons u r =>
      obtain ⟨xs, c, h1, h2⟩ := ih (by simp) (fun t ht => hok t (by simp [ht]))
      exact ⟨t ++ ' ' :: xs, c, by simp [joinSp, h1], h2⟩

theorem trim_joinSkel (sk : List (List Char)) (hok : ∀ t ∈ sk, TokOK t) :
    trimTrailing (joinSkel sk) = joinSp sk := by
  cases sk with
  | nil => simp [joinSkel, joinSp, trimTrailing]
  | cons t rest =>
    rw [joinSkel_eq _ (by simp), trimTrailing_snoc_space]
    obtain ⟨xs, c, h1, h2⟩ := joinSp_last (t :: rest) (by simp) hok
    rw [h1, trimTrailing_of_last xs c h2]

theorem split_at_space : ∀ (t u x y : List Char), (∀ c ∈ t, isSpace c = false) → (∀ c ∈ u, isSpace c = false) →
    t ++ ' ' :: x = u ++ ' ' :: y → t = u ∧ x = y := by
  intro t
  induction t with
  | nil =>
    intro u x y _ hu h
    cases u with
    | nil => simpa using h
    | cons c u' =>
      simp only [List.nil_append, List.cons_append, List.cons.injEq] at h
      have := hu c (by simp); rw [← h.1] at this; exact absurd this (by decide)
  | cons a t' ih =>
    intro u x y ht hu h
    cases u with
    | nil =>
      simp only [List.nil_append, List.cons_append, List.cons.injEq] at h
      have := ht a (by simp); rw [h.1] at this; exact absurd this (by decide)
    | cons c u' =>
      simp only [List.cons_append, List.cons.injEq] at h
      obtain ⟨h1, h2⟩ := ih u' x y (fun c hc => ht c (by simp [hc])) (fun c hc => hu c (by simp [hc])) h.2
      exact ⟨by rw [h.1, h1], h2⟩

theorem no_space_inside (t u y : List Char) (ht : ∀ c ∈ t, isSpace c = false) : t ≠ u ++ ' ' :: y := by
  intro h
  have := ht ' ' (by rw [h]; simp)
  exact absurd this (by decide)

/-- Joining with single blanks is injective on well-formed skeletons. -/
theorem joinSp_inj : ∀ (a b : List (List Char)), (∀ t ∈ a, TokOK t) → (∀ t ∈ b, TokOK t) →
    joinSp a = joinSp b → a = b := by
  intro a
  induction a with
  | nil =>
    intro b _ hb h
    cases b with
    | nil => rfl
    | cons u r =>
      cases r with
      | nil => simp only [joinSp] at h; exact absurd h.symm (hb u (by simp)).1
      | cons v r' => simp [joinSp] at h
  | cons t rest ih =>
    intro b ha hb h
    have ht := ha t (by simp)
    cases b with
    | nil =>
      cases rest with
      | nil => simp only [joinSp] at h; exact absurd h ht.1
      | cons v r' => simp [joinSp] at h
    | cons u r =>
      have hu := hb u (by simp)
      cases rest with
      | nil =>
        cases r with
        | nil => simp only [joinSp] at h; rw [h]
        | cons v r' =>
          simp only [joinSp] at h
          exact absurd h (no_space_inside t u _ ht.2)
      | cons v rest' =>
        cases r with
        | nil =>
          simp only [joinSp] at h
          exact absurd h.symm (no_space_inside u t _ hu.2)
        | cons w r' =>
          simp only [joinSp] at h
          obtain ⟨h1, h2⟩ := split_at_space t u _ _ ht.2 hu.2 h
          have := ih (w :: r') (fun t ht => ha t (by simp [ht])) (fun t ht => hb t (by simp [ht])) h2
          rw [h1, this]

theorem toLower_ne (c x : Char) (hx : x.val.toNat < 65) (hc : c ≠ x) : c.toLower ≠ x := by
  unfold Char.toLower
  split
  · rename_i h
    intro e
    have := congrArg (fun c : Char => c.val.toNat) e
    simp only [UInt32.toNat_add] at this
    have h1 := UInt32.le_iff_toNat_le.mp h.1
    have h2 := UInt32.le_iff_toNat_le.mp h.2
    have e1 : ('a'.val - 'A'.val).toNat = 32 := by decide
    have e2 : 'A'.val.toNat = 65 := by decide
    have e3 : 'Z'.val.toNat = 90 := by decide
    rw [e1] at this
    rw [e2] at h1
    rw [e3] at h2
    omega
  · exact hc

theorem toLower_space (c : Char) (h : isSpace c = false) : isSpace c.toLower = false := by
  simp only [isSpace, Bool.or_eq_false_iff, decide_eq_false_iff_not] at h ⊢
  obtain ⟨⟨⟨⟨⟨h1, h2⟩, h3⟩, h4⟩, h5⟩, h6⟩ := h
  exact ⟨⟨⟨⟨⟨toLower_ne c ' ' (by decide) h1, toLower_ne c '\t' (by decide) h2⟩, toLower_ne c '\r' (by decide) h3⟩,
    toLower_ne c '\n' (by decide) h4⟩, toLower_ne c (Char.ofNat 11) (by decide) h5⟩,
    toLower_ne c (Char.ofNat 12) (by decide) h6⟩

theorem lower_word_tokOK (w : List Char) (h : wordShape w = true) : TokOK (lower w) := by
  cases w with
  | nil => simp [wordShape] at h
  | cons c rest =>
    simp only [wordShape, Bool.and_eq_true] at h
    obtain ⟨⟨hfirst, hchain⟩, _⟩ := h
    refine ⟨by simp [lower], ?_⟩
    intro x hx
    simp only [lower, List.mem_map] at hx
    obtain ⟨y, hy, rfl⟩ := hx
    apply toLower_space
    apply isSpace_of_not_bad
    rcases List.mem_cons.mp hy with hy | hy
    · rw [hy]
      simp only [okFirst, Bool.and_eq_true, Bool.not_eq_true'] at hfirst
      exact hfirst.1.1
    · exact chainOK_notBad c rest hchain _ hy


/-! ### Normal forms are blank-free tokens -/

theorem tokOK_append (a b : List Char) (ha : TokOK a) (hb : ∀ c ∈ b, isSpace c = false) : TokOK (a ++ b) := by
  refine ⟨by simp [ha.1], ?_⟩
  intro c hc
  rcases List.mem_append.mp hc with hc | hc
  · exact ha.2 c hc
  · exact hb c hc

theorem segNorm_tok (x : Seg) (ctx : SegCtx) (rest : List Seg) (h : segsOK ctx (x :: rest) = true) : TokOK x.norm := by
  cases x with
  | w t =>
    simp only [segsOK, Bool.and_eq_true] at h
    exact lower_word_tokOK t h.1.2
  | n t => exact ⟨by simp [Seg.norm], by intro c hc; simp [Seg.norm] at hc; subst hc; decide⟩
  | s t => exact ⟨by simp [Seg.norm], by intro c hc; simp [Seg.norm] at hc; subst hc; decide⟩
  | p _ t => exact ⟨by simp [Seg.norm], by intro c hc; simp [Seg.norm] at hc; subst hc; decide⟩

theorem segsOK_tail (x : Seg) (ctx : SegCtx) (rest : List Seg) (h : segsOK ctx (x :: rest) = true) :
    ∃ ctx', segsOK ctx' rest = true ∧ ctx' ≠ .start := by
  cases x with
  | w t =>
    simp only [segsOK, Bool.and_eq_true] at h
    cases hl : t.getLast? with
    | none => rw [hl] at h; cases h.2
    | some a => rw [hl] at h; exact ⟨_, h.2, by simp⟩
  | n t => simp only [segsOK, Bool.and_eq_true] at h; exact ⟨_, h.2, by simp⟩
  | s t => simp only [segsOK, Bool.and_eq_true] at h; exact ⟨_, h.2, by simp⟩
  | p c t => simp only [segsOK, Bool.and_eq_true] at h; exact ⟨_, h.2, by simp⟩

theorem segsNorm_nospace : ∀ (segs : List Seg) (ctx : SegCtx), segsOK ctx segs = true →
    ∀ c ∈ segsNorm segs, isSpace c = false := by
  intro segs
  induction segs with
  | nil => intro _ _ c hc; simp [segsNorm] at hc
  | cons x rest ih =>
    intro ctx h c hc
    rw [segsNorm_cons] at hc
    rcases List.mem_append.mp hc with hc | hc
    · exact (segNorm_tok x ctx rest h).2 c hc
    · obtain ⟨ctx', h', _⟩ := segsOK_tail x ctx rest h
      exact ih ctx' h' c hc

theorem norm_tokOK (it : Item) (h : it.shapeOK = true) : TokOK it.norm := by
  cases it with
  | chunk segs =>
    cases segs with
    | nil => simp [Item.shapeOK, segsOK] at h
    | cons x rest =>
      simp only [Item.shapeOK] at h
      obtain ⟨ctx', h', _⟩ := segsOK_tail x .start rest h
      simp only [Item.norm, segsNorm_cons]
      exact tokOK_append _ _ (segNorm_tok x .start rest h) (segsNorm_nospace rest ctx' h')
  | vlist kw gap content rows =>
    simp only [Item.shapeOK, kwShape, Bool.and_eq_true] at h
    have hk := lower_word_tokOK kw h.1.1.1.1.1
    simp only [Item.norm]
    apply tokOK_append _ _ hk
    intro c hc
    split at hc <;> simp at hc <;> rcases hc with rfl | rfl | rfl | rfl <;> decide

theorem skelOf_ne_nil : ∀ (its : List (Item × Gap)), its ≠ [] → skelOf its ≠ [] := by
  intro its h
  cases its with
  | nil => exact absurd rfl h
  | cons p rest =>
    obtain ⟨it, g⟩ := p
    simp only [skelOf]
    split
    · split <;> simp
    · simp

theorem skelOf_tokOK : ∀ (its : List (Item × Gap)), (∀ p ∈ its, p.1.shapeOK = true) →
    ∀ t ∈ skelOf its, TokOK t := by
  intro its
  induction its with
  | nil => intro _ t ht; simp [skelOf] at ht
  | cons p rest ih =>
    intro h t ht
    obtain ⟨it, g⟩ := p
    have hn := norm_tokOK it (h (it, g) (by simp))
    have ihr := ih (fun p hp => h p (by simp [hp]))
    simp only [skelOf] at ht
    split at ht
    · split at ht
      · simp only [List.mem_singleton] at ht; subst ht; exact hn
      · rename_i t0 ts hsk
        rcases List.mem_cons.mp ht with ht | ht
        · subst ht
          exact tokOK_append _ _ hn (ihr t0 (by rw [hsk]; simp)).2
        · exact ihr t (by rw [hsk]; simp [ht])
    · rcases List.mem_cons.mp ht with ht | ht
      · subst ht; exact hn
      · exact ihr t ht

/-- The concatenated normal forms are the skeleton, one blank after each token. -/
theorem normAll_eq : ∀ (its : List (Item × Gap)), sepsOK its = true → normAll its = joinSkel (skelOf its) := by
  intro its
  induction its with
  | nil => intro _; rfl
  | cons p rest ih =>
    intro h
    obtain ⟨it, g⟩ := p
    simp only [sepsOK, Bool.and_eq_true] at h
    obtain ⟨⟨h1, _⟩, h3⟩ := h
    have ihr := ih h3
    simp only [normAll, skelOf]
    cases hg : g.isEmpty with
    | true =>
      rw [hg] at h1
      simp only [if_true, Bool.and_eq_true, Bool.not_eq_true', List.isEmpty_eq_false_iff] at h1
      have hne := skelOf_ne_nil rest h1.2
      cases hsk : skelOf rest with
      | nil => exact absurd hsk hne
      | cons t ts =>
        rw [hsk] at ihr
        simp [ihr, joinSkel]
    | false => simp [ihr, joinSkel]

theorem skeleton_tokOK (s : Stmt) (hok : s.ok = true) : ∀ t ∈ s.skeleton, TokOK t :=
  skelOf_tokOK s.allItems (allItems_shape s hok)

/-! ### The fingerprint of a statement of the grammar -/

theorem core_seps (s : Stmt) (h : s.core = true) : sepsOK s.allItems = true := by
  simp only [Stmt.core, Bool.and_eq_true] at h; exact h.2

/-- **The fingerprint of every statement of the grammar is its skeleton
    joined by single blanks**, and `GetFingerprint` does not panic on it. -/
theorem fingerprint_eq_joinSp (s : Stmt) (hok : s.ok = true) :
    getFingerprint s.text = .ret (joinSp s.skeleton) := by
  obtain ⟨hcore, hskel⟩ := toCore_core s hok
  have hrun := fingerprint_core s.toCore hcore
  unfold getFingerprint
  simp only
  rw [blank_stmt s hok, hrun, normAll_eq _ (core_seps _ hcore)]
  have : skelOf s.toCore.allItems = s.skeleton := hskel
  rw [this, trim_joinSkel _ (skeleton_tokOK s hok)]

/-- `fingerprint_eq_joinSp` with the trailing-blank form of the skeleton. -/
theorem fingerprint_of_stmt (s : Stmt) (hok : s.ok = true) :
    getFingerprint s.text = .ret (trimTrailing (joinSkel s.skeleton)) := by
  rw [fingerprint_eq_joinSp s hok, trim_joinSkel _ (skeleton_tokOK s hok)]

/-- **C36, invariance (partial: the statements of the grammar).**  Two
    statements with the same skeleton — they differ only in literal values,
    letter case, white space, comments (glued or not, around and inside value
    lists) and the contents and rows of value lists — have the same
    fingerprint, and `GetFingerprint` panics on neither. -/
theorem fp_invariant_partial (a b : Stmt) (ha : a.ok = true) (hb : b.ok = true)
    (hsk : a.skeleton = b.skeleton) :
    getFingerprint a.text = getFingerprint b.text ∧ getFingerprint a.text ≠ .panic := by
  rw [fingerprint_eq_joinSp a ha, fingerprint_eq_joinSp b hb, hsk]
  exact ⟨rfl, by simp⟩

/-- **C36, discrimination (partial: the statements of the grammar).**
    Statements with different skeletons (a different identifier, operator,
    keyword, or a different number of items) have different fingerprints. -/
theorem fp_discriminates_partial (a b : Stmt) (ha : a.ok = true) (hb : b.ok = true)
    (hsk : a.skeleton ≠ b.skeleton) :
    getFingerprint a.text ≠ getFingerprint b.text := by
  rw [fingerprint_eq_joinSp a ha, fingerprint_eq_joinSp b hb]
  intro h
  apply hsk
  exact joinSp_inj _ _ (skeleton_tokOK a ha) (skeleton_tokOK b hb) (by simpa using h)

/-! ### The blacklist -/

theorem segsText_ne_nil (segs : List Seg) (ctx : SegCtx) (h : segsOK ctx segs = true) (hne : segs ≠ []) :
    segsText segs ≠ [] := by
  cases segs with
  | nil => exact absurd rfl hne
  | cons x rest =>
    rw [segsText_cons]
    cases x with
    | w t =>
      simp only [segsOK, Bool.and_eq_true] at h
      cases t with
      | nil => simp [wordShape] at h
      | cons _ _ => simp [Seg.text]
    | n t =>
      simp only [segsOK, Bool.and_eq_true] at h
      cases t with
      | nil => simp [numShape] at h
      | cons _ _ => simp [Seg.text]
    | s t =>
      simp only [segsOK, Bool.and_eq_true] at h
      cases t with
      | nil => simp [strShape] at h
      | cons _ _ => simp [Seg.text]
    | p c t => simp [Seg.text]

theorem stmt_text_ne_nil (s : Stmt) (hok : s.ok = true) : s.text.length ≠ 0 := by
  simp only [Stmt.ok, Bool.and_eq_true] at hok
  obtain ⟨⟨⟨⟨_, hlast⟩, _⟩, _⟩, _⟩ := hok
  have : s.last.text ≠ [] := by
    cases hl : s.last with
    | chunk segs =>
      rw [hl] at hlast
      simp only [Item.shapeOK] at hlast
      have hne : segs ≠ [] := by intro e; subst e; simp [segsOK] at hlast
      exact segsText_ne_nil segs .start hlast hne
    | vlist kw gap content rows =>
      simp only [Item.text]
      intro e
      have := congrArg List.length e
      simp at this
  have hpos : 0 < s.last.text.length := List.length_pos_iff.mpr this
  simp only [Stmt.text, List.length_append]
  omega

/-- **C36, blacklist (partial).**  If the (trimmed) blacklist entry is a
    statement of the grammar, every statement of the grammar with the same
    skeleton is rejected — whatever hash function `md5` is. -/
theorem blacklist_rejects_variant_partial (md5 : List Char → List Char) (entry : List Char) (a b : Stmt)
    (ha : a.ok = true) (hb : b.ok = true) (hentry : trimSpace entry = a.text)
    (hsk : a.skeleton = b.skeleton) :
    ∃ m, parseBlackSqls md5 [entry] = some m ∧ isSQLAllowed md5 m b.text = some false := by
  refine ⟨[(md5 (joinSp a.skeleton), joinSp a.skeleton)], ?_, ?_⟩
  · simp [parseBlackSqls, hentry, stmt_text_ne_nil a ha, fingerprint_eq_joinSp a ha]
  · simp [isSQLAllowed, fingerprint_eq_joinSp b hb, hsk]

/-- **C36, blacklist (partial).**  A statement of the grammar whose skeleton
    differs from that of the entry is allowed, provided `md5` does not collide
    on the two fingerprints. -/
theorem blacklist_allows_mutant_partial (md5 : List Char → List Char) (entry : List Char) (a b : Stmt)
    (ha : a.ok = true) (hb : b.ok = true) (hentry : trimSpace entry = a.text)
    (hsk : a.skeleton ≠ b.skeleton)
    (hmd5 : md5 (joinSp a.skeleton) = md5 (joinSp b.skeleton) → joinSp a.skeleton = joinSp b.skeleton) :
    ∃ m, parseBlackSqls md5 [entry] = some m ∧ isSQLAllowed md5 m b.text = some true := by
  refine ⟨[(md5 (joinSp a.skeleton), joinSp a.skeleton)], ?_, ?_⟩
  · simp [parseBlackSqls, hentry, stmt_text_ne_nil a ha, fingerprint_eq_joinSp a ha]
  · have hne : joinSp a.skeleton ≠ joinSp b.skeleton := by
      intro h
      exact hsk (joinSp_inj _ _ (skeleton_tokOK a ha) (skeleton_tokOK b hb) h)
    have : md5 (joinSp a.skeleton) ≠ md5 (joinSp b.skeleton) := fun h => hne (hmd5 h)
    simp [isSQLAllowed, fingerprint_eq_joinSp b hb, this]


/-! ### Non-vacuity: concrete statements of the grammar -/

section Examples

private def sp1 : Gap := [.ws ' ']
/-- `/*a/b */ -- x⏎# y⏎`: the first comment is glued to the token in front of it -/
private def spBusy : Gap := [.mlc "a/b */".toList, .ws ' ', .dash ' ' "x\n".toList, .hash " y\n".toList]
/-- a comment as the only separator -/
private def spGlued : Gap := [.mlc " it's ( */".toList]
private def wd (s : String) : Item := .chunk [.w s.toList]
private def nm (s : String) : Item := .chunk [.n s.toList]
private def st (s : String) : Item := .chunk [.s s.toList]

/-- `select c, count(*) from t where id = 1 and name >= 'x' order by c desc limit 10` -/
private def exA : Stmt :=
  { lead := []
    init := [(wd "select", sp1), (wd "c,", sp1), (wd "count(*)", sp1), (wd "from", sp1), (wd "t", sp1),
             (wd "where", sp1), (wd "id", sp1), (wd "=", sp1), (nm "1", sp1), (wd "and", sp1),
             (wd "name", sp1), (wd ">=", sp1), (st "'x'", sp1), (wd "order", sp1), (wd "by", sp1),
             (wd "c", sp1), (wd "desc", sp1), (wd "limit", sp1)]
    last := nm "10"
    tail := [] }

/-- The same statement with other literals, other letter case, other white
    space, and comments of all three kinds, glued to the tokens or not. -/
private def exB : Stmt :=
  { lead := [.ws ' ', .mlc " lead */".toList]
    init := [(wd "SELECT", spBusy), (wd "c,", spGlued), (wd "COUNT(*)", spBusy), (wd "From", sp1), (wd "t", spBusy),
             (wd "WHERE", [.ws '\x0b']), (wd "id", spGlued), (wd "=", spBusy), (nm "0x1F", spBusy), (wd "AND", sp1),
             (wd "name", sp1), (wd ">=", spGlued), (st "\"it''s \\\" \"\" -- /* no comment */\"", spBusy),
             (wd "ORDER", sp1), (wd "BY", spBusy), (wd "c", sp1), (wd "DESC", [.hash "\n".toList]), (wd "LIMIT", spGlued)]
    last := nm "2.5e+3"
    tail := [.dash '\t' " the end\n".toList, .ws '\x0c'] }

/-- A structural mutant of `exA`: another operator. -/
private def exC : Stmt := { exA with init := exA.init.map fun p => if p.1 = wd "=" then (wd "<>", p.2) else p }

example : exA.text = "select c, count(*) from t where id = 1 and name >= 'x' order by c desc limit 10".toList := by
  decide
example : exB.text.take 49 = " /* lead */SELECT/*a/b */ -- x\n# y\nc,/* it's ( */".toList := by decide
example : exA.ok = true ∧ exB.ok = true ∧ exC.ok = true := by decide
example : exA.skeleton = exB.skeleton ∧ exA.skeleton ≠ exC.skeleton := by decide

/-- The hypotheses of `fp_invariant_partial` are satisfiable by two really
    different texts. -/
example : getFingerprint exA.text = getFingerprint exB.text ∧ exA.text ≠ exB.text :=
  ⟨(fp_invariant_partial exA exB (by decide) (by decide) (by decide)).1, by decide⟩

example : getFingerprint exA.text ≠ getFingerprint exC.text :=
  fp_discriminates_partial exA exC (by decide) (by decide) (by decide)

example : getFingerprint exB.text =
    .ret "select c, count(*) from t where id = ? and name >= ? order by c desc limit ?".toList := by
  rw [fingerprint_eq_joinSp exB (by decide)]; decide

example (md5 : List Char → List Char) :
    ∃ m, parseBlackSqls md5 [" \t".toList ++ exA.text ++ "\n".toList] = some m ∧
      isSQLAllowed md5 m exB.text = some false :=
  blacklist_rejects_variant_partial md5 _ exA exB (by decide) (by decide) (by decide) (by decide)

/-- `update t set a=1 , name='x' where t.id>=10 and f(1,2)<>5 limit 5,10`: literals glued to word text -/
private def exD : Stmt :=
  { lead := []
    init := [(wd "update", sp1), (wd "t", sp1), (wd "set", sp1), (.chunk [.w "a=".toList, .n "1".toList], sp1),
             (wd ",", sp1), (.chunk [.w "name=".toList, .s "'x'".toList], sp1), (wd "where", sp1),
             (.chunk [.w "t.id>=".toList, .n "10".toList], sp1), (wd "and", sp1),
             (.chunk [.w "f(".toList, .n "1".toList, .w ",".toList, .n "2".toList, .w ")<>".toList, .n "5".toList], sp1),
             (wd "limit", sp1)]
    last := .chunk [.n "5".toList, .w ",".toList, .n "10".toList]
    tail := [] }

/-- The same with other literals (signed, leading dot, `e+`, doubled quotes),
    letter case, white space and comments. -/
private def exE : Stmt :=
  { lead := [.hash " batch 7\n".toList]
    init := [(wd "UPDATE", spBusy), (wd "t", sp1), (wd "SET", spGlued), (.chunk [.w "a=".toList, .n "-0x2A".toList], spBusy),
             (wd ",", sp1), (.chunk [.w "NAME=".toList, .p 'x' "'0F'".toList], spBusy), (wd "Where", sp1),
             (.chunk [.w "t.id>=".toList, .n "1e+5".toList], spGlued), (wd "AND", sp1),
             (.chunk [.w "F(".toList, .n ".5".toList, .w ",".toList, .n "+2".toList, .w ")<>".toList, .n "5.".toList], sp1),
             (wd "LIMIT", spBusy)]
    last := .chunk [.n "07".toList, .w ",".toList, .n "1".toList]
    tail := sp1 }

example : exD.text = "update t set a=1 , name='x' where t.id>=10 and f(1,2)<>5 limit 5,10".toList := by decide
example : exD.ok = true ∧ exE.ok = true ∧ exD.skeleton = exE.skeleton ∧ exD.text ≠ exE.text := by decide
example : getFingerprint exE.text = .ret "update t set a=? , name=? where t.id>=? and f(?,?)<>? limit ?,?".toList := by
  rw [fingerprint_eq_joinSp exE (by decide)]; decide

/-- `insert into t (a, b) values (1, 'x)')` and
    `select c from t where (a in(1)) or b IN (2, f(3)) order by c`. -/
private def exF : Stmt :=
  { lead := []
    init := [(wd "insert", sp1), (wd "into", sp1), (wd "t", sp1), (wd "(a,", sp1), (wd "b)", sp1)]
    last := .vlist "values".toList sp1 "1, 'x)'".toList []
    tail := [] }
/-- Several rows, comments between `VALUES` and the list, between the rows
    and inside the parentheses (holding a quote and a parenthesis). -/
private def exG : Stmt :=
  { lead := []
    init := [(wd "INSERT", spBusy), (wd "into", sp1), (wd "t", sp1), (wd "(a,", spBusy), (wd "b)", spGlued)]
    last := .vlist "VALUES".toList [.mlc " v */".toList] "/* it's ( */ '(((', (2 + 3) * 4 -- )\n".toList
      [{ g1 := [.ws ' '], g2 := [.hash " next (\n".toList], content := "'a''b', f(3)".toList },
       { g1 := [], g2 := [], content := "".toList }]
    tail := sp1 }
private def exH : Stmt :=
  { lead := []
    init := [(wd "select", sp1), (wd "c", sp1), (wd "from", sp1), (wd "t", sp1), (wd "where", sp1), (wd "(a", sp1),
             (.vlist "in".toList [] "1".toList [], []), (wd ")", sp1), (wd "or", sp1), (wd "b", sp1),
             (.vlist "IN".toList sp1 "2, f(3)".toList [], sp1), (wd "order", sp1), (wd "by", sp1)]
    last := wd "c"
    tail := [] }

example : exF.text = "insert into t (a, b) values (1, 'x)')".toList := by decide
example : exG.text.drop 66 =
    "VALUES/* v */(/* it's ( */ '(((', (2 + 3) * 4 -- )\n) ,# next (\n('a''b', f(3)),() ".toList := by decide
example : exH.text = "select c from t where (a in(1)) or b IN (2, f(3)) order by c".toList := by decide
example : exF.ok = true ∧ exG.ok = true ∧ exH.ok = true ∧ exF.skeleton = exG.skeleton ∧ exF.text ≠ exG.text := by
  decide
example : getFingerprint exG.text = .ret "insert into t (a, b) values(?+)".toList := by
  rw [fingerprint_eq_joinSp exG (by decide)]; decide
example : getFingerprint exH.text = .ret "select c from t where (a in(?+)) or b in(?+) order by c".toList := by
  rw [fingerprint_eq_joinSp exH (by decide)]; decide

/-- `insert into t values (1), (2) on duplicate key update a=values(a), b = 3`:
    behind `ON DUPLICATE KEY UPDATE`, `values(a)` is word text. -/
private def exI : Stmt :=
  { lead := []
    init := [(wd "insert", sp1), (wd "into", sp1), (wd "t", sp1),
             (.vlist "values".toList sp1 "1".toList [{ g1 := [], g2 := sp1, content := "2".toList }], sp1),
             (wd "on", sp1), (wd "duplicate", sp1), (wd "key", sp1), (wd "update", sp1), (wd "a=values(a),", sp1),
             (wd "b", sp1), (wd "=", sp1)]
    last := nm "3"
    tail := [] }
private def exJ : Stmt :=
  { lead := []
    init := [(wd "INSERT", sp1), (wd "INTO", sp1), (wd "t", spGlued),
             (.vlist "VALUES".toList [] " 7 /* one row */".toList [], spBusy),
             (wd "ON", sp1), (wd "DUPLICATE", sp1), (wd "KEY", spGlued), (wd "UPDATE", spBusy), (wd "a=VALUES(a),", sp1),
             (wd "b", sp1), (wd "=", sp1)]
    last := st "'x'"
    tail := sp1 }

example : exI.text = "insert into t values (1), (2) on duplicate key update a=values(a), b = 3".toList := by decide
example : exI.ok = true ∧ exJ.ok = true ∧ exI.skeleton = exJ.skeleton := by decide
example : getFingerprint exJ.text = .ret "insert into t values(?+) on duplicate key update a=values(a), b = ?".toList := by
  rw [fingerprint_eq_joinSp exJ (by decide)]; decide

end Examples

/-! ### Facts of the source the model depends on (regenerated on every run) -/

/-- The model fixes `ReplaceNumbersInWords` to the value the source gives it,
    and nothing outside the tests assigns it. -/
theorem replaceNumbersInWords_as_in_source :
    replaceNumbersInWords = Gen.c36ReplaceNumbersInWords ∧ Gen.c36ReplaceNumbersInWordsWrites = 0 := by
  decide

/-- `isSpace` of the model accepts exactly the runes of the source's `isSpace`
    (blank, tab, CR, LF, VT, FF — the white space of `strings.TrimSpace` on
    ASCII text, `isTrimSpace`), and the model has as many parser states as the
    source. -/
theorem isSpace_as_in_source :
    (∀ c : Char, isSpace c = true → c.toNat ∈ Gen.c36SpaceRunes) ∧
      (∀ n ∈ Gen.c36SpaceRunes, isSpace (Char.ofNat n) = true) ∧ Gen.c36StateCount = 18 ∧
      (∀ c : Char, isSpace c = isTrimSpace c) := by
  refine ⟨?_, by decide, by decide, ?_⟩
  · intro c h
    rcases isSpace_cases h with h | h | h | h | h | h <;> subst h <;> decide
  · intro c
    simp only [isSpace, isTrimSpace]
    by_cases h1 : c = ' ' <;> by_cases h2 : c = '\t' <;> by_cases h3 : c = '\r' <;> by_cases h4 : c = '\n' <;>
      by_cases h5 : c = Char.ofNat 11 <;> by_cases h6 : c = Char.ofNat 12 <;> simp [h1, h2, h3, h4, h5, h6]

/-! ### Witnesses: shapes on which the current code still fails

Each theorem exhibits, on the model of the current code, a blacklist entry and a
statement that differs from it only in white space (or, for over-blocking, in
structure) on which `IsSQLAllowed` answers wrongly (`known/C36.json` lists the
classes; the same pairs are replayed against the implementation from
`corpus/C36`). -/

/-- `IsSQLAllowed` of `stmt` against the blacklist `[entry]` (md5 := identity). -/
def allowedAgainst (entry stmt : String) : Option Bool :=
  match parseBlackSqls id [entry.toList] with
  | some m => isSQLAllowed id m stmt.toList
  | none => none

/-- Optional white space is significant (the expected strings of
    mysql/sql_fingerprint_test.go pin both `a = ?` and `b=?`). -/
theorem optional_space_witness :
    allowedAgainst "select c from t where id=1" "select c from t where id = 1" = some true ∧
      allowedAgainst "select a, b from t" "select a,b from t" = some true ∧
      allowedAgainst "select a,b from t" "select a,/* x */b from t" = some true := by decide

/-- Over-blocking: the contents of an `IN (…)` list are collapsed, so a
    statement that compares with another column is rejected by an entry that
    compares with a literal. -/
theorem mutant_rejected_list_content_witness :
    allowedAgainst "select c from t where a in (1)" "select c from t where a in (b)" = some false := by decide

/-! ### Former witnesses: shapes the fix commits repaired

The pairs of the witness theorems of the 21 classes that were open before the
fix commits a52008b … 79070a8 (known/C36.json, `fixed`): the variant is now
rejected.  (Most of them are instances of `blacklist_rejects_variant_partial`;
they are kept as concrete regression facts, also replayed from `corpus/C36`.) -/

theorem mlc_glued_repaired :
    allowedAgainst "select c from t" "select c/* x */ from t" = some false ∧
    allowedAgainst "select a, b from t" "select a,/* x */ b from t" = some false ∧
    allowedAgainst "select c from t where a in (1) and b = 2" "select c from t where a in (1)/* x */and b = 2"
      = some false ∧
    allowedAgainst "select c from t where a = 1 and b = 2" "select c from t where a = 1/* x */and b = 2"
      = some false := by decide

theorem hash_glued_repaired :
    allowedAgainst "select c from t" "select c# x\nfrom t" = some false ∧
    allowedAgainst "select a, b from t" "select a,# x\n b from t" = some false ∧
    allowedAgainst "select c from t where a = 1 and b = 2" "select c from t where a = 1# x\nand b = 2" = some false ∧
    allowedAgainst "select c from t where a in (1) and b = 2" "select c from t where a in (1)# x\nand b = 2"
      = some false := by decide

theorem dash_glued_repaired :
    allowedAgainst "select c from t where a in (1) and b = 2" "select c from t where a in (1)-- x\nand b = 2"
      = some false ∧
    allowedAgainst "delete from t" "delete-- x\nfrom t" = some false ∧
    allowedAgainst "select c from t where a = 1 and b = 2" "select c from t where a = 1-- x\nand b = 2" = some false ∧
    allowedAgainst "select c from t where a in (1) and b = 2" "select c from t where a in (1) -- x\nand b = 2"
      = some false := by decide

theorem comment_around_list_repaired :
    allowedAgainst "select c from t where a in (1)" "select c from t where a in /* x */ (1)" = some false ∧
    allowedAgainst "select c from t where a in (1)" "select c from t where a in -- x\n(1)" = some false ∧
    allowedAgainst "select c from t where a in (1)" "select c from t where a in # x\n(1)" = some false ∧
    allowedAgainst "select c from t where a in (1, 2)" "select c from t where a in (1, /* it's */ 2)"
      = some false := by decide

theorem literal_spelling_repaired :
    allowedAgainst "select c from t where a = 'x'" "select c from t where a = 'it''s'" = some false ∧
    allowedAgainst "select c from t where a = 1" "select c from t where a = 1e+5" = some false ∧
    allowedAgainst "select c from t where a = 1" "select c from t where a = .5" = some false ∧
    allowedAgainst "select c from t where a=1" "select c from t where a=x'0F'" = some false ∧
    allowedAgainst "select c from t where a=x'0F'" "select c from t where b=x'0F'" = some true := by decide

theorem vertical_tab_form_feed_repaired :
    allowedAgainst "select c from t" "\x0bselect c from t" = some false ∧
    allowedAgainst "\x0bselect c from t\x0c" "select\x0cc from\x0bt" = some false := by decide

theorem values_rows_blank_repaired :
    allowedAgainst "insert into t values (1), (2) on duplicate key update a=1"
      "insert into t values (1) , (2) on duplicate key update a=1" = some false ∧
    allowedAgainst "insert into t values (1), (2) on duplicate key update a=1"
      "insert into t values (1),(2),(3) on duplicate key update a=1" = some false := by decide

/-- 79070a8: a column named `value` (no value list follows the word). -/
theorem values_word_without_list_repaired :
    allowedAgainst "select value from t" "select value  from t" = some false ∧
    allowedAgainst "select a from t where value = 'x'" "select a from t where value = 'y'" = some false ∧
    allowedAgainst "select a from t where value = 5" "select a from t where value = 6" = some false ∧
    allowedAgainst "select a from t where value = 5" "select a from t where value = 5 and b = 1" = some true := by decide

end GaeaVerif.C36
